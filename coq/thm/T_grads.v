(* C14 — gradients are the derivatives of the distances they accompany: shared lemmas and the first
   family (euclidean, standardised euclidean, manhattan, chebyshev, canberra, bray-curtis), all dimensions.
   Recipe: every distance is a function of running sums  Ssum f x y = sum_j f x_j y_j ; replacing coordinate i
   of x by t changes the sum to  Ssum f x y - f x_i y_i + f t y_i  (Ssum_set_nth), which leaves a one-variable
   function that Coquelicot's auto_derive differentiates. *)
From Coq Require Import List ZArith Reals Lra Lia.
From Coquelicot Require Import Coquelicot.
From UV Require Import Num M_grads.
Import ListNotations.
Local Open Scope R_scope.

Ltac rn := change (T RNum) with R in *.

(* x with coordinate i replaced by t *)
Fixpoint set_nth (x : list R) (i : nat) (t : R) : list R :=
  match x, i with
  | [], _ => []
  | _ :: r, O => t :: r
  | a :: r, S j => a :: set_nth r j t
  end.

Lemma set_nth_length : forall x i t, length (set_nth x i t) = length x.
Proof. induction x; intros [|i] t; simpl; auto. Qed.

Lemma nth_set_nth : forall x i j t, (j < length x)%nat -> (i < length x)%nat ->
  nth j (set_nth x i t) 0 = if Nat.eqb j i then t else nth j x 0.
Proof.
  induction x as [|a x IH]; intros i j t Hj Hi; simpl in *; [lia|].
  destruct i, j; simpl; auto. apply IH; lia.
Qed.

Section SsumDef.
Context {B : Type}.
Fixpoint Ssum (f : R -> B -> R) (x : list R) (y : list B) : R :=
  match x, y with a :: x', b :: y' => f a b + Ssum f x' y' | _, _ => 0 end.

(* the decomposition lemma *)
Lemma Ssum_set_nth (f : R -> B -> R) b0 : forall x y i t, (i < length x)%nat -> (i < length y)%nat ->
  Ssum f (set_nth x i t) y = Ssum f x y - f (nth i x 0) (nth i y b0) + f t (nth i y b0).
Proof.
  induction x as [|a x IH]; intros y i t Hx Hy; simpl in Hx; [lia|].
  destruct y as [|b y]; simpl in Hy; [lia|].
  destruct i as [|i]; simpl.
  - ring.
  - rewrite (IH y i t) by lia. ring.
Qed.

Lemma Ssum_ext (f g : R -> B -> R) : (forall a b, f a b = g a b) -> forall x y, Ssum f x y = Ssum g x y.
Proof. intros H; induction x as [|a x IH]; intros [|b y]; simpl; auto. now rewrite H, IH. Qed.

Lemma Ssum_nonneg (f : R -> B -> R) : (forall a b, 0 <= f a b) -> forall x y, 0 <= Ssum f x y.
Proof.
  intros H; induction x as [|a x IH]; intros [|b y]; simpl; try lra.
  specialize (H a b); specialize (IH y); lra.
Qed.

(* the sum of the other terms is non-negative *)
Lemma Ssum_rest_nonneg (f : R -> B -> R) b0 : (forall a b, 0 <= f a b) -> forall x y i,
  (i < length x)%nat -> (i < length y)%nat -> 0 <= Ssum f x y - f (nth i x 0) (nth i y b0).
Proof.
  intros H; induction x as [|a x IH]; intros [|b y] i Hx Hy; simpl in *; try lia.
  destruct i as [|i].
  - pose proof (Ssum_nonneg f H x y). lra.
  - specialize (IH y i ltac:(lia) ltac:(lia)). specialize (H a b). lra.
Qed.

Lemma fold_acc (f : R -> B -> R) : forall (l : list (R * B)) (a : R),
  fold_left (fun acc p => acc + f (fst p) (snd p)) l a = a + Ssum f (map fst l) (map snd l).
Proof. induction l as [|[u v] l IH]; intros a; simpl; [ring|]. rewrite IH. simpl. ring. Qed.

(* the source's accumulation loop is the sum *)
Lemma acc2_Ssum (f : R -> B -> R) : forall x y, acc2 RNum f x y = Ssum f x y.
Proof.
  intros x y. unfold acc2. cbn.
  change (fold_left (fun (acc : R) (p : R * B) => acc + f (fst p) (snd p)) (combine x y) 0 = Ssum f x y).
  rewrite fold_acc, Rplus_0_l.
  revert y; induction x as [|a x IH]; intros [|b y]; simpl; auto. now rewrite IH.
Qed.

Lemma nth_map2 (g : R -> B -> R) b0 : forall x y i, (i < length x)%nat -> (i < length y)%nat ->
  nth i (map2 RNum g x y) 0 = g (nth i x 0) (nth i y b0).
Proof.
  unfold map2. induction x as [|a x IH]; intros [|b y] i Hx Hy; simpl in *; try lia.
  destruct i; simpl; auto. apply IH; lia.
Qed.
End SsumDef.

Lemma nth_combine (y s : list R) i : length y = length s ->
  nth i (combine y s) (0, 0) = (nth i y 0, nth i s 0).
Proof. intros H. apply combine_nth, H. Qed.

(* ---- signs ------------------------------------------------------------------------------- *)
Lemma nsign_sign a : nsign RNum a = sign a.
Proof.
  unfold nsign. cbn.
  destruct (Rltb a 0) eqn:E; [apply Rltb_true in E | apply Rltb_false in E].
  - rewrite sign_eq_m1 by exact E. reflexivity.
  - destruct (Rltb 0 a) eqn:E2; [apply Rltb_true in E2 | apply Rltb_false in E2].
    + now rewrite sign_eq_1.
    + replace a with 0 by lra. now rewrite sign_0.
Qed.
Lemma usign_sign a : a <> 0 -> usign RNum a = sign a.
Proof.
  intros H. unfold usign. cbn.
  destruct (Rltb a 0) eqn:E; [apply Rltb_true in E | apply Rltb_false in E].
  - rewrite sign_eq_m1 by exact E. reflexivity.
  - rewrite sign_eq_1 by lra. reflexivity.
Qed.

Definition Reps6 : R := 1 / 1000000.
Lemma eps6_R : eps6 RNum = Reps6. Proof. reflexivity. Qed.

(* open conditions hold near a point *)
Lemma locally_neq (a b : R) : a <> b -> locally a (fun t => t <> b).
Proof.
  intros H. assert (He : 0 < Rabs (a - b)) by (apply Rabs_pos_lt; lra).
  exists (mkposreal _ He). intros t Ht. unfold ball in Ht; simpl in Ht. unfold AbsRing_ball, abs, minus, plus, opp in Ht; simpl in Ht.
  intros ->. rewrite <- Rabs_Ropp in Ht. replace (- (b + - a)) with (a - b) in Ht by ring. lra.
Qed.
Lemma locally_between (g : R -> R) x lo hi : continuous g x -> lo < g x < hi -> locally x (fun t => lo < g t < hi).
Proof.
  intros C H. apply (C (fun u => lo < u < hi)).
  assert (He : 0 < Rmin (g x - lo) (hi - g x)) by (apply Rmin_glb_lt; lra).
  exists (mkposreal _ He). intros u Hu. unfold ball in Hu; simpl in Hu. unfold AbsRing_ball, abs, minus, plus, opp in Hu; simpl in Hu.
  pose proof (Rmin_l (g x - lo) (hi - g x)). pose proof (Rmin_r (g x - lo) (hi - g x)).
  apply Rabs_def2 in Hu. lra.
Qed.
Lemma locally_gt (g : R -> R) x lo : continuous g x -> lo < g x -> locally x (fun t => lo < g t).
Proof.
  intros C H. generalize (locally_between g x lo (g x + 1) C ltac:(lra)).
  apply filter_imp. intros t Ht; lra.
Qed.

(* ============================================================================================ *)
(* euclidean_grad: d = sqrt (sum (x_j - y_j)^2), grad_i = (x_i - y_i) / (1e-6 + d)               *)
Definition Fsq (a b : R) : R := (a - b) * (a - b).
Definition euclid (x y : list R) : R := fst (euclidean_grad RNum x y).
Lemma euclid_eq x y : euclid x y = sqrt (Ssum Fsq x y).
Proof. unfold euclid, euclidean_grad. cbv zeta. cbn [fst]. rewrite acc2_Ssum. reflexivity. Qed.

Theorem euclidean_grad_derive : forall x y i, (i < length x)%nat -> (i < length y)%nat ->
  0 < euclid x y ->
  is_derive (fun t => euclid (set_nth x i t) y) (nth i x 0) ((nth i x 0 - nth i y 0) / euclid x y) /\
  nth i (snd (euclidean_grad RNum x y)) 0 =
    (nth i x 0 - nth i y 0) / euclid x y * (euclid x y / (euclid x y + Reps6)).
Proof.
  intros x y i Hx Hy Hd.
  assert (HS : 0 < Ssum Fsq x y).
  { rewrite euclid_eq in Hd. destruct (Rle_or_lt (Ssum Fsq x y) 0) as [H|H]; auto.
    rewrite sqrt_neg_0 in Hd; lra. }
  split.
  - apply (is_derive_ext (fun t => sqrt (Ssum Fsq x y - Fsq (nth i x 0) (nth i y 0) + Fsq t (nth i y 0)))).
    { intros t. rewrite euclid_eq, (Ssum_set_nth Fsq 0) by assumption. reflexivity. }
    rewrite euclid_eq. unfold Fsq. set (S0 := Ssum _ x y) in *. set (xi := nth i x 0). set (yi := nth i y 0).
    auto_derive.
    + replace (S0 - (xi - yi) * (xi - yi) + (xi + - yi) * (xi + - yi)) with S0 by ring. exact HS.
    + replace (S0 - (xi - yi) * (xi - yi) + (xi + - yi) * (xi + - yi)) with S0 by ring.
      assert (sqrt S0 <> 0) by (apply Rgt_not_eq, sqrt_lt_R0, HS). field. assumption.
  - unfold euclidean_grad. cbv zeta. cbn [snd]. rewrite (nth_map2 _ 0) by assumption.
    rewrite acc2_Ssum. rewrite euclid_eq. rewrite euclid_eq in Hd. rn. cbn.
    change (fun a b : R => (a - b) * (a - b)) with Fsq.
    unfold Reps6. set (s := sqrt _) in *. field. lra.
Qed.

(* ============================================================================================ *)
(* standardised_euclidean_grad: d = sqrt (sum (x_j - y_j)^2 / sigma_j),                          *)
(*   grad_i = (x_i - y_i) / (1e-6 + d * sigma_i)                                                  *)
Definition Fsq_s (a : R) (bs : R * R) : R := (a - fst bs) * (a - fst bs) / snd bs.
Definition seuclid (x y sg : list R) : R := fst (standardised_euclidean_grad RNum x y sg).
Lemma seuclid_eq x y sg : seuclid x y sg = sqrt (Ssum Fsq_s x (combine y sg)).
Proof. unfold seuclid, standardised_euclidean_grad. cbv zeta. cbn [fst]. rewrite acc2_Ssum. reflexivity. Qed.

Theorem standardised_euclidean_grad_derive : forall x y sg i, (i < length x)%nat -> (i < length y)%nat ->
  length y = length sg -> 0 < nth i sg 0 -> 0 < seuclid x y sg ->
  let d := seuclid x y sg in
  is_derive (fun t => seuclid (set_nth x i t) y sg) (nth i x 0) ((nth i x 0 - nth i y 0) / (nth i sg 0 * d)) /\
  nth i (snd (standardised_euclidean_grad RNum x y sg)) 0 =
    (nth i x 0 - nth i y 0) / (nth i sg 0 * d) * (d * nth i sg 0 / (d * nth i sg 0 + Reps6)).
Proof.
  intros x y sg i Hx Hy Hl Hsg Hd d.
  assert (Hc : (i < length (combine y sg))%nat) by (rewrite combine_length; lia).
  assert (HS : 0 < Ssum Fsq_s x (combine y sg)).
  { unfold d in *. rewrite seuclid_eq in Hd. destruct (Rle_or_lt (Ssum Fsq_s x (combine y sg)) 0) as [H|H]; auto.
    rewrite sqrt_neg_0 in Hd; lra. }
  split.
  - apply (is_derive_ext (fun t => sqrt (Ssum Fsq_s x (combine y sg) - Fsq_s (nth i x 0) (nth i y 0, nth i sg 0)
                                         + Fsq_s t (nth i y 0, nth i sg 0)))).
    { intros t. rewrite seuclid_eq, (Ssum_set_nth Fsq_s (0, 0)) by assumption. rewrite nth_combine by assumption. reflexivity. }
    unfold d. rewrite seuclid_eq. unfold Fsq_s. cbn [fst snd].
    set (S0 := Ssum _ x _) in *. set (xi := nth i x 0). set (yi := nth i y 0). set (si := nth i sg 0) in *.
    auto_derive.
    + replace (S0 - (xi - yi) * (xi - yi) / si + (xi + - yi) * (xi + - yi) * / si) with S0 by (unfold Rdiv; ring). exact HS.
    + replace (S0 - (xi - yi) * (xi - yi) / si + (xi + - yi) * (xi + - yi) * / si) with S0 by (unfold Rdiv; ring).
      assert (sqrt S0 <> 0) by (apply Rgt_not_eq, sqrt_lt_R0, HS). field. split; lra.
  - unfold standardised_euclidean_grad. cbv zeta. cbn [snd]. rewrite (nth_map2 _ (0, 0)) by assumption.
    rewrite nth_combine by assumption. cbn [fst snd].
    rewrite acc2_Ssum. unfold d in *. rewrite seuclid_eq in *. rn. cbn.
    change (fun (a : R) (bs : R * R) => (a - fst bs) * (a - fst bs) / snd bs) with Fsq_s.
    unfold Reps6. set (s := sqrt _) in *. set (si := nth i sg 0) in *. field. repeat split; try lra.
    assert (0 < s * si) by (apply Rmult_lt_0_compat; lra). lra.
Qed.

(* ============================================================================================ *)
(* manhattan_grad: d = sum |x_j - y_j|, grad_i = sign (x_i - y_i)  (no regulariser)               *)
Definition Fabs (a b : R) : R := Rabs (a - b).
Definition manh (x y : list R) : R := fst (manhattan_grad RNum x y).
Lemma manh_eq x y : manh x y = Ssum Fabs x y.
Proof. unfold manh, manhattan_grad. cbn [fst]. rewrite acc2_Ssum. reflexivity. Qed.

Theorem manhattan_grad_derive : forall x y i, (i < length x)%nat -> (i < length y)%nat ->
  nth i x 0 <> nth i y 0 ->
  is_derive (fun t => manh (set_nth x i t) y) (nth i x 0) (sign (nth i x 0 - nth i y 0)) /\
  nth i (snd (manhattan_grad RNum x y)) 0 = sign (nth i x 0 - nth i y 0).
Proof.
  intros x y i Hx Hy Hne. split.
  - apply (is_derive_ext (fun t => Ssum Fabs x y - Fabs (nth i x 0) (nth i y 0) + Fabs t (nth i y 0))).
    { intros t. rewrite manh_eq, (Ssum_set_nth Fabs 0) by assumption. reflexivity. }
    unfold Fabs. set (S0 := Ssum _ x y). set (xi := nth i x 0) in *. set (yi := nth i y 0) in *.
    auto_derive.
    + lra.
    + replace (xi + - yi) with (xi - yi) by ring. ring.
  - unfold manhattan_grad. cbn [snd]. rewrite (nth_map2 _ 0) by assumption. rn. cbn. apply nsign_sign.
Qed.

(* ============================================================================================ *)
(* canberra_grad: d = sum |x_j - y_j| / (|x_j| + |y_j|) over the coordinates with a positive denominator *)
Lemma canberra_term_eq a b : canberra_term RNum a b = Rabs (a - b) / (Rabs a + Rabs b).
Proof.
  unfold canberra_term. cbv zeta. cbn.
  destruct (Rltb 0 (Rabs a + Rabs b)) eqn:E; [reflexivity | apply Rltb_false in E].
  pose proof (Rabs_pos a). pose proof (Rabs_pos b).
  replace (Rabs a + Rabs b) with 0 by lra. unfold Rdiv. rewrite Rinv_0. ring.
Qed.
Definition canb (x y : list R) : R := fst (canberra_grad RNum x y).
Lemma canb_eq x y : canb x y = Ssum (fun a b => Rabs (a - b) / (Rabs a + Rabs b)) x y.
Proof. unfold canb, canberra_grad. cbn [fst]. rewrite acc2_Ssum. apply Ssum_ext, canberra_term_eq. Qed.

Definition canberra_true (xi yi : R) : R :=
  sign (xi - yi) / (Rabs xi + Rabs yi) - Rabs (xi - yi) * sign xi / ((Rabs xi + Rabs yi) * (Rabs xi + Rabs yi)).

Theorem canberra_grad_derive : forall x y i, (i < length x)%nat -> (i < length y)%nat ->
  nth i x 0 <> nth i y 0 -> nth i x 0 <> 0 ->
  is_derive (fun t => canb (set_nth x i t) y) (nth i x 0) (canberra_true (nth i x 0) (nth i y 0)) /\
  nth i (snd (canberra_grad RNum x y)) 0 = canberra_true (nth i x 0) (nth i y 0).
Proof.
  intros x y i Hx Hy Hne H0.
  set (F := fun a b : R => Rabs (a - b) / (Rabs a + Rabs b)).
  split.
  - apply (is_derive_ext (fun t => Ssum F x y - F (nth i x 0) (nth i y 0) + F t (nth i y 0))).
    { intros t. rewrite canb_eq, (Ssum_set_nth F 0) by assumption. reflexivity. }
    unfold F, canberra_true. set (S0 := Ssum _ x y). set (xi := nth i x 0) in *. set (yi := nth i y 0) in *.
    assert (Hden : 0 < Rabs xi + Rabs yi) by (pose proof (Rabs_pos_lt xi H0); pose proof (Rabs_pos yi); lra).
    auto_derive.
    + repeat split; try lra.
    + replace (xi + - yi) with (xi - yi) by ring. field. lra.
  - unfold canberra_grad. cbn [snd]. rewrite (nth_map2 _ 0) by assumption.
    unfold canberra_gterm, canberra_true. cbv zeta. rn. cbn.
    set (xi := nth i x 0) in *. set (yi := nth i y 0) in *.
    assert (Hden : 0 < Rabs xi + Rabs yi) by (pose proof (Rabs_pos_lt xi H0); pose proof (Rabs_pos yi); lra).
    destruct (Rltb 0 (Rabs xi + Rabs yi)) eqn:E; [| apply Rltb_false in E; lra].
    rewrite !nsign_sign. reflexivity.
Qed.

(* ============================================================================================ *)
(* bray_curtis_grad (repaired): d = sum |x_j - y_j| / sum |x_j + y_j|,                              *)
(*   grad_i = (sign (x_i - y_i) - d * sign (x_i + y_i)) / sum |x_j + y_j|                            *)
Definition Fabsp (a b : R) : R := Rabs (a + b).
Definition bc (x y : list R) : R := fst (bray_curtis_grad RNum x y).
Lemma Fabs_nonneg a b : 0 <= Fabs a b. Proof. apply Rabs_pos. Qed.
Lemma Fabsp_nonneg a b : 0 <= Fabsp a b. Proof. apply Rabs_pos. Qed.
Lemma bc_eq x y : bc x y = Ssum Fabs x y / Ssum Fabsp x y.
Proof.
  unfold bc, bray_curtis_grad. cbv zeta. rewrite !acc2_Ssum. rn. cbn.
  change (fun a b : R => Rabs (a - b)) with Fabs. change (fun a b : R => Rabs (a + b)) with Fabsp.
  destruct (Rltb 0 (Ssum Fabsp x y)) eqn:E; [reflexivity | apply Rltb_false in E].
  pose proof (Ssum_nonneg Fabsp Fabsp_nonneg x y).
  replace (Ssum Fabsp x y) with 0 by lra. cbn. unfold Rdiv. rewrite Rinv_0. ring.
Qed.

Theorem bray_curtis_grad_derive : forall x y i, (i < length x)%nat -> (i < length y)%nat ->
  nth i x 0 <> nth i y 0 -> nth i x 0 + nth i y 0 <> 0 ->
  let den := Ssum Fabsp x y in
  let g := (sign (nth i x 0 - nth i y 0) - bc x y * sign (nth i x 0 + nth i y 0)) / den in
  is_derive (fun t => bc (set_nth x i t) y) (nth i x 0) g /\
  nth i (snd (bray_curtis_grad RNum x y)) 0 = g.
Proof.
  intros x y i Hx Hy Hne Hp den g.
  assert (Hden : 0 < den).
  { unfold den. pose proof (Ssum_rest_nonneg Fabsp 0 Fabsp_nonneg x y i Hx Hy).
    assert (0 < Fabsp (nth i x 0) (nth i y 0)) by (apply Rabs_pos_lt; exact Hp). lra. }
  split.
  - apply (is_derive_ext (fun t => (Ssum Fabs x y - Fabs (nth i x 0) (nth i y 0) + Fabs t (nth i y 0)) /
                                   (Ssum Fabsp x y - Fabsp (nth i x 0) (nth i y 0) + Fabsp t (nth i y 0)))).
    { intros t. rewrite bc_eq, (Ssum_set_nth Fabs 0), (Ssum_set_nth Fabsp 0) by assumption. reflexivity. }
    unfold g. rewrite bc_eq. fold den.
    set (Sn := Ssum Fabs x y). set (xi := nth i x 0) in *. set (yi := nth i y 0) in *. unfold Fabs, Fabsp.
    auto_derive.
    + replace (den - Rabs (xi + yi) + Rabs (xi + yi)) with den by ring.
      split; [intros HH; apply Hne; lra | split; [exact Hp | split; [apply Rgt_not_eq; lra | exact I]]].
    + replace (xi + - yi) with (xi - yi) by ring.
      replace (den - Rabs (xi + yi) + Rabs (xi + yi)) with den by ring.
      replace (Sn - Rabs (xi - yi) + Rabs (xi - yi)) with Sn by ring.
      field. lra.
  - unfold g. rewrite bc_eq. unfold bray_curtis_grad. cbv zeta. rewrite !acc2_Ssum. rn. cbn.
    change (fun a b : R => Rabs (a - b)) with Fabs. change (fun a b : R => Rabs (a + b)) with Fabsp. fold den.
    destruct (Rltb 0 den) eqn:E; [| apply Rltb_false in E; lra].
    cbn [snd]. rewrite (nth_map2 _ 0) by assumption. rewrite !nsign_sign. reflexivity.
Qed.

(* ============================================================================================ *)
(* chebyshev_grad: d = max_j |x_j - y_j|; grad = sign (x_m - y_m) at the first maximising index m, *)
(*   0 elsewhere.  Differentiable where the maximiser is unique.                                   *)
Fixpoint LM (x y : list R) : R :=
  match x, y with a :: x', b :: y' => Rmax (Rabs (a - b)) (LM x' y') | _, _ => 0 end.

Ltac rmax := unfold Rmax; repeat (destruct (Rle_dec _ _)); lra.

Lemma LM_nonneg x y : 0 <= LM x y.
Proof.
  revert y; induction x as [|a x IH]; intros [|b y]; simpl; try lra.
  eapply Rle_trans; [apply Rabs_pos | apply Rmax_l].
Qed.

Lemma LM_ge : forall x y j, (j < length x)%nat -> (j < length y)%nat ->
  Rabs (nth j x 0 - nth j y 0) <= LM x y.
Proof.
  induction x as [|a x IH]; intros [|b y] j Hx Hy; simpl in *; try lia.
  destruct j as [|j]; [apply Rmax_l|].
  eapply Rle_trans; [apply IH; lia | apply Rmax_r].
Qed.

Lemma LM_le : forall x y M, 0 <= M ->
  (forall j, (j < length x)%nat -> (j < length y)%nat -> Rabs (nth j x 0 - nth j y 0) <= M) -> LM x y <= M.
Proof.
  induction x as [|a x IH]; intros [|b y] M HM H; simpl in *; try lra.
  apply Rmax_lub.
  - apply (H 0%nat); lia.
  - apply IH; auto. intros j Hx Hy. apply (H (S j)); lia.
Qed.

Lemma LM_lt : forall x y M, 0 < M ->
  (forall j, (j < length x)%nat -> (j < length y)%nat -> Rabs (nth j x 0 - nth j y 0) < M) -> LM x y < M.
Proof.
  induction x as [|a x IH]; intros [|b y] M HM H; simpl in *; try lra.
  apply Rmax_lub_lt.
  - apply (H 0%nat); lia.
  - apply IH; auto. intros j Hx Hy. apply (H (S j)); lia.
Qed.

Lemma cheb_loop_fst : forall x y k res mi, 0 <= res ->
  fst (cheb_loop RNum k x y res mi) = Rmax res (LM x y).
Proof.
  induction x as [|a x IH]; intros [|b y] k res mi Hr; simpl; try (rewrite Rmax_left; [reflexivity | lra]).
  cbn. pose proof (LM_nonneg x y). pose proof (Rabs_pos (a - b)).
  destruct (Rltb res (Rabs (a - b))) eqn:E; [apply Rltb_true in E | apply Rltb_false in E];
    rewrite IH by lra; rmax.
Qed.

Lemma cheb_loop_stay : forall x y k res mi,
  (forall j, (j < length x)%nat -> (j < length y)%nat -> Rabs (nth j x 0 - nth j y 0) <= res) ->
  cheb_loop RNum k x y res mi = (res, mi).
Proof.
  induction x as [|a x IH]; intros [|b y] k res mi H; simpl; auto.
  cbn. pose proof (H 0%nat ltac:(simpl; lia) ltac:(simpl; lia)) as H0. simpl in H0.
  destruct (Rltb res (Rabs (a - b))) eqn:E; [apply Rltb_true in E; lra |].
  apply IH. intros j Hx Hy. apply (H (S j)); simpl; lia.
Qed.

Lemma cheb_loop_idx : forall x y k res mi m, (m < length x)%nat -> (m < length y)%nat ->
  res < Rabs (nth m x 0 - nth m y 0) ->
  (forall j, (j < length x)%nat -> (j < length y)%nat -> j <> m ->
             Rabs (nth j x 0 - nth j y 0) < Rabs (nth m x 0 - nth m y 0)) ->
  snd (cheb_loop RNum k x y res mi) = (k + m)%nat.
Proof.
  induction x as [|a x IH]; intros [|b y] k res mi m Hx Hy Hr H; simpl in Hx, Hy; try lia.
  destruct m as [|m]; simpl in Hr; simpl; cbn.
  - destruct (Rltb res (Rabs (a - b))) eqn:E; [| apply Rltb_false in E; lra].
    rewrite cheb_loop_stay; [simpl; lia|].
    intros j Hjx Hjy. left. apply (H (S j)); simpl; lia.
  - pose proof (H 0%nat ltac:(simpl; lia) ltac:(simpl; lia) ltac:(lia)) as H0. simpl in H0.
    assert (Hrest : forall j, (j < length x)%nat -> (j < length y)%nat -> j <> m ->
              Rabs (nth j x 0 - nth j y 0) < Rabs (nth m x 0 - nth m y 0)).
    { intros j Hjx Hjy Hjm. apply (H (S j)); simpl; lia. }
    destruct (Rltb res (Rabs (a - b))) eqn:E.
    + rewrite (IH y (S k) _ k m) by (auto; lia). lia.
    + rewrite (IH y (S k) _ mi m) by (auto; lia). lia.
Qed.

Definition cheb (x y : list R) : R := fst (chebyshev_grad RNum x y).
Lemma cheb_eq x y : cheb x y = LM x y.
Proof.
  unfold cheb, chebyshev_grad.
  pose proof (cheb_loop_fst x y 0%nat 0 0%nat (Rle_refl 0)) as H. cbn in H |- *.
  destruct (cheb_loop RNum 0 x y 0 0%nat) as [res mi]. cbn [fst] in *. rewrite H.
  apply Rmax_right, LM_nonneg.
Qed.

Lemma nth_map_seq (f : nat -> R) n i : (i < n)%nat -> nth i (map f (seq 0 n)) 0 = f i.
Proof.
  intros H. rewrite (nth_indep _ 0 (f 0%nat)) by (rewrite map_length, seq_length; exact H).
  rewrite map_nth, seq_nth by exact H. reflexivity.
Qed.

Lemma ball_abs (a t e : R) : ball a e t -> Rabs (t - a) < e.
Proof. intros H. unfold ball in H; simpl in H. unfold AbsRing_ball, abs, minus, plus, opp in H; simpl in H. exact H. Qed.

Theorem chebyshev_grad_derive : forall x y m i, (m < length x)%nat -> (i < length x)%nat -> length x = length y ->
  nth m x 0 <> nth m y 0 ->
  (forall j, (j < length x)%nat -> j <> m -> Rabs (nth j x 0 - nth j y 0) < Rabs (nth m x 0 - nth m y 0)) ->
  let g := if Nat.eqb i m then sign (nth m x 0 - nth m y 0) else 0 in
  is_derive (fun t => cheb (set_nth x i t) y) (nth i x 0) g /\
  nth i (snd (chebyshev_grad RNum x y)) 0 = g.
Proof.
  intros x y m i Hm Hi Hl Hne Huniq g.
  set (Am := Rabs (nth m x 0 - nth m y 0)) in *.
  assert (HAm : 0 < Am) by (apply Rabs_pos_lt; lra).
  split.
  - destruct (Nat.eqb i m) eqn:Eim; [apply Nat.eqb_eq in Eim; subst i | apply Nat.eqb_neq in Eim].
    + (* the maximising coordinate: locally the distance is |t - y_m| *)
      set (M' := LM (set_nth x m (nth m y 0)) y).
      assert (HM' : M' < Am).
      { apply LM_lt; auto. intros j Hjx Hjy. rewrite set_nth_length in Hjx. rewrite nth_set_nth by assumption.
        destruct (Nat.eqb j m) eqn:Ejm; [apply Nat.eqb_eq in Ejm; subst j | apply Nat.eqb_neq in Ejm].
        - replace (nth m y 0 - nth m y 0) with 0 by ring. rewrite Rabs_R0. exact HAm.
        - apply Huniq; auto. }
      apply (is_derive_ext_loc (fun t => Rabs (t - nth m y 0))).
      * assert (He : 0 < Am - M') by lra. exists (mkposreal _ He). intros t Ht. apply ball_abs in Ht. simpl in Ht.
        assert (Ht' : M' < Rabs (t - nth m y 0)).
        { replace (t - nth m y 0) with ((nth m x 0 - nth m y 0) + (t - nth m x 0)) by ring.
          pose proof (Rabs_triang_inv (nth m x 0 - nth m y 0) (- (t - nth m x 0))) as Q.
          rewrite Rabs_Ropp in Q. replace (nth m x 0 - nth m y 0 - - (t - nth m x 0)) with (nth m x 0 - nth m y 0 + (t - nth m x 0)) in Q by ring.
          fold Am in Q. lra. }
        rewrite cheb_eq. symmetry. apply Rle_antisym.
        -- apply LM_le; [apply Rabs_pos|]. intros j Hjx Hjy. rewrite set_nth_length in Hjx. rewrite nth_set_nth by assumption.
           destruct (Nat.eqb j m) eqn:Ejm; [apply Nat.eqb_eq in Ejm; subst j; lra | apply Nat.eqb_neq in Ejm].
           pose proof (LM_ge (set_nth x m (nth m y 0)) y j ltac:(rewrite set_nth_length; lia) Hjy) as Q.
           rewrite nth_set_nth in Q by assumption. apply Nat.eqb_neq in Ejm. rewrite Ejm in Q. fold M' in Q. lra.
        -- pose proof (LM_ge (set_nth x m t) y m ltac:(rewrite set_nth_length; lia) ltac:(lia)) as Q.
           rewrite nth_set_nth, Nat.eqb_refl in Q by assumption. exact Q.
      * unfold g. auto_derive; [lra|]. replace (nth m x 0 + - nth m y 0) with (nth m x 0 - nth m y 0) by ring. ring.
    + (* another coordinate: locally the distance is the constant |x_m - y_m| *)
      apply (is_derive_ext_loc (fun _ => Am)); [| apply @is_derive_const].
      pose proof (Huniq i Hi Eim) as Hlt. fold Am in Hlt.
      assert (He : 0 < Am - Rabs (nth i x 0 - nth i y 0)) by lra. exists (mkposreal _ He). intros t Ht. apply ball_abs in Ht. simpl in Ht.
      assert (Ht' : Rabs (t - nth i y 0) < Am).
      { replace (t - nth i y 0) with ((nth i x 0 - nth i y 0) + (t - nth i x 0)) by ring.
        pose proof (Rabs_triang (nth i x 0 - nth i y 0) (t - nth i x 0)). lra. }
      rewrite cheb_eq. symmetry. apply Rle_antisym.
      * apply LM_le; [lra|]. intros j Hjx Hjy. rewrite set_nth_length in Hjx. rewrite nth_set_nth by assumption.
        destruct (Nat.eqb j i) eqn:Eji; [apply Nat.eqb_eq in Eji; subst j; lra | apply Nat.eqb_neq in Eji].
        destruct (Nat.eq_dec j m) as [->|Hjm]; [unfold Am; lra|]. left. apply Huniq; auto.
      * pose proof (LM_ge (set_nth x i t) y m ltac:(rewrite set_nth_length; lia) ltac:(lia)) as Q.
        rewrite nth_set_nth in Q by assumption.
        assert (E : Nat.eqb m i = false) by (apply Nat.eqb_neq; lia). rewrite E in Q. exact Q.
  - unfold chebyshev_grad.
    pose proof (cheb_loop_idx x y 0%nat 0 0%nat m Hm ltac:(lia) HAm) as Hidx.
    rewrite Nat.add_0_l in Hidx. cbn in Hidx |- *.
    destruct (cheb_loop RNum 0 x y 0 0%nat) as [res mi]. cbn [snd] in *.
    rewrite Hidx by (intros j Hjx Hjy Hjm; apply Huniq; auto). clear Hidx.
    rewrite nth_map_seq by exact Hi. unfold g. destruct (Nat.eqb i m); auto. apply nsign_sign.
Qed.

(* C18 theorems over the reals: the combined graph of A + B, A * B, A - B. *)
From Coq Require Import List ZArith Bool Reals Lra Lia Psatz.
From UV Require Import Num M_supervised T_supervised M_combine.
Import ListNotations.
Local Open Scope R_scope.

Section WithParams.
Variable tol : R.         (* SMOOTH_K_TOLERANCE: any value *)
Variable kk : Z.          (* k of reprocess_row: any value *)
Variable n_iters : nat.   (* n_iters of reprocess_row: any value *)

Definition idR (x : R) : R := x.
Definition Rstore : Rsmat -> Rsmat := store RNum idR.
Definition Rkernel : nat -> (option R -> option R -> bool) -> (option R -> option R -> R) -> Rsmat -> Rsmat -> Rsmat := kernel RNum.
Definition Runion_val : R -> R -> option R -> option R -> R := union_val RNum.
Definition Rinter_val : bool -> R -> R -> R -> option R -> option R -> R := inter_val RNum.
Definition Rleft_fill : Rsmat -> R := left_fill RNum.
Definition Rright_fill : Rsmat -> R := right_fill RNum.
Definition Rright_fill_compl : Rsmat -> R := right_fill_compl RNum.
Definition Rlist_min : list R -> R := list_min RNum.
Definition Rnmin : R -> R -> R := nmin RNum.
Definition Rpw : R -> R -> R := pw RNum.
Definition Rbisect_exp : nat -> (R -> R) -> R -> R -> option R -> R -> R := bisect_exp RNum tol.
Definition Rrow_mid : Rsmat -> nat -> R := row_mid RNum tol kk n_iters.
Definition Rreprocess : nat -> Rsmat -> Rsmat := reprocess RNum tol kk n_iters.
Definition Rreset_norm : nat -> bool -> Rsmat -> Rsmat := reset_norm RNum idR tol kk n_iters.
Definition Rreset_lc : nat -> bool -> Rsmat -> nat -> nat -> R := reset_lc RNum idR tol kk n_iters.
Definition Rcombine_kernel : nat -> cop -> Rsmat -> Rsmat -> Rsmat := combine_kernel RNum.
Definition Rcombine_norm : nat -> cop -> Rsmat -> Rsmat -> Rsmat := combine_norm RNum idR tol kk n_iters.
Definition Rcombine : nat -> cop -> Rsmat -> Rsmat -> nat -> nat -> R := combine RNum idR tol kk n_iters.

(* ---- storage is the identity over R ------------------------------------------------------------- *)
Lemma store_id s : Rstore s = s.
Proof.
  unfold Rstore, store. rewrite <- (map_id s) at 2. apply map_ext. intros e. unfold idR. symmetry. apply entry_eta.
Qed.

(* ---- powers ------------------------------------------------------------------------------------- *)
Lemma Rpow_0 y : y <> 0 -> Rpow 0 y = 0.
Proof. intros H. unfold Rpow. destruct (Req_EM_T y 0); [contradiction|]. destruct (Rlt_dec 0 0); [lra|reflexivity]. Qed.

Lemma Rpow_1 y : Rpow 1 y = 1.
Proof.
  unfold Rpow. destruct (Req_EM_T y 0); [reflexivity|]. destruct (Rlt_dec 0 1); [|lra].
  unfold Rpower. rewrite ln_1, Rmult_0_r. apply exp_0.
Qed.

Lemma Rpow_nonneg x y : 0 <= Rpow x y.
Proof.
  unfold Rpow. destruct (Req_EM_T y 0); [lra|]. destruct (Rlt_dec 0 x); [|lra].
  left. unfold Rpower. apply exp_pos.
Qed.

Lemma Rpow_pos x y : 0 < x -> 0 < Rpow x y.
Proof.
  intros H. unfold Rpow. destruct (Req_EM_T y 0); [lra|]. destruct (Rlt_dec 0 x); [|lra].
  unfold Rpower. apply exp_pos.
Qed.

Lemma Rpow_le_1 x y : 0 <= x <= 1 -> 0 <= y -> Rpow x y <= 1.
Proof.
  intros Hx Hy. unfold Rpow. destruct (Req_EM_T y 0); [lra|]. destruct (Rlt_dec 0 x) as [Hp|]; [|lra].
  unfold Rpower. rewrite <- exp_0.
  assert (L: ln x <= 0).
  { destruct (Req_dec x 1) as [->|Hne]; [rewrite ln_1; lra|]. left. rewrite <- ln_1. apply ln_increasing; lra. }
  assert (y * ln x <= 0) by nra.
  destruct H as [H|H]; [left; now apply exp_increasing | rewrite H; lra].
Qed.

Theorem power_keeps_unit : forall x p, 0 < p -> 0 < x <= 1 -> 0 < Rpow x p <= 1 /\ Rpow 1 p = 1.
Proof.
  intros x p Hp Hx. split; [split|].
  - apply Rpow_pos; lra.
  - apply Rpow_le_1; lra.
  - apply Rpow_1.
Qed.

Lemma pw_nonneg x p : 0 <= x -> 0 <= Rpw x p.
Proof.
  intros H. unfold Rpw, pw; cbn. destruct (Reqb p 1); [exact H | apply Rpow_nonneg].
Qed.

(* ---- minimum of the stored values, fill values --------------------------------------------------- *)
Lemma nmin_cases a b : Rnmin a b = a \/ Rnmin a b = b.
Proof. unfold Rnmin, nmin; cbn. destruct (Rleb a b); auto. Qed.

Lemma fold_nmin_in l : forall acc, fold_left Rnmin l acc = acc \/ In (fold_left Rnmin l acc) l.
Proof.
  induction l as [|y l IH]; simpl; intros acc; [now left|].
  destruct (IH (Rnmin acc y)) as [H|H]; [|right; now right].
  rewrite H. destruct (nmin_cases acc y) as [E|E]; rewrite E; [now left | right; now left].
Qed.

Lemma list_min_range l lo hi : lo <= 0 <= hi -> (forall x, In x l -> lo <= x <= hi) -> lo <= Rlist_min l <= hi.
Proof.
  intros H0 H. unfold Rlist_min, list_min. destruct l as [|x r]; [exact H0|].
  change (lo <= fold_left Rnmin r x <= hi).
  destruct (fold_nmin_in r x) as [E|E]; [rewrite E; apply H; now left | apply H; right; exact E].
Qed.

Lemma nmax_range a b : Rnmax a b = Rmax a b.
Proof. apply nmax_spec. Qed.

Lemma fill_core_range m : 0 <= m <= 1 -> 0 < Rnmax (m / 2) (/ 100000000) <= 1.
Proof.
  intros H. rewrite nmax_spec. unfold Rmax. destruct (Rle_dec (m / 2) (/ 100000000)); lra.
Qed.

Lemma data_min_range A : entries01 A -> 0 <= data_min RNum A <= 1.
Proof.
  intros H. unfold data_min. apply (list_min_range _ 0 1); [lra|].
  intros x Hx. apply in_map_iff in Hx as [e [<- He]]. rewrite (entry_eta e) in He.
  apply H in He. fold (Revl e). lra.
Qed.

Lemma two_eq : two RNum = 2.   Proof. unfold two; cbn. lra. Qed.
Lemma c1e8_eq : c1e8 RNum = / 100000000.   Proof. unfold c1e8; cbn. lra. Qed.
Lemma c1e4_eq : c1e4 RNum = / 10000.   Proof. unfold c1e4; cbn. lra. Qed.

Lemma left_fill_range A : entries01 A -> 0 < Rleft_fill A <= 1.
Proof.
  intros H. unfold Rleft_fill, left_fill. cbn [div]. fold Rnmax. rewrite two_eq, c1e8_eq.
  apply fill_core_range. now apply data_min_range.
Qed.

Lemma cap_range x : 0 < x <= 1 -> 0 < Rnmin x (/ 10000) <= 1.
Proof. intros H. destruct (nmin_cases x (/ 10000)) as [E|E]; rewrite E; lra. Qed.

Lemma right_fill_range B : entries01 B -> 0 < Rright_fill B <= 1.
Proof.
  intros H. unfold Rright_fill, right_fill. cbn [div]. fold Rnmax Rnmin. rewrite two_eq, c1e8_eq, c1e4_eq.
  apply cap_range, fill_core_range. now apply data_min_range.
Qed.

Lemma right_fill_compl_range B : entries01 B -> 0 < Rright_fill_compl B <= 1.
Proof.
  intros H. unfold Rright_fill_compl, right_fill_compl. cbn [div]. fold Rnmax Rnmin Rlist_min. rewrite two_eq, c1e8_eq, c1e4_eq.
  apply cap_range, fill_core_range. apply (list_min_range _ 0 1); [lra|].
  intros x Hx. apply in_map_iff in Hx as [e [<- He]]. rewrite (entry_eta e) in He.
  apply H in He. cbn. fold (Revl e). lra.
Qed.

(* ---- values written by the kernels --------------------------------------------------------------- *)
Definition opt01 (o : option R) := forall v, o = Some v -> 0 < v <= 1.

Lemma opt01_entry A i j : entries01 A -> opt01 (Rentry_at A i j).
Proof. intros H v E. apply entry_at_in in E. eapply H; eauto. Qed.

Lemma lookup_range f o : 0 < f <= 1 -> opt01 o -> 0 < lookup_or_min RNum f o <= 1.
Proof. intros Hf Ho. destruct o as [v|]; simpl; [now apply Ho | exact Hf]. Qed.

Lemma stored_range o : opt01 o -> 0 <= stored RNum o <= 1.
Proof. intros Ho. destruct o as [v|]; simpl; [specialize (Ho v eq_refl); lra | cbn; lra]. Qed.

Lemma union_val_range lf rf a b : 0 < lf <= 1 -> 0 < rf <= 1 -> opt01 a -> opt01 b ->
  0 < Runion_val lf rf a b <= 1.
Proof.
  intros Hl Hr Ha Hb. unfold Runion_val, union_val. cbv zeta.
  pose proof (lookup_range lf a Hl Ha). pose proof (lookup_range rf b Hr Hb).
  set (l := lookup_or_min RNum lf a) in *. set (r := lookup_or_min RNum rf b) in *.
  cbn. change (T RNum) with R in *. split; nra.
Qed.

Lemma union_val_comm lf rf a b : Runion_val lf rf a b = Runion_val rf lf b a.
Proof. unfold Runion_val, union_val. cbv zeta. cbn. change (T RNum) with R in *. ring. Qed.

Lemma inter_core_nonneg (rc : bool) (w lf rf l r sa sb : R) : 0 <= l -> 0 <= r -> 0 <= sa -> 0 <= sb ->
  0 <= (if ltb RNum lf l || ltb RNum rf r
        then (if ltb RNum w (half RNum)
              then mul RNum l (pw RNum r (div RNum w (sub RNum (one RNum) w)))
              else mul RNum (pw RNum l (div RNum (sub RNum (one RNum) w) w)) r)
        else if rc then sa else add RNum sa sb).
Proof.
  intros Hl Hr Ha Hb. destruct (ltb RNum lf l || ltb RNum rf r).
  - destruct (ltb RNum w (half RNum)).
    + assert (P := pw_nonneg r (div RNum w (sub RNum (one RNum) w)) Hr). unfold Rpw in P.
      revert P. generalize (pw RNum r (div RNum w (sub RNum (one RNum) w))). intros x P. cbn. rn. nra.
    + assert (P := pw_nonneg l (div RNum (sub RNum (one RNum) w) w) Hl). unfold Rpw in P.
      revert P. generalize (pw RNum l (div RNum (sub RNum (one RNum) w) w)). intros x P. cbn. rn. nra.
  - destruct rc; cbn; rn; lra.
Qed.

Lemma inter_val_nonneg rc w lf rf a b : 0 < lf <= 1 -> 0 < rf <= 1 -> opt01 a -> opt01 b ->
  0 <= Rinter_val rc w lf rf a b.
Proof.
  intros Hl Hr Ha Hb. unfold Rinter_val, inter_val. cbv zeta.
  pose proof (lookup_range lf a Hl Ha) as L.
  pose proof (stored_range a Ha). pose proof (stored_range b Hb).
  apply inter_core_nonneg; try lra.
  destruct b as [v|]; [|lra]. specialize (Hb v eq_refl). destruct rc; cbn; lra.
Qed.

Lemma find_col_row_of (A : Rsmat) i j : find_col RNum (row_of RNum A i) j = Rentry_at A i j.
Proof. apply find_col_row_of_gen. Qed.

(* ---- the kernel's stored entries ------------------------------------------------------------------ *)
Lemma in_kernel n present val A B i j v :
  In (i, j, v) (Rkernel n present val A B) <->
  (i < n)%nat /\ (j < n)%nat /\ present (Rentry_at A i j) (Rentry_at B i j) = true /\
  v = val (Rentry_at A i j) (Rentry_at B i j).
Proof.
  unfold Rkernel, kernel. rewrite in_flat_map. split.
  - intros [i' [Hi' Hin]]. unfold kernel_row in Hin. cbv zeta in Hin. rewrite in_flat_map in Hin.
    destruct Hin as [j' [Hj' Hin]]. rewrite !find_col_row_of in Hin.
    destruct (present (Rentry_at A i' j') (Rentry_at B i' j')) eqn:P; simpl in Hin; [|contradiction].
    destruct Hin as [E|[]]. inversion E; subst. apply in_seq in Hi', Hj'. repeat split; auto; lia.
  - intros (Hi & Hj & P & ->). exists i. split; [apply in_seq; lia|].
    unfold kernel_row. cbv zeta. apply in_flat_map. exists j. split; [apply in_seq; lia|].
    rewrite !find_col_row_of, P. now left.
Qed.

Lemma functional_kernel n present val A B : functional (Rkernel n present val A B).
Proof.
  intros i j v v' H1 H2. apply in_kernel in H1 as (_ & _ & _ & ->). apply in_kernel in H2 as (_ & _ & _ & ->). reflexivity.
Qed.

Definition inside (n i j : nat) : bool := Nat.ltb i n && Nat.ltb j n.

Lemma entry_at_kernel n present val A B i j :
  Rentry_at (Rkernel n present val A B) i j =
  if inside n i j && present (Rentry_at A i j) (Rentry_at B i j)
  then Some (val (Rentry_at A i j) (Rentry_at B i j)) else None.
Proof.
  destruct (inside n i j && present (Rentry_at A i j) (Rentry_at B i j)) eqn:C.
  - apply andb_true_iff in C as [C1 C2]. unfold inside in C1. apply andb_true_iff in C1 as [Ci Cj].
    apply Nat.ltb_lt in Ci, Cj. apply in_entry_at; [apply functional_kernel|].
    apply in_kernel. repeat split; auto.
  - destruct (Rentry_at (Rkernel n present val A B) i j) as [v|] eqn:E; [|reflexivity].
    exfalso. apply entry_at_in in E. apply in_kernel in E as (Hi & Hj & P & _).
    apply Nat.ltb_lt in Hi, Hj. unfold inside in C. rewrite Hi, Hj, P in C. discriminate.
Qed.

Lemma inside_sym n i j : inside n i j = inside n j i.
Proof. unfold inside. apply andb_comm. Qed.

Definition sym_entries (A : Rsmat) := forall i j, Rentry_at A i j = Rentry_at A j i.

Lemma sym_entries_of A : entries01 A -> symmetric A -> sym_entries A.
Proof.
  intros H01 Hs i j. pose proof (Hs i j) as E. unfold Rget, get in E. fold (Rentry_at A i j) (Rentry_at A j i) in E.
  destruct (Rentry_at A i j) as [v|] eqn:E1; destruct (Rentry_at A j i) as [v'|] eqn:E2; cbn in E; auto.
  - now subst.
  - apply entry_at_in, H01 in E1. change (T RNum) with R in *. lra.
  - apply entry_at_in, H01 in E2. change (T RNum) with R in *. lra.
Qed.

Lemma kernel_sym n present val A B i j : sym_entries A -> sym_entries B ->
  Rentry_at (Rkernel n present val A B) i j = Rentry_at (Rkernel n present val A B) j i.
Proof. intros HA HB. rewrite !entry_at_kernel, (inside_sym n i j), (HA i j), (HB i j). reflexivity. Qed.

Lemma get_of_entry s i j : Rget s i j = match Rentry_at s i j with Some v => v | None => 0 end.
Proof. reflexivity. Qed.

Lemma get_kernel_nonzero n present val A B i j :
  Rget (Rkernel n present val A B) i j <> 0 -> present (Rentry_at A i j) (Rentry_at B i j) = true.
Proof.
  rewrite get_of_entry, entry_at_kernel.
  destruct (inside n i j && present (Rentry_at A i j) (Rentry_at B i j)) eqn:C; [|intros H; exfalso; now apply H].
  apply andb_true_iff in C as [_ C]. auto.
Qed.

Lemma nonneg_kernel n present val A B :
  (forall i j, present (Rentry_at A i j) (Rentry_at B i j) = true -> 0 <= val (Rentry_at A i j) (Rentry_at B i j)) ->
  nonneg (Rkernel n present val A B).
Proof. intros H i j v Hin. apply in_kernel in Hin as (_ & _ & P & ->). now apply H. Qed.

(* ---- the recalibration exponent: positive, bounded ------------------------------------------------ *)
Lemma pow2_pos n : 0 < 2 ^ n.  Proof. apply pow_lt; lra. Qed.

Lemma bisect_exp_bounds (f : R -> R) target : forall n m lo hi mid,
  0 <= lo < mid -> / 2 ^ m <= mid <= 2 ^ m -> (forall h, hi = Some h -> mid < h <= 2 ^ m) ->
  / 2 ^ (m + n) <= Rbisect_exp n f target lo hi mid <= 2 ^ (m + n).
Proof.
  induction n as [|n IH]; intros m lo hi mid Hlo Hmid Hhi.
  - rewrite Nat.add_0_r. cbn. exact Hmid.
  - unfold Rbisect_exp in *. cbn [bisect_exp].
    replace (m + S n)%nat with (S m + n)%nat by lia.
    assert (P: 0 < 2 ^ m) by apply pow2_pos.
    assert (Hinv: / (2 * 2 ^ m) = / 2 ^ m / 2) by (field; lra).
    assert (Hup: 2 ^ S m = 2 * 2 ^ m) by reflexivity.
    assert (Hlow_mono: / 2 ^ (m + S n) <= / 2 ^ m).
    { apply Rinv_le_contravar; auto. apply Rle_pow; [lra|lia]. }
    assert (Hup_mono: 2 ^ m <= 2 ^ (m + S n)) by (apply Rle_pow; [lra|lia]).
    assert (T2: two RNum = 2) by apply two_eq.
    destruct (ltb RNum (nabs RNum (sub RNum (f mid) target)) tol).
    + replace (S m + n)%nat with (m + S n)%nat by lia. lra.
    + destruct (ltb RNum (f mid) target).
      * apply IH; rewrite ?T2; cbn -[pow].
        -- change (T RNum) with R in *. lra.
        -- rewrite Hup, Hinv. change (T RNum) with R in *. lra.
        -- intros h [= <-]. change (T RNum) with R in *. lra.
      * destruct hi as [h|].
        -- destruct (Hhi h eq_refl) as [Hh1 Hh2]. apply IH; rewrite ?T2; cbn -[pow].
           ++ change (T RNum) with R in *. lra.
           ++ rewrite Hup, Hinv. change (T RNum) with R in *. lra.
           ++ intros h' [= <-]. change (T RNum) with R in *. lra.
        -- apply IH; rewrite ?T2; cbn -[pow].
           ++ change (T RNum) with R in *. lra.
           ++ rewrite Hup, Hinv. change (T RNum) with R in *. lra.
           ++ intros h' Hh'. discriminate.
Qed.

Theorem reprocess_bounds : forall s i, / 2 ^ n_iters <= Rrow_mid s i <= 2 ^ n_iters.
Proof.
  intros s i. unfold Rrow_mid, row_mid.
  pose proof (bisect_exp_bounds (psum RNum (row_vals RNum s i)) (log2k RNum kk) n_iters 0 0 None 1) as H.
  unfold Rbisect_exp in H. cbn in H. apply H; try lra. intros h Hh; discriminate.
Qed.

Lemma row_mid_pos s i : 0 < Rrow_mid s i.
Proof.
  pose proof (reprocess_bounds s i) as [H _]. pose proof (pow2_pos n_iters).
  assert (0 < / 2 ^ n_iters) by (now apply Rinv_0_lt_compat). lra.
Qed.

Lemma reprocess_keyed n s : Rreprocess n s = map (keyed (fun i _ v => Rpow v (Rrow_mid s i))) s.
Proof.
  unfold Rreprocess, reprocess. cbv zeta. apply map_ext. intros e. rewrite tabulate_eq. reflexivity.
Qed.

Lemma get_reprocess n s i j : Rget (Rreprocess n s) i j = Rpow (Rget s i j) (Rrow_mid s i).
Proof.
  rewrite reprocess_keyed, get_keyed; auto. intros a _. apply Rpow_0.
  pose proof (row_mid_pos s a). lra.
Qed.

(* ---- reset_local_connectivity ------------------------------------------------------------------------- *)
Definition post (metric : bool) (s1 : Rsmat) (i : nat) (v : R) : R :=
  if metric then Rpow v (Rrow_mid s1 i) else v.

Lemma get_reset_norm n metric s i j :
  Rget (Rreset_norm n metric s) i j = post metric (Rnormalise s) i (Rget (Rnormalise s) i j).
Proof.
  unfold Rreset_norm, reset_norm. cbv zeta. fold Rstore Rnormalise.
  unfold post. destruct metric; rewrite !store_id; [|reflexivity].
  fold Rreprocess. apply get_reprocess.
Qed.

Lemma post_range metric s1 i v : 0 <= v <= 1 -> 0 <= post metric s1 i v <= 1.
Proof.
  intros H. unfold post. destruct metric; [|exact H]. split; [apply Rpow_nonneg|].
  apply Rpow_le_1; auto. left. apply row_mid_pos.
Qed.

Lemma post_1 metric s1 i : post metric s1 i 1 = 1.
Proof. unfold post. destruct metric; [apply Rpow_1 | reflexivity]. Qed.

Lemma post_nonzero metric s1 i v : post metric s1 i v <> 0 -> v <> 0.
Proof.
  unfold post. destruct metric; auto. intros H ->. apply H. apply Rpow_0.
  pose proof (row_mid_pos s1 i). lra.
Qed.

Lemma reset_lc_eq n metric s i j :
  Rreset_lc n metric s i j =
    Rget (Rreset_norm n metric s) i j + Rget (Rreset_norm n metric s) j i
    - Rget (Rreset_norm n metric s) i j * Rget (Rreset_norm n metric s) j i.
Proof. reflexivity. Qed.

Lemma reset_lc_sym n metric s i j : Rreset_lc n metric s i j = Rreset_lc n metric s j i.
Proof. rewrite !reset_lc_eq. ring. Qed.

Lemma reset_lc_range n metric s i j : nonneg s -> 0 <= Rreset_lc n metric s i j <= 1.
Proof.
  intros Hn. rewrite reset_lc_eq, !get_reset_norm.
  apply fuzzy_or_range; apply post_range; now apply normalise_range.
Qed.

Lemma reset_lc_nonzero n metric s i j : Rreset_lc n metric s i j <> 0 -> Rget s i j <> 0 \/ Rget s j i <> 0.
Proof.
  rewrite reset_lc_eq, !get_reset_norm. intros H.
  apply fuzzy_or_nonzero in H as [H|H]; apply post_nonzero in H; rewrite get_normalise in H;
  apply norm_val_nonzero in H; auto.
Qed.

Lemma reset_lc_unit n metric s i j : functional s -> nonneg s -> Rget s i j <> 0 ->
  exists j', Rreset_lc n metric s i j' = 1.
Proof.
  intros Hf Hn H. destruct (normalise_unit s i j Hf Hn H) as [j' Hj'].
  exists j'. rewrite reset_lc_eq, !get_reset_norm, Hj', post_1. ring.
Qed.

(* ---- the three operators --------------------------------------------------------------------------------- *)
Definition op_present (op : cop) : option R -> option R -> bool :=
  match op with Sub => left_only RNum | _ => either RNum end.
Definition op_val (op : cop) (A B : Rsmat) : option R -> option R -> R :=
  match op with
  | Add => Runion_val (Rleft_fill A) (Rleft_fill B)
  | Mul => Rinter_val false (half RNum) (Rleft_fill A) (Rright_fill B)
  | Sub => Rinter_val true (half RNum) (Rleft_fill A) (Rright_fill_compl B)
  end.

Lemma combine_kernel_eq n op A B : Rcombine_kernel n op A B = Rkernel n (op_present op) (op_val op A B) A B.
Proof. destruct op; reflexivity. Qed.

Lemma combine_eq n op A B i j :
  Rcombine n op A B i j = Rreset_lc n (metric_of op) (Rcombine_kernel n op A B) i j.
Proof.
  unfold Rcombine, combine, combine_norm, Rreset_lc, reset_lc. fold Rstore Rcombine_kernel. now rewrite store_id.
Qed.

Lemma nonneg_combine_kernel n op A B : entries01 A -> entries01 B -> nonneg (Rcombine_kernel n op A B).
Proof.
  intros HA HB. rewrite combine_kernel_eq. apply nonneg_kernel. intros i j _.
  pose proof (opt01_entry A i j HA). pose proof (opt01_entry B i j HB).
  pose proof (left_fill_range A HA). pose proof (left_fill_range B HB).
  pose proof (right_fill_range B HB). pose proof (right_fill_compl_range B HB).
  destruct op; simpl.
  - left. now apply union_val_range.
  - now apply inter_val_nonneg.
  - now apply inter_val_nonneg.
Qed.

Lemma entry_nonzero A i j : entries01 A -> is_some RNum (Rentry_at A i j) = true -> Rget A i j <> 0.
Proof.
  intros H01 H. rewrite get_of_entry. destruct (Rentry_at A i j) as [v|] eqn:E; [|discriminate].
  apply entry_at_in, H01 in E. lra.
Qed.

Theorem combine_props : forall n op A B, entries01 A -> entries01 B -> symmetric A -> symmetric B ->
  let c := Rcombine n op A B in
  (forall i j, c i j = c j i) /\
  (forall i j, 0 <= c i j <= 1) /\
  (forall i j, c i j <> 0 -> exists j', c i j' = 1) /\
  (forall i j, c i j <> 0 -> Rget A i j <> 0 \/ Rget B i j <> 0) /\
  (op = Sub -> forall i j, c i j <> 0 -> Rget A i j <> 0).
Proof.
  intros n op A B HA HB SA SB c. subst c.
  pose proof (sym_entries_of A HA SA) as EA. pose proof (sym_entries_of B HB SB) as EB.
  pose proof (nonneg_combine_kernel n op A B HA HB) as Hnn.
  assert (Hf: functional (Rcombine_kernel n op A B)) by (rewrite combine_kernel_eq; apply functional_kernel).
  assert (Hsym: forall i j, Rget (Rcombine_kernel n op A B) i j = Rget (Rcombine_kernel n op A B) j i).
  { intros i j. rewrite !get_of_entry, combine_kernel_eq, (kernel_sym n _ _ A B i j EA EB). reflexivity. }
  assert (Hnz: forall i j, Rcombine n op A B i j <> 0 -> Rget (Rcombine_kernel n op A B) i j <> 0).
  { intros i j H. rewrite combine_eq in H. apply reset_lc_nonzero in H as [H|H]; auto. now rewrite Hsym. }
  assert (Hpres: forall i j, Rcombine n op A B i j <> 0 -> op_present op (Rentry_at A i j) (Rentry_at B i j) = true).
  { intros i j H. apply Hnz in H. rewrite combine_kernel_eq in H. now apply get_kernel_nonzero in H. }
  repeat split.
  - intros i j. rewrite !combine_eq. apply reset_lc_sym.
  - rewrite combine_eq. now apply reset_lc_range.
  - rewrite combine_eq. now apply reset_lc_range.
  - intros i j H. apply Hnz in H. destruct (reset_lc_unit n (metric_of op) _ i j Hf Hnn H) as [j' Hj'].
    exists j'. now rewrite combine_eq.
  - intros i j H. apply Hpres in H.
    assert (E: is_some RNum (Rentry_at A i j) = true \/ is_some RNum (Rentry_at B i j) = true).
    { destruct op; simpl in H; unfold either, left_only in H; try (apply orb_true_iff in H; exact H). now left. }
    destruct E as [E|E]; [left | right]; now apply entry_nonzero.
  - intros -> i j H. apply Hpres in H. simpl in H. unfold left_only in H. now apply entry_nonzero.
Qed.

(* A + B and B + A: the same list of stored entries, hence the same graph *)
Theorem union_commutes : forall n A B, Rcombine n Add A B = Rcombine n Add B A.
Proof.
  intros n A B. unfold Rcombine, combine, combine_norm. f_equal. f_equal. f_equal.
  unfold combine_kernel, sset_union, kernel. apply flat_map_ext. intros i.
  unfold kernel_row. cbv zeta. apply flat_map_ext. intros j.
  set (a := find_col RNum (row_of RNum A i) j). set (b := find_col RNum (row_of RNum B i) j).
  unfold either. rewrite (orb_comm (is_some RNum b)).
  fold Runion_val Rleft_fill. rewrite (union_val_comm (Rleft_fill B) (Rleft_fill A) b a). reflexivity.
Qed.

(* ---- operator pre-checks -------------------------------------------------------------------------------- *)
Definition Rcombine_checked : cop -> option (nat * Rsmat) -> option (nat * Rsmat) -> outcome RNum :=
  combine_checked RNum idR tol kk n_iters.

Theorem unfitted_rejected : forall op MA MB, MA = None \/ MB = None -> Rcombine_checked op MA MB = NotFitted RNum.
Proof.
  intros op MA MB [->| ->]; unfold Rcombine_checked, combine_checked; [reflexivity|].
  destruct MA as [[na A]|]; reflexivity.
Qed.

Theorem mismatch_rejected : forall op na A nb B, na <> nb ->
  Rcombine_checked op (Some (na, A)) (Some (nb, B)) = SizeMismatch RNum.
Proof.
  intros op na A nb B H. unfold Rcombine_checked, combine_checked.
  apply Nat.eqb_neq in H. now rewrite H.
Qed.

Theorem fitted_same_size_combined : forall op n A B,
  Rcombine_checked op (Some (n, A)) (Some (n, B)) = Combined RNum (Rcombine n op A B).
Proof. intros. unfold Rcombine_checked, combine_checked. now rewrite Nat.eqb_refl. Qed.

End WithParams.

(* ---- non-vacuity: two symmetric graphs on 3 samples ------------------------------------------------------- *)
Definition ex_A : Rsmat := [(0%nat, 1%nat, 1); (1%nat, 0%nat, 1)].
Definition ex_B : Rsmat := [(1%nat, 2%nat, / 2); (2%nat, 1%nat, / 2)].

Lemma ex_A_entries01 : entries01 ex_A.
Proof. intros i j v H. simpl in H. destruct H as [H|[H|[]]]; inversion H; subst; lra. Qed.
Lemma ex_B_entries01 : entries01 ex_B.
Proof. intros i j v H. simpl in H. destruct H as [H|[H|[]]]; inversion H; subst; lra. Qed.
Lemma ex_A_symmetric : symmetric ex_A.
Proof.
  intros i j. unfold Rget, get, entry_at, ex_A, at_key, erow, ecol. simpl.
  destruct i as [|[|i]]; destruct j as [|[|j]]; simpl; reflexivity.
Qed.
Lemma ex_B_symmetric : symmetric ex_B.
Proof.
  intros i j. unfold Rget, get, entry_at, ex_B, at_key, erow, ecol. simpl.
  destruct i as [|[|[|i]]]; destruct j as [|[|[|j]]]; simpl; reflexivity.
Qed.

(* the union of the two graphs has the edge (0,1) with strength exactly 1 *)
Lemma combine_nonvacuous tol kk n_iters :
  entries01 ex_A /\ entries01 ex_B /\ symmetric ex_A /\ symmetric ex_B /\
  exists j', Rcombine tol kk n_iters 3 Add ex_A ex_B 0%nat j' = 1.
Proof.
  split; [apply ex_A_entries01|]. split; [apply ex_B_entries01|]. split; [apply ex_A_symmetric|]. split; [apply ex_B_symmetric|].
  set (K := Rcombine_kernel 3 Add ex_A ex_B).
  assert (Hf: functional K) by (unfold K; rewrite combine_kernel_eq; apply functional_kernel).
  assert (Hnn: nonneg K) by (apply nonneg_combine_kernel; [apply ex_A_entries01 | apply ex_B_entries01]).
  assert (H01: Rget K 0%nat 1%nat <> 0).
  { unfold K. rewrite combine_kernel_eq, get_of_entry, entry_at_kernel. simpl.
    pose proof (union_val_range (Rleft_fill ex_A) (Rleft_fill ex_B) (Some 1) None
                  (left_fill_range ex_A ex_A_entries01) (left_fill_range ex_B ex_B_entries01)) as U.
    assert (O1: opt01 (Some 1)) by (intros v [= <-]; lra).
    assert (O2: opt01 None) by (intros v E; discriminate).
    specialize (U O1 O2).
    assert (EA: Rentry_at ex_A 0 1 = Some 1) by reflexivity.
    assert (EB: Rentry_at ex_B 0 1 = None) by reflexivity.
    rewrite EA, EB. lra. }
  destruct (reset_lc_unit tol kk n_iters 3 true K 0%nat 1%nat Hf Hnn H01) as [j' Hj'].
  exists j'. rewrite combine_eq. exact Hj'.
Qed.

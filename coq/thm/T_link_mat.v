(* Shared lemmas for link theorems about loops over 2-d arrays (coq/link/L_update.v): a matrix is a list of rows;
   reads / writes `A[i, d]` on the decomposition [A = P ++ r :: S] with [length P = i] (the row being written), reads
   `A[k, d]` of a row k < i of the prefix P (rows the loop does not write), `A.shape[1]` of a rectangular matrix, a loop
   that writes one row only, loops `range(lo, hi)` with lo > 0, int matrices.  No model is imported here. *)
From Coq Require Import List ZArith Bool Lia.
From UV Require Import Num PyPrim PyPrimLemmas T_link_arr.
Import ListNotations.

(* every row has D entries (numpy's 2-d arrays are rectangular; a list of lists need not be) *)
Definition rect {A : Type} (D : nat) (m : list (list A)) : Prop := Forall (fun r => length r = D) m.

Lemma rect_app {A : Type} (D : nat) (m1 m2 : list (list A)) : rect D (m1 ++ m2) <-> rect D m1 /\ rect D m2.
Proof. apply Forall_app. Qed.

Lemma rect_cons {A : Type} (D : nat) (r : list A) (m : list (list A)) : rect D (r :: m) <-> length r = D /\ rect D m.
Proof. apply Forall_cons_iff. Qed.

Lemma rect_mid {A : Type} (D : nat) (P S : list (list A)) (r r' : list A) :
  rect D (P ++ r :: S) -> length r' = D -> rect D (P ++ r' :: S).
Proof. rewrite !rect_app, !rect_cons. tauto. Qed.

Lemma rect_mid_len {A : Type} (D : nat) (P S : list (list A)) (r : list A) : rect D (P ++ r :: S) -> length r = D.
Proof. rewrite rect_app, rect_cons. tauto. Qed.

Lemma rect_nth {A : Type} (D : nat) (m : list (list A)) (k : nat) : rect D m -> k < length m -> length (nth k m []) = D.
Proof. intros H Hk. unfold rect in H. rewrite Forall_forall in H. apply H. apply nth_In. exact Hk. Qed.

Lemma rect_firstn {A : Type} (D n : nat) (m : list (list A)) : rect D m -> rect D (firstn n m).
Proof. intros H. rewrite <- (firstn_skipn n m) in H. apply rect_app in H. tauto. Qed.

Lemma nth_firstn_lt {A : Type} (d : A) : forall (k n : nat) (l : list A), k < n -> nth k (firstn n l) d = nth k l d.
Proof.
  induction k as [|k IH]; intros [|n] [|a l] H; try reflexivity; try lia.
  cbn [firstn nth]. apply IH. lia.
Qed.

Lemma znth_app_l {A : Type} (d : A) (p l : list A) (k : nat) : k < length p -> znth d (p ++ l) (Z.of_nat k) = nth k p d.
Proof. intros H. rewrite znth_of_nat. apply app_nth1. exact H. Qed.

(* `range(lo, hi)` with natural-number bounds: the indices lo, lo+1, .., hi-1 *)
Lemma fold_seq_offset {S : Type} (a : nat) (f : Z -> S -> S) : forall (n off : nat) (s : S),
  fold_left (fun s k => f (Z.of_nat a + Z.of_nat k)%Z s) (seq off n) s = fold_left (fun s k => f (Z.of_nat k) s) (seq (a + off) n) s.
Proof.
  induction n as [|n IH]; intros off s; [reflexivity|].
  cbn [seq fold_left]. replace (Z.of_nat a + Z.of_nat off)%Z with (Z.of_nat (a + off)) by lia.
  rewrite IH. rewrite Nat.add_succ_r. reflexivity.
Qed.

Lemma for_range_nat {S : Type} (a b : nat) (f : Z -> S -> S) (s : S) :
  a <= b -> for_range (Z.of_nat a) (Z.of_nat b) f s = fold_left (fun s k => f (Z.of_nat k) s) (seq a (b - a)) s.
Proof.
  intros H. unfold for_range. replace (Z.of_nat b - Z.of_nat a)%Z with (Z.of_nat (b - a)) by lia. rewrite Nat2Z.id.
  rewrite fold_seq_offset. rewrite Nat.add_0_r. reflexivity.
Qed.

(* the index loop over [0, len x) reading one list of any element type at the loop index *)
Lemma for_range_glist1 {S A : Type} (da : A) (G : S -> A -> S) (x : list A) (f : Z -> S -> S) :
  (forall k s, k < length x -> f (Z.of_nat k) s = G s (nth k x da)) ->
  forall s, for_range 0 (zlen x) f s = fold_left G x s.
Proof. intros H s. rewrite for_range_zlen. apply (fold_seq_list da). intros k s' Hk. apply H. exact Hk. Qed.

(* a loop all of whose iterations rewrite the same row of a matrix is a loop over that row *)
Lemma for_range_row {A : Type} (P S : list (list A)) (lo hi : Z) (G : Z -> list (list A) -> list (list A)) (g : Z -> list A -> list A) :
  (forall d r, G d (P ++ r :: S) = P ++ g d r :: S) ->
  forall r, for_range lo hi G (P ++ r :: S) = P ++ for_range lo hi g r :: S.
Proof.
  intros H. unfold for_range. generalize (seq 0 (Z.to_nat (hi - lo))). intros ks.
  induction ks as [|k ks IH]; intros r; cbn [fold_left]; [reflexivity|]. rewrite H. apply IH.
Qed.

(* int matrices *)
Lemma imnth_of_nat (m : list (list Z)) (i j : nat) : imnth m (Z.of_nat i) (Z.of_nat j) = nth j (nth i m []) 0%Z.
Proof. unfold imnth, inth. rewrite !znth_of_nat. reflexivity. Qed.

Lemma imrow0_len (K : nat) (m : list (list Z)) : rect K m -> m <> [] -> zlen (imrow m 0) = Z.of_nat K.
Proof.
  intros H Hm. destruct m as [|r m]; [contradiction|]. apply rect_cons in H. destruct H as [H _].
  unfold imrow. change 0%Z with (Z.of_nat 0). rewrite znth_of_nat. cbn [nth]. unfold zlen. rewrite H. reflexivity.
Qed.

Section Mat.
Context (N : Num).

(* `A.shape[1]` *)
Lemma mrow0_len (D : nat) (m : list (list N)) : rect D m -> m <> [] -> zlen (mrow N m 0) = Z.of_nat D.
Proof.
  intros H Hm. destruct m as [|r m]; [contradiction|]. apply rect_cons in H. destruct H as [H _].
  unfold mrow. change 0%Z with (Z.of_nat 0). rewrite znth_of_nat. cbn [nth]. unfold zlen. rewrite H. reflexivity.
Qed.

(* the row being written *)
Lemma mnth_app_mid (P S : list (list N)) (r : list N) (i : nat) (d : Z) :
  length P = i -> mnth N (P ++ r :: S) (Z.of_nat i) d = vnth N r d.
Proof. intros H. unfold mnth. rewrite (T_link_arr.znth_app_mid [] P S r i H). reflexivity. Qed.

Lemma mset_app_mid (P S : list (list N)) (r : list N) (i : nat) (d : Z) (v : N) :
  length P = i -> mset N (P ++ r :: S) (Z.of_nat i) d v = P ++ vset N r d v :: S.
Proof. intros H. unfold mset. rewrite (T_link_arr.znth_app_mid [] P S r i H). apply T_link_arr.zset_app_mid. exact H. Qed.

(* a row of the prefix *)
Lemma mnth_app_l (P X : list (list N)) (k : nat) (d : Z) :
  k < length P -> mnth N (P ++ X) (Z.of_nat k) d = vnth N (nth k P []) d.
Proof. intros H. unfold mnth. rewrite (znth_app_l [] P X k H). reflexivity. Qed.

(* `A[i, d] = h(A[i, d], o[d])` for d in range(A.shape[1]) rewrites row i from itself and a fixed vector o *)
Lemma mapi_from_zip (h : N -> N -> N) : forall (r o : list N) (off : nat) (H : nat -> N -> N),
  length o = length r ->
  (forall t c, t < length r -> H (off + t) c = h c (nth t o (zero N))) ->
  mapi_from off H r = map (fun ab => h (fst ab) (snd ab)) (combine r o).
Proof.
  induction r as [|a r IH]; intros [|b o] off H L Hh; try discriminate; [reflexivity|].
  cbn [mapi_from combine map fst snd]. f_equal.
  - rewrite <- (Nat.add_0_r off). rewrite Hh by (cbn; lia). reflexivity.
  - apply IH; [cbn in L; lia|]. intros t c Ht. replace (Datatypes.S off + t) with (off + Datatypes.S t) by lia.
    rewrite Hh by (cbn; lia). reflexivity.
Qed.

Lemma for_range_row2 (P S : list (list N)) (r o : list N) (i : nat) (h : N -> N -> N) (G : Z -> list (list N) -> list (list N)) :
  length P = i -> length o = length r ->
  (forall d r', G d (P ++ r' :: S) = P ++ vset N r' d (h (vnth N r' d) (vnth N o d)) :: S) ->
  for_range 0 (Z.of_nat (length r)) G (P ++ r :: S) = P ++ map (fun ab => h (fst ab) (snd ab)) (combine r o) :: S.
Proof.
  intros Hi Lo HG.
  rewrite (for_range_row P S 0 (Z.of_nat (length r)) G (fun d r' => vset N r' d (h (vnth N r' d) (vnth N o d))) HG).
  f_equal. f_equal.
  rewrite (for_range_update N (fun k a => h a (nth k o (zero N))) (length r) r); [|reflexivity|].
  - apply mapi_from_zip; [exact Lo|]. intros; reflexivity.
  - intros k vals. rewrite (vnth_of_nat N o). reflexivity.
Qed.

(* `A[i, d] = hc(A[i, d])` for d in range(A.shape[1]) *)
Lemma for_range_row1 (P S : list (list N)) (r : list N) (i : nat) (hc : N -> N) (G : Z -> list (list N) -> list (list N)) :
  length P = i ->
  (forall d r', G d (P ++ r' :: S) = P ++ vset N r' d (hc (vnth N r' d)) :: S) ->
  for_range 0 (Z.of_nat (length r)) G (P ++ r :: S) = P ++ map hc r :: S.
Proof.
  intros Hi HG.
  rewrite (for_range_row P S 0 (Z.of_nat (length r)) G (fun d r' => vset N r' d (hc (vnth N r' d))) HG).
  f_equal. f_equal. change (Z.of_nat (length r)) with (zlen r).
  apply (for_range_inplace_only N hc). intros k p c l Hk.
  rewrite (vnth_app_mid N p l c k Hk), (vset_app_mid N p l c _ k Hk). reflexivity.
Qed.
End Mat.

(* C13 theorems, part 3: sparse_correlation.  The repaired function equals the dense correlation distance
   for every canonical pair; the unrepaired one ([sparse_correlation_orig]) does not (two witnesses). *)
From Coq Require Import List ZArith Bool Arith Reals Lra Lia Psatz.
From UV Require Import Num M_sparse T_sparse T_sparse_metrics.
Import ListNotations.
Local Open Scope R_scope.

Definition Rsubunc : list nat -> R -> rvec -> R -> R := sub_uncommon RNum.

(* the general branch of correlation_core (early_one = false, common = index intersection), over R *)
Definition Rcorr_body (a b : rvec) (n : nat) : R :=
  let mu_x := Raccum (fun v => v) (map snd a) / IZR (Z.of_nat n) in
  let mu_y := Raccum (fun v => v) (map snd b) / IZR (Z.of_nat n) in
  let sh1 := Rmapv (fun v => v - mu_x) a in
  let sh2 := Rmapv (fun v => v - mu_y) b in
  let nr1 := sqrt (Raccum Rsq (map snd sh1)) in
  let nr2 := sqrt (Raccum Rsq (map snd sh2)) in
  let norm1 := sqrt (nr1 * nr1 + IZR (Z.of_nat n - Z.of_nat (length a)) * (mu_x * mu_x)) in
  let norm2 := sqrt (nr2 * nr2 + IZR (Z.of_nat n - Z.of_nat (length b)) * (mu_y * mu_y)) in
  let prod := Rmul sh1 sh2 in
  let common := arr_intersect (map fst a) (map fst b) in
  let d1 := Raccum (fun v => v) (map snd prod) in
  let d2 := Rsubunc common mu_y sh1 d1 in
  let d3 := Rsubunc common mu_x sh2 d2 in
  let dot := d3 + mu_x * mu_y * IZR (Z.of_nat n - Z.of_nat (length (arr_union (map fst a) (map fst b)))) in
  if Reqb norm1 0 && Reqb norm2 0 then 0 else if Reqb dot 0 then 1 else 1 - dot / (norm1 * norm2).

Lemma sparse_correlation_unfold (a b : rvec) n :
  sparse_correlation RNum a b n = match a, b with [], [] => 0 | _, _ => Rcorr_body a b n end.
Proof. destruct a as [|[i u] a]; destruct b as [|[j v] b]; reflexivity. Qed.

(* ---- sums of indicator-weighted terms ---------------------------------------------------------- *)
Lemma ssum_indicator (p : nat -> bool) c l :
  Rssum (map (fun t => if p t then 0 else c) l) = (IZR (Z.of_nat (length l)) - IZR (Z.of_nat (count p l))) * c.
Proof.
  induction l as [|x l IH]; [change (0 = (0 - 0) * c); lra|].
  cbn [map length]. rewrite Rssum_cons, IH, count_cons, !Nat2Z.inj_add, Nat2Z.inj_succ, succ_IZR, plus_IZR.
  destruct (p x); simpl; lra.
Qed.
Lemma ssum_comb4 {B} (f1 f2 f3 f4 : B -> R) l :
  Rssum (map f1 l) - Rssum (map f2 l) - Rssum (map f3 l) + Rssum (map f4 l) = Rssum (map (fun t => f1 t - f2 t - f3 t + f4 t) l).
Proof. induction l as [|x l IH]; [change (0 - 0 - 0 + 0 = 0); lra|]. cbn [map]. rewrite !Rssum_cons, <- IH. lra. Qed.
Lemma ssum_add2 {B} (f1 f2 : B -> R) l : Rssum (map f1 l) + Rssum (map f2 l) = Rssum (map (fun t => f1 t + f2 t) l).
Proof. induction l as [|x l IH]; [change (0 + 0 = 0); lra|]. cbn [map]. rewrite !Rssum_cons, <- IH. lra. Qed.
Lemma ssum_zero {B} (l : list B) : Rssum (map (fun _ => 0) l) = 0.
Proof. induction l as [|x l IH]; [reflexivity|]. cbn [map]. rewrite Rssum_cons, IH. lra. Qed.
Lemma ssum_sq_shift_nonneg m l : 0 <= Rssum (map (fun u => Rsq (u - m)) l).
Proof. induction l as [|x l IH]; [change (0 <= 0); lra|]. cbn [map]. rewrite Rssum_cons, Rsq_eq. pose proof (Rle_0_sqr (x - m)) as H. unfold Rsqr in H. lra. Qed.

Lemma corr_match_case (a b : rvec) n X :
  (a = [] -> b = [] -> 0 = X) -> Rcorr_body a b n = X ->
  match a, b with [], [] => 0 | _, _ => Rcorr_body a b n end = X.
Proof. destruct a; destruct b; intros H1 H2; auto. Qed.

Section Corr.
Context (a b : rvec) (n : nat) (Ca : canonical a) (Cb : canonical b) (Ba : below n a) (Bb : below n b).
Let Sa : sorted_from 0 a := proj1 Ca.
Let Sb : sorted_from 0 b := proj1 Cb.
Let Za : nostored0 a := proj2 Ca.
Let Zb : nostored0 b := proj2 Cb.
Let da := Rdensify n a.
Let db := Rdensify n b.

Lemma accum_id_dense c : sorted_from 0 c -> below n c -> Raccum (fun v => v) (map snd c) = Rssum (Rdensify n c).
Proof. intros Hs Hb. rewrite (accum_self (fun v => v) n c eq_refl Hs Hb), map_id. reflexivity. Qed.

Lemma shift_get m c t : nostored0 c -> Rget (Rmapv (fun v => v - m) c) t = if Rnz (Rget c t) then Rget c t - m else 0.
Proof. intro H. apply (mapv_get_nz (fun v => v - m) c t H). Qed.

(* norm(shifted)**2 + (n_features - nnz) * mu**2  =  Σ_i (x_i - mu)^2 *)
Lemma shifted_norm m c : sorted_from 0 c -> nostored0 c -> below n c ->
  Raccum Rsq (map snd (Rmapv (fun v => v - m) c)) + IZR (Z.of_nat n - Z.of_nat (length c)) * (m * m)
  = Rssum (map (fun u => Rsq (u - m)) (Rdensify n c)).
Proof.
  intros Hs Hz Hb.
  rewrite (accum_dense Rsq n _ Rsq_0 (mapv_sorted _ _ _ Hs) (mapv_below _ _ _ Hb)).
  rewrite (length_nnz n c Hs Hz Hb), minus_IZR.
  replace (Z.of_nat n) with (Z.of_nat (length (seq 0 n))) by (rewrite seq_length; reflexivity).
  rewrite <- (ssum_indicator (fun t => Rnz (Rget c t)) (m * m) (seq 0 n)), ssum_add2.
  unfold Rdensify, densify. rewrite map_map. apply ssum_ext_in. intros t _. cbv beta.
  rewrite (shift_get m c t Hz). fold (Rget c t).
  destruct (Rnz (Rget c t)) eqn:E; [lra|]. apply Rnz_false in E. rewrite E, !Rsq_eq. lra.
Qed.

(* the three loops that subtract the "uncommon" contributions *)
Lemma subunc_dense common m c r0 : sorted_from 0 c -> below n c ->
  Rsubunc common m c r0 = r0 - Rssum (map (fun t => if memb t common then 0 else Rget c t * m) (seq 0 n)).
Proof.
  intros Hs Hb. unfold Rsubunc, sub_uncommon. rsimp.
  rewrite (fold_dense (fun r i v => if memb i common then r else r - v * m) (fun _ => True)) with (n := n) (s := O); auto.
  - rewrite (fold_left_ext_in _ (fun r t => r + - (if memb t common then 0 else Rget c t * m))).
    + rewrite fold_add_ssum. clear. induction (seq 0 n) as [|x l IH]; [change (r0 + 0 = r0 - 0); lra|].
      cbn [map]. rewrite !Rssum_cons. lra.
    + intros t _ r. destruct (memb t common); lra.
  - intros r i _. destruct (memb i common); lra.
Qed.

Theorem sparse_correlation_eq_dense : sparse_correlation RNum a b n = dense_correlation RNum da db.
Proof.
  rewrite sparse_correlation_unfold.
  (* dense side in R form *)
  assert (Hlen : length da = n) by apply densify_length.
  unfold dense_correlation. cbv zeta. rn. rewrite Hlen.
  change (ssum RNum da) with (Rssum da). change (ssum RNum db) with (Rssum db).
  set (mx := div RNum (Rssum da) (ofn RNum n)). set (my := div RNum (Rssum db) (ofn RNum n)).
  change (ssum RNum (map (fun u => sq RNum (sub RNum u mx)) da)) with (Rssum (map (fun u => Rsq (u - mx)) da)).
  change (ssum RNum (map (fun v => sq RNum (sub RNum v my)) db)) with (Rssum (map (fun v => Rsq (v - my)) db)).
  change (ssum RNum (zipw RNum (fun u v => mul RNum (sub RNum u mx) (sub RNum v my)) da db))
    with (Rssum (Rzipw (fun u v => (u - mx) * (v - my)) da db)).
  (* the general branch equals the dense expression *)
  assert (Hbody : Rcorr_body a b n =
     (if Reqb (Rssum (map (fun u => Rsq (u - mx)) da)) 0 && Reqb (Rssum (map (fun v => Rsq (v - my)) db)) 0 then 0
      else if Reqb (Rssum (Rzipw (fun u v => (u - mx) * (v - my)) da db)) 0 then 1
      else 1 - Rssum (Rzipw (fun u v => (u - mx) * (v - my)) da db) /
               sqrt (Rssum (map (fun u => Rsq (u - mx)) da) * Rssum (map (fun v => Rsq (v - my)) db)))).
  { unfold Rcorr_body. cbv zeta.
    rewrite (accum_id_dense a Sa Ba), (accum_id_dense b Sb Bb). fold da db.
    change (Rssum da / IZR (Z.of_nat n)) with mx. change (Rssum db / IZR (Z.of_nat n)) with my.
    (* norms *)
    pose proof (ssum_sq_shift_nonneg mx da) as Nx. pose proof (ssum_sq_shift_nonneg my db) as Ny.
    assert (Hq1 : 0 <= Raccum Rsq (map snd (Rmapv (fun v => v - mx) a))) by (rewrite accum_as_ssum; apply ssum_sq_nonneg).
    assert (Hq2 : 0 <= Raccum Rsq (map snd (Rmapv (fun v => v - my) b))) by (rewrite accum_as_ssum; apply ssum_sq_nonneg).
    rewrite (sqrt_def _ Hq1), (sqrt_def _ Hq2).
    rewrite (shifted_norm mx a Sa Za Ba), (shifted_norm my b Sb Zb Bb). fold da db.
    (* dot product *)
    set (sh1 := Rmapv (fun v => v - mx) a). set (sh2 := Rmapv (fun v => v - my) b).
    assert (Hs1 : sorted_from 0 sh1) by (apply mapv_sorted; exact Sa).
    assert (Hs2 : sorted_from 0 sh2) by (apply mapv_sorted; exact Sb).
    assert (Hb1 : below n sh1) by (apply mapv_below; exact Ba).
    assert (Hb2 : below n sh2) by (apply mapv_below; exact Bb).
    destruct (mul_spec sh1 sh2 0 Hs1 Hs2) as ((HsP & _) & HgP & HbP). specialize (HbP n Hb1 Hb2).
    destruct (inter_spec (map fst a) (map fst b) 0 Sa Sb) as (_ & HmI & _).
    destruct (union_spec (map fst a) (map fst b) 0 Sa Sb) as (HsU & HmU & HbU). specialize (HbU n Ba Bb).
    set (common := arr_intersect (map fst a) (map fst b)) in *.
    rewrite (subunc_dense common mx sh2 _ Hs2 Hb2), (subunc_dense common my sh1 _ Hs1 Hb1).
    rewrite (accum_dense (fun v => v) n _ eq_refl HsP HbP).
    rewrite (length_count n 0 _ HsU HbU).
    assert (Hind : forall p, mx * my * IZR (Z.of_nat n - Z.of_nat (count p (seq 0 n))) = Rssum (map (fun t => if p t then 0 else mx * my) (seq 0 n))).
    { intro p. rewrite ssum_indicator, seq_length, minus_IZR. ring. }
    rewrite Hind, ssum_comb4.
    assert (Hdot : Rssum (map (fun t => Rget (Rmul sh1 sh2) t - (if memb t common then 0 else Rget sh1 t * my)
                                       - (if memb t common then 0 else Rget sh2 t * mx)
                                       + (if memb t (arr_union (map fst a) (map fst b)) then 0 else mx * my)) (seq 0 n))
                   = Rssum (Rzipw (fun u v => (u - mx) * (v - my)) da db)).
    { unfold da, db. rewrite zipw_densify. apply ssum_ext_in. intros t _.
      rewrite HgP, HmI, HmU, !memb_inds by assumption. unfold sh1, sh2. rewrite (shift_get mx a t Za), (shift_get my b t Zb).
      destruct (Rnz (Rget a t)) eqn:E1; destruct (Rnz (Rget b t)) eqn:E2; simpl;
        try (apply Rnz_false in E1; rewrite E1); try (apply Rnz_false in E2; rewrite E2); ring. }
    rewrite Hdot.
    set (nx := Rssum (map (fun u => Rsq (u - mx)) da)) in *. set (ny := Rssum (map (fun v => Rsq (v - my)) db)) in *.
    rewrite !Reqb_sqrt by assumption. rewrite <- sqrt_mult by assumption. reflexivity. }
  apply corr_match_case; [intros Ea Eb | exact Hbody].
  (* both rows empty: the early `return 0.0`; the dense formula gives 0 as well *)
  assert (Hz : forall l : list nat, map (get RNum []) l = map (fun _ => 0) l) by (intro l; apply map_ext; reflexivity).
  assert (Hda : Rssum da = 0) by (unfold da, Rdensify, densify; rewrite Ea, Hz; apply ssum_zero).
  assert (Hdb : Rssum db = 0) by (unfold db, Rdensify, densify; rewrite Eb, Hz; apply ssum_zero).
  assert (Hmx : mx = 0) by (unfold mx, ofn; rsimp; rewrite Hda; unfold Rdiv; ring).
  assert (Hmy : my = 0) by (unfold my, ofn; rsimp; rewrite Hdb; unfold Rdiv; ring).
  assert (Hnx : Rssum (map (fun u => Rsq (u - mx)) da) = 0).
  { unfold da, Rdensify, densify. rewrite Ea, Hz, map_map, Hmx. rewrite <- (ssum_zero (seq 0 n)). apply ssum_ext_in. intros; rewrite Rsq_eq; ring. }
  assert (Hny : Rssum (map (fun v => Rsq (v - my)) db) = 0).
  { unfold db, Rdensify, densify. rewrite Eb, Hz, map_map, Hmy. rewrite <- (ssum_zero (seq 0 n)). apply ssum_ext_in. intros; rewrite Rsq_eq; ring. }
  rewrite Hnx, Hny. rsimp. rewrite (proj2 (Reqb_true 0 0) eq_refl). reflexivity.
Qed.

End Corr.

(* ---- the unrepaired function: two refutations by explicit witnesses -------------------------------- *)
Ltac dec_tests := repeat match goal with
  | |- context [Reqb ?x ?y] => first [ rewrite (proj2 (Reqb_true x y)) by lra | rewrite (proj2 (Reqb_false x y)) by lra ]
  | |- context [Rltb ?x ?y] => first [ rewrite (proj2 (Rltb_true x y)) by lra | rewrite (proj2 (Rltb_false x y)) by lra ]
  end.
Ltac reval := repeat (progress (unfold keep, nz, drop0; cbn; rn; dec_tests)).

(* x = (-1, 0, 1), y = (1, 2, 0): y_0 = 1 equals the mean of y, so the product at index 0 vanishes and index 0
   is not counted as common although both rows store it *)
Definition wit_a : rvec := [(0%nat, -1); (2%nat, 1)].
Definition wit_b : rvec := [(0%nat, 1); (1%nat, 2)].
Lemma wit_ok : canonical wit_a /\ canonical wit_b /\ below 3 wit_a /\ below 3 wit_b.
Proof.
  unfold canonical, sorted_from, nostored0, below, wit_a, wit_b. simpl.
  repeat split; try lia; repeat constructor; simpl; try lra; lia.
Qed.
Lemma wit_dense : dense_correlation RNum (densify RNum 3 wit_a) (densify RNum 3 wit_b) = 3 / 2.
Proof.
  unfold dense_correlation, densify, wit_a, wit_b. reval.
  match goal with |- context [sqrt ?x] => replace x with (2 * 2) by lra end.
  rewrite sqrt_square by lra. lra.
Qed.
Lemma wit_orig : sparse_correlation_orig RNum wit_a wit_b 3 = 1.
Proof.
  unfold sparse_correlation_orig, correlation_core, wit_a, wit_b. reval.
  repeat rewrite sqrt_def by lra. rewrite !Reqb_sqrt by lra. reval. reflexivity.
Qed.
Theorem sparse_correlation_orig_refuted :
  canonical wit_a /\ canonical wit_b /\ below 3 wit_a /\ below 3 wit_b /\
  sparse_correlation_orig RNum wit_a wit_b 3 = 1 /\
  dense_correlation RNum (densify RNum 3 wit_a) (densify RNum 3 wit_b) = 3 / 2 /\
  sparse_correlation RNum wit_a wit_b 3 = 3 / 2.
Proof.
  destruct wit_ok as (H1 & H2 & H3 & H4). repeat split; try assumption; try apply H1; try apply H2.
  - exact wit_orig.
  - exact wit_dense.
  - rewrite (sparse_correlation_eq_dense wit_a wit_b 3 H1 H2 H3 H4). exact wit_dense.
Qed.

(* an empty row against a constant row: the early `return 1.0`, where the dense function returns 0.0 *)
Definition wit_c : rvec := [(0%nat, 2)].
Theorem sparse_correlation_orig_refuted_empty :
  canonical [] /\ canonical wit_c /\ below 1 wit_c /\
  sparse_correlation_orig RNum [] wit_c 1 = 1 /\
  dense_correlation RNum (densify RNum 1 []) (densify RNum 1 wit_c) = 0 /\
  sparse_correlation RNum [] wit_c 1 = 0.
Proof.
  assert (Hc : canonical wit_c /\ below 1 wit_c).
  { unfold canonical, sorted_from, nostored0, below, wit_c. simpl. repeat split; try lia; repeat constructor; simpl; try lra; lia. }
  assert (He : canonical []) by (split; [exact I | constructor]).
  assert (Hd : dense_correlation RNum (densify RNum 1 []) (densify RNum 1 wit_c) = 0).
  { unfold dense_correlation, densify, wit_c. reval. reflexivity. }
  destruct Hc as [Hc1 Hc2]. repeat split; try assumption; try apply Hc1; try apply He.
  - exact (eq_trans (sparse_correlation_eq_dense [] wit_c 1 He Hc1 (Forall_nil _) Hc2) Hd).
Qed.

(* the hypotheses of the positive theorems are met by a non-trivial pair, with a non-trivial value *)
Example sparse_nonvacuous :
  canonical wit_a /\ canonical wit_b /\ below 3 wit_a /\ below 3 wit_b /\
  sparse_euclidean RNum wit_a wit_b = 3 /\ sparse_jaccard RNum wit_a wit_b = 2 / 3.
Proof.
  destruct wit_ok as (H1 & H2 & H3 & H4). repeat split; try assumption; try apply H1; try apply H2.
  - unfold sparse_euclidean, sparse_diff, wit_a, wit_b. reval.
    match goal with |- context [sqrt ?x] => replace x with (3 * 3) by (unfold sq; cbn; lra) end.
    apply sqrt_square. lra.
Qed.

(* C12 extensions: the haversine clamp is inactive on valid latitudes; minkowski at p = 1, 2 is manhattan, euclidean. *)
From Coq Require Import List ZArith Bool Reals Lra Lia Psatz.
From UV Require Import Num M_metrics T_metrics_base T_metrics_real T_metrics_real2.
Import ListNotations.
Local Open Scope R_scope.

(* ---- haversine: sin^2((a-b)/2) + cos a cos b = (1 + cos(a+b))/2 <= 1 ---------------------------------- *)
Lemma sin_half_sq t : sin (/ 2 * t) * sin (/ 2 * t) = (1 - cos t) / 2.
Proof.
  pose proof (cos_2a_sin (/ 2 * t)) as H. replace (2 * (/ 2 * t)) with t in H by field. rewrite H. field.
Qed.
Lemma hav_core_le_1 a b : sin (/ 2 * (a - b)) * sin (/ 2 * (a - b)) + cos a * cos b <= 1.
Proof.
  rewrite sin_half_sq, cos_minus.
  pose proof (cos_plus a b) as Hp. pose proof (COS_bound (a + b)) as [_ Hb].
  replace ((1 - (cos a * cos b + sin a * sin b)) / 2 + cos a * cos b) with ((1 + cos (a + b)) / 2) by (rewrite Hp; field).
  lra.
Qed.
Lemma sin_sq_le_1 t : 0 <= sin t * sin t <= 1.
Proof. pose proof (SIN_bound t) as [H1 H2]. nra. Qed.
Lemma hav_arg_le_1 x0 x1 y0 y1 : 0 <= cos x0 -> 0 <= cos y0 -> Rhav_arg x0 x1 y0 y1 <= 1.
Proof.
  intros Hc0 Hc1. unfold Rhav_arg. rewrite <- sqrt_1. apply sqrt_le_1_alt.
  pose proof (hav_core_le_1 x0 y0) as H. pose proof (sin_sq_le_1 (/ 2 * (x1 - y1))) as [Hs0 Hs1].
  assert (0 <= cos x0 * cos y0) as Hcc by now apply Rmult_le_pos.
  assert (cos x0 * cos y0 * (sin (/ 2 * (x1 - y1)) * sin (/ 2 * (x1 - y1))) <= cos x0 * cos y0) by nra.
  lra.
Qed.
(* latitudes in [-pi/2, pi/2] have non-negative cosine, and then the clamp never fires *)
Lemma hav_clamp_inactive x0 x1 y0 y1 : - (PI / 2) <= x0 <= PI / 2 -> - (PI / 2) <= y0 <= PI / 2 ->
  Rhav x0 x1 y0 y1 = 2 * asin (Rhav_arg x0 x1 y0 y1).
Proof.
  intros Hx Hy. unfold Rhav. f_equal. f_equal. unfold Rclamp1.
  pose proof (hav_arg_le_1 x0 x1 y0 y1 (cos_ge_0 x0 (proj1 Hx) (proj2 Hx)) (cos_ge_0 y0 (proj1 Hy) (proj2 Hy))) as H.
  destruct (Rltb 1 _) eqn:E; [apply Rltb_true in E; lra | reflexivity].
Qed.

(* ---- minkowski at p = 1 and p = 2 ------------------------------------------------------------------------ *)
Lemma Rpow_1 x : 0 <= x -> Rpow x 1 = x.
Proof.
  intros H. unfold Rpow. destruct (Req_EM_T 1 0); [lra|]. destruct (Rlt_dec 0 x); [now apply Rpower_1 | lra].
Qed.
Lemma mink_1 x y : Rmink 1 x y = Rmanh x y.
Proof.
  unfold Rmink, Rmanh. replace (1 / 1) with 1 by field.
  rewrite (zipw_ext (Rpd 1) (fun a b => Rabs (a - b))) by (intros a b; unfold Rpd; apply Rpow_1, Rabs_pos).
  apply Rpow_1. apply manh_nonneg.
Qed.
Lemma Rpow_2 x : 0 <= x -> Rpow x 2 = x * x.
Proof.
  intros H. unfold Rpow. destruct (Req_EM_T 2 0); [lra|]. destruct (Rlt_dec 0 x).
  - replace 2 with (INR 2) by (simpl; lra). rewrite Rpower_pow by auto. simpl. ring.
  - replace x with 0 by lra. ring.
Qed.
Lemma Rpow_half x : 0 <= x -> Rpow x (1 / 2) = sqrt x.
Proof.
  intros H. unfold Rpow. destruct (Req_EM_T (1 / 2) 0); [lra|]. destruct (Rlt_dec 0 x).
  - replace (1 / 2) with (/ 2) by field. now apply Rpower_sqrt.
  - replace x with 0 by lra. now rewrite sqrt_0.
Qed.
Lemma mink_2 x y : Rmink 2 x y = Reuclid x y.
Proof.
  unfold Rmink, Reuclid.
  rewrite (zipw_ext (Rpd 2) (fun a b => (a - b) * (a - b))).
  - apply Rpow_half. apply rsum_zipw_nonneg. intros; apply Rle_0_sqr.
  - intros a b. unfold Rpd. rewrite Rpow_2 by apply Rabs_pos. unfold Rabs. destruct (Rcase_abs (a - b)); ring.
Qed.

(* C04 theorems over the reals (+ the SGD frame over the C07 model). *)
From Coq Require Import List ZArith Bool Reals Lra Lia Psatz Permutation.
From UV Require Import Num M_smooth M_union M_knn M_disconnect M_sgd T_smooth T_union T_knn.
Import ListNotations.
Local Open Scope R_scope.
Ltac rn := change (T RNum) with R in *.

(* ================================================================================================ *)
(* 1. no edge at or beyond the disconnection distance                                               *)
(* ================================================================================================ *)

Lemma memberships_In i sigma rho (row : list (Z * R)) z v :
  In (z, v) (memberships RNum i sigma rho row) -> exists d, In (z, d) row /\ z <> (-1)%Z.
Proof.
  unfold memberships. intros H. apply in_flat_map in H as [[j d] [Hin H]].
  destruct (Z.eqb_spec j (-1)); [contradiction|]. destruct H as [H|[]]. inversion H; subst. eauto.
Qed.

Lemma zrow_In (row : list (entry RNum)) z d :
  In (z, d) (zrow RNum row) -> exists j, In (d, j) row /\ z = Z.of_nat j.
Proof.
  unfold zrow. intros H. apply in_map_iff in H as [[d' j] [E Hin]]. cbn in E. inversion E; subst. eauto.
Qed.

(* what a directed membership row can contain: only neighbours listed in the finite part of the table *)
Lemma dir_rows_In : forall (tb : table RNum) sr s i z v,
  In (z, v) (nth i (dir_rows RNum s tb sr) []) ->
  exists d, In (d, Z.to_nat z) (fst (nth i tb ([], O))) /\ (0 <= z)%Z.
Proof.
  induction tb as [|t tb IH]; intros sr s i z v H.
  - cbn in H. destruct i; contradiction.
  - destruct sr as [|[sigma rho] sr]; [cbn in H; destruct i; contradiction|].
    cbn [dir_rows] in H. destruct i as [|i].
    + cbn [nth] in *. apply memberships_In in H as [d [H _]]. apply zrow_In in H as [j [H ->]].
      exists d. rewrite Nat2Z.id. split; [exact H|lia].
    + cbn [nth] in *. eapply IH; eauto.
Qed.

Lemma firstn_In {A} (l : list A) k x : In x (firstn k l) -> In x l.
Proof. revert k; induction l as [|a l IH]; intros [|k] H; simpl in *; try contradiction. destruct H; eauto. Qed.

Lemma finite_part_In (l : list (oentry RNum)) d j :
  In (d, j) (finite_part RNum l) <-> In (Some d, j) l.
Proof.
  unfold finite_part. rewrite in_flat_map. split.
  - intros [[od j'] [Hin H]]. cbn in H. destruct od as [d'|]; [|contradiction].
    destruct H as [H|[]]. inversion H; subst. exact Hin.
  - intros H. exists (Some d, j). split; auto. now left.
Qed.

Lemma cut_row_nth t row j d :
  nth_error (cut_row RNum t row) j = Some (Some d) -> nth_error row j = Some d /\ d < t.
Proof.
  unfold cut_row. rewrite nth_error_map. destruct (nth_error row j) as [d'|]; [|discriminate].
  cbn. unfold cut1. cbn. destruct (Rleb t d') eqn:E; [discriminate|]. apply Rleb_false in E.
  intros H. inversion H; subst. auto.
Qed.

(* every neighbour kept in row [row]'s table is closer than t *)
Lemma table_of_cut_In t k row d j :
  In (d, j) (fst (table_of_cut RNum k (cut_row RNum t row))) -> nth_error row j = Some d /\ d < t.
Proof.
  unfold table_of_cut; cbv zeta; cbn [fst]. rewrite finite_part_In. unfold knn_cut_row. intros H.
  apply firstn_In in H. apply isort_In in H. unfold oindex_row in H.
  apply combine_seq_In in H as [_ H]. rewrite Nat.sub_0_r in H. now apply cut_row_nth.
Qed.

Lemma tables_cut_nth t k D i :
  nth i (tables_cut RNum t k D) ([], O) =
  if Nat.ltb i (length D) then table_of_cut RNum k (cut_row RNum t (nth i D [])) else ([], O).
Proof.
  unfold tables_cut, cut. rewrite map_map. revert i. induction D as [|row D IH]; intros [|i]; cbn; auto.
  rewrite IH. reflexivity.
Qed.

Theorem no_far_edge tol kscale (c : cfg RNum) t D i j :
  graph_cut RNum tol kscale c t D i j <> 0 ->
  (exists d, nth_error (nth i D []) j = Some d /\ d < t) \/
  (exists d, nth_error (nth j D []) i = Some d /\ d < t).
Proof.
  unfold graph_cut, graph_of_tables, graph_with, coo_with. intros H.
  apply graph_support in H. destruct H as [[z [Hz ->]]|[z [Hz ->]]]; [left|right];
    apply in_map_iff in Hz as [[z' v] [E Hin]]; cbn in E; subst z';
    apply dir_rows_In in Hin as [d [Hin _]]; rewrite tables_cut_nth in Hin;
    (destruct (Nat.ltb _ (length D)); [|contradiction]);
    apply table_of_cut_In in Hin; eauto.
Qed.

(* symmetric matrices: the distance between the two endpoints of any edge is below t *)
Corollary no_far_edge_sym tol kscale (c : cfg RNum) t D i j :
  (forall a b, nth_error (nth a D []) b = nth_error (nth b D []) a) ->
  graph_cut RNum tol kscale c t D i j <> 0 ->
  exists d, nth_error (nth i D []) j = Some d /\ d < t.
Proof. intros Hs H. apply no_far_edge in H as [H|H]; auto. rewrite Hs. exact H. Qed.

(* the kNN-table paths (sparse precomputed / NN-descent / precomputed_knn): the same for [cut_knn] *)
Lemma cut_knn_In t (row : list (entry RNum)) d j : In (d, j) (fst (cut_knn RNum t row)) -> In (d, j) row /\ d < t.
Proof.
  unfold cut_knn; cbv zeta; cbn [fst]. rewrite filter_In. cbn. intros [H E]. split; auto.
  apply negb_true_iff in E. now apply Rleb_false in E.
Qed.

Theorem no_far_edge_knn tol kscale (c : cfg RNum) t (rows : list (list (entry RNum))) i j :
  graph_of_tables RNum tol kscale c (tables_cut_knn RNum t rows) i j <> 0 ->
  (exists d, In (d, j) (nth i rows []) /\ d < t) \/ (exists d, In (d, i) (nth j rows []) /\ d < t).
Proof.
  unfold graph_of_tables, graph_with, coo_with. intros H.
  assert (Hn: forall a, nth a (tables_cut_knn RNum t rows) ([], O) =
                        if Nat.ltb a (length rows) then cut_knn RNum t (nth a rows []) else ([], O)).
  { unfold tables_cut_knn. clear. induction rows as [|r rows IH]; intros [|a]; cbn; auto. rewrite IH. reflexivity. }
  apply graph_support in H. destruct H as [[z [Hz ->]]|[z [Hz ->]]]; [left|right];
    apply in_map_iff in Hz as [[z' v] [E Hin]]; cbn in E; subst z';
    apply dir_rows_In in Hin as [d [Hin _]]; rewrite Hn in Hin;
    (destruct (Nat.ltb _ (length rows)); [|contradiction]);
    apply cut_knn_In in Hin; eauto.
Qed.

(* ================================================================================================ *)
(* 2. isolated <-> NaN row <-> reported by disconnected_vertices                                    *)
(* ================================================================================================ *)
Definition Rdegree : (nat -> nat -> R) -> nat -> nat -> nat := degree RNum.
Definition Rrowsum : (nat -> nat -> R) -> nat -> nat -> R := rowsum RNum.

Lemma nsum_zero_iff (f : nat -> R) l : (forall j, 0 <= f j) ->
  (Rnsum (map f l) = 0 <-> filter (fun j => negb (Reqb (f j) 0)) l = []).
Proof.
  intros Hf. assert (Hs: forall l, 0 <= Rnsum (map f l)).
  { induction l0 as [|a l0 IH]; cbn; [lra|]. specialize (Hf a). unfold Rnsum in *. rn. lra. }
  induction l as [|a l IH]; cbn; [tauto|].
  specialize (Hs l). pose proof (Hf a) as Ha. unfold Rnsum in *. rn.
  destruct (Reqb (f a) 0) eqn:E; cbn.
  - apply Reqb_true in E. rewrite <- IH. split; lra.
  - apply Reqb_false in E. split; [lra|discriminate].
Qed.

(* a row of non-negative entries sums to zero exactly when it has no non-zero entry *)
Lemma rowsum_zero_iff_degree (g : nat -> nat -> R) n i : (forall j, 0 <= g i j) ->
  (Rrowsum g n i = 0 <-> Rdegree g n i = O).
Proof.
  intros Hg. unfold Rrowsum, rowsum, Rdegree, degree. cbn [eqb RNum zero].
  rewrite (nsum_zero_iff (g i) (seq 0 n) Hg). split; [intros ->; reflexivity | apply length_zero_iff_nil].
Qed.

Lemma nth_error_seq s n u : (u < n)%nat -> nth_error (seq s n) u = Some (s + u)%nat.
Proof.
  revert s u; induction n as [|n IH]; intros s [|u] H; cbn; try lia.
  - now rewrite Nat.add_0_r.
  - rewrite IH by lia. f_equal; lia.
Qed.

Lemma nth_error_combine {A B} (a : list A) (b : list B) u x y :
  nth_error a u = Some x -> nth_error b u = Some y -> nth_error (combine a b) u = Some (x, y).
Proof.
  revert b u; induction a as [|a0 a IH]; intros [|b0 b] [|u] Ha Hb; cbn in *; try discriminate.
  - now inversion Ha; inversion Hb.
  - now apply IH.
Qed.

Lemma mark_nth (g : nat -> nat -> R) n emb u : length emb = n -> (u < n)%nat ->
  nth_error (mark RNum emb (isolated_mask RNum g n)) u =
  Some (if Reqb (Rrowsum g n u) 0 then None else Some (nth u emb [])).
Proof.
  intros Hl Hu. unfold mark. rewrite nth_error_map.
  assert (Hm: nth_error (isolated_mask RNum g n) u = Some (Reqb (Rrowsum g n u) 0)).
  { unfold isolated_mask. rewrite nth_error_map, nth_error_seq by assumption. reflexivity. }
  assert (He: nth_error emb u = Some (nth u emb [])) by (apply nth_error_nth'; lia).
  rewrite (nth_error_combine _ _ _ _ _ He Hm). reflexivity.
Qed.

(* the NaN mask of the returned embedding, for any index map [inverse] (identity unless unique=True) *)
Theorem nan_rows_spec (g : nat -> nat -> R) n emb inverse : length emb = n -> Forall (fun u => (u < n)%nat) inverse ->
  nan_rows RNum (postprocess RNum g n emb inverse) = map (fun u => Reqb (Rrowsum g n u) 0) inverse.
Proof.
  intros Hl Hf. unfold postprocess; cbv zeta. induction Hf as [|u inv Hu Hf IH]; [reflexivity|].
  cbn [flat_map map]. rewrite mark_nth by assumption. unfold nan_rows in *. rewrite map_app, IH.
  cbn. destruct (Reqb (Rrowsum g n u) 0); reflexivity.
Qed.

Theorem dv_spec (g : nat -> nat -> R) n inverse : Forall (fun u => (u < n)%nat) inverse ->
  disconnected_vertices RNum g n inverse = map (fun u => Reqb (Rrowsum g n u) 0) inverse.
Proof.
  intros Hf. unfold disconnected_vertices. induction Hf as [|u inv Hu Hf IH]; [reflexivity|].
  cbn [flat_map map]. rewrite IH. apply Nat.ltb_lt in Hu. rewrite Hu. reflexivity.
Qed.

(* disconnected_vertices(model) is exactly the NaN mask of embedding_ *)
Theorem dv_eq_nan (g : nat -> nat -> R) n emb inverse : length emb = n -> Forall (fun u => (u < n)%nat) inverse ->
  disconnected_vertices RNum g n inverse = nan_rows RNum (postprocess RNum g n emb inverse).
Proof. intros Hl Hf. rewrite nan_rows_spec, dv_spec; auto. Qed.

(* sample number p (which is vertex u of the graph) has a NaN row exactly when u has no edge *)
Theorem nan_iff_isolated (g : nat -> nat -> R) n emb inverse p u :
  (forall a b, 0 <= g a b) -> length emb = n -> Forall (fun u => (u < n)%nat) inverse ->
  nth_error inverse p = Some u ->
  (nth_error (nan_rows RNum (postprocess RNum g n emb inverse)) p = Some true <-> Rdegree g n u = O).
Proof.
  intros Hg Hl Hf Hp. rewrite nan_rows_spec by assumption. rewrite nth_error_map, Hp. cbn.
  rewrite <- (rowsum_zero_iff_degree g n u (Hg u)). rewrite <- Reqb_true. split; [now intros [= ->] | now intros ->].
Qed.

(* a row that is not NaN is returned as the optimiser left it (no coordinate is touched) *)
Theorem non_isolated_row_kept (g : nat -> nat -> R) n emb u : length emb = n -> (u < n)%nat ->
  Rdegree g n u <> O -> (forall b, 0 <= g u b) ->
  postprocess RNum g n emb [u] = [Some (nth u emb [])].
Proof.
  intros Hl Hu Hd Hg. unfold postprocess; cbv zeta. cbn [flat_map]. rewrite mark_nth by assumption.
  destruct (Reqb (Rrowsum g n u) 0) eqn:E; [|reflexivity].
  apply Reqb_true in E. apply rowsum_zero_iff_degree in E; auto. contradiction.
Qed.

(* ---- the model graph has entries in [0,1] (so the theorems above apply to it) ------------------- *)
Lemma lookup_nonneg (A : coo RNum) i j : (forall a b v, In (a, b, v) A -> 0 <= v) -> 0 <= Rlookup A i j.
Proof.
  intros H. induction A as [|[[a b] v] A IH]; cbn; [lra|].
  assert (0 <= v) by (eapply H; now left).
  assert (0 <= Rlookup A i j) by (apply IH; intros; eapply H; right; eauto).
  unfold Rlookup in *. destruct (Nat.eqb i a && Nat.eqb j b); cbn; rn; lra.
Qed.

Lemma memberships_self i sigma rho (row : list (Z * R)) v : In (i, v) (memberships RNum i sigma rho row) -> v = 0.
Proof.
  unfold memberships. intros H. apply in_flat_map in H as [[j d] [_ H]].
  destruct (Z.eqb_spec j (-1)); [contradiction|]. destruct H as [H|[]]. inversion H; subst.
  now rewrite Z.eqb_refl.
Qed.

Lemma dir_rows_self : forall (tb : table RNum) sr s i v,
  In (Z.of_nat (s + i), v) (nth i (dir_rows RNum s tb sr) []) -> v = 0.
Proof.
  induction tb as [|t tb IH]; intros sr s i v H.
  - cbn in H. destruct i; contradiction.
  - destruct sr as [|[sigma rho] sr]; [cbn in H; destruct i; contradiction|].
    cbn [dir_rows] in H. destruct i as [|i]; cbn [nth] in H.
    + rewrite Nat.add_0_r in H. eapply memberships_self; eauto.
    + apply (IH sr (S s) i v). replace (S s + i)%nat with (s + S i)%nat by lia. exact H.
Qed.

Lemma lookup_zero (A : coo RNum) i j : (forall v, In (i, j, v) A -> v = 0) -> Rlookup A i j = 0.
Proof.
  unfold Rlookup. induction A as [|[[a b] v] A IH]; intros H; cbn [lookup]; [reflexivity|].
  assert (IH': lookup RNum A i j = 0) by (apply IH; intros; apply H; now right).
  destruct (Nat.eqb i a && Nat.eqb j b) eqn:E; [|exact IH'].
  apply andb_true_iff in E as [E1 E2]. apply Nat.eqb_eq in E1, E2. subst.
  rewrite (H v) by (now left). rewrite IH'. cbn. lra.
Qed.

(* isolated when the sample keeps no neighbour other than itself and is kept by nobody else
   (the converse needs r > 0 and positive bandwidths: see [isolated_only_if] below) *)
Theorem isolated_if_all_cut tol kscale (c : cfg RNum) (tb : table RNum) n i :
  (forall d j, In (d, j) (fst (nth i tb ([], O))) -> j = i) ->
  (forall a d, a <> i -> ~ In (d, i) (fst (nth a tb ([], O)))) ->
  Rdegree (graph_of_tables RNum tol kscale c tb) n i = O.
Proof.
  intros Hrow Hcol. unfold Rdegree, degree. apply length_zero_iff_nil.
  destruct (filter _ _) as [|j l] eqn:E; [reflexivity|exfalso].
  assert (Hj: In j (j :: l)) by (now left). rewrite <- E in Hj. apply filter_In in Hj as [_ Hj].
  apply negb_true_iff in Hj. cbn in Hj. apply Reqb_false in Hj.
  assert (j = i).
  { pose proof Hj as Hj'. unfold graph_of_tables, graph_with, coo_with in Hj'.
    apply graph_support in Hj' as [[z [Hz ->]]|[z [Hz Hi]]];
      apply in_map_iff in Hz as [[z' v] [Ez Hin]]; cbn in Ez; subst z'; apply dir_rows_In in Hin as [d [Hin _]].
    - eapply Hrow; eauto.
    - destruct (Nat.eq_dec j i); auto. exfalso. rewrite <- Hi in Hin. eapply Hcol; eauto. }
  subst j. apply Hj. unfold graph_of_tables, graph_with, coo_with, graph, graphf.
  set (rows := dir_rows RNum 0 tb _).
  assert (L: Rlookup (coo_of_rows RNum 0 rows) i i = 0).
  { apply lookup_zero. intros v Hv. apply coo_of_rows_in in Hv as [_ [z [Hz Hzi]]]. rewrite Nat.sub_0_r in Hz.
    pose proof Hz as Hz'. apply dir_rows_In in Hz' as [d [_ Hz0]].
    assert (Ez: z = Z.of_nat (0 + i)) by lia. subst z. eapply dir_rows_self; eauto. }
  unfold Rlookup in L. rewrite L. unfold mix; cbn. ring.
Qed.

(* ================================================================================================ *)
(* 3. transform: far points get NaN, near points do not                                             *)
(* ================================================================================================ *)
Lemma new_indices_far t (row : list (R * Z)) : (forall e, In e row -> t <= fst e) ->
  forall sigma rho, memberships_bip RNum sigma rho (new_indices RNum t row) = [].
Proof.
  intros H sigma rho. unfold memberships_bip, new_indices. induction row as [|e row IH]; [reflexivity|].
  cbn [map flat_map fst snd]. rewrite IH by (intros; apply H; now right).
  assert (E: Rleb t (fst e) = true) by (apply Rleb_true, H; now left). cbn. rewrite E. reflexivity.
Qed.

Theorem transform_far_is_nan_with sigma rho t dim emb (row : list (R * Z)) :
  (forall e, In e row -> t <= fst e) -> init_row RNum dim emb (new_row_with RNum sigma rho t row) = None.
Proof. intros H. unfold new_row_with. rewrite new_indices_far by assumption. reflexivity. Qed.

Theorem transform_far_is_nan tol kscale n_iter target mean_all index interp t dim emb (row : list (R * Z)) :
  (forall e, In e row -> t <= fst e) ->
  init_row RNum dim emb (new_row RNum tol kscale n_iter target mean_all index interp t row) = None.
Proof.
  intros H. unfold new_row. destruct (smooth_row _ _ _ _ _ _ _ _ _ _) as [[sigma rho] brk].
  now apply transform_far_is_nan_with.
Qed.

Lemma init_loop_some rs (emb : Z -> option (list R)) g : (forall c v, In (c, v) g -> emb c <> None) ->
  forall acc, acc <> None -> init_loop RNum rs emb acc g <> None.
Proof.
  induction g as [|[c v] g IH]; intros Hemb acc Hacc; cbn [init_loop]; [exact Hacc|].
  destruct (eqb RNum v (one RNum)); [eapply Hemb; now left|].
  apply IH; [intros; eapply Hemb; right; eauto|].
  destruct (emb c) eqn:E; [|exfalso; eapply Hemb; [now left|exact E]].
  destruct acc; [discriminate|contradiction].
Qed.

Theorem transform_near_not_nan_with sigma rho t dim emb (row : list (R * Z)) :
  0 < sigma -> (exists e, In e row /\ fst e < t /\ snd e <> (-1)%Z) ->
  (forall e, In e row -> fst e < t -> emb (snd e) <> None) ->
  init_row RNum dim emb (new_row_with RNum sigma rho t row) <> None.
Proof.
  intros Hs [e [Hin [Hlt Hne]]] Hemb. unfold init_row.
  assert (Hmem: forall c v, In (c, v) (new_row_with RNum sigma rho t row) ->
                exists e', In e' row /\ fst e' < t /\ c = snd e' /\ v = Rmem (fst e') rho sigma).
  { intros c v H. unfold new_row_with, memberships_bip, new_indices in H.
    apply in_flat_map in H as [[z d] [H1 H2]]. apply in_map_iff in H1 as [e' [E He']].
    cbn [fst snd] in H2. destruct (Z.eqb_spec z (-1)); [contradiction|]. destruct H2 as [H2|[]].
    inversion H2; subst. inversion E; subst. cbn in *. exists e'.
    destruct (Rleb t (fst e')) eqn:El; [contradiction|]. apply Rleb_false in El. auto. }
  assert (Hin': In (snd e, Rmem (fst e) rho sigma) (stored RNum (new_row_with RNum sigma rho t row))).
  { unfold stored. apply filter_In. split.
    - unfold new_row_with, memberships_bip, new_indices. apply in_flat_map.
      exists (snd e, fst e). split.
      + apply in_map_iff. exists e. split; auto. cbn.
        assert (El: Rleb t (fst e) = false) by (apply Rleb_false; lra). now rewrite El.
      + cbn [fst snd]. destruct (Z.eqb_spec (snd e) (-1)); [contradiction|]. now left.
    - cbn. apply negb_true_iff, Reqb_false. pose proof (mem_range (fst e) rho sigma Hs). lra. }
  destruct (stored RNum (new_row_with RNum sigma rho t row)) as [|x g'] eqn:Eg; [contradiction|].
  apply init_loop_some; [|discriminate].
  intros c v H. assert (H': In (c, v) (stored RNum (new_row_with RNum sigma rho t row))) by (rewrite Eg; exact H).
  unfold stored in H'. apply filter_In in H' as [H' _]. apply Hmem in H' as [e' [He' [Hlt' [-> _]]]]. auto.
Qed.

(* ================================================================================================ *)
(* 4. the optimiser never writes the row of a vertex without edges (so NaN cannot appear or spread    *)
(*    through the layout stage): frame over the C07 kernel, all graphs, all epochs                    *)
(* ================================================================================================ *)
Lemma nth_upd_other {A} (l : list A) i j v d : i <> j -> nth j (upd l i v) d = nth j l d.
Proof. revert i j; induction l as [|x l IH]; intros [|i] [|j] H; simpl; auto; try lia; try (apply IH; lia). Qed.

Section HeadFrame.
Variables a b gamma : R.
Variable nv : Z.
Variable j : nat.       (* the vertex without edges *)
Notation Hrow e := (nth j (eH RNum e) []).

Lemma set_head_other (e : emb RNum) i row : i <> j -> Hrow (set_head RNum e i row) = Hrow e.
Proof. intros H. unfold set_head; cbn [eH]. now apply nth_upd_other. Qed.

Lemma set_tail_other (e : emb RNum) k row : (eshared RNum e = true -> k <> j) -> Hrow (set_tail RNum e k row) = Hrow e.
Proof. intros H. unfold set_tail. destruct (eshared RNum e); [apply set_head_other; auto | reflexivity]. Qed.

Lemma attract_other alpha mo (e : emb RNum) h k : h <> j -> (mo = true -> k <> j) ->
  Hrow (attract RNum a b alpha mo e h k) = Hrow e.
Proof.
  intros Hh Hk. unfold attract; cbv zeta. destruct mo.
  - rewrite set_tail_other by auto. now apply set_head_other.
  - now apply set_head_other.
Qed.

Lemma repel_other alpha (e : emb RNum) h k : h <> j -> Hrow (repel RNum a b gamma alpha e h k) = Hrow e.
Proof. intros Hh. unfold repel; cbv zeta. destruct (ltb RNum _ _); [now apply set_head_other | reflexivity]. Qed.

(* negative samples are only read: whichever vertices are drawn, only the head row h is written *)
Lemma neg_loop_other alpha h : h <> j -> forall fuel e st,
  Hrow (fst (neg_loop RNum fuel a b gamma alpha nv e h st)) = Hrow e.
Proof.
  intros Hh. induction fuel as [|f IH]; intros e st; cbn [neg_loop]; [reflexivity|].
  destruct (tau_rand_int st) as [st' r]. rewrite IH. now apply repel_other.
Qed.

Lemma edge_step_other alpha mo n s i ed : e_head RNum ed <> j -> (mo = true -> e_tail RNum ed <> j) ->
  Hrow (s_emb RNum (edge_step RNum a b gamma alpha mo nv n s i ed)) = Hrow (s_emb RNum s).
Proof.
  intros Hh Ht. unfold edge_step; cbv zeta. destruct (leb RNum _ _); [|reflexivity].
  destruct (neg_loop RNum _ a b gamma alpha nv _ _ _) as [e2 st'] eqn:E. cbn [s_emb].
  change e2 with (fst (e2, st')). rewrite <- E. rewrite neg_loop_other by assumption. now apply attract_other.
Qed.

Definition no_edge_at (mo : bool) (es : list (edge RNum)) : Prop :=
  Forall (fun ed => e_head RNum ed <> j /\ (mo = true -> e_tail RNum ed <> j)) es.

Lemma edges_from_other alpha mo n : forall es i s, no_edge_at mo es ->
  Hrow (s_emb RNum (edges_from RNum a b gamma alpha mo nv n i es s)) = Hrow (s_emb RNum s).
Proof.
  induction es as [|ed es IH]; intros i s Hf; cbn [edges_from]; [reflexivity|].
  inversion Hf as [|? ? [Hh Ht] Hf']; subst. rewrite IH by assumption. now apply edge_step_other.
Qed.

Theorem head_frame alpha0 mo nepochs es : no_edge_at mo es -> forall fuel n s,
  Hrow (s_emb RNum (run_from RNum a b gamma alpha0 mo nv nepochs es fuel n s)) = Hrow (s_emb RNum s).
Proof.
  intros Hf. induction fuel as [|f IH]; intros n s; cbn [run_from]; [reflexivity|].
  rewrite IH. unfold epoch. now apply edges_from_other.
Qed.
End HeadFrame.

(* ================================================================================================ *)
(* 5. the default disconnection distances are the maxima of their metrics                            *)
(* ================================================================================================ *)
Definition max_cosine : R := 2.       (* 1 - cos, cos in [-1,1] *)
Definition max_correlation : R := 2.  (* 1 - Pearson r *)
Definition max_hellinger : R := 1.    (* sqrt(1 - BC), BC in [0,1] *)
Definition max_jaccard : R := 1.      (* (nz - eq) / nz *)
Definition max_dice : R := 1.         (* ne / (2 tt + ne) *)

Lemma cosine_le_max c : -1 <= c <= 1 -> 0 <= 1 - c <= max_cosine /\ (1 - c = max_cosine <-> c = -1).
Proof. unfold max_cosine. intros H. repeat split; lra. Qed.
Lemma correlation_le_max c : -1 <= c <= 1 -> 0 <= 1 - c <= max_correlation.
Proof. unfold max_correlation. lra. Qed.
Lemma hellinger_le_max s : 0 <= s <= 1 -> 0 <= sqrt (1 - s) <= max_hellinger /\ (s = 0 -> sqrt (1 - s) = max_hellinger).
Proof.
  unfold max_hellinger. intros H. repeat split.
  - apply sqrt_pos.
  - rewrite <- sqrt_1 at 2. apply sqrt_le_1; lra.
  - intros ->. rewrite Rminus_0_r. apply sqrt_1.
Qed.
Lemma jaccard_le_max nz eq : 0 < nz -> 0 <= eq <= nz -> 0 <= (nz - eq) / nz <= max_jaccard /\ ((nz - eq) / nz = max_jaccard <-> eq = 0).
Proof.
  unfold max_jaccard. intros Hn He. assert (Hi: 0 < / nz) by (now apply Rinv_0_lt_compat).
  assert (E: (nz - eq) / nz = 1 - eq * / nz) by (field; lra). rewrite E.
  assert (0 <= eq * / nz) by nra.
  assert (eq * / nz <= 1). { apply Rmult_le_reg_r with nz; [lra|]. rewrite Rmult_assoc, Rinv_l; lra. }
  repeat split; try lra.
  - intros H1. assert (eq * / nz = 0) by lra. apply Rmult_integral in H2 as [H2|H2]; lra.
  - intros ->. lra.
Qed.
Lemma dice_le_max tt ne : 0 <= tt -> 0 < ne -> 0 <= ne / (2 * tt + ne) <= max_dice /\ (tt = 0 -> ne / (2 * tt + ne) = max_dice).
Proof.
  unfold max_dice. intros Ht Hn. assert (Hd: 0 < 2 * tt + ne) by lra.
  assert (Hi: 0 < / (2 * tt + ne)) by (now apply Rinv_0_lt_compat).
  repeat split.
  - unfold Rdiv. nra.
  - apply Rmult_le_reg_r with (2 * tt + ne); [lra|]. unfold Rdiv. rewrite Rmult_assoc, Rinv_l; lra.
  - intros ->. field. lra.
Qed.

(* ================================================================================================ *)
(* 6. non-vacuity                                                                                    *)
(* ================================================================================================ *)
(* three samples, the third far away; t = 5, k = 2: the far sample keeps no neighbour *)
Definition exD : list (list R) := [[0; 1; 9]; [1; 0; 8]; [9; 8; 0]].

Lemma cut_example :
  map fst (fst (table_of_cut RNum 2 (cut_row RNum 5 (nth 2 exD [])))) = [0] /\
  snd (table_of_cut RNum 2 (cut_row RNum 5 (nth 2 exD []))) = 1%nat /\
  map snd (fst (table_of_cut RNum 2 (cut_row RNum 5 (nth 0 exD [])))) = [0; 1]%nat.
Proof.
  unfold table_of_cut, knn_cut_row, oindex_row, cut_row, cut1, isort, oent_le, ent_le, exD. cbn.
  rdec. repeat split; reflexivity.
Qed.

Lemma transform_example :
  init_row RNum 2 (fun _ => Some [0; 0]) (new_row_with RNum 1 1 5 [(6, 0%Z); (7, 1%Z)]) = None /\
  init_row RNum 2 (fun _ => Some [0; 0]) (new_row_with RNum 1 1 5 [(1, 0%Z); (7, 1%Z)]) <> None.
Proof.
  split.
  - apply transform_far_is_nan_with. intros e [<-|[<-|[]]]; cbn; lra.
  - apply transform_near_not_nan_with; [lra| |intros; discriminate].
    exists (1, 0%Z). cbn. repeat split; auto; try lra; discriminate.
Qed.

(* ================================================================================================ *)
(* 7. the model graph has entries in [0,1]: the hypotheses of [nan_iff_isolated] hold for [graph_cut]  *)
(* ================================================================================================ *)
Fixpoint rowval (row : list (Z * R)) (j : nat) : R :=
  match row with
  | [] => 0
  | (z, v) :: r => if Nat.eqb j (Z.to_nat z) then v + rowval r j else rowval r j
  end.
Definition keys (row : list (Z * R)) : list nat := map (fun e => Z.to_nat (fst e)) row.
Definition good_row (row : list (Z * R)) : Prop := (forall z v, In (z, v) row -> 0 <= v <= 1) /\ NoDup (keys row).

Lemma lookup_app (A B : coo RNum) i j : Rlookup (A ++ B) i j = Rlookup A i j + Rlookup B i j.
Proof.
  unfold Rlookup. induction A as [|[[a b] v] A IH]; cbn [app lookup]; [cbn; lra|].
  rewrite IH. destruct (Nat.eqb i a && Nat.eqb j b); cbn; rn; lra.
Qed.

Lemma lookup_row i0 (row : list (Z * R)) i j :
  Rlookup (map (fun e => (i0, Z.to_nat (fst e), snd e)) row) i j = if Nat.eqb i i0 then rowval row j else 0.
Proof.
  unfold Rlookup. induction row as [|[z v] row IH]; cbn [map lookup rowval fst snd]; [destruct (Nat.eqb i i0); reflexivity|].
  rewrite IH. destruct (Nat.eqb i i0); cbn [andb]; [|reflexivity].
  destruct (Nat.eqb j (Z.to_nat z)); reflexivity.
Qed.

Lemma lookup_coo_of_rows rows : forall s i j,
  Rlookup (Rcoo_of_rows s rows) i j = if Nat.leb s i then rowval (nth (i - s) rows []) j else 0.
Proof.
  induction rows as [|row rows IH]; intros s i j.
  - cbn. destruct (Nat.leb s i); [destruct (i - s)%nat|]; reflexivity.
  - unfold Rcoo_of_rows in *. cbn [coo_of_rows]. rewrite lookup_app, lookup_row, IH.
    destruct (Nat.eqb_spec i s) as [->|Hne].
    + rewrite Nat.leb_refl, Nat.sub_diag. cbn [nth].
      assert (E: Nat.leb (S s) s = false) by (apply Nat.leb_gt; lia). rewrite E. lra.
    + destruct (Nat.leb s i) eqn:E1.
      * apply Nat.leb_le in E1. assert (E2: Nat.leb (S s) i = true) by (apply Nat.leb_le; lia). rewrite E2.
        replace (i - s)%nat with (S (i - S s)) by lia. cbn [nth]. lra.
      * apply Nat.leb_gt in E1. assert (E2: Nat.leb (S s) i = false) by (apply Nat.leb_gt; lia). rewrite E2. lra.
Qed.

Lemma rowval_notin row j : ~ In j (keys row) -> rowval row j = 0.
Proof.
  induction row as [|[z v] row IH]; intros H; cbn [rowval]; [reflexivity|].
  cbn in H. destruct (Nat.eqb_spec j (Z.to_nat z)) as [->|Hne]; [exfalso; apply H; now left|].
  apply IH. intros Hin. apply H. now right.
Qed.

Lemma rowval_range row j : good_row row -> 0 <= rowval row j <= 1.
Proof.
  intros [Hv Hnd]. induction row as [|[z v] row IH]; cbn [rowval]; [lra|].
  cbn in Hnd. inversion Hnd as [|? ? Hnotin Hnd']; subst.
  assert (IH': 0 <= rowval row j <= 1) by (apply IH; auto; intros; eapply Hv; right; eauto).
  destruct (Nat.eqb_spec j (Z.to_nat z)) as [->|Hne]; [|exact IH'].
  rewrite (rowval_notin row _ Hnotin). specialize (Hv z v (or_introl eq_refl)). lra.
Qed.

Lemma memberships_good i sigma rho (row : list (entry RNum)) : 0 < sigma -> NoDup (map snd row) ->
  good_row (memberships RNum i sigma rho (zrow RNum row)) /\
  (forall j, In j (keys (memberships RNum i sigma rho (zrow RNum row))) -> In j (map snd row)).
Proof.
  intros Hs. induction row as [|[d j] row IH]; intros Hnd.
  - cbn. repeat split; try constructor; intros; contradiction.
  - cbn in Hnd. inversion Hnd as [|? ? Hnotin Hnd']; subst. destruct (IH Hnd') as [[Hv Hk] Hsub].
    unfold zrow, memberships in *. cbn [map flat_map fst snd].
    destruct (Z.eqb_spec (Z.of_nat j) (-1)) as [E|_]; [lia|].
    set (val := if (Z.of_nat j =? i)%Z then zero RNum else mem RNum d rho sigma).
    assert (Hval: 0 <= val <= 1).
    { unfold val. destruct (Z.of_nat j =? i)%Z; [cbn; lra|]. pose proof (mem_range d rho sigma Hs) as H. unfold Rmem in H. lra. }
    cbn [app]. split; [split|].
    + intros z0 v0 [Hz|Hz]; [inversion Hz; subst; exact Hval | eapply Hv; eauto].
    + unfold keys in *. cbn [map fst]. rewrite Nat2Z.id. constructor; auto.
    + intros j' [Hj|Hj]; cbn [map snd]; [left; cbn in Hj; now rewrite Nat2Z.id in Hj | right; auto].
Qed.

Lemma dir_rows_good : forall (tb : table RNum) sr s,
  Forall (fun p => 0 < fst p) sr -> Forall (fun t => NoDup (map snd (fst t))) tb ->
  Forall good_row (dir_rows RNum s tb sr).
Proof.
  induction tb as [|t tb IH]; intros sr s Hsr Htb; [constructor|].
  destruct sr as [|[sigma rho] sr]; [constructor|]. cbn [dir_rows].
  inversion Hsr as [|? ? Hs Hsr']; inversion Htb as [|? ? Ht Htb']; subst. constructor; [|now apply IH].
  now apply memberships_good.
Qed.

Lemma good_nth rows i : Forall good_row rows -> good_row (nth i rows []).
Proof.
  intros H. destruct (Nat.lt_ge_cases i (length rows)) as [Hi|Hi].
  - rewrite Forall_forall in H. apply H, nth_In, Hi.
  - rewrite nth_overflow by assumption. split; [intros; contradiction | constructor].
Qed.

Lemma combine_pos (s r : list R) : Forall (fun x => 0 < x) s -> Forall (fun p : R * R => 0 < fst p) (combine s r).
Proof. intros H; revert r; induction H as [|a s Ha Hs IH]; intros [|b r]; cbn; constructor; auto. Qed.

Theorem graph_with_range tol (c : cfg RNum) tb sigmas i j : 0 <= c_r RNum c <= 1 ->
  Forall (fun s => 0 < s) sigmas -> Forall (fun t : list (entry RNum) * nat => NoDup (map snd (fst t))) tb ->
  0 <= graph_with RNum tol c tb sigmas i j <= 1.
Proof.
  intros Hr Hs Htb. unfold graph_with, coo_with, graph, graphf.
  set (rows := dir_rows RNum 0 tb _).
  assert (Hg: Forall good_row rows) by (apply dir_rows_good; [now apply combine_pos | exact Htb]).
  pose proof (lookup_coo_of_rows rows 0 i j) as E1. pose proof (lookup_coo_of_rows rows 0 j i) as E2.
  unfold Rlookup, Rcoo_of_rows in E1, E2. cbn [Nat.leb] in E1, E2. rewrite Nat.sub_0_r in E1, E2. rewrite E1, E2.
  apply mix_range; auto; apply rowval_range, good_nth, Hg.
Qed.

(* the bandwidths the model computes are positive *)
Lemma sigmas_of_pos tol kscale (c : cfg RNum) tb : Forall (fun s => 0 < s) (sigmas_of RNum tol kscale c tb).
Proof.
  unfold sigmas_of, smooth_knn. apply Forall_forall. intros s Hs.
  apply in_map_iff in Hs as [x [<- Hx]]. apply in_map_iff in Hx as [r [<- Hr]].
  match goal with |- context [smooth_row RNum ?a ?b ?n ?d ?e ?f ?g ?h ?k] =>
    pose proof (bandwidth_bounds a b n d e f g h k) as H;
    destruct (smooth_row RNum a b n d e f g h k) as [[sigma rho] brk] end.
  cbn [fst]. destruct H as [H _].
  assert (0 < / 2 ^ c_niter RNum c) by (apply Rinv_0_lt_compat, pow_lt; lra). rn. lra.
Qed.

(* indices in the tables of the cut matrix are pairwise distinct *)
Lemma NoDup_firstn {A} (l : list A) k : NoDup l -> NoDup (firstn k l).
Proof.
  revert k; induction l as [|a l IH]; intros [|k] H; cbn; try constructor.
  - inversion H; subst. intros Hin. apply firstn_In in Hin. contradiction.
  - inversion H; subst. now apply IH.
Qed.

Lemma map_snd_combine_seq {A} (l : list A) s : map snd (combine l (seq s (length l))) = seq s (length l).
Proof. revert s; induction l as [|a l IH]; intros s; cbn; [reflexivity|]. now rewrite IH. Qed.

Lemma finite_part_snd (l : list (oentry RNum)) : NoDup (map snd l) -> NoDup (map snd (finite_part RNum l)).
Proof.
  induction l as [|[[d|] j] l IH]; intros H; cbn in *; try constructor; inversion H; subst; auto.
  intros Hin. apply in_map_iff in Hin as [[d' j'] [E Hin]]. cbn in E; subst j'.
  apply finite_part_In in Hin. match goal with Hn : ~ In j _ |- _ => apply Hn end.
  apply in_map_iff. exists (Some d', j). auto.
Qed.

Lemma tables_cut_nodup t k D : Forall (fun tt : list (entry RNum) * nat => NoDup (map snd (fst tt))) (tables_cut RNum t k D).
Proof.
  unfold tables_cut, cut. rewrite map_map. apply Forall_forall. intros tt Hin.
  apply in_map_iff in Hin as [row [<- _]]. unfold table_of_cut; cbv zeta; cbn [fst].
  apply finite_part_snd. unfold knn_cut_row. rewrite <- firstn_map. apply NoDup_firstn.
  eapply Permutation_NoDup; [symmetry; apply Permutation_map, isort_perm|].
  unfold oindex_row. match goal with |- NoDup ?x => replace x with (seq 0 (length (cut_row RNum t row))) by (symmetry; apply map_snd_combine_seq) end. apply seq_NoDup.
Qed.

Theorem graph_cut_range tol kscale (c : cfg RNum) t D i j : 0 <= c_r RNum c <= 1 ->
  0 <= graph_cut RNum tol kscale c t D i j <= 1.
Proof.
  intros Hr. unfold graph_cut, graph_of_tables. apply graph_with_range; auto.
  - apply sigmas_of_pos.
  - apply tables_cut_nodup.
Qed.

(* ================================================================================================ *)
(* 8. converse of [isolated_if_all_cut] for r > 0: a kept neighbour always gives an edge             *)
(* ================================================================================================ *)
Lemma rowval_in row z v : good_row row -> In (z, v) row -> rowval row (Z.to_nat z) = v.
Proof.
  intros [Hv Hnd]. induction row as [|[z' v'] row IH]; intros Hin; [contradiction|].
  cbn [rowval]. cbn in Hnd. inversion Hnd as [|? ? Hnotin Hnd']; subst.
  destruct Hin as [E|Hin].
  - inversion E; subst. rewrite Nat.eqb_refl. rewrite (rowval_notin row _ Hnotin). lra.
  - destruct (Nat.eqb_spec (Z.to_nat z) (Z.to_nat z')) as [E|_].
    + exfalso. apply Hnotin. rewrite <- E. unfold keys. apply in_map_iff. exists (z, v); auto.
    + apply IH; auto. intros; eapply Hv; right; eauto.
Qed.

Lemma dir_rows_nth : forall (tb : table RNum) sr s i, (i < length tb)%nat -> (i < length sr)%nat ->
  nth i (dir_rows RNum s tb sr) [] =
  memberships RNum (Z.of_nat (s + i)) (fst (nth i sr (0, 0))) (snd (nth i sr (0, 0))) (zrow RNum (fst (nth i tb ([], O)))).
Proof.
  induction tb as [|t tb IH]; intros [|[sigma rho] sr] s [|i] H1 H2; cbn [length] in *; try lia.
  - cbn. now rewrite Nat.add_0_r.
  - cbn [dir_rows nth]. rewrite IH by lia. replace (S s + i)%nat with (s + S i)%nat by lia. reflexivity.
Qed.

Lemma memberships_has i sigma rho (row : list (entry RNum)) d j : In (d, j) row -> Z.of_nat j <> i ->
  In (Z.of_nat j, Rmem d rho sigma) (memberships RNum i sigma rho (zrow RNum row)).
Proof.
  intros Hin Hne. unfold memberships, zrow. apply in_flat_map. exists (Z.of_nat j, d). split.
  - apply in_map_iff. exists (d, j); auto.
  - destruct (Z.eqb_spec (Z.of_nat j) (-1)); [lia|]. destruct (Z.eqb_spec (Z.of_nat j) i); [contradiction|]. now left.
Qed.

Lemma nth_combine_fst_pos (s r : list R) i : Forall (fun x => 0 < x) s -> (i < length s)%nat -> (i < length r)%nat ->
  0 < fst (nth i (combine s r) (0, 0)).
Proof.
  intros H; revert r i; induction H as [|a s Ha Hs IH]; intros [|b r] [|i] H1 H2; cbn in *; try lia; auto. apply IH; lia.
Qed.

Theorem edge_if_kept tol (c : cfg RNum) tb sigmas i j d : 0 < c_r RNum c <= 1 ->
  Forall (fun s => 0 < s) sigmas -> Forall (fun t : list (entry RNum) * nat => NoDup (map snd (fst t))) tb ->
  length sigmas = length tb -> (i < length tb)%nat ->
  In (d, j) (fst (nth i tb ([], O))) -> j <> i ->
  0 < graph_with RNum tol c tb sigmas i j /\ 0 < graph_with RNum tol c tb sigmas j i.
Proof.
  intros Hr Hs Htb Hlen Hi Hin Hne. unfold graph_with, coo_with, graph, graphf.
  set (sr := combine sigmas (rhos RNum tol c tb)). set (rows := dir_rows RNum 0 tb sr).
  assert (Hlsr: length sr = length tb).
  { unfold sr. rewrite combine_length. unfold rhos. rewrite map_length, Hlen. apply Nat.min_id. }
  assert (Hg: Forall good_row rows) by (apply dir_rows_good; [now apply combine_pos | exact Htb]).
  assert (L: forall a b, lookup RNum (coo_of_rows RNum 0 rows) a b = rowval (nth a rows []) b).
  { intros a b. pose proof (lookup_coo_of_rows rows 0 a b) as E. unfold Rlookup, Rcoo_of_rows in E. cbn [Nat.leb] in E.
    now rewrite Nat.sub_0_r in E. }
  rewrite !L.
  assert (Hsig: 0 < fst (nth i sr (0, 0))).
  { unfold sr. apply nth_combine_fst_pos; auto; [rewrite Hlen; exact Hi | unfold rhos; rewrite map_length; exact Hi]. }
  assert (Hij: rowval (nth i rows []) j = Rmem d (snd (nth i sr (0, 0))) (fst (nth i sr (0, 0)))).
  { rewrite <- (Nat2Z.id j) at 1. apply rowval_in; [apply good_nth, Hg|].
    assert (Hi': (i < length sr)%nat) by (rewrite Hlsr; exact Hi).
    unfold rows. rewrite dir_rows_nth by (first [exact Hi | exact Hi']). apply memberships_has; auto. cbn. lia. }
  pose proof (mem_range d (snd (nth i sr (0, 0))) (fst (nth i sr (0, 0))) Hsig) as Hm.
  pose proof (rowval_range (nth j rows []) i (good_nth rows j Hg)) as Hji.
  pose proof (rowval_range (nth i rows []) j (good_nth rows i Hg)) as Hij'.
  fold Rmix. rn. split; apply mix_pos; auto.
  - left. rewrite Hij. lra.
  - right. rewrite Hij. lra.
Qed.

Lemma degree_zero_entries (g : nat -> nat -> R) n i : Rdegree g n i = O -> forall j, (j < n)%nat -> g i j = 0.
Proof.
  unfold Rdegree, degree. intros H j Hj. apply length_zero_iff_nil in H.
  destruct (Req_dec (g i j) 0) as [E|E]; auto. exfalso.
  assert (Hin: In j (filter (fun j0 => negb (eqb RNum (g i j0) (zero RNum))) (seq 0 n))).
  { apply filter_In. split; [apply in_seq; lia|]. cbn. apply negb_true_iff. now apply Reqb_false. }
  rewrite H in Hin. contradiction.
Qed.

(* isolated <-> every entry of the sample's own table is cut and it survives in nobody's table (r > 0) *)
Theorem isolated_iff tol kscale (c : cfg RNum) (tb : table RNum) i : 0 < c_r RNum c <= 1 ->
  Forall (fun t : list (entry RNum) * nat => NoDup (map snd (fst t))) tb ->
  Forall (fun t : list (entry RNum) * nat => Forall (fun e => (snd e < length tb)%nat) (fst t)) tb ->
  (i < length tb)%nat ->
  (Rdegree (graph_of_tables RNum tol kscale c tb) (length tb) i = O <->
   (forall d j, In (d, j) (fst (nth i tb ([], O))) -> j = i) /\
   (forall a d, a <> i -> ~ In (d, i) (fst (nth a tb ([], O))))).
Proof.
  intros Hr Hnd Hrange Hi. split; [|intros [H1 H2]; now apply isolated_if_all_cut].
  intros Hdeg. pose proof (degree_zero_entries _ _ _ Hdeg) as Hz. unfold graph_of_tables in Hz.
  assert (Hlen: length (sigmas_of RNum tol kscale c tb) = length tb).
  { unfold sigmas_of, smooth_knn. now rewrite !map_length. }
  split.
  - intros d j Hin. destruct (Nat.eq_dec j i) as [|Hne]; auto. exfalso.
    assert (Hj: (j < length tb)%nat).
    { rewrite Forall_forall in Hrange. specialize (Hrange (nth i tb ([], O)) (nth_In _ _ Hi)).
      rewrite Forall_forall in Hrange. exact (Hrange (d, j) Hin). }
    pose proof (edge_if_kept tol c tb _ i j d Hr (sigmas_of_pos tol kscale c tb) Hnd Hlen Hi Hin Hne) as [P _].
    rewrite (Hz j Hj) in P. lra.
  - intros a d Hne Hin.
    assert (Ha: (a < length tb)%nat).
    { destruct (Nat.lt_ge_cases a (length tb)); auto. rewrite nth_overflow in Hin by assumption. contradiction. }
    pose proof (edge_if_kept tol c tb _ a i d Hr (sigmas_of_pos tol kscale c tb) Hnd Hlen Ha Hin (not_eq_sym Hne)) as [_ P].
    rewrite (Hz a Ha) in P. lra.
Qed.

(* the NaN <-> isolated equivalence, instantiated on the model's own graph *)
Corollary nan_iff_isolated_cut tol kscale (c : cfg RNum) t D emb inverse p u : 0 <= c_r RNum c <= 1 ->
  length emb = length D -> Forall (fun u => (u < length D)%nat) inverse -> nth_error inverse p = Some u ->
  (nth_error (nan_rows RNum (postprocess RNum (graph_cut RNum tol kscale c t D) (length D) emb inverse)) p = Some true
   <-> Rdegree (graph_cut RNum tol kscale c t D) (length D) u = O).
Proof. intros Hr Hl Hf Hp. apply nan_iff_isolated; auto. intros a b. now apply graph_cut_range. Qed.

(* ================================================================================================ *)
(* 9. non-interference: in transform the other rows never read row j                                 *)
(* ================================================================================================ *)
(* transform-style optimisation (separate reference layout, move_other = false): the rows of the other
   new points do not depend on the content of row j when no edge has head j *)
Section NonInterference.
Variables a b gamma : R.
Variable nv : Z.
Variable j : nat.

Definition agree (e e' : emb RNum) : Prop :=
  eT RNum e = eT RNum e' /\ eshared RNum e = false /\ eshared RNum e' = false /\
  length (eH RNum e) = length (eH RNum e') /\
  forall i, i <> j -> nth i (eH RNum e) [] = nth i (eH RNum e') [].

Lemma upd_length {A} (l : list A) i v : length (upd l i v) = length l.
Proof. revert i; induction l as [|x l IH]; intros [|i]; simpl; auto. Qed.

Lemma nth_upd_eq {A} (l l' : list A) h v d i : length l = length l' ->
  (i <> h -> nth i l d = nth i l' d) -> nth i (upd l h v) d = nth i (upd l' h v) d.
Proof.
  revert l' h i; induction l as [|x l IH]; intros [|x' l'] [|h] [|i] Hl H; simpl in *; try discriminate; auto;
    try (apply H; lia); try (apply IH; [lia|]; intros Hne; apply H; lia).
Qed.

Lemma set_head_agree e e' h row : agree e e' -> h <> j -> agree (set_head RNum e h row) (set_head RNum e' h row).
Proof.
  intros (HT & Hs & Hs' & Hl & Hr) Hh. unfold agree, set_head; cbn [eH eT eshared]. repeat split; auto.
  - now rewrite !upd_length.
  - intros i Hi. apply nth_upd_eq; auto.
Qed.

Lemma get_tail_agree e e' k : agree e e' -> get_tail RNum e k = get_tail RNum e' k.
Proof. intros (HT & Hs & Hs' & _). unfold get_tail. now rewrite Hs, Hs', HT. Qed.

Lemma attract_agree alpha e e' h k : agree e e' -> h <> j ->
  agree (attract RNum a b alpha false e h k) (attract RNum a b alpha false e' h k).
Proof.
  intros Hag Hh. unfold attract; cbv zeta.
  destruct Hag as (HT & Hs & Hs' & Hl & Hr). rewrite (Hr h Hh).
  rewrite (get_tail_agree e e' k) by (repeat split; auto).
  apply set_head_agree; [repeat split; auto | exact Hh].
Qed.

Lemma repel_agree alpha e e' h k : agree e e' -> h <> j ->
  agree (repel RNum a b gamma alpha e h k) (repel RNum a b gamma alpha e' h k).
Proof.
  intros Hag Hh. unfold repel; cbv zeta.
  pose proof Hag as (HT & Hs & Hs' & Hl & Hr). rewrite (Hr h Hh), (get_tail_agree e e' k Hag).
  destruct (ltb RNum _ _); [now apply set_head_agree | exact Hag].
Qed.

Lemma neg_loop_agree alpha h : h <> j -> forall fuel e e' st, agree e e' ->
  agree (fst (neg_loop RNum fuel a b gamma alpha nv e h st)) (fst (neg_loop RNum fuel a b gamma alpha nv e' h st)) /\
  snd (neg_loop RNum fuel a b gamma alpha nv e h st) = snd (neg_loop RNum fuel a b gamma alpha nv e' h st).
Proof.
  intros Hh. induction fuel as [|f IH]; intros e e' st Hag; cbn [neg_loop]; [split; auto|].
  destruct (tau_rand_int st) as [st' r]. apply IH. now apply repel_agree.
Qed.

Definition srel (s s' : sgd_state RNum) : Prop :=
  agree (s_emb RNum s) (s_emb RNum s') /\ s_next RNum s = s_next RNum s' /\
  s_nneg RNum s = s_nneg RNum s' /\ s_rng RNum s = s_rng RNum s'.

Lemma edge_step_srel alpha n s s' i ed : srel s s' -> e_head RNum ed <> j ->
  srel (edge_step RNum a b gamma alpha false nv n s i ed) (edge_step RNum a b gamma alpha false nv n s' i ed).
Proof.
  intros (Hag & Hn & Hg & Hrg) Hh. unfold edge_step; cbv zeta. rewrite <- Hn, <- Hg, <- Hrg.
  destruct (leb RNum _ _); [|unfold srel; tauto].
  pose proof (attract_agree alpha (s_emb RNum s) (s_emb RNum s') (e_head RNum ed) (e_tail RNum ed) Hag Hh) as Hat.
  match goal with |- context [neg_loop RNum ?fu a b gamma alpha nv _ ?h ?st] =>
    pose proof (neg_loop_agree alpha h Hh fu _ _ st Hat) as [H1 H2] end.
  destruct (neg_loop RNum _ a b gamma alpha nv (attract RNum a b alpha false (s_emb RNum s) _ _) _ _) as [e2 st2].
  destruct (neg_loop RNum _ a b gamma alpha nv (attract RNum a b alpha false (s_emb RNum s') _ _) _ _) as [e2' st2'].
  cbn [fst snd] in H1, H2. subst st2'. unfold srel; cbn [s_emb s_next s_nneg s_rng]. tauto.
Qed.

Lemma edges_from_srel alpha n : forall es i s s', srel s s' -> Forall (fun ed => e_head RNum ed <> j) es ->
  srel (edges_from RNum a b gamma alpha false nv n i es s) (edges_from RNum a b gamma alpha false nv n i es s').
Proof.
  induction es as [|ed es IH]; intros i s s' Hs Hf; cbn [edges_from]; [exact Hs|].
  inversion Hf; subst. apply IH; auto. now apply edge_step_srel.
Qed.

Theorem non_interference alpha0 nepochs es : Forall (fun ed => e_head RNum ed <> j) es -> forall fuel n s s', srel s s' ->
  srel (run_from RNum a b gamma alpha0 false nv nepochs es fuel n s) (run_from RNum a b gamma alpha0 false nv nepochs es fuel n s').
Proof.
  intros Hf. induction fuel as [|f IH]; intros n s s' Hs; cbn [run_from]; [exact Hs|].
  apply IH. unfold epoch. now apply edges_from_srel.
Qed.
End NonInterference.

(* C07 (continued): theorems about the generic optimiser and the parametric replication count. *)
From Coq Require Import List ZArith Bool Reals Lra Lia Psatz.
From UV Require Import Num M_sgd M_sgdg T_sgd.
Import ListNotations.
Local Open Scope R_scope.
Ltac rn := change (T RNum) with R in *.

(* with the Euclidean output metric the generic coefficients are the UMAP gradient terms of C07_step, the attractive one
   up to the factor d/(d+1e-6) of the regulariser, the repulsive one with regulariser 1e-6*d in place of 0.001 *)
Lemma w_low_formula a b d : 0 < d -> 0 <= a -> w_low RNum a b d = / (1 + a * Rpower d (2 * b)).
Proof.
  intros Hd Ha. unfold w_low, c2; cbn.
  assert (E: Rltb 0 d = true) by (now apply Rltb_true). rewrite E.
  rewrite (Rpow_pos_base d) by assumption.
  assert (P: 0 < 1 + a * Rpower d ((1 + 1) * b)).
  { assert (0 < Rpower d ((1 + 1) * b)) by apply exp_pos. nra. }
  rewrite Rpow_pos_base by assumption.
  replace ((1 + 1) * b) with (2 * b) in * by ring.
  rewrite Rpower_Ropp, Rpower_1 by assumption. reflexivity.
Qed.

Theorem generic_attr_formula a b d : 0 < d -> 0 <= a ->
  gattr_coeff RNum a b d = (- 2 * a * b * Rpower d (2 * b - 2) / (1 + a * Rpower d (2 * b))) * d * (d / (d + / 1000000)).
Proof.
  intros Hd Ha. unfold gattr_coeff. rewrite w_low_formula by assumption. unfold c2, c1e6; cbn.
  assert (P: 0 < Rpower d (2 * b)) by apply exp_pos.
  assert (D: 0 < 1 + a * Rpower d (2 * b)) by nra.
  replace (Rpower d (2 * b - 2)) with (Rpower d (2 * b) * / (d * d)).
  - field. split; [|split]; lra.
  - unfold Rminus. rewrite Rpower_plus, Rpower_Ropp. f_equal. f_equal.
    replace 2 with (INR 2) by (cbn; lra). rewrite Rpower_pow by assumption. cbn. ring.
Qed.

Theorem generic_rep_formula a b gamma d : 0 < d -> 0 <= a ->
  grep_coeff RNum a b gamma d = 2 * gamma * b / ((d + / 1000000) * (1 + a * Rpower d (2 * b))).
Proof.
  intros Hd Ha. unfold grep_coeff. rewrite w_low_formula by assumption. unfold c2, c1e6; cbn.
  assert (P: 0 < Rpower d (2 * b)) by apply exp_pos.
  assert (D: 0 < 1 + a * Rpower d (2 * b)) by nra.
  field. split; lra.
Qed.

(* frame: with move_other = false the reference layout is never written by the generic optimiser either *)
Section GFrame.
Variable om : ometric RNum.
Variables a b gamma : R.
Variable nv : Z.

Lemma gattract_T alpha e j k : eT RNum (gattract RNum om a b alpha false e j k) = eT RNum e.
Proof. unfold gattract. destruct (om _ _) as [d g]. destruct (om _ _) as [d' rg]. reflexivity. Qed.

Lemma grepel_T alpha e j k : eT RNum (grepel RNum om a b gamma alpha e j k) = eT RNum e.
Proof. unfold grepel. destruct (om _ _) as [d g]. destruct (_ || _); reflexivity. Qed.

Lemma gneg_loop_T alpha : forall fuel e j st,
  eT RNum (fst (gneg_loop RNum om fuel a b gamma alpha nv e j st)) = eT RNum e.
Proof.
  induction fuel as [|f IH]; intros e j st; cbn [gneg_loop]; [reflexivity|].
  destruct (tau_rand_int st) as [st' r]. rewrite IH. apply grepel_T.
Qed.

Lemma gedge_step_T alpha n s i ed :
  eT RNum (s_emb RNum (gedge_step RNum om a b gamma alpha false nv n s i ed)) = eT RNum (s_emb RNum s).
Proof.
  unfold gedge_step. destruct (leb RNum _ _); [|reflexivity].
  destruct (gneg_loop RNum om _ a b gamma alpha nv _ _ _) as [e2 st'] eqn:E. cbn [s_emb].
  change e2 with (fst (e2, st')). rewrite <- E. rewrite gneg_loop_T. apply gattract_T.
Qed.

Theorem generic_tail_frame alpha n : forall es i s,
  eT RNum (s_emb RNum (gedges_from RNum om a b gamma alpha false nv n i es s)) = eT RNum (s_emb RNum s).
Proof.
  induction es as [|ed es IH]; intros i s; cbn [gedges_from]; [reflexivity|].
  rewrite IH. apply gedge_step_T.
Qed.
End GFrame.

(* parametric replication: an edge of membership w is repeated floor(N*w) times: N*w - 1 < count <= N*w *)
Theorem replication_bounds (N w : R) : 0 <= N * w ->
  IZR (replication RNum N w) <= N * w < IZR (replication RNum N w) + 1.
Proof.
  intros H. unfold replication; cbn. unfold Rtrunc. destruct (Rle_dec 0 (N * w)); [|contradiction].
  destruct (base_Int_part (N * w)) as [H1 H2]. lra.
Qed.

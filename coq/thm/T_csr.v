(* C18, CSR level (model/M_csr.v) versus the entry-list model (model/M_combine.v), over the reals:
   - the fill values the kernels compute from data.min() are M_combine's [left_fill] / [right_fill] / [right_fill_compl]
     (the source's literals 2.0, 1.0e-8, 1e-4 are the model's 1+1, 1/10^8, 1/10^4; Python's max/min are the model's);
     they only depend on the multiset of stored values ([list_min_perm]);
   - for a row whose column indices are distinct the LAST stored value with column j ([row_lookup]) is the FIRST one
     ([find_col]): on canonical CSR matrices [csr_lookup] is M_combine's lookup;
   - [inter_entry] with the old content `stored a + stored b` (`stored a` for the complement) is [inter_val] whenever the
     looked-up values are non-negative (pow(x, 1.0) = x there);
   - values the kernels read come from the data array ([csr_lookup_in]), fills of a (0,1]-valued array lie in (0,1]. *)
From Coq Require Import List ZArith Bool Reals Lra Lia Permutation.
From UV Require Import Num PyPrim PyPrimLemmas M_supervised T_supervised M_combine T_combine M_csr.
Import ListNotations.
Local Open Scope R_scope.

(* ---- Python's max / min, the literals ------------------------------------------------------------------------ *)
Lemma pynmin_eq (a b : R) : PyPrim.nmin RNum a b = M_combine.nmin RNum a b.
Proof.
  unfold PyPrim.nmin, M_combine.nmin. cbn [ltb leb RNum].
  destruct (Rltb b a) eqn:E1; [apply Rltb_true in E1|apply Rltb_false in E1];
  (destruct (Rleb a b) eqn:E2; [apply Rleb_true in E2|apply Rleb_false in E2]); rn; lra.
Qed.

Lemma pynmax_eq (a b : R) : PyPrim.nmax RNum a b = M_supervised.nmax RNum a b.
Proof.
  unfold PyPrim.nmax, M_supervised.nmax. cbn [ltb leb RNum].
  destruct (Rltb a b) eqn:E1; [apply Rltb_true in E1|apply Rltb_false in E1];
  (destruct (Rleb a b) eqn:E2; [apply Rleb_true in E2|apply Rleb_false in E2]); rn; lra.
Qed.

Lemma vmin_py_eq (l : list R) : vmin_py RNum l = list_min RNum l.
Proof. destruct l as [|a l]; [reflexivity|]. cbn [vmin_py list_min]. apply fold_left_ext. exact pynmin_eq. Qed.

Lemma nlit_two : nlit RNum 2 0 = two RNum.        Proof. unfold nlit, two. cbn. lra. Qed.
Lemma nlit_1e8 : nlit RNum 1 (-8) = c1e8 RNum.    Proof. unfold nlit, c1e8. cbn. lra. Qed.
Lemma nlit_1e4 : nlit RNum 1 (-4) = c1e4 RNum.    Proof. unfold nlit, c1e4. cbn. lra. Qed.
Lemma nlit_half : nlit RNum 5 (-1) = half RNum.   Proof. unfold nlit, half, two. cbn. lra. Qed.

(* the fills in M_combine's vocabulary, for any data array *)
Lemma csr_fill_eq (d : list R) : csr_fill RNum d = M_supervised.nmax RNum (div RNum (list_min RNum d) (two RNum)) (c1e8 RNum).
Proof. unfold csr_fill. rewrite pynmax_eq, vmin_py_eq, nlit_two, nlit_1e8. reflexivity. Qed.

Lemma csr_fill_r_eq (d : list R) :
  csr_fill_r RNum d = M_combine.nmin RNum (M_supervised.nmax RNum (div RNum (list_min RNum d) (two RNum)) (c1e8 RNum)) (c1e4 RNum).
Proof. unfold csr_fill_r. rewrite pynmin_eq, pynmax_eq, vmin_py_eq, nlit_two, nlit_1e8, nlit_1e4. reflexivity. Qed.

Lemma csr_fill_rc_eq (d : list R) :
  csr_fill_rc RNum d = M_combine.nmin RNum (M_supervised.nmax RNum (div RNum (list_min RNum (map (fun v => sub RNum (one RNum) v) d)) (two RNum))
                                              (c1e8 RNum)) (c1e4 RNum).
Proof. unfold csr_fill_rc, vmaps_l. rewrite pynmin_eq, pynmax_eq, vmin_py_eq, nlit_two, nlit_1e8, nlit_1e4. reflexivity. Qed.

(* ---- the minimum only depends on the multiset of values ---------------------------------------------------------- *)
Lemma fold_nmin_le l : forall acc, fold_left Rnmin l acc <= acc /\ forall x, In x l -> fold_left Rnmin l acc <= x.
Proof.
  induction l as [|y l IH]; intros acc; cbn [fold_left]; [split; [lra|intros x []]|].
  destruct (IH (Rnmin acc y)) as [H1 H2].
  assert (Hm : Rnmin acc y <= acc /\ Rnmin acc y <= y).
  { unfold Rnmin, M_combine.nmin. cbn [leb RNum]. destruct (Rleb acc y) eqn:E; [apply Rleb_true in E|apply Rleb_false in E]; rn; lra. }
  split; [lra|]. intros x [<-|Hx]; [lra|]. apply H2. exact Hx.
Qed.

Lemma list_min_spec (l : list R) : l <> [] -> In (Rlist_min l) l /\ forall x, In x l -> Rlist_min l <= x.
Proof.
  destruct l as [|a l]; [intros H; contradiction|]. intros _.
  assert (E0 : Rlist_min (a :: l) = fold_left Rnmin l a) by reflexivity. rewrite E0.
  destruct (fold_nmin_in l a) as [E|E]; destruct (fold_nmin_le l a) as [H1 H2].
  - split; [rewrite E; left; reflexivity|]. intros x [<-|Hx]; [exact H1|apply H2; exact Hx].
  - split; [right; exact E|]. intros x [<-|Hx]; [exact H1|apply H2; exact Hx].
Qed.

Lemma list_min_perm (l l' : list R) : Permutation l l' -> list_min RNum l = list_min RNum l'.
Proof.
  intros P. destruct l as [|a l].
  - apply Permutation_nil in P. subst. reflexivity.
  - assert (Hl' : l' <> []) by (intros ->; apply Permutation_sym, Permutation_nil in P; discriminate).
    destruct (list_min_spec (a :: l) ltac:(discriminate)) as [I1 M1]. destruct (list_min_spec l' Hl') as [I2 M2].
    unfold Rlist_min in *. apply Rle_antisym.
    + apply M1. apply (Permutation_in _ (Permutation_sym P)). exact I2.
    + apply M2. apply (Permutation_in _ P). exact I1.
Qed.

(* data array = the stored values of A, in any order: M_combine's fills *)
Lemma csr_fill_left (d : list R) (A : Rsmat) : Permutation d (map (evl RNum) A) -> csr_fill RNum d = left_fill RNum A.
Proof. intros P. rewrite csr_fill_eq. unfold left_fill, data_min. rewrite (list_min_perm _ _ P). reflexivity. Qed.

Lemma csr_fill_right (d : list R) (B : Rsmat) : Permutation d (map (evl RNum) B) -> csr_fill_r RNum d = right_fill RNum B.
Proof. intros P. rewrite csr_fill_r_eq. unfold right_fill, data_min. rewrite (list_min_perm _ _ P). reflexivity. Qed.

Lemma csr_fill_right_compl (d : list R) (B : Rsmat) :
  Permutation d (map (evl RNum) B) -> csr_fill_rc RNum d = right_fill_compl RNum B.
Proof.
  intros P. rewrite csr_fill_rc_eq. unfold right_fill_compl.
  rewrite (list_min_perm _ _ (Permutation_map (fun v => sub RNum (one RNum) v) P)). rewrite map_map. reflexivity.
Qed.

(* ---- rows with distinct columns: last match = first match --------------------------------------------------------- *)
Definition zrow (r : list (nat * R)) : list (Z * R) := map (fun p => (Z.of_nat (fst p), snd p)) r.

Lemma find_app_gen {A : Type} (p : A -> bool) (l1 l2 : list A) :
  find p (l1 ++ l2) = match find p l1 with Some x => Some x | None => find p l2 end.
Proof. induction l1 as [|a l1 IH]; [reflexivity|]. cbn [app find]. destruct (p a); [reflexivity|exact IH]. Qed.

Lemma find_col_in (r : list (nat * R)) (j : nat) (v : R) : find_col RNum r j = Some v -> In j (map fst r).
Proof.
  unfold find_col. destruct (find (fun p : nat * RNum => Nat.eqb (fst p) j) r) as [p|] eqn:F; [|discriminate]. intros _.
  apply find_some in F as [Hin Hp]. apply Nat.eqb_eq in Hp. subst j. apply in_map. exact Hin.
Qed.

Lemma row_lookup_zrow (r : list (nat * R)) (j : nat) :
  NoDup (map fst r) -> row_lookup RNum (Z.of_nat j) (zrow r) = find_col RNum r j.
Proof.
  induction r as [|a r IH]; intros ND; [reflexivity|].
  inversion ND as [|x l Hnot ND']; subst. specialize (IH ND').
  unfold row_lookup in *. cbn [zrow map rev]. fold (zrow r). rewrite find_app_gen.
  unfold find_col. cbn [find fst snd]. rewrite Z_eqb_of_nat.
  rn. revert IH. destruct (find (fun cv : Z * R => Z.eqb (fst cv) (Z.of_nat j)) (rev (zrow r))) as [x|]; intros IH.
  - cbn [option_map] in IH |- *.
    destruct (Nat.eqb_spec (fst a) j) as [E|E].
    + exfalso. apply Hnot. rewrite E. apply (find_col_in r j (snd x)). symmetry. exact IH.
    + exact IH.
  - cbn [option_map] in IH. destruct (Nat.eqb (fst a) j); [reflexivity|]. exact IH.
Qed.

(* ---- the values the kernels read are entries of the data array ------------------------------------------------------ *)
Lemma In_firstn {A : Type} (x : A) : forall n l, In x (firstn n l) -> In x l.
Proof. induction n as [|n IH]; intros [|a l] H; cbn in *; try contradiction. destruct H as [->|H]; [left; reflexivity|right; apply IH; exact H]. Qed.
Lemma In_skipn {A : Type} (x : A) : forall n l, In x (skipn n l) -> In x l.
Proof. induction n as [|n IH]; intros l H; [exact H|]. destruct l as [|a l]; [contradiction|]. right. apply IH. exact H. Qed.

Lemma csr_lookup_in (ip ix : list Z) (d : list R) (i j : Z) (v : R) : csr_lookup RNum ip ix d i j = Some v -> In v d.
Proof.
  unfold csr_lookup, row_lookup, csr_row. cbv zeta.
  destruct (find _ _) as [cv|] eqn:F; [|discriminate]. cbn [option_map]. intros E; injection E as <-.
  apply find_some in F as [Hin _]. apply in_rev in Hin. destruct cv as [c x]. apply in_combine_r in Hin.
  unfold seg in Hin. apply In_firstn, In_skipn in Hin. exact Hin.
Qed.

Definition unit_vals (d : list R) : Prop := forall v, In v d -> 0 < v <= 1.

Lemma csr_lookup_opt01 ip ix d i j : unit_vals d -> opt01 (csr_lookup RNum ip ix d i j).
Proof. intros H v E. apply H. apply (csr_lookup_in ip ix d i j). exact E. Qed.

Lemma list_min_unit (d : list R) : unit_vals d -> 0 <= list_min RNum d <= 1.
Proof. intros H. apply (list_min_range d 0 1); [lra|]. intros x Hx. specialize (H x Hx). lra. Qed.

Lemma csr_fill_range (d : list R) : unit_vals d -> 0 < csr_fill RNum d <= 1.
Proof.
  intros H. rewrite csr_fill_eq. cbn [div RNum]. rewrite two_eq, c1e8_eq. apply fill_core_range. apply list_min_unit. exact H.
Qed.

Lemma csr_fill_r_range (d : list R) : unit_vals d -> 0 < csr_fill_r RNum d <= 1.
Proof.
  intros H. rewrite csr_fill_r_eq. cbn [div RNum]. rewrite two_eq, c1e8_eq, c1e4_eq. apply cap_range, fill_core_range.
  apply list_min_unit. exact H.
Qed.

(* ---- one entry of the kernels in M_combine's vocabulary ---------------------------------------------------------------- *)
Lemma Rpow_one (x : R) : 0 <= x -> Rpow x 1 = x.
Proof.
  intros H. unfold Rpow. destruct (Req_EM_T 1 0); [lra|]. destruct (Rlt_dec 0 x); [|lra].
  unfold Rpower. rewrite Rmult_1_l. apply exp_ln. exact r.
Qed.

Lemma pw_npow (x p : R) : 0 <= x -> pw RNum x p = npow RNum x p.
Proof.
  intros H. unfold pw. cbn [eqb npow one RNum]. destruct (Reqb p 1) eqn:E; [|reflexivity].
  apply Reqb_true in E. subst p. symmetry. apply Rpow_one. exact H.
Qed.

(* the intersection kernel applied to the value the caller stored (A + B, or A for the complement) is M_combine's inter_val *)
Lemma inter_entry_val (rc : bool) (w lf rf : R) (a b : option R) :
  0 <= lookup_or_min RNum lf a ->
  0 <= match b with Some v => if rc then 1 - v else v | None => rf end ->
  inter_entry RNum rc w lf rf (if rc then stored RNum a else add RNum (stored RNum a) (stored RNum b)) a b
  = inter_val RNum rc w lf rf a b.
Proof.
  intros Hl Hr. unfold inter_entry, inter_val. cbv zeta. rewrite nlit_half.
  cbn [sub one RNum] in *. rewrite !pw_npow by assumption. reflexivity.
Qed.

(* ---- CSR arrays that represent an entry list ----------------------------------------------------------------------------- *)
(* (indptr, indices, data) is a canonical CSR form of the n-row matrix A: the data array holds A's stored values (in any order),
   and for every row i < n the slice indptr[i]..indptr[i+1] is well-formed and lists exactly A's stored (column, value) pairs of
   that row, with distinct columns *)
Definition csr_repr (n : nat) (ip ix : list Z) (d : list R) (A : Rsmat) : Prop :=
  Permutation d (map (evl RNum) A) /\
  forall i, (i < n)%nat ->
    csr_ok RNum ip ix d (Z.of_nat i) /\ NoDup (map fst (row_of RNum A i)) /\
    csr_row RNum ip ix d (Z.of_nat i) = zrow (row_of RNum A i).

Lemma csr_repr_lookup n ip ix d A i j :
  csr_repr n ip ix d A -> (i < n)%nat -> csr_lookup RNum ip ix d (Z.of_nat i) (Z.of_nat j) = Rentry_at A i j.
Proof.
  intros [_ H] Hi. destruct (H i Hi) as (_ & ND & E). unfold csr_lookup. rewrite E.
  rewrite row_lookup_zrow by exact ND. apply find_col_row_of.
Qed.

Lemma csr_repr_ok n ip ix d A i : csr_repr n ip ix d A -> (i < n)%nat -> csr_ok RNum ip ix d (Z.of_nat i).
Proof. intros [_ H] Hi. apply (H i Hi). Qed.

(* ---- every canonical entry list has a CSR form ([csr_repr] is inhabited): rows in order, each row in A's storage order ------------ *)
Definition csr_rows (n : nat) (A : Rsmat) : list (list (nat * R)) := map (row_of RNum A) (seq 0 n).
Definition rows_indptr (rows : list (list (nat * R))) : list Z :=
  map (fun i => Z.of_nat (length (concat (firstn i rows)))) (seq 0 (S (length rows))).
Definition rows_indices (rows : list (list (nat * R))) : list Z := map (fun p => Z.of_nat (fst p)) (concat rows).
Definition rows_data (rows : list (list (nat * R))) : list R := map snd (concat rows).

Definition segn {A : Type} (l : list A) (a b : nat) : list A := firstn (b - a) (skipn a l).
Lemma seg_of_nat {A : Type} (l : list A) (a b : nat) : seg l (Z.of_nat a) (Z.of_nat b) = segn l a b.
Proof. unfold seg, segn. rewrite Nat2Z.id. f_equal. lia. Qed.

Lemma skipn_app_len {A : Type} (p l : list A) (a : nat) : skipn (length p + a) (p ++ l) = skipn a l.
Proof. induction p as [|x p IH]; [reflexivity|]. exact IH. Qed.

Lemma segn_app_shift {A : Type} (p l : list A) (a b : nat) : segn (p ++ l) (length p + a) (length p + b) = segn l a b.
Proof. unfold segn. rewrite skipn_app_len. f_equal. lia. Qed.

Lemma segn_concat_nth {A : Type} : forall (rows : list (list A)) (i : nat), (i < length rows)%nat ->
  segn (concat rows) (length (concat (firstn i rows))) (length (concat (firstn (S i) rows))) = nth i rows [].
Proof.
  induction rows as [|r rows IH]; intros i Hi; [cbn in Hi; lia|]. destruct i as [|i].
  - cbn [firstn concat nth length]. rewrite app_nil_r. unfold segn. cbn [skipn]. rewrite Nat.sub_0_r.
    rewrite firstn_app, Nat.sub_diag, firstn_all. cbn [firstn]. apply app_nil_r.
  - change (firstn (S (S i)) (r :: rows)) with (r :: firstn (S i) rows). change (firstn (S i) (r :: rows)) with (r :: firstn i rows).
    cbn [concat nth]. rewrite !app_length. rewrite segn_app_shift. apply IH. cbn in Hi; lia.
Qed.

Lemma concat_firstn_le {A : Type} : forall (rows : list (list A)) (i : nat),
  (length (concat (firstn i rows)) <= length (concat (firstn (S i) rows)) <= length (concat rows))%nat.
Proof.
  induction rows as [|r rows IH]; intros i; [destruct i; cbn; lia|]. destruct i as [|i].
  - cbn [firstn concat length]. rewrite app_nil_r, app_length. lia.
  - change (firstn (S (S i)) (r :: rows)) with (r :: firstn (S i) rows). change (firstn (S i) (r :: rows)) with (r :: firstn i rows).
    cbn [concat]. rewrite !app_length. specialize (IH i). lia.
Qed.

Lemma inth_map_seq (g : nat -> Z) (m i : nat) : (i < m)%nat -> inth (map g (seq 0 m)) (Z.of_nat i) = g i.
Proof.
  intros H. rewrite inth_of_nat. rewrite (nth_indep _ 0%Z (g 0%nat)) by (rewrite map_length, seq_length; exact H).
  rewrite map_nth, seq_nth by exact H. reflexivity.
Qed.

Lemma combine_map2 {X A B : Type} (f : X -> A) (g : X -> B) (l : list X) :
  List.combine (map f l) (map g l) = map (fun x => (f x, g x)) l.
Proof. induction l as [|x l IH]; [reflexivity|]. cbn [map List.combine]. f_equal. exact IH. Qed.

Lemma seg_map {A B : Type} (f : A -> B) (l : list A) (lo hi : Z) : seg (map f l) lo hi = map f (seg l lo hi).
Proof. unfold seg. rewrite skipn_map, firstn_map. reflexivity. Qed.

Lemma rows_csr_row (rows : list (list (nat * R))) (i : nat) : (i < length rows)%nat ->
  csr_ok RNum (rows_indptr rows) (rows_indices rows) (rows_data rows) (Z.of_nat i) /\
  csr_row RNum (rows_indptr rows) (rows_indices rows) (rows_data rows) (Z.of_nat i) = zrow (nth i rows []).
Proof.
  intros Hi. unfold csr_ok, csr_row. cbv zeta.
  replace (Z.of_nat i + 1)%Z with (Z.of_nat (S i)) by lia.
  unfold rows_indptr. rewrite !inth_map_seq by lia.
  pose proof (concat_firstn_le rows i) as Hle.
  split.
  - unfold zlen, rows_indices, rows_data. rewrite !map_length, seq_length. repeat split; lia.
  - unfold rows_indices, rows_data. rewrite !seg_map, !seg_of_nat, segn_concat_nth by exact Hi.
    unfold zrow. apply combine_map2.
Qed.

(* the data array of the CSR form is a permutation of A's stored values (all rows below n) *)
Lemma filter_split_perm {A : Type} (p q : A -> bool) (l : list A) :
  (forall x, p x = true -> q x = true -> False) ->
  Permutation (filter p l ++ filter q l) (filter (fun x => p x || q x) l).
Proof.
  intros D. induction l as [|x l IH]; [constructor|]. cbn [filter].
  destruct (p x) eqn:P; destruct (q x) eqn:Q; cbn [orb app].
  - exfalso. exact (D x P Q).
  - constructor. exact IH.
  - apply Permutation_sym, Permutation_cons_app, Permutation_sym. exact IH.
  - exact IH.
Qed.

Lemma rows_filter_perm (A : Rsmat) (n : nat) :
  Permutation (flat_map (fun i => filter (fun e => Nat.eqb (erow RNum e) i) A) (seq 0 n)) (filter (fun e => Nat.ltb (erow RNum e) n) A).
Proof.
  induction n as [|n IH].
  - cbn [seq flat_map]. rewrite (filter_ext _ (fun _ => false)); [|intros e; reflexivity].
    induction A as [|e A IHA]; [constructor|exact IHA].
  - rewrite seq_S, flat_map_app. cbn [flat_map Nat.add]. rewrite app_nil_r.
    eapply Permutation_trans; [apply Permutation_app_tail; exact IH|].
    eapply Permutation_trans; [apply filter_split_perm|].
    + intros e P Q. apply Nat.ltb_lt in P. apply Nat.eqb_eq in Q. lia.
    + rewrite (filter_ext _ (fun e => Nat.ltb (erow RNum e) (S n))); [apply Permutation_refl|].
      intros e. destruct (Nat.ltb_spec (erow RNum e) n), (Nat.eqb_spec (erow RNum e) n), (Nat.ltb_spec (erow RNum e) (S n)); try reflexivity; lia.
Qed.

Lemma filter_all {A : Type} (p : A -> bool) (l : list A) : (forall x, In x l -> p x = true) -> filter p l = l.
Proof.
  induction l as [|x l IH]; intros H; [reflexivity|]. cbn [filter]. rewrite (H x (or_introl eq_refl)). f_equal.
  apply IH. intros y Hy. apply H. right. exact Hy.
Qed.

Definition rows_below (n : nat) (A : Rsmat) : Prop := forall e, In e A -> (erow RNum e < n)%nat.
Definition canonical_keys (A : Rsmat) : Prop := NoDup (map (fun e => (erow RNum e, ecol RNum e)) A).

Lemma rows_data_perm (n : nat) (A : Rsmat) : rows_below n A -> Permutation (rows_data (csr_rows n A)) (map (evl RNum) A).
Proof.
  intros HB. unfold rows_data, csr_rows, row_of. rewrite <- flat_map_concat_map.
  assert (E : forall l : list nat, map snd (flat_map (fun i => map (fun e => (ecol RNum e, evl RNum e)) (filter (fun e => Nat.eqb (erow RNum e) i) A)) l)
              = map (evl RNum) (flat_map (fun i => filter (fun e => Nat.eqb (erow RNum e) i) A) l)).
  { induction l as [|i l IHl]; [reflexivity|]. cbn [flat_map]. rewrite !map_app, IHl, map_map. reflexivity. }
  rewrite E. apply Permutation_map. eapply Permutation_trans; [apply rows_filter_perm|].
  rewrite filter_all; [apply Permutation_refl|]. intros e He. apply Nat.ltb_lt. apply HB. exact He.
Qed.

Lemma row_cols_nodup (A : Rsmat) (i : nat) : canonical_keys A -> NoDup (map fst (row_of RNum A i)).
Proof.
  unfold canonical_keys, row_of. rewrite map_map. cbn [fst].
  induction A as [|e A IH]; intros ND; [constructor|]. cbn [map] in ND. inversion ND as [|k l Hnot ND']; subst.
  cbn [filter]. destruct (Nat.eqb_spec (erow RNum e) i) as [E|E]; [|apply IH; exact ND'].
  cbn [map]. constructor; [|apply IH; exact ND'].
  intros Hin. apply Hnot. apply in_map_iff in Hin as [e' [Ec He']]. apply filter_In in He' as [He' Er]. apply Nat.eqb_eq in Er.
  apply in_map_iff. exists e'. split; [|exact He']. rewrite Ec, Er, E. reflexivity.
Qed.

Theorem csr_repr_of_smat (n : nat) (A : Rsmat) : rows_below n A -> canonical_keys A ->
  csr_repr n (rows_indptr (csr_rows n A)) (rows_indices (csr_rows n A)) (rows_data (csr_rows n A)) A.
Proof.
  intros HB HC. split; [apply rows_data_perm; exact HB|]. intros i Hi.
  assert (L : length (csr_rows n A) = n) by (unfold csr_rows; rewrite map_length, seq_length; reflexivity).
  destruct (rows_csr_row (csr_rows n A) i) as [Hok Hrow]; [rewrite L; exact Hi|].
  assert (E : nth i (csr_rows n A) [] = row_of RNum A i).
  { unfold csr_rows. rewrite (nth_indep _ [] (row_of RNum A 0)) by (rewrite map_length, seq_length; exact Hi).
    rewrite map_nth, seq_nth by exact Hi. reflexivity. }
  rewrite E in Hrow. split; [exact Hok|]. split; [apply row_cols_nodup; exact HC|exact Hrow].
Qed.

(* Shared lemmas for link theorems about loops that WRITE arrays (coq/link/L_grads.v): an index loop whose state holds an
   array [g] written only at the loop index (`g[i] = ...`, `g[i] += ...`) next to scalar accumulators.  The loop body is
   specified on the decomposition [g = p ++ c :: l] with [length p = i]: it may replace [c] and update the accumulators,
   reading x[i], y[i] (w[i]) and the current entry [c].  No model is imported here. *)
From Coq Require Import List ZArith Bool Lia.
From UV Require Import Num PyPrim PyPrimLemmas.
Import ListNotations.

(* ---- reads / writes in the middle of a decomposed array ---- *)
Lemma zset_app_mid {A : Type} (p l : list A) (c v : A) (k : nat) :
  length p = k -> zset (p ++ c :: l) (Z.of_nat k) v = p ++ v :: l.
Proof. intros <-. rewrite zset_of_nat. rewrite set_nth_nat_app by discriminate. reflexivity. Qed.

Lemma znth_app_mid {A : Type} (d : A) (p l : list A) (c : A) (k : nat) :
  length p = k -> znth d (p ++ c :: l) (Z.of_nat k) = c.
Proof. intros <-. rewrite znth_of_nat. rewrite app_nth2 by lia. rewrite Nat.sub_diag. reflexivity. Qed.

Lemma vset_app_mid (N : Num) (p l : list N) (c v : N) (k : nat) :
  length p = k -> vset N (p ++ c :: l) (Z.of_nat k) v = p ++ v :: l.
Proof. apply zset_app_mid. Qed.

Lemma vnth_app_mid (N : Num) (p l : list N) (c : N) (k : nat) :
  length p = k -> vnth N (p ++ c :: l) (Z.of_nat k) = c.
Proof. apply znth_app_mid. Qed.

Lemma vzeros_length (N : Num) (n : nat) : length (vzeros N (Z.of_nat n)) = n.
Proof. unfold vzeros. rewrite repeat_length, Nat2Z.id. reflexivity. Qed.

Lemma vzeros_zlen (N : Num) {A : Type} (x : list A) : vzeros N (zlen x) = repeat (zero N) (length x).
Proof. unfold vzeros, zlen. rewrite Nat2Z.id. reflexivity. Qed.

Lemma repeat_map_const {A B : Type} (z : B) (x : list A) : repeat z (length x) = map (fun _ => z) x.
Proof. induction x as [|a x IH]; [reflexivity|]. cbn. f_equal. exact IH. Qed.

(* ---- change of state representation (reordering the tuple of loop variables) ---- *)
Lemma for_range_conj {St T : Type} (phi : St -> T) (psi : T -> St) (lo hi : Z) (G : Z -> St -> St) (s0 : St) :
  (forall s, psi (phi s) = s) ->
  for_range lo hi G s0 = psi (for_range lo hi (fun i t => phi (G i (psi t))) (phi s0)).
Proof.
  intros H. unfold for_range. generalize (seq 0 (Z.to_nat (hi - lo))). intros ks. revert s0.
  induction ks as [|a ks IH]; intros s0; cbn [fold_left].
  - symmetry. apply H.
  - rewrite IH. rewrite (H s0). reflexivity.
Qed.

Lemma for_range_ext {St : Type} (lo hi : Z) (F G : Z -> St -> St) (s0 : St) :
  (forall i s, F i s = G i s) -> for_range lo hi F s0 = for_range lo hi G s0.
Proof. intros H. unfold for_range. apply fold_left_ext. intros a b. apply H. Qed.

(* ---- the scan: entry k of the array and the accumulators are updated from (k, old entry, accumulators) ---- *)
Section Scan.
Context {C St : Type}.
Variables (gc : nat -> C -> St -> C) (gs : nat -> C -> St -> St).

Fixpoint scan (k : nat) (g : list C) (s : St) : list C * St :=
  match g with
  | [] => ([], s)
  | c :: g' => let '(r, sf) := scan (Datatypes.S k) g' (gs k c s) in (gc k c s :: r, sf)
  end.

Lemma for_range_scan_aux (G : Z -> list C * St -> list C * St) (n : nat) :
  (forall k p c l s, length p = k -> k < n -> G (Z.of_nat k) (p ++ c :: l, s) = (p ++ gc k c s :: l, gs k c s)) ->
  forall l p s, length p + length l = n ->
  fold_left (fun st k => G (Z.of_nat k) st) (seq (length p) (length l)) (p ++ l, s)
  = let '(r, sf) := scan (length p) l s in (p ++ r, sf).
Proof.
  intros H. induction l as [|c l IH]; intros p s Hn.
  - cbn. rewrite app_nil_r. reflexivity.
  - cbn [length seq fold_left scan]. rewrite (H (length p)) by (cbn [length] in Hn; (reflexivity || lia)).
    set (v := gc (length p) c s). set (s' := gs (length p) c s).
    assert (Hn' : length (p ++ [v]) + length l = n) by (rewrite app_length; cbn [length] in *; lia).
    pose proof (IH (p ++ [v]) s' Hn') as A. rewrite app_length in A. cbn [length] in A.
    replace (length p + 1) with (Datatypes.S (length p)) in A by lia.
    rewrite <- app_assoc in A. cbn [app] in A. rewrite A.
    destruct (scan (Datatypes.S (length p)) l s') as [r sf]. rewrite <- app_assoc. reflexivity.
Qed.

Lemma for_range_scan (G : Z -> list C * St -> list C * St) (g0 : list C) (s0 : St) (n : nat) :
  length g0 = n ->
  (forall k p c l s, length p = k -> k < n -> G (Z.of_nat k) (p ++ c :: l, s) = (p ++ gc k c s :: l, gs k c s)) ->
  for_range 0 (Z.of_nat n) G (g0, s0) = scan 0 g0 s0.
Proof.
  intros Hg H. rewrite for_range_0. rewrite <- Hg.
  pose proof (for_range_scan_aux G n H g0 [] s0 Hg) as A. cbn [length app] in A. rewrite A.
  destruct (scan 0 g0 s0); reflexivity.
Qed.
End Scan.

(* closed form when the new entry does not depend on the accumulators *)
Lemma scan_map_fold {C St : Type} (hc : nat -> C -> C) (hs : nat -> C -> St -> St) :
  forall (g : list C) (k : nat) (s : St),
  scan (fun k c _ => hc k c) hs k g s
  = (map (fun kc => hc (fst kc) (snd kc)) (combine (seq k (length g)) g),
     fold_left (fun s kc => hs (fst kc) (snd kc) s) (combine (seq k (length g)) g) s).
Proof.
  induction g as [|c g IH]; intros k s; [reflexivity|].
  cbn [scan length seq combine map fold_left fst snd]. rewrite IH. reflexivity.
Qed.

Lemma combine_seq_repeat {C : Type} (z : C) (n k : nat) : combine (seq k n) (repeat z n) = map (fun j => (j, z)) (seq k n).
Proof. revert k; induction n as [|n IH]; intros k; [reflexivity|]. cbn. f_equal. apply IH. Qed.

(* ---- the tools used by the link proofs ----------------------------------------------------------------------------- *)
Section Tools.
Context (N : Num) {St : Type}.

(* array initially all-zero (np.zeros / np.empty), written at the loop index, accumulators next to it; index form *)
Lemma for_range_zfill_idx (hc : nat -> N -> N) (hs : nat -> N -> St -> St) (G : Z -> list N * St -> list N * St) (s0 : St) (n : nat) :
  (forall k p c l s, length p = k -> k < n -> G (Z.of_nat k) (p ++ c :: l, s) = (p ++ hc k c :: l, hs k c s)) ->
  for_range 0 (Z.of_nat n) G (vzeros N (Z.of_nat n), s0)
  = (map (fun k => hc k (zero N)) (seq 0 n), fold_left (fun s k => hs k (zero N) s) (seq 0 n) s0).
Proof.
  intros H. rewrite (for_range_scan (fun k c _ => hc k c) hs G _ s0 n (vzeros_length N n) H).
  rewrite scan_map_fold. rewrite vzeros_length. unfold vzeros. rewrite Nat2Z.id.
  rewrite combine_seq_repeat. rewrite map_map, fold_left_map. reflexivity.
Qed.

(* x[i], y[i] read at the loop index *)
Lemma for_range_zfill_acc2 (x y : list N) (hc : N -> N -> N -> N) (hs : St -> N -> N -> N -> St)
      (G : Z -> list N * St -> list N * St) (s0 : St) :
  length x = length y ->
  (forall k p c l s, length p = k ->
     G (Z.of_nat k) (p ++ c :: l, s)
     = (p ++ hc (vnth N x (Z.of_nat k)) (vnth N y (Z.of_nat k)) c :: l, hs s (vnth N x (Z.of_nat k)) (vnth N y (Z.of_nat k)) c)) ->
  for_range 0 (zlen x) G (vzeros N (zlen x), s0)
  = (map (fun ab => hc (fst ab) (snd ab) (zero N)) (combine x y),
     fold_left (fun s ab => hs s (fst ab) (snd ab) (zero N)) (combine x y) s0).
Proof.
  intros L H. unfold zlen.
  rewrite (for_range_zfill_idx (fun k c => hc (vnth N x (Z.of_nat k)) (vnth N y (Z.of_nat k)) c)
                               (fun k c s => hs s (vnth N x (Z.of_nat k)) (vnth N y (Z.of_nat k)) c) G s0 (length x) (fun k p c l s Hk _ => H k p c l s Hk)).
  f_equal.
  - rewrite <- (map_seq_nth2 (zero N) (zero N) (fun a b => hc a b (zero N)) x y L).
    apply map_ext. intros k. rewrite !vnth_of_nat. reflexivity.
  - apply (fold_seq_list2 (zero N) (zero N) (fun s a b => hs s a b (zero N))); [exact L|].
    intros k s _. rewrite !vnth_of_nat. reflexivity.
Qed.

Lemma map_seq_nth3 {A B C D : Type} (da : A) (db : B) (dc : C) (h : A -> B -> C -> D) (x : list A) (y : list B) (z : list C) :
  length x = length y -> length x = length z ->
  map (fun k => h (nth k x da) (nth k y db) (nth k z dc)) (seq 0 (length x))
  = map (fun abc => h (fst (fst abc)) (snd (fst abc)) (snd abc)) (combine (combine x y) z).
Proof.
  revert y z; induction x as [|a x IH]; intros [|b y] [|c z] L1 L2; try discriminate; [reflexivity|].
  cbn [length seq map combine fst snd nth]. f_equal. rewrite <- seq_shift, map_map. apply IH; [cbn in L1|cbn in L2]; lia.
Qed.

Lemma for_range_zfill_acc3 (x y w : list N) (hc : N -> N -> N -> N -> N) (hs : St -> N -> N -> N -> N -> St)
      (G : Z -> list N * St -> list N * St) (s0 : St) :
  length x = length y -> length x = length w ->
  (forall k p c l s, length p = k ->
     G (Z.of_nat k) (p ++ c :: l, s)
     = (p ++ hc (vnth N x (Z.of_nat k)) (vnth N y (Z.of_nat k)) (vnth N w (Z.of_nat k)) c :: l,
        hs s (vnth N x (Z.of_nat k)) (vnth N y (Z.of_nat k)) (vnth N w (Z.of_nat k)) c)) ->
  for_range 0 (zlen x) G (vzeros N (zlen x), s0)
  = (map (fun abc => hc (fst (fst abc)) (snd (fst abc)) (snd abc) (zero N)) (combine (combine x y) w),
     fold_left (fun s abc => hs s (fst (fst abc)) (snd (fst abc)) (snd abc) (zero N)) (combine (combine x y) w) s0).
Proof.
  intros L1 L2 H. unfold zlen.
  rewrite (for_range_zfill_idx (fun k c => hc (vnth N x (Z.of_nat k)) (vnth N y (Z.of_nat k)) (vnth N w (Z.of_nat k)) c)
                               (fun k c s => hs s (vnth N x (Z.of_nat k)) (vnth N y (Z.of_nat k)) (vnth N w (Z.of_nat k)) c)
                               G s0 (length x) (fun k p c l s Hk _ => H k p c l s Hk)).
  f_equal.
  - rewrite <- (map_seq_nth3 (zero N) (zero N) (zero N) (fun a b c => hc a b c (zero N)) x y w L1 L2).
    apply map_ext. intros k. rewrite !vnth_of_nat. reflexivity.
  - apply (fold_seq_list3 (zero N) (zero N) (zero N) (fun s a b c => hs s a b c (zero N))); [exact L1|exact L2|].
    intros k s _. rewrite !vnth_of_nat. reflexivity.
Qed.
End Tools.

(* two independent groups of loop variables *)
Lemma for_range_prod {S1 S2 : Type} (lo hi : Z) (F : Z -> S1 -> S1) (G : Z -> S2 -> S2) (s0 : S1) (t0 : S2) :
  for_range lo hi (fun i st => (F i (fst st), G i (snd st))) (s0, t0) = (for_range lo hi F s0, for_range lo hi G t0).
Proof.
  unfold for_range. generalize (seq 0 (Z.to_nat (hi - lo))). intros ks. revert s0 t0.
  induction ks as [|a ks IH]; intros s0 t0; [reflexivity|]. cbn [fold_left fst snd]. apply IH.
Qed.

(* an existing array updated in place at the loop index (`x[i] += z`, `x[i] /= s`), accumulators reading the entry *)
Lemma combine_seq_map_snd {C D : Type} (h : C -> D) (g : list C) (k : nat) :
  map (fun kc : nat * C => h (snd kc)) (combine (seq k (length g)) g) = map h g.
Proof. revert k; induction g as [|c g IH]; intros k; [reflexivity|]. cbn. f_equal. apply IH. Qed.
Lemma combine_seq_fold_snd {C St : Type} (h : St -> C -> St) (g : list C) (k : nat) (s : St) :
  fold_left (fun s (kc : nat * C) => h s (snd kc)) (combine (seq k (length g)) g) s = fold_left h g s.
Proof. revert k s; induction g as [|c g IH]; intros k s; [reflexivity|]. cbn. apply IH. Qed.

Lemma for_range_inplace (N : Num) {St : Type} (hc : N -> N) (hs : St -> N -> St) (G : Z -> list N * St -> list N * St)
      (g0 : list N) (s0 : St) :
  (forall k p c l s, length p = k -> G (Z.of_nat k) (p ++ c :: l, s) = (p ++ hc c :: l, hs s c)) ->
  for_range 0 (zlen g0) G (g0, s0) = (map hc g0, fold_left hs g0 s0).
Proof.
  intros H. unfold zlen.
  rewrite (for_range_scan (fun _ c _ => hc c) (fun _ c s => hs s c) G g0 s0 (length g0) eq_refl (fun k p c l s Hk _ => H k p c l s Hk)).
  rewrite (scan_map_fold (fun _ c => hc c) (fun _ c s => hs s c)). cbn [fst snd].
  rewrite combine_seq_map_snd, (combine_seq_fold_snd hs). reflexivity.
Qed.

Lemma for_range_inplace_only (N : Num) (hc : N -> N) (G : Z -> list N -> list N) (g0 : list N) :
  (forall k p c l, length p = k -> G (Z.of_nat k) (p ++ c :: l) = p ++ hc c :: l) ->
  for_range 0 (zlen g0) G g0 = map hc g0.
Proof.
  intros H. rewrite (for_range_conj (fun g : list N => (g, tt)) fst) by reflexivity.
  rewrite (for_range_inplace N hc (fun s _ => s)); [reflexivity|].
  intros k p c l [] Hk. cbn [fst]. rewrite (H k p c l Hk). reflexivity.
Qed.

(* the array alone is the loop state (no accumulators) *)
Section FillOnly.
Context (N : Num).

Lemma for_range_zfill2 (x y : list N) (hc : N -> N -> N -> N) (G : Z -> list N -> list N) :
  length x = length y ->
  (forall k p c l, length p = k ->
     G (Z.of_nat k) (p ++ c :: l) = p ++ hc (vnth N x (Z.of_nat k)) (vnth N y (Z.of_nat k)) c :: l) ->
  for_range 0 (zlen x) G (vzeros N (zlen x)) = map (fun ab => hc (fst ab) (snd ab) (zero N)) (combine x y).
Proof.
  intros L H.
  rewrite (for_range_conj (fun g : list N => (g, tt)) fst) by reflexivity.
  rewrite (for_range_zfill_acc2 N x y hc (fun s _ _ _ => s)); [reflexivity|exact L|].
  intros k p c l [] Hk. cbn [fst]. rewrite (H k p c l Hk). reflexivity.
Qed.

Lemma for_range_zfill3 (x y w : list N) (hc : N -> N -> N -> N -> N) (G : Z -> list N -> list N) :
  length x = length y -> length x = length w ->
  (forall k p c l, length p = k ->
     G (Z.of_nat k) (p ++ c :: l) = p ++ hc (vnth N x (Z.of_nat k)) (vnth N y (Z.of_nat k)) (vnth N w (Z.of_nat k)) c :: l) ->
  for_range 0 (zlen x) G (vzeros N (zlen x))
  = map (fun abc => hc (fst (fst abc)) (snd (fst abc)) (snd abc) (zero N)) (combine (combine x y) w).
Proof.
  intros L1 L2 H.
  rewrite (for_range_conj (fun g : list N => (g, tt)) fst) by reflexivity.
  rewrite (for_range_zfill_acc3 N x y w hc (fun s _ _ _ _ => s)); [reflexivity|exact L1|exact L2|].
  intros k p c l [] Hk. cbn [fst]. rewrite (H k p c l Hk). reflexivity.
Qed.
End FillOnly.

(* ---- folds that know the index (running arg-max) ---- *)
Section IndexedFold.
Context {St A B : Type}.
Fixpoint foldi2 (G : St -> nat -> A -> B -> St) (i : nat) (x : list A) (y : list B) (s : St) : St :=
  match x, y with
  | a :: x', b :: y' => foldi2 G (Datatypes.S i) x' y' (G s i a b)
  | _, _ => s
  end.

Lemma fold_seq_foldi2 (da : A) (db : B) (G : St -> nat -> A -> B -> St) :
  forall (x : list A) (y : list B) (F : St -> nat -> St) (off : nat),
  length x = length y ->
  (forall k s, k < length x -> F s (off + k) = G s (off + k) (nth k x da) (nth k y db)) ->
  forall s, fold_left F (seq off (length x)) s = foldi2 G off x y s.
Proof.
  induction x as [|a x IH]; intros [|b y] F off L H s; try discriminate; [reflexivity|].
  cbn [length seq fold_left foldi2].
  pose proof (H 0 s ltac:(cbn; lia)) as H0. rewrite Nat.add_0_r in H0. cbn [nth] in H0. rewrite H0.
  apply IH; [cbn in L; lia|].
  intros k s' Hk. replace (Datatypes.S off + k) with (off + Datatypes.S k) by lia.
  rewrite (H (Datatypes.S k)) by (cbn; lia). reflexivity.
Qed.
End IndexedFold.

Lemma for_range_foldi2 (N : Num) {St : Type} (G : St -> nat -> N -> N -> St) (x y : list N) (f : Z -> St -> St) :
  length x = length y ->
  (forall k s, f (Z.of_nat k) s = G s k (vnth N x (Z.of_nat k)) (vnth N y (Z.of_nat k))) ->
  forall s, for_range 0 (zlen x) f s = foldi2 G 0 x y s.
Proof.
  intros L H s. rewrite for_range_zlen.
  apply (fold_seq_foldi2 (zero N) (zero N) G x y (fun s k => f (Z.of_nat k) s) 0 L).
  intros k s' _. cbn [Nat.add]. rewrite H, !vnth_of_nat. reflexivity.
Qed.

Lemma map_seq_nth1 {A B : Type} (da : A) (h : A -> B) (x : list A) :
  map (fun k => h (nth k x da)) (seq 0 (length x)) = map h x.
Proof. induction x as [|a x IH]; [reflexivity|]. cbn [length seq map nth]. f_equal. rewrite <- seq_shift, map_map. exact IH. Qed.

(* `g[i] += t_j` repeated inside an inner loop over j (next to a scalar accumulating the same terms) *)
Lemma fold_left_acc_entry (N : Num) {D : Type} (t : D -> N) (i : nat) (p l : list N) :
  length p = i -> forall (ds : list D) (t0 c : N),
  fold_left (fun (st : N * list N) (dd : D) =>
               (add N (fst st) (t dd), vset N (snd st) (Z.of_nat i) (add N (vnth N (snd st) (Z.of_nat i)) (t dd)))) ds (t0, p ++ c :: l)
  = (fold_left (fun a dd => add N a (t dd)) ds t0, p ++ fold_left (fun a dd => add N a (t dd)) ds c :: l).
Proof.
  intros Hi. induction ds as [|dd ds IH]; intros t0 c; [reflexivity|].
  cbn [fold_left fst snd]. rewrite (vnth_app_mid N p l c i Hi), (vset_app_mid N p l c _ i Hi). apply IH.
Qed.

(* one entry of an all-zero array written: grad = np.zeros(n); grad[m] = g *)
Lemma set_nth_repeat_map {A : Type} (z g : A) : forall (n m off : nat),
  set_nth_nat (repeat z n) m g = map (fun j => if Nat.eqb j (off + m) then g else z) (seq off n).
Proof.
  induction n as [|n IH]; intros m off; [reflexivity|].
  cbn [repeat seq map]. destruct m as [|m].
  - cbn [set_nth_nat]. rewrite Nat.add_0_r, Nat.eqb_refl. f_equal.
    clear IH. assert (Hgen : forall k, off < k -> map (fun j => if Nat.eqb j off then g else z) (seq k n) = repeat z n).
    { revert off. induction n as [|n IHn]; intros off k Hk; [reflexivity|]. cbn [seq map repeat].
      destruct (Nat.eqb_spec k off); [lia|]. f_equal. apply IHn. lia. }
    symmetry. apply Hgen. lia.
  - cbn [set_nth_nat]. destruct (Nat.eqb_spec off (off + Datatypes.S m)); [lia|]. f_equal.
    rewrite (IH m (Datatypes.S off)). apply map_ext. intros j. replace (Datatypes.S off + m) with (off + Datatypes.S m) by lia. reflexivity.
Qed.

(* C14 — third family: mahalanobis (all dimensions, symmetric VI), hyperboloid (all dimensions),
   haversine (2), spherical / diagonal Gaussian energy (3 / 4). *)
From Coq Require Import List ZArith Reals Lra Lia.
From Coquelicot Require Import Coquelicot.
From UV Require Import Num M_grads T_grads T_grads2.
Import ListNotations.
Local Open Scope R_scope.

(* ============================================================================================ *)
(* mahalanobis_grad: d = sqrt (diff^T V diff), grad = (V diff) / (1e-6 + d)                        *)
Definition vdiff (x y : list R) : list R := map2 RNum (fun a b : R => a - b) x y.
Definition Qf (V : list (list R)) (u : list R) : R := Ssum Fxy (map (fun row => Ssum Fxy row u) V) u.
Definition mahal (x y : list R) (V : list (list R)) : R := fst (mahalanobis_grad RNum x y V).

Lemma mahal_eq x y V : mahal x y V = sqrt (Qf V (vdiff x y)).
Proof.
  unfold mahal, mahalanobis_grad, dot. cbv zeta. cbn [fst]. rewrite acc2_Ssum. unfold Qf, vdiff.
  erewrite map_ext; [| intros row; apply acc2_Ssum]. reflexivity.
Qed.

Lemma vdiff_set_nth : forall x y i t, (i < length x)%nat -> (i < length y)%nat ->
  vdiff (set_nth x i t) y = set_nth (vdiff x y) i (t - nth i y 0).
Proof.
  unfold vdiff, map2. induction x as [|a x IH]; intros [|b y] i t Hx Hy; simpl in *; try lia.
  destruct i as [|i]; simpl; [reflexivity|]. f_equal. apply IH; lia.
Qed.
Lemma vdiff_length : forall x y, length x = length y -> length (vdiff x y) = length x.
Proof. unfold vdiff, map2. intros x y H. rewrite map_length, combine_length. rn. rewrite H. apply Nat.min_id. Qed.
Lemma nth_vdiff : forall x y i, (i < length x)%nat -> (i < length y)%nat -> nth i (vdiff x y) 0 = nth i x 0 - nth i y 0.
Proof. intros. unfold vdiff. now rewrite (nth_map2 _ 0). Qed.

(* replacing coordinate i of the SECOND argument of a dot product *)
Lemma dot_set_nth_r : forall r u i s, (i < length r)%nat -> (i < length u)%nat ->
  Ssum Fxy r (set_nth u i s) = Ssum Fxy r u + nth i r 0 * (s - nth i u 0).
Proof.
  induction r as [|a r IH]; intros [|b u] i s Hr Hu; simpl in *; try lia.
  destruct i as [|i]; simpl; unfold Fxy at 1 3; [ring|]. rewrite IH by lia. ring.
Qed.
Lemma dot_map_affine (A B : list R -> R) (dl : R) : forall (V : list (list R)) w,
  Ssum Fxy (map (fun row => A row + B row * dl) V) w = Ssum Fxy (map A V) w + dl * Ssum Fxy (map B V) w.
Proof. induction V as [|row V IH]; intros [|b w]; simpl; try ring. rewrite IH. unfold Fxy. ring. Qed.

Lemma Qf_line V u i s : (i < length u)%nat -> length V = length u ->
  (forall j, (j < length u)%nat -> length (nth j V []) = length u) ->
  (forall j k, (j < length u)%nat -> (k < length u)%nat -> nth k (nth j V []) 0 = nth j (nth k V []) 0) ->
  Qf V (set_nth u i s) =
    Qf V u + 2 * Ssum Fxy (nth i V []) u * (s - nth i u 0) + nth i (nth i V []) 0 * ((s - nth i u 0) * (s - nth i u 0)).
Proof.
  intros Hi HV Hrows Hsym. unfold Qf. set (dl := s - nth i u 0).
  assert (E : map (fun row => Ssum Fxy row (set_nth u i s)) V =
              map (fun row => Ssum Fxy row u + nth i row 0 * dl) V).
  { apply map_ext_in. intros row Hin. apply dot_set_nth_r; auto.
    apply In_nth with (d := []) in Hin. destruct Hin as (j & Hj & <-). rewrite Hrows; lia. }
  rewrite E, dot_map_affine.
  assert (HiV : (i < length (map (fun row => Ssum Fxy row u) V))%nat) by (rewrite map_length; lia).
  assert (HiV' : (i < length (map (fun row : list R => nth i row 0%R) V))%nat) by (rewrite map_length; lia).
  rewrite !dot_set_nth_r by assumption. fold dl.
  assert (N1 : nth i (map (fun row => Ssum Fxy row u) V) 0 = Ssum Fxy (nth i V []) u).
  { change 0 with (Ssum Fxy [] u) at 1. apply (map_nth (fun row => Ssum Fxy row u)). }
  assert (N2 : nth i (map (fun row : list R => nth i row 0) V) 0 = nth i (nth i V []) 0).
  { rewrite (nth_indep _ 0 ((fun row : list R => nth i row 0) [])) by assumption.
    apply (map_nth (fun row : list R => nth i row 0)). }
  rewrite N1, N2.
  assert (Ecol : map (fun row : list R => nth i row 0) V = nth i V []).
  { apply (nth_ext _ _ 0 0).
    - rewrite map_length, Hrows; lia.
    - intros j Hj. rewrite map_length in Hj.
      rewrite (nth_indep _ 0 ((fun row : list R => nth i row 0) [])) by (rewrite map_length; exact Hj).
      rewrite (map_nth (fun row : list R => nth i row 0) V [] j).
      apply Hsym; lia. }
  rewrite Ecol. unfold dl. ring.
Qed.

Lemma nth_map_d {A : Type} (f : A -> R) l i d : (i < length l)%nat -> nth i (map f l) 0 = f (nth i l d).
Proof. intros H. rewrite (nth_indep _ 0 (f d)) by (rewrite map_length; exact H). apply map_nth. Qed.

Definition sym_square (V : list (list R)) (n : nat) : Prop :=
  length V = n /\ (forall j, (j < n)%nat -> length (nth j V []) = n) /\
  (forall j k, (j < n)%nat -> (k < n)%nat -> nth k (nth j V []) 0 = nth j (nth k V []) 0).

Theorem mahalanobis_grad_derive : forall x y V i, (i < length x)%nat -> length x = length y ->
  sym_square V (length x) -> 0 < mahal x y V ->
  let d := mahal x y V in
  let gi := Ssum Fxy (nth i V []) (vdiff x y) in     (* (V (x - y))_i *)
  is_derive (fun t => mahal (set_nth x i t) y V) (nth i x 0) (gi / d) /\
  nth i (snd (mahalanobis_grad RNum x y V)) 0 = gi / d * (d / (d + Reps6)).
Proof.
  intros x y V i Hx Hl (HV & Hrows & Hsym) Hd d gi.
  assert (Hy : (i < length y)%nat) by lia.
  assert (Hu : length (vdiff x y) = length x) by (apply vdiff_length, Hl).
  set (u := vdiff x y) in *.
  assert (HQ : 0 < Qf V u).
  { unfold d in *. rewrite mahal_eq in Hd. fold u in Hd. destruct (Rle_or_lt (Qf V u) 0) as [H|H]; auto.
    rewrite sqrt_neg_0 in Hd; lra. }
  split.
  - apply (is_derive_ext (fun t => sqrt (Qf V u + 2 * gi * (t - nth i x 0) + nth i (nth i V []) 0 * ((t - nth i x 0) * (t - nth i x 0))))).
    { intros t. rewrite mahal_eq, vdiff_set_nth by assumption. fold u.
      rewrite Qf_line; try (rewrite Hu; auto).
      assert (Eu : nth i u 0 = nth i x 0 - nth i y 0) by (unfold u; apply nth_vdiff; assumption).
      rewrite Eu. fold gi.
      replace (t - nth i y 0 - (nth i x 0 - nth i y 0)) with (t - nth i x 0) by ring. reflexivity. }
    unfold d. rewrite mahal_eq. fold u. set (Q0 := Qf V u) in *. set (vii := nth i (nth i V []) 0). set (xi := nth i x 0).
    auto_derive.
    + replace (Q0 + 2 * gi * (xi + - xi) + vii * ((xi + - xi) * (xi + - xi))) with Q0 by ring. exact HQ.
    + replace (Q0 + 2 * gi * (xi + - xi) + vii * ((xi + - xi) * (xi + - xi))) with Q0 by ring.
      assert (sqrt Q0 <> 0) by (apply Rgt_not_eq, sqrt_lt_R0, HQ). field. assumption.
  - unfold mahalanobis_grad. cbv zeta. cbn [snd]. rn.
    rewrite (nth_map_d _ _ i 0) by (rewrite map_length; lia).
    rewrite (nth_map_d _ _ i []) by lia.
    unfold dot. rewrite !acc2_Ssum.
    erewrite map_ext; [| intros row; apply acc2_Ssum].
    change (gi / (Reps6 + sqrt (Qf V u)) = gi / d * (d / (d + Reps6))).
    unfold d in *. rewrite mahal_eq in *. fold u in Hd |- *. set (s := sqrt (Qf V u)) in *. unfold Reps6. field. lra.
Qed.

(* ============================================================================================ *)
(* hyperboloid_grad: d = arccosh B, B = sqrt (1 + |x|^2) sqrt (1 + |y|^2) - <x, y>;                 *)
(*   grad_i = (x_i t / s - y_i) / (sqrt (B - 1) sqrt (B + 1))    (no regulariser; B <= 1 is clamped) *)
Lemma acc1_Ssum (g : R -> R) : forall x y : list R, length x = length y ->
  acc1 RNum g x = Ssum (fun a _ => g a) x y.
Proof.
  intros x y Hl. unfold acc1. cbn.
  assert (G : forall (l : list R) (m : list R) a, length l = length m ->
            fold_left (fun acc u : R => acc + g u) l a = a + Ssum (fun u _ => g u) l m).
  { induction l as [|u l IH]; intros [|v m] a H; simpl in H; try discriminate; simpl; [ring|].
    rewrite (IH m) by lia. ring. }
  change (fold_left (fun acc u : R => acc + g u) x 0 = Ssum (fun a _ : R => g a) x y).
  rewrite (G x y 0 Hl). ring.
Qed.
Lemma fold_sub_Ssum : forall (x y : list R) (a : R),
  fold_left (fun (acc : R) (p : R * R) => acc - fst p * snd p) (combine x y) a = a - Ssum Fxy x y.
Proof.
  induction x as [|u x IH]; intros [|v y] a; simpl; try ring. rewrite IH. unfold Fxy. ring.
Qed.
Lemma Fxx_nonneg a b : 0 <= Fxx a b. Proof. unfold Fxx. nra. Qed.
Lemma Fyy_nonneg a b : 0 <= Fyy a b. Proof. unfold Fyy. nra. Qed.

Definition hypB0 (x y : list R) : R := sqrt (1 + Ssum Fxx x y) * sqrt (1 + Ssum Fyy x y) - Ssum Fxy x y.
Definition hyp (x y : list R) : R := fst (hyperboloid_grad RNum x y).
Definition Reps8 : R := 1 / 100000000.

Lemma hypB_eq x y : length x = length y ->
  hyperboloid_B RNum x y = if Rleb (hypB0 x y) 1 then 1 + Reps8 else hypB0 x y.
Proof.
  intros Hl. unfold hyperboloid_B. cbv zeta.
  rewrite (acc1_Ssum _ x y Hl). rewrite (acc1_Ssum _ y x (eq_sym Hl)). rn. cbn.
  change (fold_left (fun (acc : R) (p : R * R) => acc - fst p * snd p) (combine x y)
           (sqrt (1 + Ssum (fun a _ : R => a * a) x y) * sqrt (1 + Ssum (fun a _ : R => a * a) y x)))
    with (fold_left (fun (acc : R) (p : R * R) => acc - fst p * snd p) (combine x y)
           (sqrt (1 + Ssum Fxx x y) * sqrt (1 + Ssum (fun a _ : R => a * a) y x))).
  rewrite fold_sub_Ssum.
  assert (E : Ssum (fun a _ : R => a * a) y x = Ssum Fyy x y).
  { clear. revert y. induction x as [|a x IH]; intros [|b y]; simpl; auto. rewrite IH. reflexivity. }
  rewrite E. reflexivity.
Qed.

Theorem hyperboloid_grad_derive : forall x y i, (i < length x)%nat -> length x = length y ->
  1 < hypB0 x y ->
  let s := sqrt (1 + Ssum Fxx x y) in let t := sqrt (1 + Ssum Fyy x y) in let B := hypB0 x y in
  let g := (nth i x 0 * t / s - nth i y 0) / (sqrt (B - 1) * sqrt (B + 1)) in
  is_derive (fun u => hyp (set_nth x i u) y) (nth i x 0) g /\
  nth i (snd (hyperboloid_grad RNum x y)) 0 = g.
Proof.
  intros x y i Hx Hl HB s t B g. assert (Hy : (i < length y)%nat) by lia.
  set (Sxx := Ssum Fxx x y) in *. set (Sxy := Ssum Fxy x y). set (xi := nth i x 0) in *. set (yi := nth i y 0) in *.
  pose proof (Ssum_nonneg Fxx Fxx_nonneg x y) as Hxx. fold Sxx in Hxx.
  pose proof (Ssum_nonneg Fyy Fyy_nonneg x y) as Hyy.
  assert (Hs : 0 < s) by (apply sqrt_lt_R0; lra).
  assert (Ht : 0 < t) by (apply sqrt_lt_R0; lra).
  set (Bl := fun u : R => sqrt (1 + (Sxx - xi * xi + u * u)) * t - (Sxy - xi * yi + u * yi)).
  assert (EBl : forall u, hypB0 (set_nth x i u) y = Bl u).
  { intros u. unfold hypB0, Bl. rewrite (Ssum_set_nth Fxx 0), (Ssum_set_nth Fyy 0), (Ssum_set_nth Fxy 0) by assumption.
    fold Sxx Sxy xi yi. unfold Fxx, Fxy.
    replace (Ssum Fyy x y - Fyy xi yi + Fyy u yi) with (Ssum Fyy x y) by (unfold Fyy; ring). reflexivity. }
  assert (EB : Bl xi = B).
  { unfold Bl, B, hypB0. fold Sxx Sxy s t. replace (Sxx - xi * xi + xi * xi) with Sxx by ring.
    replace (Sxy - xi * yi + xi * yi) with Sxy by ring. reflexivity. }
  assert (Hloc : locally xi (fun u => 1 < Bl u)).
  { apply locally_gt; [| rewrite EB; exact HB].
    refine (@ex_derive_continuous R_AbsRing R_NormedModule Bl xi _). unfold Bl. auto_derive. replace (Sxx - xi * xi + xi * xi) with Sxx by ring. lra. }
  assert (HB1 : 0 < B - 1) by (unfold B; lra). assert (HB2 : 0 < B + 1) by (unfold B; lra).
  assert (Hq : sqrt (B * B - 1) = sqrt (B - 1) * sqrt (B + 1)).
  { rewrite <- sqrt_mult by lra. f_equal. ring. }
  assert (Hq0 : 0 < sqrt (B * B - 1)) by (rewrite Hq; apply Rmult_lt_0_compat; apply sqrt_lt_R0; lra).
  split.
  - apply (is_derive_ext_loc (fun u => ln (Bl u + sqrt (Bl u * Bl u - 1)))).
    { revert Hloc. apply filter_imp. intros u Hu.
      unfold hyp, hyperboloid_grad. cbv zeta. cbn [fst]. rewrite hypB_eq by (rewrite set_nth_length; exact Hl).
      rewrite EBl. destruct (Rleb (Bl u) 1) eqn:E; [apply Rleb_true in E; lra|]. reflexivity. }
    unfold g. rewrite <- Hq. unfold Bl. 
    assert (EBs : s * t + - (Sxy - xi * yi + xi * yi) = B) by (unfold B, hypB0; fold Sxx Sxy s t; ring).
    auto_derive.
    + replace (Sxx - xi * xi + xi * xi) with Sxx by ring. fold s. rewrite EBs.
      replace (B * B + - (1)) with (B * B - 1) by ring.
      repeat split; try lra; nra.
    + replace (Sxx - xi * xi + xi * xi) with Sxx by ring. fold s. rewrite EBs.
      replace (B * B + - (1)) with (B * B - 1) by ring.
      set (q := sqrt (B * B - 1)) in *. field. repeat split; lra.
  - unfold g, hyperboloid_grad. cbv zeta. cbn [snd]. rewrite (nth_map2 _ 0) by assumption.
    rewrite hypB_eq by exact Hl. fold B.
    destruct (Rleb B 1) eqn:E; [apply Rleb_true in E; lra|].
    rewrite (acc1_Ssum _ x y Hl). rewrite (acc1_Ssum _ y x (eq_sym Hl)). rn. cbn.
    assert (E2 : Ssum (fun a _ : R => a * a) y x = Ssum Fyy x y).
    { clear. revert y. induction x as [|a x IH]; intros [|b y]; simpl; auto. rewrite IH. reflexivity. }
    rewrite E2. change (Ssum (fun a _ : R => a * a) x y) with Sxx. fold s t xi yi.
    assert (0 < sqrt (B - 1)) by (apply sqrt_lt_R0; lra). assert (0 < sqrt (B + 1)) by (apply sqrt_lt_R0; lra).
    field. repeat split; lra.
Qed.

(* ============================================================================================ *)
(* haversine_grad (2 coordinates; the function shifts latitudes by pi/2):                          *)
(*   d = 2 asin (sqrt a), a = sin^2 ((x0-y0)/2) + cos (x0+pi/2) cos (y0+pi/2) sin^2 ((x1-y1)/2);    *)
(*   grad = (da/dx) / (sqrt |a-1| sqrt |a| + 1e-6)                                                   *)
Lemma is_derive_asin x : -1 < x < 1 -> is_derive asin x (1 / sqrt (1 - x²)).
Proof.
  intros H. apply is_derive_Reals.
  apply (derive_pt_eq_1 asin x _ (derivable_pt_asin x H)). apply derive_pt_asin.
Qed.
Global Instance UnaryDiff_asin : UnaryDiff' asin.
Proof.
  exists (fun x => 1 / sqrt (1 - x²)) (fun x => -1 < x < 1).
  intros x Hx. now apply is_derive_asin.
Defined.

Definition hav (x y : list R) : R := fst (haversine_grad RNum sin cos asin PI x y).
Definition hav_a (x0 x1 y0 y1 : R) : R :=
  cos (x0 + PI / 2) * cos (y0 + PI / 2) * (sin (1 / 2 * (x1 - y1)) * sin (1 / 2 * (x1 - y1)))
  + sin (1 / 2 * (x0 - y0)) * sin (1 / 2 * (x0 - y0)).

Lemma half_R : half RNum = 1 / 2. Proof. unfold half, two. cbn. lra. Qed.
Lemma two_R : two RNum = 2. Proof. unfold two. cbn. lra. Qed.

Lemma hav_eq x0 x1 y0 y1 : 0 < hav_a x0 x1 y0 y1 < 1 ->
  hav [x0; x1] [y0; y1] = 2 * asin (sqrt (hav_a x0 x1 y0 y1)).
Proof.
  intros Ha. unfold hav, haversine_grad. cbv zeta. cbn [fst]. rewrite !half_R, !two_R. unfold sq. rn. cbn -[half two].
  fold (hav_a x0 x1 y0 y1). set (a := hav_a x0 x1 y0 y1) in *.
  rewrite (Rabs_right a) by lra.
  unfold nmax, nmin. cbn.
  destruct (Rltb a 0) eqn:E1; [apply Rltb_true in E1; lra|].
  destruct (Rltb 1 a) eqn:E2; [apply Rltb_true in E2; lra|]. reflexivity.
Qed.

Theorem haversine_grad_derive : forall x0 x1 y0 y1, 0 < hav_a x0 x1 y0 y1 < 1 ->
  let a := hav_a x0 x1 y0 y1 in
  let denom := sqrt (Rabs (a - 1)) * sqrt (Rabs a) in
  let sin_lat := sin (1 / 2 * (x0 - y0)) in let cos_lat := cos (1 / 2 * (x0 - y0)) in
  let sin_long := sin (1 / 2 * (x1 - y1)) in let cos_long := cos (1 / 2 * (x1 - y1)) in
  let g0 := (sin_lat * cos_lat - sin (x0 + PI / 2) * cos (y0 + PI / 2) * (sin_long * sin_long)) / denom in
  let g1 := (cos (x0 + PI / 2) * cos (y0 + PI / 2) * sin_long * cos_long) / denom in
  is_derive (fun t => hav [t; x1] [y0; y1]) x0 g0 /\
  is_derive (fun t => hav [x0; t] [y0; y1]) x1 g1 /\
  snd (haversine_grad RNum sin cos asin PI [x0; x1] [y0; y1]) =
    [g0 * (denom / (denom + Reps6)); g1 * (denom / (denom + Reps6))].
Proof.
  intros x0 x1 y0 y1 Ha a denom sin_lat cos_lat sin_long cos_long g0 g1.
  change (0 < a < 1) in Ha.
  assert (Hd : denom = sqrt (1 - a) * sqrt a).
  { unfold denom. rewrite (Rabs_left (a - 1)) by lra. rewrite (Rabs_right a) by lra. f_equal. f_equal. ring. }
  assert (Hs1 : 0 < sqrt (1 - a)) by (apply sqrt_lt_R0; lra).
  assert (Hs2 : 0 < sqrt a) by (apply sqrt_lt_R0; lra).
  assert (Hsa : sqrt a < 1) by (rewrite <- sqrt_1; apply sqrt_lt_1_alt; lra).
  assert (Hsq : (sqrt a)² = a) by (apply Rsqr_sqrt; lra).
  split; [| split].
  - apply (is_derive_ext_loc (fun t => 2 * asin (sqrt (hav_a t x1 y0 y1)))).
    { assert (C : continuous (fun t => hav_a t x1 y0 y1) x0).
      { refine (@ex_derive_continuous R_AbsRing R_NormedModule _ x0 _). unfold hav_a. auto_derive. exact I. }
      generalize (locally_between _ x0 0 1 C Ha). apply filter_imp. intros t Ht. symmetry. apply hav_eq, Ht. }
    unfold hav_a. auto_derive.
    + replace (x0 + - y0) with (x0 - y0) by ring. replace (x1 + - y1) with (x1 - y1) by ring.
      fold (hav_a x0 x1 y0 y1). fold a. repeat split; lra.
    + replace (x0 + - y0) with (x0 - y0) by ring. replace (x1 + - y1) with (x1 - y1) by ring.
      fold (hav_a x0 x1 y0 y1). fold a. rewrite Hsq. unfold g0. rewrite Hd.
      unfold sin_lat, cos_lat, sin_long. field. split; lra.
  - apply (is_derive_ext_loc (fun t => 2 * asin (sqrt (hav_a x0 t y0 y1)))).
    { assert (C : continuous (fun t => hav_a x0 t y0 y1) x1).
      { refine (@ex_derive_continuous R_AbsRing R_NormedModule _ x1 _). unfold hav_a. auto_derive. exact I. }
      generalize (locally_between _ x1 0 1 C Ha). apply filter_imp. intros t Ht. symmetry. apply hav_eq, Ht. }
    unfold hav_a. auto_derive.
    + replace (x0 + - y0) with (x0 - y0) by ring. replace (x1 + - y1) with (x1 - y1) by ring.
      fold (hav_a x0 x1 y0 y1). fold a. repeat split; lra.
    + replace (x0 + - y0) with (x0 - y0) by ring. replace (x1 + - y1) with (x1 - y1) by ring.
      fold (hav_a x0 x1 y0 y1). fold a. rewrite Hsq. unfold g1. rewrite Hd.
      unfold sin_long, cos_long. field. split; lra.
  - unfold haversine_grad. cbv zeta. cbn [snd]. rewrite !half_R, !two_R. unfold sq. rn. cbn -[half two].
    fold (hav_a x0 x1 y0 y1). fold a. fold denom.
    unfold g0, g1, sin_lat, cos_lat, sin_long, cos_long, Reps6.
    assert (0 < denom) by (rewrite Hd; apply Rmult_lt_0_compat; lra).
    f_equal; [| f_equal]; field; lra.
Qed.

(* ============================================================================================ *)
(* spherical_gaussian_energy_grad: x = (mu_1, mu_2, sigma)                                         *)
Definition sge (x y : list R) : R := fst (spherical_gaussian_energy_grad RNum PI x y).
Definition sge_cf (x0 x1 x2 y0 y1 y2 : R) : R :=
  ((x0 - y0) * (x0 - y0) + (x1 - y1) * (x1 - y1)) / (2 * (Rabs x2 + Rabs y2)) + ln (Rabs x2 + Rabs y2) + ln (2 * PI).
Lemma sge_eq x0 x1 x2 y0 y1 y2 : sge [x0; x1; x2] [y0; y1; y2] = sge_cf x0 x1 x2 y0 y1 y2.
Proof. unfold sge, spherical_gaussian_energy_grad. cbv zeta. cbn [fst]. rewrite !two_R. reflexivity. Qed.

Theorem spherical_gaussian_energy_grad_derive : forall x0 x1 x2 y0 y1 y2, x2 <> 0 ->
  let sigma := Rabs x2 + Rabs y2 in
  let m := (x0 - y0) * (x0 - y0) + (x1 - y1) * (x1 - y1) in
  let g0 := (x0 - y0) / sigma in let g1 := (x1 - y1) / sigma in
  let g2 := sign x2 * (1 / sigma - m / (2 * (sigma * sigma))) in
  is_derive (fun t => sge [t; x1; x2] [y0; y1; y2]) x0 g0 /\
  is_derive (fun t => sge [x0; t; x2] [y0; y1; y2]) x1 g1 /\
  is_derive (fun t => sge [x0; x1; t] [y0; y1; y2]) x2 g2 /\
  snd (spherical_gaussian_energy_grad RNum PI [x0; x1; x2] [y0; y1; y2]) = [g0; g1; g2].
Proof.
  intros x0 x1 x2 y0 y1 y2 H2 sigma m g0 g1 g2.
  assert (Hs : 0 < sigma) by (unfold sigma; pose proof (Rabs_pos_lt x2 H2); pose proof (Rabs_pos y2); lra).
  split; [| split; [| split]].
  - apply (is_derive_ext (fun t => sge_cf t x1 x2 y0 y1 y2)); [intros; symmetry; apply sge_eq|].
    unfold sge_cf. fold sigma. auto_derive; [lra|]. unfold g0. field. lra.
  - apply (is_derive_ext (fun t => sge_cf x0 t x2 y0 y1 y2)); [intros; symmetry; apply sge_eq|].
    unfold sge_cf. fold sigma. auto_derive; [lra|]. unfold g1. field. lra.
  - apply (is_derive_ext (fun t => sge_cf x0 x1 t y0 y1 y2)); [intros; symmetry; apply sge_eq|].
    unfold sge_cf. auto_derive.
    + fold sigma. repeat split; try lra; exact H2.
    + fold sigma. unfold g2, m. field. lra.
  - unfold spherical_gaussian_energy_grad. cbv zeta. cbn [snd]. rewrite !two_R, nsign_sign. unfold sq. rn. cbn.
    fold sigma. reflexivity.
Qed.

(* ============================================================================================ *)
(* diagonal_gaussian_energy_grad: x = (mu_1, mu_2, sigma_11, sigma_22)                              *)
Definition dge (x y : list R) : R := fst (diagonal_gaussian_energy_grad RNum PI x y).
Definition dge_cf (x0 x1 x2 x3 y0 y1 y2 y3 : R) : R :=
  (((Rabs x3 + Rabs y3) * ((x0 - y0) * (x0 - y0)) + (Rabs x2 + Rabs y2) * ((x1 - y1) * (x1 - y1)))
     / ((Rabs x2 + Rabs y2) * (Rabs x3 + Rabs y3))
   + ln ((Rabs x2 + Rabs y2) * (Rabs x3 + Rabs y3))) / 2 + ln (2 * PI).
Lemma dge_eq x0 x1 x2 x3 y0 y1 y2 y3 : 0 < (Rabs x2 + Rabs y2) * (Rabs x3 + Rabs y3) ->
  dge [x0; x1; x2; x3] [y0; y1; y2; y3] = dge_cf x0 x1 x2 x3 y0 y1 y2 y3.
Proof.
  intros Hd. unfold dge, diagonal_gaussian_energy_grad. cbv zeta. rewrite !two_R. unfold sq. rn. cbn.
  set (s1 := Rabs x2 + Rabs y2) in *. set (s2 := Rabs x3 + Rabs y3) in *.
  destruct (Reqb (s1 * s2) 0) eqn:E; [apply Reqb_true in E; lra|]. cbn [fst].
  unfold dge_cf. fold s1 s2.
  assert (0 <= s1) by (unfold s1; pose proof (Rabs_pos x2); pose proof (Rabs_pos y2); lra).
  assert (0 <= s2) by (unfold s2; pose proof (Rabs_pos x3); pose proof (Rabs_pos y3); lra).
  rewrite (Rabs_right s1), (Rabs_right s2), (Rabs_right (s1 * s2)) by lra.
  replace (s2 * ((x0 - y0) * (x0 - y0)) - 2 * 0 * (x0 - y0) * (x1 - y1) + s1 * ((x1 - y1) * (x1 - y1)))
    with (s2 * ((x0 - y0) * (x0 - y0)) + s1 * ((x1 - y1) * (x1 - y1))) by ring. reflexivity.
Qed.

Theorem diagonal_gaussian_energy_grad_derive : forall x0 x1 x2 x3 y0 y1 y2 y3, x2 <> 0 -> x3 <> 0 ->
  let s1 := Rabs x2 + Rabs y2 in let s2 := Rabs x3 + Rabs y3 in
  let mu1 := x0 - y0 in let mu2 := x1 - y1 in
  let g0 := mu1 / s1 in let g1 := mu2 / s2 in
  let g2 := sign x2 * (s1 - mu1 * mu1) / (2 * (s1 * s1)) in
  let g3 := sign x3 * (s2 - mu2 * mu2) / (2 * (s2 * s2)) in
  is_derive (fun t => dge [t; x1; x2; x3] [y0; y1; y2; y3]) x0 g0 /\
  is_derive (fun t => dge [x0; t; x2; x3] [y0; y1; y2; y3]) x1 g1 /\
  is_derive (fun t => dge [x0; x1; t; x3] [y0; y1; y2; y3]) x2 g2 /\
  is_derive (fun t => dge [x0; x1; x2; t] [y0; y1; y2; y3]) x3 g3 /\
  snd (diagonal_gaussian_energy_grad RNum PI [x0; x1; x2; x3] [y0; y1; y2; y3]) = [g0; g1; g2; g3].
Proof.
  intros x0 x1 x2 x3 y0 y1 y2 y3 H2 H3 s1 s2 mu1 mu2 g0 g1 g2 g3.
  assert (Hs1 : 0 < s1) by (unfold s1; pose proof (Rabs_pos_lt x2 H2); pose proof (Rabs_pos y2); lra).
  assert (Hs2 : 0 < s2) by (unfold s2; pose proof (Rabs_pos_lt x3 H3); pose proof (Rabs_pos y3); lra).
  assert (Hdet : 0 < s1 * s2) by (apply Rmult_lt_0_compat; assumption).
  split; [| split; [| split; [| split]]].
  - apply (is_derive_ext (fun t => dge_cf t x1 x2 x3 y0 y1 y2 y3)); [intros; symmetry; apply dge_eq; exact Hdet|].
    unfold dge_cf. fold s1 s2. auto_derive; [repeat split; lra|]. unfold g0, mu1. field. split; lra.
  - apply (is_derive_ext (fun t => dge_cf x0 t x2 x3 y0 y1 y2 y3)); [intros; symmetry; apply dge_eq; exact Hdet|].
    unfold dge_cf. fold s1 s2. auto_derive; [repeat split; lra|]. unfold g1, mu2. field. split; lra.
  - apply (is_derive_ext_loc (fun t => dge_cf x0 x1 t x3 y0 y1 y2 y3)).
    { generalize (locally_neq x2 0 H2). apply filter_imp. intros t Ht. symmetry. apply dge_eq. fold s2.
      apply Rmult_lt_0_compat; [|exact Hs2]. pose proof (Rabs_pos_lt t Ht). pose proof (Rabs_pos y2). lra. }
    unfold dge_cf. auto_derive; fold s1 s2;
      match goal with
      | |- _ = _ => unfold g2, mu1; field; split; lra
      | |- _ => repeat split; try lra; try exact H2; apply Rgt_not_eq; lra
      end.
  - apply (is_derive_ext_loc (fun t => dge_cf x0 x1 x2 t y0 y1 y2 y3)).
    { generalize (locally_neq x3 0 H3). apply filter_imp. intros t Ht. symmetry. apply dge_eq. fold s1.
      apply Rmult_lt_0_compat; [exact Hs1|]. pose proof (Rabs_pos_lt t Ht). pose proof (Rabs_pos y3). lra. }
    unfold dge_cf. auto_derive; fold s1 s2;
      match goal with
      | |- _ = _ => unfold g3, mu2; field; split; lra
      | |- _ => repeat split; try lra; try exact H3; apply Rgt_not_eq; lra
      end.
  - unfold diagonal_gaussian_energy_grad. cbv zeta. rewrite !two_R, !nsign_sign. unfold sq. rn. cbn.
    fold s1 s2. destruct (Reqb (s1 * s2) 0) eqn:E; [apply Reqb_true in E; lra|]. cbn [snd].
    rewrite (Rabs_right s1), (Rabs_right s2) by lra.
    unfold g0, g1, g2, g3, mu1, mu2. f_equal; [| f_equal; [| f_equal; [| f_equal]]]; field; lra.
Qed.

(* C13 theorems, part 1: the merge helpers of umap/sparse.py over the reals.
   sorted_from k c : indices strictly increasing and >= k;  canonical = sorted + no stored zero. *)
From Coq Require Import List ZArith Bool Arith Reals Lra Lia.
From UV Require Import Num M_sparse.
Import ListNotations.
Local Open Scope R_scope.

Ltac rn := change (T RNum) with R in *.
Ltac rsimp := cbn [add sub mul div neg nabs nsqrt zero one eqb ltb leb of_Z npow RNum T] in *; rn.

Definition rvec := list (nat * R).

Fixpoint isorted (k : nat) (l : list nat) : Prop :=
  match l with [] => True | i :: l' => (k <= i)%nat /\ isorted (S i) l' end.
Definition sorted_from (k : nat) (c : rvec) : Prop := isorted k (map fst c).
Definition nostored0 (c : rvec) : Prop := Forall (fun e => snd e <> 0) c.
Definition below (n : nat) (c : rvec) : Prop := Forall (fun i => (i < n)%nat) (map fst c).
Definition canonical (c : rvec) : Prop := sorted_from 0 c /\ nostored0 c.

(* typed wrappers (T RNum is convertible to R but not syntactically equal) *)
Definition Rget : rvec -> nat -> R := get RNum.
Definition Rsum : rvec -> rvec -> rvec := sparse_sum RNum.
Definition Rdiff : rvec -> rvec -> rvec := sparse_diff RNum.
Definition Rmul : rvec -> rvec -> rvec := sparse_mul RNum.
Definition Rkeep : nat -> R -> rvec -> rvec := keep RNum.
Definition Rdrop0 : rvec -> rvec := drop0 RNum.
Definition Rmapv : (R -> R) -> rvec -> rvec := map_vals RNum.
Definition Rnz : R -> bool := nz RNum.
Definition Rdensify : nat -> rvec -> list R := densify RNum.

Lemma Rnz_true v : Rnz v = true <-> v <> 0.
Proof. unfold Rnz, nz; rsimp. destruct (Reqb v 0) eqn:E; simpl; split; intros; try congruence.
  - apply Reqb_true in E. contradiction.
  - apply Reqb_false in E. exact E. Qed.
Lemma Rnz_false v : Rnz v = false <-> v = 0.
Proof. unfold Rnz, nz; rsimp. destruct (Reqb v 0) eqn:E; simpl; split; intros; try congruence.
  - apply Reqb_true in E. exact E.
  - apply Reqb_false in E. contradiction. Qed.

(* ---- sortedness ------------------------------------------------------------------------------- *)
Lemma isorted_weaken k k' l : (k' <= k)%nat -> isorted k l -> isorted k' l.
Proof. destruct l; simpl; [auto | intros H [H1 H2]; split; [lia | exact H2]]. Qed.

Lemma sorted_cons k j v c : sorted_from k ((j, v) :: c) <-> (k <= j)%nat /\ sorted_from (S j) c.
Proof. unfold sorted_from; simpl; tauto. Qed.
Lemma below_cons n j v c : below n ((j, v) :: c) <-> (j < n)%nat /\ below n c.
Proof. unfold below; simpl; split; [intro H; inversion H; auto | intros [H1 H2]; constructor; auto]. Qed.

Lemma Rget_nil i : Rget [] i = 0.
Proof. reflexivity. Qed.
Lemma Rget_cons j v c i : Rget ((j, v) :: c) i = if Nat.eqb i j then v else Rget c i.
Proof. reflexivity. Qed.

Lemma get_before k c i : sorted_from k c -> (i < k)%nat -> Rget c i = 0.
Proof.
  revert k. induction c as [|[j v] c IH]; intros k Hs Hi; [reflexivity|].
  apply sorted_cons in Hs. destruct Hs as [Hk Hs]. rewrite Rget_cons.
  destruct (Nat.eqb_spec i j); [lia|]. apply (IH (S j)); [exact Hs | lia].
Qed.

(* ---- equations of the merges ------------------------------------------------------------------ *)
Lemma Rsum_nil_l b : Rsum [] b = Rdrop0 b.
Proof. destruct b; reflexivity. Qed.
Lemma Rsum_nil_r a : Rsum a [] = Rdrop0 a.
Proof. destruct a as [|[i u] a]; reflexivity. Qed.
Lemma Rsum_cons i u a j v b :
  Rsum ((i, u) :: a) ((j, v) :: b) =
    if Nat.eqb i j then Rkeep i (u + v) (Rsum a b)
    else if Nat.ltb i j then Rkeep i u (Rsum a ((j, v) :: b))
    else Rkeep j v (Rsum ((i, u) :: a) b).
Proof. reflexivity. Qed.

Lemma Rmul_nil_l b : Rmul [] b = [].
Proof. destruct b; reflexivity. Qed.
Lemma Rmul_nil_r a : Rmul a [] = [].
Proof. destruct a as [|[i u] a]; reflexivity. Qed.
Lemma Rmul_cons i u a j v b :
  Rmul ((i, u) :: a) ((j, v) :: b) =
    if Nat.eqb i j then Rkeep i (u * v) (Rmul a b)
    else if Nat.ltb i j then Rmul a ((j, v) :: b)
    else Rmul ((i, u) :: a) b.
Proof. reflexivity. Qed.

(* ---- keep / drop0 ----------------------------------------------------------------------------- *)
Definition good (k : nat) (c : rvec) : Prop := sorted_from k c /\ nostored0 c.

Lemma keep_spec k i w r : (k <= i)%nat -> good (S i) r ->
  good k (Rkeep i w r) /\ (forall t, Rget (Rkeep i w r) t = if Nat.eqb t i then w else Rget r t) /\
  (forall n, (i < n)%nat -> below n r -> below n (Rkeep i w r)).
Proof.
  intros Hk [Hs Hz]. unfold Rkeep, keep. fold (Rnz w). destruct (Rnz w) eqn:E.
  - apply Rnz_true in E. repeat split.
    + exact Hk.
    + exact Hs.
    + constructor; [exact E | exact Hz].
    + intros n Hn Hb. constructor; assumption.
  - apply Rnz_false in E. repeat split.
    + apply (isorted_weaken (S i)); [lia | exact Hs].
    + exact Hz.
    + intro t. destruct (Nat.eqb_spec t i); [|reflexivity].
      subst t. rewrite E. apply (get_before (S i)); [exact Hs | lia].
    + intros n _ Hb; exact Hb.
Qed.

Lemma drop0_spec c : forall k, sorted_from k c ->
  good k (Rdrop0 c) /\ (forall t, Rget (Rdrop0 c) t = Rget c t) /\ (forall n, below n c -> below n (Rdrop0 c)).
Proof.
  induction c as [|[i w] c IH]; intros k Hs.
  - repeat split; try constructor; auto.
  - apply sorted_cons in Hs. destruct Hs as [Hk Hs]. destruct (IH (S i) Hs) as (Hg & Hget & Hb).
    destruct (keep_spec k i w (Rdrop0 c) Hk Hg) as (Hg' & Hget' & Hb').
    assert (Heq : Rdrop0 ((i, w) :: c) = Rkeep i w (Rdrop0 c)).
    { unfold Rdrop0, drop0, Rkeep, keep. simpl. reflexivity. }
    rewrite Heq. repeat split; try apply Hg'.
    + intro t. rewrite Hget', Rget_cons, Hget. reflexivity.
    + intros n Hbn. inversion Hbn; subst. apply Hb'; auto.
Qed.

(* ---- sparse_sum ------------------------------------------------------------------------------- *)
Lemma sum_spec : forall a b k, sorted_from k a -> sorted_from k b ->
  good k (Rsum a b) /\ (forall t, Rget (Rsum a b) t = Rget a t + Rget b t) /\
  (forall n, below n a -> below n b -> below n (Rsum a b)).
Proof.
  induction a as [|[i u] a IHa]; intro b.
  - intros k _ Hb. rewrite Rsum_nil_l. destruct (drop0_spec b k Hb) as (Hg & Hget & Hbl).
    repeat split; try apply Hg. + intro t; rewrite Hget, Rget_nil; lra. + intros n _ H; auto.
  - induction b as [|[j v] b IHb]; intros k Ha Hb.
    + rewrite Rsum_nil_r. destruct (drop0_spec _ k Ha) as (Hg & Hget & Hbl).
      repeat split; try apply Hg. * intro t; rewrite Hget, Rget_nil; lra. * intros n H _; auto.
    + rewrite Rsum_cons. apply sorted_cons in Ha, Hb. destruct Ha as [Hki Ha], Hb as [Hkj Hb].
      destruct (Nat.eqb_spec i j) as [->|Hne].
      * destruct (IHa b (S j) Ha Hb) as (Hg & Hget & Hbl).
        destruct (keep_spec k j (u + v) _ Hkj Hg) as (Hg' & Hget' & Hbl').
        repeat split; try apply Hg'.
        -- intro t. rewrite Hget', !Rget_cons, Hget. destruct (Nat.eqb t j); reflexivity.
        -- intros n H1 H2. inversion H1; inversion H2; subst. apply Hbl'; auto.
      * destruct (Nat.ltb_spec i j) as [Hlt|Hge].
        -- assert (Hb' : sorted_from (S i) ((j, v) :: b)) by (apply sorted_cons; split; [lia | exact Hb]).
           destruct (IHa _ (S i) Ha Hb') as (Hg & Hget & Hbl).
           destruct (keep_spec k i u _ Hki Hg) as (Hg' & Hget' & Hbl').
           repeat split; try apply Hg'.
           ++ intro t. rewrite Hget', Hget, !Rget_cons.
              destruct (Nat.eqb_spec t i) as [->|]; [|reflexivity].
              destruct (Nat.eqb_spec i j); [lia|].
              rewrite (get_before (S j) b i Hb) by lia. lra.
           ++ intros n H1 H2. inversion H1; subst. apply Hbl'; auto.
        -- assert (Ha' : sorted_from (S j) ((i, u) :: a)) by (apply sorted_cons; split; [lia | exact Ha]).
           destruct (IHb (S j) Ha' Hb) as (Hg & Hget & Hbl).
           destruct (keep_spec k j v _ Hkj Hg) as (Hg' & Hget' & Hbl').
           repeat split; try apply Hg'.
           ++ intro t. rewrite Hget', Hget, !Rget_cons.
              destruct (Nat.eqb_spec t j) as [->|]; [|reflexivity].
              destruct (Nat.eqb_spec j i); [lia|].
              rewrite (get_before (S i) a j Ha) by lia. lra.
           ++ intros n H1 H2. inversion H2; subst. apply Hbl'; auto.
Qed.

(* ---- map_vals --------------------------------------------------------------------------------- *)
Lemma mapv_inds f c : map fst (Rmapv f c) = map fst c.
Proof. unfold Rmapv, map_vals. rewrite map_map. reflexivity. Qed.
Lemma mapv_sorted f k c : sorted_from k c -> sorted_from k (Rmapv f c).
Proof. unfold sorted_from. rewrite mapv_inds. auto. Qed.
Lemma mapv_below f n c : below n c -> below n (Rmapv f c).
Proof. unfold below. rewrite mapv_inds. auto. Qed.
Lemma mapv_get f c t : f 0 = 0 -> Rget (Rmapv f c) t = f (Rget c t).
Proof.
  intro H0. induction c as [|[j v] c IH]; [change (0 = f 0); auto|].
  change (Rmapv f ((j, v) :: c)) with ((j, f v) :: Rmapv f c). rewrite !Rget_cons.
  destruct (Nat.eqb t j); auto.
Qed.
Lemma mapv_nostored0 f c : (forall v, v <> 0 -> f v <> 0) -> nostored0 c -> nostored0 (Rmapv f c).
Proof. intros Hf H. induction H; constructor; auto. simpl. apply Hf; assumption. Qed.

(* ---- sparse_diff ------------------------------------------------------------------------------ *)
Lemma diff_spec a b k : sorted_from k a -> sorted_from k b ->
  good k (Rdiff a b) /\ (forall t, Rget (Rdiff a b) t = Rget a t - Rget b t) /\
  (forall n, below n a -> below n b -> below n (Rdiff a b)).
Proof.
  intros Ha Hb. unfold Rdiff, sparse_diff.
  change (sparse_sum RNum a (map_vals RNum (neg RNum) b)) with (Rsum a (Rmapv Ropp b)).
  destruct (sum_spec a (Rmapv Ropp b) k Ha (mapv_sorted _ _ _ Hb)) as (Hg & Hget & Hbl).
  repeat split; try apply Hg.
  - intro t. rewrite Hget, mapv_get by lra. lra.
  - intros n H1 H2. apply Hbl; [exact H1 | apply mapv_below; exact H2].
Qed.

(* ---- sparse_mul ------------------------------------------------------------------------------- *)
Lemma mul_spec : forall a b k, sorted_from k a -> sorted_from k b ->
  good k (Rmul a b) /\ (forall t, Rget (Rmul a b) t = Rget a t * Rget b t) /\
  (forall n, below n a -> below n b -> below n (Rmul a b)).
Proof.
  induction a as [|[i u] a IHa]; intro b.
  - intros k _ _. rewrite Rmul_nil_l. repeat split; try constructor. intro t; rewrite !Rget_nil; lra.
  - induction b as [|[j v] b IHb]; intros k Ha Hb.
    + rewrite Rmul_nil_r. repeat split; try constructor. intro t; rewrite !Rget_nil; lra.
    + rewrite Rmul_cons. apply sorted_cons in Ha, Hb. destruct Ha as [Hki Ha], Hb as [Hkj Hb].
      destruct (Nat.eqb_spec i j) as [->|Hne].
      * destruct (IHa b (S j) Ha Hb) as (Hg & Hget & Hbl).
        destruct (keep_spec k j (u * v) _ Hkj Hg) as (Hg' & Hget' & Hbl').
        repeat split; try apply Hg'.
        -- intro t. rewrite Hget', !Rget_cons, Hget. destruct (Nat.eqb t j); reflexivity.
        -- intros n H1 H2. inversion H1; inversion H2; subst. apply Hbl'; auto.
      * destruct (Nat.ltb_spec i j) as [Hlt|Hge].
        -- assert (Hb' : sorted_from (S i) ((j, v) :: b)) by (apply sorted_cons; split; [lia | exact Hb]).
           destruct (IHa _ (S i) Ha Hb') as ((Hs & Hz) & Hget & Hbl).
           repeat split.
           ++ apply (isorted_weaken (S i)); [lia | exact Hs].
           ++ exact Hz.
           ++ intro t. rewrite Hget, !Rget_cons.
              destruct (Nat.eqb_spec t i) as [->|]; [|reflexivity].
              destruct (Nat.eqb_spec i j); [lia|].
              rewrite (get_before (S i) a i Ha), (get_before (S j) b i Hb) by lia. lra.
           ++ intros n H1 H2. inversion H1; subst. apply Hbl; auto.
        -- assert (Ha' : sorted_from (S j) ((i, u) :: a)) by (apply sorted_cons; split; [lia | exact Ha]).
           destruct (IHb (S j) Ha' Hb) as ((Hs & Hz) & Hget & Hbl).
           repeat split.
           ++ apply (isorted_weaken (S j)); [lia | exact Hs].
           ++ exact Hz.
           ++ intro t. rewrite Hget, !Rget_cons.
              destruct (Nat.eqb_spec t j) as [->|]; [|reflexivity].
              destruct (Nat.eqb_spec j i); [lia|].
              rewrite (get_before (S i) a j Ha), (get_before (S j) b j Hb) by lia. lra.
           ++ intros n H1 H2. inversion H2; subst. apply Hbl; auto.
Qed.

(* ---- index merges: arr_union / arr_intersect ---------------------------------------------------- *)
Definition ibelow (n : nat) (l : list nat) : Prop := Forall (fun i => (i < n)%nat) l.

Lemma union_nil_l b : arr_union [] b = b.
Proof. destruct b; reflexivity. Qed.
Lemma union_nil_r a : arr_union a [] = a.
Proof. destruct a; reflexivity. Qed.
Lemma union_cons i a j b :
  arr_union (i :: a) (j :: b) =
    if Nat.eqb i j then i :: arr_union a b
    else if Nat.ltb i j then i :: arr_union a (j :: b) else j :: arr_union (i :: a) b.
Proof. reflexivity. Qed.
Lemma inter_nil_l b : arr_intersect [] b = [].
Proof. destruct b; reflexivity. Qed.
Lemma inter_nil_r a : arr_intersect a [] = [].
Proof. destruct a; reflexivity. Qed.
Lemma inter_cons i a j b :
  arr_intersect (i :: a) (j :: b) =
    if Nat.eqb i j then i :: arr_intersect a b
    else if Nat.ltb i j then arr_intersect a (j :: b) else arr_intersect (i :: a) b.
Proof. reflexivity. Qed.

Lemma memb_cons t i l : memb t (i :: l) = Nat.eqb t i || memb t l.
Proof. reflexivity. Qed.
Lemma memb_before k l t : isorted k l -> (t < k)%nat -> memb t l = false.
Proof.
  revert k. induction l as [|i l IH]; intros k Hs Ht; [reflexivity|].
  destruct Hs as [Hk Hs]. rewrite memb_cons. destruct (Nat.eqb_spec t i); [lia|]. simpl.
  apply (IH (S i)); [exact Hs | lia].
Qed.

Lemma union_spec : forall a b k, isorted k a -> isorted k b ->
  isorted k (arr_union a b) /\ (forall t, memb t (arr_union a b) = memb t a || memb t b) /\
  (forall n, ibelow n a -> ibelow n b -> ibelow n (arr_union a b)).
Proof.
  induction a as [|i a IHa]; intro b.
  - intros k _ Hb. rewrite union_nil_l. split; [|split]; auto.
  - induction b as [|j b IHb]; intros k Ha Hb.
    + rewrite union_nil_r. split; [|split]; auto. intro t. rewrite orb_false_r. reflexivity.
    + rewrite union_cons. destruct Ha as [Hki Ha], Hb as [Hkj Hb].
      destruct (Nat.eqb_spec i j) as [->|Hne].
      * destruct (IHa b (S j) Ha Hb) as (Hs & Hm & Hbl). split; [|split]; [simpl; auto | |].
        -- intro t. rewrite !memb_cons, Hm. destruct (Nat.eqb t j), (memb t a), (memb t b); reflexivity.
        -- intros n H1 H2. inversion H1; inversion H2; subst. constructor; auto. apply Hbl; auto.
      * destruct (Nat.ltb_spec i j) as [Hlt|Hge].
        -- assert (Hb' : isorted (S i) (j :: b)) by (split; [lia | exact Hb]).
           destruct (IHa _ (S i) Ha Hb') as (Hs & Hm & Hbl). split; [|split]; [simpl; auto | |].
           ++ intro t. rewrite !memb_cons, Hm, memb_cons.
              destruct (Nat.eqb t i), (memb t a), (Nat.eqb t j), (memb t b); reflexivity.
           ++ intros n H1 H2. inversion H1; subst. constructor; auto. apply Hbl; auto.
        -- assert (Ha' : isorted (S j) (i :: a)) by (split; [lia | exact Ha]).
           destruct (IHb (S j) Ha' Hb) as (Hs & Hm & Hbl). split; [|split]; [simpl; auto | |].
           ++ intro t. rewrite !memb_cons, Hm, memb_cons.
              destruct (Nat.eqb t i), (memb t a), (Nat.eqb t j), (memb t b); reflexivity.
           ++ intros n H1 H2. inversion H2; subst. constructor; auto. apply Hbl; auto.
Qed.

Lemma inter_spec : forall a b k, isorted k a -> isorted k b ->
  isorted k (arr_intersect a b) /\ (forall t, memb t (arr_intersect a b) = memb t a && memb t b) /\
  (forall n, ibelow n a -> ibelow n b -> ibelow n (arr_intersect a b)).
Proof.
  induction a as [|i a IHa]; intro b.
  - intros k _ Hb. rewrite inter_nil_l. split; [exact I | split; [intro t; reflexivity | intros; constructor]].
  - induction b as [|j b IHb]; intros k Ha Hb.
    + rewrite inter_nil_r. split; [exact I | split; [intro t; rewrite andb_false_r; reflexivity | intros; constructor]].
    + rewrite inter_cons. destruct Ha as [Hki Ha], Hb as [Hkj Hb].
      destruct (Nat.eqb_spec i j) as [->|Hne].
      * destruct (IHa b (S j) Ha Hb) as (Hs & Hm & Hbl). split; [|split]; [simpl; auto | |].
        -- intro t. rewrite !memb_cons, Hm. destruct (Nat.eqb_spec t j) as [->|]; simpl; [reflexivity|reflexivity].
        -- intros n H1 H2. inversion H1; inversion H2; subst. constructor; auto. apply Hbl; auto.
      * destruct (Nat.ltb_spec i j) as [Hlt|Hge].
        -- assert (Hb' : isorted (S i) (j :: b)) by (split; [lia | exact Hb]).
           destruct (IHa _ (S i) Ha Hb') as (Hs & Hm & Hbl). split; [|split].
           ++ apply (isorted_weaken (S i)); [lia | exact Hs].
           ++ intro t. rewrite Hm, !memb_cons.
              destruct (Nat.eqb_spec t i) as [->|]; simpl; [|reflexivity].
              destruct (Nat.eqb_spec i j); [lia|]. simpl.
              rewrite (memb_before (S i) a i Ha), (memb_before (S j) b i Hb) by lia. reflexivity.
           ++ intros n H1 H2. inversion H1; subst. apply Hbl; auto.
        -- assert (Ha' : isorted (S j) (i :: a)) by (split; [lia | exact Ha]).
           destruct (IHb (S j) Ha' Hb) as (Hs & Hm & Hbl). split; [|split].
           ++ apply (isorted_weaken (S j)); [lia | exact Hs].
           ++ intro t. rewrite Hm, !memb_cons.
              destruct (Nat.eqb_spec t j) as [->|]; simpl.
              ** destruct (Nat.eqb_spec j i); [lia|]. simpl.
                 rewrite (memb_before (S i) a j Ha), (memb_before (S j) b j Hb) by lia. reflexivity.
              ** reflexivity.
           ++ intros n H1 H2. inversion H2; subst. apply Hbl; auto.
Qed.

(* a strictly increasing index list within [s, s+n) has as many elements as positions it marks *)
Definition count (p : nat -> bool) (l : list nat) : nat := length (filter p l).

Lemma count_ext_in p q l : (forall i, In i l -> p i = q i) -> count p l = count q l.
Proof. intro H. unfold count. rewrite (filter_ext_in p q l H). reflexivity. Qed.
Lemma count_false l : count (fun _ => false) l = O.
Proof. induction l; auto. Qed.
Lemma count_cons p i l : count p (i :: l) = ((if p i then 1 else 0) + count p l)%nat.
Proof. unfold count. simpl. destruct (p i); reflexivity. Qed.

Lemma length_count : forall n s l, isorted s l -> ibelow (s + n) l -> length l = count (fun i => memb i l) (seq s n).
Proof.
  induction n as [|n IH]; intros s l Hs Hb.
  - destruct l as [|i l]; [reflexivity|]. destruct Hs as [H1 _]. inversion Hb; subst. lia.
  - simpl seq. rewrite count_cons. cbv beta. destruct l as [|i l].
    + simpl. rewrite count_false. reflexivity.
    + destruct Hs as [Hsi Hs]. inversion Hb as [|? ? Hi Hb']; subst.
      destruct (Nat.eq_dec i s) as [->|Hne].
      * rewrite memb_cons, Nat.eqb_refl. simpl.
        rewrite (IH (S s) l Hs) by (replace (S s + n)%nat with (s + S n)%nat by lia; exact Hb').
        f_equal. apply count_ext_in. intros t Ht. apply in_seq in Ht. cbv beta.
        destruct (Nat.eqb_spec t s); [lia|reflexivity].
      * assert (Hs' : isorted (S s) (i :: l)) by (split; [lia | exact Hs]).
        rewrite (memb_before (S s) (i :: l) s Hs') by lia. simpl.
        apply (IH (S s) (i :: l) Hs'). replace (S s + n)%nat with (s + S n)%nat by lia. exact Hb.
Qed.

Lemma memb_inds c t : nostored0 c -> memb t (map fst c) = Rnz (Rget c t).
Proof.
  intro H. induction H as [|[j v] c Hv _ IH]; [symmetry; apply Rnz_false; reflexivity|].
  simpl map. rewrite memb_cons, Rget_cons. destruct (Nat.eqb t j); simpl; [|exact IH].
  symmetry. apply Rnz_true. exact Hv.
Qed.

(* number of stored entries of a canonical row = number of non-zero coordinates *)
Lemma length_nnz n c : sorted_from 0 c -> nostored0 c -> below n c ->
  length c = count (fun i => Rnz (Rget c i)) (seq 0 n).
Proof.
  intros Hs Hz Hb. rewrite <- (map_length fst c). rewrite (length_count n 0 (map fst c) Hs Hb).
  apply count_ext_in. intros i _. apply memb_inds. exact Hz.
Qed.

(* ---- folding over the stored entries = folding over all coordinates ----------------------------- *)
Lemma fold_left_ext_in {A B} (f g : A -> B -> A) l : (forall x, In x l -> forall r, f r x = g r x) ->
  forall r, fold_left f l r = fold_left g l r.
Proof.
  induction l as [|x l IH]; intros H r; [reflexivity|]. simpl.
  rewrite (H x (or_introl eq_refl)). apply IH. intros y Hy. apply H. right; exact Hy.
Qed.

Lemma fold_dense {A} (step : A -> nat -> R -> A) (P : A -> Prop) :
  (forall r i, P r -> step r i 0 = r) -> (forall r i v, P r -> P (step r i v)) ->
  forall n s (c : rvec) r0, sorted_from s c -> below (s + n) c -> P r0 ->
  fold_left (fun r e => step r (fst e) (snd e)) c r0 = fold_left (fun r i => step r i (Rget c i)) (seq s n) r0.
Proof.
  intros H0 HP. induction n as [|n IH]; intros s c r0 Hs Hb Hr.
  - destruct c as [|[i v] c]; [reflexivity|]. apply sorted_cons in Hs. apply below_cons in Hb. lia.
  - simpl seq. simpl fold_left at 2. destruct c as [|[i v] c].
    + rewrite Rget_nil, H0 by exact Hr. apply (IH (S s) [] r0); try constructor. exact Hr.
    + pose proof Hs as Hs0. apply sorted_cons in Hs. destruct Hs as [Hsi Hs].
      pose proof Hb as Hb0. apply below_cons in Hb. destruct Hb as [Hi Hb].
      destruct (Nat.eq_dec i s) as [->|Hne].
      * rewrite Rget_cons, Nat.eqb_refl. simpl fold_left at 1.
        rewrite (IH (S s) c (step r0 s v) Hs) by (try (replace (S s + n)%nat with (s + S n)%nat by lia; exact Hb); apply HP; exact Hr).
        apply fold_left_ext_in. intros t Ht r. apply in_seq in Ht. rewrite Rget_cons.
        destruct (Nat.eqb_spec t s); [lia|reflexivity].
      * assert (Hs' : sorted_from (S s) ((i, v) :: c)) by (apply sorted_cons; split; [lia | exact Hs]).
        rewrite (get_before (S s) _ s Hs') by lia. rewrite H0 by exact Hr.
        apply (IH (S s) _ r0 Hs'); [|exact Hr]. replace (S s + n)%nat with (s + S n)%nat by lia. exact Hb0.
Qed.

(* ---- sums ------------------------------------------------------------------------------------- *)
Definition Rssum : list R -> R := ssum RNum.
Definition Raccum : (R -> R) -> list R -> R := accum RNum.
Definition Rzipw : (R -> R -> R) -> list R -> list R -> list R := zipw RNum.

Lemma Rssum_cons v l : Rssum (v :: l) = v + Rssum l.
Proof. reflexivity. Qed.
Lemma fold_add_ssum {B} (g : B -> R) l r0 : fold_left (fun r x => r + g x) l r0 = r0 + Rssum (map g l).
Proof.
  revert r0. induction l as [|x l IH]; intro r0; cbn [fold_left map].
  - change (Rssum []) with 0. lra.
  - rewrite IH, Rssum_cons. lra.
Qed.
Lemma fold_left_map {A B C} (f : A -> C -> A) (g : B -> C) l r : fold_left f (map g l) r = fold_left (fun r x => f r (g x)) l r.
Proof. revert r. induction l; intro r; simpl; auto. Qed.

Lemma accum_dense f n c : f 0 = 0 -> sorted_from 0 c -> below n c ->
  Raccum f (map snd c) = Rssum (map (fun i => f (Rget c i)) (seq 0 n)).
Proof.
  intros H0 Hs Hb. unfold Raccum, accum. rsimp. rewrite fold_left_map.
  rewrite (fold_dense (fun r _ v => r + f v) (fun _ => True)) with (n := n) (s := O); auto.
  - rewrite fold_add_ssum. lra.
  - intros r _ _. rewrite H0. lra.
Qed.

Lemma zipw_map {B} (f : R -> R -> R) (g h : B -> R) l : Rzipw f (map g l) (map h l) = map (fun i => f (g i) (h i)) l.
Proof. induction l; simpl; [reflexivity|]. unfold Rzipw in *. simpl. rewrite IHl. reflexivity. Qed.
Lemma zipw_densify f n a b : Rzipw f (Rdensify n a) (Rdensify n b) = map (fun i => f (Rget a i) (Rget b i)) (seq 0 n).
Proof. unfold Rdensify, densify. apply (zipw_map f (get RNum a) (get RNum b)). Qed.
Lemma ssum_ext_in {B} (g h : B -> R) l : (forall x, In x l -> g x = h x) -> Rssum (map g l) = Rssum (map h l).
Proof. intro H. rewrite (map_ext_in g h l H). reflexivity. Qed.
Lemma densify_length n c : length (Rdensify n c) = n.
Proof. unfold Rdensify, densify. rewrite map_length, seq_length. reflexivity. Qed.

(* Σ over the stored entries of a − b, a + b, a * b  =  Σ over all coordinates *)
Lemma accum_diff f n a b : f 0 = 0 -> sorted_from 0 a -> sorted_from 0 b -> below n a -> below n b ->
  Raccum f (map snd (Rdiff a b)) = Rssum (Rzipw (fun u v => f (u - v)) (Rdensify n a) (Rdensify n b)).
Proof.
  intros H0 Ha Hb Hna Hnb. destruct (diff_spec a b 0 Ha Hb) as ((Hs & _) & Hget & Hbl).
  rewrite (accum_dense f n) by auto. rewrite zipw_densify. apply ssum_ext_in. intros i _. rewrite Hget. reflexivity.
Qed.
Lemma accum_sum f n a b : f 0 = 0 -> sorted_from 0 a -> sorted_from 0 b -> below n a -> below n b ->
  Raccum f (map snd (Rsum a b)) = Rssum (Rzipw (fun u v => f (u + v)) (Rdensify n a) (Rdensify n b)).
Proof.
  intros H0 Ha Hb Hna Hnb. destruct (sum_spec a b 0 Ha Hb) as ((Hs & _) & Hget & Hbl).
  rewrite (accum_dense f n) by auto. rewrite zipw_densify. apply ssum_ext_in. intros i _. rewrite Hget. reflexivity.
Qed.
Lemma accum_mul f n a b : f 0 = 0 -> sorted_from 0 a -> sorted_from 0 b -> below n a -> below n b ->
  Raccum f (map snd (Rmul a b)) = Rssum (Rzipw (fun u v => f (u * v)) (Rdensify n a) (Rdensify n b)).
Proof.
  intros H0 Ha Hb Hna Hnb. destruct (mul_spec a b 0 Ha Hb) as ((Hs & _) & Hget & Hbl).
  rewrite (accum_dense f n) by auto. rewrite zipw_densify. apply ssum_ext_in. intros i _. rewrite Hget. reflexivity.
Qed.
Lemma accum_self f n c : f 0 = 0 -> sorted_from 0 c -> below n c ->
  Raccum f (map snd c) = Rssum (map f (Rdensify n c)).
Proof.
  intros H0 Hs Hb. rewrite (accum_dense f n) by auto. unfold Rdensify, densify. rewrite map_map. reflexivity.
Qed.

(* ---- the helper theorems in their published form ---------------------------------------------- *)
Theorem sum_densify a b n : canonical a -> canonical b -> below n a -> below n b ->
  Rdensify n (Rsum a b) = Rzipw Rplus (Rdensify n a) (Rdensify n b) /\ canonical (Rsum a b) /\ below n (Rsum a b).
Proof.
  intros [Ha _] [Hb _] Hna Hnb. destruct (sum_spec a b 0 Ha Hb) as (Hg & Hget & Hbl).
  split; [|split; [exact Hg | apply Hbl; assumption]].
  rewrite zipw_densify. unfold Rdensify, densify. apply map_ext. exact Hget.
Qed.
Theorem diff_densify a b n : canonical a -> canonical b -> below n a -> below n b ->
  Rdensify n (Rdiff a b) = Rzipw Rminus (Rdensify n a) (Rdensify n b) /\ canonical (Rdiff a b) /\ below n (Rdiff a b).
Proof.
  intros [Ha _] [Hb _] Hna Hnb. destruct (diff_spec a b 0 Ha Hb) as (Hg & Hget & Hbl).
  split; [|split; [exact Hg | apply Hbl; assumption]].
  rewrite zipw_densify. unfold Rdensify, densify. apply map_ext. exact Hget.
Qed.
Theorem mul_densify a b n : canonical a -> canonical b -> below n a -> below n b ->
  Rdensify n (Rmul a b) = Rzipw Rmult (Rdensify n a) (Rdensify n b) /\ canonical (Rmul a b) /\ below n (Rmul a b).
Proof.
  intros [Ha _] [Hb _] Hna Hnb. destruct (mul_spec a b 0 Ha Hb) as (Hg & Hget & Hbl).
  split; [|split; [exact Hg | apply Hbl; assumption]].
  rewrite zipw_densify. unfold Rdensify, densify. apply map_ext. exact Hget.
Qed.

(* index arrays of canonical rows: union / intersection are strictly increasing and have exactly the expected members *)
Theorem union_inter_char (a b : list nat) : isorted 0 a -> isorted 0 b ->
  isorted 0 (arr_union a b) /\ isorted 0 (arr_intersect a b) /\
  (forall t, memb t (arr_union a b) = memb t a || memb t b) /\
  (forall t, memb t (arr_intersect a b) = memb t a && memb t b).
Proof.
  intros Ha Hb. destruct (union_spec a b 0 Ha Hb) as (H1 & H2 & _). destruct (inter_spec a b 0 Ha Hb) as (H3 & H4 & _).
  repeat split; assumption.
Qed.

(* C12: the per-metric statements in the shape used by prop/P_C12.v (about the model terms [d_<metric> RNum]),
   assembled from the R-form lemmas of T_metrics_real / T_metrics_real2 / T_metrics_bin; permutation invariance of
   the counts; ll_dirichlet symmetry; non-vacuity examples. *)
From Coq Require Import List ZArith Bool Reals Lra Lia Psatz Permutation.
From UV Require Import Num M_metrics.
From UV Require Export T_metrics_base T_metrics_real T_metrics_real2 T_metrics_bin T_metrics_ext.
Import ListNotations.
Local Open Scope R_scope.

(* ---- real-vector metrics ---------------------------------------------------------------------------- *)
Lemma ax_euclidean (x y : list R) :
  d_euclidean RNum x y = d_euclidean RNum y x /\ 0 <= d_euclidean RNum x y /\ d_euclidean RNum x x = 0.
Proof. rewrite !euclid_eq. split; [apply euclid_sym | split; [apply euclid_nonneg | apply euclid_diag]]. Qed.
Lemma tri_euclidean (x y z : list R) : length x = length y -> length y = length z ->
  d_euclidean RNum x z <= d_euclidean RNum x y + d_euclidean RNum y z.
Proof. rewrite !euclid_eq. apply euclid_triangle. Qed.

Lemma ax_manhattan (x y : list R) :
  d_manhattan RNum x y = d_manhattan RNum y x /\ 0 <= d_manhattan RNum x y /\ d_manhattan RNum x x = 0.
Proof. rewrite !manh_eq. split; [apply manh_sym | split; [apply manh_nonneg | apply manh_diag]]. Qed.
Lemma tri_manhattan (x y z : list R) : length x = length y -> length y = length z ->
  d_manhattan RNum x z <= d_manhattan RNum x y + d_manhattan RNum y z.
Proof. rewrite !manh_eq. apply manh_triangle. Qed.

Lemma ax_chebyshev (x y : list R) :
  d_chebyshev RNum x y = d_chebyshev RNum y x /\ 0 <= d_chebyshev RNum x y /\ d_chebyshev RNum x x = 0 /\
  Forall (fun t => t <= d_chebyshev RNum x y) (zipw (fun a b => Rabs (a - b)) x y).
Proof.
  rewrite !cheb_eq. split; [apply cheb_sym | split; [apply cheb_nonneg | split; [apply cheb_diag | apply rmaxl_dominates]]].
Qed.
Lemma tri_chebyshev (x y z : list R) : length x = length y -> length y = length z ->
  d_chebyshev RNum x z <= d_chebyshev RNum x y + d_chebyshev RNum y z.
Proof. rewrite !cheb_eq. apply cheb_triangle. Qed.

Lemma ax_minkowski (p : R) (x y : list R) : p <> 0 ->
  d_minkowski RNum p x y = d_minkowski RNum p y x /\ 0 <= d_minkowski RNum p x y /\ d_minkowski RNum p x x = 0.
Proof. intros Hp. rewrite !mink_eq. split; [apply mink_sym | split; [apply mink_nonneg | now apply mink_diag]]. Qed.

Lemma ax_seuclidean (V x y : list R) :
  d_seuclidean RNum V x y = d_seuclidean RNum V y x /\ 0 <= d_seuclidean RNum V x y /\ d_seuclidean RNum V x x = 0 /\
  (Forall (fun v => 0 < v) V -> exists r, 0 <= r /\ d_seuclidean RNum V x y = sqrt r).
Proof.
  rewrite !seuclid_eq. split; [apply seuclid_sym | split; [apply seuclid_nonneg | split; [apply seuclid_diag|]]].
  intros HV. eexists; split; [apply (seuclid_radicand_nonneg V x y HV) | reflexivity].
Qed.

Lemma ax_wminkowski (w : list R) (p : R) (x y : list R) : p <> 0 ->
  d_wminkowski RNum w p x y = d_wminkowski RNum w p y x /\ 0 <= d_wminkowski RNum w p x y /\ d_wminkowski RNum w p x x = 0.
Proof. intros Hp. rewrite !wmink_eq. split; [apply wmink_sym | split; [apply wmink_nonneg | now apply wmink_diag]]. Qed.

Lemma ax_mahalanobis (VI : list (list R)) (x y : list R) :
  d_mahalanobis RNum VI x y = d_mahalanobis RNum VI y x /\ 0 <= d_mahalanobis RNum VI x y /\ d_mahalanobis RNum VI x x = 0.
Proof. rewrite !mahal_eq. split; [apply mahal_sym | split; [apply mahal_nonneg | apply mahal_diag]]. Qed.

Lemma ax_canberra (x y : list R) :
  d_canberra RNum x y = d_canberra RNum y x /\ 0 <= d_canberra RNum x y /\ d_canberra RNum x x = 0.
Proof. rewrite !canb_eq. split; [apply canb_sym | split; [apply canb_nonneg | apply canb_diag]]. Qed.

Lemma ax_braycurtis (x y : list R) :
  d_braycurtis RNum x y = d_braycurtis RNum y x /\ 0 <= d_braycurtis RNum x y /\ d_braycurtis RNum x x = 0 /\
  (nonnegl x -> nonnegl y -> d_braycurtis RNum x y <= 1).
Proof. rewrite !bray_eq. split; [apply bray_sym | split; [apply bray_nonneg | split; [apply bray_diag | apply bray_le_1]]]. Qed.

Lemma ax_cosine (x y : list R) : length x = length y ->
  d_cosine RNum x y = d_cosine RNum y x /\ 0 <= d_cosine RNum x y <= 2 /\ d_cosine RNum x x = 0.
Proof. intros H. rewrite !cosine_eq. split; [apply cosine_sym | split; [now apply cosine_range | apply cosine_diag]]. Qed.

Lemma ax_correlation (x y : list R) : length x = length y ->
  d_correlation RNum x y = d_correlation RNum y x /\ 0 <= d_correlation RNum x y <= 2 /\ d_correlation RNum x x = 0.
Proof. intros H. rewrite !corr_eq. split; [apply corr_sym | split; [now apply corr_range | apply corr_diag]]. Qed.

Lemma ax_hellinger (x y : list R) : nonnegl x -> nonnegl y ->
  d_hellinger RNum x y = d_hellinger RNum y x /\ 0 <= d_hellinger RNum x y <= 1 /\ d_hellinger RNum x x = 0.
Proof. intros Hx Hy. rewrite !hell_eq. split; [apply hell_sym | split; [now apply hell_range | now apply hell_diag]]. Qed.
(* the clamp of the (repaired) code is never active over the reals: the radicand is non-negative by Cauchy-Schwarz *)
Lemma hellinger_radicand (x y : list R) : length x = length y -> nonnegl x -> nonnegl y -> vsum RNum x <> 0 -> vsum RNum y <> 0 ->
  0 <= 1 - Rbc x y / sqrt (vsum RNum x * vsum RNum y) /\
  d_hellinger RNum x y = sqrt (1 - Rbc x y / sqrt (vsum RNum x * vsum RNum y)).
Proof.
  intros HL Hx Hy Ex Ey. rewrite !vsum_rsum in *. rewrite hell_eq.
  pose proof (hell_clamp_inactive x y HL Hx Hy Ex Ey) as Hc. split.
  - rewrite <- Hc. apply clamp0_range.
    assert (0 < sqrt (rsum x * rsum y)) as Hs.
    { pose proof (rsum_nonneg x Hx). pose proof (rsum_nonneg y Hy). apply sqrt_lt_R0, Rmult_lt_0_compat; lra. }
    pose proof (div_nonneg _ _ (bc_nonneg x y) Hs). lra.
  - unfold Rhell. apply Reqb_false in Ex, Ey. rewrite Ex, Ey. simpl. now rewrite Hc.
Qed.

Lemma ax_haversine (x0 x1 y0 y1 : R) :
  exists v, d_haversine RNum RExt [x0; x1] [y0; y1] = Some v /\ d_haversine RNum RExt [y0; y1] [x0; x1] = Some v /\
            0 <= v <= PI /\ d_haversine RNum RExt [x0; x1] [x0; x1] = Some 0.
Proof.
  exists (Rhav x0 x1 y0 y1). rewrite !hav_eq. split; [reflexivity | split; [now rewrite hav_sym | split; [apply hav_range|]]].
  now rewrite hav_diag.
Qed.
(* on valid latitudes the arcsine's argument lies in [0,1]: the clamp of the repaired code is inactive over R *)
Lemma haversine_radicand (x0 x1 y0 y1 : R) : - (PI / 2) <= x0 <= PI / 2 -> - (PI / 2) <= y0 <= PI / 2 ->
  0 <= Rhav_arg x0 x1 y0 y1 <= 1 /\ d_haversine RNum RExt [x0; x1] [y0; y1] = Some (2 * asin (Rhav_arg x0 x1 y0 y1)).
Proof.
  intros Hx Hy. split.
  - split; [apply sqrt_pos|]. apply hav_arg_le_1; apply cos_ge_0; tauto.
  - rewrite hav_eq. f_equal. now apply hav_clamp_inactive.
Qed.
Lemma minkowski_p1 (x y : list R) : d_minkowski RNum 1 x y = d_manhattan RNum x y.
Proof. rewrite mink_eq, manh_eq. apply mink_1. Qed.
Lemma minkowski_p2 (x y : list R) : d_minkowski RNum 2 x y = d_euclidean RNum x y.
Proof. rewrite mink_eq, euclid_eq. apply mink_2. Qed.
Lemma haversine_dimension (x y : list R) : length x <> 2%nat -> d_haversine RNum RExt x y = None.
Proof. apply hav_none. Qed.

Lemma ax_poincare (u v : list R) : vsq RNum u < 1 -> vsq RNum v < 1 ->
  d_poincare RNum u v = d_poincare RNum v u /\ 0 <= d_poincare RNum u v /\ d_poincare RNum u u = 0.
Proof.
  rewrite !vsq_rsq. intros Hu Hv. rewrite !poinc_eq. split; [apply poinc_sym | split; [now apply poinc_nonneg | apply poinc_diag]].
Qed.

Lemma ax_symmetric_kl (z : R) (x y : list R) : 0 < z -> nonnegl x -> nonnegl y ->
  d_symmetric_kl RNum z x y = d_symmetric_kl RNum z y x /\ 0 <= d_symmetric_kl RNum z x y /\ d_symmetric_kl RNum z x x = 0.
Proof. intros Hz Hx Hy. rewrite !skl_eq. split; [apply skl_sym | split; [now apply skl_nonneg | now apply skl_diag]]. Qed.

(* ---- hamming -------------------------------------------------------------------------------------------- *)
Lemma ax_hamming (x y : list R) : length x = length y ->
  d_hamming RNum x y = d_hamming RNum y x /\ 0 <= d_hamming RNum x y <= 1 /\ d_hamming RNum x x = 0.
Proof. intros H. rewrite !hamm_eq. split; [now apply hamm_sym | split; [apply hamm_range | apply hamm_diag]]. Qed.
Lemma tri_hamming (x y z : list R) : length x = length y -> length y = length z ->
  d_hamming RNum x z <= d_hamming RNum x y + d_hamming RNum y z.
Proof. rewrite !hamm_eq. apply hamm_triangle. Qed.
Lemma hamming_on_booleans (x y : list R) : length x = length y -> boolvec x -> boolvec y ->
  d_hamming RNum x y = d_matching RNum x y.
Proof.
  intros HL Hx Hy. unfold d_hamming, d_matching. rewrite (hamm_binary x y Hx Hy).
  pose proof (counts_total x y HL) as Ht. destruct (counts RNum x y) as [[[ntt ntf] nft] nff].
  unfold b_matching. now rewrite Ht.
Qed.

(* ---- binary family ---------------------------------------------------------------------------------------- *)
(* shape: symmetric, within [0,B], zero on identical arguments, a function of the counts only *)
Definition binary_axioms (d : list R -> list R -> R) (B : R) : Prop :=
  forall x y : list R, length x = length y -> x <> [] ->
    d x y = d y x /\ 0 <= d x y <= B /\ d x x = 0 /\
    (forall x' y' : list R, counts RNum x' y' = counts RNum x y -> d x' y' = d x y).

Ltac bin_ax sym rng diag :=
  intros x y HL Hne; split; [apply lift_sym, sym | split; [apply rng; try apply counts_ok; try now apply total_pos
    | split; [apply lift_diag, diag | intros x' y' E; now rewrite E]]].

Lemma ax_jaccard : binary_axioms (d_jaccard RNum) 1.
Proof. unfold d_jaccard. bin_ax b_jaccard_sym b_jaccard_range b_jaccard_diag. Qed.
Lemma ax_matching : binary_axioms (d_matching RNum) 1.
Proof. unfold d_matching. bin_ax b_matching_sym b_matching_range b_matching_diag. Qed.
Lemma ax_dice : binary_axioms (d_dice RNum) 1.
Proof. unfold d_dice. bin_ax b_dice_sym b_dice_range b_dice_diag. Qed.
Lemma ax_kulsinski : binary_axioms (d_kulsinski RNum) 1.
Proof. unfold d_kulsinski. bin_ax b_kulsinski_sym b_kulsinski_range b_kulsinski_diag. Qed.
Lemma ax_rogerstanimoto : binary_axioms (d_rogerstanimoto RNum) 1.
Proof. unfold d_rogerstanimoto. bin_ax b_rogerstanimoto_sym b_rogerstanimoto_range b_rogerstanimoto_diag. Qed.
Lemma ax_russellrao : binary_axioms (d_russellrao RNum) 1.
Proof. unfold d_russellrao. bin_ax b_russellrao_sym b_russellrao_range b_russellrao_diag. Qed.
Lemma ax_sokalmichener : binary_axioms (d_sokalmichener RNum) 1.
Proof. unfold d_sokalmichener. bin_ax b_sokalmichener_sym b_sokalmichener_range b_sokalmichener_diag. Qed.
Lemma ax_sokalsneath : binary_axioms (d_sokalsneath RNum) 1.
Proof. unfold d_sokalsneath. bin_ax b_sokalsneath_sym b_sokalsneath_range b_sokalsneath_diag. Qed.
Lemma ax_yule : binary_axioms (d_yule RNum) 2.
Proof. unfold d_yule. bin_ax b_yule_sym b_yule_range b_yule_diag. Qed.

(* the counts see the vectors only through their truth values, coordinate by coordinate, in any order *)
Fixpoint cnt_pairs (l : list (R * R)) : counts4 :=
  match l with
  | [] => (0, 0, 0, 0)%Z
  | (a, b) :: l' =>
      let '(ntt, ntf, nft, nff) := cnt_pairs l' in
      match truthy RNum a, truthy RNum b with
      | true, true => (ntt + 1, ntf, nft, nff)
      | true, false => (ntt, ntf + 1, nft, nff)
      | false, true => (ntt, ntf, nft + 1, nff)
      | false, false => (ntt, ntf, nft, nff + 1)
      end%Z
  end.
Lemma counts_pairs (x y : list R) : counts RNum x y = cnt_pairs (combine x y).
Proof. revert y; induction x as [|a x IH]; intros [|b y]; simpl; auto. now rewrite IH. Qed.
Lemma cnt_pairs_perm l l' : Permutation l l' -> cnt_pairs l = cnt_pairs l'.
Proof.
  induction 1 as [| [a b] l l' _ IH | [a b] [c d] l | l l' l'' _ IH1 _ IH2]; simpl; auto.
  - now rewrite IH.
  - destruct (cnt_pairs l) as [[[ntt ntf] nft] nff].
    destruct (truthy RNum a), (truthy RNum b), (truthy RNum c), (truthy RNum d); f_equal; try (repeat f_equal; lia).
  - congruence.
Qed.
Theorem counts_permutation (x y x' y' : list R) :
  Permutation (combine x y) (combine x' y') -> counts RNum x y = counts RNum x' y'.
Proof. intros H. rewrite !counts_pairs. now apply cnt_pairs_perm. Qed.

(* ---- ll_dirichlet: symmetric (the other axioms are only observed on the implementation) ------------------ *)
Lemma log_beta_sym (a b : R) : log_beta RNum RExt a b = log_beta RNum RExt b a.
Proof.
  unfold log_beta. cbv zeta. change (ltb RNum) with Rltb. change (add RNum) with Rplus. change (sub RNum) with Rminus.
  destruct (Rltb b a) eqn:E1; destruct (Rltb a b) eqn:E2;
    try apply Rltb_true in E1; try apply Rltb_false in E1; try apply Rltb_true in E2; try apply Rltb_false in E2; try lra.
  - destruct (Rltb a (c5 RNum)); [reflexivity|]. rewrite (Rplus_comm b a). change (T RNum) with R in *; lra.
  - destruct (Rltb b (c5 RNum)); [reflexivity|]. rewrite (Rplus_comm b a). change (T RNum) with R in *; lra.
  - assert (a = b) as -> by lra. reflexivity.
Qed.
Definition lld_fB (a b : R) : R := if Rltb (c09 RNum) (a * b) then log_beta RNum RExt a b else 0.
Definition lld_f1 (a b : R) : R := if Rltb (c09 RNum) (a * b) || Rltb (c09 RNum) a then log_single_beta RNum RExt a else 0.
Definition lld_f2 (a b : R) : R := if Rltb (c09 RNum) (a * b) || Rltb (c09 RNum) b then log_single_beta RNum RExt b else 0.
Definition Rlld (x y : list R) : R :=
  1 / rsum y * (rsum (zipw lld_fB x y) - log_beta RNum RExt (rsum x) (rsum y) - (rsum (zipw lld_f2 x y) - log_single_beta RNum RExt (rsum y)))
  + 1 / rsum x * (rsum (zipw lld_fB x y) - log_beta RNum RExt (rsum y) (rsum x) - (rsum (zipw lld_f1 x y) - log_single_beta RNum RExt (rsum x))).
Lemma lld_eq (x y : list R) : lld_core RNum RExt x y = Rlld x y.
Proof. unfold lld_core. cbv zeta. rewrite !vsum_rsum. reflexivity. Qed.
Lemma lld_fB_flip x y : rsum (zipw lld_fB y x) = rsum (zipw lld_fB x y).
Proof. apply rsum_zipw_sym. intros a b. unfold lld_fB. now rewrite (Rmult_comm a b), (log_beta_sym a b). Qed.
Lemma lld_f12_flip x y : rsum (zipw lld_f1 y x) = rsum (zipw lld_f2 x y).
Proof. rewrite zipw_flip. f_equal. apply zipw_ext. intros a b. unfold lld_f1, lld_f2. now rewrite (Rmult_comm b a). Qed.
Lemma lld_f21_flip x y : rsum (zipw lld_f2 y x) = rsum (zipw lld_f1 x y).
Proof. rewrite zipw_flip. f_equal. apply zipw_ext. intros a b. unfold lld_f1, lld_f2. now rewrite (Rmult_comm b a). Qed.
Lemma ax_ll_dirichlet_sym (x y : list R) : d_ll_dirichlet RNum RExt x y = d_ll_dirichlet RNum RExt y x.
Proof.
  unfold d_ll_dirichlet. rewrite !lld_eq. do 2 f_equal. unfold Rlld.
  rewrite (lld_fB_flip x y), (lld_f12_flip x y), (lld_f21_flip x y). apply Rplus_comm.
Qed.

(* ---- non-vacuity / documentation examples ----------------------------------------------------------------- *)
Example ex_manhattan : d_manhattan RNum [1; 2] [3; 5] = 5.
Proof. rewrite manh_eq. unfold Rmanh. simpl. rewrite !Rabs_left by lra. lra. Qed.
Example ex_cosine_orthogonal : d_cosine RNum [1; 0] [0; 1] = 1.
Proof.
  rewrite cosine_eq. unfold Rcosine, rsq, rdot, Rcos_core. simpl.
  replace (1 * 1 + (0 * 0 + 0)) with 1 by ring. replace (0 * 0 + (1 * 1 + 0)) with 1 by ring.
  assert (Reqb 1 0 = false) as -> by (apply Reqb_false; lra). simpl.
  replace (1 * 0 + (0 * 1 + 0)) with 0 by ring. unfold Rdiv. ring.
Qed.
Example ex_cosine_zero_convention : d_cosine RNum [0; 0] [0; 1] = 1 /\ d_cosine RNum [0; 0] [0; 0] = 0.
Proof.
  rewrite !cosine_eq. unfold Rcosine, rsq. simpl.
  replace (0 * 0 + (0 * 0 + 0)) with 0 by ring. replace (0 * 0 + (1 * 1 + 0)) with 1 by ring.
  assert (Reqb 0 0 = true) as -> by now apply Reqb_true.
  assert (Reqb 1 0 = false) as -> by (apply Reqb_false; lra). simpl. auto.
Qed.
Lemma truthy_1 : truthy RNum 1 = true.
Proof. unfold truthy. change (eqb RNum 1 (zero RNum)) with (Reqb 1 0). assert (Reqb 1 0 = false) as -> by (apply Reqb_false; lra). reflexivity. Qed.
Lemma truthy_0 : truthy RNum 0 = false.
Proof. unfold truthy. change (eqb RNum 0 (zero RNum)) with (Reqb 0 0). assert (Reqb 0 0 = true) as -> by now apply Reqb_true. reflexivity. Qed.
Example ex_jaccard : d_jaccard RNum [1; 0; 1; 0] [1; 1; 0; 0] = 2 / 3.
Proof.
  unfold d_jaccard. cbn [counts]. rewrite truthy_1, truthy_0. cbn. lra.
Qed.
(* hamming compares values, so it is NOT a function of the counts on non-boolean data *)
Example hamming_not_counts : counts RNum [1] [2] = counts RNum [1] [1] /\ d_hamming RNum [1] [2] = 1 /\ d_hamming RNum [1] [1] = 0.
Proof.
  split; [|split].
  - cbn [counts]. rewrite truthy_1. unfold truthy. change (eqb RNum 2 (zero RNum)) with (Reqb 2 0).
    assert (Reqb 2 0 = false) as -> by (apply Reqb_false; lra). reflexivity.
  - rewrite hamm_eq. unfold Rhamm. simpl. assert (Reqb 1 2 = false) as -> by (apply Reqb_false; lra). simpl. lra.
  - rewrite hamm_eq. apply hamm_diag.
Qed.

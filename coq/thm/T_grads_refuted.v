(* C14 — refutations: gradients that are NOT the derivative of the distance they are returned with.
   [*_v0] is the behaviour of cosine / minkowski / weighted_minkowski / correlation / hellinger / bray_curtis
   gradients before the proposed repairs (proposed_fixes/C14_*.diff); symmetric_kl_grad and gaussian_energy_grad
   are the current code.  Each theorem exhibits a differentiable point, the true partial derivative of the
   returned distance there (an instance of the general theorem where there is one — which also shows those
   theorems' hypotheses are satisfiable), the returned gradient component, and a margin between the two.
   The same points are the harness's WITNESS cases (harness/c14.py), run on the real code first. *)
From Coq Require Import List ZArith Reals Lra Lia.
From Coquelicot Require Import Coquelicot.
From UV Require Import Num M_grads T_grads T_grads2 T_grads3.
Import ListNotations.
Local Open Scope R_scope.

Ltac absval := repeat match goal with
  | |- context [Rabs ?a] => first [rewrite (Rabs_right a) by lra | rewrite (Rabs_left a) by lra]
  end.
Ltac signval := repeat match goal with
  | |- context [sign ?a] => first [rewrite (sign_eq_1 a) by lra | rewrite (sign_eq_m1 a) by lra]
  end.

(* ---- cosine_grad before the repair returns the NEGATED derivative, at every point ---------------- *)
Lemma cosine_v0_same_distance x y : fst (cosine_grad_v0 RNum x y) = cosd x y.
Proof.
  unfold cosd, cosine_grad_v0, cosine_grad. destruct (cosine_sums RNum x y) as [[r nx] ny].
  destruct (eqb RNum nx (zero RNum) && eqb RNum ny (zero RNum))%bool; [reflexivity|].
  destruct (eqb RNum nx (zero RNum) || eqb RNum ny (zero RNum))%bool; reflexivity.
Qed.

Theorem cosine_grad_v0_negated : forall x y i, (i < length x)%nat -> (i < length y)%nat ->
  0 < Ssum Fxx x y -> 0 < Ssum Fyy x y ->
  let g := (nth i x 0 * Ssum Fxy x y - nth i y 0 * Ssum Fxx x y) / sqrt (Ssum Fxx x y * Ssum Fxx x y * Ssum Fxx x y * Ssum Fyy x y) in
  is_derive (fun t => fst (cosine_grad_v0 RNum (set_nth x i t) y)) (nth i x 0) g /\
  nth i (snd (cosine_grad_v0 RNum x y)) 0 = - g.
Proof.
  intros x y i Hx Hy Hnx Hny g. split.
  - apply (is_derive_ext (fun t => cosd (set_nth x i t) y)); [intros; symmetry; apply cosine_v0_same_distance|].
    apply cosine_grad_derive; assumption.
  - unfold g, cosine_grad_v0, cosine_sums. rewrite !acc2_Ssum. rn. cbn.
    change (fun a b : R => a * b) with Fxy. change (fun a _ : R => a * a) with Fxx. change (fun _ b : R => b * b) with Fyy.
    destruct (Reqb (Ssum Fyy x y) 0) eqn:Ey; [apply Reqb_true in Ey; lra|].
    destruct (Reqb (Ssum Fxx x y) 0) eqn:Ex; [apply Reqb_true in Ex; lra|].
    cbn [andb orb snd]. rewrite (nth_map2 _ 0) by assumption. rn. cbn. unfold Rdiv. ring.
Qed.

Theorem cosine_grad_v0_refuted :
  let x := [1; 0] in let y := [1; 1] in
  exists g, is_derive (fun t => fst (cosine_grad_v0 RNum (set_nth x 1 t) y)) (nth 1 x 0) g /\
            g = - / sqrt 2 /\ nth 1 (snd (cosine_grad_v0 RNum x y)) 0 = / sqrt 2 /\
            nth 1 (snd (cosine_grad_v0 RNum x y)) 0 - g > 1.
Proof.
  intros x y.
  assert (Hxx : Ssum Fxx x y = 1) by (unfold x, y, Fxx; simpl; ring).
  assert (Hyy : Ssum Fyy x y = 2) by (unfold x, y, Fyy; simpl; ring).
  assert (Hxy : Ssum Fxy x y = 1) by (unfold x, y, Fxy; simpl; ring).
  destruct (cosine_grad_v0_negated x y 1%nat) as [D G]; try (simpl; lia); try lra.
  rewrite Hxx, Hyy, Hxy in D, G. change (nth 1 x 0) with 0 in *. change (nth 1 y 0) with 1 in D, G.
  replace ((0 * 1 - 1 * 1) / sqrt (1 * 1 * 1 * 2)) with (- / sqrt 2) in D, G
    by (replace (1 * 1 * 1 * 2) with 2 by ring; unfold Rdiv; ring).
  exists (- / sqrt 2). split; [exact D | split; [reflexivity | split]].
  - rewrite G. rn. ring.
  - rewrite G. rn. assert (H1 : 1 < sqrt 2) by (rewrite <- sqrt_1 at 1; apply sqrt_lt_1_alt; lra).
    assert (H2 : sqrt 2 < 2).
    { replace 2 with (sqrt 4) at 2 by (replace 4 with (2 * 2) by ring; apply sqrt_square; lra). apply sqrt_lt_1_alt; lra. }
    assert (H3 : / 2 < / sqrt 2) by (apply Rinv_lt_contravar; lra). lra.
Qed.

(* ---- bray_curtis_grad before the repair: wrong where x_i + y_i < 0 -------------------------------- *)
Lemma bray_curtis_v0_same_distance x y : fst (bray_curtis_grad_v0 RNum x y) = bc x y.
Proof.
  unfold bc, bray_curtis_grad_v0, bray_curtis_grad. cbv zeta.
  destruct (ltb RNum (zero RNum) (acc2 RNum (fun a b : RNum => nabs RNum (add RNum a b)) x y)); reflexivity.
Qed.

Theorem bray_curtis_grad_v0_refuted :
  let x := [-2; 1] in let y := [-1; 3] in
  exists g, is_derive (fun t => fst (bray_curtis_grad_v0 RNum (set_nth x 0 t) y)) (nth 0 x 0) g /\
            g = - 4 / 49 /\ nth 0 (snd (bray_curtis_grad_v0 RNum x y)) 0 = - 10 / 49.
Proof.
  intros x y.
  assert (Hn : Ssum Fabs x y = 3) by (unfold x, y, Fabs; simpl; absval; lra).
  assert (Hd : Ssum Fabsp x y = 7) by (unfold x, y, Fabsp; simpl; absval; lra).
  destruct (bray_curtis_grad_derive x y 0%nat) as [D _]; try (simpl; lia); try (simpl; lra).
  rewrite bc_eq, Hn, Hd in D. change (nth 0 x 0) with (-2) in *. change (nth 0 y 0) with (-1) in D.
  exists (- 4 / 49). split; [| split; [reflexivity|]].
  - apply (is_derive_ext (fun t => bc (set_nth x 0 t) y)); [intros; symmetry; apply bray_curtis_v0_same_distance|].
    evar_last; [exact D|]. signval. lra.
  - assert (Hn' : acc2 RNum (fun a b : RNum => nabs RNum (sub RNum a b)) x y = 3) by (rewrite acc2_Ssum; exact Hn).
    assert (Hd' : acc2 RNum (fun a b : RNum => nabs RNum (add RNum a b)) x y = 7) by (rewrite acc2_Ssum; exact Hd).
    unfold bray_curtis_grad_v0. cbv zeta. rewrite Hn', Hd'.
    assert (E : ltb RNum (zero RNum) 7 = true) by (change (Rltb 0 7 = true); apply Rltb_true; lra). rewrite E.
    unfold x, y. cbn -[nsign]. rewrite nsign_sign. rn. signval. lra.
Qed.

(* ---- correlation_grad before the repair: multiplied by d instead of (1 - d) ------------------------- *)
Lemma corr_v0_unfold x y : correlation_grad_v0 RNum x y =
  if (Reqb (c_nx x y) 0 && Reqb (c_ny x y) 0)%bool then (0, map (fun _ => 0) x)
  else if Reqb (c_dp x y) 0 then (1, map (fun _ => 0) x)
  else (1 - c_dp x y / sqrt (c_nx x y * c_ny x y),
        map2 RNum (fun a b => ((a - c_mx x y) / c_nx x y - (b - c_my x y) / c_dp x y) * (1 - c_dp x y / sqrt (c_nx x y * c_ny x y))) x y).
Proof. unfold correlation_grad_v0, correlation_gen. cbv zeta. rewrite !acc2_Ssum. reflexivity. Qed.

Lemma corr_v0_same_distance x y : fst (correlation_grad_v0 RNum x y) = corr x y.
Proof.
  unfold corr. rewrite corr_v0_unfold, corr_unfold.
  destruct (Reqb (c_nx x y) 0 && Reqb (c_ny x y) 0)%bool; [reflexivity|].
  destruct (Reqb (c_dp x y) 0); reflexivity.
Qed.

Theorem correlation_grad_v0_refuted :
  let x := [-1; 0; 1] in let y := [2; -2; 0] in
  exists g, is_derive (fun t => fst (correlation_grad_v0 RNum (set_nth x 0 t) y)) (nth 0 x 0) g /\
            g = - 1 / 4 /\ nth 0 (snd (correlation_grad_v0 RNum x y)) 0 = 3 / 4.
Proof.
  intros x y.
  assert (Emx : c_mx x y = 0) by (unfold c_mx, c_n, x, y, Fx; simpl; lra).
  assert (Emy : c_my x y = 0) by (unfold c_my, c_n, x, y, Fy; simpl; lra).
  assert (Enx : c_nx x y = 2) by (unfold c_nx; rewrite Emx; unfold x, y; simpl; lra).
  assert (Eny : c_ny x y = 8) by (unfold c_ny; rewrite Emy; unfold x, y; simpl; lra).
  assert (Edp : c_dp x y = -2) by (unfold c_dp; rewrite Emx, Emy; unfold x, y; simpl; lra).
  assert (Es : sqrt (2 * 8) = 4) by (replace (2 * 8) with (4 * 4) by ring; apply sqrt_square; lra).
  assert (Ec : corr x y = 3 / 2) by (rewrite corr_eq by lra; rewrite Enx, Eny, Edp, Es; lra).
  destruct (correlation_grad_derive x y 0%nat) as [D _]; try (simpl; lia); try lra.
  rewrite Emx, Emy, Enx, Edp, Ec in D. change (nth 0 x 0) with (-1) in *. change (nth 0 y 0) with 2 in D.
  exists (- 1 / 4). split; [| split; [reflexivity|]].
  - apply (is_derive_ext (fun t => corr (set_nth x 0 t) y)); [intros; symmetry; apply corr_v0_same_distance|].
    evar_last; [exact D|]. lra.
  - rewrite corr_v0_unfold. rewrite Enx, Eny, Edp, Emx, Emy, Es.
    assert (E1 : Reqb 8 0 = false) by (apply Reqb_false; lra). assert (E2 : Reqb (-2) 0 = false) by (apply Reqb_false; lra).
    rewrite E1, E2, Bool.andb_false_r. unfold x, y. cbn. lra.
Qed.

(* ---- hellinger_grad before the repair: "y / grad_term * dist_denom" ---------------------------------- *)
Lemma hell_v0_same_distance x y : fst (hellinger_grad_v0 RNum x y) = hell x y.
Proof.
  unfold hell, hellinger_grad_v0, hellinger_grad, hellinger_gen. cbv zeta.
  match goal with |- context [if ?c then _ else _] => destruct c; [reflexivity|] end.
  match goal with |- context [if ?c then _ else _] => destruct c; reflexivity end.
Qed.

Theorem hellinger_grad_v0_refuted :
  let x := [1; 4] in let y := [4; 1] in
  exists g, is_derive (fun t => fst (hellinger_grad_v0 RNum (set_nth x 0 t) y)) (nth 0 x 0) g /\
            nth 0 (snd (hellinger_grad_v0 RNum x y)) 0 - g < - 49 / 10.
Proof.
  intros x y.
  assert (S4 : sqrt 4 = 2) by (replace 4 with (2 * 2) by ring; apply sqrt_square; lra).
  assert (S25 : sqrt (5 * 5) = 5) by (apply sqrt_square; lra).
  assert (Hr : Ssum Frt x y = 4).
  { unfold x, y, Frt; simpl. replace (1 * 4) with 4 by ring. replace (4 * 1) with 4 by ring. rewrite S4. ring. }
  assert (Hsx : Ssum Fx x y = 5) by (unfold x, y, Fx; simpl; ring).
  assert (Hsy : Ssum Fy x y = 5) by (unfold x, y, Fy; simpl; ring).
  set (D := sqrt (1 - 4 / 5)).
  assert (HD : 0 < D < 1).
  { unfold D. split; [apply sqrt_lt_R0; lra|]. rewrite <- sqrt_1 at 2. apply sqrt_lt_1_alt; lra. }
  assert (Eh : hell x y = D) by (rewrite hell_eq by lra; rewrite Hr, Hsx, Hsy, S25; reflexivity).
  destruct (hellinger_grad_derive x y 0%nat) as [Dv _]; try (simpl; lia); try (simpl; lra); try lra.
  { rewrite Hr, Hsx, Hsy, S25. lra. }
  rewrite Hr, Hsx, Hsy, S25, Eh in Dv. change (nth 0 x 0) with 1 in *. change (nth 0 y 0) with 4 in Dv.
  replace (1 * 4) with 4 in Dv by ring. rewrite S4 in Dv.
  eexists. split.
  - apply (is_derive_ext (fun t => hell (set_nth x 0 t) y)); [intros; symmetry; apply hell_v0_same_distance|]. exact Dv.
  - assert (A1 : acc2 RNum (fun a b : RNum => nsqrt RNum (mul RNum a b)) x y = 4) by (rewrite acc2_Ssum; exact Hr).
    assert (A2 : acc2 RNum (fun a _ : RNum => a) x y = 5) by (rewrite acc2_Ssum; exact Hsx).
    assert (A3 : acc2 RNum (fun _ b : RNum => b) x y = 5) by (rewrite acc2_Ssum; exact Hsy).
    unfold hellinger_grad_v0, hellinger_gen. cbv zeta. rewrite A1, A2, A3.
    assert (E : eqb RNum 5 (zero RNum) = false) by (change (Reqb 5 0 = false); apply Reqb_false; lra).
    rewrite E. cbn [andb orb snd]. unfold x, y. rewrite !two_R. rn. cbn.
    rewrite S25. replace (1 * 4) with 4 by ring. rewrite S4. fold D.
    assert (HD' : / D > 1) by (rewrite <- Rinv_1; apply Rinv_lt_contravar; lra).
    replace ((5 * 4 / (2 * (5 * 5 * 5)) - 4 / 2 * 5) / (2 * D) - (5 * 4 / (2 * (5 * 5 * 5)) - 4 / (2 * 2 * 5)) / (2 * D))
      with (- (49 / 10) * / D) by (field; lra).
    nra.
Qed.

(* ---- minkowski_grad / weighted_minkowski_grad before the repair: result^(1/(p-1)) ------------------- *)
Lemma Rpower_2_2 : Rpower 2 2 = 4.
Proof. replace 2 with (1 + 1) at 2 by ring. rewrite Rpower_plus, Rpower_1 by lra. ring. Qed.
Lemma Rpow_2_2 : Rpow 2 2 = 4.
Proof. rewrite Rpow_pos by lra. apply Rpower_2_2. Qed.
Lemma Rpow_0_2 : Rpow 0 2 = 0.
Proof. unfold Rpow. destruct (Req_EM_T 2 0); [lra|]. destruct (Rlt_dec 0 0); [lra | reflexivity]. Qed.
Lemma sqrt_4 : sqrt 4 = 2.
Proof. replace 4 with (2 * 2) by ring. apply sqrt_square; lra. Qed.
Lemma Rpower_4_mhalf : Rpower 4 (1 / 2 - 1) = / 2.
Proof. replace (1 / 2 - 1) with (- / 2) by lra. rewrite Rpower_Ropp, Rpower_sqrt, sqrt_4 by lra. reflexivity. Qed.

Theorem minkowski_grad_v0_refuted :
  let x := [2; 0] in let y := [0; 0] in
  exists g, is_derive (fun t => fst (minkowski_grad_v0 RNum (set_nth x 0 t) y 2)) (nth 0 x 0) g /\
            g = 1 /\ nth 0 (snd (minkowski_grad_v0 RNum x y 2)) 0 = 8.
Proof.
  intros x y.
  assert (Hres : Ssum (Fpw 2) x y = 4).
  { unfold x, y, Fpw; simpl. replace (2 - 0) with 2 by ring. replace (0 - 0) with 0 by ring.
    rewrite Rabs_R0, (Rabs_right 2) by lra. rewrite Rpow_2_2, Rpow_0_2. ring. }
  destruct (minkowski_grad_derive x y 2 0%nat) as [D _]; try (simpl; lia); try (simpl; lra); try lra.
  rewrite Hres in D. change (nth 0 x 0) with 2 in *. change (nth 0 y 0) with 0 in D.
  exists 1. split; [| split; [reflexivity|]].
  - change (is_derive (fun t => mink (set_nth x 0 t) y 2) 2 1). evar_last; [exact D|].
    replace (2 - 0) with 2 by ring. replace (2 - 1) with 1 by ring.
    rewrite (Rabs_right 2), Rpower_1, Rpower_4_mhalf, sign_eq_1 by lra. lra.
  - assert (A : acc2 RNum (fun a b : RNum => npow RNum (nabs RNum (sub RNum a b)) 2) x y = 4) by (rewrite acc2_Ssum; exact Hres).
    unfold minkowski_grad_v0. cbv zeta. rewrite A. unfold x, y. cbn -[usign Rpow].
    replace (2 - 0) with 2 by ring. replace (2 - 1) with 1 by ring. replace (1 / 1) with 1 by lra.
    rewrite (Rabs_right 2) by lra. rewrite !Rpow_pos by lra. rewrite !Rpower_1 by lra.
    rewrite usign_sign, sign_eq_1 by lra. rn. lra.
Qed.

Theorem weighted_minkowski_grad_v0_refuted :
  let x := [2; 0] in let y := [0; 0] in let w := [1; 1] in
  exists g, is_derive (fun t => fst (weighted_minkowski_grad_v0 RNum (set_nth x 0 t) y w 2)) (nth 0 x 0) g /\
            g = 1 /\ nth 0 (snd (weighted_minkowski_grad_v0 RNum x y w 2)) 0 = 8.
Proof.
  intros x y w.
  assert (Hres : Ssum (Fpw_w 2) x (combine y w) = 4).
  { unfold x, y, w, Fpw_w; simpl. replace (2 - 0) with 2 by ring. replace (0 - 0) with 0 by ring.
    rewrite Rabs_R0, (Rabs_right 2) by lra. rewrite Rpow_2_2, Rpow_0_2. ring. }
  destruct (weighted_minkowski_grad_derive x y w 2 0%nat) as [D _]; try (simpl; lia); try (simpl; lra); try lra.
  { unfold w. repeat constructor; lra. }
  rewrite Hres in D. change (nth 0 x 0) with 2 in *. change (nth 0 y 0) with 0 in D. change (nth 0 w 0) with 1 in D.
  exists 1. split; [| split; [reflexivity|]].
  - change (is_derive (fun t => wmink (set_nth x 0 t) y w 2) 2 1). evar_last; [exact D|].
    replace (2 - 0) with 2 by ring. replace (2 - 1) with 1 by ring.
    rewrite (Rabs_right 2), Rpower_1, Rpower_4_mhalf, sign_eq_1 by lra. lra.
  - unfold weighted_minkowski_grad_v0. cbv zeta.
    match goal with |- context [@acc2 ?N ?B ?f ?xx ?yy] =>
      assert (A : @acc2 N B f xx yy = 4) by (rewrite acc2_Ssum; exact Hres); rewrite !A end. unfold x, y, w. cbn -[usign Rpow].
    replace (2 - 0) with 2 by ring. replace (2 - 1) with 1 by ring. replace (1 / 1) with 1 by lra.
    rewrite (Rabs_right 2) by lra. rewrite !Rpow_pos by lra. rewrite !Rpower_1 by lra.
    rewrite usign_sign, sign_eq_1 by lra. rn. lra.
Qed.

(* ---- gaussian_energy_grad (current code): the width / height / angle components are not derivatives --- *)
Definition ge (x y : list R) : R := fst (gaussian_energy_grad RNum sin cos asin PI x y).

Lemma ge_line t : ge [0; 0; t; 1; 0] [1; 0; 1; 1; 0] = 1 / (Rabs t + 1) + ln (2 * (Rabs t + 1)) + ln (2 * PI).
Proof.
  cbv beta iota zeta delta [ge gaussian_energy_grad ge_normalise sq two eps32 eps8 add sub mul div neg nabs nsqrt nln ltb zero one of_Z RNum T].
  rewrite !sin_0, !asin_0, !sin_0, !cos_0, !Rabs_R1.
  set (A := Rabs t). assert (HA : 0 <= A) by apply Rabs_pos.
  repeat match goal with |- context [Rabs ?e] => replace e with (2 * (A + 1)) by ring end.
  rewrite (Rabs_right (2 * (A + 1))) by lra.
  assert (H32 : 1 / IZR (10 ^ 32) <= 1).
  { assert (1 <= IZR (10 ^ 32)) by (apply IZR_le; vm_compute; discriminate).
    unfold Rdiv. rewrite Rmult_1_l. rewrite <- Rinv_1. apply Rinv_le_contravar; lra. }
  destruct (Rltb (2 * (A + 1)) (1 / IZR (10 ^ 32))) eqn:E; [apply Rltb_true in E; lra|].
  cbv beta iota delta [fst]. replace (1 + 1) with 2 by ring.
  set (L1 := ln (2 * (A + 1))). set (L2 := ln (2 * PI)). field. lra.
Qed.

Theorem gaussian_energy_grad_refuted :
  let x := [0; 0; 1; 1; 0] in let y := [1; 0; 1; 1; 0] in
  exists g, is_derive (fun t => ge (set_nth x 2 t) y) (nth 2 x 0) g /\ g = 1 / 4 /\
            nth 2 (snd (gaussian_energy_grad RNum sin cos asin PI x y)) 0 < 0.
Proof.
  intros x y. exists (1 / 4). split; [| split; [reflexivity|]].
  - change (is_derive (fun t => ge [0; 0; t; 1; 0] [1; 0; 1; 1; 0]) 1 (1 / 4)).
    apply (is_derive_ext (fun t => 1 / (Rabs t + 1) + ln (2 * (Rabs t + 1)) + ln (2 * PI))); [intros; symmetry; apply ge_line|].
    auto_derive.
    + rewrite Rabs_R1. repeat split; lra.
    + rewrite Rabs_R1, sign_eq_1 by lra. lra.
  - unfold x, y.
    cbv beta iota zeta delta [gaussian_energy_grad ge_normalise sq two eps32 eps8 add sub mul div neg nabs nsqrt nln ltb zero one of_Z RNum T].
    rewrite !sin_0, !asin_0, !sin_0, !cos_0, !Rabs_R1.
    repeat match goal with |- context [Rabs ?e] => replace e with 4 by ring end.
    rewrite (Rabs_right 4) by lra.
    assert (H32 : 1 / IZR (10 ^ 32) <= 1).
    { assert (1 <= IZR (10 ^ 32)) by (apply IZR_le; vm_compute; discriminate).
      unfold Rdiv. rewrite Rmult_1_l. rewrite <- Rinv_1. apply Rinv_le_contravar; lra. }
    destruct (Rltb 4 (1 / IZR (10 ^ 32))) eqn:E; [apply Rltb_true in E; lra|].
    cbv beta iota delta [snd nth].
    match goal with |- ?n / ?d < 0 => replace n with (-4) by ring; assert (Hd : 0 < / d) by (apply Rinv_0_lt_compat; lra) end.
    unfold Rdiv. nra.
Qed.


(* ---- symmetric_kl_grad (current code): gradient w.r.t. the normalised y, normalisation ignored ------- *)
Definition skl (x y : list R) (z : R) : R := fst (symmetric_kl_grad RNum x y z).

Theorem symmetric_kl_grad_refuted :
  let x := [1 / 4; 3 / 4] in let y := [1 / 2; 1 / 2] in
  exists g, is_derive (fun t => skl (set_nth x 0 t) y 0) (nth 0 x 0) g /\ g < - 1 / 2 /\
            1 / 4 < nth 0 (snd (symmetric_kl_grad RNum x y 0)) 0.
Proof.
  intros x y.
  assert (L1 : ln (1 / 2) < 0) by (rewrite <- ln_1; apply ln_increasing; lra).
  assert (L2 : 0 < ln (3 / 2)) by (rewrite <- ln_1; apply ln_increasing; lra).
  assert (L3 : 0 < ln 2) by (rewrite <- ln_1; apply ln_increasing; lra).
  exists ((3 / 4 * ln (1 / 2) - 3 / 4 * ln (3 / 2) - 1) / 2). split; [| split].
  - change (is_derive (fun t => skl [t; 3 / 4] [1 / 2; 1 / 2] 0) (1 / 4) ((3 / 4 * ln (1 / 2) - 3 / 4 * ln (3 / 2) - 1) / 2)).
    cbv beta iota zeta delta [skl symmetric_kl_grad kl_normalise acc1 acc2 map2 map combine fold_left fst snd two add sub mul div neg nabs nsqrt nln ltb zero one of_Z RNum T].
    auto_derive.
    + repeat split; lra.
    + replace ((1 / 4 + 0) * / (0 + (1 / 4 + 0) + (3 / 4 + 0)) * / ((1 / 2 + 0) / (0 + (1 / 2 + 0) + (1 / 2 + 0)))) with (1 / 2) by (field; lra).
      replace ((3 / 4 + 0) * / (0 + (1 / 4 + 0) + (3 / 4 + 0)) * / ((1 / 2 + 0) / (0 + (1 / 2 + 0) + (1 / 2 + 0)))) with (3 / 2) by (field; lra).
      set (A := ln (1 / 2)). set (B := ln (3 / 2)). field.
  - lra.
  - unfold x, y.
    cbv beta iota zeta delta [symmetric_kl_grad kl_normalise acc1 acc2 map2 map combine fold_left fst snd nth two add sub mul div neg nabs nsqrt nln ltb zero one of_Z RNum T].
    replace ((1 / 2 + 0) / (0 + (1 / 2 + 0) + (1 / 2 + 0)) / ((1 / 4 + 0) / (0 + (1 / 4 + 0) + (3 / 4 + 0)))) with 2 by (field; lra).
    replace ((1 / 4 + 0) / (0 + (1 / 4 + 0) + (3 / 4 + 0)) / ((1 / 2 + 0) / (0 + (1 / 2 + 0) + (1 / 2 + 0)))) with (1 / 2) by (field; lra).
    lra.
Qed.

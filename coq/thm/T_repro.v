(* C06 theorems. *)
From Coq Require Import List ZArith Bool Arith Lia Permutation.
From UV Require Import M_sgd M_repro.
Import ListNotations.

Theorem seeded_is_serial n_jobs :
  (resolve_jobs true n_jobs = None \/ resolve_jobs true n_jobs = Some 1%Z) /\
  kernel_of (parallel_flag true) = Serial.
Proof.
  split; [|reflexivity]. unfold resolve_jobs.
  destruct ((n_jobs <? -1)%Z || (n_jobs =? 0)%Z); [now left|right].
  destruct (Z.eqb_spec n_jobs 1) as [->|H]; reflexivity.
Qed.

Theorem unseeded_keeps_jobs n_jobs : (n_jobs = -1 \/ 1 <= n_jobs)%Z -> resolve_jobs false n_jobs = Some n_jobs.
Proof.
  intros H. unfold resolve_jobs.
  assert (E: ((n_jobs <? -1)%Z || (n_jobs =? 0)%Z) = false).
  { apply orb_false_iff; split; [apply Z.ltb_ge|apply Z.eqb_neq]; lia. }
  rewrite E. now rewrite andb_false_r.
Qed.

(* ---- order independence of own-cell loops ---------------------------------------------------------- *)
Lemma length_upd {A} (l : list A) i v : length (upd l i v) = length l.
Proof. revert i; induction l as [|x l IH]; intros [|i]; simpl; auto. Qed.
Lemma nth_upd_same {A} (l : list A) i v d : i < length l -> nth i (upd l i v) d = v.
Proof. revert i; induction l as [|x l IH]; intros [|i] H; simpl in *; try lia; auto. apply IH; lia. Qed.
Lemma nth_upd_other {A} (l : list A) i j v d : i <> j -> nth i (upd l j v) d = nth i l d.
Proof. revert i j; induction l as [|x l IH]; intros [|i] [|j] H; simpl; auto; try lia. Qed.

Lemma par_for_length {A} (body : nat -> A) : forall order init, length (par_for order body init) = length init.
Proof. induction order as [|i order IH]; intros init; cbn; auto. unfold par_for in *. cbn. rewrite IH. apply length_upd. Qed.

Lemma par_for_nth {A} (body : nat -> A) d : forall order init j, j < length init ->
  nth j (par_for order body init) d = if in_dec Nat.eq_dec j order then body j else nth j init d.
Proof.
  induction order as [|i order IH]; intros init j Hj; [reflexivity|].
  unfold par_for in *. cbn [fold_left]. rewrite IH by (now rewrite length_upd).
  destruct (in_dec Nat.eq_dec j order) as [Hin|Hnin].
  - destruct (in_dec Nat.eq_dec j (i :: order)) as [_|Hn]; [reflexivity|exfalso; apply Hn; now right].
  - destruct (Nat.eq_dec i j) as [->|Hij].
    + rewrite nth_upd_same by assumption.
      destruct (in_dec Nat.eq_dec j (j :: order)) as [_|Hn]; [reflexivity|exfalso; apply Hn; now left].
    + rewrite nth_upd_other by auto.
      destruct (in_dec Nat.eq_dec j (i :: order)) as [[H|H]|_]; [contradiction|contradiction|reflexivity].
Qed.

(* every execution order that visits each index of 0..n-1 (in any order, even repeatedly) gives the same array *)
Theorem prange_order_irrelevant {A} (body : nat -> A) n order init :
  length init = n -> (forall j, j < n -> In j order) ->
  par_for order body init = map body (seq 0 n).
Proof.
  intros Hl Hall. apply nth_ext with (d := body 0) (d' := body 0).
  - rewrite par_for_length, map_length, seq_length. exact Hl.
  - intros j Hj. rewrite par_for_length, Hl in Hj.
    rewrite par_for_nth by lia.
    destruct (in_dec Nat.eq_dec j order) as [_|Hn]; [|exfalso; apply Hn, Hall, Hj].
    rewrite (map_nth body (seq 0 n) 0 j). now rewrite seq_nth.
Qed.

Corollary prange_permutation {A} (body : nat -> A) n order init :
  length init = n -> Permutation order (seq 0 n) -> par_for order body init = map body (seq 0 n).
Proof.
  intros Hl Hp. apply prange_order_irrelevant; auto.
  intros j Hj. eapply Permutation_in; [apply Permutation_sym, Hp|]. apply in_seq. lia.
Qed.

(* ---- row chunks of the chunked pairwise driver are disjoint and cover all rows --------------------- *)
Theorem chunks_disjoint c c' s R i : c <> c' -> in_chunk c s R i = true -> in_chunk c' s R i = false.
Proof.
  unfold in_chunk, chunk_lo, chunk_hi. intros Hc H.
  apply andb_true_iff in H as [H1 H2]. apply Nat.leb_le in H1. apply Nat.ltb_lt in H2.
  apply andb_false_iff.
  destruct (Nat.lt_ge_cases c c') as [Hlt|Hge].
  - left. apply Nat.leb_gt. assert (c * s + s <= c' * s) by nia. lia.
  - right. apply Nat.ltb_ge. assert (c' * s + s <= c * s) by nia. lia.
Qed.

Theorem chunks_cover s R i : 0 < s -> i < R -> in_chunk (i / s) s R i = true /\ i / s < R / s + 1.
Proof.
  intros Hs Hi. unfold in_chunk, chunk_lo, chunk_hi.
  pose proof (Nat.div_mod i s ltac:(lia)) as Hd. pose proof (Nat.mod_upper_bound i s ltac:(lia)) as Hm.
  split.
  - apply andb_true_iff; split; [apply Nat.leb_le|apply Nat.ltb_lt]; [nia|].
    apply Nat.min_glb_lt; [nia|lia].
  - assert (i / s <= R / s) by (apply Nat.div_le_mono; lia). lia.
Qed.

(* ---- the per-vertex generator state is a function of the seed words and the first coordinate only -- *)
Theorem rng_state_spec a b c bits :
  rng_state_of (a, b, c)%Z bits = (wrap64 (a + wrap64 bits), wrap64 (b + wrap64 bits), wrap64 (c + wrap64 bits))%Z.
Proof. reflexivity. Qed.

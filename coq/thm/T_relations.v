(* C19 theorems: expand_relations computes the compositions of the relation dictionaries (all
   sequences, all window sizes, all sample counts). *)
From Coq Require Import List Arith Bool Lia.
From UV Require Import M_relations.
Import ListNotations.

(* ---- small list facts -------------------------------------------------------------------------- *)
Lemma mapM_map_in {A B} (f : A -> option B) (g : A -> B) l :
  (forall a, In a l -> f a = Some (g a)) -> mapM f l = Some (map g l).
Proof.
  induction l as [|a r IH]; intros H; simpl; auto.
  rewrite (H a (or_introl eq_refl)), IH; auto. intros; apply H; now right.
Qed.

Lemma nth_error_seq0 n len : n < len -> nth_error (seq 0 len) n = Some n.
Proof.
  intros H. rewrite (nth_error_nth' (seq 0 len) 0) by (rewrite seq_length; lia).
  now rewrite seq_nth.
Qed.

Lemma nth_error_map_seq {B} (g : nat -> B) n len : n < len -> nth_error (map g (seq 0 len)) n = Some (g n).
Proof. intros H. apply map_nth_error. now apply nth_error_seq0. Qed.

Lemma repeat_map_seq {B} (b : B) n : repeat b n = map (fun _ => b) (seq 0 n).
Proof.
  assert (G: forall s, repeat b n = map (fun _ => b) (seq s n)); [|apply G].
  induction n; intros s; simpl; auto. now rewrite <- IHn.
Qed.

Lemma nth_error_rev {A} (l : list A) n : n < length l -> nth_error (rev l) n = nth_error l (length l - S n).
Proof.
  intros H. destruct l as [|d l']; [simpl in H; lia|].
  remember (d :: l') as l.
  rewrite (nth_error_nth' (rev l) d) by (rewrite rev_length; lia).
  rewrite (nth_error_nth' l d) by lia.
  now rewrite rev_nth.
Qed.

Lemma get_app d1 d2 k : get (d1 ++ d2) k = match get d1 k with Some x => Some x | None => get d2 k end.
Proof. induction d1 as [|[k' v] r IH]; simpl; auto. destruct (Nat.eqb k k'); auto. Qed.

Lemma get_In d k v : get d k = Some v -> In (k, v) d.
Proof.
  induction d as [|[k' v'] r IH]; simpl; [discriminate|].
  destruct (Nat.eqb_spec k k'); intros H.
  - inversion H; subst; now left.
  - right; auto.
Qed.

Lemma get_inv_In d k v : get_inv d v = Some k -> In (k, v) d.
Proof.
  induction d as [|[k' v'] r IH]; simpl; [discriminate|].
  destruct (Nat.eqb_spec v v'); intros H.
  - inversion H; subst; now left.
  - right; auto.
Qed.

Lemma get_inv_none d v : ~ In v (map snd d) -> get_inv d v = None.
Proof.
  induction d as [|[k' v'] r IH]; simpl; auto. intros H.
  destruct (Nat.eqb_spec v v'); [subst; tauto|]. apply IH; tauto.
Qed.

Lemma get_none d k : ~ In k (map fst d) -> get d k = None.
Proof.
  induction d as [|[k' v'] r IH]; simpl; auto. intros H.
  destruct (Nat.eqb_spec k k'); [subst; tauto|]. apply IH; tauto.
Qed.

(* the inverted dictionary looks up the (unique) preimage *)
Lemma get_invert d v : NoDup (map snd d) -> get (invert d) v = get_inv d v.
Proof.
  unfold invert. induction d as [|[k0 v0] r IH]; simpl; auto. intros ND.
  inversion ND as [|x l Hnin ND']; subst.
  rewrite get_app, IH by assumption. simpl.
  destruct (Nat.eqb_spec v v0).
  - subst. now rewrite get_inv_none.
  - now destruct (get_inv r v).
Qed.

(* injective: following a relation and then its inverse returns to the start, and conversely *)
Lemma get_get_inv d k v : NoDup (map snd d) -> get d k = Some v -> get_inv d v = Some k.
Proof.
  induction d as [|[k0 v0] r IH]; simpl; [discriminate|]. intros ND.
  inversion ND as [|x l Hnin ND']; subst.
  destruct (Nat.eqb_spec k k0); intros H.
  - inversion H; subst. now rewrite Nat.eqb_refl.
  - destruct (Nat.eqb_spec v v0).
    + subst. exfalso; apply Hnin. apply get_In in H. now apply (in_map snd) in H.
    + auto.
Qed.

Lemma get_inv_get d k v : NoDup (map fst d) -> get_inv d v = Some k -> get d k = Some v.
Proof.
  induction d as [|[k0 v0] r IH]; simpl; [discriminate|]. intros ND.
  inversion ND as [|x l Hnin ND']; subst.
  destruct (Nat.eqb_spec v v0); intros H.
  - inversion H; subst. now rewrite Nat.eqb_refl.
  - destruct (Nat.eqb_spec k k0).
    + subst. exfalso; apply Hnin. apply get_inv_In in H. now apply (in_map fst) in H.
    + auto.
Qed.

Lemma bindo_some m : bindo m Some = m.
Proof. now destruct m. Qed.

(* ---- sample indices stay below max_n_samples ----------------------------------------------------- *)
Lemma dmax_ge d k v : In (k, v) d -> k <= dmax d /\ v <= dmax d.
Proof.
  induction d as [|[k0 v0] r IH]; simpl; [tauto|]. intros [H|H].
  - inversion H; subst; lia.
  - apply IH in H; lia.
Qed.

Lemma max_n_samples_gt (ds : list dict) (d : dict) : In d ds -> dmax d < max_n_samples ds.
Proof.
  unfold max_n_samples. induction ds as [|d0 r IH]; simpl; [tauto|]. intros [H|H].
  - subst; lia.
  - apply IH in H; lia.
Qed.

Lemma get_lt (ds : list dict) i k v : i < length ds -> get (nth i ds []) k = Some v ->
  k < max_n_samples ds /\ v < max_n_samples ds.
Proof.
  intros Hi H. apply get_In in H. apply dmax_ge in H.
  pose proof (max_n_samples_gt ds (nth i ds []) (nth_In ds [] Hi)). lia.
Qed.

(* ---- the chains of the implementation are the compositions of the specification ----------------- *)
Definition cfwd (ds : list dict) (i j : nat) (m : cell) : cell :=
  match m with Some k => compose_fwd ds i j k | None => None end.
Definition cbwd (inv : dict -> nat -> option nat) (ds : list dict) (i j : nat) (m : cell) : cell :=
  match m with Some k => compose_bwd_with inv ds i j k | None => None end.

Lemma compose_fwd_shift (ds : list dict) i j k :
  compose_fwd ds i (S j) k = bindo (get (nth i ds []) k) (compose_fwd ds (S i) j).
Proof.
  induction j as [|j IH].
  - simpl. rewrite Nat.add_0_r. now rewrite bindo_some.
  - change (compose_fwd ds i (S (S j)) k) with (bindo (compose_fwd ds i (S j) k) (get (nth (i + S j) ds []))).
    rewrite IH. destruct (get (nth i ds []) k) as [x|]; simpl; auto.
    now rewrite Nat.add_succ_r.
Qed.

Lemma fwd_chain_spec (ds : list dict) : forall cnt i m, i + cnt <= length ds ->
  fwd_chain ds i cnt m = Some (cfwd ds i cnt m).
Proof.
  induction cnt as [|c IH]; intros i m H.
  - simpl. now destruct m.
  - simpl fwd_chain. rewrite (nth_error_nth' ds []) by lia.
    rewrite IH by lia. f_equal.
    destruct m as [k|]; simpl relstep; [|reflexivity].
    unfold cfwd at 2. rewrite compose_fwd_shift.
    now destruct (get (nth i ds []) k).
Qed.

Lemma compose_bwd_shift inv (ds : list dict) i' j m : j <= i' ->
  compose_bwd_with inv ds (S i') (S j) m = bindo (inv (nth i' ds []) m) (compose_bwd_with inv ds i' j).
Proof.
  induction j as [|j IH]; intros H.
  - simpl. rewrite Nat.sub_0_r. now rewrite bindo_some.
  - change (compose_bwd_with inv ds (S i') (S (S j)) m)
      with (bindo (compose_bwd_with inv ds (S i') (S j) m) (inv (nth (S i' - S (S j)) ds []))).
    rewrite IH by lia. destruct (inv (nth i' ds []) m) as [x|]; simpl; auto.
Qed.

Definition get_rev (d : dict) := get (invert d).

Lemma bwd_chain_spec (ds : list dict) : forall cnt i m, cnt <= i -> i <= length ds ->
  bwd_chain (map invert ds) i cnt m = Some (cbwd get_rev ds i cnt m).
Proof.
  induction cnt as [|c IH]; intros i m H1 H2.
  - simpl. now destruct m.
  - destruct i as [|i']; [lia|]. simpl bwd_chain.
    assert (E: nth_error (map invert ds) i' = Some (invert (nth i' ds []))).
    { apply map_nth_error. apply nth_error_nth'. lia. }
    rewrite E, IH by lia. f_equal.
    destruct m as [k|]; simpl relstep; [|reflexivity].
    unfold cbwd at 2. rewrite compose_bwd_shift by lia.
    unfold get_rev at 2. now destruct (get (invert (nth i' ds [])) k).
Qed.

(* under injectivity the implementation's inverted dictionaries compute the specification's inverse *)
Lemma compose_bwd_rev (ds : list dict) i j m : Forall injective ds ->
  compose_bwd_with get_rev ds i j m = compose_bwd ds i j m.
Proof.
  intros Hinj. unfold compose_bwd. induction j as [|j IH]; simpl; auto.
  rewrite IH. destruct (compose_bwd_with get_inv ds i j m) as [x|]; simpl; auto.
  unfold get_rev. apply get_invert.
  destruct (Nat.lt_ge_cases (i - S j) (length ds)) as [L|L].
  - rewrite Forall_forall in Hinj. apply (Hinj _ (nth_In ds [] L)).
  - rewrite nth_overflow by lia. constructor.
Qed.

(* ---- closed form of the tensor -------------------------------------------------------------------- *)
Definition fcell (rp : bool) (ds : list dict) (i j k : nat) : cell :=
  if fwd_guard rp i j (length ds) then None else compose_fwd ds i (j + 1) k.
Definition bcell (ds : list dict) (i t k : nat) : cell :=
  if Nat.leb i t then None else compose_bwd_with get_rev ds i (t + 1) k.

Definition rows_closed (rp : bool) (ds : list dict) (w ns i : nat) : list (list cell) :=
  rev (map (fun t => map (bcell ds i t) (seq 0 ns)) (seq 0 w)) ++ [repeat None ns] ++
  map (fun j => map (fcell rp ds i j) (seq 0 ns)) (seq 0 w).

Definition tensor_closed (rp : bool) (ds : list dict) (w : nat) : tensor :=
  map (rows_closed rp ds w (max_n_samples ds)) (seq 0 (length ds + 1)).

Lemma fwd_guard_false rp i j len : fwd_guard rp i j len = false -> i + (j + 1) <= len.
Proof.
  unfold fwd_guard. destruct rp; intros H.
  - apply Nat.ltb_ge in H; lia.
  - apply Nat.leb_gt in H; lia.
Qed.

Lemma fwd_row_closed rp ds ns i j :
  fwd_row rp ds ns i j = Some (map (fcell rp ds i j) (seq 0 ns)).
Proof.
  unfold fwd_row, fcell. destruct (fwd_guard rp i j (length ds)) eqn:G.
  - now rewrite repeat_map_seq.
  - apply mapM_map_in. intros n _. rewrite fwd_chain_spec by (now apply fwd_guard_false in G). reflexivity.
Qed.

Lemma bwd_row_closed ds ns i t : i <= length ds ->
  bwd_row (map invert ds) ns i t = Some (map (bcell ds i t) (seq 0 ns)).
Proof.
  intros Hi. unfold bwd_row, bcell. destruct (Nat.leb_spec i t).
  - now rewrite repeat_map_seq.
  - apply mapM_map_in. intros n _. rewrite bwd_chain_spec by lia. reflexivity.
Qed.

Lemma dataset_rows_closed rp ds w ns i : i <= length ds ->
  dataset_rows rp ds (map invert ds) w ns i = Some (rows_closed rp ds w ns i).
Proof.
  intros Hi. unfold dataset_rows, rows_closed.
  rewrite (mapM_map_in _ (fun t => map (bcell ds i t) (seq 0 ns))) by (intros; now apply bwd_row_closed).
  rewrite (mapM_map_in _ (fun j => map (fcell rp ds i j) (seq 0 ns))) by (intros; apply fwd_row_closed).
  reflexivity.
Qed.

Definition nonempty (ds : list dict) : Prop := ds <> [] /\ Forall (fun d => d <> []) ds.

Lemma nonempty_bool ds : nonempty ds -> is_empty ds || existsb is_empty ds = false.
Proof.
  intros [H1 H2]. apply orb_false_iff; split.
  - destruct ds; [congruence|reflexivity].
  - clear H1. induction H2 as [|d r Hd Hr IH]; simpl; auto. rewrite IH. destruct d; [congruence|reflexivity].
Qed.

(* every list index used by the loops is in range, and the tensor is the closed form *)
Lemma expand_gen_closed rp ds w : nonempty ds -> expand_gen rp ds w = Ok (tensor_closed rp ds w).
Proof.
  intros NE. unfold expand_gen. rewrite (nonempty_bool ds NE).
  rewrite (mapM_map_in _ (rows_closed rp ds w (max_n_samples ds))); [reflexivity|].
  intros i Hi. apply in_seq in Hi. apply dataset_rows_closed. lia.
Qed.

(* the model raises ValueError exactly when the sequence or one of its dictionaries is empty *)
Lemma expand_gen_error rp ds w : ~ nonempty ds -> expand_gen rp ds w = ValueErr.
Proof.
  intros H. unfold expand_gen.
  destruct (is_empty ds || existsb is_empty ds) eqn:E; [reflexivity|].
  exfalso; apply H. apply orb_false_iff in E. destruct E as [E1 E2]. split.
  - destruct ds; [discriminate|congruence].
  - apply Forall_forall. intros d Hd Hn. subst d.
    assert (X: existsb is_empty ds = true) by (apply existsb_exists; exists []; auto). congruence.
Qed.

(* entries of the closed form *)
Lemma rows_closed_length rp ds w ns i : length (rows_closed rp ds w ns i) = 2 * w + 1.
Proof. unfold rows_closed. rewrite !app_length, rev_length, !map_length, !seq_length. simpl. lia. Qed.

Lemma entry_fwd rp ds w i j k : i <= length ds -> j < w -> k < max_n_samples ds ->
  entry (tensor_closed rp ds w) i (w + S j) k = Some (fcell rp ds i j k).
Proof.
  intros Hi Hj Hk. unfold entry, tensor_closed.
  rewrite nth_error_map_seq by lia. unfold rows_closed.
  rewrite nth_error_app2 by (rewrite rev_length, map_length, seq_length; lia).
  rewrite rev_length, map_length, seq_length.
  replace (w + S j - w) with (S j) by lia. cbn [app nth_error].
  rewrite nth_error_map_seq by lia. now apply nth_error_map_seq.
Qed.

Lemma entry_bwd rp ds w i t k : i <= length ds -> t < w -> k < max_n_samples ds ->
  entry (tensor_closed rp ds w) i (w - S t) k = Some (bcell ds i t k).
Proof.
  intros Hi Ht Hk. unfold entry, tensor_closed.
  rewrite nth_error_map_seq by lia. unfold rows_closed.
  rewrite nth_error_app1 by (rewrite rev_length, map_length, seq_length; lia).
  rewrite nth_error_rev by (rewrite map_length, seq_length; lia).
  rewrite map_length, seq_length. replace (w - S (w - S t)) with t by lia.
  rewrite nth_error_map_seq by lia. now apply nth_error_map_seq.
Qed.

Lemma entry_centre rp ds w i k : i <= length ds -> k < max_n_samples ds ->
  entry (tensor_closed rp ds w) i w k = Some None.
Proof.
  intros Hi Hk. unfold entry, tensor_closed.
  rewrite nth_error_map_seq by lia. unfold rows_closed.
  rewrite nth_error_app2 by (rewrite rev_length, map_length, seq_length; lia).
  rewrite rev_length, map_length, seq_length, Nat.sub_diag. cbn [app nth_error].
  rewrite repeat_map_seq. now apply (nth_error_map_seq (fun _ : nat => @None nat)).
Qed.

(* ---- main theorems (repaired bound) ------------------------------------------------------------------ *)

(* shape (n_datasets, 2w+1, max_n_samples); no IndexError *)
Theorem expand_shape : forall (ds : list dict) w, nonempty ds ->
  exists T, expand ds w = Ok T /\ length T = length ds + 1 /\
    (forall rows, In rows T -> length rows = 2 * w + 1 /\
       forall row, In row rows -> length row = max_n_samples ds).
Proof.
  intros ds w NE. exists (tensor_closed true ds w). split; [now apply expand_gen_closed|].
  unfold tensor_closed. split; [now rewrite map_length, seq_length|].
  intros rows Hin. apply in_map_iff in Hin. destruct Hin as [i [E _]]. subst rows.
  split; [apply rows_closed_length|].
  intros row Hr. unfold rows_closed in Hr. rewrite !in_app_iff in Hr.
  destruct Hr as [Hr|[Hr|Hr]].
  - apply in_rev, in_map_iff in Hr. destruct Hr as [t [E _]]; subst. now rewrite map_length, seq_length.
  - destruct Hr as [E|[]]; subst. apply repeat_length.
  - apply in_map_iff in Hr. destruct Hr as [t [E _]]; subst. now rewrite map_length, seq_length.
Qed.

(* forward: inside the window and the sequence the entry is the composition of relations i .. i+t-1;
   beyond the last dataset it is -1 *)
Theorem expand_fwd_spec : forall (ds : list dict) w T i t k, nonempty ds -> expand ds w = Ok T ->
  1 <= t <= w -> i <= length ds -> k < max_n_samples ds ->
  entry T i (w + t) k = Some (if Nat.leb (i + t) (length ds) then compose_fwd ds i t k else None).
Proof.
  intros ds w T i t k NE E Ht Hi Hk. unfold expand in E. rewrite expand_gen_closed in E by assumption.
  inversion E; subst T. destruct t as [|j]; [lia|].
  rewrite entry_fwd by lia. unfold fcell, fwd_guard.
  replace (j + 1) with (S j) by lia. replace (i + j + 1) with (i + S j) by lia.
  destruct (Nat.leb_spec (i + S j) (length ds)); destruct (Nat.ltb_spec (length ds) (i + S j)); auto; lia.
Qed.

(* backward: inside the window and the sequence the entry is the composition of the inverses of
   relations i-1 .. i-t; before the first dataset it is -1 *)
Theorem expand_bwd_spec : forall (ds : list dict) w T i t k, nonempty ds -> Forall injective ds -> expand ds w = Ok T ->
  1 <= t <= w -> i <= length ds -> k < max_n_samples ds ->
  entry T i (w - t) k = Some (if Nat.leb t i then compose_bwd ds i t k else None).
Proof.
  intros ds w T i t k NE Hinj E Ht Hi Hk. unfold expand in E. rewrite expand_gen_closed in E by assumption.
  inversion E; subst T. destruct t as [|j]; [lia|].
  rewrite entry_bwd by lia. unfold bcell.
  replace (j + 1) with (S j) by lia.
  destruct (Nat.leb_spec (S j) i); destruct (Nat.leb_spec i j); auto; try lia.
  now rewrite compose_bwd_rev.
Qed.

(* the spec-level round trip: k --relations i..i+t-1--> m  implies  m --inverses--> k *)
Lemma compose_roundtrip (ds : list dict) : Forall injective ds -> forall t i k m, i + t <= length ds ->
  compose_fwd ds i t k = Some m -> compose_bwd ds (i + t) t m = Some k.
Proof.
  intros Hinj. unfold compose_bwd. induction t as [|t IH]; intros i k m Hl H.
  - simpl in *. congruence.
  - simpl in H. destruct (compose_fwd ds i t k) as [x|] eqn:Ex; [|discriminate]. simpl in H.
    replace (i + S t) with (S (i + t)) by lia. rewrite compose_bwd_shift by lia.
    assert (Hd: injective (nth (i + t) ds [])).
    { rewrite Forall_forall in Hinj. apply Hinj, nth_In. lia. }
    rewrite (get_get_inv _ _ _ (proj2 Hd) H). simpl. apply IH; [lia|assumption].
Qed.

Lemma compose_roundtrip_back (ds : list dict) : Forall injective ds -> forall t i k m, t <= i -> i <= length ds ->
  compose_bwd ds i t m = Some k -> compose_fwd ds (i - t) t k = Some m.
Proof.
  intros Hinj. unfold compose_bwd. induction t as [|t IH]; intros i k m Ht Hl H.
  - simpl in *. congruence.
  - destruct i as [|i']; [lia|]. rewrite compose_bwd_shift in H by lia.
    destruct (get_inv (nth i' ds []) m) as [x|] eqn:Ex; [|discriminate]. simpl in H.
    assert (Hd: injective (nth i' ds [])).
    { rewrite Forall_forall in Hinj. apply Hinj, nth_In. lia. }
    apply (get_inv_get _ _ _ (proj1 Hd)) in Ex.
    apply IH in H; [|lia|lia]. simpl Nat.sub.
    change (compose_fwd ds (i' - t) (S t) k) with (bindo (compose_fwd ds (i' - t) t k) (get (nth (i' - t + t) ds []))).
    rewrite H. simpl. now replace (i' - t + t) with i' by lia.
Qed.

Lemma compose_fwd_lt (ds : list dict) : forall t i k m, 1 <= t -> i + t <= length ds ->
  compose_fwd ds i t k = Some m -> m < max_n_samples ds.
Proof.
  intros t i k m Ht Hl H. destruct t as [|t]; [lia|]. simpl in H.
  destruct (compose_fwd ds i t k) as [x|]; [|discriminate]. simpl in H.
  apply get_lt in H; [tauto|lia].
Qed.

(* tensor-level round trip: k of dataset i related forward to m of dataset i+t
   ==> m related backward (by t) to k *)
Theorem fwd_bwd_roundtrip : forall (ds : list dict) w T i t k m, nonempty ds -> Forall injective ds -> expand ds w = Ok T ->
  1 <= t <= w -> i <= length ds -> k < max_n_samples ds ->
  entry T i (w + t) k = Some (Some m) ->
  i + t <= length ds /\ m < max_n_samples ds /\ entry T (i + t) (w - t) m = Some (Some k).
Proof.
  intros ds w T i t k m NE Hinj E Ht Hi Hk H.
  rewrite (expand_fwd_spec ds w T i t k NE E Ht Hi Hk) in H.
  destruct (Nat.leb_spec (i + t) (length ds)) as [L|L]; [|discriminate].
  inversion H as [H']. clear H.
  assert (Hm: m < max_n_samples ds) by (apply (compose_fwd_lt ds t i k m); lia || assumption).
  repeat split; auto.
  rewrite (expand_bwd_spec ds w T (i + t) t m NE Hinj E Ht L Hm).
  destruct (Nat.leb_spec t (i + t)); [|lia].
  f_equal. now apply compose_roundtrip.
Qed.

(* and conversely *)
Theorem bwd_fwd_roundtrip : forall (ds : list dict) w T i t k m, nonempty ds -> Forall injective ds -> expand ds w = Ok T ->
  1 <= t <= w -> i <= length ds -> m < max_n_samples ds ->
  entry T i (w - t) m = Some (Some k) ->
  t <= i /\ entry T (i - t) (w + t) k = Some (Some m).
Proof.
  intros ds w T i t k m NE Hinj E Ht Hi Hm H.
  rewrite (expand_bwd_spec ds w T i t m NE Hinj E Ht Hi Hm) in H.
  destruct (Nat.leb_spec t i) as [L|L]; [|discriminate].
  inversion H as [H']. clear H. split; auto.
  pose proof (compose_roundtrip_back ds Hinj t i k m L Hi H') as F.
  assert (Hk: k < max_n_samples ds).
  { destruct t as [|t]; [lia|]. rewrite compose_fwd_shift in F.
    destruct (get (nth (i - S t) ds []) k) as [x|] eqn:Ex; [|discriminate].
    apply get_lt in Ex; [tauto|lia]. }
  rewrite (expand_fwd_spec ds w T (i - t) t k NE E Ht) by (lia || assumption).
  replace (i - t + t) with i by lia.
  destruct (Nat.leb_spec i (length ds)); [|lia]. now f_equal.
Qed.

(* nothing is dropped at the ends of the sequence: every item (k, m) of every relation dictionary —
   the last one included — appears forward in dataset i and backward in dataset i+1 *)
Theorem no_end_drop : forall (ds : list dict) w T i k m, nonempty ds -> Forall injective ds -> expand ds w = Ok T ->
  1 <= w -> i < length ds -> get (nth i ds []) k = Some m ->
  entry T i (w + 1) k = Some (Some m) /\ entry T (i + 1) (w - 1) m = Some (Some k).
Proof.
  intros ds w T i k m NE Hinj E Hw Hi H.
  destruct (get_lt ds i k m Hi H) as [Hk Hm].
  assert (F: entry T i (w + 1) k = Some (Some m)).
  { rewrite (expand_fwd_spec ds w T i 1 k NE E) by (lia || assumption).
    destruct (Nat.leb_spec (i + 1) (length ds)); [|lia].
    simpl. now rewrite Nat.add_0_r, H. }
  split; auto.
  apply (fwd_bwd_roundtrip ds w T i 1 k m NE Hinj E); auto; lia.
Qed.

(* the centre column is never written *)
Theorem expand_centre : forall (ds : list dict) w T i k, nonempty ds -> expand ds w = Ok T ->
  i <= length ds -> k < max_n_samples ds -> entry T i w k = Some None.
Proof.
  intros ds w T i k NE E Hi Hk. unfold expand in E. rewrite expand_gen_closed in E by assumption.
  inversion E; subst T. now apply entry_centre.
Qed.

(* ---- the original bound `>=` (documented defect) ------------------------------------------------------ *)

(* on the original code every forward relation that ends in the last dataset is dropped,
   for all sequences and windows *)
Theorem orig_drops_last_dataset : forall (ds : list dict) w T i t k, nonempty ds -> expand_orig ds w = Ok T ->
  1 <= t <= w -> i + t = length ds -> k < max_n_samples ds ->
  entry T i (w + t) k = Some None.
Proof.
  intros ds w T i t k NE E Ht Hi Hk. unfold expand_orig in E. rewrite expand_gen_closed in E by assumption.
  inversion E; subst T. destruct t as [|j]; [lia|].
  rewrite entry_fwd by lia. unfold fcell, fwd_guard.
  destruct (Nat.leb_spec (length ds) (i + j + 1)); [reflexivity|lia].
Qed.

(* witness: two datasets, one relation {0: 0}, window 1 — dataset 0 has no forward relation at all *)
Theorem expand_fwd_spec_refuted :
  exists ds w T i t k, nonempty ds /\ Forall injective ds /\ expand_orig ds w = Ok T /\
    1 <= t <= w /\ i + t <= length ds /\ k < max_n_samples ds /\
    entry T i (w + t) k <> Some (compose_fwd ds i t k).
Proof.
  exists [[(0, 0)]], 1, [[[None]; [None]; [None]]; [[Some 0]; [None]; [None]]], 0, 1, 0.
  repeat split; try (simpl; lia); try discriminate.
  - repeat constructor; discriminate.
  - repeat constructor; simpl; tauto.
  - repeat constructor; simpl; tauto.
Qed.

(* non-vacuity: three datasets, window 2, a two-step forward relation into the last dataset *)
Lemma relations_nonvacuous :
  let ds := [[(0, 1); (1, 0)]; [(0, 0); (1, 2)]] in
  nonempty ds /\ Forall injective ds /\
  exists T, expand ds 2 = Ok T /\ entry T 0 4 0 = Some (Some 2) /\ entry T 2 0 2 = Some (Some 0).
Proof.
  split; [|split].
  - split; [discriminate|]. repeat constructor; discriminate.
  - repeat constructor; simpl; intuition discriminate.
  - eexists. split; [vm_compute; reflexivity|]. split; reflexivity.
Qed.

(* C08 / C09: theorems about the buffer machine of model/M_alias.v. *)
From Coq Require Import List Bool Arith Lia.
From UV Require Import M_alias.
Import ListNotations.

(* ======================================================================================================= *)
(* names                                                                                                     *)
Lemma attr_code_inj a b : attr_code a = attr_code b -> a = b.
Proof. destruct a, b; simpl; intro H; try discriminate; reflexivity. Qed.
Lemma cvar_code_inj a b : cvar_code a = cvar_code b -> a = b.
Proof. destruct a, b; simpl; intro H; try discriminate; reflexivity. Qed.

Lemma name_eqb_eq x y : name_eqb x y = true <-> x = y.
Proof.
  destruct x, y; simpl; split; intro H; try discriminate; try congruence.
  - apply Nat.eqb_eq in H. f_equal. now apply cvar_code_inj.
  - inversion H. apply Nat.eqb_refl.
  - apply andb_true_iff in H. destruct H as [H1 H2]. apply Nat.eqb_eq in H1, H2. f_equal; auto using attr_code_inj.
  - inversion H. rewrite !Nat.eqb_refl. reflexivity.
  - apply Nat.eqb_eq in H. congruence.
  - inversion H. apply Nat.eqb_refl.
Qed.
Lemma name_eqb_refl x : name_eqb x x = true.
Proof. now apply name_eqb_eq. Qed.
Lemma name_eqb_neq x y : x <> y -> name_eqb x y = false.
Proof. intro H. destruct (name_eqb x y) eqn:E; auto. apply name_eqb_eq in E. contradiction. Qed.

(* ======================================================================================================= *)
(* running programs                                                                                          *)
Lemma run_app p q s : run (p ++ q) s = runo q (run p s).
Proof. revert s. induction p as [|o p IH]; intro s; simpl; auto. destruct (step o s); simpl; auto. Qed.

Lemma analyse_app p q fr : analyse_prog fr (p ++ q) = safe_from (analyse_prog fr p) q.
Proof. revert fr. induction p as [|o p IH]; intro fr; simpl; auto. destruct (analyse fr o); simpl; auto. Qed.

(* ======================================================================================================= *)
(* finite attribute spaces are complete                                                                      *)
Lemma bools_all b : In b bools. Proof. destruct b; simpl; auto. Qed.
Lemma metrics_all x : In x all_metrics. Proof. destruct x; simpl; auto. Qed.
Lemma targets_all x : In x all_targets. Proof. destruct x; simpl; auto. Qed.
Lemma inits_all x : In x all_inits. Proof. destruct x as [|[]]; simpl; auto. Qed.
Lemma okinds_all x : In x all_okinds. Proof. destruct x; simpl; auto. Qed.
Lemma facts_all f : In f all_facts. Proof. destruct f as [[]]; simpl; auto. Qed.

Ltac pick v lem := apply in_flat_map; exists v; split; [apply lem|].
Lemma gcfg_all g : In g all_gcfg.
Proof.
  destruct g as [a b c d e h i j k n]. unfold all_gcfg.
  pick a bools_all. pick b bools_all. pick c bools_all. pick d metrics_all. pick e bools_all. pick h bools_all.
  pick i bools_all. pick j bools_all. pick k targets_all. apply in_map. apply bools_all.
Qed.
Lemma lcfg_all l : In l all_lcfg.
Proof.
  destruct l as [a b c d]. unfold all_lcfg.
  pick a inits_all. pick b bools_all. pick c bools_all. apply in_map. apply bools_all.
Qed.
Lemma tcfg_all t : In t all_tcfg.
Proof.
  destruct t as [a b c d e]. unfold all_tcfg.
  pick a bools_all. pick b bools_all. pick c bools_all. pick d bools_all. apply in_map. apply bools_all.
Qed.
Lemma ucfg_all u : In u all_ucfg.
Proof.
  destruct u as [a b c d]. unfold all_ucfg.
  pick a bools_all. pick b bools_all. pick c bools_all. apply in_map. apply bools_all.
Qed.

(* the bound of the finite checks below *)
Lemma attribute_space_size :
  length all_facts = 2 /\ length all_gcfg = 2304 /\ length all_lcfg = 24 /\ length all_tcfg = 32 /\ length all_ucfg = 16.
Proof. vm_compute. repeat split. Qed.

(* ======================================================================================================= *)
(* C08                                                                                                       *)
Definition old_tocoo : fixes := mkFixes false true true true.   (* the code before feb32e9 *)

Lemma c08_all_cur : forallb (fun c => c08_all cur (fst c) (snd c)) (list_prod all_facts all_gcfg) = true.
Proof. vm_compute. reflexivity. Qed.

Lemma c08_ok_cur f g l : c08_ok cur f g l = true.
Proof.
  pose proof c08_all_cur as H. rewrite forallb_forall in H.
  specialize (H (f, g) (proj2 (in_prod_iff all_facts all_gcfg f g) (conj (facts_all f) (gcfg_all g)))). simpl in H.
  unfold c08_all in H. unfold c08_ok. destruct (run (graph_stage f cur 0 g) init_state) as [s1|]; [|discriminate].
  rewrite forallb_forall in H. exact (H l (lcfg_all l)).
Qed.

Lemma cell_eqb_eq x y : cell_eqb x y = true -> x = y.
Proof.
  destruct x as [lx [vx cx zx ox]], y as [ly [vy cy zy oy]]. unfold cell_eqb. simpl.
  rewrite !andb_true_iff. intros [[[[H1 H2] H3] H4] H5].
  apply Nat.eqb_eq in H1, H2. apply Bool.eqb_prop in H3, H4. subst.
  destruct ox, oy; try discriminate; reflexivity.
Qed.
Lemma view_eqb_eq a b : view_eqb a b = true -> exists v, a = Some v /\ b = Some v.
Proof.
  destruct a as [[[a1 a2] a3]|], b as [[[b1 b2] b3]|]; simpl; try discriminate.
  rewrite !andb_true_iff. intros [[H1 H2] H3]. apply cell_eqb_eq in H1, H2, H3. subst. eexists; split; reflexivity.
Qed.

(* the graph stage is a function of the graph-stage attributes only; fit = graph stage ; layout stage *)
Theorem graph_stage_ignores_layout_params : forall f fx m g l,
  fit_prog f fx m g l = graph_stage f fx m g ++ layout_stage f fx m g l.
Proof. reflexivity. Qed.

(* the layout stage leaves graph_'s three buffers as the graph stage produced them: same locations, versions, flags;
   every one of the 2 x 2304 x 24 valuations (attribute_space_size) *)
Theorem layout_preserves_graph : forall f g l, exists s1 s2 v,
  run (graph_stage f cur 0 g) init_state = Some s1 /\ run (fit_prog f cur 0 g l) init_state = Some s2 /\
  graph_view s1 0 = Some v /\ graph_view s2 0 = Some v.
Proof.
  intros f g l. pose proof (c08_ok_cur f g l) as H. unfold c08_ok in H.
  destruct (run (graph_stage f cur 0 g) init_state) as [s1|] eqn:E1; [|discriminate].
  destruct (run (layout_stage f cur 0 g l) s1) as [s2|] eqn:E2; [|discriminate].
  apply andb_true_iff in H. destruct H as [H _]. apply view_eqb_eq in H. destruct H as [v [Hv1 Hv2]].
  exists s1, s2, v. repeat split; auto. unfold fit_prog. rewrite run_app, E1. exact E2.
Qed.

(* hence two fits that differ only in layout-stage attributes end with the same graph buffers *)
Theorem graph_independent_of_layout : forall f g l1 l2, exists s2 s2' v,
  run (fit_prog f cur 0 g l1) init_state = Some s2 /\ run (fit_prog f cur 0 g l2) init_state = Some s2' /\
  graph_view s2 0 = Some v /\ graph_view s2' 0 = Some v.
Proof.
  intros f g l1 l2.
  destruct (layout_preserves_graph f g l1) as [s1 [s2 [v [E1 [E2 [V1 V2]]]]]].
  destruct (layout_preserves_graph f g l2) as [s1' [s2' [v' [E1' [E2' [V1' V2']]]]]].
  rewrite E1 in E1'. inversion E1'; subst s1'. rewrite V1 in V1'. inversion V1'; subst v'.
  exists s2, s2', v. auto.
Qed.

(* no explicitly stored zeros after fit (every valuation), after update, after the combination operators *)
Lemma c08_others_cur :
  forallb (fun f => forallb (fun u => c08_update_ok cur f u) all_ucfg
                    && forallb (fun k => forallb (fun w => c08_combine_ok cur f k w) bools) all_okinds) all_facts = true.
Proof. vm_compute. reflexivity. Qed.

Theorem no_stored_zeros :
  (forall f g l, exists s, run (fit_prog f cur 0 g l) init_state = Some s /\ graph_zeros s 0 = Some false) /\
  (forall f u, c08_update_ok cur f u = true) /\
  (forall f k w, c08_combine_ok cur f k w = true).
Proof.
  split; [|split].
  - intros f g l. pose proof (c08_ok_cur f g l) as H. unfold c08_ok in H.
    destruct (run (graph_stage f cur 0 g) init_state) as [s1|] eqn:E1; [|discriminate].
    destruct (run (layout_stage f cur 0 g l) s1) as [s2|] eqn:E2; [|discriminate].
    apply andb_true_iff in H. destruct H as [_ H]. exists s2. split.
    + unfold fit_prog. rewrite run_app, E1. exact E2.
    + unfold no_zeros in H. destruct (graph_zeros s2 0) as [[]|]; try discriminate. reflexivity.
  - intros f u. pose proof c08_others_cur as H. rewrite forallb_forall in H. specialize (H f (facts_all f)).
    apply andb_true_iff in H. destruct H as [H _]. rewrite forallb_forall in H. exact (H u (ucfg_all u)).
  - intros f k w. pose proof c08_others_cur as H. rewrite forallb_forall in H. specialize (H f (facts_all f)).
    apply andb_true_iff in H. destruct H as [_ H]. rewrite forallb_forall in H. specialize (H k (okinds_all k)).
    rewrite forallb_forall in H. exact (H w (bools_all w)).
Qed.

(* the code before feb32e9 (graph.tocoo() without copy=True): fine exactly when SciPy's tocoo copies ... *)
Lemma c08_all_old_if_copy :
  forallb (fun g => c08_all old_tocoo (mkFacts false) g) all_gcfg = true.
Proof. vm_compute. reflexivity. Qed.
Theorem layout_preserves_graph_old_if_tocoo_copies : forall g l, c08_ok old_tocoo (mkFacts false) g l = true.
Proof.
  intros g l. pose proof c08_all_old_if_copy as H. rewrite forallb_forall in H. specialize (H g (gcfg_all g)).
  unfold c08_all in H. unfold c08_ok. destruct (run (graph_stage (mkFacts false) old_tocoo 0 g) init_state); [|discriminate].
  rewrite forallb_forall in H. exact (H l (lcfg_all l)).
Qed.
(* ... and broken under the probed SciPy behaviour (tocoo shares) as soon as the CSR is canonical and an edge is pruned:
   the version of graph_.data is bumped by the layout stage and it holds explicit zeros *)
Definition g_plain : gcfg := mkG false true true MNamed false false false true TNone true.
Definition l_plain : lcfg := mkL IString true false true.
Theorem layout_preserves_graph_refuted : exists s1 s2,
  run (graph_stage (mkFacts true) old_tocoo 0 g_plain) init_state = Some s1 /\
  run (fit_prog (mkFacts true) old_tocoo 0 g_plain l_plain) init_state = Some s2 /\
  graph_canon s1 0 = Some true /\
  lookup (env s2) (Attr 0 GData) = lookup (env s1) (Attr 0 GData) /\
  ver_of s1 (Attr 0 GData) = Some 1 /\ ver_of s2 (Attr 0 GData) = Some 2 /\
  graph_zeros s1 0 = Some false /\ graph_zeros s2 0 = Some true.
Proof. eexists. eexists. vm_compute. repeat split. Qed.

(* ======================================================================================================= *)
(* frame: soundness of the static analysis, for every state                                                  *)
Definition finv (n0 : nat) (fr : list name) (e : list (name * nat)) : Prop :=
  forall x, mem x fr = true -> exists l, lookup e x = Some l /\ n0 <= l.

Lemma mem_remove y x fr : mem y (remove x fr) = true -> name_eqb y x = false /\ mem y fr = true.
Proof.
  induction fr as [|z fr IH]; simpl; [discriminate|].
  destruct (name_eqb x z) eqn:E.
  - intro H. destruct (IH H) as [H1 H2]. split; auto. rewrite H2. apply orb_true_r.
  - simpl. intro H. apply orb_true_iff in H. destruct H as [H|H].
    + split; [|rewrite H; reflexivity]. apply name_eqb_eq in H. subst z.
      destruct (name_eqb y x) eqn:E2; auto. apply name_eqb_eq in E2. subst. rewrite name_eqb_refl in E. discriminate.
    + destruct (IH H) as [H1 H2]. split; auto. rewrite H2. apply orb_true_r.
Qed.

(* a new binding x -> l, where l is a new-enough location whenever the analysis marks x fresh *)
Lemma finv_rebind n0 fr e x l b : finv n0 fr e -> (b = true -> n0 <= l) -> finv n0 (rebind fr x b) ((x, l) :: e).
Proof.
  intros Hinv Hl y Hy. unfold rebind in Hy. simpl.
  destruct (b && is_tmp x) eqn:Eb.
  - simpl in Hy. destruct (name_eqb y x) eqn:E.
    + exists l. split; auto. apply Hl. apply andb_true_iff in Eb. tauto.
    + simpl in Hy. exact (Hinv y Hy).
  - apply mem_remove in Hy. destruct Hy as [H1 H2]. rewrite H1. exact (Hinv y H2).
Qed.
(* re-binding a name to a new location keeps every tracked name fresh *)
Lemma finv_shadow n0 fr e x l : finv n0 fr e -> n0 <= l -> finv n0 fr ((x, l) :: e).
Proof.
  intros Hinv Hl y Hy. simpl. destruct (name_eqb y x); [exists l; auto | exact (Hinv y Hy)].
Qed.

Lemma upd_length {A} (h : list A) l c : length (upd h l c) = length h.
Proof. revert l. induction h; intros [|l]; simpl; auto. Qed.
Lemma upd_other {A} (h : list A) l c k : k <> l -> nth_error (upd h l c) k = nth_error h k.
Proof.
  revert l k. induction h as [|a h IH]; intros [|l] [|k] H; simpl; auto; try (exfalso; apply H; reflexivity).
Qed.

Definition heap_kept (n0 : nat) (h h' : list cell) : Prop :=
  n0 <= length h' /\ forall k, k < n0 -> nth_error h' k = nth_error h k.

Lemma kept_same n0 h : n0 <= length h -> heap_kept n0 h h.
Proof. split; auto. Qed.
Lemma kept_app n0 h c : n0 <= length h -> heap_kept n0 h (h ++ [c]).
Proof. intro H. split. rewrite app_length; lia. intros k Hk. apply nth_error_app1. lia. Qed.
Lemma kept_upd n0 h l c : n0 <= length h -> n0 <= l -> heap_kept n0 h (upd h l c).
Proof. intros H Hl. split. rewrite upd_length; auto. intros k Hk. apply upd_other. lia. Qed.

Ltac inv H := inversion H; subst; clear H.

Lemma step_sound n0 fr o s s' fr' :
  n0 <= length (heap s) -> finv n0 fr (env s) -> analyse fr o = Some fr' -> step o s = Some s' ->
  heap_kept n0 (heap s) (heap s') /\ finv n0 fr' (env s').
Proof.
  intros Hn Hinv Ha Hs.
  destruct o; simpl in Ha, Hs.
  - (* Alloc *) inv Ha. inv Hs. simpl. split. apply kept_app; auto. apply finv_rebind; auto.
  - (* Alias *) inv Ha. destruct (lookup (env s) y) as [l|] eqn:El; [|discriminate]. inv Hs. simpl.
    split. apply kept_same; auto. apply finv_rebind; auto.
    intro Hm. destruct (Hinv y Hm) as [l' [H1 H2]]. congruence.
  - (* View *) inv Ha. destruct (lookup (env s) y) as [l|] eqn:El; [|discriminate]. inv Hs. simpl.
    split. apply kept_same; auto. apply finv_rebind; auto.
    intro Hm. destruct (Hinv y Hm) as [l' [H1 H2]]. congruence.
  - (* Copy *) inv Ha. destruct (cell_of s y); [|discriminate]. inv Hs. simpl.
    split. apply kept_app; auto. apply finv_rebind; auto.
  - (* Read *) inv Ha. destruct (cell_of s x); [|discriminate]. inv Hs. split. apply kept_same; auto. auto.
  - (* WriteInPlace *) destruct (mem x fr) eqn:Em; [|discriminate]. inv Ha.
    destruct (Hinv x Em) as [l [H1 H2]]. rewrite H1 in Hs. destruct (cell_at s l); [|discriminate]. inv Hs. simpl.
    split. apply kept_upd; auto. auto.
  - (* ToCoo *) inv Ha. destruct (lookup (env s) y) as [l|] eqn:El; [|discriminate].
    destruct (cell_at s l); [|discriminate]. inv Hs. destruct copy; simpl.
    + split. apply kept_app; auto. apply finv_rebind; auto.
    + split. apply kept_same; auto. apply finv_rebind; auto.
      intro Hm. destruct (Hinv y Hm) as [l' [H1 H2]]. congruence.
  - (* SumDuplicates *) inv Ha. destruct (cell_of s x) as [c|]; [|discriminate]. inv Hs. destruct (canon c); simpl.
    + split. apply kept_same; auto. auto.
    + split. apply kept_app; auto. apply finv_shadow; auto.
  - (* EliminateZeros *) destruct inplace.
    + destruct (mem x fr) eqn:Em; [|discriminate]. inv Ha.
      destruct (Hinv x Em) as [l [H1 H2]]. rewrite H1 in Hs. destruct (cell_at s l) as [c|]; [|discriminate]. inv Hs.
      destruct (zeros c); simpl. split. apply kept_upd; auto. auto. split. apply kept_same; auto. auto.
    + inv Ha. destruct (lookup (env s) x) as [l|]; [|discriminate]. destruct (cell_at s l); [|discriminate]. inv Hs. simpl.
      split. apply kept_app; auto. apply finv_rebind; auto.
  - (* CheckArray *) inv Ha. destruct (lookup (env s) y) as [l|] eqn:El; [|discriminate].
    destruct (cell_at s l); [|discriminate]. inv Hs. destruct conforms; simpl.
    + split. apply kept_same; auto. apply finv_rebind; auto.
      intro Hm. destruct (Hinv y Hm) as [l' [H1 H2]]. congruence.
    + split. apply kept_app; auto. apply finv_rebind; auto.
  - (* AsType *) inv Ha. destruct (lookup (env s) y) as [l|] eqn:El; [|discriminate].
    destruct (cell_at s l); [|discriminate]. inv Hs. destruct (copy || negb same) eqn:Ec; simpl.
    + split. apply kept_app; auto. apply finv_rebind; auto.
    + split. apply kept_same; auto. apply finv_rebind; auto.
      intro Hm. destruct (Hinv y Hm) as [l' [H1 H2]]. congruence.
  - (* SortIndices *) destruct sorted; simpl in Ha.
    + inv Ha. destruct (lookup (env s) x) as [l|]; [|discriminate]. destruct (cell_at s l); [|discriminate]. inv Hs.
      split. apply kept_same; auto. auto.
    + destruct (mem x fr) eqn:Em; [|discriminate]. inv Ha.
      destruct (Hinv x Em) as [l [H1 H2]]. rewrite H1 in Hs. destruct (cell_at s l); [|discriminate]. inv Hs. simpl.
      split. apply kept_upd; auto. auto.
Qed.

Lemma run_sound n0 p : forall fr s s' fr',
  n0 <= length (heap s) -> finv n0 fr (env s) -> analyse_prog fr p = Some fr' -> run p s = Some s' ->
  heap_kept n0 (heap s) (heap s').
Proof.
  induction p as [|o p IH]; intros fr s s' fr' Hn Hinv Ha Hr; simpl in Ha, Hr.
  - inv Hr. apply kept_same; auto.
  - destruct (analyse fr o) as [fr1|] eqn:Ea; [|discriminate]. destruct (step o s) as [s1|] eqn:Es; [|discriminate].
    destruct (step_sound n0 fr o s s1 fr1 Hn Hinv Ea Es) as [[K1 K2] Hinv1].
    destruct (IH fr1 s1 s' fr' K1 Hinv1 Ha Hr) as [K3 K4].
    split; auto. intros k Hk. rewrite K4, K2; auto.
Qed.

(* no buffer that existed before a statically safe program started is written by it *)
Definition heap_frame (s s' : state) : Prop := forall l c, cell_at s l = Some c -> cell_at s' l = Some c.

Theorem safe_frame p s s' : safe p = true -> run p s = Some s' -> heap_frame s s'.
Proof.
  unfold safe. intros Hs Hr. destruct (analyse_prog [] p) as [fr'|] eqn:Ea; [|discriminate].
  assert (Hinv : finv (length (heap s)) [] (env s)) by (intros x Hx; discriminate).
  destruct (run_sound (length (heap s)) p [] s s' fr' (le_n _) Hinv Ea Hr) as [K1 K2].
  intros l c Hc. unfold cell_at in *. rewrite K2; auto. apply nth_error_Some. congruence.
Qed.

Lemma heap_frame_refl s : heap_frame s s. Proof. intros l c H; exact H. Qed.
Lemma heap_frame_trans s1 s2 s3 : heap_frame s1 s2 -> heap_frame s2 s3 -> heap_frame s1 s3.
Proof. intros H1 H2 l c H. apply H2, H1, H. Qed.

(* bindings of names a program does not bind are kept *)
Lemma step_lookup_other o s s' y : step o s = Some s' -> ~ In y (binds_op o) -> lookup (env s') y = lookup (env s) y.
Proof.
  intros Hs Hy.
  assert (K : forall x l, ~ In y [x] -> lookup ((x, l) :: env s) y = lookup (env s) y).
  { intros x l H. simpl. rewrite name_eqb_neq; auto. intro; subst; apply H; left; reflexivity. }
  destruct o; simpl in Hs, Hy;
    repeat match type of Hs with
           | context [match ?e with _ => _ end] => destruct e eqn:?; try discriminate
           end; inv Hs; simpl; auto; try (apply K; auto).
Qed.
Lemma run_lookup_other p : forall s s' y, run p s = Some s' -> ~ In y (binds p) -> lookup (env s') y = lookup (env s) y.
Proof.
  induction p as [|o p IH]; intros s s' y Hr Hy; simpl in Hr.
  - inv Hr. reflexivity.
  - destruct (step o s) as [s1|] eqn:Es; [|discriminate]. unfold binds in Hy. simpl in Hy.
    rewrite in_app_iff in Hy. rewrite (IH s1 s' y Hr); [|intro; apply Hy; right; assumption].
    apply (step_lookup_other o s s1 y Es). intro; apply Hy; left; assumption.
Qed.
Lemma in_bound_models p m a : In (Attr m a) (binds p) -> In m (bound_models p).
Proof. unfold bound_models. intro H. apply in_flat_map. exists (Attr m a). split; auto. left; reflexivity. Qed.
Lemma in_bound_attrs p m a : In (Attr m a) (binds p) -> In a (bound_attrs p).
Proof. unfold bound_attrs. intro H. apply in_flat_map. exists (Attr m a). split; auto. left; reflexivity. Qed.
Lemma not_binds_caller p c : binds_caller p = false -> ~ In (Caller c) (binds p).
Proof.
  unfold binds_caller. intros H Hin. assert (E : existsb (fun x => match x with Caller _ => true | _ => false end) (binds p) = true).
  { apply existsb_exists. exists (Caller c). split; auto. } congruence.
Qed.

(* ======================================================================================================= *)
(* C08, for every state: the layout stage writes no existing buffer and rebinds no graph attribute          *)
Lemma layout_stage_safe : forall m f g l, safe (layout_stage f cur m g l) = true.
Proof. intros m [[]] g [[|[]] [] [] []]; destruct g as [? ? ? ? ? ? [] ? ? ?]; vm_compute; reflexivity. Qed.
Lemma layout_stage_binds : forall m f g l, forallb (fun a => match a with Embedding => true | _ => false end)
                                                    (bound_attrs (layout_stage f cur m g l)) = true
                                            /\ binds_caller (layout_stage f cur m g l) = false.
Proof. intros m [[]] g [[|[]] [] [] []]; destruct g as [? ? ? ? ? ? [] ? ? ?]; vm_compute; split; reflexivity. Qed.

Theorem layout_stage_frame : forall f m g l s s',
  run (layout_stage f cur m g l) s = Some s' ->
  heap_frame s s' /\
  (forall m' a, a <> Embedding -> lookup (env s') (Attr m' a) = lookup (env s) (Attr m' a)).
Proof.
  intros f m g l s s' Hr. split.
  - exact (safe_frame _ s s' (layout_stage_safe m f g l) Hr).
  - intros m' a Ha. apply (run_lookup_other _ s s' _ Hr). intro Hin. apply in_bound_attrs in Hin.
    destruct (layout_stage_binds m f g l) as [Hb _]. rewrite forallb_forall in Hb. specialize (Hb a Hin).
    destruct a; try discriminate. apply Ha; reflexivity.
Qed.

(* ======================================================================================================= *)
(* C09: read-only operations                                                                                 *)
Lemma transform_safe m f t : safe (transform_prog f cur m t) = true.
Proof. destruct f as [[]], t as [[] [] [] [] []]; vm_compute; reflexivity. Qed.
Lemma inverse_safe m c : safe (inverse_prog m c) = true.
Proof. destruct c; vm_compute; reflexivity. Qed.
Lemma combine_safe f k a b r w : safe (combine_prog f cur k a b r w) = true.
Proof. destruct f as [[]], k, w; vm_compute; reflexivity. Qed.
Lemma update_safe m f u : safe (update_prog f cur m u) = true.
Proof. destruct f as [[]], u as [[] [] [] []]; vm_compute; reflexivity. Qed.

Lemma rop_safe f o : safe (rop_prog f cur o) = true.
Proof. destruct o; simpl; auto using transform_safe, inverse_safe, combine_safe. Qed.

Lemma transform_binds m f t : bound_models (transform_prog f cur m t) = [] /\ binds_caller (transform_prog f cur m t) = false.
Proof. destruct f as [[]], t as [[] [] [] [] []]; vm_compute; split; reflexivity. Qed.
Lemma inverse_binds m c : bound_models (inverse_prog m c) = [] /\ binds_caller (inverse_prog m c) = false.
Proof. destruct c; vm_compute; split; reflexivity. Qed.
Lemma combine_binds f k a b r w : (forall m, In m (bound_models (combine_prog f cur k a b r w)) -> m = r)
                                   /\ binds_caller (combine_prog f cur k a b r w) = false.
Proof. destruct f as [[]], k, w; vm_compute; split; auto; intros m H; repeat (destruct H as [H|H]; [auto|]); contradiction. Qed.

(* protected: every buffer that exists (embedding_, graph_ data / indices / indptr, _raw_data, _sigmas, _rhos, kNN tables of every
   model, and the caller's arrays) keeps its cell - version, flags, owner -, every attribute of a model that is not the result of a
   combination keeps its binding, and so does every caller variable *)
Definition protected_unchanged (rs : list nat) (s s' : state) : Prop :=
  heap_frame s s' /\
  (forall m a, ~ In m rs -> lookup (env s') (Attr m a) = lookup (env s) (Attr m a)) /\
  (forall c, lookup (env s') (Caller c) = lookup (env s) (Caller c)).

Lemma rop_frame f o s s' : run (rop_prog f cur o) s = Some s' -> protected_unchanged (result_of o) s s'.
Proof.
  intro Hr. split; [exact (safe_frame _ s s' (rop_safe f o) Hr)|]. split.
  - intros m a Hm. apply (run_lookup_other _ s s' _ Hr). intro Hin. apply in_bound_models in Hin.
    destruct o as [m0 t|m0 c|k a0 b0 r w]; unfold rop_prog in Hin.
    + destruct (transform_binds m0 f t) as [H _]. rewrite H in Hin. contradiction.
    + destruct (inverse_binds m0 c) as [H _]. rewrite H in Hin. contradiction.
    + destruct (combine_binds f k a0 b0 r w) as [H _]. apply H in Hin. subst. apply Hm. left; reflexivity.
  - intro c. apply (run_lookup_other _ s s' _ Hr). apply not_binds_caller.
    destruct o as [m0 t|m0 c0|k a0 b0 r w]; unfold rop_prog.
    + apply transform_binds. + apply inverse_binds. + apply combine_binds.
Qed.

Lemma run_rops_none f fx ops : fold_left (rop_step f fx) ops None = None.
Proof. induction ops; simpl; auto. Qed.

(* every sequence of read-only operations, every valuation of each, every starting state *)
Theorem readonly_ops_frame : forall f ops s s',
  run_rops f cur ops s = Some s' -> protected_unchanged (results ops) s s'.
Proof.
  intros f ops. induction ops as [|o ops IH]; intros s s' H; unfold run_rops in H; simpl in H.
  - inv H. split; [apply heap_frame_refl|split; reflexivity].
  - destruct (run (rop_prog f cur o) s) as [s1|] eqn:E1; [|rewrite run_rops_none in H; discriminate].
    destruct (rop_frame f o s s1 E1) as [A1 [A2 A3]]. destruct (IH s1 s' H) as [B1 [B2 B3]].
    split; [exact (heap_frame_trans _ _ _ A1 B1)|]. split.
    + intros m a Hm. unfold results in Hm. simpl in Hm. rewrite in_app_iff in Hm.
      rewrite B2, A2; auto.
    + intro c. rewrite B3, A3. reflexivity.
Qed.

(* non-vacuity: a concrete history (two fits, then transform, inverse_transform, +, *, -, transforms) runs; a combined model has no
   _raw_data, so transform of a combination result is stuck in the machine as it raises in the source *)
Example readonly_history_runs : exists s0 s',
  runo (fit0 (mkFacts true) cur 1) (run (fit0 (mkFacts true) cur 0) init_state) = Some s0 /\
  run_rops (mkFacts true) cur
    [RTransform 0 (mkT true false false true true); RInverse 0 false; RCombine OAdd 0 1 2 true; RCombine OMul 0 2 3 true;
     RCombine OSub 3 1 4 true; RTransform 1 (mkT false false false false true); RTransform 1 (mkT true true false false false)] s0 = Some s' /\
  ver_of s' (Attr 0 GData) = ver_of s0 (Attr 0 GData) /\ ver_of s' (Attr 0 Embedding) = Some 0 /\
  same_buffer s' tRes (Attr 1 Embedding) = true.
Proof. eexists. eexists. vm_compute. repeat split. Qed.

(* ---- caller arrays: fit / transform / update ----------------------------------------------------------- *)
Lemma fit_safe_cur m : forallb (fun c => fit_safe_all cur m (fst c) (snd c)) (list_prod all_facts all_gcfg) = true.
Proof. vm_compute. reflexivity. Qed.

Lemma fit_safe m f g l : sort_safe g = true -> safe (fit_prog f cur m g l) = true.
Proof.
  intro Hs. pose proof (fit_safe_cur m) as H. rewrite forallb_forall in H.
  specialize (H (f, g) (proj2 (in_prod_iff all_facts all_gcfg f g) (conj (facts_all f) (gcfg_all g)))). cbn [fst snd] in H.
  unfold fit_safe_all in H. rewrite Hs in H. cbn [implb] in H.
  unfold safe, fit_prog. rewrite analyse_app.
  destruct (analyse_prog [] (graph_stage f cur m g)) as [fr|]; [|discriminate]. cbn [safe_from].
  rewrite forallb_forall in H. specialize (H l (lcfg_all l)).
  destruct (analyse_prog fr (layout_stage f cur m g l)); [reflexivity|discriminate].
Qed.

Lemma fit_binds_caller m f g l : binds_caller (fit_prog f cur m g l) = false.
Proof.
  unfold binds_caller, fit_prog, binds. rewrite flat_map_app, existsb_app.
  replace (existsb _ (flat_map binds_op (layout_stage f cur m g l))) with false
    by (symmetry; apply (layout_stage_binds m f g l)).
  rewrite orb_false_r.
  destruct f as [[]], g as [[] [] [] [] [] [] [] [] [] []]; vm_compute; reflexivity.
Qed.
Lemma update_binds_caller m f u : binds_caller (update_prog f cur m u) = false.
Proof. destruct f as [[]], u as [[] [] [] []]; vm_compute; reflexivity. Qed.

(* fit, transform and update write no buffer that existed when they were called - in particular none owned by the caller
   (X, y, init, the precomputed_knn arrays, the array given to transform / update) - and do not rebind the caller's variables.
   For fit the one exception of the source is stated as the hypothesis [sort_safe]: a CSR matrix that needs no conversion but
   whose indices are unsorted is sorted in place (X.sort_indices(), 2480); see fit_sorts_caller_csr_in_place. *)
Theorem caller_arrays_frame : forall f m s s',
  (forall g l, sort_safe g = true -> run (fit_prog f cur m g l) s = Some s' ->
     (forall l0 c, cell_at s l0 = Some c -> own c = OCaller -> cell_at s' l0 = Some c) /\
     (forall cv, lookup (env s') (Caller cv) = lookup (env s) (Caller cv))) /\
  (forall t, run (transform_prog f cur m t) s = Some s' ->
     (forall l0 c, cell_at s l0 = Some c -> own c = OCaller -> cell_at s' l0 = Some c) /\
     (forall cv, lookup (env s') (Caller cv) = lookup (env s) (Caller cv))) /\
  (forall u, run (update_prog f cur m u) s = Some s' ->
     (forall l0 c, cell_at s l0 = Some c -> own c = OCaller -> cell_at s' l0 = Some c) /\
     (forall cv, lookup (env s') (Caller cv) = lookup (env s) (Caller cv))).
Proof.
  intros f m s s'. split; [|split].
  - intros g l Hs Hr. split.
    + intros l0 c Hc _. exact (safe_frame _ s s' (fit_safe m f g l Hs) Hr l0 c Hc).
    + intro cv. apply (run_lookup_other _ s s' _ Hr). apply not_binds_caller. apply fit_binds_caller.
  - intros t Hr. split.
    + intros l0 c Hc _. exact (safe_frame _ s s' (transform_safe m f t) Hr l0 c Hc).
    + intro cv. apply (run_lookup_other _ s s' _ Hr). apply not_binds_caller. apply transform_binds.
  - intros u Hr. split.
    + intros l0 c Hc _. exact (safe_frame _ s s' (update_safe m f u) Hr l0 c Hc).
    + intro cv. apply (run_lookup_other _ s s' _ Hr). apply not_binds_caller. apply update_binds_caller.
Qed.

(* ---- what the repairs of this round removed, and the one in-place edit that remains -------------------- *)
Definition old_knn : fixes := mkFixes true false true true.
Definition old_sub : fixes := mkFixes true true false true.
Definition old_tail : fixes := mkFixes true true true false.
Definition g_knn_disc (wide : bool) : gcfg := mkG false true true MNamed true wide true true TNone true.

(* before the repair: precomputed_knn with an active disconnection distance - the caller's two arrays are written,
   through a plain alias and through the column view of a wider table alike *)
Theorem caller_arrays_frame_refuted : forall wide, exists s',
  run (fit_prog (mkFacts true) old_knn 0 (g_knn_disc wide) l_plain) init_state = Some s' /\
  ver_of init_state (Caller CKIdx) = Some 0 /\ ver_of s' (Caller CKIdx) = Some 1 /\ ver_of s' (Caller CKDist) = Some 1 /\
  same_buffer s' (Caller CKIdx) (Attr 0 KnnIdx) = true.
Proof. intros []; eexists; vm_compute; repeat split. Qed.
(* after it: private copies; without a disconnection the model still shares the caller's arrays (no copy is made) *)
Example knn_copy_only_when_disconnected : exists s1 s2,
  run (fit_prog (mkFacts true) cur 0 (g_knn_disc false) l_plain) init_state = Some s1 /\
  ver_of s1 (Caller CKIdx) = Some 0 /\ same_buffer s1 (Caller CKIdx) (Attr 0 KnnIdx) = false /\
  run (fit_prog (mkFacts true) cur 0 (mkG false true true MNamed true false false true TNone true) l_plain) init_state = Some s2 /\
  ver_of s2 (Caller CKIdx) = Some 0 /\ same_buffer s2 (Caller CKIdx) (Attr 0 KnnIdx) = true.
Proof. eexists. eexists. vm_compute. repeat split. Qed.

(* before the repair: m0 - m1 writes m0.graph_.data when csr.tocoo() shares its buffer *)
Theorem sub_operand_refuted : exists s0 s',
  runo (fit0 (mkFacts true) old_sub 1) (run (fit0 (mkFacts true) old_sub 0) init_state) = Some s0 /\
  run (combine_prog (mkFacts true) old_sub OSub 0 1 2 true) s0 = Some s' /\
  lookup (env s') (Attr 0 GData) = lookup (env s0) (Attr 0 GData) /\
  ver_of s0 (Attr 0 GData) = Some 1 /\ ver_of s' (Attr 0 GData) = Some 2.
Proof. eexists. eexists. vm_compute. repeat split. Qed.

(* the repair of #179 / #217, for the record: optimising against self.embedding_ itself with move_other writes it *)
Theorem transform_tail_refuted : exists s0 s',
  run (fit0 (mkFacts true) old_tail 0) init_state = Some s0 /\
  run (transform_prog (mkFacts true) old_tail 0 (mkT true false false false true)) s0 = Some s' /\
  ver_of s0 (Attr 0 Embedding) = Some 0 /\ ver_of s' (Attr 0 Embedding) = Some 1.
Proof. eexists. eexists. vm_compute. repeat split. Qed.

(* the remaining in-place edit of a caller buffer: a conforming CSR with unsorted indices is sorted in place (same matrix,
   permuted data / indices arrays) and _raw_data is that very matrix *)
Example fit_sorts_caller_csr_in_place : exists s',
  run (fit_prog (mkFacts true) cur 0 (mkG true true false MNamed false false false true TNone true) l_plain) init_state = Some s' /\
  ver_of s' (Caller CX) = Some 1 /\ same_buffer s' (Caller CX) (Attr 0 RawData) = true.
Proof. eexists. vm_compute. repeat split. Qed.

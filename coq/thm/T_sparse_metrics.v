(* C13 theorems, part 2: each sparse metric equals its dense counterpart on the densified vectors. *)
From Coq Require Import List ZArith Bool Arith Reals Lra Lia Psatz.
From UV Require Import Num M_sparse T_sparse.
Import ListNotations.
Local Open Scope R_scope.

Definition Rsq : R -> R := sq RNum.
Lemma Rsq_eq v : Rsq v = v * v. Proof. reflexivity. Qed.
Lemma Rsq_0 : Rsq 0 = 0. Proof. rewrite Rsq_eq; lra. Qed.

Section Metrics.
Context (a b : rvec) (n : nat) (Ca : canonical a) (Cb : canonical b) (Ba : below n a) (Bb : below n b).
Let Sa : sorted_from 0 a := proj1 Ca.
Let Sb : sorted_from 0 b := proj1 Cb.
Let Za : nostored0 a := proj2 Ca.
Let Zb : nostored0 b := proj2 Cb.
Let da := Rdensify n a.
Let db := Rdensify n b.

(* ---- Minkowski family -------------------------------------------------------------------------- *)
Theorem sparse_euclidean_eq_dense : sparse_euclidean RNum a b = dense_euclidean RNum da db.
Proof.
  unfold sparse_euclidean, dense_euclidean. f_equal.
  exact (accum_diff Rsq n a b Rsq_0 Sa Sb Ba Bb).
Qed.

Theorem sparse_manhattan_eq_dense : sparse_manhattan RNum a b = dense_manhattan RNum da db.
Proof.
  unfold sparse_manhattan, dense_manhattan.
  exact (accum_diff Rabs n a b Rabs_R0 Sa Sb Ba Bb).
Qed.

Lemma Rpow_0_l p : p <> 0 -> Rpow 0 p = 0.
Proof. intro Hp. unfold Rpow. destruct (Req_EM_T p 0); [contradiction|]. destruct (Rlt_dec 0 0); [lra|reflexivity]. Qed.

(* p = 0 is excluded: the dense sum then counts every coordinate (0 ** 0 = 1) and 1/p divides by zero *)
Theorem sparse_minkowski_eq_dense p : p <> 0 -> sparse_minkowski RNum p a b = dense_minkowski RNum p da db.
Proof.
  intro Hp. unfold sparse_minkowski, dense_minkowski. f_equal.
  refine (accum_diff (fun v => Rpow (Rabs v) p) n a b _ Sa Sb Ba Bb).
  rewrite Rabs_R0. apply Rpow_0_l. exact Hp.
Qed.

Definition Rnmax : R -> R -> R := nmax RNum.
Lemma Rnmax_eq x y : Rnmax x y = if Rltb x y then y else x. Proof. reflexivity. Qed.

Theorem sparse_chebyshev_eq_dense : sparse_chebyshev RNum a b = dense_chebyshev RNum da db.
Proof.
  destruct (diff_spec a b 0 Sa Sb) as ((Hs & _) & Hget & Hbl).
  unfold sparse_chebyshev, dense_chebyshev, amax, vals. rsimp.
  change (sparse_diff RNum a b) with (Rdiff a b).
  rewrite fold_left_map.
  rewrite (fold_dense (fun r _ v => Rnmax r (Rabs v)) (fun r => 0 <= r)) with (n := n) (s := O); auto; try lra.
  - change (zipw RNum (fun u v => Rabs (u - v)) da db) with (Rzipw (fun u v => Rabs (u - v)) da db).
    unfold da, db. rewrite zipw_densify, fold_left_map.
    apply fold_left_ext_in. intros i _ r. rewrite Hget. reflexivity.
  - intros r _ Hr. rewrite Rabs_R0, Rnmax_eq. destruct (Rltb r 0) eqn:E; [apply Rltb_true in E; lra | reflexivity].
  - intros r _ v Hr. rewrite Rnmax_eq. destruct (Rltb r (Rabs v)); [apply Rabs_pos | exact Hr].
Qed.

(* ---- counts ------------------------------------------------------------------------------------ *)
Lemma count2_map {B} (p : R -> R -> bool) (g h : B -> R) l :
  count2 RNum p (map g l) (map h l) = length (filter (fun i => p (g i) (h i)) l).
Proof. induction l as [|x l IH]; [reflexivity|]. simpl. rewrite IH. destruct (p (g x) (h x)); reflexivity. Qed.
Lemma count2_densify p : count2 RNum p da db = count (fun i => p (Rget a i) (Rget b i)) (seq 0 n).
Proof. unfold da, db, Rdensify, densify. apply (count2_map p (get RNum a) (get RNum b)). Qed.
Lemma da_length : length da = n. Proof. apply densify_length. Qed.

Lemma Rnz_sub x y : Rnz (x - y) = negb (Reqb x y).
Proof.
  destruct (Reqb x y) eqn:E; simpl.
  - apply Reqb_true in E. apply Rnz_false. lra.
  - apply Reqb_false in E. apply Rnz_true. lra.
Qed.

Theorem sparse_hamming_eq_dense : sparse_hamming RNum a b n = dense_hamming RNum da db.
Proof.
  destruct (diff_spec a b 0 Sa Sb) as ((Hs & Hz) & Hget & Hbl).
  unfold sparse_hamming, dense_hamming. rn. rewrite da_length. f_equal. f_equal.
  change (sparse_diff RNum a b) with (Rdiff a b).
  rewrite (length_nnz n (Rdiff a b) Hs Hz (Hbl n Ba Bb)), count2_densify.
  apply count_ext_in. intros i _. rewrite Hget. apply Rnz_sub.
Qed.

Let A := map fst a.
Let B := map fst b.
Lemma A_sorted : isorted 0 A. Proof. exact Sa. Qed.
Lemma B_sorted : isorted 0 B. Proof. exact Sb. Qed.

Lemma n_union_dense : n_union RNum a b = Z.of_nat (nor RNum da db).
Proof.
  destruct (union_spec A B 0 A_sorted B_sorted) as (Hs & Hm & Hbl).
  unfold n_union, nor, inds. rn. fold A B. f_equal.
  rewrite (length_count n 0 _ Hs (Hbl n Ba Bb)), count2_densify.
  apply count_ext_in. intros i _. cbv beta. rewrite Hm. unfold A, B. rewrite !memb_inds by assumption. reflexivity.
Qed.
Lemma n_inter_dense : n_inter RNum a b = Z.of_nat (ntt RNum da db).
Proof.
  destruct (inter_spec A B 0 A_sorted B_sorted) as (Hs & Hm & Hbl).
  unfold n_inter, ntt, inds. rn. fold A B. f_equal.
  rewrite (length_count n 0 _ Hs (Hbl n Ba Bb)), count2_densify.
  apply count_ext_in. intros i _. cbv beta. rewrite Hm. unfold A, B. rewrite !memb_inds by assumption. reflexivity.
Qed.
Lemma count_or_xor_and (p q : nat -> bool) l :
  count (fun i => p i || q i) l = (count (fun i => xorb (p i) (q i)) l + count (fun i => p i && q i) l)%nat.
Proof. induction l as [|x l IH]; [reflexivity|]. rewrite !count_cons, IH. destruct (p x), (q x); simpl; lia. Qed.
Lemma nor_split : nor RNum da db = (nneq RNum da db + ntt RNum da db)%nat.
Proof. unfold nor, nneq, ntt. rewrite !count2_densify. apply (count_or_xor_and (fun i => Rnz (Rget a i)) (fun i => Rnz (Rget b i))). Qed.
Lemma n_neq_dense : n_neq RNum a b = Z.of_nat (nneq RNum da db).
Proof. unfold n_neq. rewrite n_union_dense, n_inter_dense, nor_split. lia. Qed.

Lemma Zeqb_nat k : (Z.of_nat k =? 0)%Z = Nat.eqb k 0.
Proof. destruct k; reflexivity. Qed.
Lemma Zeqb_nat2 j k : (Z.of_nat j =? Z.of_nat k)%Z = Nat.eqb j k.
Proof. destruct (Nat.eqb_spec j k); [subst; apply Z.eqb_refl | apply Z.eqb_neq; lia]. Qed.
Definition Rofn : nat -> R := ofn RNum.
Lemma Rofn_eq k : Rofn k = IZR (Z.of_nat k). Proof. reflexivity. Qed.

Theorem sparse_jaccard_eq_dense : sparse_jaccard RNum a b = dense_jaccard RNum da db.
Proof.
  unfold sparse_jaccard, dense_jaccard. rewrite n_union_dense, n_inter_dense, Zeqb_nat.
  destruct (Nat.eqb (nor RNum da db) 0); [reflexivity|]. rsimp. unfold ofn. rsimp. rewrite minus_IZR. reflexivity.
Qed.

Theorem sparse_matching_eq_dense : sparse_matching RNum a b n = dense_matching RNum da db.
Proof. unfold sparse_matching, dense_matching. rn. rewrite n_neq_dense, da_length. reflexivity. Qed.

Theorem sparse_dice_eq_dense : sparse_dice RNum a b = dense_dice RNum da db.
Proof.
  unfold sparse_dice, dense_dice. rewrite n_neq_dense, n_inter_dense, Zeqb_nat. reflexivity.
Qed.

Theorem sparse_kulsinski_eq_dense : sparse_kulsinski RNum a b n = dense_kulsinski RNum da db.
Proof.
  unfold sparse_kulsinski, dense_kulsinski. rn. rewrite n_neq_dense, n_inter_dense, Zeqb_nat, da_length.
  destruct (Nat.eqb (nneq RNum da db) 0); [reflexivity|]. unfold ofn. rsimp. rewrite !plus_IZR, minus_IZR. reflexivity.
Qed.

Theorem sparse_rogers_tanimoto_eq_dense : sparse_rogers_tanimoto RNum a b n = dense_rogerstanimoto RNum da db.
Proof.
  unfold sparse_rogers_tanimoto, dense_rogerstanimoto. rn. rewrite n_neq_dense, da_length. unfold ofn. rsimp. rewrite plus_IZR. reflexivity.
Qed.

Theorem sparse_sokal_michener_eq_dense : sparse_sokal_michener RNum a b n = dense_sokalmichener RNum da db.
Proof.
  unfold sparse_sokal_michener, dense_sokalmichener. rn. rewrite n_neq_dense, da_length. unfold ofn. rsimp. rewrite plus_IZR. reflexivity.
Qed.

Theorem sparse_sokal_sneath_eq_dense : sparse_sokal_sneath RNum a b = dense_sokalsneath RNum da db.
Proof.
  unfold sparse_sokal_sneath, dense_sokalsneath. rewrite n_neq_dense, n_inter_dense, Zeqb_nat. reflexivity.
Qed.

(* russellrao: np.sum(data != 0) is the number of stored entries of a canonical row *)
Lemma countb_vals c : nostored0 c -> countb RNum (nz RNum) (vals RNum c) = length c.
Proof.
  intro H. unfold countb, vals. induction H as [|[j v] c Hv _ IH]; [reflexivity|].
  simpl in Hv. cbn [map snd filter]. fold (Rnz v). rewrite (proj2 (Rnz_true v) Hv). cbn [length]. rewrite IH. reflexivity.
Qed.
Lemma countb_densify c : sorted_from 0 c -> nostored0 c -> below n c ->
  countb RNum (nz RNum) (Rdensify n c) = length c.
Proof.
  intros Hs Hz Hb. rewrite (length_nnz n c Hs Hz Hb). unfold countb, Rdensify, densify, count.
  clear. induction (seq 0 n) as [|x l IH]; [reflexivity|]. cbn [map filter]. fold (Rget c x). fold (Rnz (Rget c x)).
  destruct (Rnz (Rget c x)); cbn [length]; rewrite IH; reflexivity.
Qed.
Lemma countb_da : countb RNum (nz RNum) da = length a. Proof. exact (countb_densify a Sa Za Ba). Qed.
Lemma countb_db : countb RNum (nz RNum) db = length b. Proof. exact (countb_densify b Sb Zb Bb). Qed.
Lemma list_eqb_eq : forall l1 l2, list_eqb l1 l2 = true -> l1 = l2.
Proof.
  induction l1 as [|x l1 IH]; destruct l2 as [|y l2]; simpl; intro H; try discriminate; [reflexivity|].
  apply andb_prop in H. destruct H as [H1 H2]. apply Nat.eqb_eq in H1. subst. f_equal. apply IH; assumption.
Qed.
Lemma ntt_same : A = B -> ntt RNum da db = length a /\ length b = length a.
Proof.
  intro HAB. split.
  - rewrite (length_nnz n a Sa Za Ba). unfold ntt. rewrite count2_densify. apply count_ext_in. intros i _. cbv beta.
    rewrite <- !memb_inds by assumption. fold A B. rewrite <- HAB. apply andb_diag.
  - rewrite <- (map_length fst b), <- (map_length fst a). fold A B. rewrite HAB. reflexivity.
Qed.

Theorem sparse_russellrao_eq_dense : sparse_russellrao RNum a b n = dense_russellrao RNum da db.
Proof.
  unfold sparse_russellrao, dense_russellrao. rn. rewrite n_inter_dense, da_length.
  rewrite !countb_vals by assumption. rewrite countb_da, countb_db.
  rewrite !Zeqb_nat2. unfold inds. rn. fold A B.
  destruct (list_eqb A B) eqn:E.
  - apply list_eqb_eq in E. destruct (ntt_same E) as [H1 H2]. rewrite H1, H2, Nat.eqb_refl. reflexivity.
  - destruct (Nat.eqb (ntt RNum da db) (length a) && Nat.eqb (ntt RNum da db) (length b)); [reflexivity|].
    unfold ofn. rsimp. rewrite minus_IZR. reflexivity.
Qed.

(* ---- cosine ------------------------------------------------------------------------------------ *)
Lemma ssum_sq_nonneg l : 0 <= Rssum (map Rsq l).
Proof. induction l as [|x l IH]; [change (0 <= 0); lra|]. cbn [map]. rewrite Rssum_cons, Rsq_eq. nra. Qed.
Lemma Reqb_sqrt x : 0 <= x -> Reqb (sqrt x) 0 = Reqb x 0.
Proof.
  intro Hx. destruct (Reqb x 0) eqn:E.
  - apply Reqb_true in E. subst. apply Reqb_true. apply sqrt_0.
  - apply Reqb_false in E. apply Reqb_false. intro H. apply E. apply sqrt_eq_0; assumption.
Qed.

Theorem sparse_cosine_eq_dense : sparse_cosine RNum a b = dense_cosine RNum da db.
Proof.
  unfold sparse_cosine, dense_cosine, norm2. cbv zeta.
  assert (Hr : accum RNum (idf RNum) (vals RNum (sparse_mul RNum a b)) = ssum RNum (zipw RNum (mul RNum) da db))
    by exact (accum_mul (fun v => v) n a b eq_refl Sa Sb Ba Bb).
  assert (Hx : accum RNum (sq RNum) (vals RNum a) = ssum RNum (map (sq RNum) da)) by exact (accum_self Rsq n a Rsq_0 Sa Ba).
  assert (Hy : accum RNum (sq RNum) (vals RNum b) = ssum RNum (map (sq RNum) db)) by exact (accum_self Rsq n b Rsq_0 Sb Bb).
  rewrite Hr, Hx, Hy.
  pose proof (ssum_sq_nonneg da) as Nx. pose proof (ssum_sq_nonneg db) as Ny.
  change (ssum RNum (map (sq RNum) da)) with (Rssum (map Rsq da)). change (ssum RNum (map (sq RNum) db)) with (Rssum (map Rsq db)).
  set (nx := Rssum (map Rsq da)) in *. set (ny := Rssum (map Rsq db)) in *. rsimp.
  rewrite !Reqb_sqrt by assumption.
  destruct (Reqb nx 0 && Reqb ny 0); [reflexivity|]. destruct (Reqb nx 0 || Reqb ny 0); [reflexivity|].
  rewrite sqrt_mult by assumption. reflexivity.
Qed.

(* ---- canberra ---------------------------------------------------------------------------------- *)
Lemma mapv_get_nz f c t : nostored0 c -> Rget (Rmapv f c) t = if Rnz (Rget c t) then f (Rget c t) else 0.
Proof.
  intro H. induction H as [|[j v] c Hv _ IH]; [change (0 = if Rnz 0 then f 0 else 0); rewrite (proj2 (Rnz_false 0) eq_refl); reflexivity|].
  simpl in Hv. change (Rmapv f ((j, v) :: c)) with ((j, f v) :: Rmapv f c). rewrite !Rget_cons.
  destruct (Nat.eqb t j); [rewrite (proj2 (Rnz_true v) Hv); reflexivity | exact IH].
Qed.
Lemma Rabs_nz v : v <> 0 -> Rabs v <> 0.
Proof. apply Rabs_no_R0. Qed.

Theorem sparse_canberra_eq_dense : sparse_canberra RNum a b = dense_canberra RNum da db.
Proof.
  unfold sparse_canberra, dense_canberra. cbv zeta.
  change (map_vals RNum (nabs RNum) a) with (Rmapv Rabs a). change (map_vals RNum (nabs RNum) b) with (Rmapv Rabs b).
  destruct (sum_spec (Rmapv Rabs a) (Rmapv Rabs b) 0 (mapv_sorted _ _ _ Sa) (mapv_sorted _ _ _ Sb)) as ((HsS & HzS) & HgS & HbS).
  specialize (HbS n (mapv_below _ _ _ Ba) (mapv_below _ _ _ Bb)).
  destruct (diff_spec a b 0 Sa Sb) as ((HsD & HzD) & HgD & HbD). specialize (HbD n Ba Bb).
  set (S := Rsum (Rmapv Rabs a) (Rmapv Rabs b)) in *.
  change (sparse_sum RNum (Rmapv Rabs a) (Rmapv Rabs b)) with S.
  change (map_vals RNum (fun v => div RNum (one RNum) v) S) with (Rmapv (fun v => 1 / v) S).
  change (map_vals RNum (nabs RNum) (sparse_diff RNum a b)) with (Rmapv Rabs (Rdiff a b)).
  set (D := Rmapv (fun v => 1 / v) S). set (Nm := Rmapv Rabs (Rdiff a b)).
  destruct (mul_spec Nm D 0 (mapv_sorted _ _ _ HsD) (mapv_sorted _ _ _ HsS)) as ((HsV & _) & HgV & HbV).
  specialize (HbV n (mapv_below _ _ _ HbD) (mapv_below _ _ _ HbS)).
  change (accum RNum (idf RNum) (vals RNum (sparse_mul RNum Nm D))) with (Raccum (fun v => v) (map snd (Rmul Nm D))).
  rewrite (accum_dense (fun v => v) n (Rmul Nm D) eq_refl HsV HbV).
  change (ssum RNum (zipw RNum ?f da db)) with (Rssum (Rzipw f da db)).
  unfold da, db. rewrite zipw_densify. apply ssum_ext_in. intros t _.
  rewrite HgV. unfold Nm, D. rewrite (mapv_get Rabs _ t Rabs_R0), HgD, (mapv_get_nz _ S t HzS), HgS.
  rewrite !(mapv_get Rabs _ t Rabs_R0). rsimp.
  pose proof (Rabs_pos (Rget a t)). pose proof (Rabs_pos (Rget b t)).
  set (s := Rabs (Rget a t) + Rabs (Rget b t)) in *.
  destruct (Rnz s) eqn:E.
  - apply Rnz_true in E. rewrite (proj2 (Rltb_true 0 s)) by (unfold s in *; lra). unfold Rdiv. ring.
  - apply Rnz_false in E. rewrite E. rewrite (proj2 (Rltb_false 0 0)) by lra. ring.
Qed.

(* ---- braycurtis -------------------------------------------------------------------------------- *)
Lemma accum_mapv f g c : Raccum f (map snd (Rmapv g c)) = Raccum (fun v => f (g v)) (map snd c).
Proof. unfold Raccum, accum, Rmapv, map_vals. rewrite !fold_left_map. reflexivity. Qed.
Lemma ssum_abs_pos c : c <> [] -> nostored0 c -> 0 < Rssum (map Rabs (map snd c)).
Proof.
  intros Hne H. destruct H as [|[j v] c Hv H]; [congruence|]. clear Hne. simpl in Hv. cbn [map snd]. rewrite Rssum_cons.
  assert (0 <= Rssum (map Rabs (map snd c))).
  { clear. induction c as [|e c IH]; [change (0 <= 0); lra|]. cbn [map]. rewrite Rssum_cons. pose proof (Rabs_pos (snd e)). lra. }
  pose proof (Rabs_pos_lt v Hv). lra.
Qed.
Lemma accum_as_ssum f l : Raccum f l = Rssum (map f l).
Proof. unfold Raccum, accum. rsimp. rewrite fold_add_ssum. lra. Qed.

Theorem sparse_bray_curtis_eq_dense : sparse_bray_curtis RNum a b = dense_braycurtis RNum da db.
Proof.
  unfold sparse_bray_curtis, dense_braycurtis. cbv zeta.
  destruct (sum_spec a b 0 Sa Sb) as ((HsS & HzS) & HgS & HbS).
  assert (Hd : Raccum Rabs (map snd (Rsum a b)) = Rssum (Rzipw (fun u v => Rabs (u + v)) da db))
    by exact (accum_sum Rabs n a b Rabs_R0 Sa Sb Ba Bb).
  assert (Hn : Raccum Rabs (map snd (Rdiff a b)) = Rssum (Rzipw (fun u v => Rabs (u - v)) da db))
    by exact (accum_diff Rabs n a b Rabs_R0 Sa Sb Ba Bb).
  change (ssum RNum (zipw RNum (fun u v => nabs RNum (add RNum u v)) da db)) with (Rssum (Rzipw (fun u v => Rabs (u + v)) da db)).
  change (ssum RNum (zipw RNum (fun u v => nabs RNum (sub RNum u v)) da db)) with (Rssum (Rzipw (fun u v => Rabs (u - v)) da db)).
  rewrite <- Hd, <- Hn.
  change (sparse_sum RNum a b) with (Rsum a b). change (sparse_diff RNum a b) with (Rdiff a b).
  change (map_vals RNum (nabs RNum) (Rsum a b)) with (Rmapv Rabs (Rsum a b)).
  change (map_vals RNum (nabs RNum) (Rdiff a b)) with (Rmapv Rabs (Rdiff a b)).
  destruct (Rsum a b) as [|e S'] eqn:ES.
  - change (Rmapv Rabs []) with (@nil (nat * R)). cbv iota.
    change (Raccum Rabs (map snd [])) with 0. rsimp. rewrite (proj2 (Rltb_false 0 0)) by lra. reflexivity.
  - change (Rmapv Rabs (e :: S')) with ((fst e, Rabs (snd e)) :: Rmapv Rabs S'). cbv iota.
    change ((fst e, Rabs (snd e)) :: Rmapv Rabs S') with (Rmapv Rabs (e :: S')).
    change (accum RNum (idf RNum) (vals RNum (Rmapv Rabs (e :: S')))) with (Raccum (fun v => v) (map snd (Rmapv Rabs (e :: S')))).
    change (accum RNum (idf RNum) (vals RNum (Rmapv Rabs (Rdiff a b)))) with (Raccum (fun v => v) (map snd (Rmapv Rabs (Rdiff a b)))).
    rewrite !accum_mapv.
    assert (Hpos : 0 < Raccum Rabs (map snd (e :: S'))).
    { rewrite accum_as_ssum. apply ssum_abs_pos; [discriminate | exact HzS]. }
    rsimp. change (fun v : R => Rabs v) with Rabs. rewrite (proj2 (Reqb_false _ 0)) by lra. rewrite (proj2 (Rltb_true 0 _) Hpos). reflexivity.
Qed.

(* ---- hellinger (non-negative data, as UMAP requires for this metric) ------------------------------ *)
Definition nonneg (c : rvec) : Prop := Forall (fun e => 0 <= snd e) c.
Lemma get_nonneg c t : nonneg c -> 0 <= Rget c t.
Proof.
  intro H. induction H as [|[j v] c Hv _ IH]; [rewrite Rget_nil; lra|]. rewrite Rget_cons.
  destruct (Nat.eqb t j); [exact Hv | exact IH].
Qed.
Lemma densify_nonneg c : nonneg c -> Forall (fun u => 0 <= u) (Rdensify n c).
Proof. intro H. unfold Rdensify, densify. apply Forall_forall. intros u Hu. apply in_map_iff in Hu. destruct Hu as (t & <- & _). apply get_nonneg; exact H. Qed.

(* Cauchy-Schwarz in the form the clamp of sparse_hellinger needs *)
Lemma cs_sqrt : forall x y : list R, Forall (fun u => 0 <= u) x -> Forall (fun v => 0 <= v) y ->
  0 <= Rssum x /\ 0 <= Rssum y /\ 0 <= Rssum (Rzipw (fun u v => sqrt (u * v)) x y) /\
  Rssum (Rzipw (fun u v => sqrt (u * v)) x y) * Rssum (Rzipw (fun u v => sqrt (u * v)) x y) <= Rssum x * Rssum y.
Proof.
  assert (Hs0 : forall l, Forall (fun u => 0 <= u) l -> 0 <= Rssum l).
  { intros l H. induction H as [|u l Hu _ IH]; [change (0 <= 0); lra|]. rewrite Rssum_cons. lra. }
  induction x as [|u x IH]; intros y Hx Hy.
  - change (Rzipw (fun u v => sqrt (u * v)) [] y) with (@nil R). change (Rssum []) with 0.
    pose proof (Hs0 y Hy). repeat split; lra.
  - destruct y as [|v y].
    + change (Rzipw (fun u v => sqrt (u * v)) (u :: x) []) with (@nil R). change (Rssum []) with 0.
      pose proof (Hs0 _ Hx). repeat split; lra.
    + inversion Hx as [|? ? Hu Hx']; inversion Hy as [|? ? Hv Hy']; subst.
      destruct (IH y Hx' Hy') as (HX & HY & HS & HSS).
      change (Rzipw (fun u v => sqrt (u * v)) (u :: x) (v :: y)) with (sqrt (u * v) :: Rzipw (fun u v => sqrt (u * v)) x y).
      rewrite !Rssum_cons.
      set (X := Rssum x) in *. set (Y := Rssum y) in *. set (S' := Rssum (Rzipw (fun u v => sqrt (u * v)) x y)) in *.
      rewrite (sqrt_mult u v Hu Hv).
      pose proof (sqrt_pos u) as Hp. pose proof (sqrt_pos v) as Hq. pose proof (sqrt_def u Hu) as Hpp. pose proof (sqrt_def v Hv) as Hqq.
      set (p := sqrt u) in *. set (q := sqrt v) in *.
      pose proof (sqrt_pos X) as HsX. pose proof (sqrt_pos Y) as HsY. pose proof (sqrt_def X HX) as HXX. pose proof (sqrt_def Y HY) as HYY.
      assert (H1 : S' <= sqrt X * sqrt Y).
      { rewrite <- (sqrt_mult X Y HX HY). rewrite <- (sqrt_square S' HS). apply sqrt_le_1; nra. }
      set (sX := sqrt X) in *. set (sY := sqrt Y) in *.
      assert (Hpq : 0 <= p * q) by nra.
      assert (H2 : 2 * (p * q) * (sX * sY) <= (p * p) * (sY * sY) + (q * q) * (sX * sX)).
      { pose proof (Rle_0_sqr (p * sY - q * sX)) as H. unfold Rsqr in H. lra. }
      assert (H3 : (p * q) * S' <= (p * q) * (sX * sY)) by (apply Rmult_le_compat_l; assumption).
      repeat split; try nra.
Qed.

Theorem sparse_hellinger_eq_dense : nonneg a -> nonneg b -> sparse_hellinger RNum a b = dense_hellinger RNum da db.
Proof.
  intros Na Nb. unfold sparse_hellinger, dense_hellinger. cbv zeta.
  assert (Hr : accum RNum (nsqrt RNum) (vals RNum (sparse_mul RNum a b)) = ssum RNum (zipw RNum (fun u v => nsqrt RNum (mul RNum u v)) da db))
    by exact (accum_mul sqrt n a b sqrt_0 Sa Sb Ba Bb).
  assert (Hx : accum RNum (idf RNum) (vals RNum a) = ssum RNum da).
  { change (Raccum (fun v => v) (map snd a) = Rssum da). rewrite (accum_self (fun v => v) n a eq_refl Sa Ba). rewrite map_id. reflexivity. }
  assert (Hy : accum RNum (idf RNum) (vals RNum b) = ssum RNum db).
  { change (Raccum (fun v => v) (map snd b) = Rssum db). rewrite (accum_self (fun v => v) n b eq_refl Sb Bb). rewrite map_id. reflexivity. }
  rewrite Hr, Hx, Hy.
  destruct (cs_sqrt da db (densify_nonneg a Na) (densify_nonneg b Nb)) as (HX & HY & HS & HSS).
  change (ssum RNum da) with (Rssum da). change (ssum RNum db) with (Rssum db).
  change (ssum RNum (zipw RNum (fun u v => nsqrt RNum (mul RNum u v)) da db)) with (Rssum (Rzipw (fun u v => sqrt (u * v)) da db)).
  set (lx := Rssum da) in *. set (ly := Rssum db) in *. set (r := Rssum (Rzipw (fun u v => sqrt (u * v)) da db)) in *. rsimp.
  destruct (Reqb lx 0 && Reqb ly 0); [reflexivity|]. destruct (Reqb lx 0 || Reqb ly 0); [reflexivity|].
  assert (Hle : r <= sqrt (lx * ly)).
  { rewrite <- (sqrt_square r HS). apply sqrt_le_1; nra. }
  rewrite (proj2 (Rltb_false _ _) Hle). reflexivity.
Qed.

(* the clamp `result > sqrt_norm_prod` of sparse_hellinger is dead code over the reals *)
Theorem hellinger_clamp_unreachable : nonneg a -> nonneg b ->
  Raccum sqrt (map snd (Rmul a b)) <= sqrt (Raccum (fun v => v) (map snd a) * Raccum (fun v => v) (map snd b)).
Proof.
  intros Na Nb.
  rewrite (accum_mul sqrt n a b sqrt_0 Sa Sb Ba Bb), (accum_self (fun v => v) n a eq_refl Sa Ba), (accum_self (fun v => v) n b eq_refl Sb Bb), !map_id.
  destruct (cs_sqrt da db (densify_nonneg a Na) (densify_nonneg b Nb)) as (HX & HY & HS & HSS). fold da db.
  rewrite <- (sqrt_square _ HS). apply sqrt_le_1; nra.
Qed.

End Metrics.

(* C14 — second family, all dimensions: cosine, minkowski, weighted minkowski, correlation, hellinger
   (the repaired gradients; the behaviour before the repair is refuted in T_grads_refuted.v). *)
From Coq Require Import List ZArith Reals Lra Lia.
From Coquelicot Require Import Coquelicot.
From UV Require Import Num M_grads T_grads.
Import ListNotations.
Local Open Scope R_scope.

(* ============================================================================================ *)
(* cosine_grad: d = 1 - r / sqrt (nx * ny), r = sum x_j y_j, nx = sum x_j^2, ny = sum y_j^2;        *)
(*   grad_i = (x_i * r - y_i * nx) / sqrt (nx^3 * ny)      (no regulariser)                        *)
Definition Fxy (a b : R) : R := a * b.
Definition Fxx (a b : R) : R := a * a.
Definition Fyy (a b : R) : R := b * b.
Definition cosd (x y : list R) : R := fst (cosine_grad RNum x y).

Lemma cosd_eq x y : Ssum Fyy x y <> 0 ->
  cosd x y = 1 - Ssum Fxy x y / sqrt (Ssum Fxx x y * Ssum Fyy x y).
Proof.
  intros Hy. unfold cosd, cosine_grad, cosine_sums. rewrite !acc2_Ssum. rn. cbn.
  change (fun a b : R => a * b) with Fxy. change (fun a _ : R => a * a) with Fxx. change (fun _ b : R => b * b) with Fyy.
  destruct (Reqb (Ssum Fyy x y) 0) eqn:Ey; [apply Reqb_true in Ey; contradiction|].
  destruct (Reqb (Ssum Fxx x y) 0) eqn:Ex; [apply Reqb_true in Ex | reflexivity].
  cbn. rewrite Ex, Rmult_0_l, sqrt_0. unfold Rdiv. rewrite Rinv_0. ring.
Qed.

Theorem cosine_grad_derive : forall x y i, (i < length x)%nat -> (i < length y)%nat ->
  0 < Ssum Fxx x y -> 0 < Ssum Fyy x y ->
  let r := Ssum Fxy x y in let nx := Ssum Fxx x y in let ny := Ssum Fyy x y in
  let g := (nth i x 0 * r - nth i y 0 * nx) / sqrt (nx * nx * nx * ny) in
  is_derive (fun t => cosd (set_nth x i t) y) (nth i x 0) g /\
  nth i (snd (cosine_grad RNum x y)) 0 = g.
Proof.
  intros x y i Hx Hy Hnx Hny r nx ny g. change (0 < nx) in Hnx. change (0 < ny) in Hny.
  assert (Hs : 0 < sqrt (nx * ny)) by (apply sqrt_lt_R0, Rmult_lt_0_compat; assumption).
  assert (Hs3 : sqrt (nx * nx * nx * ny) = nx * sqrt (nx * ny)).
  { replace (nx * nx * nx * ny) with ((nx * nx) * (nx * ny)) by ring.
    rewrite sqrt_mult_alt by (apply Rle_0_sqr). rewrite sqrt_square by lra. reflexivity. }
  split.
  - apply (is_derive_ext (fun t => 1 - (r - Fxy (nth i x 0) (nth i y 0) + Fxy t (nth i y 0)) /
                                       sqrt ((nx - Fxx (nth i x 0) (nth i y 0) + Fxx t (nth i y 0)) * ny))).
    { intros t. rewrite cosd_eq.
      - rewrite (Ssum_set_nth Fxy 0), (Ssum_set_nth Fxx 0), (Ssum_set_nth Fyy 0) by assumption.
        replace (Ssum Fyy x y - Fyy (nth i x 0) (nth i y 0) + Fyy t (nth i y 0)) with ny by (unfold ny, Fyy; ring). reflexivity.
      - rewrite (Ssum_set_nth Fyy 0) by assumption.
        replace (Ssum Fyy x y - Fyy (nth i x 0) (nth i y 0) + Fyy t (nth i y 0)) with ny by (unfold ny, Fyy; ring). lra. }
    unfold g. rewrite Hs3. unfold Fxy, Fxx. set (xi := nth i x 0). set (yi := nth i y 0).
    auto_derive.
    + replace (nx - xi * xi + xi * xi) with nx by ring. repeat split; try lra.
      apply Rmult_lt_0_compat; assumption.
    + replace (nx - xi * xi + xi * xi) with nx by ring. replace (r - xi * yi + xi * yi) with r by ring.
      set (s := sqrt (nx * ny)) in *.
      assert (Hss : s * s = nx * ny) by (apply sqrt_sqrt; apply Rlt_le, Rmult_lt_0_compat; assumption).
      assert (Hny' : ny = s * s / nx) by (rewrite Hss; field; lra).
      rewrite Hny'. field. split; lra.
  - unfold g. rewrite Hs3. unfold cosine_grad, cosine_sums. rewrite !acc2_Ssum. rn. cbn.
    change (fun a b : R => a * b) with Fxy. change (fun a _ : R => a * a) with Fxx. change (fun _ b : R => b * b) with Fyy.
    fold r nx ny.
    destruct (Reqb ny 0) eqn:Ey; [apply Reqb_true in Ey; lra|].
    destruct (Reqb nx 0) eqn:Ex; [apply Reqb_true in Ex; lra|].
    cbn [andb orb snd]. rewrite (nth_map2 _ 0) by assumption. rewrite Hs3. reflexivity.
Qed.

(* ============================================================================================ *)
(* minkowski_grad / weighted_minkowski_grad (repaired):                                           *)
(*   d = (sum w_j |x_j - y_j|^p)^(1/p),  grad_i = w_i |x_i - y_i|^(p-1) sign (x_i - y_i) / (1e-6 + result^(1 - 1/p)) *)
Lemma Rpow_pos u q : 0 < u -> Rpow u q = Rpower u q.
Proof.
  intros Hu. unfold Rpow. destruct (Req_EM_T q 0) as [->|Hq].
  - unfold Rpower. now rewrite Rmult_0_l, exp_0.
  - destruct (Rlt_dec 0 u); [reflexivity | contradiction].
Qed.
Lemma Rpow_nonneg u q : 0 <= Rpow u q.
Proof.
  unfold Rpow. destruct (Req_EM_T q 0); [lra|]. destruct (Rlt_dec 0 u); [|lra].
  left. apply exp_pos.
Qed.
Lemma Rpower_pred a p : 0 < a -> Rpower a (p - 1) = Rpower a p * / a.
Proof.
  intros Ha. unfold Rpower. replace ((p - 1) * ln a) with (p * ln a + - ln a) by ring.
  rewrite exp_plus, exp_Ropp, exp_ln by exact Ha. reflexivity.
Qed.

Lemma mink_core C w yi p xi : 0 <= C -> 0 < w -> 0 < p -> xi <> yi ->
  is_derive (fun t => Rpow (C + w * Rpow (Rabs (t - yi)) p) (1 / p)) xi
    (w * Rpower (Rabs (xi - yi)) (p - 1) * sign (xi - yi) * Rpower (C + w * Rpower (Rabs (xi - yi)) p) (1 / p - 1)).
Proof.
  intros HC Hw Hp Hne.
  assert (Ha : 0 < Rabs (xi - yi)) by (apply Rabs_pos_lt; lra).
  apply (is_derive_ext_loc (fun t => exp (1 / p * ln (C + w * exp (p * ln (Rabs (t - yi))))))).
  { generalize (locally_neq xi yi Hne). apply filter_imp. intros t Ht.
    assert (Hat : 0 < Rabs (t - yi)) by (apply Rabs_pos_lt; lra).
    rewrite (Rpow_pos (Rabs (t - yi)) p Hat). unfold Rpower at 1.
    assert (0 < exp (p * ln (Rabs (t - yi)))) by apply exp_pos.
    rewrite Rpow_pos by (assert (0 < w * exp (p * ln (Rabs (t - yi)))) by (apply Rmult_lt_0_compat; lra); lra).
    reflexivity. }
  rewrite !Rpower_pred; auto.
  2:{ assert (0 < w * Rpower (Rabs (xi - yi)) p) by (apply Rmult_lt_0_compat; [lra | apply exp_pos]). lra. }
  replace (1 / p - 1 + 1) with (1 / p) by ring.
  unfold Rpower.
  set (E0 := exp (p * ln (Rabs (xi - yi)))).
  assert (HE0 : 0 < E0) by apply exp_pos.
  assert (HR : 0 < C + w * E0) by (assert (0 < w * E0) by (apply Rmult_lt_0_compat; lra); lra).
  auto_derive.
  - replace (xi + - yi) with (xi - yi) by ring. fold E0.
    split; [intros HH; apply Hne; lra | split; [exact Ha | split; [exact HR | exact I]]].
  - replace (xi + - yi) with (xi - yi) by ring. fold E0.
    set (L := exp (1 / p * ln (C + w * E0))). field. repeat split; lra.
Qed.

Definition Fpw (p a b : R) : R := Rpow (Rabs (a - b)) p.
Lemma Fpw_nonneg p a b : 0 <= Fpw p a b. Proof. apply Rpow_nonneg. Qed.
Definition mink (x y : list R) (p : R) : R := fst (minkowski_grad RNum x y p).
Lemma mink_eq x y p : mink x y p = Rpow (Ssum (Fpw p) x y) (1 / p).
Proof. unfold mink, minkowski_grad. cbv zeta. cbn [fst]. rewrite acc2_Ssum. reflexivity. Qed.

Theorem minkowski_grad_derive : forall x y p i, (i < length x)%nat -> (i < length y)%nat ->
  0 < p -> nth i x 0 <> nth i y 0 ->
  let result := Ssum (Fpw p) x y in
  let g := Rpower (Rabs (nth i x 0 - nth i y 0)) (p - 1) * sign (nth i x 0 - nth i y 0) * Rpower result (1 / p - 1) in
  let Rp := Rpower result (1 - 1 / p) in
  is_derive (fun t => mink (set_nth x i t) y p) (nth i x 0) g /\
  nth i (snd (minkowski_grad RNum x y p)) 0 = g * (Rp / (Rp + Reps6)).
Proof.
  intros x y p i Hx Hy Hp Hne result g Rp.
  set (xi := nth i x 0) in *. set (yi := nth i y 0) in *.
  assert (Ha : 0 < Rabs (xi - yi)) by (apply Rabs_pos_lt; lra).
  pose proof (Ssum_rest_nonneg (Fpw p) 0 (Fpw_nonneg p) x y i Hx Hy) as HC. fold xi yi result in HC.
  assert (HF : Fpw p xi yi = Rpower (Rabs (xi - yi)) p) by (unfold Fpw; apply Rpow_pos, Ha).
  assert (Hres : 0 < result) by (rewrite HF in HC; pose proof (exp_pos (p * ln (Rabs (xi - yi)))); unfold Rpower in HC; lra).
  split.
  - apply (is_derive_ext (fun t => Rpow ((result - Fpw p xi yi) + 1 * Rpow (Rabs (t - yi)) p) (1 / p))).
    { intros t. rewrite mink_eq, (Ssum_set_nth (Fpw p) 0) by assumption. fold xi yi result. unfold Fpw at 3. now rewrite Rmult_1_l. }
    evar_last. apply mink_core; auto; lra.
    unfold g. rewrite Rmult_1_l. rewrite Rmult_1_l. rewrite <- HF.
    replace (result - Fpw p xi yi + Fpw p xi yi) with result by ring. reflexivity.
  - unfold minkowski_grad. cbv zeta. cbn [snd]. rewrite (nth_map2 _ 0) by assumption. rewrite acc2_Ssum.
    fold xi yi. rn. cbn -[usign Rpow]. change (fun a b : R => Rpow (Rabs (a - b)) p) with (Fpw p). fold result.
    rewrite !Rpow_pos by assumption. rewrite usign_sign by (intros HH; apply Hne; apply Rminus_diag_uniq; exact HH). fold Rp.
    unfold g. replace (1 / p - 1) with (- (1 - 1 / p)) by ring. rewrite Rpower_Ropp. fold Rp.
    assert (0 < Rp) by apply exp_pos. unfold Reps6, xi. rn. field. split; lra.
Qed.

(* weights as the second component of the paired list *)
Definition Fpw_w (p a : R) (bw : R * R) : R := snd bw * Rpow (Rabs (a - fst bw)) p.
Definition wmink (x y w : list R) (p : R) : R := fst (weighted_minkowski_grad RNum x y w p).
Lemma wmink_eq x y w p : wmink x y w p = Rpow (Ssum (Fpw_w p) x (combine y w)) (1 / p).
Proof. unfold wmink, weighted_minkowski_grad. cbv zeta. cbn [fst]. rewrite acc2_Ssum. reflexivity. Qed.

Lemma Ssum_w_rest_nonneg p : forall x yw i, List.Forall (fun bw : R * R => 0 <= snd bw) yw ->
  (i < length x)%nat -> (i < length yw)%nat ->
  0 <= Ssum (Fpw_w p) x yw - Fpw_w p (nth i x 0) (nth i yw (0, 0)).
Proof.
  assert (Hnn : forall x yw, List.Forall (fun bw : R * R => 0 <= snd bw) yw -> 0 <= Ssum (Fpw_w p) x yw).
  { induction x as [|a x IH]; intros [|bw yw] HF; simpl; try lra.
    inversion HF; subst. specialize (IH yw H2). unfold Fpw_w at 1.
    pose proof (Rpow_nonneg (Rabs (a - fst bw)) p). pose proof (Rmult_le_pos _ _ H1 H). lra. }
  induction x as [|a x IH]; intros [|bw yw] i HF Hx Hy; simpl in *; try lia.
  inversion HF; subst. destruct i as [|i].
  - pose proof (Hnn x yw H2). lra.
  - specialize (IH yw i H2 ltac:(lia) ltac:(lia)). unfold Fpw_w at 1.
    pose proof (Rpow_nonneg (Rabs (a - fst bw)) p). pose proof (Rmult_le_pos _ _ H1 H). lra.
Qed.

Theorem weighted_minkowski_grad_derive : forall x y w p i, (i < length x)%nat -> (i < length y)%nat ->
  length y = length w -> List.Forall (fun v => 0 <= v) w -> 0 < nth i w 0 ->
  0 < p -> nth i x 0 <> nth i y 0 ->
  let result := Ssum (Fpw_w p) x (combine y w) in
  let g := nth i w 0 * Rpower (Rabs (nth i x 0 - nth i y 0)) (p - 1) * sign (nth i x 0 - nth i y 0) * Rpower result (1 / p - 1) in
  let Rp := Rpower result (1 - 1 / p) in
  is_derive (fun t => wmink (set_nth x i t) y w p) (nth i x 0) g /\
  nth i (snd (weighted_minkowski_grad RNum x y w p)) 0 = g * (Rp / (Rp + Reps6)).
Proof.
  intros x y w p i Hx Hy Hl Hw Hwi Hp Hne result g Rp.
  set (xi := nth i x 0) in *. set (yi := nth i y 0) in *. set (wi := nth i w 0) in *.
  assert (Hc : (i < length (combine y w))%nat) by (rewrite combine_length; lia).
  assert (HFw : List.Forall (fun bw : R * R => 0 <= snd bw) (combine y w)).
  { clear - Hw Hl. revert w Hl Hw. induction y as [|b y IH]; intros [|v w] Hl Hw; simpl; auto.
    simpl in Hl. inversion Hw; subst. constructor; auto. }
  assert (Ha : 0 < Rabs (xi - yi)) by (apply Rabs_pos_lt; lra).
  pose proof (Ssum_w_rest_nonneg p x (combine y w) i HFw Hx Hc) as HC.
  rewrite nth_combine in HC by assumption. fold xi yi wi result in HC.
  assert (HF : Fpw_w p xi (yi, wi) = wi * Rpower (Rabs (xi - yi)) p) by (unfold Fpw_w; cbn [fst snd]; now rewrite Rpow_pos).
  assert (Hres : 0 < result).
  { rewrite HF in HC. assert (0 < wi * Rpower (Rabs (xi - yi)) p) by (apply Rmult_lt_0_compat; [lra | apply exp_pos]). lra. }
  split.
  - apply (is_derive_ext (fun t => Rpow ((result - Fpw_w p xi (yi, wi)) + wi * Rpow (Rabs (t - yi)) p) (1 / p))).
    { intros t. rewrite wmink_eq, (Ssum_set_nth (Fpw_w p) (0, 0)) by assumption. rewrite nth_combine by assumption.
      fold xi yi wi result. reflexivity. }
    evar_last. apply mink_core; auto; lra.
    unfold g. rewrite <- HF.
    replace (result - Fpw_w p xi (yi, wi) + Fpw_w p xi (yi, wi)) with result by ring. reflexivity.
  - unfold weighted_minkowski_grad. cbv zeta. cbn [snd]. rewrite (nth_map2 _ (0, 0)) by assumption. rewrite acc2_Ssum.
    rewrite nth_combine by assumption. fold xi yi wi. rn. cbn -[usign Rpow].
    change (fun (a : R) (bw : R * R) => snd bw * Rpow (Rabs (a - fst bw)) p) with (Fpw_w p). fold result.
    rewrite !Rpow_pos by assumption. rewrite usign_sign by (intros HH; apply Hne; apply Rminus_diag_uniq; exact HH). fold Rp.
    unfold g. replace (1 / p - 1) with (- (1 - 1 / p)) by ring. rewrite Rpower_Ropp. fold Rp.
    assert (0 < Rp) by apply exp_pos. unfold Reps6, xi. rn. field. split; lra.
Qed.

(* ============================================================================================ *)
(* hellinger_grad (repaired): d = sqrt (1 - r / sqrt (sx * sy)), r = sum sqrt (x_j y_j), sx = sum x_j, sy = sum y_j; *)
(*   grad_i = (sy r / (2 dd^3) - y_i / (2 sqrt (x_i y_i) dd)) / (2 d), dd = sqrt (sx sy)   (no regulariser)          *)
Definition Frt (a b : R) : R := sqrt (a * b).
Definition Fx (a b : R) : R := a.
Definition Fy (a b : R) : R := b.
Definition hell (x y : list R) : R := fst (hellinger_grad RNum x y).

Lemma hell_eq x y : Ssum Fy x y <> 0 ->
  hell x y = sqrt (1 - Ssum Frt x y / sqrt (Ssum Fx x y * Ssum Fy x y)).
Proof.
  intros Hy. unfold hell, hellinger_grad, hellinger_gen. cbv zeta. rewrite !acc2_Ssum. rn. cbn.
  change (fun a b : R => sqrt (a * b)) with Frt. change (fun a _ : R => a) with Fx. change (fun _ b : R => b) with Fy.
  destruct (Reqb (Ssum Fy x y) 0) eqn:Ey; [apply Reqb_true in Ey; contradiction|].
  destruct (Reqb (Ssum Fx x y) 0) eqn:Ex; [apply Reqb_true in Ex | reflexivity].
  cbn. rewrite Ex, Rmult_0_l, sqrt_0. unfold Rdiv. rewrite Rinv_0, Rmult_0_r, Rminus_0_r, sqrt_1. reflexivity.
Qed.

Theorem hellinger_grad_derive : forall x y i, (i < length x)%nat -> (i < length y)%nat ->
  0 < nth i x 0 -> 0 < nth i y 0 -> 0 < Ssum Fx x y -> 0 < Ssum Fy x y ->
  0 < 1 - Ssum Frt x y / sqrt (Ssum Fx x y * Ssum Fy x y) ->
  let r := Ssum Frt x y in let sx := Ssum Fx x y in let sy := Ssum Fy x y in
  let dd := sqrt (sx * sy) in
  let g := (sy * r / (2 * (dd * dd * dd)) - nth i y 0 / (2 * sqrt (nth i x 0 * nth i y 0) * dd)) / (2 * hell x y) in
  is_derive (fun t => hell (set_nth x i t) y) (nth i x 0) g /\
  nth i (snd (hellinger_grad RNum x y)) 0 = g.
Proof.
  intros x y i Hx Hy Hxi Hyi Hsx Hsy Hpos r sx sy dd g.
  change (0 < sx) in Hsx. change (0 < sy) in Hsy. change (0 < 1 - r / dd) in Hpos.
  assert (Hdd : 0 < dd) by (apply sqrt_lt_R0, Rmult_lt_0_compat; assumption).
  assert (Hq : 0 < sqrt (nth i x 0 * nth i y 0)) by (apply sqrt_lt_R0, Rmult_lt_0_compat; assumption).
  assert (HD : 0 < sqrt (1 - r / dd)) by (apply sqrt_lt_R0; exact Hpos).
  assert (Hh : hell x y = sqrt (1 - r / dd)) by (apply hell_eq; fold sy; lra).
  split.
  - apply (is_derive_ext (fun t => sqrt (1 - (r - Frt (nth i x 0) (nth i y 0) + Frt t (nth i y 0)) /
                                          sqrt ((sx - Fx (nth i x 0) (nth i y 0) + Fx t (nth i y 0)) * sy)))).
    { intros t. rewrite hell_eq.
      - rewrite (Ssum_set_nth Frt 0), (Ssum_set_nth Fx 0), (Ssum_set_nth Fy 0) by assumption.
        replace (Ssum Fy x y - Fy (nth i x 0) (nth i y 0) + Fy t (nth i y 0)) with sy by (unfold sy, Fy; ring). reflexivity.
      - rewrite (Ssum_set_nth Fy 0) by assumption.
        replace (Ssum Fy x y - Fy (nth i x 0) (nth i y 0) + Fy t (nth i y 0)) with sy by (unfold sy, Fy; ring). lra. }
    unfold g. rewrite Hh. unfold Frt, Fx. set (xi := nth i x 0) in *. set (yi := nth i y 0) in *.
    auto_derive.
    + replace (sx - xi + xi) with sx by ring. replace (r - sqrt (xi * yi) + sqrt (xi * yi)) with r by ring. fold dd.
      repeat split; try lra. apply Rmult_lt_0_compat; assumption. apply Rmult_lt_0_compat; assumption.
    + replace (sx - xi + xi) with sx by ring. replace (r - sqrt (xi * yi) + sqrt (xi * yi)) with r by ring. fold dd.
      replace (1 + - (r * / dd)) with (1 - r / dd) by (unfold Rdiv; ring).
      set (q := sqrt (xi * yi)) in *. set (D := sqrt (1 - r / dd)) in *. field. repeat split; lra.
  - unfold g. rewrite Hh. unfold hellinger_grad, hellinger_gen. cbv zeta. rewrite !acc2_Ssum. rn. cbn.
    change (fun a b : R => sqrt (a * b)) with Frt. change (fun a _ : R => a) with Fx. change (fun _ b : R => b) with Fy.
    fold r sx sy.
    destruct (Reqb sy 0) eqn:Ey; [apply Reqb_true in Ey; lra|].
    destruct (Reqb sx 0) eqn:Ex; [apply Reqb_true in Ex; lra|].
    cbn [andb orb snd]. rewrite (nth_map2 _ 0) by assumption. fold dd. reflexivity.
Qed.

(* ============================================================================================ *)
(* correlation_grad (repaired): cosine distance of the centred vectors;                           *)
(*   grad_i = ((x_i - mu_x) / nx - (y_i - mu_y) / dp) * (1 - d)      (no regulariser)              *)
Definition F1 (a b : R) : R := 1.
Lemma Ssum_count : forall x y : list R, length x = length y -> Ssum F1 x y = IZR (Z.of_nat (length x)).
Proof.
  induction x as [|a x IH]; intros [|b y] H; simpl in H; try discriminate; [reflexivity|].
  cbn [Ssum length]. rewrite IH by lia. rewrite Nat2Z.inj_succ, succ_IZR. unfold F1. ring.
Qed.
Lemma Ssum_sqx_shift m : forall x y : list R,
  Ssum (fun a _ => (a - m) * (a - m)) x y = Ssum Fxx x y - 2 * m * Ssum Fx x y + m * m * Ssum F1 x y.
Proof. induction x as [|a x IH]; intros [|b y]; simpl; try ring. rewrite IH. unfold Fxx, Fx, F1. ring. Qed.
Lemma Ssum_sqy_shift m : forall x y : list R,
  Ssum (fun _ b => (b - m) * (b - m)) x y = Ssum Fyy x y - 2 * m * Ssum Fy x y + m * m * Ssum F1 x y.
Proof. induction x as [|a x IH]; intros [|b y]; simpl; try ring. rewrite IH. unfold Fyy, Fy, F1. ring. Qed.
Lemma Ssum_dot_shift m m' : forall x y : list R,
  Ssum (fun a b => (a - m) * (b - m')) x y =
  Ssum Fxy x y - m' * Ssum Fx x y - m * Ssum Fy x y + m * m' * Ssum F1 x y.
Proof. induction x as [|a x IH]; intros [|b y]; simpl; try ring. rewrite IH. unfold Fxy, Fx, Fy, F1. ring. Qed.

Definition corr (x y : list R) : R := fst (correlation_grad RNum x y).
Definition c_n (x : list R) : R := IZR (Z.of_nat (length x)).
Definition c_mx (x y : list R) : R := Ssum Fx x y / c_n x.
Definition c_my (x y : list R) : R := Ssum Fy x y / c_n x.
Definition c_nx (x y : list R) : R := Ssum (fun a _ => (a - c_mx x y) * (a - c_mx x y)) x y.
Definition c_ny (x y : list R) : R := Ssum (fun _ b => (b - c_my x y) * (b - c_my x y)) x y.
Definition c_dp (x y : list R) : R := Ssum (fun a b => (a - c_mx x y) * (b - c_my x y)) x y.

Lemma corr_unfold x y : correlation_grad RNum x y =
  if (Reqb (c_nx x y) 0 && Reqb (c_ny x y) 0)%bool then (0, map (fun _ => 0) x)
  else if Reqb (c_dp x y) 0 then (1, map (fun _ => 0) x)
  else (1 - c_dp x y / sqrt (c_nx x y * c_ny x y),
        map2 RNum (fun a b => ((a - c_mx x y) / c_nx x y - (b - c_my x y) / c_dp x y) * (1 - (1 - c_dp x y / sqrt (c_nx x y * c_ny x y)))) x y).
Proof.
  unfold correlation_grad, correlation_gen. cbv zeta. rewrite !acc2_Ssum. reflexivity.
Qed.

Lemma corr_eq x y : c_ny x y <> 0 -> corr x y = 1 - c_dp x y / sqrt (c_nx x y * c_ny x y).
Proof.
  intros Hy. unfold corr. rewrite corr_unfold.
  destruct (Reqb (c_ny x y) 0) eqn:Ey; [apply Reqb_true in Ey; contradiction|].
  rewrite Bool.andb_false_r.
  destruct (Reqb (c_dp x y) 0) eqn:Ed; [apply Reqb_true in Ed | reflexivity].
  cbn [fst]. rewrite Ed. unfold Rdiv. ring.
Qed.

(* the six basic sums of x with coordinate i replaced by t *)
Lemma corr_sums x y i t : (i < length x)%nat -> length x = length y ->
  Ssum Fx (set_nth x i t) y = Ssum Fx x y - nth i x 0 + t /\
  Ssum Fy (set_nth x i t) y = Ssum Fy x y /\
  Ssum Fxx (set_nth x i t) y = Ssum Fxx x y - nth i x 0 * nth i x 0 + t * t /\
  Ssum Fyy (set_nth x i t) y = Ssum Fyy x y /\
  Ssum Fxy (set_nth x i t) y = Ssum Fxy x y - nth i x 0 * nth i y 0 + t * nth i y 0 /\
  Ssum F1 (set_nth x i t) y = c_n x /\ c_n (set_nth x i t) = c_n x.
Proof.
  intros Hx Hl. assert (Hy : (i < length y)%nat) by lia.
  rewrite (Ssum_set_nth Fx 0), (Ssum_set_nth Fy 0), (Ssum_set_nth Fxx 0), (Ssum_set_nth Fyy 0),
          (Ssum_set_nth Fxy 0), (Ssum_set_nth F1 0) by assumption.
  rewrite (Ssum_count x y Hl). unfold Fx, Fy, Fxx, Fyy, Fxy, F1, c_n. rewrite set_nth_length.
  repeat split; ring.
Qed.

Theorem correlation_grad_derive : forall x y i, (i < length x)%nat -> length x = length y ->
  0 < c_nx x y -> 0 < c_ny x y -> c_dp x y <> 0 ->
  let g := ((nth i x 0 - c_mx x y) / c_nx x y - (nth i y 0 - c_my x y) / c_dp x y) * (1 - corr x y) in
  is_derive (fun t => corr (set_nth x i t) y) (nth i x 0) g /\
  nth i (snd (correlation_grad RNum x y)) 0 = g.
Proof.
  intros x y i Hx Hl Hnx Hny Hdp g.
  assert (Hy : (i < length y)%nat) by lia.
  assert (Hn : 0 < c_n x) by (unfold c_n; apply IZR_lt; lia).
  set (Sa := Ssum Fx x y). set (Sb := Ssum Fy x y). set (Saa := Ssum Fxx x y). set (Sbb := Ssum Fyy x y).
  set (Sab := Ssum Fxy x y). set (n := c_n x) in *. set (xi := nth i x 0) in *. set (yi := nth i y 0) in *.
  (* closed forms at the point *)
  assert (Emx : c_mx x y = Sa / n) by reflexivity.
  assert (Emy : c_my x y = Sb / n) by reflexivity.
  assert (Enx : c_nx x y = Saa - 2 * (Sa / n) * Sa + Sa / n * (Sa / n) * n).
  { unfold c_nx. rewrite Ssum_sqx_shift, (Ssum_count x y Hl), Emx. reflexivity. }
  assert (Eny : c_ny x y = Sbb - 2 * (Sb / n) * Sb + Sb / n * (Sb / n) * n).
  { unfold c_ny. rewrite Ssum_sqy_shift, (Ssum_count x y Hl), Emy. reflexivity. }
  assert (Edp : c_dp x y = Sab - Sb / n * Sa - Sa / n * Sb + Sa / n * (Sb / n) * n).
  { unfold c_dp. rewrite Ssum_dot_shift, (Ssum_count x y Hl), Emx, Emy. reflexivity. }
  set (ny := c_ny x y) in *.
  split.
  - apply (is_derive_ext (fun t =>
      1 - ((Sab - xi * yi + t * yi) - Sb / n * (Sa - xi + t) - (Sa - xi + t) / n * Sb + (Sa - xi + t) / n * (Sb / n) * n) /
          sqrt (((Saa - xi * xi + t * t) - 2 * ((Sa - xi + t) / n) * (Sa - xi + t) + (Sa - xi + t) / n * ((Sa - xi + t) / n) * n) * ny))).
    { intros t. destruct (corr_sums x y i t Hx Hl) as (E1 & E2 & E3 & E4 & E5 & E6 & E7).
      assert (Eny' : c_ny (set_nth x i t) y = ny).
      { rewrite Eny. unfold c_ny, c_my. rewrite Ssum_sqy_shift, E2, E4, E6, E7. reflexivity. }
      rewrite corr_eq by (rewrite Eny'; lra). rewrite Eny'.
      unfold c_dp, c_nx, c_mx, c_my. rewrite Ssum_dot_shift, Ssum_sqx_shift, E1, E2, E3, E5, E6, E7. reflexivity. }
    set (nxv := c_nx x y) in *. set (dpv := c_dp x y) in *.
    assert (Hs : 0 < sqrt (nxv * ny)) by (apply sqrt_lt_R0, Rmult_lt_0_compat; assumption).
    auto_derive.
    + match goal with |- context [sqrt ?A] => replace A with (nxv * ny) by (rewrite Enx; field; lra) end.
      repeat split; try lra. apply Rmult_lt_0_compat; assumption.
    + repeat match goal with |- context [sqrt ?A] =>
        lazymatch A with (nxv * ny) => fail | _ => replace A with (nxv * ny) by (rewrite Enx; field; lra) end end.
      unfold g. rewrite (corr_eq x y) by (fold ny; lra). fold nxv dpv ny. rewrite Emx, Emy.
      set (s := sqrt (nxv * ny)) in *.
      assert (Hss : s * s = nxv * ny) by (apply sqrt_sqrt; apply Rlt_le, Rmult_lt_0_compat; assumption).
      assert (Hny' : ny = s * s / nxv) by (rewrite Hss; field; lra).
      rewrite Hny'. 
      assert (Hnx2 : Saa * n - Sa * Sa <> 0).
      { assert (E2 : nxv = (Saa * n - Sa * Sa) / n) by (rewrite Enx; field; lra).
        intros HH. rewrite HH in E2. unfold Rdiv in E2. rewrite Rmult_0_l in E2. lra. }
      assert (Hdp2 : Sab * n - Sa * Sb <> 0).
      { assert (E2 : dpv = (Sab * n - Sa * Sb) / n) by (rewrite Edp; field; lra).
        intros HH. rewrite HH in E2. unfold Rdiv in E2. rewrite Rmult_0_l in E2. exact (Hdp E2). }
      rewrite Enx, Edp. field.
      split; [lra | split; [lra | split]].
      * intros HH; apply Hdp2; rewrite <- HH; ring.
      * intros HH; apply Hnx2; rewrite <- HH; ring.
  - unfold g. rewrite (corr_eq x y) by (fold ny; lra). rewrite corr_unfold.
    fold ny.
    destruct (Reqb ny 0) eqn:Ey; [apply Reqb_true in Ey; lra|]. rewrite Bool.andb_false_r.
    destruct (Reqb (c_dp x y) 0) eqn:Ed; [apply Reqb_true in Ed; contradiction|].
    cbn [snd]. rewrite (nth_map2 _ 0) by assumption. reflexivity.
Qed.

(* C02 theorems over the reals. *)
From Coq Require Import List ZArith Bool Reals Lra Psatz.
From UV Require Import Num M_union.
Import ListNotations.
Local Open Scope R_scope.

Definition Rmix : R -> R -> R -> R := mix RNum.
Lemma Rmix_eq r a b : Rmix r a b = r * (a + b - a * b) + (1 - r) * (a * b).
Proof. reflexivity. Qed.

Lemma mix_sym r a b : Rmix r a b = Rmix r b a.
Proof. rewrite !Rmix_eq; ring. Qed.

Lemma mix_range r a b : 0 <= r <= 1 -> 0 <= a <= 1 -> 0 <= b <= 1 -> 0 <= Rmix r a b <= 1.
Proof.
  intros Hr Ha Hb; rewrite Rmix_eq.
  assert (H1: 0 <= a * b) by nra.
  assert (H2: a * b <= 1) by nra.
  assert (H3: 0 <= a + b - a * b) by nra.
  assert (H4: a + b - a * b <= 1) by nra.
  split; nra.
Qed.

Lemma mix_union_ge_max a b : 0 <= a <= 1 -> 0 <= b <= 1 -> Rmax a b <= Rmix 1 a b.
Proof. intros Ha Hb; rewrite Rmix_eq. apply Rmax_lub; nra. Qed.

Lemma mix_inter_le_min a b : 0 <= a <= 1 -> 0 <= b <= 1 -> Rmix 0 a b <= Rmin a b.
Proof. intros Ha Hb; rewrite Rmix_eq. apply Rmin_glb; nra. Qed.

Lemma mix_monotone_r r r' a b : 0 <= a <= 1 -> 0 <= b <= 1 -> r <= r' -> Rmix r a b <= Rmix r' a b.
Proof.
  intros Ha Hb Hr; rewrite !Rmix_eq.
  assert (H: 0 <= a + b - 2 * (a * b)) by nra. nra.
Qed.

Lemma mix_zero_iff_support r a b : Rmix r a b <> 0 -> a <> 0 \/ b <> 0.
Proof.
  intros H. destruct (Req_dec a 0) as [Ha|Ha]; [|now left].
  destruct (Req_dec b 0) as [Hb|Hb]; [|now right].
  exfalso; apply H; subst; rewrite Rmix_eq; ring.
Qed.

Lemma mix_pos r a b : 0 < r <= 1 -> 0 <= a <= 1 -> 0 <= b <= 1 -> (0 < a \/ 0 < b) -> 0 < Rmix r a b.
Proof.
  intros Hr Ha Hb Hab; rewrite Rmix_eq.
  assert (H1: 0 <= a * b) by nra.
  assert (H3: 0 < a + b - a * b) by (destruct Hab; nra).
  nra.
Qed.

Lemma mix_pos_inter a b : 0 < a -> 0 < b -> forall r, 0 <= r <= 1 -> a <= 1 -> b <= 1 -> 0 < Rmix r a b.
Proof.
  intros Ha Hb r Hr Ha1 Hb1; rewrite Rmix_eq.
  assert (H1: 0 < a * b) by nra.
  assert (H3: a * b <= a + b - a * b) by nra.
  nra.
Qed.

(* ---- the graph as a function of the directed strengths ---------------------------------------- *)
Definition Rgraphf : R -> (nat -> nat -> R) -> nat -> nat -> R := graphf RNum.

Definition strengths01 (A : nat -> nat -> R) := forall i j, 0 <= A i j <= 1.
Definition irreflexive (A : nat -> nat -> R) := forall i, A i i = 0.

Theorem graph_props : forall (A : nat -> nat -> R) r i j,
  strengths01 A -> irreflexive A -> 0 <= r <= 1 ->
    Rgraphf r A i j = Rgraphf r A j i /\
    Rgraphf r A i i = 0 /\
    0 <= Rgraphf r A i j <= 1 /\
    Rgraphf r A i j = r * (A i j + A j i - A i j * A j i) + (1 - r) * (A i j * A j i) /\
    (Rgraphf r A i j <> 0 -> A i j <> 0 \/ A j i <> 0) /\
    (r = 1 -> Rmax (A i j) (A j i) <= Rgraphf r A i j) /\
    (r = 0 -> Rgraphf r A i j <= Rmin (A i j) (A j i)) /\
    (forall r', r <= r' <= 1 -> Rgraphf r A i j <= Rgraphf r' A i j).
Proof.
  intros A r i j H01 Hirr Hr. unfold Rgraphf, graphf. fold Rmix.
  repeat split.
  - apply mix_sym.
  - rewrite Hirr, Rmix_eq; ring.
  - apply mix_range; auto.
  - apply mix_range; auto.
  - apply mix_zero_iff_support.
  - intros ->. apply mix_union_ge_max; auto.
  - intros ->. apply mix_inter_le_min; auto.
  - intros r' Hr'. apply mix_monotone_r; auto; tauto.
Qed.

(* for EVERY mix ratio the entry lies between the fuzzy intersection and the fuzzy union of the two directed strengths,
   and is exactly their convex combination with weight r; it equals both iff one strength is 0/1-degenerate *)
Lemma mix_between r a b : 0 <= r <= 1 -> 0 <= a <= 1 -> 0 <= b <= 1 ->
  a * b <= Rmix r a b <= a + b - a * b /\ Rmix r a b = r * Rmix 1 a b + (1 - r) * Rmix 0 a b.
Proof. intros Hr Ha Hb. rewrite !Rmix_eq. assert (0 <= a + b - 2 * (a * b)) by nra. repeat split; try nra. Qed.

Theorem graph_between : forall (A : nat -> nat -> R) r i j,
  strengths01 A -> 0 <= r <= 1 ->
    A i j * A j i <= Rgraphf r A i j <= A i j + A j i - A i j * A j i /\
    Rgraphf r A i j = r * Rgraphf 1 A i j + (1 - r) * Rgraphf 0 A i j.
Proof. intros A r i j H01 Hr. unfold Rgraphf, graphf. fold Rmix. apply mix_between; auto. Qed.

(* ---- support: an entry of the assembled matrix is non-zero only for a listed neighbour -------- *)
Definition Rlookup : coo RNum -> nat -> nat -> R := lookup RNum.
Definition Rcoo_of_rows : nat -> list (list (Z * R)) -> coo RNum := coo_of_rows RNum.

Lemma lookup_nonzero_in (A : coo RNum) i j : Rlookup A i j <> 0 -> exists v, In (i, j, v) A.
Proof.
  induction A as [|[[i' j'] v] A IH]; simpl; intros H.
  - exfalso; apply H; reflexivity.
  - destruct (Nat.eqb i i' && Nat.eqb j j') eqn:E.
    + apply andb_true_iff in E as [E1 E2]. apply Nat.eqb_eq in E1, E2. subst.
      exists v; now left.
    + destruct (IH H) as [w Hw]. exists w; now right.
Qed.

Lemma coo_of_rows_in rows : forall k i j v, In (i, j, v) (Rcoo_of_rows k rows) ->
  (k <= i)%nat /\ exists z, In (z, v) (nth (i - k) rows []) /\ j = Z.to_nat z.
Proof.
  induction rows as [|row rest IH]; intros k i j v Hin; simpl in Hin; [contradiction|].
  apply in_app_or in Hin as [Hin|Hin].
  - apply in_map_iff in Hin as [[z w] [Heq Hin]]. simpl in Heq. inversion Heq; subst.
    split; [lia|]. rewrite Nat.sub_diag. simpl. exists z; auto.
  - apply IH in Hin as [Hle [z [Hz Hj]]]. split; [lia|].
    replace (i - k)%nat with (S (i - S k)) by lia. simpl. eauto.
Qed.

Theorem graph_support : forall rows r i j,
  graph RNum r (Rcoo_of_rows 0%nat rows) i j <> 0 ->
    (exists z, In z (map fst (nth i rows [])) /\ j = Z.to_nat z) \/
    (exists z, In z (map fst (nth j rows [])) /\ i = Z.to_nat z).
Proof.
  intros rows r i j H. apply mix_zero_iff_support in H as [H|H];
    apply lookup_nonzero_in in H as [v Hv]; apply coo_of_rows_in in Hv as [_ [z [Hz Hj]]];
    rewrite Nat.sub_0_r in Hz; [left|right]; exists z; split; auto;
    apply in_map_iff; exists (z, v); auto.
Qed.

Lemma graph_nonvacuous :
  let A := fun i j : nat => if Nat.eqb i j then 0 else if Nat.eqb i 0 then 1 else / 2 in
  strengths01 A /\ irreflexive A /\ graphf RNum (/ 2) A 0 1 = 3 / 4.
Proof.
  split; [|split].
  - intros i j. destruct (Nat.eqb i j); [lra|]. destruct (Nat.eqb i 0); lra.
  - intros i. now rewrite Nat.eqb_refl.
  - unfold graphf, mix; simpl. lra.
Qed.

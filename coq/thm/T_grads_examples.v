(* C14 — the hypotheses of the derivative theorems are satisfiable (concrete non-trivial points).
   cosine, minkowski, weighted minkowski, correlation, hellinger, bray-curtis are instantiated inside
   T_grads_refuted.v (their general theorems are applied at the witness points there). *)
From Coq Require Import List ZArith Reals Lra Lia.
From Coquelicot Require Import Coquelicot.
From UV Require Import Num M_grads T_grads T_grads2 T_grads3.
Import ListNotations.
Local Open Scope R_scope.

Lemma sqrt_25 : sqrt 25 = 5.
Proof. replace 25 with (5 * 5) by ring. apply sqrt_square; lra. Qed.

(* euclidean at x = (3,4), y = 0: distance 5, d/dx_0 = 3/5 *)
Example euclid_example :
  is_derive (fun t => euclid (set_nth [3; 4] 0 t) [0; 0]) 3 (3 / 5) /\ euclid [3; 4] [0; 0] = 5.
Proof.
  assert (E : euclid [3; 4] [0; 0] = 5).
  { rewrite euclid_eq. unfold Fsq; simpl. replace ((3 - 0) * (3 - 0) + ((4 - 0) * (4 - 0) + 0)) with 25 by ring. apply sqrt_25. }
  split; [| exact E].
  destruct (euclidean_grad_derive [3; 4] [0; 0] 0%nat) as [D _]; try (simpl; lia); [rewrite E; lra|].
  rewrite E in D. simpl in D. evar_last; [exact D|]. lra.
Qed.

(* manhattan, canberra at x = (3,-4), y = (1,1) *)
Example manhattan_canberra_example :
  is_derive (fun t => manh (set_nth [3; -4] 1 t) [1; 1]) (-4) (-1) /\
  is_derive (fun t => canb (set_nth [3; -4] 0 t) [1; 1]) 3 (canberra_true 3 1).
Proof.
  split.
  - destruct (manhattan_grad_derive [3; -4] [1; 1] 1%nat) as [D _]; try (simpl; lia); try (simpl; lra).
    simpl in D. evar_last; [exact D|]. rewrite sign_eq_m1 by lra. reflexivity.
  - destruct (canberra_grad_derive [3; -4] [1; 1] 0%nat) as [D _]; try (simpl; lia); try (simpl; lra). exact D.
Qed.

(* chebyshev at x = (3,1), y = 0: the maximiser is coordinate 0 *)
Example chebyshev_example :
  is_derive (fun t => cheb (set_nth [3; 1] 0 t) [0; 0]) 3 1 /\ is_derive (fun t => cheb (set_nth [3; 1] 1 t) [0; 0]) 1 0.
Proof.
  assert (U : forall j, (j < length [3; 1])%nat -> j <> 0%nat ->
              Rabs (nth j [3; 1] 0 - nth j [0; 0] 0) < Rabs (nth 0 [3; 1] 0 - nth 0 [0; 0] 0)).
  { intros j Hj Hn. simpl in Hj. assert (j = 1%nat) by lia. subst j. simpl.
    rewrite (Rabs_right (1 - 0)), (Rabs_right (3 - 0)) by lra. lra. }
  split.
  - destruct (chebyshev_grad_derive [3; 1] [0; 0] 0%nat 0%nat) as [D _]; try (simpl; lia); try (simpl; lra); auto.
    simpl in D. evar_last; [exact D|]. rewrite sign_eq_1 by lra. reflexivity.
  - destruct (chebyshev_grad_derive [3; 1] [0; 0] 0%nat 1%nat) as [D _]; try (simpl; lia); try (simpl; lra); auto.
Qed.

(* mahalanobis with VI = [[2,1],[1,2]] at x = (1,0), y = 0: distance sqrt 2 *)
Example mahalanobis_example :
  sym_square [[2; 1]; [1; 2]] 2 /\ mahal [1; 0] [0; 0] [[2; 1]; [1; 2]] = sqrt 2 /\
  exists g, is_derive (fun t => mahal (set_nth [1; 0] 0 t) [0; 0] [[2; 1]; [1; 2]]) 1 g.
Proof.
  assert (S : sym_square [[2; 1]; [1; 2]] 2).
  { split; [reflexivity | split].
    - intros j Hj. destruct j as [|[|j]]; simpl; auto; lia.
    - intros j k Hj Hk. destruct j as [|[|j]]; destruct k as [|[|k]]; simpl; auto; lia. }
  assert (E : mahal [1; 0] [0; 0] [[2; 1]; [1; 2]] = sqrt 2).
  { rewrite mahal_eq. f_equal. unfold Qf, vdiff, map2, Fxy. simpl. ring. }
  split; [exact S | split; [exact E|]].
  destruct (mahalanobis_grad_derive [1; 0] [0; 0] [[2; 1]; [1; 2]] 0%nat) as [D _]; try (simpl; lia); auto.
  { rewrite E. apply sqrt_lt_R0. lra. }
  eexists. exact D.
Qed.

(* hyperboloid at x = (1), y = (0): B = sqrt 2 > 1 *)
Example hyperboloid_example :
  1 < hypB0 [1] [0] /\ exists g, is_derive (fun u => hyp (set_nth [1] 0 u) [0]) 1 g.
Proof.
  assert (B : 1 < hypB0 [1] [0]).
  { unfold hypB0, Fxx, Fyy, Fxy. simpl. replace (1 + (0 * 0 + 0)) with 1 by ring. rewrite sqrt_1.
    replace (1 + (1 * 1 + 0)) with 2 by ring.
    assert (1 < sqrt 2) by (rewrite <- sqrt_1 at 1; apply sqrt_lt_1_alt; lra). lra. }
  split; [exact B|].
  destruct (hyperboloid_grad_derive [1] [0] 0%nat) as [D _]; try (simpl; lia); auto. eexists. exact D.
Qed.

(* Gaussian energies with a negative width coordinate (sign factor in play) *)
Example gaussian_energy_examples :
  (exists g, is_derive (fun t => sge [1; 2; t] [0; 0; 1]) (-1) g) /\
  (exists g, is_derive (fun t => dge [1; 2; t; 3] [0; 0; 1; 1]) (-1) g).
Proof.
  split.
  - destruct (spherical_gaussian_energy_grad_derive 1 2 (-1) 0 0 1) as (_ & _ & D & _); [lra|].
    eexists. exact D.
  - destruct (diagonal_gaussian_energy_grad_derive 1 2 (-1) 3 0 0 1 1) as (_ & _ & D & _); try lra.
    eexists. exact D.
Qed.

(* haversine: the hypothesis 0 < a < 1 holds e.g. at latitude difference pi/2 on the same meridian *)
Example haversine_example : 0 < hav_a (PI / 2) 0 0 0 < 1.
Proof.
  unfold hav_a. replace (1 / 2 * (0 - 0)) with 0 by ring. rewrite sin_0.
  replace (1 / 2 * (PI / 2 - 0)) with (PI / 4) by field. rewrite sin_PI4.
  assert (H2 : 0 < sqrt 2) by (apply sqrt_lt_R0; lra).
  replace (1 / sqrt 2 * (1 / sqrt 2)) with (1 / 2).
  2:{ field_simplify; [| lra]. rewrite <- Rsqr_pow2, Rsqr_sqrt by lra. reflexivity. }
  lra.
Qed.

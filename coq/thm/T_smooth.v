(* C01 theorems over the reals. *)
From Coq Require Import List ZArith Bool Reals Lra Lia Psatz Sorting.Sorted.
From UV Require Import Num M_smooth.
Import ListNotations.
Local Open Scope R_scope.
Ltac rn := change (T RNum) with R in *.

Section WithParams.
Variable tol kscale : R.
Hypothesis tol_pos : 0 < tol.
Hypothesis kscale_pos : 0 < kscale.

Definition Rmem : R -> R -> R -> R := mem RNum.
Definition Rnonzero : list R -> list R := nonzero RNum.
Definition Rrho : list R -> nat -> nat -> R -> R := rho_of RNum tol.
Definition Rpsum : list R -> R -> R -> R := psum RNum.
Definition Rpterm : R -> R -> R -> R := psum_term RNum.
Definition Rnsum : list R -> R := nsum RNum.
Definition Rbisect : nat -> (R -> R) -> R -> R -> option R -> R -> R * bool := bisect RNum tol.
Definition Rfloor : R -> R -> R -> R -> R := floor_sigma RNum kscale.
Definition Rmean : list R -> R := mean RNum.
Definition Rlist_max : list R -> R := list_max RNum.

(* ---- membership strength --------------------------------------------------------------------- *)
Lemma mem_le d rho sigma : d <= rho -> Rmem d rho sigma = 1.
Proof.
  intros H. unfold Rmem, mem; cbn.
  assert (E: Rleb (d - rho) 0 = true) by (apply Rleb_true; lra). now rewrite E.
Qed.

Lemma mem_gt d rho sigma : rho < d -> sigma <> 0 -> Rmem d rho sigma = exp (- ((d - rho) / sigma)).
Proof.
  intros H Hs. unfold Rmem, mem; cbn.
  assert (E: Rleb (d - rho) 0 = false) by (apply Rleb_false; lra).
  assert (E2: Reqb sigma 0 = false) by (now apply Reqb_false).
  now rewrite E, E2.
Qed.

Lemma exp_neg_lt_1 x : 0 < x -> exp (- x) < 1.
Proof. intros H. rewrite <- exp_0. apply exp_increasing. lra. Qed.

Lemma div_pos a b : 0 < a -> 0 < b -> 0 < a / b.
Proof. intros. unfold Rdiv. apply Rmult_lt_0_compat; auto. now apply Rinv_0_lt_compat. Qed.

Lemma mem_range d rho sigma : 0 < sigma -> 0 < Rmem d rho sigma <= 1.
Proof.
  intros Hs. destruct (Rle_or_lt d rho) as [H|H].
  - rewrite mem_le; auto; lra.
  - rewrite mem_gt; auto; try lra. split; [apply exp_pos|].
    left. apply exp_neg_lt_1. apply div_pos; lra.
Qed.

Lemma mem_one_iff d rho sigma : 0 < sigma -> (Rmem d rho sigma = 1 <-> d <= rho).
Proof.
  intros Hs; split; intros H; [|now apply mem_le].
  destruct (Rle_or_lt d rho) as [H'|H']; auto. exfalso.
  rewrite mem_gt in H; auto; try lra.
  assert (exp (- ((d - rho) / sigma)) < 1) by (apply exp_neg_lt_1, div_pos; lra). lra.
Qed.

Lemma exp_le a b : a <= b -> exp a <= exp b.
Proof. intros [H|H]; [left; now apply exp_increasing | subst; lra]. Qed.

Lemma mem_antitone d1 d2 rho sigma : 0 < sigma -> d1 <= d2 -> Rmem d2 rho sigma <= Rmem d1 rho sigma.
Proof.
  intros Hs Hd. destruct (Rle_or_lt d1 rho) as [H1|H1].
  - rewrite (mem_le d1); auto. apply mem_range; auto.
  - rewrite !mem_gt; try lra. apply exp_le.
    assert (/ sigma > 0) by (now apply Rinv_0_lt_compat). unfold Rdiv. nra.
Qed.

Lemma mem_scale c d rho sigma : 0 < c -> Rmem (c * d) (c * rho) (c * sigma) = Rmem d rho sigma.
Proof.
  intros Hc. destruct (Rle_or_lt d rho) as [H|H].
  - rewrite !mem_le; auto. nra.
  - destruct (Req_dec sigma 0) as [->|Hs].
    + unfold Rmem, mem; cbn. rewrite Rmult_0_r.
      assert (E: Reqb 0 0 = true) by (now apply Reqb_true). rewrite E, !orb_true_r. reflexivity.
    + rewrite !mem_gt; auto; try nra. f_equal. field. split; lra.
Qed.

(* ---- sorted rows, non-zero entries, rho ------------------------------------------------------- *)
Lemma SS_filter (f : R -> bool) l : StronglySorted Rle l -> StronglySorted Rle (filter f l).
Proof.
  induction 1 as [|a l Hs IH Hf]; simpl; [constructor|].
  destruct (f a); auto. constructor; auto.
  rewrite Forall_forall in *. intros x Hx. apply Hf. apply filter_In in Hx. tauto.
Qed.

Lemma SS_nth l : StronglySorted Rle l -> forall i j, (i <= j < length l)%nat -> nth i l 0 <= nth j l 0.
Proof.
  induction 1 as [|a l Hs IH Hf]; intros i j Hij; simpl in *; [lia|].
  destruct i, j; try lia; try lra.
  - rewrite Forall_forall in Hf. apply Hf. apply nth_In. lia.
  - apply IH. lia.
Qed.

Lemma nonzero_pos row x : In x (Rnonzero row) -> 0 < x.
Proof. unfold Rnonzero, nonzero. intros H. apply filter_In in H as [_ H]. cbn in H. now apply Rltb_true in H. Qed.

Lemma nth_nonzero_nonneg row i : 0 <= nth i (Rnonzero row) 0.
Proof.
  destruct (Nat.lt_ge_cases i (length (Rnonzero row))) as [H|H].
  - left. eapply nonzero_pos. apply nth_In; eauto.
  - rewrite nth_overflow; auto; lra.
Qed.

Lemma list_max_ge_acc l : forall acc, acc <= fold_left (nmax RNum) l acc.
Proof.
  induction l as [|x l IH]; simpl; intros acc; [lra|].
  eapply Rle_trans; [|apply IH]. unfold nmax; cbn. destruct (Rleb acc x) eqn:E; [apply Rleb_true in E|]; lra.
Qed.

Lemma list_max_nonneg l : 0 <= Rlist_max l.
Proof. apply list_max_ge_acc. Qed.

Lemma list_max_ge l : forall acc x, In x l -> x <= fold_left (nmax RNum) l acc.
Proof.
  induction l as [|y l IH]; simpl; intros acc x Hin; [contradiction|].
  destruct Hin as [->|Hin]; [|now apply IH].
  eapply Rle_trans; [|apply list_max_ge_acc]. unfold nmax; cbn.
  destruct (Rleb acc x) eqn:E; [lra|apply Rleb_false in E; lra].
Qed.

(* rho is non-negative; zero-distance neighbours therefore always get strength 1 *)
Lemma rho_nonneg row ninf index interp :
  StronglySorted Rle row -> 0 <= interp <= 1 -> 0 <= Rrho row ninf index interp.
Proof.
  intros Hs Hi. unfold Rrho, rho_of; cbv zeta; fold Rnonzero; rn.
  destruct (ge_lc RNum _ _ _).
  - destruct index as [|i].
    + cbn. pose proof (nth_nonzero_nonneg row 0). nra.
    + cbn. destruct (Rltb tol interp).
      * pose proof (nth_nonzero_nonneg row i). pose proof (nth_nonzero_nonneg row (S i)).
        assert (Hss: StronglySorted Rle (Rnonzero row)) by (now apply SS_filter).
        destruct (Nat.lt_ge_cases (S i) (length (Rnonzero row))) as [Hl|Hl].
        -- pose proof (SS_nth _ Hss i (S i) ltac:(lia)). nra.
        -- rewrite (nth_overflow _ _ Hl) in *. nra.
      * apply nth_nonzero_nonneg.
  - destruct (Nat.ltb 0 _); [apply list_max_nonneg | cbn; lra].
Qed.

(* the local-connectivity guarantee: with index = floor(lc) >= 1 available finite non-zero
   distances, rho is at least the index-th smallest non-zero distance *)
Lemma rho_ge_base row ninf i interp :
  StronglySorted Rle row -> 0 <= interp <= 1 ->
  (S i <= length (Rnonzero row))%nat ->
  (tol < interp -> (S (S i) <= length (Rnonzero row))%nat) ->
  ge_lc RNum (length (Rnonzero row) + ninf) (S i) interp = true ->
  nth i (Rnonzero row) 0 <= Rrho row ninf (S i) interp.
Proof.
  intros Hs Hi Hlen Hnext Hge. unfold Rrho, rho_of; cbv zeta; fold Rnonzero; rn. rewrite Hge. cbn.
  destruct (Rltb tol interp) eqn:E; [|lra].
  apply Rltb_true in E. specialize (Hnext E).
  assert (Hss: StronglySorted Rle (Rnonzero row)) by (now apply SS_filter).
  pose proof (SS_nth _ Hss i (S i) ltac:(lia)). nra.
Qed.

Theorem local_connectivity row ninf i interp sigma :
  StronglySorted Rle row -> 0 <= interp <= 1 -> 0 < sigma ->
  (S i <= length (Rnonzero row))%nat ->
  (tol < interp -> (S (S i) <= length (Rnonzero row))%nat) ->
  ge_lc RNum (length (Rnonzero row) + ninf) (S i) interp = true ->
  let rho := Rrho row ninf (S i) interp in
  (forall p, (p <= i)%nat -> Rmem (nth p (Rnonzero row) 0) rho sigma = 1) /\
  (forall d, d <= 0 -> Rmem d rho sigma = 1).
Proof.
  intros Hs Hi Hsig Hlen Hnext Hge rho. split.
  - intros p Hp. apply mem_le.
    eapply Rle_trans; [|apply rho_ge_base; eauto].
    apply SS_nth; [now apply SS_filter | lia].
  - intros d Hd. apply mem_le. pose proof (rho_nonneg row ninf (S i) interp Hs Hi). fold rho in H. lra.
Qed.

(* ---- psum: bounds and monotonicity in the bandwidth ------------------------------------------- *)
Lemma pterm_range rho s d : 0 < s -> 0 < Rpterm rho s d <= 1.
Proof.
  intros Hs. unfold Rpterm, psum_term; cbn. destruct (Rltb 0 (d - rho)) eqn:E; [|lra].
  apply Rltb_true in E. split; [apply exp_pos|]. left. apply exp_neg_lt_1, div_pos; lra.
Qed.

Lemma pterm_mono rho s1 s2 d : 0 < s1 <= s2 -> Rpterm rho s1 d <= Rpterm rho s2 d.
Proof.
  intros Hs. unfold Rpterm, psum_term; cbn. destruct (Rltb 0 (d - rho)) eqn:E; [|lra].
  apply Rltb_true in E. apply exp_le. apply Ropp_le_contravar.
  unfold Rdiv. apply Rmult_le_compat_l; [lra|]. apply Rinv_le_contravar; lra.
Qed.

Lemma nsum_map_le (f g : R -> R) l : (forall x, f x <= g x) -> Rnsum (map f l) <= Rnsum (map g l).
Proof. intros H; induction l as [|x l IH]; cbn; [lra|]. specialize (H x). unfold Rnsum in *. rn. lra. Qed.

Lemma psum_mono row rho s1 s2 : 0 < s1 <= s2 -> Rpsum row rho s1 <= Rpsum row rho s2.
Proof. intros Hs. unfold Rpsum, psum. apply nsum_map_le. intros x. now apply pterm_mono. Qed.

Lemma nsum_pterm_range rho s l : 0 < s -> 0 <= Rnsum (map (Rpterm rho s) l) <= INR (length l).
Proof.
  intros Hs. induction l as [|x l IH].
  - cbn. lra.
  - cbn [map length]. rewrite S_INR. unfold Rnsum in *. cbn [nsum]. cbn [add RNum].
    pose proof (pterm_range rho s x Hs). rn. lra.
Qed.

Lemma psum_range row rho s : 0 < s -> 0 <= Rpsum row rho s <= INR (length (tl row)).
Proof. intros Hs. apply (nsum_pterm_range rho s (tl row) Hs). Qed.

Lemma pterm_scale c rho s d : 0 < c -> s <> 0 -> Rpterm (c * rho) (c * s) (c * d) = Rpterm rho s d.
Proof.
  intros Hc Hs. unfold Rpterm, psum_term; cbn.
  destruct (Rltb 0 (d - rho)) eqn:E.
  - apply Rltb_true in E. assert (E2: Rltb 0 (c * d - c * rho) = true) by (apply Rltb_true; nra).
    rewrite E2. f_equal. field. split; lra.
  - apply Rltb_false in E. assert (E2: Rltb 0 (c * d - c * rho) = false) by (apply Rltb_false; nra).
    now rewrite E2.
Qed.

Lemma psum_scale c row rho s : 0 < c -> s <> 0 ->
  Rpsum (map (Rmult c) row) (c * rho) (c * s) = Rpsum row rho s.
Proof.
  intros Hc Hs. unfold Rpsum, psum. destruct row as [|x row]; [reflexivity|]. cbn [tl map].
  induction row as [|y l IH]; [reflexivity|]. cbn [map nsum]. cbn.
  pose proof (pterm_scale c rho s y Hc Hs) as Hp. unfold Rpterm in Hp. cbn in Hp. rewrite Hp.
  f_equal. apply IH.
Qed.

(* ---- the bisection ------------------------------------------------------------------------------ *)
Lemma pow2_pos n : 0 < 2 ^ n.  Proof. apply pow_lt; lra. Qed.

Lemma bisect_bounds (f : R -> R) target : forall n m lo hi mid,
  0 <= lo < mid -> / 2 ^ m <= mid <= 2 ^ m -> (forall h, hi = Some h -> mid < h <= 2 ^ m) ->
  / 2 ^ (m + n) <= fst (Rbisect n f target lo hi mid) <= 2 ^ (m + n).
Proof.
  induction n as [|n IH]; intros m lo hi mid Hlo Hmid Hhi.
  - rewrite Nat.add_0_r. cbn. exact Hmid.
  - unfold Rbisect in *. cbn [bisect].
    replace (m + S n)%nat with (S m + n)%nat by lia.
    assert (P: 0 < 2 ^ m) by apply pow2_pos.
    assert (Hinv: / (2 * 2 ^ m) = / 2 ^ m / 2) by (field; lra).
    assert (Hup: 2 ^ S m = 2 * 2 ^ m) by reflexivity.
    assert (Hlow_mono: / 2 ^ (m + S n) <= / 2 ^ m).
    { apply Rinv_le_contravar; auto. apply Rle_pow; [lra|lia]. }
    assert (Hup_mono: 2 ^ m <= 2 ^ (m + S n)) by (apply Rle_pow; [lra|lia]).
    destruct (ltb RNum (nabs RNum (sub RNum (f mid) target)) tol).
    + cbn [fst]. replace (S m + n)%nat with (m + S n)%nat by lia. lra.
    + destruct (ltb RNum target (f mid)).
      * apply IH; cbn.
        -- lra.
        -- rewrite Hinv. lra.
        -- intros h [= <-]. lra.
      * destruct hi as [h|].
        -- destruct (Hhi h eq_refl) as [Hh1 Hh2]. apply IH; cbn.
           ++ lra.
           ++ rewrite Hinv. lra.
           ++ intros h' [= <-]. lra.
        -- apply IH; cbn.
           ++ lra.
           ++ rewrite Hinv. lra.
           ++ intros h' Hh'. discriminate.
Qed.

Lemma bisect_break (f : R -> R) target : forall n lo hi mid,
  snd (Rbisect n f target lo hi mid) = true ->
  Rabs (f (fst (Rbisect n f target lo hi mid)) - target) < tol.
Proof.
  induction n as [|n IH]; intros lo hi mid; unfold Rbisect in *; cbn [bisect].
  - cbn. discriminate.
  - destruct (ltb RNum (nabs RNum (sub RNum (f mid) target)) tol) eqn:E.
    + cbn [fst snd]. intros _. cbn in E. now apply Rltb_true in E.
    + destruct (ltb RNum target (f mid)); [apply IH|]. destruct hi; apply IH.
Qed.

(* the search only ever returns a value it evaluated or would evaluate next; with the floor applied the
   bandwidth is positive and bounded below by the floor *)
Lemma floor_ge s rho mr ma : s <= Rfloor s rho mr ma.
Proof. unfold Rfloor, floor_sigma; cbn. destruct (Rltb s _) eqn:E; [apply Rltb_true in E|]; lra. Qed.

Lemma floor_ge_floor s rho mr ma :
  kscale * (if Rltb 0 rho then mr else ma) <= Rfloor s rho mr ma.
Proof. unfold Rfloor, floor_sigma; cbn. destruct (Rltb s _) eqn:E; [|apply Rltb_false in E]; lra. Qed.

Lemma floor_le_max s rho mr ma :
  Rfloor s rho mr ma <= Rmax s (kscale * (if Rltb 0 rho then mr else ma)).
Proof.
  unfold Rfloor, floor_sigma; cbn. destruct (Rltb s _) eqn:E; [apply Rmax_r|apply Rmax_l].
Qed.

Theorem bandwidth_bounds n_iter target mean_all row ninf index interp :
  let '(sigma, rho, brk) := smooth_row RNum tol kscale n_iter target mean_all row ninf index interp in
  / 2 ^ n_iter <= sigma /\
  sigma <= Rmax (2 ^ n_iter) (kscale * (if Rltb 0 rho then Rmean row else mean_all)) /\
  kscale * (if Rltb 0 rho then Rmean row else mean_all) <= sigma /\
  (brk = true -> exists s, Rabs (Rpsum row rho s - target) < tol /\ / 2 ^ n_iter <= s <= 2 ^ n_iter /\
                           sigma = Rfloor s rho (Rmean row) mean_all).
Proof.
  unfold smooth_row.
  set (rho := rho_of RNum tol row ninf index interp).
  destruct (bisect RNum tol n_iter (psum RNum row rho) target (zero RNum) None (one RNum)) as [s brk] eqn:E.
  pose proof (bisect_bounds (psum RNum row rho) target n_iter 0 0 None 1) as HB.
  unfold Rbisect in HB. cbn in E. rewrite E in HB. cbn [fst] in HB.
  assert (Hs: / 2 ^ n_iter <= s <= 2 ^ n_iter).
  { apply HB; cbn; try lra. intros h Hh; discriminate. }
  fold (Rfloor s rho (Rmean row) mean_all).
  repeat split.
  - eapply Rle_trans; [apply Hs|apply floor_ge].
  - eapply Rle_trans; [apply floor_le_max|]. apply Rmax_lub; [|apply Rmax_r].
    eapply Rle_trans; [apply Hs|apply Rmax_l].
  - apply floor_ge_floor.
  - intros ->. exists s. split; [|split; auto].
    pose proof (bisect_break (psum RNum row rho) target n_iter 0 None 1) as HK.
    unfold Rbisect in HK. rewrite E in HK. cbn [fst snd] in HK. now apply HK.
Qed.

(* ---- scale laws: rho is homogeneous of degree 1 ------------------------------------------------ *)
Lemma nonzero_scale c row : 0 < c -> Rnonzero (map (Rmult c) row) = map (Rmult c) (Rnonzero row).
Proof.
  intros Hc. unfold Rnonzero, nonzero. induction row as [|x l IH]; [reflexivity|]. cbn.
  destruct (Rltb 0 x) eqn:E.
  - apply Rltb_true in E. assert (E2: Rltb 0 (c * x) = true) by (apply Rltb_true; nra).
    rewrite E2. cbn. f_equal. apply IH.
  - apply Rltb_false in E. assert (E2: Rltb 0 (c * x) = false) by (apply Rltb_false; nra).
    rewrite E2. apply IH.
Qed.

Lemma nth_scale c l i : nth i (map (Rmult c) l) 0 = c * nth i l 0.
Proof. rewrite <- (Rmult_0_r c) at 1. apply map_nth. Qed.

Lemma fold_max_scale c l : 0 < c -> forall acc,
  fold_left (nmax RNum) (map (Rmult c) l) (c * acc) = c * fold_left (nmax RNum) l acc.
Proof.
  intros Hc. induction l as [|x l IH]; intros acc; [reflexivity|]. cbn [map fold_left].
  assert (E: nmax RNum (c * acc) (c * x) = c * nmax RNum acc x).
  { unfold nmax; cbn. destruct (Rleb acc x) eqn:E1.
    - apply Rleb_true in E1. assert (E2: Rleb (c * acc) (c * x) = true) by (apply Rleb_true; nra). now rewrite E2.
    - apply Rleb_false in E1. assert (E2: Rleb (c * acc) (c * x) = false) by (apply Rleb_false; nra). now rewrite E2. }
  rewrite E. apply IH.
Qed.

Theorem rho_scale c row ninf index interp : 0 < c ->
  Rrho (map (Rmult c) row) ninf index interp = c * Rrho row ninf index interp.
Proof.
  intros Hc. unfold Rrho, rho_of; cbv zeta; fold Rnonzero; rn. rewrite nonzero_scale; auto. rewrite map_length.
  destruct (ge_lc RNum _ _ _).
  - destruct index as [|i]; cbn; rewrite !nth_scale.
    + ring.
    + destruct (Rltb tol interp); ring.
  - destruct (Nat.ltb 0 _); [|cbn; ring].
    unfold list_max. cbn [zero RNum]. rewrite <- (Rmult_0_r c) at 1. now apply fold_max_scale.
Qed.

(* a bandwidth that calibrates a row calibrates the rescaled row after the same rescaling, and all
   strengths are unchanged: the set of acceptable (rho, sigma) pairs is homogeneous of degree 1 *)
Theorem calibration_scale c row ninf index interp sigma : 0 < c -> sigma <> 0 ->
  let rho := Rrho row ninf index interp in
  let rho' := Rrho (map (Rmult c) row) ninf index interp in
  Rpsum (map (Rmult c) row) rho' (c * sigma) = Rpsum row rho sigma /\
  (forall d, Rmem (c * d) rho' (c * sigma) = Rmem d rho sigma).
Proof.
  intros Hc Hs rho rho'. unfold rho'. rewrite rho_scale; auto. fold rho. split.
  - now apply psum_scale.
  - intros d. now apply mem_scale.
Qed.

End WithParams.

(* ---- non-vacuity: a concrete row meeting the hypotheses of [local_connectivity] ---------------- *)
Definition ex_row : list R := [0; 1; 2; 3].
Lemma nonzero_example : Rnonzero ex_row = [1; 2; 3].
Proof.
  unfold Rnonzero, nonzero, ex_row; cbn. unfold Rltb.
  repeat (destruct (Rlt_dec _ _); try lra); reflexivity.
Qed.

Lemma smooth_nonvacuous :
  StronglySorted Rle ex_row /\ (1 <= length (Rnonzero ex_row))%nat /\
  ge_lc RNum (length (Rnonzero ex_row) + 0) 1 0 = true /\
  Rrho (/ 100000) ex_row 0 1 0 = 1.
Proof.
  assert (SS: StronglySorted Rle ex_row).
  { unfold ex_row; repeat constructor; lra. }
  repeat split; auto.
  - rewrite nonzero_example; cbn; lia.
  - rewrite nonzero_example; reflexivity.
  - unfold Rrho, rho_of; cbv zeta. fold Rnonzero. rewrite nonzero_example. cbn.
    unfold Rltb. destruct (Rlt_dec _ _); [lra|reflexivity].
Qed.

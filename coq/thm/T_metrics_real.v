(* C12: the real-vector metrics over R — symmetry, non-negativity, identity, bounds, triangle inequalities.
   Every model function is first rewritten into a plain expression over [rsum]/[zipw] ("R-form"), then the
   metric facts are proved about the R-form, for lists of every length. *)
From Coq Require Import List ZArith Bool Reals Lra Lia Psatz.
From UV Require Import Num M_metrics T_metrics_base.
Import ListNotations.
Local Open Scope R_scope.

(* the extra operations over the reals *)
Definition Rtrunc (x : R) : Z := if Rle_dec 0 x then Int_part x else (- Int_part (- x))%Z.
Definition RExt : Ext RNum := mkExt RNum sin cos asin PI Rtrunc.

(* ---- local helpers ------------------------------------------------------------------------------- *)
Lemma Rabs_diag a : Rabs (a - a) = 0.
Proof. replace (a - a) with 0 by ring. apply Rabs_R0. Qed.

Lemma sqd_sym a b : (a - b) * (a - b) = (b - a) * (b - a).
Proof. ring. Qed.

Lemma zipw_Forall_l {A B C} (P : C -> Prop) (Q : A -> Prop) (f : A -> B -> C) x y :
  (forall a b, Q a -> P (f a b)) -> Forall Q x -> Forall P (zipw f x y).
Proof. intros H Hx; revert y; induction Hx as [|a x Ha Hx IH]; intros y; destruct y as [|b y]; simpl; constructor; auto. Qed.

Lemma zipw_Forall_r {A B C} (P : C -> Prop) (S : B -> Prop) (f : A -> B -> C) x y :
  (forall a b, S b -> P (f a b)) -> Forall S y -> Forall P (zipw f x y).
Proof. intros H Hy; revert x; induction Hy as [|b y Hb Hy IH]; intros x; destruct x as [|a x]; simpl; constructor; auto. Qed.

Lemma vsq_rsq (x : list R) : vsq RNum x = rsq x.
Proof. unfold vsq. rewrite vsum_rsum. reflexivity. Qed.

Lemma vdot_rdot (x y : list R) : vdot RNum x y = rdot x y.
Proof. unfold vdot. rewrite vsum_rsum. reflexivity. Qed.

Lemma Rpow_nonneg x y : 0 <= Rpow x y.
Proof.
  unfold Rpow. destruct (Req_EM_T y 0); [lra|]. destruct (Rlt_dec 0 x); [|lra].
  unfold Rpower. left; apply exp_pos.
Qed.

Lemma Rpow_0 y : y <> 0 -> Rpow 0 y = 0.
Proof. intros H. unfold Rpow. destruct (Req_EM_T y 0); [contradiction|]. destruct (Rlt_dec 0 0); [lra|reflexivity]. Qed.

(* ================================================================================================== *)
(* euclidean                                                                                          *)
Definition Reuclid (x y : list R) : R := sqrt (rsum (zipw (fun a b => (a - b) * (a - b)) x y)).
Lemma euclid_eq (x y : list R) : d_euclidean RNum x y = Reuclid x y.
Proof. unfold d_euclidean. rewrite vsum_rsum. reflexivity. Qed.

Lemma euclid_sym x y : Reuclid x y = Reuclid y x.
Proof. unfold Reuclid. f_equal. apply rsum_zipw_sym. intros; ring. Qed.
Lemma euclid_nonneg x y : 0 <= Reuclid x y.
Proof. apply sqrt_pos. Qed.
Lemma euclid_diag x : Reuclid x x = 0.
Proof. unfold Reuclid. rewrite rsum_zipw_diag; [apply sqrt_0 | intros; ring]. Qed.

(* Minkowski's inequality for p = 2, from Cauchy-Schwarz *)
Lemma zipw_minus_chain x y z : length x = length y -> length y = length z ->
  zipw (fun a b => (a - b) * (a - b)) x z =
  zipw (fun u v => (u + v) * (u + v)) (zipw Rminus x y) (zipw Rminus y z).
Proof.
  revert y z; induction x as [|a x IH]; intros [|b y] [|c z]; simpl; intros H1 H2; try discriminate; auto.
  rewrite (IH y z) by lia. f_equal. ring.
Qed.

Lemma sq_sum_expand u v : length u = length v ->
  rsum (zipw (fun a b => (a + b) * (a + b)) u v) = rsq u + 2 * rdot u v + rsq v.
Proof.
  unfold rsq, rdot. revert v; induction u as [|a u IH]; intros [|b v]; simpl; intros H; try discriminate; try lra.
  rewrite IH by lia. lra.
Qed.

Lemma rsq_zipw_minus x y : rsq (zipw Rminus x y) = rsum (zipw (fun a b => (a - b) * (a - b)) x y).
Proof. unfold rsq. now rewrite map_zipw. Qed.

Theorem euclid_triangle x y z : length x = length y -> length y = length z ->
  Reuclid x z <= Reuclid x y + Reuclid y z.
Proof.
  intros H1 H2. unfold Reuclid.
  rewrite (zipw_minus_chain x y z H1 H2).
  set (u := zipw Rminus x y). set (v := zipw Rminus y z).
  assert (HL : length u = length v) by (unfold u, v; rewrite !zipw_length; lia).
  rewrite (sq_sum_expand u v HL).
  rewrite <- !rsq_zipw_minus. fold u v.
  pose proof (rsq_nonneg u) as Hu. pose proof (rsq_nonneg v) as Hv.
  pose proof (cs_sqrt u v HL) as Hcs.
  assert (Hd : rdot u v <= sqrt (rsq u * rsq v)) by (pose proof (Rle_abs (rdot u v)); lra).
  rewrite sqrt_mult in Hd by lra.
  pose proof (sqrt_pos (rsq u)) as Hsu. pose proof (sqrt_pos (rsq v)) as Hsv.
  apply Rsqr_incr_0_var; [|lra].
  rewrite Rsqr_sqrt.
  - unfold Rsqr. pose proof (sqrt_sqrt (rsq u) Hu). pose proof (sqrt_sqrt (rsq v) Hv). nra.
  - pose proof (Rle_abs (- rdot u v)) as Hm. rewrite Rabs_Ropp in Hm.
    assert (- sqrt (rsq u * rsq v) <= rdot u v) by lra.
    rewrite sqrt_mult in H by lra.
    pose proof (sqrt_sqrt (rsq u) Hu) as Ea. pose proof (sqrt_sqrt (rsq v) Hv) as Eb.
    set (sa := sqrt (rsq u)) in *. set (sb := sqrt (rsq v)) in *.
    pose proof (Rle_0_sqr (sa - sb)) as Hq. unfold Rsqr in Hq.
    rewrite <- Ea, <- Eb. lra.
Qed.

(* ================================================================================================== *)
(* manhattan                                                                                          *)
Definition Rmanh (x y : list R) : R := rsum (zipw (fun a b => Rabs (a - b)) x y).
Lemma manh_eq (x y : list R) : d_manhattan RNum x y = Rmanh x y.
Proof. unfold d_manhattan. rewrite vsum_rsum. reflexivity. Qed.
Lemma manh_sym x y : Rmanh x y = Rmanh y x.
Proof. apply rsum_zipw_sym. intros; apply Rabs_minus_sym. Qed.
Lemma manh_nonneg x y : 0 <= Rmanh x y.
Proof. apply rsum_zipw_nonneg. intros; apply Rabs_pos. Qed.
Lemma manh_diag x : Rmanh x x = 0.
Proof. apply rsum_zipw_diag. intros; apply Rabs_diag. Qed.
Lemma abs_triangle a b c : Rabs (a - c) <= Rabs (a - b) + Rabs (b - c).
Proof. replace (a - c) with ((a - b) + (b - c)) by ring. apply Rabs_triang. Qed.
Theorem manh_triangle x y z : length x = length y -> length y = length z -> Rmanh x z <= Rmanh x y + Rmanh y z.
Proof.
  unfold Rmanh. revert y z; induction x as [|a x IH]; intros [|b y] [|c z]; simpl; intros H1 H2; try discriminate; try lra.
  specialize (IH y z ltac:(lia) ltac:(lia)). pose proof (abs_triangle a b c). lra.
Qed.

(* ================================================================================================== *)
(* chebyshev                                                                                          *)
Fixpoint rmaxl (l : list R) : R := match l with [] => 0 | a :: r => Rmax a (rmaxl r) end.
Lemma vmax2_Rmax (r v : R) : vmax2 RNum r v = Rmax r v.
Proof.
  unfold vmax2. change (ltb RNum r v) with (Rltb r v).
  destruct (Rltb r v) eqn:E; [apply Rltb_true in E | apply Rltb_false in E].
  - rewrite Rmax_right; lra.
  - rewrite Rmax_left; lra.
Qed.
Lemma rmaxl_nonneg l : 0 <= rmaxl l.
Proof. induction l; simpl; [lra|]. eapply Rle_trans; [exact IHl | apply Rmax_r]. Qed.
Lemma fold_max (l : list R) a : 0 <= a -> fold_left Rmax l a = Rmax a (rmaxl l).
Proof.
  revert a; induction l as [|b l IH]; intros a Ha; simpl.
  - rewrite Rmax_left; lra.
  - rewrite IH by (eapply Rle_trans; [exact Ha | apply Rmax_l]). now rewrite Rmax_assoc.
Qed.
Lemma fold_left_ext {A B} (f g : A -> B -> A) l a : (forall u v, f u v = g u v) -> fold_left f l a = fold_left g l a.
Proof. intros H; revert a; induction l as [|b l IH]; intros a; simpl; auto. now rewrite H, IH. Qed.
Lemma vmaxl_rmaxl (l : list R) : vmaxl RNum l = rmaxl l.
Proof.
  unfold vmaxl. rewrite (fold_left_ext (vmax2 RNum) Rmax l (zero RNum) vmax2_Rmax).
  change (zero RNum) with 0. rewrite fold_max by lra. rewrite Rmax_right; [reflexivity | apply rmaxl_nonneg].
Qed.
Lemma rmaxl_zero l : Forall (fun a => a = 0) l -> rmaxl l = 0.
Proof. induction 1 as [|a l Ha Hl IH]; simpl; auto. rewrite IH, Ha. apply Rmax_left; lra. Qed.

Definition Rcheb (x y : list R) : R := rmaxl (zipw (fun a b => Rabs (a - b)) x y).
Lemma cheb_eq (x y : list R) : d_chebyshev RNum x y = Rcheb x y.
Proof. unfold d_chebyshev. rewrite vmaxl_rmaxl. reflexivity. Qed.
Lemma cheb_sym x y : Rcheb x y = Rcheb y x.
Proof. unfold Rcheb. f_equal. apply zipw_sym. intros; apply Rabs_minus_sym. Qed.
Lemma cheb_nonneg x y : 0 <= Rcheb x y.
Proof. apply rmaxl_nonneg. Qed.
Lemma cheb_diag x : Rcheb x x = 0.
Proof. apply rmaxl_zero, zipw_diag_Forall. intros; apply Rabs_diag. Qed.
Theorem cheb_triangle x y z : length x = length y -> length y = length z -> Rcheb x z <= Rcheb x y + Rcheb y z.
Proof.
  unfold Rcheb. revert y z; induction x as [|a x IH]; intros [|b y] [|c z]; simpl; intros H1 H2; try discriminate; try lra.
  specialize (IH y z ltac:(lia) ltac:(lia)). pose proof (abs_triangle a b c) as Ht.
  set (M1 := rmaxl (zipw (fun a b => Rabs (a - b)) x y)) in *.
  set (M2 := rmaxl (zipw (fun a b => Rabs (a - b)) y z)) in *.
  pose proof (Rmax_l (Rabs (a - b)) M1). pose proof (Rmax_r (Rabs (a - b)) M1).
  pose proof (Rmax_l (Rabs (b - c)) M2). pose proof (Rmax_r (Rabs (b - c)) M2).
  apply Rmax_lub; lra.
Qed.
(* the maximum dominates every coordinate difference *)
Lemma rmaxl_dominates l : Forall (fun t => t <= rmaxl l) l.
Proof.
  induction l as [|t l IH]; simpl; constructor.
  - apply Rmax_l.
  - eapply Forall_impl; [|exact IH]. intros u Hu. simpl in Hu. eapply Rle_trans; [exact Hu | apply Rmax_r].
Qed.

(* ================================================================================================== *)
(* minkowski, weighted minkowski                                                                      *)
Definition Rpd (p a b : R) : R := Rpow (Rabs (a - b)) p.
Definition Rmink (p : R) (x y : list R) : R := Rpow (rsum (zipw (Rpd p) x y)) (1 / p).
Lemma mink_eq p (x y : list R) : d_minkowski RNum p x y = Rmink p x y.
Proof. unfold d_minkowski. rewrite vsum_rsum. reflexivity. Qed.
Lemma Rpd_sym p a b : Rpd p a b = Rpd p b a.
Proof. unfold Rpd. now rewrite Rabs_minus_sym. Qed.
Lemma Rpd_diag p a : p <> 0 -> Rpd p a a = 0.
Proof. intros. unfold Rpd. rewrite Rabs_diag. now apply Rpow_0. Qed.
Lemma inv_neq0 p : p <> 0 -> 1 / p <> 0.
Proof. intros H. unfold Rdiv. rewrite Rmult_1_l. now apply Rinv_neq_0_compat. Qed.
Lemma mink_sym p x y : Rmink p x y = Rmink p y x.
Proof. unfold Rmink. f_equal. apply rsum_zipw_sym. apply Rpd_sym. Qed.
Lemma mink_nonneg p x y : 0 <= Rmink p x y.
Proof. apply Rpow_nonneg. Qed.
Lemma mink_diag p x : p <> 0 -> Rmink p x x = 0.
Proof. intros H. unfold Rmink. rewrite rsum_zipw_diag; [apply Rpow_0, inv_neq0, H | intros; now apply Rpd_diag]. Qed.

Definition Rwmink (w : list R) (p : R) (x y : list R) : R :=
  Rpow (rsum (zipw (fun wi t => wi * t) w (zipw (Rpd p) x y))) (1 / p).
Lemma wmink_eq w p (x y : list R) : d_wminkowski RNum w p x y = Rwmink w p x y.
Proof. unfold d_wminkowski. rewrite vsum_rsum. reflexivity. Qed.
Lemma wmink_sym w p x y : Rwmink w p x y = Rwmink w p y x.
Proof. unfold Rwmink. do 3 f_equal. apply zipw_sym, Rpd_sym. Qed.
Lemma wmink_nonneg w p x y : 0 <= Rwmink w p x y.
Proof. apply Rpow_nonneg. Qed.
Lemma wmink_diag w p x : p <> 0 -> Rwmink w p x x = 0.
Proof.
  intros H. unfold Rwmink. rewrite rsum_zero; [apply Rpow_0, inv_neq0, H|].
  apply (zipw_Forall_r _ (fun t => t = 0)); [intros a b ->; ring|].
  apply zipw_diag_Forall. intros; now apply Rpd_diag.
Qed.
(* with non-negative weights the radicand is non-negative (the power is taken of a number in its domain) *)
Lemma wmink_radicand_nonneg w p x y : Forall (fun a => 0 <= a) w ->
  0 <= rsum (zipw (fun wi t => wi * t) w (zipw (Rpd p) x y)).
Proof.
  intros Hw. apply rsum_nonneg. apply (zipw_Forall_dom _ (fun a => 0 <= a) (fun t => 0 <= t)); auto.
  - intros a b Ha Hb. now apply Rmult_le_pos.
  - apply zipw_Forall. intros; apply Rpow_nonneg.
Qed.

(* ================================================================================================== *)
(* standardised euclidean, mahalanobis                                                                *)
Definition Rseuclid (V x y : list R) : R :=
  sqrt (rsum (zipw (fun t v => t / v) (zipw (fun a b => (a - b) * (a - b)) x y) V)).
Lemma seuclid_eq V (x y : list R) : d_seuclidean RNum V x y = Rseuclid V x y.
Proof. unfold d_seuclidean. rewrite vsum_rsum. reflexivity. Qed.
Lemma seuclid_sym V x y : Rseuclid V x y = Rseuclid V y x.
Proof. unfold Rseuclid. do 3 f_equal. apply zipw_sym. intros; ring. Qed.
Lemma seuclid_nonneg V x y : 0 <= Rseuclid V x y.
Proof. apply sqrt_pos. Qed.
Lemma seuclid_diag V x : Rseuclid V x x = 0.
Proof.
  unfold Rseuclid. rewrite rsum_zero; [apply sqrt_0|].
  apply (zipw_Forall_l _ (fun t => t = 0)); [intros a b ->; unfold Rdiv; ring|].
  apply zipw_diag_Forall. intros; ring.
Qed.
(* with positive variances the radicand is non-negative *)
Lemma seuclid_radicand_nonneg V x y : Forall (fun v => 0 < v) V ->
  0 <= rsum (zipw (fun t v => t / v) (zipw (fun a b => (a - b) * (a - b)) x y) V).
Proof.
  intros HV. apply rsum_nonneg. apply (zipw_Forall_dom _ (fun t => 0 <= t) (fun v => 0 < v)); auto.
  - intros a b Ha Hb. now apply div_nonneg.
  - apply zipw_Forall. intros a b. apply Rle_0_sqr.
Qed.

Definition Rquad (VI : list (list R)) (d : list R) : R := rsum (zipw (fun row di => rdot row d * di) VI d).
Lemma quad_eq VI (d : list R) : quadform RNum VI d = Rquad VI d.
Proof.
  unfold quadform, Rquad. rewrite vsum_rsum. f_equal. apply zipw_ext. intros row di.
  rewrite vdot_rdot. reflexivity.
Qed.
Definition Rmahal (VI : list (list R)) (x y : list R) : R := sqrt (Rquad VI (zipw Rminus x y)).
Lemma mahal_eq VI (x y : list R) : d_mahalanobis RNum VI x y = Rmahal VI x y.
Proof. unfold d_mahalanobis. rewrite quad_eq. reflexivity. Qed.
Lemma rdot_opp_r row d : rdot row (map Ropp d) = - rdot row d.
Proof.
  unfold rdot. rewrite zipw_map_r.
  rewrite (zipw_ext (fun a b => a * - b) (fun a b => -1 * (a * b))) by (intros; ring).
  rewrite rsum_zipw_scal. ring.
Qed.
Lemma quad_opp VI d : Rquad VI (map Ropp d) = Rquad VI d.
Proof.
  unfold Rquad. rewrite zipw_map_r. f_equal. apply zipw_ext. intros row di. rewrite rdot_opp_r. ring.
Qed.
Lemma zipw_minus_opp x y : zipw Rminus y x = map Ropp (zipw Rminus x y).
Proof. rewrite map_zipw. rewrite zipw_flip. apply zipw_ext. intros; ring. Qed.
Lemma mahal_sym VI x y : Rmahal VI x y = Rmahal VI y x.
Proof. unfold Rmahal. now rewrite (zipw_minus_opp x y), quad_opp. Qed.
Lemma mahal_nonneg VI x y : 0 <= Rmahal VI x y.
Proof. apply sqrt_pos. Qed.
Lemma mahal_diag VI x : Rmahal VI x x = 0.
Proof.
  unfold Rmahal, Rquad. rewrite rsum_zero; [apply sqrt_0|].
  apply (zipw_Forall_r _ (fun t => t = 0)); [intros a b ->; ring|].
  apply zipw_diag_Forall. intros; ring.
Qed.

(* ================================================================================================== *)
(* canberra, braycurtis                                                                               *)
Definition Rcanb_term (a b : R) : R := if Rltb 0 (Rabs a + Rabs b) then Rabs (a - b) / (Rabs a + Rabs b) else 0.
Definition Rcanb (x y : list R) : R := rsum (zipw Rcanb_term x y).
Lemma canb_eq (x y : list R) : d_canberra RNum x y = Rcanb x y.
Proof. unfold d_canberra. rewrite vsum_rsum. reflexivity. Qed.
Lemma canb_term_sym a b : Rcanb_term a b = Rcanb_term b a.
Proof. unfold Rcanb_term. now rewrite (Rplus_comm (Rabs a)), Rabs_minus_sym. Qed.
Lemma canb_term_range a b : 0 <= Rcanb_term a b <= 1.
Proof.
  unfold Rcanb_term. destruct (Rltb 0 (Rabs a + Rabs b)) eqn:E; [apply Rltb_true in E | lra].
  apply div_le_1; [|lra]. split; [apply Rabs_pos|].
  replace (a - b) with (a + - b) by ring. eapply Rle_trans; [apply Rabs_triang|]. rewrite Rabs_Ropp. lra.
Qed.
Lemma canb_term_diag a : Rcanb_term a a = 0.
Proof. unfold Rcanb_term. rewrite Rabs_diag. destruct (Rltb 0 (Rabs a + Rabs a)); unfold Rdiv; ring. Qed.
Lemma canb_sym x y : Rcanb x y = Rcanb y x.
Proof. apply rsum_zipw_sym, canb_term_sym. Qed.
Lemma canb_nonneg x y : 0 <= Rcanb x y.
Proof. apply rsum_zipw_nonneg. intros; apply canb_term_range. Qed.
Lemma canb_diag x : Rcanb x x = 0.
Proof. apply rsum_zipw_diag, canb_term_diag. Qed.

Definition Rbray (x y : list R) : R :=
  let num := rsum (zipw (fun a b => Rabs (a - b)) x y) in
  let den := rsum (zipw (fun a b => Rabs (a + b)) x y) in
  if Rltb 0 den then num / den else 0.
Lemma bray_eq (x y : list R) : d_braycurtis RNum x y = Rbray x y.
Proof. unfold d_braycurtis. cbv zeta. rewrite !vsum_rsum. reflexivity. Qed.
Lemma bray_sym x y : Rbray x y = Rbray y x.
Proof.
  unfold Rbray. cbv zeta.
  rewrite (rsum_zipw_sym (fun a b => Rabs (a - b)) x y) by (intros; apply Rabs_minus_sym).
  rewrite (rsum_zipw_sym (fun a b => Rabs (a + b)) x y) by (intros; now rewrite Rplus_comm).
  reflexivity.
Qed.
Lemma bray_nonneg x y : 0 <= Rbray x y.
Proof.
  unfold Rbray. cbv zeta. destruct (Rltb 0 _) eqn:E; [apply Rltb_true in E | lra].
  apply div_nonneg; [|exact E]. apply manh_nonneg.
Qed.
Lemma bray_diag x : Rbray x x = 0.
Proof.
  unfold Rbray. cbv zeta. fold (Rmanh x x). rewrite manh_diag. destruct (Rltb 0 _); unfold Rdiv; ring.
Qed.
Lemma bray_le_1 x y : Forall (fun a => 0 <= a) x -> Forall (fun a => 0 <= a) y -> Rbray x y <= 1.
Proof.
  intros Hx Hy. unfold Rbray. cbv zeta. destruct (Rltb 0 _) eqn:E; [apply Rltb_true in E | lra].
  apply div_le_c; [exact E|]. rewrite Rmult_1_l.
  apply (rsum_zipw_le_dom (fun a => 0 <= a) (fun a => 0 <= a)); auto.
  intros a b Ha Hb. rewrite (Rabs_right (a + b)) by lra. unfold Rabs. destruct (Rcase_abs (a - b)); lra.
Qed.

(* ================================================================================================== *)
(* cosine, correlation                                                                                *)
Definition Rcos_core (dot nx ny : R) : R := 1 - dot / sqrt (nx * ny).
Definition Rcosine (x y : list R) : R :=
  if Reqb (rsq x) 0 && Reqb (rsq y) 0 then 0
  else if Reqb (rsq x) 0 || Reqb (rsq y) 0 then 1
  else Rcos_core (rdot x y) (rsq x) (rsq y).
Lemma cosine_eq (x y : list R) : d_cosine RNum x y = Rcosine x y.
Proof. unfold d_cosine. cbv zeta. rewrite !vsq_rsq, vdot_rdot. reflexivity. Qed.

Lemma cos_core_range x y : length x = length y -> rsq x <> 0 -> rsq y <> 0 ->
  0 <= Rcos_core (rdot x y) (rsq x) (rsq y) <= 2.
Proof.
  intros HL Hx Hy. pose proof (rsq_nonneg x). pose proof (rsq_nonneg y).
  assert (0 < rsq x * rsq y) as Hp by (apply Rmult_lt_0_compat; lra).
  pose proof (sqrt_lt_R0 _ Hp) as Hs. pose proof (cs_sqrt x y HL) as Hcs.
  unfold Rcos_core. set (s := sqrt (rsq x * rsq y)) in *.
  assert (-1 <= rdot x y / s <= 1) as Hr.
  { pose proof (Rle_abs (rdot x y)) as Hp1. pose proof (Rle_abs (- rdot x y)) as Hn1. rewrite Rabs_Ropp in Hn1.
    split; [apply div_ge_c | apply div_le_c]; lra. }
  lra.
Qed.
Lemma cos_core_diag n : 0 <= n -> n <> 0 -> Rcos_core n n n = 0.
Proof. intros H Hn. unfold Rcos_core. rewrite sqrt_square by lra. field. exact Hn. Qed.
Lemma cosine_sym x y : Rcosine x y = Rcosine y x.
Proof. unfold Rcosine, Rcos_core. now rewrite rdot_sym, andb_comm, orb_comm, (Rmult_comm (rsq x)). Qed.
Lemma cosine_range x y : length x = length y -> 0 <= Rcosine x y <= 2.
Proof.
  intros HL. unfold Rcosine.
  destruct (Reqb (rsq x) 0) eqn:Ex; destruct (Reqb (rsq y) 0) eqn:Ey; simpl; try lra.
  apply Reqb_false in Ex, Ey. now apply cos_core_range.
Qed.
Lemma cosine_diag x : Rcosine x x = 0.
Proof.
  unfold Rcosine. destruct (Reqb (rsq x) 0) eqn:Ex; simpl; [reflexivity|].
  apply Reqb_false in Ex. rewrite rdot_self. apply cos_core_diag; [apply rsq_nonneg | exact Ex].
Qed.

Definition Rcentre (x : list R) : list R := map (fun a => a - rsum x / IZR (Z.of_nat (length x))) x.
Lemma centre_eq (x : list R) : centre RNum x = Rcentre x.
Proof. unfold centre, Rcentre, vmean. cbv zeta. rewrite vsum_rsum. reflexivity. Qed.
Lemma centre_length x : length (Rcentre x) = length x.
Proof. unfold Rcentre. apply map_length. Qed.
Definition Rcorr (x y : list R) : R :=
  let sx := Rcentre x in let sy := Rcentre y in
  if Reqb (rsq sx) 0 && Reqb (rsq sy) 0 then 0
  else if Reqb (rdot sx sy) 0 then 1
  else Rcos_core (rdot sx sy) (rsq sx) (rsq sy).
Lemma corr_eq (x y : list R) : d_correlation RNum x y = Rcorr x y.
Proof. unfold d_correlation. cbv zeta. rewrite !centre_eq, !vsq_rsq, vdot_rdot. reflexivity. Qed.
Lemma corr_sym x y : Rcorr x y = Rcorr y x.
Proof. unfold Rcorr, Rcos_core. cbv zeta. now rewrite rdot_sym, andb_comm, (Rmult_comm (rsq (Rcentre x))). Qed.
Lemma corr_range x y : length x = length y -> 0 <= Rcorr x y <= 2.
Proof.
  intros HL. unfold Rcorr. cbv zeta.
  destruct (Reqb (rsq (Rcentre x)) 0) eqn:Ex; destruct (Reqb (rsq (Rcentre y)) 0) eqn:Ey; simpl; try lra;
    destruct (Reqb (rdot (Rcentre x) (Rcentre y)) 0) eqn:Ed; try lra.
  - (* x constant, y not: the centred dot product is 0, so this branch is not reached *)
    apply Reqb_true in Ex. apply Reqb_false in Ed. exfalso. apply Ed. apply rdot_zero_l. now apply rsq_zero.
  - apply Reqb_true in Ey. apply Reqb_false in Ed. exfalso. apply Ed. rewrite rdot_sym. apply rdot_zero_l. now apply rsq_zero.
  - apply Reqb_false in Ex, Ey. apply cos_core_range; auto. now rewrite !centre_length.
Qed.
Lemma corr_diag x : Rcorr x x = 0.
Proof.
  unfold Rcorr. cbv zeta. destruct (Reqb (rsq (Rcentre x)) 0) eqn:Ex; simpl; [reflexivity|].
  rewrite rdot_self, Ex. apply Reqb_false in Ex. apply cos_core_diag; [apply rsq_nonneg | exact Ex].
Qed.

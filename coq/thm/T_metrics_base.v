(* C12: shared lemmas over the reals — sums over zipped lists, Cauchy-Schwarz on lists, small real facts. *)
From Coq Require Import List ZArith Bool Reals Lra Lia Psatz.
From UV Require Import Num M_metrics.
Import ListNotations.
Local Open Scope R_scope.
Ltac rn := change (T RNum) with R in *.

(* ---- the loop sum is the ordinary sum ----------------------------------------------------------- *)
Fixpoint rsum (l : list R) : R := match l with [] => 0 | a :: r => a + rsum r end.

Lemma fold_add (l : list R) (a : R) : fold_left Rplus l a = a + rsum l.
Proof. revert a; induction l as [|b l IH]; intros a; simpl; [lra|]. rewrite IH; lra. Qed.

Lemma vsum_rsum (l : list R) : vsum RNum l = rsum l.
Proof. unfold vsum. change (add RNum) with Rplus. change (zero RNum) with 0. rewrite fold_add; lra. Qed.

Lemma rsum_app l1 l2 : rsum (l1 ++ l2) = rsum l1 + rsum l2.
Proof. induction l1; simpl; lra. Qed.

Lemma rsum_nonneg l : Forall (fun a => 0 <= a) l -> 0 <= rsum l.
Proof. induction 1; simpl; lra. Qed.

Lemma rsum_zero l : Forall (fun a => a = 0) l -> rsum l = 0.
Proof. induction 1; simpl; lra. Qed.

Lemma rsum_nonneg_zero l : Forall (fun a => 0 <= a) l -> rsum l = 0 -> Forall (fun a => a = 0) l.
Proof.
  induction 1 as [|a l Ha Hl IH]; simpl; intros H; constructor.
  - pose proof (rsum_nonneg l Hl). lra.
  - apply IH. pose proof (rsum_nonneg l Hl). lra.
Qed.

(* ---- zipw ------------------------------------------------------------------------------------------ *)
Lemma zipw_flip {A B C} (f : A -> B -> C) x y : zipw f x y = zipw (fun b a => f a b) y x.
Proof. revert y; induction x as [|a x IH]; destruct y as [|b y]; simpl; auto. now rewrite IH. Qed.

Lemma zipw_ext {A B C} (f g : A -> B -> C) x y : (forall a b, f a b = g a b) -> zipw f x y = zipw g x y.
Proof. intros H; revert y; induction x as [|a x IH]; destruct y as [|b y]; simpl; auto. now rewrite H, IH. Qed.

Lemma zipw_sym {A C} (f : A -> A -> C) x y : (forall a b, f a b = f b a) -> zipw f x y = zipw f y x.
Proof. intros H. rewrite zipw_flip. apply zipw_ext. intros; apply H. Qed.

Lemma zipw_length {A B C} (f : A -> B -> C) x y : length x = length y -> length (zipw f x y) = length x.
Proof. revert y; induction x as [|a x IH]; destruct y as [|b y]; simpl; intros H; auto; try discriminate; try (now rewrite IH by lia). Qed.

Lemma zipw_Forall {A B C} (P : C -> Prop) (f : A -> B -> C) x y : (forall a b, P (f a b)) -> Forall P (zipw f x y).
Proof. intros H; revert y; induction x as [|a x IH]; destruct y as [|b y]; simpl; constructor; auto. Qed.

Lemma zipw_Forall_dom {A B C} (P : C -> Prop) (Q : A -> Prop) (S : B -> Prop) (f : A -> B -> C) x y :
  (forall a b, Q a -> S b -> P (f a b)) -> Forall Q x -> Forall S y -> Forall P (zipw f x y).
Proof.
  intros H Hx; revert y; induction Hx as [|a x Ha Hx IH]; intros y Hy; destruct Hy as [|b y Hb Hy]; simpl; constructor; auto.
Qed.

Lemma zipw_diag_Forall {A C} (P : C -> Prop) (f : A -> A -> C) x : (forall a, P (f a a)) -> Forall P (zipw f x x).
Proof. intros H; induction x; simpl; constructor; auto. Qed.

Lemma zipw_diag_Forall_dom {A C} (P : C -> Prop) (Q : A -> Prop) (f : A -> A -> C) x :
  (forall a, Q a -> P (f a a)) -> Forall Q x -> Forall P (zipw f x x).
Proof. intros H; induction 1; simpl; constructor; auto. Qed.

Lemma zipw_map_l {A A' B C} (f : A' -> B -> C) (g : A -> A') x y : zipw f (map g x) y = zipw (fun a b => f (g a) b) x y.
Proof. revert y; induction x as [|a x IH]; destruct y as [|b y]; simpl; auto. now rewrite IH. Qed.

Lemma zipw_map_r {A B B' C} (f : A -> B' -> C) (g : B -> B') x y : zipw f x (map g y) = zipw (fun a b => f a (g b)) x y.
Proof. revert y; induction x as [|a x IH]; destruct y as [|b y]; simpl; auto. now rewrite IH. Qed.

Lemma map_zipw {A B C D} (g : C -> D) (f : A -> B -> C) x y : map g (zipw f x y) = zipw (fun a b => g (f a b)) x y.
Proof. revert y; induction x as [|a x IH]; destruct y as [|b y]; simpl; auto. now rewrite IH. Qed.

Lemma zipw_same {A C} (f : A -> A -> C) x : zipw f x x = map (fun a => f a a) x.
Proof. induction x; simpl; auto. now rewrite IHx. Qed.

(* sums of zipped terms *)
Lemma rsum_zipw_sym (f : R -> R -> R) x y : (forall a b, f a b = f b a) -> rsum (zipw f x y) = rsum (zipw f y x).
Proof. intros H. now rewrite (zipw_sym f x y H). Qed.

Lemma rsum_zipw_nonneg {A B} (f : A -> B -> R) x y : (forall a b, 0 <= f a b) -> 0 <= rsum (zipw f x y).
Proof. intros H. apply rsum_nonneg, zipw_Forall, H. Qed.

Lemma rsum_zipw_diag {A} (f : A -> A -> R) x : (forall a, f a a = 0) -> rsum (zipw f x x) = 0.
Proof. intros H. apply rsum_zero, zipw_diag_Forall, H. Qed.

Lemma rsum_zipw_le {A B} (f g : A -> B -> R) x y : (forall a b, f a b <= g a b) -> rsum (zipw f x y) <= rsum (zipw g x y).
Proof. intros H; revert y; induction x as [|a x IH]; destruct y as [|b y]; simpl; try lra. specialize (IH y). specialize (H a b). lra. Qed.

Lemma rsum_zipw_le_dom {A B} (Q : A -> Prop) (S : B -> Prop) (f g : A -> B -> R) x y :
  (forall a b, Q a -> S b -> f a b <= g a b) -> Forall Q x -> Forall S y -> rsum (zipw f x y) <= rsum (zipw g x y).
Proof.
  intros H Hx; revert y; induction Hx as [|a x Ha Hx IH]; intros y Hy; destruct Hy as [|b y Hb Hy]; simpl; try lra.
  specialize (IH y Hy). specialize (H a b Ha Hb). lra.
Qed.

Lemma rsum_zipw_add {A B} (f g : A -> B -> R) x y :
  rsum (zipw (fun a b => f a b + g a b) x y) = rsum (zipw f x y) + rsum (zipw g x y).
Proof. revert y; induction x as [|a x IH]; destruct y as [|b y]; simpl; try lra. rewrite IH; lra. Qed.

Lemma rsum_zipw_scal {A B} (c : R) (f : A -> B -> R) x y :
  rsum (zipw (fun a b => c * f a b) x y) = c * rsum (zipw f x y).
Proof. revert y; induction x as [|a x IH]; destruct y as [|b y]; simpl; try lra. rewrite IH; lra. Qed.

Lemma rsum_map_scal (c : R) l : rsum (map (fun a => a * c) l) = rsum l * c.
Proof. induction l; simpl; lra. Qed.

Lemma rsum_map_add (c : R) l : rsum (map (fun a => a + c) l) = rsum l + INR (length l) * c.
Proof. induction l as [|a l IH]; [simpl; lra|]. change (length (a :: l)) with (S (length l)). rewrite S_INR. simpl. rewrite IH. lra. Qed.

(* ---- Cauchy-Schwarz on lists ------------------------------------------------------------------------- *)
Definition rdot (x y : list R) : R := rsum (zipw Rmult x y).
Definition rsq (x : list R) : R := rsum (map (fun a => a * a) x).

Lemma rsq_nonneg x : 0 <= rsq x.
Proof. unfold rsq. apply rsum_nonneg. apply Forall_forall. intros a Ha. apply in_map_iff in Ha. destruct Ha as [b [<- _]]. nra. Qed.

Lemma rsq_zero x : rsq x = 0 -> Forall (fun a => a = 0) x.
Proof.
  unfold rsq. induction x as [|a x IH]; simpl; intros H; constructor.
  - pose proof (rsq_nonneg x) as Hx. unfold rsq in Hx. nra.
  - apply IH. pose proof (rsq_nonneg x) as Hx. unfold rsq in Hx. nra.
Qed.

Lemma rdot_sym x y : rdot x y = rdot y x.
Proof. unfold rdot. apply rsum_zipw_sym. intros; lra. Qed.

Lemma rdot_self x : rdot x x = rsq x.
Proof. unfold rdot, rsq. now rewrite zipw_same. Qed.

Lemma rdot_zero_l x y : Forall (fun a => a = 0) x -> rdot x y = 0.
Proof.
  unfold rdot. intros H; revert y; induction H as [|a x Ha Hx IH]; intros y; destruct y as [|b y]; simpl; try lra.
  rewrite IH, Ha; lra.
Qed.

(* sum (a_i t + b_i)^2 = A t^2 + 2 D t + B *)
Lemma quad_expand x y t : length x = length y ->
  rsum (zipw (fun a b => (a * t + b) * (a * t + b)) x y) = rsq x * (t * t) + 2 * rdot x y * t + rsq y.
Proof.
  unfold rsq, rdot. revert y; induction x as [|a x IH]; destruct y as [|b y]; simpl; intros H; try discriminate; try lra.
  rewrite IH by lia. lra.
Qed.

Theorem cauchy_schwarz x y : length x = length y -> rdot x y * rdot x y <= rsq x * rsq y.
Proof.
  intros HL.
  destruct (Req_dec (rsq x) 0) as [Hz|Hnz].
  - rewrite (rdot_zero_l x y (rsq_zero x Hz)), Hz. lra.
  - pose proof (rsq_nonneg x) as HA. assert (0 < rsq x) as HApos by lra.
    pose proof (quad_expand x y (- rdot x y / rsq x) HL) as HQ.
    assert (0 <= rsum (zipw (fun a b => (a * (- rdot x y / rsq x) + b) * (a * (- rdot x y / rsq x) + b)) x y)) as Hge.
    { apply rsum_zipw_nonneg. intros a b. exact (Rle_0_sqr _). }
    rewrite HQ in Hge.
    assert (rsq x * (- rdot x y / rsq x * (- rdot x y / rsq x)) + 2 * rdot x y * (- rdot x y / rsq x) + rsq y
            = rsq y - rdot x y * rdot x y / rsq x) as E by (field; lra).
    rewrite E in Hge.
    assert (rdot x y * rdot x y / rsq x <= rsq y) as H1 by lra.
    apply (Rmult_le_compat_r (rsq x)) in H1; [|lra].
    unfold Rdiv in H1. rewrite Rmult_assoc, Rinv_l, Rmult_1_r in H1 by lra. lra.
Qed.

(* |D| <= sqrt(A B) *)
Lemma cs_sqrt x y : length x = length y -> Rabs (rdot x y) <= sqrt (rsq x * rsq y).
Proof.
  intros HL. pose proof (cauchy_schwarz x y HL) as H.
  rewrite <- sqrt_Rsqr_abs. apply sqrt_le_1_alt. unfold Rsqr. exact H.
Qed.

(* ---- small real facts ----------------------------------------------------------------------------------- *)
Lemma div_le_1 a b : 0 <= a <= b -> 0 < b -> 0 <= a / b <= 1.
Proof.
  intros [Ha Hab] Hb. split.
  - unfold Rdiv. apply Rmult_le_pos; [lra|]. left; now apply Rinv_0_lt_compat.
  - apply (Rmult_le_reg_r b); [lra|]. unfold Rdiv. rewrite Rmult_assoc, Rinv_l by lra. lra.
Qed.

Lemma div_nonneg a b : 0 <= a -> 0 < b -> 0 <= a / b.
Proof. intros Ha Hb. unfold Rdiv. apply Rmult_le_pos; [lra|]. left; now apply Rinv_0_lt_compat. Qed.

Lemma div_le_c a b c : 0 < b -> a <= c * b -> a / b <= c.
Proof. intros Hb H. apply (Rmult_le_reg_r b); [lra|]. unfold Rdiv. rewrite Rmult_assoc, Rinv_l by lra. lra. Qed.

Lemma div_ge_c a b c : 0 < b -> c * b <= a -> c <= a / b.
Proof. intros Hb H. apply (Rmult_le_reg_r b); [lra|]. unfold Rdiv. rewrite Rmult_assoc, Rinv_l by lra. lra. Qed.

Lemma IZR_nonneg z : (0 <= z)%Z -> 0 <= IZR z.
Proof. intros. now apply IZR_le. Qed.

Lemma IZR_pos z : (0 < z)%Z -> 0 < IZR z.
Proof. intros. now apply IZR_lt. Qed.

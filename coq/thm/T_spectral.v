(* C15 theorems over the reals: facts about the normalised Laplacian on index ranges of any size n,
   the column selection (argsort / [1:k]) and the multi-component write-back. *)
From Coq Require Import List ZArith Bool Arith Reals Lra Psatz Lia Permutation Sorted.
From UV Require Import Num M_spectral.
Import ListNotations.
Local Open Scope R_scope.

Ltac rn := change (T RNum) with R in *.

(* ---- finite sums ------------------------------------------------------------------------------ *)
Definition Rsum : (nat -> R) -> nat -> R := sum_n RNum.
Lemma Rsum_0 f : Rsum f 0 = 0.  Proof. reflexivity. Qed.
Lemma Rsum_S f n : Rsum f (S n) = Rsum f n + f n.  Proof. reflexivity. Qed.

Lemma Rsum_ext f g n : (forall i, (i < n)%nat -> f i = g i) -> Rsum f n = Rsum g n.
Proof.
  induction n; intros H; [reflexivity|].
  rewrite !Rsum_S, IHn, H; auto.
Qed.
Lemma Rsum_plus f g n : Rsum (fun i => f i + g i) n = Rsum f n + Rsum g n.
Proof. induction n; [rewrite !Rsum_0; lra|]. rewrite !Rsum_S, IHn; lra. Qed.
Lemma Rsum_minus f g n : Rsum (fun i => f i - g i) n = Rsum f n - Rsum g n.
Proof. induction n; [rewrite !Rsum_0; lra|]. rewrite !Rsum_S, IHn; lra. Qed.
Lemma Rsum_scal c f n : Rsum (fun i => c * f i) n = c * Rsum f n.
Proof. induction n; [rewrite !Rsum_0; lra|]. rewrite !Rsum_S, IHn; lra. Qed.
Lemma Rsum_zero n : Rsum (fun _ => 0) n = 0.
Proof. induction n; [reflexivity|]. rewrite Rsum_S, IHn; lra. Qed.
Lemma Rsum_nonneg f n : (forall i, (i < n)%nat -> 0 <= f i) -> 0 <= Rsum f n.
Proof.
  induction n; intros H; [rewrite Rsum_0; lra|].
  rewrite Rsum_S. assert (0 <= Rsum f n) by (apply IHn; auto). assert (0 <= f n) by (apply H; lia). lra.
Qed.
Lemma Rsum_swap (f : nat -> nat -> R) n m :
  Rsum (fun i => Rsum (fun j => f i j) m) n = Rsum (fun j => Rsum (fun i => f i j) n) m.
Proof.
  induction n.
  - rewrite Rsum_0. symmetry. rewrite <- (Rsum_zero m). apply Rsum_ext; intros; apply Rsum_0.
  - rewrite Rsum_S, IHn, <- Rsum_plus. apply Rsum_ext; intros; rewrite Rsum_S; reflexivity.
Qed.

Definition Rdelta (i j : nat) : R := if Nat.eqb i j then 1 else 0.
Lemma Rsum_delta i f n : (i < n)%nat -> Rsum (fun j => Rdelta i j * f j) n = f i.
Proof.
  induction n; intros H; [lia|].
  rewrite Rsum_S. destruct (Nat.eq_dec i n) as [->|Hne].
  - replace (Rsum (fun j => Rdelta n j * f j) n) with 0.
    + unfold Rdelta; rewrite Nat.eqb_refl; lra.
    + symmetry; rewrite <- (Rsum_zero n); apply Rsum_ext; intros j Hj.
      unfold Rdelta; destruct (Nat.eqb_spec n j); [lia|lra].
  - rewrite IHn by lia. unfold Rdelta; destruct (Nat.eqb_spec i n); [lia|lra].
Qed.

(* ---- the model at R, with explicit real types --------------------------------------------------- *)
Definition Rmat := nat -> nat -> R.
Definition Rvec := nat -> R.
Definition Rdeg : nat -> Rmat -> nat -> R := degree RNum.
Definition Rsdeg : nat -> Rmat -> nat -> R := sqrt_deg RNum.
Definition Rlap : nat -> Rmat -> Rmat := laplacian RNum.
Definition Rmulmv : nat -> Rmat -> Rvec -> Rvec := mulmv RNum.
Definition Rdot : nat -> Rvec -> Rvec -> R := dot RNum.
Definition Rcol : Rmat -> nat -> Rvec := col RNum.

Lemma Rdeg_eq n A j : Rdeg n A j = Rsum (fun i => A i j) n.  Proof. reflexivity. Qed.
Lemma Rsdeg_eq n A j : Rsdeg n A j = sqrt (Rdeg n A j).  Proof. reflexivity. Qed.
Lemma Rlap_eq n A i j :
  Rlap n A i j = Rdelta i j - (1 / Rsdeg n A i * A i j) * (1 / Rsdeg n A j).
Proof. reflexivity. Qed.
Lemma Rmulmv_eq n M x i : Rmulmv n M x i = Rsum (fun j => M i j * x j) n.  Proof. reflexivity. Qed.
Lemma Rdot_eq n x y : Rdot n x y = Rsum (fun i => x i * y i) n.  Proof. reflexivity. Qed.

Definition symmetric (n : nat) (A : Rmat) : Prop := forall i j, (i < n)%nat -> (j < n)%nat -> A i j = A j i.
Definition nonneg_weights (n : nat) (A : Rmat) : Prop := forall i j, (i < n)%nat -> (j < n)%nat -> 0 <= A i j.
Definition positive_degrees (n : nat) (A : Rmat) : Prop := forall i, (i < n)%nat -> 0 < Rdeg n A i.
Definition eigenpair (n : nat) (M : Rmat) (lam : R) (v : Rvec) : Prop :=
  forall i, (i < n)%nat -> Rmulmv n M v i = lam * v i.

Lemma sdeg_pos n A i : positive_degrees n A -> (i < n)%nat -> 0 < Rsdeg n A i.
Proof. intros H Hi. rewrite Rsdeg_eq. apply sqrt_lt_R0, H, Hi. Qed.
Lemma sdeg_sqr n A i : positive_degrees n A -> (i < n)%nat -> Rsdeg n A i * Rsdeg n A i = Rdeg n A i.
Proof. intros H Hi. rewrite Rsdeg_eq. apply sqrt_sqrt. left; apply H, Hi. Qed.
Lemma row_sum_deg n A i : symmetric n A -> (i < n)%nat -> Rsum (fun j => A i j) n = Rdeg n A i.
Proof. intros Hs Hi. rewrite Rdeg_eq. apply Rsum_ext; intros j Hj; apply Hs; auto. Qed.

(* ---- sqrt(deg) is in the kernel of L -------------------------------------------------------------- *)
Theorem trivial_eigvec n A : symmetric n A -> positive_degrees n A ->
  forall i, (i < n)%nat -> Rmulmv n (Rlap n A) (Rsdeg n A) i = 0.
Proof.
  intros Hs Hp i Hi. rewrite Rmulmv_eq.
  assert (Hsi := sdeg_pos n A i Hp Hi).
  transitivity (Rsum (fun j => Rdelta i j * Rsdeg n A j) n - 1 / Rsdeg n A i * Rsum (fun j => A i j) n).
  - rewrite <- Rsum_scal, <- Rsum_minus. apply Rsum_ext; intros j Hj.
    rewrite Rlap_eq. assert (Hsj := sdeg_pos n A j Hp Hj). field; lra.
  - rewrite Rsum_delta by auto. rewrite row_sum_deg by auto.
    rewrite <- (sdeg_sqr n A i Hp Hi). field; lra.
Qed.

Lemma lap_symmetric n A : symmetric n A -> symmetric n (Rlap n A).
Proof.
  intros Hs i j Hi Hj. rewrite !Rlap_eq, (Hs i j Hi Hj).
  unfold Rdelta. rewrite (Nat.eqb_sym j i). ring.
Qed.

(* ---- quadratic form ------------------------------------------------------------------------------- *)
Definition qform (n : nat) (M : Rmat) (x : Rvec) : R := Rdot n x (Rmulmv n M x).

Theorem laplacian_quadratic_form n A x : symmetric n A -> positive_degrees n A ->
  qform n (Rlap n A) x =
  / 2 * Rsum (fun i => Rsum (fun j =>
            A i j * ((x i / Rsdeg n A i - x j / Rsdeg n A j) * (x i / Rsdeg n A i - x j / Rsdeg n A j))) n) n.
Proof.
  intros Hs Hp. unfold qform. rewrite Rdot_eq.
  set (s := Rsdeg n A). set (y := fun i => x i / s i).
  set (Syy := Rsum (fun i => Rsum (fun j => A i j * (y i * y j)) n) n).
  set (Sxx := Rsum (fun i => x i * x i) n).
  assert (Hxx : forall i, (i < n)%nat -> x i * x i = y i * y i * Rdeg n A i).
  { intros i Hi. unfold y. rewrite <- (sdeg_sqr n A i Hp Hi). fold s.
    assert (0 < s i) by (apply sdeg_pos; auto). field; lra. }
  assert (HL : Rsum (fun i => x i * Rmulmv n (Rlap n A) x i) n = Sxx - Syy).
  { unfold Sxx, Syy. rewrite <- Rsum_minus. apply Rsum_ext; intros i Hi.
    rewrite Rmulmv_eq, <- Rsum_scal.
    transitivity (Rsum (fun j => Rdelta i j * (x i * x j)) n - Rsum (fun j => A i j * (y i * y j)) n).
    - rewrite <- Rsum_minus. apply Rsum_ext; intros j Hj. rewrite Rlap_eq. unfold y. fold s.
      assert (0 < s i) by (apply sdeg_pos; auto). assert (0 < s j) by (apply sdeg_pos; auto). field; lra.
    - rewrite (Rsum_delta i (fun j => x i * x j)) by auto. reflexivity. }
  assert (HP : Rsum (fun i => Rsum (fun j => A i j * (y i * y i)) n) n = Sxx).
  { unfold Sxx. apply Rsum_ext; intros i Hi.
    transitivity (y i * y i * Rsum (fun j => A i j) n).
    - rewrite <- Rsum_scal. apply Rsum_ext; intros; ring.
    - rewrite row_sum_deg by auto. symmetry; apply Hxx; auto. }
  assert (HQ : Rsum (fun i => Rsum (fun j => A i j * (y j * y j)) n) n = Sxx).
  { rewrite Rsum_swap. unfold Sxx. apply Rsum_ext; intros j Hj.
    transitivity (y j * y j * Rsum (fun i => A i j) n).
    - rewrite <- Rsum_scal. apply Rsum_ext; intros; ring.
    - rewrite <- Rdeg_eq. symmetry; apply Hxx; auto. }
  rewrite HL.
  transitivity (/ 2 * (Rsum (fun i => Rsum (fun j => A i j * (y i * y i)) n) n
                       - 2 * Syy + Rsum (fun i => Rsum (fun j => A i j * (y j * y j)) n) n)).
  - rewrite HP, HQ. lra.
  - f_equal. unfold Syy. rewrite <- Rsum_scal, <- Rsum_minus, <- Rsum_plus.
    apply Rsum_ext; intros i Hi. rewrite <- Rsum_scal, <- Rsum_minus, <- Rsum_plus.
    apply Rsum_ext; intros j Hj. unfold y, Rdiv. ring.
Qed.

Theorem laplacian_psd n A x : symmetric n A -> positive_degrees n A -> nonneg_weights n A ->
  0 <= qform n (Rlap n A) x.
Proof.
  intros Hs Hp Hn. rewrite laplacian_quadratic_form by auto.
  apply Rmult_le_pos; [lra|]. apply Rsum_nonneg; intros i Hi. apply Rsum_nonneg; intros j Hj.
  apply Rmult_le_pos; [apply Hn; auto|]. apply Rle_0_sqr.
Qed.

(* every eigenvalue (with a non-zero eigenvector) is >= 0 *)
Lemma eigenvalue_nonneg n A lam v : symmetric n A -> positive_degrees n A -> nonneg_weights n A ->
  eigenpair n (Rlap n A) lam v -> 0 < Rdot n v v -> 0 <= lam.
Proof.
  intros Hs Hp Hn He Hv.
  assert (Hq : qform n (Rlap n A) v = lam * Rdot n v v).
  { unfold qform. rewrite !Rdot_eq, <- Rsum_scal. apply Rsum_ext; intros i Hi. rewrite He by auto. ring. }
  assert (H0 := laplacian_psd n A v Hs Hp Hn). rewrite Hq in H0.
  destruct (Rle_or_lt 0 lam); [auto|]. exfalso. nra.
Qed.

(* eigenvectors of a symmetric matrix for distinct eigenvalues are orthogonal *)
Lemma sym_eig_orth n M lam mu u v : symmetric n M -> eigenpair n M lam u -> eigenpair n M mu v ->
  lam <> mu -> Rdot n u v = 0.
Proof.
  intros Hs Hu Hv Hne.
  assert (H1 : lam * Rdot n u v = Rsum (fun i => Rsum (fun j => M i j * (u j * v i)) n) n).
  { rewrite Rdot_eq, <- Rsum_scal. apply Rsum_ext; intros i Hi.
    transitivity (Rmulmv n M u i * v i); [rewrite Hu by auto; ring|].
    rewrite Rmulmv_eq. rewrite Rmult_comm, <- Rsum_scal. apply Rsum_ext; intros; ring. }
  assert (H2 : mu * Rdot n u v = Rsum (fun i => Rsum (fun j => M i j * (u j * v i)) n) n).
  { rewrite Rsum_swap. rewrite Rdot_eq, <- Rsum_scal. apply Rsum_ext; intros i Hi.
    transitivity (u i * Rmulmv n M v i); [rewrite Hv by auto; ring|].
    rewrite Rmulmv_eq, <- Rsum_scal. apply Rsum_ext; intros j Hj. rewrite (Hs i j) by auto. ring. }
  assert (H3 : (lam - mu) * Rdot n u v = 0) by lra.
  apply Rmult_integral in H3. destruct H3; [lra|auto].
Qed.

(* ---- argsort / select_cols ------------------------------------------------------------------------ *)
Definition Rinsert : (nat -> R) -> nat -> list nat -> list nat := insert_by RNum.
Lemma Rinsert_cons ev x y l :
  Rinsert ev x (y :: l) = if Rleb (ev x) (ev y) then x :: y :: l else y :: Rinsert ev x l.
Proof. reflexivity. Qed.
Lemma Rinsert_nil ev x : Rinsert ev x [] = [x].  Proof. reflexivity. Qed.

Lemma insert_perm ev x l : Permutation (Rinsert ev x l) (x :: l).
Proof.
  induction l as [|y l IH]; [rewrite Rinsert_nil; auto|].
  rewrite Rinsert_cons. destruct (Rleb (ev x) (ev y)); [auto|].
  eapply perm_trans; [apply perm_skip, IH|apply perm_swap].
Qed.

Lemma insert_sorted ev x l : Sorted Rle (map ev l) -> Sorted Rle (map ev (Rinsert ev x l)).
Proof.
  induction l as [|y l IH]; intros Hs.
  - rewrite Rinsert_nil; simpl; constructor; constructor.
  - rewrite Rinsert_cons. destruct (Rleb (ev x) (ev y)) eqn:E.
    + apply Rleb_true in E. simpl. constructor; [exact Hs|constructor; exact E].
    + apply Rleb_false in E. simpl in *. inversion Hs as [|? ? Hs' Hhd]; subst.
      constructor; [apply IH, Hs'|].
      destruct l as [|z l].
      * rewrite Rinsert_nil. simpl. constructor; lra.
      * rewrite Rinsert_cons. destruct (Rleb (ev x) (ev z)); simpl; constructor; [lra|].
        inversion Hhd; subst; assumption.
Qed.

Definition sort_idx (ev : nat -> R) (idxs : list nat) : list nat := fold_right (Rinsert ev) [] idxs.
Lemma sort_idx_perm ev idxs : Permutation (sort_idx ev idxs) idxs.
Proof.
  induction idxs as [|x l IH]; simpl; [auto|].
  eapply perm_trans; [apply insert_perm|apply perm_skip, IH].
Qed.
Lemma sort_idx_sorted ev idxs : Sorted Rle (map ev (sort_idx ev idxs)).
Proof. induction idxs as [|x l IH]; simpl; [constructor|apply insert_sorted, IH]. Qed.

Definition Rargsort : list R -> list nat := argsort RNum.
Definition Rselect : list R -> nat -> list nat := select_cols RNum.
Definition evf (evals : list R) : nat -> R := fun i => nth i evals 0.
Lemma Rargsort_eq evals : Rargsort evals = sort_idx (evf evals) (seq 0 (length evals)).
Proof. reflexivity. Qed.
Lemma Rselect_eq evals k : Rselect evals k = firstn (k - 1) (skipn 1 (Rargsort evals)).
Proof. reflexivity. Qed.

Lemma argsort_perm evals : Permutation (Rargsort evals) (seq 0 (length evals)).
Proof. rewrite Rargsort_eq. apply sort_idx_perm. Qed.
Lemma argsort_sorted evals : Sorted Rle (map (evf evals) (Rargsort evals)).
Proof. rewrite Rargsort_eq. apply sort_idx_sorted. Qed.
Lemma argsort_length evals : length (Rargsort evals) = length evals.
Proof. rewrite (Permutation_length (argsort_perm evals)). apply seq_length. Qed.

Lemma map_nth_seq (l : list R) : map (fun i => nth i l 0) (seq 0 (length l)) = l.
Proof.
  induction l as [|a l IH]; [reflexivity|].
  simpl length. rewrite <- cons_seq, <- seq_shift. simpl. rewrite map_map. simpl. rewrite IH. reflexivity.
Qed.
Lemma argsort_keys_perm evals : Permutation (map (evf evals) (Rargsort evals)) evals.
Proof.
  eapply perm_trans; [apply Permutation_map, argsort_perm|].
  unfold evf. rewrite map_nth_seq. apply Permutation_refl.
Qed.

(* counting *)
Definition count (p : R -> bool) (l : list R) : nat := length (filter p l).
Definition count_lt (l : list R) (x : R) : nat := count (fun y => Rltb y x) l.
Definition count_le (l : list R) (x : R) : nat := count (fun y => Rleb y x) l.
Definition count_eq (l : list R) (x : R) : nat := count (fun y => Reqb y x) l.

Lemma count_cons p a l : count p (a :: l) = ((if p a then 1 else 0) + count p l)%nat.
Proof. unfold count; simpl; destruct (p a); reflexivity. Qed.
Lemma count_perm p l l' : Permutation l l' -> count p l = count p l'.
Proof.
  induction 1.
  - reflexivity.
  - rewrite !count_cons; lia.
  - rewrite !count_cons; lia.
  - congruence.
Qed.
Lemma count_le_split l x : count_le l x = (count_lt l x + count_eq l x)%nat.
Proof.
  unfold count_le, count_lt, count_eq. induction l as [|a l IH]; [reflexivity|].
  rewrite !count_cons, IH.
  unfold Rleb, Rltb, Reqb.
  destruct (Rle_dec a x); destruct (Rlt_dec a x); destruct (Req_EM_T a x); cbv iota; try lia; exfalso; try lra;
    match goal with H : _ <> _ |- _ => apply H; lra end.
Qed.
Lemma count_eq_notin l x : ~ In x l -> count_eq l x = 0%nat.
Proof.
  unfold count_eq. induction l as [|a l IH]; intros H; [reflexivity|].
  rewrite count_cons, IH by (intro; apply H; right; auto).
  destruct (Reqb a x) eqn:E; [apply Reqb_true in E; exfalso; apply H; left; auto|reflexivity].
Qed.
Lemma count_eq_nodup l x : NoDup l -> In x l -> count_eq l x = 1%nat.
Proof.
  unfold count_eq. induction 1 as [|a l Hni Hnd IH]; intros Hin; [destruct Hin|].
  rewrite count_cons. destruct Hin as [->|Hin].
  - fold (count_eq l x). rewrite count_eq_notin by auto.
    destruct (Reqb x x) eqn:E; [reflexivity|apply Reqb_false in E; congruence].
  - rewrite IH by auto. destruct (Reqb a x) eqn:E; [apply Reqb_true in E; subst; contradiction|reflexivity].
Qed.
Lemma count_lt_zero l x : Forall (fun y => x <= y) l -> count_lt l x = 0%nat.
Proof.
  unfold count_lt. induction 1 as [|a l Ha Hl IH]; [reflexivity|].
  rewrite count_cons, IH. destruct (Rltb a x) eqn:E; [apply Rltb_true in E; lra|reflexivity].
Qed.

Lemma sorted_rank l : StronglySorted Rle l -> forall p, (p < length l)%nat ->
  (count_lt l (nth p l 0%R) <= p)%nat /\ (p < count_le l (nth p l 0%R))%nat.
Proof.
  induction 1 as [|a l Hs IH Hall]; intros p Hp; [simpl in Hp; lia|].
  destruct p as [|p].
  - simpl nth. split.
    + rewrite count_lt_zero; [lia|]. constructor; [lra|exact Hall].
    + unfold count_le; rewrite count_cons.
      destruct (Rleb a a) eqn:E; [lia|apply Rleb_false in E; lra].
  - simpl in Hp. simpl nth. destruct (IH p ltac:(lia)) as [H1 H2]. split.
    + unfold count_lt in *; rewrite count_cons. destruct (Rltb a (nth p l 0)); lia.
    + unfold count_le in *; rewrite count_cons.
      assert (Ha : a <= nth p l 0).
      { rewrite Forall_forall in Hall. apply Hall, nth_In. lia. }
      destruct (Rleb a (nth p l 0)) eqn:E; [lia|apply Rleb_false in E; lra].
Qed.

Lemma Rle_trans' : Relations_1.Transitive Rle.
Proof. intros x y z; apply Rle_trans. Qed.

(* rank of the eigenvalue at position p of the ascending order, counted in the original list *)
Lemma argsort_rank evals p : (p < length evals)%nat ->
  let c := nth p (Rargsort evals) 0%nat in
  (c < length evals)%nat /\
  (count_lt evals (evf evals c) <= p)%nat /\ (p < count_le evals (evf evals c))%nat.
Proof.
  intros Hp c.
  assert (Hlen := argsort_length evals).
  assert (Hc : In c (Rargsort evals)) by (apply nth_In; lia).
  split.
  - apply (Permutation_in _ (argsort_perm evals)) in Hc. apply in_seq in Hc. lia.
  - assert (Hs := Sorted_StronglySorted Rle_trans' (argsort_sorted evals)).
    destruct (sorted_rank _ Hs p) as [H1 H2]; [rewrite map_length; lia|].
    assert (Hk : nth p (map (evf evals) (Rargsort evals)) 0 = evf evals c).
    { unfold c. rewrite (nth_indep _ 0 (evf evals 0%nat)) by (rewrite map_length; lia). apply map_nth. }
    rewrite Hk in H1, H2.
    unfold count_lt, count_le in *.
    rewrite (count_perm _ _ _ (argsort_keys_perm evals)) in H1.
    rewrite (count_perm _ _ _ (argsort_keys_perm evals)) in H2. auto.
Qed.

Lemma argsort_rank_distinct evals p : NoDup evals -> (p < length evals)%nat ->
  count_lt evals (evf evals (nth p (Rargsort evals) 0%nat)) = p.
Proof.
  intros Hnd Hp. destruct (argsort_rank evals p Hp) as [Hc [H1 H2]].
  rewrite count_le_split in H2.
  rewrite (count_eq_nodup evals) in H2; [lia|auto|apply nth_In; auto].
Qed.

Lemma select_length evals dim : length evals = S dim -> length (Rselect evals (S dim)) = dim.
Proof.
  intros H. rewrite Rselect_eq, firstn_length, skipn_length, argsort_length, H. lia.
Qed.
Lemma select_nth evals dim j : length evals = S dim -> (j < dim)%nat ->
  nth j (Rselect evals (S dim)) 0%nat = nth (S j) (Rargsort evals) 0%nat.
Proof.
  intros H Hj. rewrite Rselect_eq.
  assert (Hl := argsort_length evals).
  destruct (Rargsort evals) as [|a l] eqn:E; [simpl in Hl; lia|].
  simpl skipn. replace (S dim - 1)%nat with dim by lia. simpl nth.
  rewrite <- (firstn_skipn dim l) at 2. rewrite app_nth1; [reflexivity|].
  rewrite firstn_length. simpl in Hl. lia.
Qed.
Lemma nodup_app_r {X} (l l' : list X) : NoDup (l ++ l') -> NoDup l'.
Proof. induction l as [|a l IH]; simpl; intros H; [exact H|]. inversion H; auto. Qed.
Lemma nodup_app_l {X} (l l' : list X) : NoDup (l ++ l') -> NoDup l.
Proof.
  induction l as [|a l IH]; simpl; intros H; [constructor|].
  inversion H as [|? ? Hni Hnd]; subst. constructor; [intro Hin; apply Hni, in_or_app; left; exact Hin|apply IH, Hnd].
Qed.
Lemma select_nodup evals k : NoDup (Rselect evals k).
Proof.
  rewrite Rselect_eq.
  assert (Hnd : NoDup (Rargsort evals)).
  { apply (Permutation_NoDup (Permutation_sym (argsort_perm evals))), seq_NoDup. }
  rewrite <- (firstn_skipn 1 (Rargsort evals)) in Hnd. apply nodup_app_r in Hnd.
  rewrite <- (firstn_skipn (k - 1) (skipn 1 (Rargsort evals))) in Hnd. apply nodup_app_l in Hnd. exact Hnd.
Qed.

(* what the external solver is assumed to return: k eigenpairs of M with unit-norm vectors *)
Definition solve_spec (n : nat) (M : Rmat) (k : nat) (evals : list R) (V : Rmat) : Prop :=
  length evals = k /\
  forall c, (c < k)%nat -> eigenpair n M (nth c evals 0) (Rcol V c) /\ Rdot n (Rcol V c) (Rcol V c) = 1.

Lemma count_lt_pos_witness l x : (0 < count_lt l x)%nat -> exists y, In y l /\ y < x.
Proof.
  unfold count_lt. induction l as [|a l IH]; [unfold count; simpl; lia|].
  rewrite count_cons. destruct (Rltb a x) eqn:E.
  - intros _. exists a; split; [left; auto|apply Rltb_true in E; auto].
  - intros H. destruct IH as [y [Hy Hlt]]; [lia|]. exists y; split; [right; auto|auto].
Qed.

Theorem select_cols_spec n A dim evals V :
  symmetric n A -> nonneg_weights n A -> positive_degrees n A ->
  solve_spec n (Rlap n A) (S dim) evals V -> NoDup evals ->
  let cols := Rselect evals (S dim) in
  length cols = dim /\ NoDup cols /\
  forall j, (j < dim)%nat ->
    let c := nth j cols 0%nat in
    (c < S dim)%nat /\
    eigenpair n (Rlap n A) (nth c evals 0) (Rcol V c) /\
    count_lt evals (nth c evals 0) = S j /\
    0 < nth c evals 0 /\
    Rdot n (Rcol V c) (Rsdeg n A) = 0.
Proof.
  intros Hs Hn Hp [Hlen Hsp] Hnd cols.
  split; [apply select_length; auto|]. split; [apply select_nodup|].
  intros j Hj c.
  assert (Hc : c = nth (S j) (Rargsort evals) 0%nat) by (apply select_nth; auto).
  destruct (argsort_rank evals (S j) ltac:(lia)) as [Hclt _]. rewrite <- Hc in Hclt.
  assert (Hrank : count_lt evals (nth c evals 0) = S j).
  { rewrite Hc. apply (argsort_rank_distinct evals (S j)); [auto|lia]. }
  destruct (Hsp c ltac:(lia)) as [Hpair Hunit].
  assert (Hpos : 0 < nth c evals 0).
  { destruct (count_lt_pos_witness evals (nth c evals 0)) as [y [Hy Hlt]]; [lia|].
    destruct (In_nth _ _ 0 Hy) as [c' [Hc' Hy']]. subst y.
    destruct (Hsp c' ltac:(lia)) as [Hpair' Hunit'].
    assert (0 <= nth c' evals 0); [|lra].
    eapply eigenvalue_nonneg; eauto. rewrite Hunit'; lra. }
  repeat split; auto; try lia.
  apply (sym_eig_orth n (Rlap n A) (nth c evals 0) 0).
  - apply lap_symmetric; auto.
  - exact Hpair.
  - intros i Hi. rewrite trivial_eigvec by auto. ring.
  - lra.
Qed.

(* the same, for the model of the connected path with the solver as a section variable *)
Section Solver.
Variable solve : Rmat -> nat -> nat -> list R * Rmat.
Definition Rspectral_connected : nat -> Rmat -> nat -> list Rvec := spectral_connected RNum solve.

Theorem spectral_connected_spec n A dim :
  symmetric n A -> nonneg_weights n A -> positive_degrees n A ->
  solve_spec n (Rlap n A) (S dim) (fst (solve (Rlap n A) n (S dim))) (snd (solve (Rlap n A) n (S dim))) ->
  NoDup (fst (solve (Rlap n A) n (S dim))) ->
  let out := Rspectral_connected n A dim in
  length out = dim /\
  forall j, (j < dim)%nat -> exists lam,
    eigenpair n (Rlap n A) lam (nth j out (fun _ => 0)) /\
    0 < lam /\
    count_lt (fst (solve (Rlap n A) n (S dim))) lam = S j /\
    Rdot n (nth j out (fun _ => 0)) (Rsdeg n A) = 0.
Proof.
  intros Hs Hn Hp Hspec Hnd out.
  unfold out, Rspectral_connected, spectral_connected. fold (Rlap n A).
  destruct (solve (Rlap n A) n (S dim)) as [evals V] eqn:E. simpl in Hspec, Hnd.
  destruct (select_cols_spec n A dim evals V Hs Hn Hp Hspec Hnd) as [Hl [_ Hall]].
  fold (Rselect evals (S dim)). split; [rewrite map_length; exact Hl|].
  intros j Hj. destruct (Hall j Hj) as [Hc [Hpair [Hrank [Hpos Horth]]]].
  exists (nth (nth j (Rselect evals (S dim)) 0%nat) evals 0).
  assert (Hnth : nth j (map (col RNum V) (Rselect evals (S dim))) (fun _ => 0)
                 = Rcol V (nth j (Rselect evals (S dim)) 0%nat)).
  { rewrite (nth_indep _ (fun _ => 0) (col RNum V 0%nat)) by (rewrite map_length; lia). apply map_nth. }
  unfold Rvec, vector in *. rn. simpl fst. rewrite Hnth. auto.
Qed.
End Solver.


(* ---- connectivity, the kernel of L, and the repaired selection -------------------------------- *)
Inductive reach (n : nat) (A : Rmat) : nat -> nat -> Prop :=
| reach_refl i : (i < n)%nat -> reach n A i i
| reach_step i j k : reach n A i j -> (k < n)%nat -> 0 < A j k -> reach n A i k.
Definition connected (n : nat) (A : Rmat) : Prop := forall i j, (i < n)%nat -> (j < n)%nat -> reach n A i j.

Lemma reach_lt n A i j : reach n A i j -> (i < n)%nat /\ (j < n)%nat.
Proof. induction 1; tauto. Qed.

Lemma Rsum_zero_terms f n : (forall i, (i < n)%nat -> 0 <= f i) -> Rsum f n = 0 -> forall i, (i < n)%nat -> f i = 0.
Proof.
  induction n; intros Hp Hs i Hi; [lia|]. rewrite Rsum_S in Hs.
  assert (0 <= Rsum f n) by (apply Rsum_nonneg; auto). assert (0 <= f n) by (apply Hp; lia).
  destruct (Nat.eq_dec i n) as [->|]; [lra|]. apply IHn; auto; try lia; lra.
Qed.

(* an eigenvector for eigenvalue 0 has x_i / sqrt d_i equal across every edge ... *)
Lemma kernel_edge n A x : symmetric n A -> positive_degrees n A -> nonneg_weights n A ->
  eigenpair n (Rlap n A) 0 x ->
  forall i j, (i < n)%nat -> (j < n)%nat -> 0 < A i j -> x i / Rsdeg n A i = x j / Rsdeg n A j.
Proof.
  intros Hs Hp Hn He i j Hi Hj Hij.
  assert (Hq : qform n (Rlap n A) x = 0).
  { unfold qform. rewrite Rdot_eq. rewrite <- (Rsum_zero n). apply Rsum_ext; intros a Ha. rewrite He by auto. ring. }
  rewrite laplacian_quadratic_form in Hq by auto.
  set (d := fun a b => x a / Rsdeg n A a - x b / Rsdeg n A b) in *.
  assert (Hz : Rsum (fun a => Rsum (fun b => A a b * (d a b * d a b)) n) n = 0).
  { apply Rmult_eq_reg_l with (/ 2); [|lra]. rewrite Rmult_0_r, <- Hq. reflexivity. }
  assert (Hin : forall a, (a < n)%nat -> forall b, (b < n)%nat -> 0 <= A a b * (d a b * d a b)).
  { intros a Ha b Hb. apply Rmult_le_pos; [apply Hn; auto|apply Rle_0_sqr]. }
  assert (H1 := Rsum_zero_terms _ n (fun a Ha => Rsum_nonneg _ n (Hin a Ha)) Hz i Hi). simpl in H1.
  assert (H2 := Rsum_zero_terms _ n (Hin i Hi) H1 j Hj). simpl in H2.
  apply Rmult_integral in H2. destruct H2 as [H2|H2]; [lra|].
  apply Rmult_integral in H2. unfold d in H2. destruct H2; lra.
Qed.

(* ... hence, on a connected graph, it is a multiple of sqrt(deg): eigenvalue 0 is simple *)
Lemma kernel_span n A x : symmetric n A -> positive_degrees n A -> nonneg_weights n A -> connected n A ->
  eigenpair n (Rlap n A) 0 x ->
  forall i, (i < n)%nat -> x i = x 0%nat / Rsdeg n A 0%nat * Rsdeg n A i.
Proof.
  intros Hs Hp Hn Hc He i Hi.
  assert (Hr : forall a b, reach n A a b -> x a / Rsdeg n A a = x b / Rsdeg n A b).
  { induction 1 as [|a b c Hab IH Hc' Hbc]; [reflexivity|].
    rewrite IH. apply kernel_edge; auto. apply reach_lt in Hab; tauto. }
  rewrite (Hr 0%nat i) by (apply Hc; lia).
  assert (0 < Rsdeg n A i) by (apply sdeg_pos; auto). field; lra.
Qed.

Definition Rcosine : nat -> Rvec -> Rvec -> R := cosine RNum.
Lemma Rcosine_eq n s v : Rcosine n s v = Rabs (Rdot n s v) / sqrt (Rdot n s s).
Proof. reflexivity. Qed.
Lemma Rdot_comm n x y : Rdot n x y = Rdot n y x.
Proof. rewrite !Rdot_eq. apply Rsum_ext; intros; ring. Qed.
Lemma cos_orth n s v : Rdot n s v = 0 -> Rcosine n s v = 0.
Proof. intros H. rewrite Rcosine_eq, H, Rabs_R0. unfold Rdiv; ring. Qed.
Lemma cos_parallel n s v t : 0 < Rdot n s s -> (forall i, (i < n)%nat -> v i = t * s i) -> Rdot n v v = 1 ->
  Rcosine n s v = 1.
Proof.
  intros HD Hv Hu. set (D := Rdot n s s) in *.
  assert (Hsv : Rdot n s v = t * D).
  { unfold D. rewrite !Rdot_eq, <- Rsum_scal. apply Rsum_ext; intros i Hi. rewrite Hv by auto. ring. }
  assert (Hvv : t * t * D = 1).
  { rewrite <- Hu. unfold D. rewrite !Rdot_eq, <- Rsum_scal. apply Rsum_ext; intros i Hi. rewrite Hv by auto. ring. }
  assert (HsD : 0 < sqrt D) by (apply sqrt_lt_R0; auto).
  assert (HsD2 : sqrt D * sqrt D = D) by (apply sqrt_sqrt; lra).
  rewrite Rcosine_eq, Hsv, Rabs_mult, (Rabs_pos_eq D) by lra.
  assert (Hz : Rabs t * sqrt D = 1).
  { assert (0 <= Rabs t) by apply Rabs_pos.
    assert (Rabs t * Rabs t = t * t) by (rewrite <- Rabs_mult; apply Rabs_pos_eq; nra).
    assert ((Rabs t * sqrt D) * (Rabs t * sqrt D) = 1) by nra.
    assert (0 <= Rabs t * sqrt D) by (apply Rmult_le_pos; lra). nra. }
  rewrite <- Hz. fold D. rewrite <- HsD2 at 1. field; lra.
Qed.

(* argmax *)
Definition Ramax_from : list R -> nat -> R -> nat -> nat := argmax_from RNum.
Definition Rargmax : list R -> nat := argmax RNum.
Lemma Ramax_from_cons x l i best bi :
  Ramax_from (x :: l) i best bi = if Rltb best x then Ramax_from l (S i) x i else Ramax_from l (S i) best bi.
Proof. reflexivity. Qed.

Lemma skipn_cons_inv {X} (L : list X) i x l d :
  skipn i L = x :: l -> nth i L d = x /\ skipn (S i) L = l /\ (i < length L)%nat.
Proof.
  revert L; induction i; intros L H; destruct L as [|y L]; simpl in H; try discriminate.
  - inversion H; subst. simpl. repeat split; auto; lia.
  - destruct (IHi _ H) as (a & b & c). simpl. repeat split; auto; lia.
Qed.

Lemma amax_spec (L0 : list R) : forall l i best bi,
  skipn i L0 = l -> nth bi L0 0 = best -> (bi < length L0)%nat ->
  (forall q, (q < i)%nat -> (q < length L0)%nat -> nth q L0 0 <= best) ->
  (Ramax_from l i best bi < length L0)%nat /\
  forall q, (q < length L0)%nat -> nth q L0 0 <= nth (Ramax_from l i best bi) L0 0.
Proof.
  induction l as [|x l IH]; intros i best bi Hsk Hb Hbi Hall.
  - simpl. split; [auto|]. intros q Hq. rewrite Hb. apply Hall; auto.
    apply (f_equal (@length R)) in Hsk. rewrite skipn_length in Hsk. simpl in Hsk. lia.
  - destruct (skipn_cons_inv L0 i x l 0 Hsk) as (Hx & Hsk' & Hi).
    rewrite Ramax_from_cons. destruct (Rltb best x) eqn:E.
    + apply Rltb_true in E. apply IH; auto.
      intros q Hq Hq'. destruct (Nat.eq_dec q i) as [->|]; [lra|].
      assert (nth q L0 0 <= best) by (apply Hall; auto; lia). lra.
    + apply Rltb_false in E. apply IH; auto.
      intros q Hq Hq'. destruct (Nat.eq_dec q i) as [->|]; [lra|]. apply Hall; auto; lia.
Qed.

Lemma argmax_spec (L0 : list R) : L0 <> [] ->
  (Rargmax L0 < length L0)%nat /\ forall q, (q < length L0)%nat -> nth q L0 0 <= nth (Rargmax L0) L0 0.
Proof.
  destruct L0 as [|x l]; [congruence|]. intros _.
  apply (amax_spec (x :: l) l 1 x 0%nat); auto; simpl; try lia.
  intros q Hq _. replace q with 0%nat by lia. lra.
Qed.

Definition Rdrop : list R -> list nat -> list nat := drop_trivial RNum.
Definition Rselect_nt : nat -> Rvec -> list R -> Rmat -> nat -> list nat := select_nontrivial RNum.
Lemma Rdrop_eq cosl order :
  Rdrop cosl order = if Rltb (1 / (1 + 1)) (nth (Rargmax cosl) cosl 0) then remove_nth (Rargmax cosl) order else order.
Proof. reflexivity. Qed.
Lemma Rselect_nt_eq n s evals V dim :
  Rselect_nt n s evals V dim =
  firstn dim (Rdrop (map (fun c => Rcosine n s (Rcol V c)) (Rargsort evals)) (Rargsort evals)).
Proof. reflexivity. Qed.

Definition count_pos_lt (l : list R) (x : R) : nat := count (fun y => Rltb 0 y && Rltb y x) l.

Lemma count_pos_lt_all_pos l x : Forall (fun y => 0 < y) l -> count_pos_lt l x = count_lt l x.
Proof.
  unfold count_pos_lt, count_lt. induction 1 as [|a l Ha Hl IH]; [reflexivity|].
  rewrite !count_cons, IH. destruct (Rltb 0 a) eqn:E; [reflexivity|apply Rltb_false in E; lra].
Qed.
Lemma count_pos_lt_one_zero l x : Forall (fun y => 0 <= y) l -> NoDup l -> In 0 l -> 0 < x ->
  count_lt l x = S (count_pos_lt l x).
Proof.
  intros Hall Hnd Hin Hx.
  assert (H : count_lt l x = (count_pos_lt l x + count_eq l 0)%nat).
  { unfold count_pos_lt, count_lt, count_eq. clear Hnd Hin.
    induction Hall as [|a l Ha Hl IH]; [reflexivity|]. rewrite !count_cons, IH.
    unfold Rltb, Reqb. destruct (Rlt_dec a x); destruct (Rlt_dec 0 a); destruct (Req_EM_T a 0); simpl; try lia; exfalso; lra. }
  rewrite H, (count_eq_nodup l 0) by auto. lia.
Qed.

Lemma remove_nth_0 {X} (l : list X) : remove_nth 0 l = skipn 1 l.
Proof. reflexivity. Qed.

Section SelectNontrivial.
Variables (n : nat) (A : Rmat) (dim : nat) (evals : list R) (V : Rmat).
Hypothesis Hs : symmetric n A.
Hypothesis Hn : nonneg_weights n A.
Hypothesis Hp : positive_degrees n A.
Hypothesis Hc : connected n A.
Hypothesis Hspec : solve_spec n (Rlap n A) (S dim) evals V.
Hypothesis Hnd : NoDup evals.

Let s := Rsdeg n A.
Let lam (c : nat) := nth c evals 0.

Lemma sn_npos : (0 < n)%nat.
Proof.
  destruct Hspec as [_ H]. destruct (H 0%nat ltac:(lia)) as [_ Hu].
  destruct n; [|lia]. rewrite Rdot_eq, Rsum_0 in Hu. lra.
Qed.
Lemma sn_ss_pos : 0 < Rdot n s s.
Proof.
  assert (Hn0 := sn_npos). rewrite Rdot_eq. destruct n as [|m]; [lia|].
  rewrite Rsum_S.
  assert (0 <= Rsum (fun i => s i * s i) m).
  { apply Rsum_nonneg; intros i Hi. assert (0 < s i) by (apply sdeg_pos; auto; lia). nra. }
  assert (0 < s m) by (apply sdeg_pos; auto). nra.
Qed.
Lemma sn_pair c : (c < S dim)%nat -> eigenpair n (Rlap n A) (lam c) (Rcol V c) /\ Rdot n (Rcol V c) (Rcol V c) = 1.
Proof. intros H. destruct Hspec as [_ H']. apply H'; auto. Qed.
Lemma sn_nonneg c : (c < S dim)%nat -> 0 <= lam c.
Proof.
  intros H. destruct (sn_pair c H) as [He Hu]. eapply eigenvalue_nonneg; eauto. rewrite Hu; lra.
Qed.
Lemma sn_trivial_eig : eigenpair n (Rlap n A) 0 s.
Proof. intros i Hi. unfold s. rewrite trivial_eigvec by auto. ring. Qed.
Lemma sn_orth c : (c < S dim)%nat -> lam c <> 0 -> Rdot n (Rcol V c) s = 0.
Proof.
  intros H Hne. destruct (sn_pair c H) as [He _].
  apply (sym_eig_orth n (Rlap n A) (lam c) 0); auto. apply lap_symmetric; auto. apply sn_trivial_eig.
Qed.
Lemma sn_cos_nonzero c : (c < S dim)%nat -> lam c <> 0 -> Rcosine n s (Rcol V c) = 0.
Proof. intros H Hne. apply cos_orth. rewrite Rdot_comm. apply sn_orth; auto. Qed.
Lemma sn_cos_zero c : (c < S dim)%nat -> lam c = 0 -> Rcosine n s (Rcol V c) = 1.
Proof.
  intros H H0. destruct (sn_pair c H) as [He Hu]. rewrite H0 in He.
  apply (cos_parallel n s (Rcol V c) (Rcol V c 0%nat / s 0%nat)); [apply sn_ss_pos| |exact Hu].
  intros i Hi. apply kernel_span; auto.
Qed.
Lemma sn_len : length evals = S dim.
Proof. destruct Hspec; auto. Qed.
Lemma sn_all_nonneg : Forall (fun y => 0 <= y) evals.
Proof.
  apply Forall_forall. intros y Hy. destruct (In_nth _ _ 0 Hy) as [c [Hc' Hy']]. subst y.
  apply sn_nonneg. rewrite <- sn_len. auto.
Qed.

Let order := Rargsort evals.
Let cosl := map (fun c => Rcosine n s (Rcol V c)) order.

Lemma sn_order_lt p : (p < S dim)%nat -> (nth p order 0 < S dim)%nat.
Proof.
  intros H. destruct (argsort_rank evals p) as [H1 _]; [rewrite sn_len; auto|]. rewrite sn_len in H1. exact H1.
Qed.
Lemma sn_cosl_nth p : (p < S dim)%nat -> nth p cosl 0 = Rcosine n s (Rcol V (nth p order 0%nat)).
Proof.
  intros H. unfold cosl.
  rewrite (nth_indep _ 0 (Rcosine n s (Rcol V 0%nat))) by (rewrite map_length; unfold order; rewrite argsort_length, sn_len; auto).
  apply (map_nth (fun c => Rcosine n s (Rcol V c))).
Qed.

Theorem select_nontrivial_spec :
  let cols := Rselect_nt n s evals V dim in
  length cols = dim /\ NoDup cols /\
  (In 0 evals -> cols = Rselect evals (S dim)) /\
  forall j, (j < dim)%nat ->
    let c := nth j cols 0%nat in
    (c < S dim)%nat /\
    eigenpair n (Rlap n A) (nth c evals 0) (Rcol V c) /\
    0 < nth c evals 0 /\
    count_pos_lt evals (nth c evals 0) = j /\
    Rdot n (Rcol V c) s = 0.
Proof.
  intros cols. unfold cols. rewrite Rselect_nt_eq. fold order. fold cosl. rewrite Rdrop_eq.
  assert (Hlen := sn_len).
  assert (Hol : length order = S dim) by (unfold order; rewrite argsort_length; auto).
  assert (Hcl : length cosl = S dim) by (unfold cosl; rewrite map_length; auto).
  destruct (argmax_spec cosl) as [Hpl Hmax]; [intro E; rewrite E in Hcl; discriminate|].
  rewrite Hcl in Hpl, Hmax. set (p := Rargmax cosl) in *.
  destruct (Rltb (1 / (1 + 1)) (nth p cosl 0)) eqn:E.
  - (* the solver returned the trivial pair: it is dropped, the rest is argsort[1:k] *)
    apply Rltb_true in E. rewrite sn_cosl_nth in E by auto.
    assert (Hl0 : lam (nth p order 0%nat) = 0).
    { destruct (Req_dec (lam (nth p order 0%nat)) 0) as [H|H]; [auto|].
      rewrite sn_cos_nonzero in E; auto; [lra|apply sn_order_lt; auto]. }
    assert (Hp0 : p = 0%nat).
    { assert (Hr := argsort_rank_distinct evals p Hnd ltac:(lia)). fold order in Hr.
      unfold evf in Hr. fold (lam (nth p order 0%nat)) in Hr. rewrite Hl0 in Hr.
      rewrite count_lt_zero in Hr; [auto|exact sn_all_nonneg]. }
    rewrite Hp0, remove_nth_0. fold (Rargsort evals) in order.
    assert (Heq : firstn dim (skipn 1 order) = Rselect evals (S dim)).
    { rewrite Rselect_eq. replace (S dim - 1)%nat with dim by lia. reflexivity. }
    rewrite Heq.
    destruct (select_cols_spec n A dim evals V Hs Hn Hp Hspec Hnd) as [Hl [Hndc Hall]].
    split; [exact Hl|]. split; [exact Hndc|]. split; [reflexivity|].
    intros j Hj. destruct (Hall j Hj) as (H1 & H2 & H3 & H4 & H5).
    repeat split; auto.
    assert (Hin0 : In 0 evals).
    { rewrite <- Hl0. unfold lam. apply nth_In. rewrite Hlen. apply sn_order_lt; auto. }
    assert (H6 := count_pos_lt_one_zero evals _ sn_all_nonneg Hnd Hin0 H4). lia.
  - (* no returned vector is parallel to sqrt(deg): every returned eigenvalue is positive, keep the dim smallest *)
    apply Rltb_false in E.
    assert (Hpos : forall c, (c < S dim)%nat -> 0 < lam c).
    { intros c Hc'. destruct (Req_dec (lam c) 0) as [H0|H0]; [|assert (H := sn_nonneg c Hc'); lra].
      exfalso.
      assert (Hperm := argsort_perm evals). fold order in Hperm.
      assert (Hinc : In c order) by (apply (Permutation_in _ (Permutation_sym Hperm)), in_seq; lia).
      destruct (In_nth _ _ 0%nat Hinc) as [q [Hq Hq']]. rewrite Hol in Hq.
      assert (Hcq := Hmax q Hq). rewrite (sn_cosl_nth q Hq), Hq', (sn_cos_zero c Hc' H0) in Hcq. lra. }
    assert (Hallpos : Forall (fun y => 0 < y) evals).
    { apply Forall_forall. intros y Hy. destruct (In_nth _ _ 0 Hy) as [c [Hc' Hy']]. subst y.
      apply Hpos. rewrite <- Hlen; auto. }
    assert (Hndo : NoDup order).
    { apply (Permutation_NoDup (Permutation_sym (argsort_perm evals))), seq_NoDup. }
    split; [rewrite firstn_length, Hol; lia|].
    split; [rewrite <- (firstn_skipn dim order) in Hndo; apply nodup_app_l in Hndo; exact Hndo|].
    split.
    { intros Hin0. exfalso. rewrite Forall_forall in Hallpos. specialize (Hallpos 0 Hin0). lra. }
    intros j Hj.
    assert (Hnj : nth j (firstn dim order) 0%nat = nth j order 0%nat).
    { rewrite <- (firstn_skipn dim order) at 2. rewrite app_nth1; [reflexivity|]. rewrite firstn_length, Hol. lia. }
    cbv zeta. rewrite Hnj.
    assert (Hcj := sn_order_lt j ltac:(lia)).
    destruct (sn_pair _ Hcj) as [He _].
    repeat split; auto.
    + apply Hpos; auto.
    + rewrite count_pos_lt_all_pos by auto.
      apply (argsort_rank_distinct evals j Hnd). lia.
    + apply sn_orth; auto. assert (H := Hpos _ Hcj). unfold lam in *. lra.
Qed.
End SelectNontrivial.

(* the connected-graph path with the repaired selection, solver as a variable *)
Section SolverNt.
Variable solve : Rmat -> nat -> nat -> list R * Rmat.
Definition Rspectral_connected_nt : nat -> Rmat -> nat -> list Rvec := spectral_connected_nt RNum solve.

Theorem spectral_connected_nt_spec n A dim :
  symmetric n A -> nonneg_weights n A -> positive_degrees n A -> connected n A ->
  solve_spec n (Rlap n A) (S dim) (fst (solve (Rlap n A) n (S dim))) (snd (solve (Rlap n A) n (S dim))) ->
  NoDup (fst (solve (Rlap n A) n (S dim))) ->
  let out := Rspectral_connected_nt n A dim in
  length out = dim /\
  forall j, (j < dim)%nat -> exists lam,
    eigenpair n (Rlap n A) lam (nth j out (fun _ => 0)) /\
    0 < lam /\
    count_pos_lt (fst (solve (Rlap n A) n (S dim))) lam = j /\
    Rdot n (nth j out (fun _ => 0)) (Rsdeg n A) = 0.
Proof.
  intros Hs Hn Hp Hc Hspec Hnd out.
  unfold out, Rspectral_connected_nt, spectral_connected_nt. fold (Rlap n A). fold (Rsdeg n A).
  destruct (solve (Rlap n A) n (S dim)) as [evals V] eqn:E. simpl in Hspec, Hnd.
  destruct (select_nontrivial_spec n A dim evals V Hs Hn Hp Hc Hspec Hnd) as [Hl [_ [_ Hall]]].
  fold (Rselect_nt n (Rsdeg n A) evals V dim). split; [rewrite map_length; exact Hl|].
  intros j Hj. destruct (Hall j Hj) as (Hc' & Hpair & Hpos & Hrank & Horth).
  exists (nth (nth j (Rselect_nt n (Rsdeg n A) evals V dim) 0%nat) evals 0).
  assert (Hnth : nth j (map (col RNum V) (Rselect_nt n (Rsdeg n A) evals V dim)) (fun _ => 0)
                 = Rcol V (nth j (Rselect_nt n (Rsdeg n A) evals V dim) 0%nat)).
  { rewrite (nth_indep _ (fun _ => 0) (col RNum V 0%nat)) by (rewrite map_length; lia). apply map_nth. }
  unfold Rvec, vector in *. rn. simpl fst. rewrite Hnth. auto.
Qed.
End SolverNt.


(* ---- the legacy selection argsort[1:k] when the solver does not return the trivial pair ---------- *)
(* whatever the graph: if every returned eigenvalue is positive (the trivial pair is not among the k pairs), the pair with
   the smallest returned eigenvalue -- a non-trivial one -- is not selected, although it is smaller than every selected one *)
Lemma legacy_selection_drops_smallest evals dim :
  length evals = S dim -> NoDup evals ->
  let c0 := nth 0 (Rargsort evals) 0%nat in
  (c0 < S dim)%nat /\ ~ In c0 (Rselect evals (S dim)) /\
  forall c, In c (Rselect evals (S dim)) -> nth c0 evals 0 < nth c evals 0.
Proof.
  intros Hlen Hnd c0.
  assert (Hol := argsort_length evals). rewrite Hlen in Hol.
  assert (Hndo : NoDup (Rargsort evals)).
  { apply (Permutation_NoDup (Permutation_sym (argsort_perm evals))), seq_NoDup. }
  destruct (argsort_rank evals 0) as [Hc0 _]; [lia|]. fold c0 in Hc0. rewrite Hlen in Hc0.
  assert (Hsel : forall c, In c (Rselect evals (S dim)) -> exists j, (j < dim)%nat /\ c = nth (S j) (Rargsort evals) 0%nat).
  { intros c Hin. destruct (In_nth _ _ 0%nat Hin) as [j [Hj Hc]]. rewrite select_length in Hj by auto.
    exists j; split; [auto|]. rewrite <- Hc. apply select_nth; auto. }
  split; [exact Hc0|]. split.
  - intros Hin. destruct (Hsel _ Hin) as [j [Hj Hc]].
    unfold c0 in Hc. apply (NoDup_nth (Rargsort evals) 0%nat) in Hc; auto; lia.
  - intros c Hin. destruct (Hsel _ Hin) as [j [Hj Hc]].
    assert (H0 := argsort_rank_distinct evals 0 Hnd ltac:(lia)). fold c0 in H0.
    assert (H1 := argsort_rank_distinct evals (S j) Hnd ltac:(lia)). rewrite <- Hc in H1.
    unfold evf in H0, H1.
    destruct (Rlt_or_le (nth c0 evals 0) (nth c evals 0)) as [|Hle]; [auto|exfalso].
    (* count_lt is monotone *)
    assert (Hmono : forall l x y, y <= x -> (count_lt l y <= count_lt l x)%nat).
    { intros l x y Hxy. unfold count_lt. induction l as [|a l IH]; [unfold count; simpl; lia|].
      rewrite !count_cons. destruct (Rltb a y) eqn:E1; destruct (Rltb a x) eqn:E2; try lia.
      apply Rltb_true in E1. apply Rltb_false in E2. lra. }
    specialize (Hmono evals _ _ Hle). lia.
Qed.


(* such an answer exists: the path 0 - 1 - 2 with unit weights has Laplacian eigenvalues 0, 1, 2; the answer {1, 2}
   (trivial pair not returned, as ARPACK does for which="SM") meets solve_spec, and argsort[1:k] keeps only the
   eigenvector of 2, leaving out the Fiedler vector (eigenvalue 1) *)
Definition A3 : Rmat := fun i j => if Nat.eqb (S i) j || Nat.eqb (S j) i then 1 else 0.
Definition V3 : Rmat := fun i c =>
  match c, i with
  | O, O => / sqrt 2 | O, S O => 0 | O, _ => - / sqrt 2
  | _, S O => - (sqrt 2 / 2) | _, _ => / 2
  end.

Lemma reach_edge n A i j : (i < n)%nat -> (j < n)%nat -> 0 < A i j -> reach n A i j.
Proof. intros Hi Hj H. eapply reach_step; [apply reach_refl; exact Hi|exact Hj|exact H]. Qed.

Lemma legacy_selection_refuted :
  symmetric 3 A3 /\ nonneg_weights 3 A3 /\ positive_degrees 3 A3 /\ connected 3 A3 /\
  solve_spec 3 (Rlap 3 A3) 2 [1; 2] V3 /\ NoDup [1; 2] /\
  Rselect [1; 2] 2 = [1%nat] /\
  (* the returned pair 0 has the smallest non-trivial eigenvalue and is dropped; the repaired selection keeps it *)
  0 < nth 0 [1; 2] 0 < nth 1 [1; 2] 0 /\
  Rselect_nt 3 (Rsdeg 3 A3) [1; 2] V3 1 = [0%nat].
Proof.
  assert (Hd : forall i, (i < 3)%nat -> Rdeg 3 A3 i = match i with 1%nat => 2 | _ => 1 end).
  { intros i Hi. rewrite Rdeg_eq. unfold Rsum, A3. destruct i as [|[|[|i]]]; simpl; try lia; lra. }
  set (r := sqrt 2).
  assert (Hr0 : 0 < r) by (apply sqrt_lt_R0; lra).
  assert (Hrr : r * r = 2) by (apply sqrt_sqrt; lra).
  assert (Hinv : / r = r / 2).
  { apply Rmult_eq_reg_l with r; [|lra]. rewrite Rinv_r by lra. lra. }
  assert (Hsd : forall i, (i < 3)%nat -> Rsdeg 3 A3 i = match i with 1%nat => r | _ => 1 end).
  { intros i Hi. rewrite Rsdeg_eq, Hd by auto. destruct i as [|[|[|i]]]; try lia; try apply sqrt_1; reflexivity. }
  assert (Hsym : symmetric 3 A3).
  { intros i j _ _. unfold A3. rewrite orb_comm. reflexivity. }
  assert (Hnn : nonneg_weights 3 A3).
  { intros i j _ _. unfold A3. destruct (_ || _); lra. }
  assert (Hpd : positive_degrees 3 A3).
  { intros i Hi. rewrite Hd by auto. destruct i as [|[|[|i]]]; lra. }
  assert (Hcon : connected 3 A3).
  { assert (E01 : reach 3 A3 0 1) by (apply reach_edge; try lia; unfold A3; simpl; lra).
    assert (E12 : reach 3 A3 1 2) by (apply reach_edge; try lia; unfold A3; simpl; lra).
    assert (E10 : reach 3 A3 1 0) by (apply reach_edge; try lia; unfold A3; simpl; lra).
    assert (E21 : reach 3 A3 2 1) by (apply reach_edge; try lia; unfold A3; simpl; lra).
    assert (E02 : reach 3 A3 0 2) by (eapply reach_step; [exact E01|lia|unfold A3; simpl; lra]).
    assert (E20 : reach 3 A3 2 0) by (eapply reach_step; [exact E21|lia|unfold A3; simpl; lra]).
    intros i j Hi Hj. destruct i as [|[|[|i]]]; destruct j as [|[|[|j]]]; try lia; auto; apply reach_refl; lia. }
  assert (HL : forall i j, (i < 3)%nat -> (j < 3)%nat ->
             Rlap 3 A3 i j = if Nat.eqb i j then 1 else if Nat.eqb (S i) j || Nat.eqb (S j) i then - (r / 2) else 0).
  { intros i j Hi Hj. rewrite Rlap_eq, !Hsd by auto. unfold Rdelta, A3.
    destruct i as [|[|[|i]]]; destruct j as [|[|[|j]]]; try lia; simpl; try rewrite <- Hinv; field; lra. }
  assert (Hspec : solve_spec 3 (Rlap 3 A3) 2 [1; 2] V3).
  { split; [reflexivity|]. intros c Hc. split.
    - intros i Hi. rewrite Rmulmv_eq. unfold Rsum. simpl sum_n. rn.
      change (add RNum) with Rplus. change (mul RNum) with Rmult. change (zero RNum) with 0.
      rewrite !HL by lia. unfold Rcol, col, V3. fold r. rewrite Hinv.
      destruct c as [|[|c]]; try lia; destruct i as [|[|[|i]]]; try lia; simpl; nra.
    - rewrite Rdot_eq. unfold Rsum. simpl sum_n. rn.
      change (add RNum) with Rplus. change (mul RNum) with Rmult. change (zero RNum) with 0.
      unfold Rcol, col, V3. fold r. rewrite Hinv.
      destruct c as [|[|c]]; try lia; simpl; nra. }
  assert (Hnd : NoDup [1; 2]).
  { constructor; [simpl; intros [H|[]]; lra|constructor; [simpl; tauto|constructor]]. }
  assert (Hsel : Rselect [1; 2] 2 = [1%nat]).
  { rewrite Rselect_eq, Rargsort_eq. unfold sort_idx. cbn [length seq fold_right].
    rewrite !Rinsert_nil, Rinsert_cons. unfold evf; cbn [nth].
    destruct (Rleb 1 2) eqn:E; [reflexivity|apply Rleb_false in E; lra]. }
  split; [exact Hsym|]. split; [exact Hnn|]. split; [exact Hpd|]. split; [exact Hcon|].
  split; [exact Hspec|]. split; [exact Hnd|]. split; [exact Hsel|]. split; [simpl; lra|].
  (* the repaired selection: no returned eigenvalue is 0, so it keeps the first dim = 1 of the ascending order *)
  destruct (select_nontrivial_spec 3 A3 1 [1; 2] V3 Hsym Hnn Hpd Hcon Hspec Hnd) as [Hl [_ [_ Hall]]].
  destruct (Hall 0%nat ltac:(lia)) as (Hc & _ & _ & Hcnt & _).
  destruct (Rselect_nt 3 (Rsdeg 3 A3) [1; 2] V3 1) as [|q [|q' l]] eqn:E; simpl in Hl; try lia.
  simpl in Hc, Hcnt. f_equal.
  destruct q as [|[|q]]; [reflexivity| |lia].
  exfalso. unfold count_pos_lt, count in Hcnt. simpl in Hcnt.
  unfold Rltb in Hcnt. repeat (destruct (Rlt_dec _ _) in Hcnt; try lra); simpl in Hcnt; lia.
Qed.


(* ---- centres of the components for n_components <= 2*dim: +-e_i, pairwise distinct, positive spacing --- *)
Definition Runit : nat -> nat -> list R := unit_row RNum.
Definition Rmeta : nat -> nat -> list (list R) := meta_embedding RNum.
Definition Reucl : list R -> list R -> R := eucl RNum.
Definition Rsqdist : list R -> list R -> R := sqdist RNum.

Lemma map_seq_nth {X} (f : nat -> X) k c d : (c < k)%nat -> nth c (map f (seq 0 k)) d = f c.
Proof. intros H. rewrite (nth_indep _ d (f 0%nat)) by (rewrite map_length, seq_length; auto). rewrite map_nth, seq_nth; auto. Qed.
Lemma Runit_length dim i : length (Runit dim i) = dim.
Proof. unfold Runit, unit_row. rewrite map_length, seq_length. reflexivity. Qed.
Lemma Runit_nth dim i p : (p < dim)%nat -> nth p (Runit dim i) 0 = if Nat.eqb p i then 1 else 0.
Proof. intros H. unfold Runit, unit_row. rewrite (map_seq_nth (fun c => if Nat.eqb c i then one RNum else zero RNum)); auto. Qed.

Lemma div2_bounds ncomp dim : (ncomp <= 2 * dim)%nat ->
  (ncomp <= 2 * Nat.div2 (S ncomp))%nat /\ (Nat.div2 (S ncomp) <= dim)%nat.
Proof.
  intros H. assert (E := Nat.div2_odd (S ncomp)). destruct (Nat.odd (S ncomp)); unfold Nat.b2n in E; lia.
Qed.

Lemma nth_firstn_lt {X} (l : list X) m c d : (c < m)%nat -> nth c (firstn m l) d = nth c l d.
Proof.
  revert l c; induction m; intros l c H; [lia|]. destruct l; [reflexivity|]. destruct c; simpl; [reflexivity|apply IHm; lia].
Qed.

Lemma Rmeta_nth ncomp dim c : (c < ncomp)%nat -> (ncomp <= 2 * dim)%nat ->
  let k := Nat.div2 (S ncomp) in
  nth c (Rmeta ncomp dim) [] = if Nat.ltb c k then Runit dim c else map Ropp (Runit dim (c - k)).
Proof.
  intros Hc Hn k. destruct (div2_bounds ncomp dim Hn) as [H1 H2]. fold k in H1, H2.
  unfold Rmeta, meta_embedding. fold k. rewrite nth_firstn_lt by auto.
  destruct (Nat.ltb_spec c k).
  - rewrite app_nth1 by (rewrite map_length, seq_length; auto). apply map_seq_nth; auto.
  - rewrite app_nth2; rewrite map_length, seq_length; [|lia].
    rewrite (nth_indep _ [] (map (neg RNum) (unit_row RNum dim 0%nat))) by (rewrite !map_length, seq_length; lia).
    rewrite (map_nth (map (neg RNum))). rewrite map_seq_nth by lia. reflexivity.
Qed.

Lemma Rsqdist_cons a b x y : Rsqdist (a :: x) (b :: y) = (a - b) * (a - b) + Rsqdist x y.
Proof. reflexivity. Qed.
Lemma Rsqdist_nil_l y : Rsqdist [] y = 0.
Proof. reflexivity. Qed.
Lemma Rsqdist_nil_r x : Rsqdist x [] = 0.
Proof. destruct x; reflexivity. Qed.
Lemma Rsqdist_nonneg x y : 0 <= Rsqdist x y.
Proof.
  revert y; induction x as [|a x IH]; intros y; [rewrite Rsqdist_nil_l; lra|].
  destruct y as [|b y]; [rewrite Rsqdist_nil_r; lra|]. rewrite Rsqdist_cons. specialize (IH y).
  assert (0 <= (a - b) * (a - b)) by apply Rle_0_sqr. rn. lra.
Qed.
Lemma Rsqdist_pos x y p : (p < length x)%nat -> (p < length y)%nat -> nth p x 0 <> nth p y 0 -> 0 < Rsqdist x y.
Proof.
  revert y p; induction x as [|a x IH]; intros y p Hx Hy Hne; [simpl in Hx; lia|].
  destruct y as [|b y]; [simpl in Hy; lia|]. rewrite Rsqdist_cons.
  assert (H0 := Rsqdist_nonneg x y).
  destruct p as [|p]; simpl in *.
  - assert (0 < (a - b) * (a - b)) by (apply Rsqr_pos_lt; intro; apply Hne; lra). lra.
  - assert (0 < Rsqdist x y) by (apply (IH y p); auto; lia).
    assert (0 <= (a - b) * (a - b)) by apply Rle_0_sqr. rn. lra.
Qed.
Lemma Reucl_pos x y p : (p < length x)%nat -> (p < length y)%nat -> nth p x 0 <> nth p y 0 -> 0 < Reucl x y.
Proof. intros. unfold Reucl, eucl. apply sqrt_lt_R0. eapply Rsqdist_pos; eauto. Qed.

Lemma neg_unit_nth dim i p : (p < dim)%nat -> nth p (map Ropp (Runit dim i)) 0 = if Nat.eqb p i then -1 else 0.
Proof.
  intros H. rewrite (nth_indep _ 0 (Ropp 0)) by (rewrite map_length, Runit_length; auto).
  rewrite map_nth, Runit_nth by auto. destruct (Nat.eqb p i); lra.
Qed.

(* two different components have different centres, hence a positive distance *)
Theorem meta_rows_distinct ncomp dim c c' : (ncomp <= 2 * dim)%nat -> (c < ncomp)%nat -> (c' < ncomp)%nat -> c <> c' ->
  0 < Reucl (nth c (Rmeta ncomp dim) []) (nth c' (Rmeta ncomp dim) []).
Proof.
  intros Hn Hc Hc' Hne. destruct (div2_bounds ncomp dim Hn) as [H1 H2].
  rewrite !Rmeta_nth by auto. set (k := Nat.div2 (S ncomp)) in *.
  destruct (Nat.ltb_spec c k); destruct (Nat.ltb_spec c' k).
  - apply (Reucl_pos _ _ c); rewrite ?Runit_length; try lia.
    rewrite !Runit_nth by lia. rewrite Nat.eqb_refl. destruct (Nat.eqb_spec c c'); [lia|lra].
  - apply (Reucl_pos _ _ c); rewrite ?map_length, ?Runit_length; try lia.
    rewrite Runit_nth, neg_unit_nth by lia. rewrite Nat.eqb_refl. destruct (Nat.eqb c (c' - k)); lra.
  - apply (Reucl_pos _ _ c'); rewrite ?map_length, ?Runit_length; try lia.
    rewrite Runit_nth, neg_unit_nth by lia. rewrite Nat.eqb_refl. destruct (Nat.eqb c' (c - k)); lra.
  - apply (Reucl_pos _ _ (c - k)%nat); rewrite ?map_length, ?Runit_length; try lia.
    rewrite !neg_unit_nth by lia. rewrite Nat.eqb_refl. destruct (Nat.eqb_spec (c - k) (c' - k)); [lia|lra].
Qed.

Definition Rmin_pos : list R -> option R := min_pos RNum.
Lemma Rmin_pos_cons d ds : Rmin_pos (d :: ds) =
  match Rmin_pos ds with
  | None => if Rltb 0 d then Some d else None
  | Some m => if Rltb 0 d then (if Rltb d m then Some d else Some m) else Some m
  end.
Proof. reflexivity. Qed.
Lemma min_pos_pos ds : forall m, Rmin_pos ds = Some m -> 0 < m.
Proof.
  induction ds as [|a ds IH]; intros m E; [discriminate|].
  rewrite Rmin_pos_cons in E. destruct (Rmin_pos ds) as [m'|] eqn:E'.
  - destruct (Rltb 0 a) eqn:Ea.
    + destruct (Rltb a m'); inversion E; subst; [apply Rltb_true in Ea; exact Ea|apply IH; reflexivity].
    + inversion E; subst. apply IH; reflexivity.
  - destruct (Rltb 0 a) eqn:Ea; [|discriminate]. inversion E; subst. apply Rltb_true in Ea; exact Ea.
Qed.
Lemma min_pos_some ds : (exists x, In x ds /\ 0 < x) -> exists m, Rmin_pos ds = Some m /\ 0 < m.
Proof.
  intros H. assert (He : exists m, Rmin_pos ds = Some m).
  { induction ds as [|d ds IH]; destruct H as [x [Hin Hx]]; [destruct Hin|].
    rewrite Rmin_pos_cons. destruct Hin as [->|Hin].
    - destruct (Rltb 0 x) eqn:E0; [|apply Rltb_false in E0; lra].
      destruct (Rmin_pos ds) as [m|]; [destruct (Rltb x m)|]; eauto.
    - destruct IH as [m Hm]; [exists x; auto|]. rewrite Hm.
      destruct (Rltb 0 d); [destruct (Rltb d m)|]; eauto. }
  destruct He as [m Hm]. exists m; split; [exact Hm|apply (min_pos_pos ds); exact Hm].
Qed.

(* so the component spacing data_range exists and is positive for 2 <= n_components <= 2*dim *)
Theorem meta_data_range_pos ncomp dim c : (2 <= ncomp)%nat -> (ncomp <= 2 * dim)%nat -> (c < ncomp)%nat ->
  exists r, data_range RNum (meta_dists RNum (meta_embedding RNum ncomp dim) c) = Some r /\ 0 < r.
Proof.
  intros H2 Hn Hc.
  assert (Hlen : length (Rmeta ncomp dim) = ncomp).
  { destruct (div2_bounds ncomp dim Hn) as [H1 _]. unfold Rmeta, meta_embedding.
    rewrite firstn_length, app_length, !map_length, seq_length. lia. }
  set (c' := if Nat.eqb c 0 then 1%nat else 0%nat).
  assert (Hc' : (c' < ncomp)%nat /\ c <> c') by (unfold c'; destruct (Nat.eqb_spec c 0); lia).
  destruct (min_pos_some (meta_dists RNum (meta_embedding RNum ncomp dim) c)) as [m [Hm Hpos]].
  - exists (Reucl (nth c (Rmeta ncomp dim) []) (nth c' (Rmeta ncomp dim) [])). split.
    + unfold meta_dists. apply (in_map (eucl RNum (nth c (meta_embedding RNum ncomp dim) []))).
      apply nth_In. fold (Rmeta ncomp dim). rewrite Hlen. tauto.
    + apply meta_rows_distinct; tauto.
  - unfold data_range. fold (Rmin_pos (meta_dists RNum (meta_embedding RNum ncomp dim) c)). rewrite Hm.
    exists (m / (1 + 1)). split; [reflexivity|]. lra.
Qed.

(* ---- multi-component write-back ------------------------------------------------------------------ *)
Section Assign.
Context {X : Type}.

Lemma write_rows_length (res : list (list X)) labels c blk :
  length (write_rows res labels c blk) = length res.
Proof.
  revert labels blk. induction res as [|r res IH]; intros labels blk; [destruct labels; reflexivity|].
  destruct labels as [|l labels]; [reflexivity|]. simpl.
  destruct (Nat.eqb l c); [destruct blk|]; simpl; rewrite IH; reflexivity.
Qed.

(* vertex v after writing component c: untouched if its label differs, otherwise it receives the row whose
   position in the block is the rank of v among the vertices labelled c *)
Lemma write_rows_nth (res : list (list X)) labels c blk v d :
  length res = length labels -> (count_label labels c <= length blk)%nat -> (v < length labels)%nat ->
  nth v (write_rows res labels c blk) [] =
    if Nat.eqb (nth v labels O) c then nth v res [] ++ [nth (count_label (firstn v labels) c) blk d]
    else nth v res [].
Proof.
  revert labels blk v. induction res as [|r res IH]; intros labels blk v Hlen Hcnt Hv.
  - destruct labels; simpl in *; lia.
  - destruct labels as [|l labels]; [simpl in *; lia|].
    simpl in Hlen. unfold count_label in Hcnt. simpl in Hcnt. rewrite (Nat.eqb_sym c l) in Hcnt.
    simpl write_rows. destruct (Nat.eqb l c) eqn:E.
    + simpl in Hcnt. destruct blk as [|b blk]; [simpl in Hcnt; lia|].
      destruct v as [|v]; simpl.
      * rewrite E. reflexivity.
      * rewrite (IH labels blk v) by (simpl in *; try lia; unfold count_label; simpl in Hcnt; lia).
        unfold count_label. simpl. rewrite (Nat.eqb_sym c l), E. reflexivity.
    + destruct v as [|v]; simpl.
      * rewrite E. reflexivity.
      * rewrite (IH labels blk v) by (simpl in *; try lia; unfold count_label; lia).
        unfold count_label. simpl. rewrite (Nat.eqb_sym c l), E. reflexivity.
Qed.

Lemma assign_prefix (labels : list nat) (blocks : nat -> list X) d m :
  (forall c, (c < m)%nat -> length (blocks c) = count_label labels c) ->
  let res := fold_left (fun res c => write_rows res labels c (blocks c)) (seq 0 m) (repeat [] (length labels)) in
  length res = length labels /\
  forall v, (v < length labels)%nat ->
    nth v res [] = if Nat.ltb (nth v labels O) m then [nth (rank_in labels v) (blocks (nth v labels O)) d] else [].
Proof.
  induction m as [|m IH]; intros Hb res.
  - unfold res; simpl. split; [apply repeat_length|]. intros v Hv.
    apply nth_repeat.
  - unfold res. rewrite seq_S, fold_left_app. simpl.
    destruct IH as [Hlen Hnth]; [intros; apply Hb; lia|].
    split; [rewrite write_rows_length; exact Hlen|].
    intros v Hv. rewrite (write_rows_nth _ labels m (blocks m) v d); auto; [|rewrite Hb; lia].
    rewrite Hnth by auto.
    destruct (Nat.eqb_spec (nth v labels O) m) as [Heq|Hne].
    + rewrite Heq. rewrite Nat.ltb_irrefl. simpl.
      replace (m <? S m)%nat with true by (symmetry; apply Nat.ltb_lt; lia).
      unfold rank_in. rewrite Heq. reflexivity.
    + destruct (Nat.ltb_spec (nth v labels O) m); destruct (Nat.ltb_spec (nth v labels O) (S m)); try lia; reflexivity.
Qed.

(* every vertex row is written exactly once, with the row of its own component's block *)
Theorem assign_total (labels : list nat) (ncomp : nat) (blocks : nat -> list X) d :
  (forall v, (v < length labels)%nat -> (nth v labels O < ncomp)%nat) ->
  (forall c, (c < ncomp)%nat -> length (blocks c) = count_label labels c) ->
  length (assign_components labels ncomp blocks) = length labels /\
  forall v, (v < length labels)%nat ->
    nth v (assign_components labels ncomp blocks) [] = [nth (rank_in labels v) (blocks (nth v labels O)) d].
Proof.
  intros Hlab Hb. destruct (assign_prefix labels blocks d ncomp Hb) as [Hl Hn].
  split; [exact Hl|]. intros v Hv. unfold assign_components. rewrite Hn by auto.
  replace (nth v labels O <? ncomp)%nat with true; [reflexivity|].
  symmetry; apply Nat.ltb_lt, Hlab, Hv.
Qed.

(* distinct vertices of one component receive distinct block rows (ranks are injective within a label) *)
Lemma rank_in_lt labels v : (v < length labels)%nat -> (rank_in labels v < count_label labels (nth v labels O))%nat.
Proof.
  unfold rank_in. revert v. induction labels as [|l labels IH]; intros v Hv; [simpl in Hv; lia|].
  destruct v as [|v].
  - simpl. unfold count_label. simpl. rewrite Nat.eqb_refl. simpl. lia.
  - simpl in Hv. simpl nth. simpl firstn. unfold count_label in *. simpl.
    specialize (IH v ltac:(lia)). destruct (Nat.eqb (nth v labels O) l); simpl; lia.
Qed.
End Assign.

(* ---- non-vacuity ------------------------------------------------------------------------------ *)
(* two vertices joined by one edge of weight 1: L = [[1,-1],[-1,1]], eigenpairs (2, (1,-1)/sqrt 2), (0, (1,1)/sqrt 2)
   handed over in the order [2; 0]; the selection keeps column 0 (eigenvalue 2). *)
Definition A2 : Rmat := fun i j => if Nat.eqb i j then 0 else 1.
Definition V2 : Rmat := fun i c =>
  match c, i with
  | O, O => / sqrt 2 | O, _ => - / sqrt 2
  | _, _ => / sqrt 2
  end.

Lemma select_nonvacuous :
  symmetric 2 A2 /\ nonneg_weights 2 A2 /\ positive_degrees 2 A2 /\
  solve_spec 2 (Rlap 2 A2) 2 [2; 0] V2 /\ NoDup [2; 0] /\ Rselect [2; 0] 2 = [0%nat].
Proof.
  assert (Hd : forall i, (i < 2)%nat -> Rdeg 2 A2 i = 1).
  { intros i Hi. rewrite Rdeg_eq. unfold Rsum, A2. destruct i as [|[|i]]; simpl; try lia; lra. }
  assert (Hsd : forall i, (i < 2)%nat -> Rsdeg 2 A2 i = 1).
  { intros i Hi. rewrite Rsdeg_eq, Hd by auto. apply sqrt_1. }
  assert (Hs2 : 0 < sqrt 2) by (apply sqrt_lt_R0; lra).
  assert (Hss : sqrt 2 * sqrt 2 = 2) by (apply sqrt_sqrt; lra).
  split; [|split; [|split; [|split; [|split]]]].
  - intros i j _ _. unfold A2. rewrite (Nat.eqb_sym j i). reflexivity.
  - intros i j _ _. unfold A2. destruct (Nat.eqb i j); lra.
  - intros i Hi. rewrite Hd by auto. lra.
  - split; [reflexivity|]. intros c Hc.
    assert (HL : forall i j, (i < 2)%nat -> (j < 2)%nat -> Rlap 2 A2 i j = if Nat.eqb i j then 1 else -1).
    { intros i j Hi Hj. rewrite Rlap_eq, !Hsd by auto. unfold Rdelta, A2. destruct (Nat.eqb i j); lra. }
    split.
    + intros i Hi. rewrite Rmulmv_eq. unfold Rsum. simpl sum_n. rn.
      change (add RNum) with Rplus. change (mul RNum) with Rmult. change (zero RNum) with 0.
      rewrite !HL by lia. unfold Rcol, col, V2.
      destruct c as [|[|c]]; try lia; destruct i as [|[|i]]; try lia; simpl; field; lra.
    + rewrite Rdot_eq. unfold Rsum. simpl sum_n. rn.
      change (add RNum) with Rplus. change (mul RNum) with Rmult. change (zero RNum) with 0.
      assert (Hi : / sqrt 2 * / sqrt 2 = / 2).
      { replace (/ 2) with (/ (sqrt 2 * sqrt 2)) by (rewrite Hss; reflexivity). field; lra. }
      unfold Rcol, col, V2. destruct c as [|[|c]]; try lia; simpl; lra.
  - constructor; [simpl; intros [H|[]]; lra|constructor; [simpl; tauto|constructor]].
  - rewrite Rselect_eq, Rargsort_eq. unfold sort_idx. cbn [length seq fold_right].
    rewrite !Rinsert_nil, Rinsert_cons. unfold evf; cbn [nth]. destruct (Rleb 2 0) eqn:E; [apply Rleb_true in E; lra|]. reflexivity.
Qed.

Lemma assign_nonvacuous :
  assign_components [1; 0; 1]%nat 2 (fun c => if Nat.eqb c 0 then [10%Z] else [20%Z; 21%Z]) = [[20%Z]; [10%Z]; [21%Z]].
Proof. reflexivity. Qed.

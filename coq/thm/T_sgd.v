(* C07 theorems: reals for the numeric kernel, Z for the generator. *)
From Coq Require Import List ZArith Bool Reals Lra Lia Psatz.
From UV Require Import Num M_sgd.
Import ListNotations.
Local Open Scope R_scope.
Ltac rn := change (T RNum) with R in *.

Definition Rclip : R -> R := clip RNum.
Definition Rattr : R -> R -> R -> R := attr_coeff RNum.
Definition Rrep : R -> R -> R -> R -> R := rep_coeff RNum.
Definition Ralpha : R -> Z -> Z -> R := alpha_of RNum.

(* ---- clip ---------------------------------------------------------------------------------------- *)
Lemma clip_cases v : (4 < v /\ Rclip v = 4) \/ (v < -4 /\ Rclip v = -4) \/ (-4 <= v <= 4 /\ Rclip v = v).
Proof.
  unfold Rclip, clip, c4, c2; cbn.
  destruct (Rltb (1 + 1 + (1 + 1)) v) eqn:E1.
  - apply Rltb_true in E1. left; split; lra.
  - apply Rltb_false in E1. destruct (Rltb v (- (1 + 1 + (1 + 1)))) eqn:E2.
    + apply Rltb_true in E2. right; left; split; lra.
    + apply Rltb_false in E2. right; right; split; lra.
Qed.

Lemma clip_bound v : Rabs (Rclip v) <= 4.
Proof. destruct (clip_cases v) as [[H ->]|[[H ->]|[H ->]]]; apply Rabs_le; lra. Qed.

Lemma clip_id v : -4 <= v <= 4 -> Rclip v = v.
Proof. intros H. destruct (clip_cases v) as [[H' _]|[[H' _]|[_ E]]]; auto; lra. Qed.

(* every coordinate update has the form c + clip(..) * alpha: it moves c by at most 4 |alpha| *)
Lemma move_bounded c x alpha : Rabs ((c + Rclip x * alpha) - c) <= 4 * Rabs alpha.
Proof.
  replace (c + Rclip x * alpha - c) with (Rclip x * alpha) by ring.
  rewrite Rabs_mult. apply Rmult_le_compat_r; [apply Rabs_pos | apply clip_bound].
Qed.

Definition Rmap2 : (R -> R -> R) -> list R -> list R -> list R := map2 RNum.

Lemma attract_moves_bounded gc alpha : forall cur oth, length cur = length oth ->
  Forall2 (fun c c' => Rabs (c' - c) <= 4 * Rabs alpha) cur
    (Rmap2 (fun c gd => c + gd * alpha) cur (Rmap2 (fun c o => Rclip (gc * (c - o))) cur oth)).
Proof.
  induction cur as [|c cur IH]; intros [|o oth] Hl; simpl in *; try discriminate; constructor.
  - apply move_bounded.
  - apply IH. lia.
Qed.

Lemma tail_moves_bounded gc alpha : forall cur oth, length cur = length oth ->
  Forall2 (fun o o' => Rabs (o' - o) <= 4 * Rabs alpha) oth
    (Rmap2 (fun o gd => o + (- gd) * alpha) oth (Rmap2 (fun c o => Rclip (gc * (c - o))) cur oth)).
Proof.
  induction cur as [|c cur IH]; intros [|o oth] Hl; simpl in *; try discriminate; constructor.
  - replace (o + - Rclip (gc * (c - o)) * alpha - o) with (- (Rclip (gc * (c - o)) * alpha)) by ring.
    rewrite Rabs_Ropp, Rabs_mult. apply Rmult_le_compat_r; [apply Rabs_pos | apply clip_bound].
  - apply IH. lia.
Qed.

Lemma repel_moves_bounded gc alpha : forall cur oth, length cur = length oth ->
  Forall2 (fun c c' => Rabs (c' - c) <= 4 * Rabs alpha) cur
    (Rmap2 (fun c o => c + (if Rltb 0 gc then Rclip (gc * (c - o)) else 0) * alpha) cur oth).
Proof.
  induction cur as [|c cur IH]; intros [|o oth] Hl; simpl in *; try discriminate; constructor.
  - destruct (Rltb 0 gc); [apply move_bounded|].
    replace (c + 0 * alpha - c) with 0 by ring. rewrite Rabs_R0.
    apply Rmult_le_pos; [lra | apply Rabs_pos].
  - apply IH. lia.
Qed.

(* ---- learning rate --------------------------------------------------------------------------------- *)
Lemma alpha_linear alpha0 N n : (1 <= n)%Z -> Ralpha alpha0 N n = alpha0 * (1 - IZR (n - 1) / IZR N).
Proof. intros H. unfold Ralpha, alpha_of. destruct (Z.eqb_spec n 0); [lia|reflexivity]. Qed.

Lemma alpha_first alpha0 N : Ralpha alpha0 N 0 = alpha0.
Proof. reflexivity. Qed.

Lemma alpha_range alpha0 N n : 0 <= alpha0 -> (0 <= n < N)%Z -> 0 <= Ralpha alpha0 N n <= alpha0.
Proof.
  intros Ha [Hn HN]. unfold Ralpha, alpha_of. destruct (Z.eqb_spec n 0) as [->|Hne]; cbn; [lra|].
  assert (HNpos: 0 < IZR N) by (apply IZR_lt; lia).
  assert (H1: 0 <= IZR (n - 1)) by (apply IZR_le; lia).
  assert (H2: IZR (n - 1) < IZR N) by (apply IZR_lt; lia).
  assert (Hq: 0 <= IZR (n - 1) / IZR N < 1).
  { split.
    - apply Rmult_le_pos; [lra|]. left. now apply Rinv_0_lt_compat.
    - apply Rmult_lt_reg_r with (IZR N); auto. unfold Rdiv. rewrite Rmult_assoc, Rinv_l; lra. }
  nra.
Qed.

(* the last epoch N-1 uses alpha0 * 2/N... in general alpha decreases by alpha0/N per epoch *)
Lemma alpha_step alpha0 N n : (1 <= n)%Z -> IZR N <> 0 ->
  Ralpha alpha0 N (n + 1) = Ralpha alpha0 N n - alpha0 / IZR N.
Proof.
  intros Hn HN. rewrite !alpha_linear by lia. replace (n + 1 - 1)%Z with (n - 1 + 1)%Z by lia.
  rewrite plus_IZR. field. exact HN.
Qed.

(* ---- gradient coefficients ------------------------------------------------------------------------- *)
Lemma Rpow_pos_base x y : 0 < x -> Rpow x y = Rpower x y.
Proof.
  intros Hx. unfold Rpow. destruct (Req_EM_T y 0) as [->|Hy].
  - now rewrite Rpower_O.
  - destruct (Rlt_dec 0 x); [reflexivity|contradiction].
Qed.

Lemma Rpower_sqrt_2y x y : 0 < x -> Rpower (sqrt x) (2 * y) = Rpower x y.
Proof. intros Hx. rewrite <- (Rpower_sqrt x Hx), Rpower_mult. f_equal. field. Qed.

Theorem attr_coeff_formula a b d2 : 0 < d2 ->
  Rattr a b d2 = - 2 * a * b * Rpower (sqrt d2) (2 * b - 2) / (1 + a * Rpower (sqrt d2) (2 * b)).
Proof.
  intros Hd. unfold Rattr, attr_coeff, c2; cbn.
  assert (E: Rltb 0 d2 = true) by (now apply Rltb_true). rewrite E.
  repeat (rewrite Rpow_pos_base by assumption).
  replace (2 * b - 2) with (2 * (b - 1)) by ring. repeat (rewrite Rpower_sqrt_2y by assumption).
  unfold Rdiv. replace (a * Rpower d2 b + 1) with (1 + a * Rpower d2 b) by ring. ring.
Qed.

Theorem attr_coeff_nonpos a b d2 : 0 <= a -> 0 <= b -> Rattr a b d2 <= 0.
Proof.
  intros Ha Hb. unfold Rattr, attr_coeff, c2; cbn.
  destruct (Rltb 0 d2) eqn:E; [apply Rltb_true in E | lra].
  repeat (rewrite Rpow_pos_base by assumption).
  assert (P1: 0 < Rpower d2 (b - 1)) by apply exp_pos.
  assert (P2: 0 < Rpower d2 b) by apply exp_pos.
  assert (D: 0 < a * Rpower d2 b + 1) by nra.
  assert (Hi: 0 < / (a * Rpower d2 b + 1)) by (now apply Rinv_0_lt_compat).
  assert (Hn: 0 <= a * b * Rpower d2 (b - 1)) by (repeat apply Rmult_le_pos; lra).
  unfold Rdiv. nra.
Qed.

Theorem rep_coeff_formula a b gamma d2 : 0 < d2 ->
  Rrep a b gamma d2 = 2 * gamma * b / ((/ 1000 + d2) * (1 + a * Rpower (sqrt d2) (2 * b))).
Proof.
  intros Hd. unfold Rrep, rep_coeff, c2, c001; cbn.
  repeat (rewrite Rpow_pos_base by assumption). rewrite Rpower_sqrt_2y by assumption.
  unfold Rdiv. replace (a * Rpower d2 b + 1) with (1 + a * Rpower d2 b) by ring. rewrite Rmult_1_l. ring.
Qed.

Theorem rep_coeff_pos a b gamma d2 : 0 <= a -> 0 < b -> 0 < gamma -> 0 < d2 -> 0 < Rrep a b gamma d2.
Proof.
  intros Ha Hb Hg Hd. rewrite rep_coeff_formula by assumption.
  assert (P: 0 < Rpower (sqrt d2) (2 * b)) by apply exp_pos.
  apply Rmult_lt_0_compat; [nra|]. apply Rinv_0_lt_compat. apply Rmult_lt_0_compat; nra.
Qed.

(* ---- frame: with move_other = false the reference (tail) layout is never written -------------------- *)
Section Frame.
Variables a b gamma : R.
Variable nv : Z.

Lemma set_head_T (e : emb RNum) j row : eT RNum (set_head RNum e j row) = eT RNum e.
Proof. reflexivity. Qed.

Lemma attract_T alpha e j k : eT RNum (attract RNum a b alpha false e j k) = eT RNum e.
Proof. reflexivity. Qed.

Lemma repel_T alpha e j k : eT RNum (repel RNum a b gamma alpha e j k) = eT RNum e.
Proof. unfold repel. destruct (ltb RNum _ _); reflexivity. Qed.

Lemma neg_loop_T alpha : forall fuel e j st,
  eT RNum (fst (neg_loop RNum fuel a b gamma alpha nv e j st)) = eT RNum e.
Proof.
  induction fuel as [|f IH]; intros e j st; cbn [neg_loop]; [reflexivity|].
  destruct (tau_rand_int st) as [st' r]. rewrite IH. apply repel_T.
Qed.

Lemma edge_step_T alpha n s i ed :
  eT RNum (s_emb RNum (edge_step RNum a b gamma alpha false nv n s i ed)) = eT RNum (s_emb RNum s).
Proof.
  unfold edge_step. destruct (leb RNum _ _); [|reflexivity].
  destruct (neg_loop RNum _ a b gamma alpha nv _ _ _) as [e2 st'] eqn:E. cbn [s_emb].
  change e2 with (fst (e2, st')). rewrite <- E. rewrite neg_loop_T. apply attract_T.
Qed.

Lemma edges_from_T alpha n : forall es i s,
  eT RNum (s_emb RNum (edges_from RNum a b gamma alpha false nv n i es s)) = eT RNum (s_emb RNum s).
Proof.
  induction es as [|ed es IH]; intros i s; cbn [edges_from]; [reflexivity|].
  rewrite IH. apply edge_step_T.
Qed.

Theorem tail_frame alpha0 nepochs es : forall fuel n s,
  eT RNum (s_emb RNum (run_from RNum a b gamma alpha0 false nv nepochs es fuel n s)) = eT RNum (s_emb RNum s).
Proof.
  induction fuel as [|f IH]; intros n s; cbn [run_from]; [reflexivity|].
  rewrite IH. unfold epoch. apply edges_from_T.
Qed.
End Frame.

(* ---- the sampling clock ------------------------------------------------------------------------------ *)
Lemma nth_upd_same {A} (l : list A) i v d : (i < length l)%nat -> nth i (upd l i v) d = v.
Proof. revert i; induction l as [|x l IH]; intros [|i] H; simpl in *; try lia; auto. apply IH; lia. Qed.

(* an edge is processed in epoch n exactly when its clock is due, and then the clock advances by its period *)
Theorem visit_iff_due (a b gamma alpha : R) mo nv (n : R) s i ed : (i < length (s_next RNum s))%nat ->
  nth i (s_next RNum (edge_step RNum a b gamma alpha mo nv n s i ed)) 0
    = if Rleb (nth i (s_next RNum s) 0) n then nth i (s_next RNum s) 0 + e_eps RNum ed else nth i (s_next RNum s) 0.
Proof.
  intros Hi. unfold edge_step. cbn [leb RNum zero].
  destruct (Rleb (nth i (s_next RNum s) 0) n); [|reflexivity].
  destruct (neg_loop RNum _ _ _ _ _ _ _ _ _) as [e2 st']. cbn [s_next].
  now rewrite nth_upd_same.
Qed.

Definition Rvisits : R -> nat -> Z -> R -> nat := visits RNum.

Lemma visits_spec p : 1 <= p -> forall fuel n next, IZR n - 1 < next ->
  let v := Rvisits p fuel n next in
  let last := IZR n + INR fuel - 1 in
  last < next + INR v * p /\ ((0 < v)%nat -> next + (INR v - 1) * p <= last).
Proof.
  intros Hp. induction fuel as [|f IH]; intros n next Hn.
  - cbn. split; [lra | lia].
  - unfold Rvisits in *. cbn [visits]. cbn [leb RNum of_Z].
    rewrite S_INR.
    destruct (Rleb next (IZR n)) eqn:E.
    + apply Rleb_true in E.
      assert (Hn': IZR (n + 1) - 1 < next + p) by (rewrite plus_IZR; lra).
      specialize (IH (n + 1)%Z (next + p) Hn'). cbn zeta in IH. rewrite plus_IZR in IH.
      destruct IH as [IH1 IH2]. cbn [add RNum] in *. rn.
      set (v' := visits RNum p f (n + 1) (next + p)) in *.
      rewrite S_INR. split; [lra|]. intros _.
      destruct v' as [|v''] eqn:Ev.
      * cbn. pose proof (pos_INR f). lra.
      * assert (H0: (0 < S v'')%nat) by lia. specialize (IH2 H0). rewrite S_INR in *. lra.
    + apply Rleb_false in E.
      assert (Hn': IZR (n + 1) - 1 < next) by (rewrite plus_IZR; lra).
      specialize (IH (n + 1)%Z next Hn'). cbn zeta in IH. rewrite plus_IZR in IH.
      destruct IH as [IH1 IH2]. split; [lra|]. intros H0. specialize (IH2 H0). lra.
Qed.

(* over N epochs (0..N-1) an edge of period p >= 1, whose clock starts at p, is visited v times with
   v*p <= N-1 < (v+1)*p, i.e. v = floor((N-1)/p): in proportion 1/p = w/w_max *)
Theorem visit_count p N : 1 <= p -> (1 <= N)%nat ->
  let v := Rvisits p N 0 p in INR v * p <= INR N - 1 < (INR v + 1) * p.
Proof.
  intros Hp HN v. pose proof (visits_spec p Hp N 0%Z p ltac:(cbn; lra)) as [H1 H2]. fold v in H1, H2. cbn in H1, H2.
  split; [|lra].
  destruct v as [|v'] eqn:Ev.
  - cbn. rewrite Rmult_0_l. destruct N; [lia|]. rewrite S_INR. pose proof (pos_INR N). lra.
  - specialize (H2 ltac:(lia)). lra.
Qed.

Theorem weak_never_visited p N : INR N - 1 < p -> 1 <= p -> (1 <= N)%nat -> Rvisits p N 0 p = O.
Proof.
  intros Hw Hp HN. pose proof (visit_count p N Hp HN) as [H1 _]. cbn zeta in H1.
  destruct (Rvisits p N 0 p) as [|v]; [reflexivity|exfalso].
  rewrite S_INR in H1. pose proof (pos_INR v). nra.
Qed.

(* the period: epochs_per_sample = w_max / w in exact arithmetic; pruned exactly when w < w_max / N *)
Lemma eps_exact (N wmax w : R) : 0 < N -> 0 < wmax -> 0 < w ->
  epochs_per_sample RNum N wmax w = wmax / w.
Proof.
  intros HN Hm Hw. unfold epochs_per_sample; cbn.
  assert (P: 0 < N * (w / wmax)) by (apply Rmult_lt_0_compat; [lra| apply Rmult_lt_0_compat; [lra|now apply Rinv_0_lt_compat]]).
  assert (E: Rltb 0 (N * (w / wmax)) = true) by (now apply Rltb_true). rewrite E. field. split; lra.
Qed.

Lemma pruned_iff_weak (de N wmax w : R) : 10 < N -> 0 < wmax ->
  keep_edge RNum (prune_threshold RNum de N wmax) w = false <-> w < wmax / N.
Proof.
  intros HN Hm. unfold keep_edge, prune_threshold; cbn.
  assert (E: Rltb 10 N = true) by (now apply Rltb_true). rewrite E.
  rewrite negb_false_iff. apply Rltb_true.
Qed.

(* ---- the generator: outputs are int32 values; the vertex index is valid ------------------------------ *)
Lemma wrap32_range z : (-2147483648 <= wrap32 z < 2147483648)%Z.
Proof. unfold wrap32. pose proof (Z.mod_pos_bound (z + 2147483648) 4294967296 ltac:(lia)). lia. Qed.

Lemma tau_rand_int_range st : (-2147483648 <= snd (tau_rand_int st) < 2147483648)%Z.
Proof. destruct st as [[s0 s1] s2]. cbn [tau_rand_int snd]. apply wrap32_range. Qed.

Lemma negative_vertex_valid st nv : (0 < nv)%Z -> (0 <= snd (tau_rand_int st) mod nv < nv)%Z.
Proof. intros H. apply Z.mod_pos_bound. exact H. Qed.

Lemma coeff_signs a b gamma d2 : 0 <= a -> 0 < b -> 0 < gamma ->
  Rattr a b d2 <= 0 /\ (0 < d2 -> 0 < Rrep a b gamma d2).
Proof. intros Ha Hb Hg. split; [apply attr_coeff_nonpos; lra | intros Hd; now apply rep_coeff_pos]. Qed.

(* non-vacuity: a concrete clock: period 2.5 over 11 epochs is visited 4 times (2.5, 5, 7.5, 10) *)
Lemma visits_example : INR 4 * (5 / 2) <= INR 11 - 1 < (INR 4 + 1) * (5 / 2).
Proof. cbn. lra. Qed.

Lemma period_and_pruning (N wmax w de : R) : 10 < N -> 0 < wmax -> 0 < w ->
  epochs_per_sample RNum N wmax w = wmax / w /\
  (keep_edge RNum (prune_threshold RNum de N wmax) w = false <-> w < wmax / N).
Proof. intros HN Hm Hw. split; [apply eps_exact; lra | exact (pruned_iff_weak de N wmax w HN Hm)]. Qed.

(* ---- the clock inside the real run: edge i's epoch_of_next_sample evolves exactly as the isolated clock ---- *)
Lemma length_upd {A} (l : list A) i v : length (upd l i v) = length l.
Proof. revert i; induction l as [|x l IH]; intros [|i]; simpl; auto. Qed.
Lemma nth_upd_other {A} (l : list A) i j v d : i <> j -> nth i (upd l j v) d = nth i l d.
Proof. revert i j; induction l as [|x l IH]; intros [|i] [|j] H; simpl; auto; try lia. Qed.

Section Clock.
Variables a b gamma : R.
Variable mo : bool.
Variable nv : Z.

Lemma edge_step_next_len alpha n s i ed :
  length (s_next RNum (edge_step RNum a b gamma alpha mo nv n s i ed)) = length (s_next RNum s).
Proof.
  unfold edge_step. destruct (leb RNum _ _); [|reflexivity].
  destruct (neg_loop RNum _ _ _ _ _ _ _ _ _) as [e2 st']. cbn [s_next]. apply length_upd.
Qed.

Lemma edge_step_next_other alpha n s i' ed i : i <> i' ->
  nth i (s_next RNum (edge_step RNum a b gamma alpha mo nv n s i' ed)) 0 = nth i (s_next RNum s) 0.
Proof.
  intros H. unfold edge_step. destruct (leb RNum _ _); [|reflexivity].
  destruct (neg_loop RNum _ _ _ _ _ _ _ _ _) as [e2 st']. cbn [s_next]. now apply nth_upd_other.
Qed.

Definition tick (nxt n p : R) : R := if Rleb nxt n then nxt + p else nxt.

Lemma edges_from_next alpha (n : R) : forall es start s i, (i < length (s_next RNum s))%nat ->
  nth i (s_next RNum (edges_from RNum a b gamma alpha mo nv n start es s)) 0 =
    if (Nat.leb start i && Nat.ltb i (start + length es))%bool
    then tick (nth i (s_next RNum s) 0) n (e_eps RNum (nth (i - start) es (mkEdge RNum 0 0 0 0)))
    else nth i (s_next RNum s) 0.
Proof.
  induction es as [|ed es IH]; intros start s i Hi; cbn [edges_from length].
  - replace (Nat.leb start i && Nat.ltb i (start + 0))%bool with false; [reflexivity|].
    symmetry. apply andb_false_iff. destruct (Nat.leb_spec start i); [right; apply Nat.ltb_ge; lia | now left].
  - rewrite IH by (rewrite edge_step_next_len; exact Hi).
    destruct (Nat.eq_dec i start) as [->|Hne].
    + (* this edge: processed now, later edges have larger indices *)
      replace (Nat.leb (S start) start && Nat.ltb start (S start + length es))%bool with false
        by (symmetry; apply andb_false_iff; left; apply Nat.leb_gt; lia).
      replace (Nat.leb start start && Nat.ltb start (start + S (length es)))%bool with true
        by (symmetry; apply andb_true_iff; split; [apply Nat.leb_le|apply Nat.ltb_lt]; lia).
      rewrite Nat.sub_diag. cbn [nth]. unfold tick. now rewrite visit_iff_due.
    + rewrite edge_step_next_other by assumption.
      destruct (Nat.leb_spec (S start) i) as [H1|H1]; destruct (Nat.leb_spec start i) as [H2|H2]; try lia; cbn [andb].
      * replace (Nat.ltb i (start + S (length es))) with (Nat.ltb i (S start + length es)) by (f_equal; lia).
        destruct (Nat.ltb i (S start + length es)); [|reflexivity].
        replace (i - start)%nat with (S (i - S start)) by lia. reflexivity.
      * reflexivity.
Qed.

(* the clock value after a run, in terms of the isolated clock: next + (number of visits) * period *)
Fixpoint clock (p : R) (fuel : nat) (n : Z) (next : R) : R :=
  match fuel with
  | O => next
  | S f => clock p f (n + 1)%Z (tick next (IZR n) p)
  end.

Lemma clock_visits p : forall fuel n next, clock p fuel n next = next + INR (Rvisits p fuel n next) * p.
Proof.
  induction fuel as [|f IH]; intros n next; cbn [clock]; [cbn; lra|].
  unfold Rvisits in *. cbn [visits]. cbn [leb of_Z RNum]. unfold tick.
  destruct (Rleb next (IZR n)); rewrite IH; [rewrite S_INR; cbn [add RNum]; rn; lra | reflexivity].
Qed.

Theorem run_clock alpha0 nepochs es i : (i < length es)%nat ->
  forall fuel n s, length (s_next RNum s) = length es ->
  nth i (s_next RNum (run_from RNum a b gamma alpha0 mo nv nepochs es fuel n s)) 0
    = clock (e_eps RNum (nth i es (mkEdge RNum 0 0 0 0))) fuel n (nth i (s_next RNum s) 0).
Proof.
  intros Hi. induction fuel as [|f IH]; intros n s Hl; cbn [run_from clock]; [reflexivity|].
  assert (Hlen: forall alpha nn, length (s_next RNum (epoch RNum a b gamma alpha mo nv nn es s)) = length es).
  { intros alpha nn. unfold epoch. clear IH. revert s Hl. generalize 0%nat.
    induction es as [|ed es' IHes]; intros st s Hl; cbn [edges_from]; [exact Hl|].
    (* length is preserved by every edge step *)
    assert (G: forall (es0 : list (edge RNum)) st0 s0, length (s_next RNum (edges_from RNum a b gamma alpha mo nv nn st0 es0 s0)) = length (s_next RNum s0)).
    { induction es0 as [|e0 es0 IH0]; intros st0 s0; cbn [edges_from]; [reflexivity|]. rewrite IH0. apply edge_step_next_len. }
    rewrite G, edge_step_next_len. exact Hl. }
  rewrite IH by apply Hlen.
  f_equal. unfold epoch. rewrite edges_from_next by (rewrite Hl; exact Hi).
  replace (Nat.leb 0 i && Nat.ltb i (0 + length es))%bool with true
    by (symmetry; apply andb_true_iff; split; [apply Nat.leb_le|apply Nat.ltb_lt]; lia).
  rewrite Nat.sub_0_r. reflexivity.
Qed.

(* hence, in the real run of N epochs from the initial clocks, edge i has been visited (clock - p)/p =
   visits p N 0 p times, with visit_count giving the closed form *)
Corollary run_visits alpha0 es i s (N : nat) : (i < length es)%nat -> length (s_next RNum s) = length es ->
  let p := e_eps RNum (nth i es (mkEdge RNum 0 0 0 0)) in
  nth i (s_next RNum s) 0 = p ->
  nth i (s_next RNum (run_from RNum a b gamma alpha0 mo nv (Z.of_nat N) es N 0 s)) 0 = p + INR (Rvisits p N 0 p) * p.
Proof. intros Hi Hl p Hp. rewrite run_clock by assumption. rewrite Hp. apply clock_visits. Qed.
End Clock.

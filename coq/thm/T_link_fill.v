(* Shared lemmas for link theorems about nests of loops that FILL a fresh 2-d array row by row
   (`out = np.zeros((n, k)); for i: for j: out[i, j] = ...` / `out[i, d] += ...`): coq/link/L_submatrix.v, L_transform.v.
   The outer loop: iteration i rewrites row i only ([for_range_mrows]); on the all-zero start the result is the list of the
   rows computed from a zero row ([mapi_from_repeat]).  No model is imported here. *)
From Coq Require Import List ZArith Bool Lia.
From UV Require Import Num PyPrim PyPrimLemmas T_link_arr T_link_mat.
Import ListNotations.

Lemma fold_mrows {A : Type} (G : nat -> list (list A) -> list (list A)) (g : nat -> list A -> list A) :
  (forall i P r S, length P = i -> G i (P ++ r :: S) = P ++ g i r :: S) ->
  forall R P, fold_left (fun M k => G k M) (seq (length P) (length R)) (P ++ R) = P ++ mapi_from (length P) g R.
Proof.
  intros H. induction R as [|r R IH]; intros P; [reflexivity|].
  cbn [length seq fold_left mapi_from]. rewrite (H (length P) P r R eq_refl).
  change (P ++ g (length P) r :: R) with (P ++ [g (length P) r] ++ R). rewrite app_assoc.
  replace (Datatypes.S (length P)) with (length (P ++ [g (length P) r])) by (rewrite app_length; cbn; lia).
  rewrite IH. rewrite <- app_assoc. reflexivity.
Qed.

(* `for i in range(A.shape[0])` whose iteration i rewrites row i from itself *)
Lemma for_range_mrows {A : Type} (G : Z -> list (list A) -> list (list A)) (g : nat -> list A -> list A) (M : list (list A)) :
  (forall i P r S, length P = i -> G (Z.of_nat i) (P ++ r :: S) = P ++ g i r :: S) ->
  for_range 0 (zlen M) G M = mapi_from 0 g M.
Proof.
  intros H. unfold zlen. rewrite for_range_0.
  apply (fold_mrows (fun k => G (Z.of_nat k)) g H M []).
Qed.

Lemma mapi_from_repeat {A : Type} (H : nat -> A -> A) (z : A) : forall (n off : nat),
  mapi_from off H (repeat z n) = map (fun i => H i z) (seq off n).
Proof. induction n as [|n IH]; intros off; [reflexivity|]. cbn [repeat mapi_from seq map]. f_equal. apply IH. Qed.

Lemma mzeros_of_nat (N : Num) (n k : nat) : mzeros N (Z.of_nat n) (Z.of_nat k) = repeat (repeat (zero N) k) n.
Proof. unfold mzeros, vzeros. rewrite !Nat2Z.id. reflexivity. Qed.

(* the outer loop on a fresh all-zero (n, k) array *)
Lemma for_range_mfill (N : Num) (G : Z -> list (list N) -> list (list N)) (g : nat -> list N -> list N) (n k : nat) :
  (forall i P r S, length P = i -> G (Z.of_nat i) (P ++ r :: S) = P ++ g i r :: S) ->
  for_range 0 (Z.of_nat n) G (mzeros N (Z.of_nat n) (Z.of_nat k)) = map (fun i => g i (repeat (zero N) k)) (seq 0 n).
Proof.
  intros H. rewrite mzeros_of_nat.
  replace (Z.of_nat n) with (zlen (repeat (repeat (zero N) k) n)) by (unfold zlen; rewrite repeat_length; reflexivity).
  rewrite (for_range_mrows G g _ H). apply mapi_from_repeat.
Qed.

Lemma mnth_of_nat (N : Num) (m : list (list N)) (i : nat) (c : Z) : mnth N m (Z.of_nat i) c = vnth N (nth i m []) c.
Proof. unfold mnth. rewrite znth_of_nat. reflexivity. Qed.

Lemma imnth_row (m : list (list Z)) (i : nat) (j : Z) : imnth m (Z.of_nat i) j = inth (nth i m []) j.
Proof. unfold imnth, inth. rewrite znth_of_nat. reflexivity. Qed.

Lemma nth_map_in {A B : Type} (f : A -> B) (l : list A) (i : nat) (da : A) (db : B) :
  i < length l -> nth i (map f l) db = f (nth i l da).
Proof. intros H. rewrite (nth_indep _ db (f da)) by (rewrite map_length; exact H). apply map_nth. Qed.

(* C13 theorems, part 4: the dense counterparts defined in M_sparse.v ([dense_<metric>]) are the dense metric
   definitions of C12 (M_metrics.v, [d_<metric>]) over the reals, so every `sparse_X_eq_dense` theorem is a
   statement about C12's specification of the dense function.  (M_metrics.v is C12's file, copied unchanged.) *)
From Coq Require Import List ZArith Bool Arith Reals Lra Lia.
From UV Require Import Num M_metrics M_sparse T_sparse.
Import ListNotations.
Local Open Scope R_scope.

Lemma zipw_eq (f : R -> R -> R) x y : M_metrics.zipw f x y = Rzipw f x y.
Proof. revert y. induction x as [|u x IH]; destruct y as [|v y]; try reflexivity. simpl. rewrite IH. reflexivity. Qed.
Lemma fold_plus_ssum (l : list R) : forall r0, fold_left Rplus l r0 = r0 + Rssum l.
Proof. induction l as [|v l IH]; intro r0; cbn [fold_left]; [change (Rssum []) with 0; lra | rewrite IH, Rssum_cons; lra]. Qed.
Lemma vsum_ssum (l : list R) : vsum RNum l = Rssum l.
Proof. unfold vsum. rsimp. rewrite fold_plus_ssum. lra. Qed.
Lemma zipw_map2 (f : R -> R -> R) (g h : R -> R) x y :
  Rzipw f (map g x) (map h y) = Rzipw (fun u v => f (g u) (h v)) x y.
Proof. revert y. induction x as [|u x IH]; destruct y as [|v y]; try reflexivity. unfold Rzipw in *. simpl. rewrite IH. reflexivity. Qed.


Theorem dense_euclidean_is_C12 x y : dense_euclidean RNum x y = d_euclidean RNum x y.
Proof. unfold dense_euclidean, d_euclidean. rewrite vsum_ssum, zipw_eq. reflexivity. Qed.
Theorem dense_manhattan_is_C12 x y : dense_manhattan RNum x y = d_manhattan RNum x y.
Proof. unfold dense_manhattan, d_manhattan. rewrite vsum_ssum, zipw_eq. reflexivity. Qed.
Theorem dense_chebyshev_is_C12 x y : dense_chebyshev RNum x y = d_chebyshev RNum x y.
Proof. unfold dense_chebyshev, d_chebyshev, vmaxl. rewrite zipw_eq. reflexivity. Qed.
Theorem dense_minkowski_is_C12 p x y : dense_minkowski RNum p x y = d_minkowski RNum p x y.
Proof. unfold dense_minkowski, d_minkowski. rewrite vsum_ssum, zipw_eq. reflexivity. Qed.
Theorem dense_canberra_is_C12 x y : dense_canberra RNum x y = d_canberra RNum x y.
Proof. unfold dense_canberra, d_canberra. rewrite vsum_ssum, zipw_eq. reflexivity. Qed.
Theorem dense_braycurtis_is_C12 x y : dense_braycurtis RNum x y = d_braycurtis RNum x y.
Proof. unfold dense_braycurtis, d_braycurtis. cbv zeta. rewrite !vsum_ssum, !zipw_eq. reflexivity. Qed.
Theorem dense_cosine_is_C12 x y : dense_cosine RNum x y = d_cosine RNum x y.
Proof. unfold dense_cosine, d_cosine, vdot, vsq, cos_core. cbv zeta. rewrite !vsum_ssum, zipw_eq. reflexivity. Qed.

Theorem dense_hellinger_is_C12 x y : dense_hellinger RNum x y = d_hellinger RNum x y.
Proof.
  unfold dense_hellinger, d_hellinger. cbv zeta. rewrite !vsum_ssum, zipw_eq.
  change (ssum RNum x) with (Rssum x). change (ssum RNum y) with (Rssum y).
  change (ssum RNum (M_sparse.zipw RNum (fun u v => nsqrt RNum (mul RNum u v)) x y)) with (Rssum (Rzipw (fun a b => nsqrt RNum (mul RNum a b)) x y)).
  destruct (eqb RNum (Rssum x) (zero RNum) && eqb RNum (Rssum y) (zero RNum)); [reflexivity|].
  destruct (eqb RNum (Rssum x) (zero RNum) || eqb RNum (Rssum y) (zero RNum)); [reflexivity|].
  unfold clamp0. rsimp.
  match goal with |- sqrt ?t = sqrt (if Rltb ?t 0 then 0 else ?t) => destruct (Rltb t 0) eqn:E; [apply Rltb_true in E; rewrite sqrt_0; apply sqrt_neg_0; lra | reflexivity] end.
Qed.

Theorem dense_correlation_is_C12 x y : length x = length y -> dense_correlation RNum x y = d_correlation RNum x y.
Proof.
  intro Hl. unfold dense_correlation, d_correlation, vdot, vsq, centre, vmean, cos_core, nZ. cbv zeta.
  rewrite !vsum_ssum, zipw_eq, <- Hl, !map_map.
  change (ssum RNum x) with (Rssum x). change (ssum RNum y) with (Rssum y).
  rewrite zipw_map2.
  reflexivity.
Qed.

(* ---- counts ------------------------------------------------------------------------------------- *)
Lemma count_neq_count2 x y : count_neq RNum x y = Z.of_nat (count2 RNum (fun u v => negb (eqb RNum u v)) x y).
Proof.
  revert y. induction x as [|u x IH]; destruct y as [|v y]; try reflexivity.
  cbn [count_neq count2]. rewrite IH, Nat2Z.inj_add. destruct (eqb RNum u v); reflexivity.
Qed.
Theorem dense_hamming_is_C12 x y : dense_hamming RNum x y = d_hamming RNum x y.
Proof. unfold dense_hamming, d_hamming, nZ, ofn. rewrite count_neq_count2. reflexivity. Qed.

Lemma counts_spec : forall x y : list R, length x = length y ->
  let '(ctt, ctf, cft, cff) := counts RNum x y in
  ctt = Z.of_nat (ntt RNum x y) /\ (ctf + cft)%Z = Z.of_nat (nneq RNum x y) /\ (ctt + ctf + cft)%Z = Z.of_nat (nor RNum x y) /\
  (ctt + ctf + cft + cff)%Z = Z.of_nat (length x) /\
  (ctt + ctf)%Z = Z.of_nat (countb RNum (nz RNum) x) /\ (ctt + cft)%Z = Z.of_nat (countb RNum (nz RNum) y) /\
  (0 <= ctt /\ 0 <= ctf /\ 0 <= cft /\ 0 <= cff)%Z.
Proof.
  induction x as [|u x IH]; destruct y as [|v y]; intro Hl; try discriminate.
  - simpl. repeat split; reflexivity || lia.
  - injection Hl as Hl. specialize (IH y Hl). cbn [counts].
    destruct (counts RNum x y) as [[[ctt ctf] cft] cff]. destruct IH as (H1 & H2 & H3 & H4 & H5 & H6 & H7).
    unfold ntt, nneq, nor, countb in *. cbn [count2 filter length].
    change (truthy RNum u) with (nz RNum u). change (truthy RNum v) with (nz RNum v).
    destruct (nz RNum u), (nz RNum v); cbn [andb orb xorb length]; repeat split; lia.
Qed.

Section Binary.
Context (x y : list R) (Hl : length x = length y).

Ltac use_counts :=
  pose proof (counts_spec x y Hl) as HC; destruct (counts RNum x y) as [[[ctt ctf] cft] cff];
  destruct HC as (H1 & H2 & H3 & H4 & H5 & H6 & H7).
Lemma IZR_nat_eqb0 k : (Z.of_nat k =? 0)%Z = Nat.eqb k 0.
Proof. destruct k; reflexivity. Qed.
Lemma n2_two : n2 RNum = two RNum.
Proof. unfold n2, two. rsimp. lra. Qed.
Lemma nhalf_half : nhalf RNum = half RNum.
Proof. unfold nhalf, half. rewrite n2_two. reflexivity. Qed.

Theorem dense_jaccard_is_C12 : dense_jaccard RNum x y = d_jaccard RNum x y.
Proof.
  unfold dense_jaccard, d_jaccard, b_jaccard, nZ, ofn. use_counts.
  rewrite H3, IZR_nat_eqb0. destruct (Nat.eqb (nor RNum x y) 0); [reflexivity|].
  rsimp. rewrite minus_IZR, H1. reflexivity.
Qed.
Theorem dense_matching_is_C12 : dense_matching RNum x y = d_matching RNum x y.
Proof. unfold dense_matching, d_matching, b_matching, c_total, nZ, ofn. use_counts. rewrite H2, H4. reflexivity. Qed.
Theorem dense_dice_is_C12 : dense_dice RNum x y = d_dice RNum x y.
Proof.
  unfold dense_dice, d_dice, b_dice, nZ, ofn. use_counts. cbv zeta. rewrite H2, H1, IZR_nat_eqb0, n2_two. reflexivity.
Qed.
Theorem dense_kulsinski_is_C12 : dense_kulsinski RNum x y = d_kulsinski RNum x y.
Proof.
  unfold dense_kulsinski, d_kulsinski, b_kulsinski, c_total, nZ, ofn. use_counts. cbv zeta. rewrite H2, H4, H1, IZR_nat_eqb0.
  destruct (Nat.eqb (nneq RNum x y) 0); [reflexivity|]. rsimp. rewrite !plus_IZR, minus_IZR. reflexivity.
Qed.
Theorem dense_rogerstanimoto_is_C12 : dense_rogerstanimoto RNum x y = d_rogerstanimoto RNum x y.
Proof.
  unfold dense_rogerstanimoto, d_rogerstanimoto, b_rogerstanimoto, c_total, nZ, ofn. use_counts. cbv zeta. rewrite H2, H4, n2_two.
  rsimp. rewrite plus_IZR. reflexivity.
Qed.
Theorem dense_sokalmichener_is_C12 : dense_sokalmichener RNum x y = d_sokalmichener RNum x y.
Proof.
  unfold dense_sokalmichener, d_sokalmichener, b_sokalmichener, c_total, nZ, ofn. use_counts. cbv zeta. rewrite H2, H4, n2_two.
  rsimp. rewrite plus_IZR. reflexivity.
Qed.
Theorem dense_sokalsneath_is_C12 : dense_sokalsneath RNum x y = d_sokalsneath RNum x y.
Proof.
  unfold dense_sokalsneath, d_sokalsneath, b_sokalsneath, nZ, ofn. use_counts. cbv zeta. rewrite H2, H1, IZR_nat_eqb0, nhalf_half. reflexivity.
Qed.
Theorem dense_russellrao_is_C12 : dense_russellrao RNum x y = d_russellrao RNum x y.
Proof.
  unfold dense_russellrao, d_russellrao, b_russellrao, c_total, nZ, ofn. use_counts. cbv zeta. rewrite H4, H5, H6, H1.
  assert (E1 : forall j k, (Z.of_nat j =? Z.of_nat k)%Z = Nat.eqb j k).
  { intros j k. destruct (Nat.eqb_spec j k); [subst; apply Z.eqb_refl | apply Z.eqb_neq; lia]. }
  rewrite !E1. destruct (Nat.eqb (ntt RNum x y) (countb RNum (nz RNum) x) && Nat.eqb (ntt RNum x y) (countb RNum (nz RNum) y)); [reflexivity|].
  rsimp. rewrite minus_IZR. reflexivity.
Qed.
End Binary.

Theorem dense_is_C12 : forall x y : list R, length x = length y ->
  dense_euclidean RNum x y = d_euclidean RNum x y /\ dense_manhattan RNum x y = d_manhattan RNum x y /\
  dense_chebyshev RNum x y = d_chebyshev RNum x y /\ (forall p, dense_minkowski RNum p x y = d_minkowski RNum p x y) /\
  dense_canberra RNum x y = d_canberra RNum x y /\ dense_braycurtis RNum x y = d_braycurtis RNum x y /\
  dense_hamming RNum x y = d_hamming RNum x y /\ dense_jaccard RNum x y = d_jaccard RNum x y /\
  dense_dice RNum x y = d_dice RNum x y /\ dense_matching RNum x y = d_matching RNum x y /\
  dense_kulsinski RNum x y = d_kulsinski RNum x y /\ dense_rogerstanimoto RNum x y = d_rogerstanimoto RNum x y /\
  dense_russellrao RNum x y = d_russellrao RNum x y /\ dense_sokalmichener RNum x y = d_sokalmichener RNum x y /\
  dense_sokalsneath RNum x y = d_sokalsneath RNum x y /\ dense_cosine RNum x y = d_cosine RNum x y /\
  dense_correlation RNum x y = d_correlation RNum x y /\ dense_hellinger RNum x y = d_hellinger RNum x y.
Proof.
  intros x y Hl.
  split; [apply dense_euclidean_is_C12|]. split; [apply dense_manhattan_is_C12|]. split; [apply dense_chebyshev_is_C12|].
  split; [intro p; apply dense_minkowski_is_C12|]. split; [apply dense_canberra_is_C12|]. split; [apply dense_braycurtis_is_C12|].
  split; [apply dense_hamming_is_C12|]. split; [apply dense_jaccard_is_C12; exact Hl|]. split; [apply dense_dice_is_C12; exact Hl|].
  split; [apply dense_matching_is_C12; exact Hl|]. split; [apply dense_kulsinski_is_C12; exact Hl|].
  split; [apply dense_rogerstanimoto_is_C12; exact Hl|]. split; [apply dense_russellrao_is_C12; exact Hl|].
  split; [apply dense_sokalmichener_is_C12; exact Hl|]. split; [apply dense_sokalsneath_is_C12; exact Hl|].
  split; [apply dense_cosine_is_C12|]. split; [apply dense_correlation_is_C12; exact Hl | apply dense_hellinger_is_C12].
Qed.

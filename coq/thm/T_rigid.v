(* C19: an orthogonal map preserves the Gram matrix, hence every pairwise distance. *)
From mathcomp Require Import all_ssreflect all_algebra.
From UV Require Import M_rigid.
Set Implicit Arguments.
Unset Strict Implicit.
Unset Printing Implicit Defensive.
Import GRing.Theory.
Local Open Scope ring_scope.

Section RigidTheory.
Variable F : comRingType.
Variable d : nat.
Implicit Types (R U V : 'M[F]_d).

Lemma orth_mul U V : orthogonal U -> orthogonal V -> orthogonal (procrustes_rot U V).
Proof.
rewrite /orthogonal /procrustes_rot => HU HV.
by rewrite trmx_mul mulmxA -(mulmxA U) HV mulmx1 HU.
Qed.

Lemma rigid_preserves_gram R n m (X : 'M[F]_(n, d)) (Y : 'M[F]_(m, d)) :
  orthogonal R -> gram (align X R) (align Y R) = gram X Y.
Proof.
rewrite /orthogonal /gram /align => HR.
by rewrite trmx_mul mulmxA -(mulmxA X) HR mulmx1.
Qed.

Lemma rigid_preserves_sqdist R (x y : 'rV[F]_d) :
  orthogonal R -> sqdist (align x R) (align y R) = sqdist x y.
Proof.
move=> HR; rewrite /sqdist /align -mulmxBl.
by have := rigid_preserves_gram (x - y) (x - y) HR; rewrite /gram /align => ->.
Qed.

(* rows of the aligned embedding: distance between samples i and j is unchanged *)
Lemma align_rows_sqdist R n (E : 'M[F]_(n, d)) i j :
  orthogonal R -> sqdist (row i (align E R)) (row j (align E R)) = sqdist (row i E) (row j E).
Proof.
move=> HR; rewrite /align !row_mul; exact: (rigid_preserves_sqdist _ _ HR).
Qed.

End RigidTheory.

(* non-vacuity: a rotation by a quarter turn is orthogonal and is not the identity *)
Lemma quarter_turn_orthogonal :
  let R : 'M[int]_2 := \matrix_(i, j) (if (i == 0) && (j == 1) then 1 else if (i == 1) && (j == 0) then -1 else 0) in
  orthogonal R /\ R != 1%:M.
Proof.
split.
- rewrite /orthogonal; apply/matrixP => i j; rewrite !mxE.
  rewrite !big_ord_recl big_ord0 !mxE /=.
  by case: i => [[|[|i]] Hi] //; case: j => [[|[|j]] Hj] //.
- apply/eqP => /matrixP /(_ 0 0); rewrite !mxE /=. by [].
Qed.

(* C05 theorems. *)
From Coq Require Import List ZArith Bool Arith Reals Lra Lia Psatz.
From UV Require Import Num M_smooth M_sgd M_pipeline T_sgd.
Import ListNotations.
Ltac rn := change (T RNum) with R in *.

(* ---- n_neighbors resolution -------------------------------------------------------------------------- *)
Theorem resolve_k_valid n k : 2 <= n -> 2 <= k ->
  exists k' w, resolve_k n k = UseK k' w /\ 1 <= k' <= n - 1 /\ k' <= k /\ (w = true <-> n <= k).
Proof.
  intros Hn Hk. unfold resolve_k. destruct (Nat.leb_spec n k) as [H|H].
  - destruct (Nat.eqb_spec n 1); [lia|]. exists (n - 1), true. repeat split; auto; lia.
  - exists k, false. repeat split; try lia; intros; try discriminate; lia.
Qed.

Theorem resolve_k_single k : 1 <= k -> resolve_k 1 k = Shortcut.
Proof. intros H. unfold resolve_k. destruct (Nat.leb_spec 1 k); [reflexivity|lia]. Qed.

(* ---- unique bookkeeping ---------------------------------------------------------------------------------- *)
Lemma row_eqb_eq a b : row_eqb a b = true <-> a = b.
Proof.
  revert b; induction a as [|x a IH]; intros [|y b]; simpl; split; intros H; try discriminate; auto.
  - apply andb_true_iff in H as [H1 H2]. apply Z.eqb_eq in H1. apply IH in H2. congruence.
  - inversion H; subst. rewrite Z.eqb_refl. simpl. now apply IH.
Qed.

Theorem unique_contract rows index inverse : check_unique rows index inverse = true ->
  length inverse = length rows /\
  (forall i, i < length rows -> nth (nth (nth i inverse 0) index 0) rows [] = nth i rows []) /\
  (forall i j, i < length rows -> j < length rows -> nth i rows [] = nth j rows [] -> nth i inverse 0 = nth j inverse 0).
Proof.
  unfold check_unique. intros H.
  repeat (apply andb_true_iff in H as [H ?]).
  apply Nat.eqb_eq in H.
  rename H0 into Hd, H1 into Hr, H2 into Hinv, H3 into Hidx.
  rewrite forallb_forall in Hr, Hinv, Hd.
  assert (RT: forall i, i < length rows -> nth (nth (nth i inverse 0) index 0) rows [] = nth i rows []).
  { intros i Hi. apply row_eqb_eq. apply Hr. apply in_seq. lia. }
  split; [exact H|]. split; [exact RT|].
  intros i j Hi Hj Heq.
  assert (Pi: nth i inverse 0 < length index).
  { apply Nat.ltb_lt. apply Hinv. apply nth_In. lia. }
  assert (Pj: nth j inverse 0 < length index).
  { apply Nat.ltb_lt. apply Hinv. apply nth_In. lia. }
  assert (E: nth (nth (nth i inverse 0) index 0) rows [] = nth (nth (nth j inverse 0) index 0) rows []).
  { rewrite !RT by assumption. exact Heq. }
  (* distinct positions of index hold distinct rows *)
  destruct (Nat.lt_trichotomy (nth i inverse 0) (nth j inverse 0)) as [L|[L|L]]; auto; exfalso.
  - specialize (Hd (nth i inverse 0) ltac:(apply in_seq; lia)). rewrite forallb_forall in Hd.
    specialize (Hd (nth j inverse 0) ltac:(apply in_seq; lia)).
    apply orb_true_iff in Hd as [Hd|Hd].
    + apply negb_true_iff, Nat.ltb_ge in Hd. lia.
    + apply negb_true_iff in Hd. apply row_eqb_eq in E. congruence.
  - specialize (Hd (nth j inverse 0) ltac:(apply in_seq; lia)). rewrite forallb_forall in Hd.
    specialize (Hd (nth i inverse 0) ltac:(apply in_seq; lia)).
    apply orb_true_iff in Hd as [Hd|Hd].
    + apply negb_true_iff, Nat.ltb_ge in Hd. lia.
    + apply negb_true_iff in Hd. symmetry in E. apply row_eqb_eq in E. congruence.
Qed.

(* hence the expanded embedding has one row per input row and identical inputs get identical rows *)
Theorem expand_rows {A} rows index inverse (emb : list A) d : check_unique rows index inverse = true ->
  length (expand emb inverse d) = length rows /\
  (forall i j, i < length rows -> j < length rows -> nth i rows [] = nth j rows [] ->
     nth i (expand emb inverse d) d = nth j (expand emb inverse d) d).
Proof.
  intros H. destruct (unique_contract rows index inverse H) as (Hl & _ & Hsame).
  unfold expand. split; [now rewrite map_length|].
  intros i j Hi Hj Heq.
  rewrite (nth_indep _ d (nth 0 emb d)) by (rewrite map_length; lia).
  rewrite (nth_indep (map _ inverse) d (nth 0 emb d)) by (rewrite map_length; lia).
  rewrite !(map_nth (fun p => nth p emb d) inverse 0). now rewrite (Hsame i j Hi Hj Heq).
Qed.

(* ---- rescale ------------------------------------------------------------------------------------------------ *)
Local Open Scope R_scope.
Definition Rcol_min : list R -> R := col_min RNum.
Definition Rcol_max : list R -> R := col_max RNum.
Definition Rrescale : list R -> list R := rescale RNum.

Lemma fold_min_le l : forall acc, fold_left (nmin RNum) l acc <= acc /\ (forall x, In x l -> fold_left (nmin RNum) l acc <= x).
Proof.
  induction l as [|y l IH]; intros acc; simpl; [split; [lra|contradiction]|].
  destruct (IH (nmin RNum acc y)) as [H1 H2].
  assert (Hm: nmin RNum acc y <= acc /\ nmin RNum acc y <= y).
  { unfold nmin; cbn. destruct (Rleb acc y) eqn:E; [apply Rleb_true in E|apply Rleb_false in E]; lra. }
  rn. split; [lra|]. intros x [->|Hx]; [lra|]. now apply H2.
Qed.

Lemma fold_max_ge l : forall acc, acc <= fold_left (nmax RNum) l acc /\ (forall x, In x l -> x <= fold_left (nmax RNum) l acc).
Proof.
  induction l as [|y l IH]; intros acc; simpl; [split; [lra|contradiction]|].
  destruct (IH (nmax RNum acc y)) as [H1 H2].
  assert (Hm: acc <= nmax RNum acc y /\ y <= nmax RNum acc y).
  { unfold nmax; cbn. destruct (Rleb acc y) eqn:E; [apply Rleb_true in E|apply Rleb_false in E]; lra. }
  rn. split; [lra|]. intros x [->|Hx]; [lra|]. now apply H2.
Qed.

Lemma col_bounds c x : In x c -> Rcol_min c <= x <= Rcol_max c.
Proof.
  destruct c as [|y l]; [contradiction|]. unfold Rcol_min, Rcol_max, col_min, col_max.
  destruct (fold_min_le l y) as [A1 A2]. destruct (fold_max_ge l y) as [B1 B2].
  intros [->|Hx]; split; auto.
Qed.

(* every rescaled coordinate lies in [0, 10]; a constant axis becomes all zeros: no invalid operation *)
Theorem rescale_in_0_10 c : Forall (fun v => 0 <= v <= 10) (Rrescale c).
Proof.
  unfold Rrescale, rescale. apply Forall_forall. intros v Hv. apply in_map_iff in Hv as [x [<- Hx]].
  pose proof (col_bounds c x Hx) as [Hlo Hhi]. fold Rcol_min Rcol_max in *. cbn [sub mul div of_Z eqb zero one RNum].
  fold (Rcol_min c) (Rcol_max c). rn.
  destruct (Reqb (Rcol_max c - Rcol_min c) 0) eqn:E.
  - apply Reqb_true in E. assert (x - Rcol_min c = 0) by lra.
    replace (10 * (x - Rcol_min c) / 1) with 0 by (rewrite H; field). lra.
  - apply Reqb_false in E. assert (P: 0 < Rcol_max c - Rcol_min c) by lra.
    assert (Hi: 0 < / (Rcol_max c - Rcol_min c)) by (now apply Rinv_0_lt_compat).
    split.
    + unfold Rdiv. apply Rmult_le_pos; [nra|lra].
    + apply Rmult_le_reg_r with (Rcol_max c - Rcol_min c); auto.
      unfold Rdiv. rewrite Rmult_assoc, Rinv_l by lra. nra.
Qed.

Theorem rescale_length c : length (Rrescale c) = length c.
Proof. unfold Rrescale, rescale. now rewrite map_length. Qed.

(* the unguarded version fails exactly on constant columns (witness: any constant column) *)
Theorem rescale_unguarded_refuted : exists c, c <> [] /\ rescale_unguarded RNum c = None.
Proof.
  exists [2; 2; 2]. split; [discriminate|]. unfold rescale_unguarded, col_min, col_max; cbn.
  unfold nmin, nmax; cbn. unfold Rleb. repeat (destruct (Rle_dec _ _); try lra).
  unfold Reqb. destruct (Req_EM_T _ _); [reflexivity|lra].
Qed.

(* ---- denominators of the SGD step are never zero ------------------------------------------------------------ *)
Lemma Rpow_nonneg x y : 0 <= x -> 0 <= Rpow x y.
Proof.
  intros Hx. unfold Rpow. destruct (Req_EM_T y 0); [lra|]. destruct (Rlt_dec 0 x); [left; apply exp_pos|lra].
Qed.

Theorem kernel_denominators_nonzero a b d2 : 0 <= a -> 0 <= d2 ->
  1 <= a * Rpow d2 b + 1 /\ / 1000 <= (/ 1000 + d2) * (a * Rpow d2 b + 1).
Proof.
  intros Ha Hd. pose proof (Rpow_nonneg d2 b Hd) as Hp.
  assert (0 <= a * Rpow d2 b) by (now apply Rmult_le_pos). split; nra.
Qed.

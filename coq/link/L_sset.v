(* Link theorems for the two numba kernels behind `a + b`, `a * b`, `a - b` of fitted models (C18):
   general_sset_union and general_sset_intersection of umap/sparse.py.  The Gallina text regenerated from the CURRENT
   source (Src_sparse_sset.v: CSR arrays indptr / indices / data of the two operands, COO skeleton result_row /
   result_col / result_val of the result, result_val stored into and returned) equals the CSR-level model of
   coq/model/M_csr.v, over EVERY [Num] (source and model perform the same operations in the same order, so the
   equalities also hold in binary64), for every skeleton whose rows are described by well-formed indptr arrays
   ([csr_ok]: row i exists, 0 <= indptr[i] <= indptr[i+1] <= len(indices) = len(data)):

     src_general_sset_union_eq         result_val' = [ union_val lf rf (A[i,j]) (B[i,j]) | (i,j) in skeleton ]
     src_general_sset_intersection_eq  result_val'[idx] = inter_entry rc w lf rf (result_val[idx]) (A[i,j]) (B[i,j]):
                                       the kernel writes only where left_val > left_min or right_val > right_min and
                                       KEEPS the previous content of result_val[idx] elsewhere

   where X[i,j] = [csr_lookup]: the LAST stored value of row i with column j (None if there is none), lf / rf the
   fill values computed from data.min() exactly as the source writes them ([csr_fill], [csr_fill_r], [csr_fill_rc]).
   Nothing is assumed about the stored values, the column indices (duplicates, any order) or the old contents of
   result_val.  Outside the hypotheses (an indptr that is not monotone or points outside the arrays, a skeleton row
   outside indptr) numba reads out of bounds: such calls are outside the subset's meaning (PyPrim.v).
   On an empty data array `data.min()` raises in numba; [vmin_py] gives 0 there (outside the meaning as well). *)
From Coq Require Import List ZArith Bool Lia.
From UV Require Import Num PyPrim PyPrimLemmas M_supervised M_combine M_csr.
From UVS Require Import Src_sparse_sset.
Import ListNotations.

(* ---- slices ------------------------------------------------------------------------------------------------- *)
Lemma nth_firstn_lt {A : Type} (d : A) : forall (n k : nat) (l : list A), k < n -> nth k (firstn n l) d = nth k l d.
Proof.
  induction n as [|n IH]; intros k l H; [lia|]. destruct l as [|a l]; [destruct k; reflexivity|].
  destruct k as [|k]; [reflexivity|]. cbn [firstn nth]. apply IH. lia.
Qed.

Lemma nth_skipn_add {A : Type} (d : A) : forall (a k : nat) (l : list A), nth k (skipn a l) d = nth (a + k) l d.
Proof.
  induction a as [|a IH]; intros k l; [reflexivity|]. destruct l as [|x l]; [destruct k; reflexivity|].
  cbn [skipn Nat.add nth]. apply IH.
Qed.

Lemma seg_length {A : Type} (l : list A) (lo hi : Z) :
  (0 <= lo)%Z -> (lo <= hi)%Z -> (hi <= zlen l)%Z -> length (seg l lo hi) = Z.to_nat (hi - lo).
Proof. intros H0 H1 H2. unfold seg, zlen in *. rewrite firstn_length, skipn_length. lia. Qed.

Lemma nth_seg {A : Type} (d : A) (l : list A) (lo hi : Z) (k : nat) :
  (0 <= lo)%Z -> k < Z.to_nat (hi - lo) -> nth k (seg l lo hi) d = znth d l (lo + Z.of_nat k).
Proof.
  intros H0 Hk. unfold seg. rewrite nth_firstn_lt by exact Hk. rewrite nth_skipn_add.
  replace (lo + Z.of_nat k)%Z with (Z.of_nat (Z.to_nat lo + k)) by lia. rewrite znth_of_nat. reflexivity.
Qed.

Lemma map_combine_fst {A B C : Type} (F : A -> C) : forall (x : list A) (y : list B),
  length x = length y -> map (fun ab => F (fst ab)) (List.combine x y) = map F x.
Proof. induction x as [|a x IH]; intros [|b y] L; try discriminate; [reflexivity|]. cbn. f_equal. apply IH. cbn in L; lia. Qed.

Section Generic.
Context (N : Num).

(* ---- one row scan: `v = fill; for k in range(indptr[i], indptr[i+1]): if indices[k] == j: v = g(data[k])` ---- *)
Lemma row_lookup_fold (g : N -> N) (j : Z) (row : list (Z * N)) (fill : N) :
  fold_left (fun acc cv => if Z.eqb (fst cv) j then g (snd cv) else acc) row fill
  = match row_lookup N j row with Some v => g v | None => fill end.
Proof.
  unfold row_lookup. induction row as [|cv row IH] using rev_ind; [reflexivity|].
  rewrite fold_left_app. cbn [fold_left]. rewrite rev_app_distr. cbn [rev app find].
  destruct (Z.eqb (fst cv) j); [reflexivity|exact IH].
Qed.

Lemma scan_row (g : N -> N) (ip ix : list Z) (d : list N) (i j : Z) (fill : N) :
  csr_ok N ip ix d i ->
  for_range (inth ip i) (inth ip (i + 1)) (fun k acc => if Z.eqb (inth ix k) j then g (vnth N d k) else acc) fill
  = match csr_lookup N ip ix d i j with Some v => g v | None => fill end.
Proof.
  intros (Hi & Hi1 & Hlo & Hle & Hhi & HL). unfold csr_lookup, csr_row. cbv zeta.
  rewrite <- row_lookup_fold. unfold for_range.
  set (lo := inth ip i) in *. set (hi := inth ip (i + 1)%Z) in *.
  assert (Hd : (hi <= zlen d)%Z) by (unfold zlen in *; lia).
  rewrite <- (seg_length ix lo hi) by assumption.
  apply (fold_seq_list2 0%Z (zero N) (fun acc c v => if Z.eqb c j then g v else acc)).
  - rewrite !seg_length by assumption. reflexivity.
  - intros k s Hk. rewrite seg_length in Hk by assumption. rewrite !nth_seg by assumption. reflexivity.
Qed.

Lemma scan_row_id (ip ix : list Z) (d : list N) (i j : Z) (fill : N) :
  csr_ok N ip ix d i ->
  for_range (inth ip i) (inth ip (i + 1)) (fun k acc => if Z.eqb (inth ix k) j then vnth N d k else acc) fill
  = lookup_or_min N fill (csr_lookup N ip ix d i j).
Proof. intros H. rewrite (scan_row (fun v => v)) by exact H. reflexivity. Qed.

Lemma scan_row_compl (ip ix : list Z) (d : list N) (i j : Z) (fill : N) :
  csr_ok N ip ix d i ->
  for_range (inth ip i) (inth ip (i + 1)) (fun k acc => if Z.eqb (inth ix k) j then sub N (one N) (vnth N d k) else acc) fill
  = match csr_lookup N ip ix d i j with Some v => sub N (one N) v | None => fill end.
Proof. intros H. apply (scan_row (fun v => sub N (one N) v)). exact H. Qed.

(* ---- the loop over the skeleton: `for idx in range(result_row.shape[0])`, each entry from (row[idx], col[idx]) and its
        own old value ------------------------------------------------------------------------------------------- *)
Lemma skeleton_loop (h : Z -> Z -> N -> N) (row col : list Z) (val : list N) (f : Z -> list N -> list N) :
  length row = length val -> length col = length val ->
  (forall k vals, k < length val ->
     f (Z.of_nat k) vals = vset N vals (Z.of_nat k) (h (nth k row 0%Z) (nth k col 0%Z) (vnth N vals (Z.of_nat k)))) ->
  for_range 0 (zlen row) f val
  = map (fun ijv => h (fst (fst ijv)) (snd (fst ijv)) (snd ijv)) (List.combine (List.combine row col) val).
Proof.
  intros L1 L2 Hf. unfold zlen. rewrite L1.
  rewrite (for_range_ext (length val) f
             (fun k vals => vset N vals k (h (nth (Z.to_nat k) row 0%Z) (nth (Z.to_nat k) col 0%Z) (vnth N vals k)))).
  - rewrite (for_range_update N (fun k c => h (nth k row 0%Z) (nth k col 0%Z) c) (length val) val); [|reflexivity|].
    + apply (mapi_from_combine2 0%Z 0%Z h val row col 0 _ L1 L2). intros i c _. reflexivity.
    + intros k vals. rewrite Nat2Z.id. reflexivity.
  - intros k vals Hk. rewrite Nat2Z.id. apply Hf. exact Hk.
Qed.

Definition rows_ok (ip ix : list Z) (d : list N) (row : list Z) : Prop := Forall (csr_ok N ip ix d) row.

Lemma rows_ok_nth (ip ix : list Z) (d : list N) (row : list Z) (k : nat) :
  rows_ok ip ix d row -> k < length row -> csr_ok N ip ix d (nth k row 0%Z).
Proof. intros H Hk. unfold rows_ok in H. rewrite Forall_forall in H. apply H. apply nth_In. exact Hk. Qed.

(* ---- general_sset_union ------------------------------------------------------------------------------------- *)
Theorem src_general_sset_union_eq (ip1 ix1 : list Z) (d1 : list N) (ip2 ix2 : list Z) (d2 : list N)
        (row col : list Z) (val : list N) :
  length row = length val -> length col = length val ->
  rows_ok ip1 ix1 d1 row -> rows_ok ip2 ix2 d2 row ->
  src_general_sset_union N ip1 ix1 d1 ip2 ix2 d2 row col val = csr_union N ip1 ix1 d1 ip2 ix2 d2 row col.
Proof.
  intros L1 L2 R1 R2. unfold src_general_sset_union. cbv zeta.
  rewrite (skeleton_loop (fun i j _ => union_entry N (csr_fill N d1) (csr_fill N d2)
                                         (csr_lookup N ip1 ix1 d1 i j) (csr_lookup N ip2 ix2 d2 i j)) row col val _ L1 L2).
  - unfold csr_union.
    rewrite (map_combine_fst (fun ij => union_entry N (csr_fill N d1) (csr_fill N d2)
                                (csr_lookup N ip1 ix1 d1 (fst ij) (snd ij)) (csr_lookup N ip2 ix2 d2 (fst ij) (snd ij)))).
    + reflexivity.
    + rewrite combine_length. lia.
  - intros k vals Hk. rewrite !inth_of_nat.
    rewrite scan_row_id by (apply rows_ok_nth; [exact R1|lia]).
    rewrite scan_row_id by (apply rows_ok_nth; [exact R2|lia]).
    reflexivity.
Qed.

(* ---- general_sset_intersection -------------------------------------------------------------------------------- *)
Theorem src_general_sset_intersection_eq (ip1 ix1 : list Z) (d1 : list N) (ip2 ix2 : list Z) (d2 : list N)
        (row col : list Z) (val : list N) (rc : bool) (w : N) :
  length row = length val -> length col = length val ->
  rows_ok ip1 ix1 d1 row -> rows_ok ip2 ix2 d2 row ->
  src_general_sset_intersection N ip1 ix1 d1 ip2 ix2 d2 row col val rc w
  = csr_intersection N ip1 ix1 d1 ip2 ix2 d2 row col val rc w.
Proof.
  intros L1 L2 R1 R2. unfold src_general_sset_intersection, csr_intersection. cbv zeta.
  apply (skeleton_loop (fun i j old => inter_entry N rc w (csr_fill N d1) (if rc then csr_fill_rc N d2 else csr_fill_r N d2) old
                                         (csr_lookup N ip1 ix1 d1 i j) (csr_lookup N ip2 ix2 d2 i j)) row col val _ L1 L2).
  intros k vals Hk. rewrite !inth_of_nat.
  rewrite scan_row_id by (apply rows_ok_nth; [exact R1|lia]).
  pose proof (rows_ok_nth ip2 ix2 d2 row k R2 ltac:(lia)) as O2.
  unfold inter_entry, ngt. cbv zeta. fold (csr_fill N d1).
  destruct rc.
  - rewrite scan_row_compl by exact O2. fold (csr_fill_rc N d2).
    destruct (orb _ _); [|symmetry; apply vset_same].
    destruct (ltb N w _); reflexivity.
  - rewrite scan_row_id by exact O2. fold (csr_fill_r N d2).
    replace (lookup_or_min N (csr_fill_r N d2) (csr_lookup N ip2 ix2 d2 (nth k row 0%Z) (nth k col 0%Z)))
      with (match csr_lookup N ip2 ix2 d2 (nth k row 0%Z) (nth k col 0%Z) with Some v => v | None => csr_fill_r N d2 end)
      by (destruct (csr_lookup N ip2 ix2 d2 _ _); reflexivity).
    destruct (orb _ _); [|symmetry; apply vset_same].
    destruct (ltb N w _); reflexivity.
Qed.

End Generic.

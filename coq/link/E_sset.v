(* Evaluation leg of the translation tie (C18): the Gallina text generated from the CURRENT umap/sparse.py kernels
   general_sset_union / general_sset_intersection is itself run in binary64 on CSR inputs the implementation (the numba
   kernels, called with float64 arrays, so that every operation is a binary64 operation) ran on, and the contents of
   result_val are compared inside Coq.  This validates the translator (PyPrim.v semantics of loops with computed bounds,
   int-array reads, stores into an argument array, max / min, the value-less return) on real executions, including CSR rows
   with repeated column indices (later matches overwrite earlier ones) and skeleton entries stored in neither operand
   (the intersection kernel keeps the old content there).  Used by harness/c18.py through harness/vp/link.py.
   Union: exact agreement (no transcendental function).  Intersection: pow is FNum's software power, libm's in numba:
   agreement within the given relative tolerance. *)
From Coq Require Import List ZArith Bool PrimFloat.
From UV Require Import Num FloatFns FNum PyPrim.
From UVS Require Import Src_sparse_sset.
Import ListNotations.
Open Scope float_scope.

(* -1: agree; -3: lengths differ; i >= 0: first position that differs *)
Fixpoint first_diff (rtol atol : float) (i : Z) (a b : list float) : Z :=
  match a, b with
  | [], [] => (-1)%Z
  | u :: a', v :: b' => if f_close rtol atol u v then first_diff rtol atol (i + 1)%Z a' b' else i
  | _, _ => (-3)%Z
  end.

Definition csr : Type := (list Z * list Z * list float)%type.       (* indptr, indices, data *)

Definition verdict_src_union (A B : csr) (row col : list Z) (val out : list float) : Z :=
  let '(ip1, ix1, d1) := A in let '(ip2, ix2, d2) := B in
  first_diff 0 0 0%Z (src_general_sset_union FNum ip1 ix1 d1 ip2 ix2 d2 row col val) out.

Definition verdict_src_intersection (rtol atol : float) (A B : csr) (row col : list Z) (val : list float) (rc : bool) (w : float)
                                    (out : list float) : Z :=
  let '(ip1, ix1, d1) := A in let '(ip2, ix2, d2) := B in
  first_diff rtol atol 0%Z (src_general_sset_intersection FNum ip1 ix1 d1 ip2 ix2 d2 row col val rc w) out.

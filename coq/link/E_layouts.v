(* Evaluation leg of the translation tie (C07): the Gallina text generated from the CURRENT
   umap/layouts.py:_optimize_layout_euclidean_single_epoch (both variants: [_shared] = tail_embedding is head_embedding,
   [_distinct] = two arrays that do not overlap; densmap_flag=False) is itself run in binary64 on the states the
   implementation's kernel (its pure-Python [py_func] on float64 copies: no fastmath, no float32) ran on, and compared with
   what that call left in the arrays.  This validates the translator's row-view / aliasing semantics against the running code.
   Used by harness/c07.py through harness/vp/link.py; the case record is model/V_sgd.v's [epoch_case]. *)
From Coq Require Import List ZArith Bool PrimFloat.
From UV Require Import Num FloatFns FNum PyPrim M_sgd V_sgd.
From UVS Require Import Src_layouts.
Import ListNotations.
Open Scope float_scope.

Definition rng_rows (l : list rng3) : list (list Z) := map (fun st => let '(a, b, c) := st in [a; b; c]) l.
Definition rows_eqb (a b : list (list Z)) : bool :=
  Nat.eqb (length a) (length b) &&
  forallb (fun p => Nat.eqb (length (fst p)) (length (snd p)) && forallb (fun q => (fst q =? snd q)%Z) (combine (fst p) (snd p))) (combine a b).

(* (H, T, rng rows, next negative, next) after the translated kernel; T is [] in the shared case *)
Definition run_src_epoch (c : epoch_case) :=
  let hd_ := map (fun e => Z.of_nat (ef_head e)) (c_edges c) in
  let tl_ := map (fun e => Z.of_nat (ef_tail e)) (c_edges c) in
  let eps := map ef_eps (c_edges c) in
  let epns := map ef_epns (c_edges c) in
  let dim := zlen (hd [] (c_H c)) in
  let n := f_to_Z (c_n c) in
  if c_shared c then
    let '(H, r, nn, nx) := src__optimize_layout_euclidean_single_epoch_shared FNum (c_H c) hd_ tl_ (c_nv c) eps (c_a c) (c_b c)
        (rng_rows (c_rng c)) (c_gamma c) dim (c_move c) (c_alpha c) epns (c_nneg c) (c_next c) n [] [] 0 0 0 0 [] [] 0 in
    (H, @nil (list float), r, nn, nx)
  else
    src__optimize_layout_euclidean_single_epoch_distinct FNum (c_H c) (c_T c) hd_ tl_ (c_nv c) eps (c_a c) (c_b c)
        (rng_rows (c_rng c)) (c_gamma c) dim (c_move c) (c_alpha c) epns (c_nneg c) (c_next c) n [] [] 0 0 0 0 [] [] 0.

(* the hypotheses of the link theorems (L_sgd.v: src_sgd_shared_eq / src_sgd_distinct_eq) on this case: rectangular arrays, one RNG
   row per head row, 0 < n_vertices <= number of tail rows, edge endpoints within range *)
Definition hyp_ok (c : epoch_case) : bool :=
  let D := length (hd [] (c_H c)) in
  let nH := length (c_H c) in
  let nT := if c_shared c then nH else length (c_T c) in
  forallb (fun r => Nat.eqb (length r) D) (c_H c) && (c_shared c || forallb (fun r => Nat.eqb (length r) D) (c_T c)) &&
  Nat.eqb (length (c_rng c)) nH && (0 <? c_nv c)%Z && (c_nv c <=? Z.of_nat nT)%Z &&
  forallb (fun e => Nat.ltb (ef_head e) nH && Nat.ltb (ef_tail e) nT) (c_edges c).

(* (code, max position deviation * 1e12): code -1 = the translated source reproduces the implementation's epoch; 6 = the case is
   outside the link theorems' hypotheses *)
Definition verdict_src_epoch (ptol ctol : float) (c : epoch_case) : Z * Z :=
  let '(H, T, r, nn, nx) := run_src_epoch c in
  let dH := maxdiff2 H (o_H c) in
  let dT := if c_shared c then 0 else maxdiff2 T (o_T c) in
  let dev := f_to_Z (fmax dH dT * 1e12) in
  let code :=
    if negb (hyp_ok c) then 6%Z else
    if negb (rows_eqb r (rng_rows (o_rng c))) then 1%Z else
    if negb (maxdiff nx (o_next c) <=? ctol) then 2%Z else
    if negb (maxdiff nn (o_nneg c) <=? ctol) then 3%Z else
    if negb (dH <=? ptol) then 4%Z else
    if negb (dT <=? ptol) then 5%Z else (-1)%Z in
  (code, dev).

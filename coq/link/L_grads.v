(* Link theorems for the gradient functions of umap/distances.py (C14): the Gallina text that harness/vp/py2coq.py
   generates from the CURRENT source on every run ([src_<f>_grad], module UVS.Src_distances_grads) is equal, for all inputs
   (with the length hypotheses the loops need), to the hand-written model of model/M_grads.v about which the property
   theorems of prop/P_C14.v are stated.
   Section Generic: equalities over every [Num] whose literals satisfy [NumLit] (the source writes 1e-6, 2, 0.5, -1 as
   quotients / images of integers, the model as 1/10^6, 1+1, 1/(1+1), -(1)); [NumLit] holds over the reals AND in binary64
   ([NumLit_RNum], [NumLit_FNum]), so for these functions the term the correspondence evaluates IS the translated source.
   The functions numpy supplies (sin cos arcsin pi) are the model's section parameters, handed to the source as the
   [PyExt] record [GPy]; np.arccosh is the model's [arccosh].
   Section Reals: equalities over R only (cosine_grad, hellinger_grad: x*(x*x) against (x*x)*x; canberra_grad: the model
   adds an explicit 0 where the source skips the term).
   diagonal_gaussian_energy_grad: the source allocates 6 entries and writes 4; the statement restricts to the first 4.
   haversine_grad: the source raises for len(x) != 2 ([None]).
   Not linked: gaussian_energy_grad (rejected by the translator: literal 1e-32, stores into the argument arrays). *)
From Coq Require Import List ZArith Bool Reals Lra Lia.
From UV Require Import Num PyPrim PyPrimLemmas T_link T_link_arr M_grads.
From UV Require FNum.
From UVS Require Import Src_distances_grads.
Import ListNotations.

Record NumLit (N : Num) : Prop := mkNumLit {
  lit_one : of_Z N 1 = one N;
  lit_m1 : of_Z N (-1) = neg N (one N);
  lit_two : of_Z N 2 = add N (one N) (one N);
  lit_half : div N (of_Z N 5) (of_Z N 10) = div N (one N) (add N (one N) (one N))
}.

(* ---- list / array-expression lemmas (no model involved) ------------------------------------------------------------------ *)
Section VecLemmas.
Context (N : Num).
Lemma fold_left_combine_assoc {S A B C : Type} (g : S -> A -> B -> C -> S) (x : list A) (y : list B) (z : list C) (s : S) :
  fold_left (fun s abc => g s (fst (fst abc)) (snd (fst abc)) (snd abc)) (combine (combine x y) z) s
  = fold_left (fun s abc => g s (fst abc) (fst (snd abc)) (snd (snd abc))) (combine x (combine y z)) s.
Proof. revert y z s; induction x as [|a x IH]; intros [|b y] [|c z] s; try reflexivity. cbn [combine fold_left fst snd]. apply IH. Qed.
Lemma map_combine_assoc {A B C D : Type} (h : A -> B -> C -> D) (x : list A) (y : list B) (z : list C) :
  map (fun abc => h (fst (fst abc)) (snd (fst abc)) (snd abc)) (combine (combine x y) z)
  = map (fun abc => h (fst abc) (fst (snd abc)) (snd (snd abc))) (combine x (combine y z)).
Proof. revert y z; induction x as [|a x IH]; intros [|b y] [|c z]; try reflexivity. cbn [combine map fst snd]. f_equal. apply IH. Qed.
Lemma vmap2_map_map {A B : Type} (f : N -> N -> N) (u : A -> N) (v : B -> N) (l1 : list A) (l2 : list B) :
  vmap2 N f (map u l1) (map v l2) = map (fun ab => f (u (fst ab)) (v (snd ab))) (combine l1 l2).
Proof. unfold vmap2. rewrite combine_map_l', combine_map_r', !map_map. reflexivity. Qed.
Lemma vmap2_map_l {A : Type} (f : N -> N -> N) (u : A -> N) (l1 : list A) (l2 : list N) :
  vmap2 N f (map u l1) l2 = map (fun ab => f (u (fst ab)) (snd ab)) (combine l1 l2).
Proof. unfold vmap2. rewrite combine_map_l', !map_map. reflexivity. Qed.
Lemma vmap2_map_r {B : Type} (f : N -> N -> N) (v : B -> N) (l1 : list N) (l2 : list B) :
  vmap2 N f l1 (map v l2) = map (fun ab => f (fst ab) (v (snd ab))) (combine l1 l2).
Proof. unfold vmap2. rewrite combine_map_r', !map_map. reflexivity. Qed.
Definition swap {A B : Type} (p : A * B) : B * A := (snd p, fst p).
Lemma swap_swap {A B : Type} (p : A * B) : swap (swap p) = p.
Proof. destruct p; reflexivity. Qed.
Lemma vmap2_same {A : Type} (f : N -> N -> N) (u v : A -> N) (l : list A) :
  vmap2 N f (map u l) (map v l) = map (fun a => f (u a) (v a)) l.
Proof. unfold vmap2. induction l as [|a l IH]; [reflexivity|]. cbn. f_equal. exact IH. Qed.
Lemma vmap1_map {A : Type} (g : N -> N) (u : A -> N) (l : list A) : vmap1 N g (map u l) = map (fun a => g (u a)) l.
Proof. unfold vmap1. apply map_map. Qed.
Lemma vmaps_r_map {A : Type} (f : N -> N -> N) (u : A -> N) (l : list A) (c : N) : vmaps_r N f (map u l) c = map (fun a => f (u a) c) l.
Proof. unfold vmaps_r. apply map_map. Qed.
Lemma vmaps_l_map {A : Type} (f : N -> N -> N) (u : A -> N) (l : list A) (c : N) : vmaps_l N f c (map u l) = map (fun a => f c (u a)) l.
Proof. unfold vmaps_l. apply map_map. Qed.
Lemma map_fst_combine {A B : Type} (x : list A) (y : list B) : length x = length y -> map fst (combine x y) = x.
Proof. revert y; induction x as [|a x IH]; intros [|b y] L; try discriminate; [reflexivity|]. cbn. f_equal. apply IH. cbn in L; lia. Qed.
Lemma map_snd_combine {A B : Type} (x : list A) (y : list B) : length x = length y -> map snd (combine x y) = y.
Proof. revert y; induction x as [|a x IH]; intros [|b y] L; try discriminate; [reflexivity|]. cbn. f_equal. apply IH. cbn in L; lia. Qed.
Lemma vmap2_xy (f : N -> N -> N) (x y : list N) : vmap2 N f x y = map (fun ab => f (fst ab) (snd ab)) (combine x y).
Proof. reflexivity. Qed.
Lemma vmap2_yx (f : N -> N -> N) (x y : list N) : vmap2 N f y x = map (fun ab => f (snd ab) (fst ab)) (combine x y).
Proof. unfold vmap2. revert y; induction x as [|a x IH]; intros [|b y]; try reflexivity. cbn. f_equal. apply IH. Qed.
Lemma vzeros_map {A : Type} (x : list A) : vzeros N (zlen x) = map (fun _ => zero N) x.
Proof. rewrite vzeros_zlen. apply repeat_map_const. Qed.
Lemma vmaps_r_fst (f : N -> N -> N) (x y : list N) (c : N) : length x = length y ->
  vmaps_r N f x c = map (fun ab => f (fst ab) c) (combine x y).
Proof. intros L. rewrite <- (map_fst_combine x y L) at 1. apply vmaps_r_map. Qed.
Lemma vmaps_r_snd (f : N -> N -> N) (x y : list N) (c : N) : length x = length y ->
  vmaps_r N f y c = map (fun ab => f (snd ab) c) (combine x y).
Proof. intros L. rewrite <- (map_snd_combine x y L) at 1. apply vmaps_r_map. Qed.
Lemma vnth_0 (a : N) l : vnth N (a :: l) 0 = a. Proof. reflexivity. Qed.
Lemma vnth_1 (a b : N) l : vnth N (a :: b :: l) 1 = b. Proof. reflexivity. Qed.
Lemma vnth_2 (a b c : N) l : vnth N (a :: b :: c :: l) 2 = c. Proof. reflexivity. Qed.
Lemma vnth_3 (a b c d : N) l : vnth N (a :: b :: c :: d :: l) 3 = d. Proof. reflexivity. Qed.

(* a 4-tuple loop state with the array first: (array, accumulators) *)
Definition front4 {A B C D : Type} (t : A * B * C * D) : A * (B * C * D) := let '(a, b, c, d) := t in (a, (b, c, d)).
Definition back4 {A B C D : Type} (t : A * (B * C * D)) : A * B * C * D := let '(a, (b, c, d)) := t in (a, b, c, d).
Lemma back4_front4 {A B C D : Type} (t : A * B * C * D) : back4 (front4 t) = t.
Proof. destruct t as [[[a b] c] d]. reflexivity. Qed.

Definition pair4 {A B C D : Type} (t : A * B * C * D) : (A * B) * (C * D) := let '(a, b, c, d) := t in ((a, b), (c, d)).
Definition unpair4 {A B C D : Type} (t : (A * B) * (C * D)) : A * B * C * D := let '((a, b), (c, d)) := t in (a, b, c, d).
Lemma unpair4_pair4 {A B C D : Type} (t : A * B * C * D) : unpair4 (pair4 t) = t.
Proof. destruct t as [[[a b] c] d]. reflexivity. Qed.

Lemma vmap2_snd_map (f : N -> N -> N) (x y : list N) (u : N * N -> N) : length x = length y ->
  vmap2 N f y (map u (combine x y)) = map (fun ab => f (snd ab) (u ab)) (combine x y).
Proof. intros L. rewrite <- (map_snd_combine x y L) at 1. apply vmap2_same. Qed.
End VecLemmas.

(* loop-body step on the decomposed array; state reordering; fusing elementwise array expressions into one [map] over
   [combine x y]; case split on every [if] *)
Ltac arr_step Hk :=
  cbv beta iota zeta; unfold swap; cbn [fst snd];
  rewrite ?(vset_app_mid _ _ _ _ _ _ Hk), ?(vnth_app_mid _ _ _ _ _ Hk); reads.
Ltac to_front :=
  rewrite (for_range_conj swap swap) by apply swap_swap;
  repeat match goal with |- context[swap (?a, ?b)] => change (swap (a, b)) with (b, a) end.
Ltac vec_fuse x y :=
  repeat rewrite (vmap2_xy _ _ x y); repeat (rewrite ?vmap2_same, ?vmap1_map, ?vmaps_r_map, ?vmaps_l_map).
Ltac split_ifs := repeat match goal with |- context[if ?b then _ else _] => destruct b end.

Section Generic.
Context (N : Num) (HL : NumLit N).
(* the functions numpy provides and [Num] does not carry: the model's section parameters; the source gets them as a record *)
Context (nsin ncos nasin : N -> N) (npi : N).
Definition GPy : PyExt N := mkPyExt N nsin ncos nasin (arccosh N) npi.

Lemma nlit_eps6 : nlit N 1 (-6) = eps6 N.
Proof. change (nlit N 1 (-6)) with (div N (of_Z N 1) (of_Z N 1000000)). rewrite (lit_one N HL). reflexivity. Qed.
Lemma nlit_eps8 : nlit N 1 (-8) = eps8 N.
Proof. change (nlit N 1 (-8)) with (div N (of_Z N 1) (of_Z N 100000000)). rewrite (lit_one N HL). reflexivity. Qed.

Theorem src_euclidean_grad_eq (x y : list N) : length x = length y -> src_euclidean_grad N x y = euclidean_grad N x y.
Proof.
  intros L. unfold src_euclidean_grad, euclidean_grad, acc2, map2, sq. cbv zeta. loop2 L.
  rewrite nlit_eps6. unfold vmaps_r, vmap2. rewrite map_map. reflexivity.
Qed.

Theorem src_standardised_euclidean_grad_eq (x y sigma : list N) :
  length x = length y -> length x = length sigma ->
  src_standardised_euclidean_grad N x y sigma = standardised_euclidean_grad N x y sigma.
Proof.
  intros L1 L2. unfold src_standardised_euclidean_grad, standardised_euclidean_grad, acc2, map2, sq. cbv zeta. loop3 L1 L2.
  rewrite nlit_eps6. unfold vmaps_l. rewrite map_map. unfold vmap2 at 2. rewrite vmap2_map_map.
  rewrite (fold_left_combine_assoc (fun s a b c => add N s (div N (ipow N (sub N a b) 2) c))).
  set (d := nsqrt N _).
  rewrite (map_combine_assoc (fun a b c => div N (sub N a b) (add N (eps6 N) (mul N d c)))).
  reflexivity.
Qed.

Theorem src_manhattan_grad_eq (x y : list N) : length x = length y -> src_manhattan_grad N x y = manhattan_grad N x y.
Proof.
  intros L. unfold src_manhattan_grad, manhattan_grad, acc2, map2. cbv zeta.
  to_front.
  erewrite (for_range_zfill_acc2 N x y); [|exact L|intros k p c l s Hk; arr_step Hk].
  reflexivity.
Qed.

Lemma of_Z_sign (a : N) : of_Z N (src_sign N a) = usign N a.
Proof. unfold src_sign, usign. destruct (ltb N a (zero N)); [apply (lit_m1 N HL)|apply (lit_one N HL)]. Qed.

Theorem src_minkowski_grad_eq (x y : list N) (p : N) : length x = length y -> src_minkowski_grad N x y p = minkowski_grad N x y p.
Proof.
  intros L. unfold src_minkowski_grad, minkowski_grad, acc2, map2. cbv zeta. loop2 L.
  erewrite (for_range_zfill2 N x y); [|exact L|intros k q c l Hk; arr_step Hk].
  rewrite nlit_eps6. f_equal. apply map_ext. intros [a b]. cbn [fst snd]. rewrite of_Z_sign. reflexivity.
Qed.

Theorem src_weighted_minkowski_grad_eq (x y w : list N) (p : N) :
  length x = length y -> length x = length w -> src_weighted_minkowski_grad N x y w p = weighted_minkowski_grad N x y w p.
Proof.
  intros L1 L2. unfold src_weighted_minkowski_grad, weighted_minkowski_grad, acc2, map2. cbv zeta. loop3 L1 L2.
  erewrite (for_range_zfill3 N x y w); [|exact L1|exact L2|intros k q c l Hk; arr_step Hk].
  rewrite nlit_eps6.
  rewrite (fold_left_combine_assoc (fun s a b c => add N s (mul N c (npow N (nabs N (sub N a b)) p)))).
  set (r := fold_left _ _ _).
  rewrite (map_combine_assoc (fun a b c => div N (mul N (mul N c (npow N (nabs N (sub N a b)) (sub N p (one N)))) (of_Z N (src_sign N (sub N a b))))
                                              (add N (eps6 N) (npow N r (sub N (one N) (div N (one N) p)))))).
  f_equal. apply map_ext. intros [a [b c]]. cbn [fst snd]. rewrite of_Z_sign. reflexivity.
Qed.

Theorem src_bray_curtis_grad_eq (x y : list N) : length x = length y -> src_bray_curtis_grad N x y = bray_curtis_grad N x y.
Proof.
  intros L. unfold src_bray_curtis_grad, bray_curtis_grad, acc2, map2. cbv zeta. loop2 L. cbv beta. rewrite fold_left_pair'.
  unfold ngt. match goal with |- context[ltb N (zero N) ?d] => destruct (ltb N (zero N) d) end.
  - vec_fuse x y. reflexivity.
  - rewrite vzeros_map. reflexivity.
Qed.

Theorem src_hyperboloid_grad_eq (x y : list N) : length x = length y -> src_hyperboloid_grad N GPy x y = hyperboloid_grad N x y.
Proof.
  intros L. unfold src_hyperboloid_grad, hyperboloid_grad, hyperboloid_B, acc1, map2, sq. cbv zeta. loop2 L.
  erewrite (for_range_zfill2 N x y); [|exact L|intros k q c l Hk; arr_step Hk].
  rewrite nlit_eps8. unfold vsum_py, vmap1. rewrite !fold_left_map. cbn [pacosh GPy].
  reflexivity.
Qed.

Theorem src_correlation_grad_eq (x y : list N) : length x = length y -> src_correlation_grad N x y = correlation_grad N x y.
Proof.
  intros L. unfold src_correlation_grad, correlation_grad, correlation_gen, acc2, map2, sq. cbv zeta.
  loop2 L. cbv beta. rewrite fold_left_pair'. loop2 L. cbv beta. rewrite fold_left_triple'.
  rewrite !vzeros_map.
  rewrite (vmaps_r_fst N _ x y _ L), (vmaps_r_snd N _ x y _ L). vec_fuse x y.
  change (zlen x) with (Z.of_nat (length x)). cbv beta. cbn [ipow].
  split_ifs; reflexivity.
Qed.

Lemma nlit_2_0 : nlit N 2 0 = two N.
Proof. change (nlit N 2 0) with (of_Z N 2). apply (lit_two N HL). Qed.
Lemma nlit_half : nlit N 5 (-1) = half N.
Proof. change (nlit N 5 (-1)) with (div N (of_Z N 5) (of_Z N 10)). apply (lit_half N HL). Qed.
Lemma of_Z_2 : of_Z N 2 = two N.
Proof. apply (lit_two N HL). Qed.

Theorem src_spherical_gaussian_energy_grad_eq (x0 x1 x2 y0 y1 y2 : N) (xr yr : list N) :
  src_spherical_gaussian_energy_grad N GPy (x0 :: x1 :: x2 :: xr) (y0 :: y1 :: y2 :: yr)
  = spherical_gaussian_energy_grad N npi (x0 :: x1 :: x2 :: xr) (y0 :: y1 :: y2 :: yr).
Proof.
  unfold src_spherical_gaussian_energy_grad, spherical_gaussian_energy_grad, sq. cbv zeta.
  rewrite !vnth_0, !vnth_1, !vnth_2, !of_Z_2. cbn [ppi GPy]. reflexivity.
Qed.

(* the source allocates 6 entries and writes 4 (np.empty(6)): the model has the 4 written ones *)
Theorem src_diagonal_gaussian_energy_grad_eq (x0 x1 x2 x3 y0 y1 y2 y3 : N) (xr yr : list N) :
  let r := src_diagonal_gaussian_energy_grad N GPy (x0 :: x1 :: x2 :: x3 :: xr) (y0 :: y1 :: y2 :: y3 :: yr) in
  (fst r, firstn 4 (snd r)) = diagonal_gaussian_energy_grad N npi (x0 :: x1 :: x2 :: x3 :: xr) (y0 :: y1 :: y2 :: y3 :: yr).
Proof.
  unfold src_diagonal_gaussian_energy_grad, diagonal_gaussian_energy_grad, sq. cbv zeta.
  rewrite !vnth_0, !vnth_1, !vnth_2, !vnth_3, !of_Z_2, !nlit_2_0. cbn [ppi GPy].
  match goal with |- context[if ?b then _ else _] => destruct b end; reflexivity.
Qed.

Theorem src_haversine_grad_eq (x y : list N) : length x = length y ->
  src_haversine_grad N GPy x y = if (zlen x =? 2)%Z then Some (haversine_grad N nsin ncos nasin npi x y) else None.
Proof.
  intros L. unfold src_haversine_grad, haversine_grad.
  destruct x as [|x0 [|x1 [|x2 x]]]; destruct y as [|y0 [|y1 [|y2 y]]]; try discriminate; try reflexivity.
  - change (zlen [x0; x1] =? 2)%Z with true. cbv zeta. cbn [negb].
    rewrite !vnth_0, !vnth_1, !of_Z_2, !nlit_2_0, !nlit_half, nlit_eps6. cbn [ppi psin pcos pasin GPy]. reflexivity.
  - destruct (Z.eqb_spec (zlen (x0 :: x1 :: x2 :: x)) 2) as [H|H]; [unfold zlen in H; cbn [length] in H; lia|reflexivity].
Qed.

(* running maximum with its first index: the source's loop state (result, max_i : Z) against the model's [cheb_loop] *)
Lemma cheb_foldi (G : N * Z -> nat -> N -> N -> N * Z) :
  (forall res mi k a b, G (res, mi) k a b = if ltb N res (nabs N (sub N a b)) then (nabs N (sub N a b), Z.of_nat k) else (res, mi)) ->
  forall (x y : list N) (i : nat) (res : N) (mi : nat),
  foldi2 G i x y (res, Z.of_nat mi) = let '(r, m) := cheb_loop N i x y res mi in (r, Z.of_nat m).
Proof.
  intros HG. induction x as [|a x IH]; intros [|b y] i res mi; try reflexivity.
  cbn [foldi2 cheb_loop]. rewrite HG. cbv zeta.
  destruct (ltb N res (nabs N (sub N a b))); apply IH.
Qed.

Theorem src_chebyshev_grad_eq (x y : list N) : length x = length y -> src_chebyshev_grad N x y = chebyshev_grad N x y.
Proof.
  intros L. unfold src_chebyshev_grad, chebyshev_grad. cbv zeta.
  erewrite (for_range_foldi2 N _ x y); [|exact L|intros k s; reads].
  change 0%Z with (Z.of_nat 0) at 1. rewrite cheb_foldi.
  - destruct (cheb_loop N 0 x y (zero N) 0) as [r m].
    rewrite !vnth_of_nat. unfold vset. rewrite zset_of_nat, vzeros_zlen.
    rewrite (set_nth_repeat_map (zero N) _ (length x) m 0). reflexivity.
  - intros res mi k a b. unfold ngt. destruct (ltb N res (nabs N (sub N a b))); reflexivity.
Qed.

Theorem src_mahalanobis_grad_eq (vinv : list (list N)) (x y : list N) :
  length x = length y -> length vinv = length x -> Forall (fun row => length row = length x) vinv ->
  src_mahalanobis_grad N x y vinv = mahalanobis_grad N x y vinv.
Proof.
  intros L LV LR. unfold src_mahalanobis_grad, mahalanobis_grad, dot, acc2, map2. cbv zeta.
  erewrite (for_range_fill2 N (sub N) x y); [|exact L|intros k d; reflexivity].
  set (d := map _ (combine x y)).
  assert (Ld : length d = length x) by (unfold d; rewrite map_length, combine_length, <- L; lia).
  change (zlen x) with (Z.of_nat (length x)).
  pose (rowsum := fun (row : list N) (c : N) => fold_left (fun a rd => add N a (mul N (fst rd) (snd rd))) (combine row d) c).
  rewrite (for_range_zfill_idx N (fun k c => rowsum (nth k vinv []) c)
             (fun k c s => add N s (mul N (rowsum (nth k vinv []) (zero N)) (nth k d (zero N))))).
  2:{ intros k p c l s Hk Hn. cbv beta iota zeta. unfold mnth. rewrite znth_of_nat, vnth_of_nat.
      set (row := nth k vinv []).
      assert (Lrow : length row = length x).
      { rewrite Forall_forall in LR. apply LR. apply nth_In. rewrite LV. exact Hn. }
      rewrite <- Lrow. change (Z.of_nat (length row)) with (zlen row).
      rewrite (for_range_list2 N (fun (st : N * list N) a b =>
                 (add N (fst st) (mul N a b), vset N (snd st) (Z.of_nat k) (add N (vnth N (snd st) (Z.of_nat k)) (mul N a b)))) row d);
        [|rewrite Lrow, Ld; reflexivity|intros j [tmp g]; reflexivity].
      cbv beta. rewrite (fold_left_acc_entry N (fun rd : N * N => mul N (fst rd) (snd rd)) k p l Hk). reflexivity. }
  rewrite nlit_eps6. rewrite <- LV.
  rewrite (map_seq_nth1 [] (fun row => rowsum row (zero N)) vinv).
  rewrite (fold_seq_list2 [] (zero N) (fun s row dk => add N s (mul N (rowsum row (zero N)) dk)) vinv d);
    [|rewrite LV, Ld; reflexivity|intros; reflexivity].
  rewrite combine_map_l', fold_left_map. reflexivity.
Qed.

(* the arguments are overwritten in place (x[i] += z; x[i] /= x_sum): the translated source returns their final contents
   next to (dist, grad); they are the model's normalised copies [kl_normalise] *)
Theorem src_symmetric_kl_grad_eq (x y : list N) (z : N) : length x = length y ->
  src_symmetric_kl_grad N x y z = let '(d, g) := symmetric_kl_grad N x y z in (d, g, kl_normalise N x z, kl_normalise N y z).
Proof.
  intros L. unfold src_symmetric_kl_grad, symmetric_kl_grad, kl_normalise, acc1, acc2, map2. cbv zeta.
  (* first loop: (x, x_sum) and (y, y_sum) evolve independently *)
  rewrite (for_range_conj pair4 unpair4) by apply unpair4_pair4.
  change (pair4 (x, zero N, y, zero N)) with ((x, zero N), (y, zero N)).
  pose (F1 := fun (i : Z) (s : list N * N) =>
                let '(u, u_sum) := s in let u := vset N u i (add N (vnth N u i) z) in (u, add N u_sum (vnth N u i))).
  rewrite (for_range_ext _ _ _ (fun i st => (F1 i (fst st), F1 i (snd st)))) by (intros i [[a b] [c d]]; reflexivity).
  rewrite (for_range_prod _ _ F1 F1). unfold F1.
  rewrite (for_range_inplace N (fun c => add N c z) (fun s c => add N s (add N c z)) _ x);
    [|intros k p c l s Hk; cbv beta iota zeta; rewrite !(vnth_app_mid _ _ _ _ _ Hk), (vset_app_mid _ _ _ _ _ _ Hk), (vnth_app_mid _ _ _ _ _ Hk); reflexivity].
  replace (zlen x) with (zlen y) at 1 by (unfold zlen; rewrite L; reflexivity).
  rewrite (for_range_inplace N (fun c => add N c z) (fun s c => add N s (add N c z)) _ y);
    [|intros k p c l s Hk; cbv beta iota zeta; rewrite !(vnth_app_mid _ _ _ _ _ Hk), (vset_app_mid _ _ _ _ _ _ Hk), (vnth_app_mid _ _ _ _ _ Hk); reflexivity].
  unfold unpair4. cbv beta iota. clear F1.
  (* second loop: x[i] /= x_sum, y[i] /= y_sum *)
  set (sx := fold_left _ x (zero N)). set (sy := fold_left _ y (zero N)).
  set (x1 := map (fun c => add N c z) x). set (y1 := map (fun c => add N c z) y).
  assert (Lx1 : zlen x = zlen x1) by (unfold zlen, x1; rewrite map_length; reflexivity).
  assert (Ly1 : zlen x = zlen y1) by (unfold zlen, y1; rewrite map_length, L; reflexivity).
  pose (G1 := fun (s : N) (i : Z) (u : list N) => vset N u i (div N (vnth N u i) s)).
  rewrite (for_range_ext _ _ _ (fun i st => (G1 sx i (fst st), G1 sy i (snd st)))) by (intros i [a b]; reflexivity).
  assert (E1 : forall (s : N) (u : list N), zlen x = zlen u -> for_range 0 (zlen x) (G1 s) u = map (fun c => div N c s) u).
  { intros s u Hu. rewrite Hu. apply for_range_inplace_only.
    intros k p c l Hk. unfold G1. rewrite (vnth_app_mid _ _ _ _ _ Hk), (vset_app_mid _ _ _ _ _ _ Hk). reflexivity. }
  rewrite (for_range_prod _ _ (G1 sx) (G1 sy)). rewrite (E1 sx x1 Lx1), (E1 sy y1 Ly1). clear E1.
  cbv beta iota. clear G1.
  (* third loop and the gradient expression *)
  set (x2 := map (fun c => div N c sx) x1). set (y2 := map (fun c => div N c sy) y1).
  assert (L2 : length x2 = length y2) by (unfold x2, y2, x1, y1; rewrite !map_length; exact L).
  replace (zlen x) with (zlen x2) by (unfold zlen, x2, x1; rewrite !map_length; reflexivity).
  loop2 L2. cbv beta. rewrite fold_left_pair'. rewrite !(lit_two N HL). rewrite (vmap2_yx N _ x2 y2). vec_fuse x2 y2.
  unfold x2, y2, x1, y1. rewrite !map_map. reflexivity.
Qed.
End Generic.

(* ---- the literal identities hold over the reals and in binary64 ----------------------------------------------------------- *)
Lemma NumLit_RNum : NumLit RNum.
Proof. split; cbn; lra. Qed.
Lemma NumLit_FNum : NumLit FNum.FNum.
Proof. split; vm_compute; reflexivity. Qed.

(* ---- over the reals: the source and the model associate products differently / the model adds an explicit 0 ---------------- *)
Section Reals.
Local Open Scope R_scope.
Ltac rn := change (T RNum) with R in *.

Theorem src_canberra_grad_eq (x y : list R) : length x = length y -> src_canberra_grad RNum x y = canberra_grad RNum x y.
Proof.
  intros L. unfold src_canberra_grad, canberra_grad, acc2, map2. cbv zeta. to_front.
  rewrite (for_range_zfill_acc2 RNum x y
             (fun a b c => if ngt RNum (add RNum (nabs RNum a) (nabs RNum b)) (zero RNum)
                           then sub RNum (div RNum (PyPrim.nsign RNum (sub RNum a b)) (add RNum (nabs RNum a) (nabs RNum b)))
                                         (div RNum (mul RNum (nabs RNum (sub RNum a b)) (PyPrim.nsign RNum a)) (ipow RNum (add RNum (nabs RNum a) (nabs RNum b)) 2))
                           else c)
             (fun s a b c => if ngt RNum (add RNum (nabs RNum a) (nabs RNum b)) (zero RNum)
                             then add RNum s (div RNum (nabs RNum (sub RNum a b)) (add RNum (nabs RNum a) (nabs RNum b))) else s));
    [|exact L|].
  2:{ intros k p c l s Hk. cbv beta iota zeta. unfold swap. cbn [fst snd].
      generalize (vnth RNum x (Z.of_nat k)) (vnth RNum y (Z.of_nat k)). intros a b.
      destruct (ngt RNum (add RNum (nabs RNum a) (nabs RNum b)) (zero RNum)); [rewrite (vset_app_mid _ _ _ _ _ _ Hk)|]; reflexivity. }
  unfold swap. cbn [fst snd]. f_equal.
  apply fold_left_ext. intros s [a b]. cbn [fst snd]. unfold canberra_term, ngt. cbv zeta. cbn.
  destruct (Rltb 0 (Rabs a + Rabs b)); rn; lra.
Qed.

Theorem src_cosine_grad_eq (x y : list R) : length x = length y -> src_cosine_grad RNum x y = cosine_grad RNum x y.
Proof.
  intros L. unfold src_cosine_grad, cosine_grad, cosine_sums, acc2, map2, sq. cbv zeta. loop2 L. cbv beta.
  rewrite fold_left_triple'. rewrite !vzeros_map.
  rewrite (vmaps_r_fst RNum _ x y _ L), (vmaps_r_snd RNum _ x y _ L). vec_fuse x y. cbn [ipow]. cbv beta iota.
  split_ifs; try reflexivity.
  f_equal. apply map_ext. intros [a b]. cbn [fst snd]. f_equal. f_equal. cbn [mul RNum]. rn. ring.
Qed.

Theorem src_hellinger_grad_eq (x y : list R) : length x = length y -> src_hellinger_grad RNum x y = hellinger_grad RNum x y.
Proof.
  intros L. unfold src_hellinger_grad, hellinger_grad, hellinger_gen, acc2, map2. cbv zeta.
  rewrite (for_range_conj front4 back4) by apply back4_front4.
  change (front4 (vzeros RNum (zlen x), zero RNum, zero RNum, zero RNum)) with (vzeros RNum (zlen x), (zero RNum, zero RNum, zero RNum)).
  rewrite (for_range_zfill_acc2 RNum x y (fun a b _ => nsqrt RNum (mul RNum a b))
             (fun s a b _ => let '(r, lx, ly) := s in (add RNum r (nsqrt RNum (mul RNum a b)), add RNum lx a, add RNum ly b)));
    [|exact L|].
  2:{ intros k p c l [[r lx] ly] Hk. cbv beta iota zeta. unfold back4, front4. cbv beta iota.
      rewrite (vset_app_mid _ _ _ _ _ _ Hk), (vnth_app_mid _ _ _ _ _ Hk). reflexivity. }
  cbv beta. rewrite fold_left_triple'. unfold back4. cbv beta iota.
  rewrite !vzeros_map. vec_fuse x y. rewrite (vmap2_snd_map RNum _ x y _ L). vec_fuse x y. cbn [ipow]. cbv beta.
  split_ifs; try reflexivity.
  rewrite !(lit_two RNum NumLit_RNum).
  match goal with |- context[mul RNum ?d (mul RNum ?d ?d)] =>
    replace (mul RNum d (mul RNum d d)) with (mul RNum (mul RNum d d) d) by (cbn [mul RNum]; rn; ring) end.
  reflexivity.
Qed.
End Reals.

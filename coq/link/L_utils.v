(* Link theorems for umap/utils.py (C07): the Tausworthe generator tau_rand_int, norm. *)
From Coq Require Import List ZArith Bool Lia.
From UV Require Import Num PyPrim PyPrimLemmas M_metrics T_link M_sgd.
From UVS Require Import Src_utils.
Import ListNotations.

(* the translated source works on the 3-element int64 state array; the model on a triple.
   (int64 overflow is outside both: the model's shifts are on unbounded Z as well.) *)
Theorem src_tau_rand_int_eq (N : Num) (s0 s1 s2 : Z) :
  src_tau_rand_int N [s0; s1; s2] =
  let '((t0, t1, t2), r) := tau_rand_int (s0, s1, s2) in (r, [t0; t1; t2]).
Proof. reflexivity. Qed.

Theorem src_norm_eq (N : Num) (v : list N) : src_norm N v = nsqrt N (vsq N v).
Proof. unfold src_norm, vsq, vsum. cbv zeta. loop1. rewrite fold_left_map. reflexivity. Qed.

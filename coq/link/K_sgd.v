(* Capstone corollaries for C07: statements of P_C07 / T_sgd restated about the TRANSLATED SOURCE of the serial Euclidean SGD
   epoch kernel (Src_layouts.v, regenerated from the current umap/layouts.py: _optimize_layout_euclidean_single_epoch with
   densmap_flag=False, once for tail_embedding IS head_embedding (fit) and once for two arrays that do not overlap (transform)),
   over the reals.  Chain: L_sgd (translated kernel = M_sgd.epoch, src_sgd_shared_eq / src_sgd_distinct_eq) ; T_sgd (facts about
   the model: edges_from_T = the one-epoch form of C07_frame, visit_iff_due = C07_due, move_bounded / clip_bound = C07_clip).

   The kernels return (head_embedding, [tail_embedding,] rng_state_per_sample, epoch_of_next_negative_sample, epoch_of_next_sample):
   the arrays they store into, in the order of first store.

     C07_src_frame            transform case, move_other = False: the tail / reference embedding the kernel returns is the one it was
                              given (every well-formed input: [wf_transform] = the hypotheses of src_sgd_distinct_eq)
     C07_src_rng_rows, C07_src_rng_rows_distinct
                              the RNG rows and the two clock arrays the kernel returns are those of the model's epoch; every RNG row
                              has three words
     C07_src_clocks, C07_src_clocks_distinct
                              edge i is due in epoch n iff epoch_of_next_sample[i] <= n; the sample clock of a due edge advances by
                              exactly epochs_per_sample[i] and its negative-sample clock by int((n - clock) / epns[i]) * epns[i];
                              an edge that is not due keeps both clocks (C07_due on the source)
     C07_src_idle             if no edge is due the fit kernel returns all four arrays unchanged
     C07_src_move_bound_attr, C07_src_move_bound_attr_distinct, C07_src_move_bound_rep, C07_src_move_bound_rep_distinct
                              per-pass form of C07_clip on the translated d-loops (the loops named attr_dloop_s/_d, rep_dloop_s/_d in
                              L_sgd.v, which src_sgd_*_unfold show to be the text of the generated kernel): one pass of the attractive
                              (repulsive) d-loop changes every coordinate of every embedding row by at most 4 * |alpha|
     C07_src_move_bound, C07_src_move_bound_distinct
                              whole epoch, fit / transform (C07_clip at full strength on the source): every coordinate of row r of the head
                              embedding the kernel returns differs from the input by at most row_moves r * 4 * |alpha|, where row_moves r =
                              the number of d-loop passes of the epoch that write row r = sum over the due edges i of
                              1 + int((n - nneg[i]) / epns[i]) if head[i] = r (negative samples move only the head row), else 1 if
                              tail[i] = r and the tail is moved (fit with move_other), else 0: a function of the edge arrays and the input
                              clocks only (no RNG dependence).  In particular a vertex that is an endpoint of no due edge keeps its row.
     C07_src_move_bound_total, C07_src_move_bound_distinct_total
                              the coarser uniform bound: epoch_moves * 4 * |alpha| with epoch_moves = all d-loop passes of the epoch
     C07_src_nonvacuous       a concrete 3-vertex, dim-2, 2-edge state satisfies all hypotheses of src_sgd_shared_eq and of
                              C07_src_clocks; in epoch 1 its first edge is due (clock 1 -> 2) and its second is not (clock stays 2)
     C07_src_nonvacuous_row   on that state row_moves of vertex 2 is 0 and C07_src_move_bound gives: its row is returned unchanged *)
From Coq Require Import List ZArith Bool Reals Lra Lia.
From UV Require Import Num PyPrim PyPrimLemmas T_link T_link_mat M_sgd T_sgd.
From UVS Require Import Src_layouts L_layouts L_sgd.
Import ListNotations.
Local Open Scope R_scope.
Ltac rn := change (T RNum) with R in *.

(* the hypotheses of src_sgd_shared_eq: D-column embedding, one RNG triple per row, 0 < n_vertices <= rows, edge ends within range *)
Definition wf_fit (H : list (list R)) (head tail : list Z) (nv : Z) (eps : list R) (rngs : list rng3) (D : nat) : Prop :=
  rect D H /\ length rngs = length H /\ (0 < nv <= Z.of_nat (length H))%Z /\
  (forall i, (i < length eps)%nat -> (0 <= nth i head 0 < Z.of_nat (length H))%Z /\ (0 <= nth i tail 0 < Z.of_nat (length H))%Z).
(* the hypotheses of src_sgd_distinct_eq: tails and negative samples address rows of the second array *)
Definition wf_transform (H Tl : list (list R)) (head tail : list Z) (nv : Z) (eps : list R) (rngs : list rng3) (D : nat) : Prop :=
  rect D H /\ rect D Tl /\ length rngs = length H /\ (0 < nv <= Z.of_nat (length Tl))%Z /\
  (forall i, (i < length eps)%nat -> (0 <= nth i head 0 < Z.of_nat (length H))%Z /\ (0 <= nth i tail 0 < Z.of_nat (length Tl))%Z).

(* ---- (1) frame ------------------------------------------------------------------------------------------------------------------ *)
Theorem C07_src_frame (H Tl : list (list R)) (head tail : list Z) (nv : Z) (eps : list R) (a b : R) (rngs : list rng3) (gamma : R) (D : nat)
        (alpha : R) (epns nneg next : list R) (n : Z) (x1 x2 : list R) (x3 x4 x5 x6 : R) (x7 x8 : list R) (x9 : R) :
  wf_transform H Tl head tail nv eps rngs D ->
  let '(_, T', _, _, _) :=
    src__optimize_layout_euclidean_single_epoch_distinct RNum H Tl head tail nv eps a b (map row_of rngs) gamma (Z.of_nat D) false alpha
      epns nneg next n x1 x2 x3 x4 x5 x6 x7 x8 x9 in
  T' = Tl.
Proof.
  intros (HR & HRT & Lr & Hnv & Hidx).
  rewrite (src_sgd_distinct_eq H Tl head tail nv eps a b rngs gamma D false alpha epns nneg next n x1 x2 x3 x4 x5 x6 x7 x8 x9 HR HRT Lr Hnv Hidx).
  cbv zeta. unfold epoch.
  exact (edges_from_T a b gamma nv alpha (IZR n) (edges_of head tail eps epns) 0%nat (mkSt RNum (mkEmb RNum H Tl false) next nneg rngs)).
Qed.

(* ---- (2) RNG rows and clocks ---------------------------------------------------------------------------------------------------- *)
Lemma row_of_len3 (rs : list rng3) : Forall (fun r : list Z => length r = 3%nat) (map row_of rs).
Proof. induction rs as [|[[s0 s1] s2] rs IH]; constructor; [reflexivity|exact IH]. Qed.

Theorem C07_src_rng_rows (H : list (list R)) (head tail : list Z) (nv : Z) (eps : list R) (a b : R) (rngs : list rng3) (gamma : R) (D : nat)
        (mo : bool) (alpha : R) (epns nneg next : list R) (n : Z) (x1 x2 : list R) (x3 x4 x5 x6 : R) (x7 x8 : list R) (x9 : R) :
  wf_fit H head tail nv eps rngs D ->
  let '(_, rng', nneg', next') :=
    src__optimize_layout_euclidean_single_epoch_shared RNum H head tail nv eps a b (map row_of rngs) gamma (Z.of_nat D) mo alpha
      epns nneg next n x1 x2 x3 x4 x5 x6 x7 x8 x9 in
  let s' := epoch RNum a b gamma alpha mo nv (IZR n) (edges_of head tail eps epns) (mkSt RNum (mkEmb RNum H [] true) next nneg rngs) in
  rng' = map row_of (s_rng RNum s') /\ nneg' = s_nneg RNum s' /\ next' = s_next RNum s' /\
  Forall (fun r : list Z => length r = 3%nat) rng'.
Proof.
  intros (HR & Lr & Hnv & Hidx).
  rewrite (src_sgd_shared_eq H head tail nv eps a b rngs gamma D mo alpha epns nneg next n x1 x2 x3 x4 x5 x6 x7 x8 x9 HR Lr Hnv Hidx).
  cbv zeta. repeat split. apply row_of_len3.
Qed.

Theorem C07_src_rng_rows_distinct (H Tl : list (list R)) (head tail : list Z) (nv : Z) (eps : list R) (a b : R) (rngs : list rng3) (gamma : R)
        (D : nat) (mo : bool) (alpha : R) (epns nneg next : list R) (n : Z) (x1 x2 : list R) (x3 x4 x5 x6 : R) (x7 x8 : list R) (x9 : R) :
  wf_transform H Tl head tail nv eps rngs D ->
  let '(_, _, rng', nneg', next') :=
    src__optimize_layout_euclidean_single_epoch_distinct RNum H Tl head tail nv eps a b (map row_of rngs) gamma (Z.of_nat D) mo alpha
      epns nneg next n x1 x2 x3 x4 x5 x6 x7 x8 x9 in
  let s' := epoch RNum a b gamma alpha mo nv (IZR n) (edges_of head tail eps epns) (mkSt RNum (mkEmb RNum H Tl false) next nneg rngs) in
  rng' = map row_of (s_rng RNum s') /\ nneg' = s_nneg RNum s' /\ next' = s_next RNum s' /\
  Forall (fun r : list Z => length r = 3%nat) rng'.
Proof.
  intros (HR & HRT & Lr & Hnv & Hidx).
  rewrite (src_sgd_distinct_eq H Tl head tail nv eps a b rngs gamma D mo alpha epns nneg next n x1 x2 x3 x4 x5 x6 x7 x8 x9 HR HRT Lr Hnv Hidx).
  cbv zeta. repeat split. apply row_of_len3.
Qed.

(* the two clocks of edge i, and what one visit does to them (model level; the per-edge clock of P_C07.C07_due, extended to the
   negative-sample clock) *)
Definition clk (s : sgd_state RNum) (i : nat) : R * R := (nth i (s_next RNum s) 0, nth i (s_nneg RNum s) 0).
Definition clk_step (n : R) (c : R * R) (p q : R) : R * R :=
  if Rleb (fst c) n then (fst c + p, snd c + IZR (Rtrunc ((n - snd c) / q)) * q) else c.

Section Clocks.
Variables a b gamma : R.
Variable mo : bool.
Variable nv : Z.

Lemma edge_step_lens alpha n s i ed :
  length (s_next RNum (edge_step RNum a b gamma alpha mo nv n s i ed)) = length (s_next RNum s) /\
  length (s_nneg RNum (edge_step RNum a b gamma alpha mo nv n s i ed)) = length (s_nneg RNum s).
Proof.
  unfold edge_step. destruct (leb RNum _ _); [|split; reflexivity].
  destruct (neg_loop RNum _ _ _ _ _ _ _ _ _) as [e2 st']. cbn [s_next s_nneg]. split; apply length_upd.
Qed.

Lemma edge_step_clk_other alpha n s i' ed i : i <> i' -> clk (edge_step RNum a b gamma alpha mo nv n s i' ed) i = clk s i.
Proof.
  intros Hne. unfold clk, edge_step. destruct (leb RNum _ _); [|reflexivity].
  destruct (neg_loop RNum _ _ _ _ _ _ _ _ _) as [e2 st']. cbn [s_next s_nneg].
  rewrite !nth_upd_other by assumption. reflexivity.
Qed.

Lemma edge_step_clk_same alpha n s i ed : (i < length (s_next RNum s))%nat -> (i < length (s_nneg RNum s))%nat ->
  clk (edge_step RNum a b gamma alpha mo nv n s i ed) i = clk_step n (clk s i) (e_eps RNum ed) (e_epns RNum ed).
Proof.
  intros H1 H2. unfold clk, clk_step, edge_step. cbn [fst snd]. cbn [leb RNum zero].
  destruct (Rleb (nth i (s_next RNum s) 0) n); [|reflexivity].
  destruct (neg_loop RNum _ _ _ _ _ _ _ _ _) as [e2 st']. cbn [s_next s_nneg].
  rewrite !nth_upd_same by assumption. reflexivity.
Qed.

Lemma edges_from_clk alpha (n : R) : forall es start s i, (i < length (s_next RNum s))%nat -> (i < length (s_nneg RNum s))%nat ->
  clk (edges_from RNum a b gamma alpha mo nv n start es s) i =
    if (Nat.leb start i && Nat.ltb i (start + length es))%bool
    then clk_step n (clk s i) (e_eps RNum (nth (i - start) es (mkEdge RNum 0 0 0 0))) (e_epns RNum (nth (i - start) es (mkEdge RNum 0 0 0 0)))
    else clk s i.
Proof.
  induction es as [|ed es IH]; intros start s i Hi Hi2; cbn [edges_from length].
  - replace (Nat.leb start i && Nat.ltb i (start + 0))%bool with false; [reflexivity|].
    symmetry. apply andb_false_iff. destruct (Nat.leb_spec start i); [right; apply Nat.ltb_ge; lia | now left].
  - destruct (edge_step_lens alpha n s start ed) as [L1 L2].
    rewrite IH by (rewrite ?L1, ?L2; assumption).
    destruct (Nat.eq_dec i start) as [->|Hne].
    + replace (Nat.leb (S start) start && Nat.ltb start (S start + length es))%bool with false
        by (symmetry; apply andb_false_iff; left; apply Nat.leb_gt; lia).
      replace (Nat.leb start start && Nat.ltb start (start + S (length es)))%bool with true
        by (symmetry; apply andb_true_iff; split; [apply Nat.leb_le|apply Nat.ltb_lt]; lia).
      rewrite Nat.sub_diag. cbn [nth]. apply edge_step_clk_same; assumption.
    + rewrite edge_step_clk_other by assumption.
      destruct (Nat.leb_spec (S start) i) as [H1|H1]; destruct (Nat.leb_spec start i) as [H2|H2]; try lia; cbn [andb].
      * replace (Nat.ltb i (start + S (length es))) with (Nat.ltb i (S start + length es)) by (f_equal; lia).
        destruct (Nat.ltb i (S start + length es)); [|reflexivity].
        replace (i - start)%nat with (S (i - S start)) by lia. reflexivity.
      * reflexivity.
Qed.

(* one epoch over the edge list built from the kernel's arrays *)
Lemma epoch_clk alpha (n : R) head tail eps epns s i : (i < length eps)%nat ->
  (i < length (s_next RNum s))%nat -> (i < length (s_nneg RNum s))%nat ->
  clk (epoch RNum a b gamma alpha mo nv n (edges_of head tail eps epns) s) i = clk_step n (clk s i) (nth i eps 0) (nth i epns 0).
Proof.
  intros Hi H1 H2. unfold epoch. rewrite edges_from_clk by assumption.
  assert (Ln : length (edges_of head tail eps epns) = length eps) by (unfold edges_of; rewrite map_length, seq_length; reflexivity).
  rewrite Ln.
  replace (Nat.leb 0 i && Nat.ltb i (0 + length eps))%bool with true
    by (symmetry; apply andb_true_iff; split; [apply Nat.leb_le|apply Nat.ltb_lt]; lia).
  rewrite Nat.sub_0_r.
  assert (E : nth i (edges_of head tail eps epns) (mkEdge RNum 0 0 0 0) = edge_at head tail eps epns i).
  { unfold edges_of. rewrite (nth_indep _ _ (edge_at head tail eps epns 0%nat)) by (rewrite map_length, seq_length; exact Hi).
    rewrite map_nth, seq_nth by exact Hi. reflexivity. }
  rewrite E. reflexivity.
Qed.
End Clocks.

Lemma clk_step_cases (n : R) (nx ng p q nx' ng' : R) : (nx', ng') = clk_step n (nx, ng) p q ->
  if Rleb nx n then nx' = nx + p /\ ng' = ng + IZR (Rtrunc ((n - ng) / q)) * q else nx' = nx /\ ng' = ng.
Proof.
  unfold clk_step. cbn [fst snd]. destruct (Rleb nx n); intros E; injection E as -> ->; split; reflexivity.
Qed.

Theorem C07_src_clocks (H : list (list R)) (head tail : list Z) (nv : Z) (eps : list R) (a b : R) (rngs : list rng3) (gamma : R) (D : nat)
        (mo : bool) (alpha : R) (epns nneg next : list R) (n : Z) (x1 x2 : list R) (x3 x4 x5 x6 : R) (x7 x8 : list R) (x9 : R) :
  wf_fit H head tail nv eps rngs D -> length next = length eps -> length nneg = length eps ->
  let '(_, _, nneg', next') :=
    src__optimize_layout_euclidean_single_epoch_shared RNum H head tail nv eps a b (map row_of rngs) gamma (Z.of_nat D) mo alpha
      epns nneg next n x1 x2 x3 x4 x5 x6 x7 x8 x9 in
  forall i, (i < length eps)%nat ->
    let nx := nth i next 0 in let ng := nth i nneg 0 in let q := nth i epns 0 in
    if Rleb nx (IZR n)
    then nth i next' 0 = nx + nth i eps 0 /\ nth i nneg' 0 = ng + IZR (Rtrunc ((IZR n - ng) / q)) * q
    else nth i next' 0 = nx /\ nth i nneg' 0 = ng.
Proof.
  intros (HR & Lr & Hnv & Hidx) L1 L2.
  rewrite (src_sgd_shared_eq H head tail nv eps a b rngs gamma D mo alpha epns nneg next n x1 x2 x3 x4 x5 x6 x7 x8 x9 HR Lr Hnv Hidx).
  cbv zeta. intros i Hi. apply clk_step_cases.
  pose proof (epoch_clk a b gamma mo nv alpha (IZR n) head tail eps epns (mkSt RNum (mkEmb RNum H [] true) next nneg rngs) i Hi) as P.
  assert (Hn1 : (i < length next)%nat) by lia. assert (Hn2 : (i < length nneg)%nat) by lia.
  exact (P Hn1 Hn2).
Qed.

Theorem C07_src_clocks_distinct (H Tl : list (list R)) (head tail : list Z) (nv : Z) (eps : list R) (a b : R) (rngs : list rng3) (gamma : R)
        (D : nat) (mo : bool) (alpha : R) (epns nneg next : list R) (n : Z) (x1 x2 : list R) (x3 x4 x5 x6 : R) (x7 x8 : list R) (x9 : R) :
  wf_transform H Tl head tail nv eps rngs D -> length next = length eps -> length nneg = length eps ->
  let '(_, _, _, nneg', next') :=
    src__optimize_layout_euclidean_single_epoch_distinct RNum H Tl head tail nv eps a b (map row_of rngs) gamma (Z.of_nat D) mo alpha
      epns nneg next n x1 x2 x3 x4 x5 x6 x7 x8 x9 in
  forall i, (i < length eps)%nat ->
    let nx := nth i next 0 in let ng := nth i nneg 0 in let q := nth i epns 0 in
    if Rleb nx (IZR n)
    then nth i next' 0 = nx + nth i eps 0 /\ nth i nneg' 0 = ng + IZR (Rtrunc ((IZR n - ng) / q)) * q
    else nth i next' 0 = nx /\ nth i nneg' 0 = ng.
Proof.
  intros (HR & HRT & Lr & Hnv & Hidx) L1 L2.
  rewrite (src_sgd_distinct_eq H Tl head tail nv eps a b rngs gamma D mo alpha epns nneg next n x1 x2 x3 x4 x5 x6 x7 x8 x9 HR HRT Lr Hnv Hidx).
  cbv zeta. intros i Hi. apply clk_step_cases.
  pose proof (epoch_clk a b gamma mo nv alpha (IZR n) head tail eps epns (mkSt RNum (mkEmb RNum H Tl false) next nneg rngs) i Hi) as P.
  assert (Hn1 : (i < length next)%nat) by lia. assert (Hn2 : (i < length nneg)%nat) by lia.
  exact (P Hn1 Hn2).
Qed.

(* ---- (3) per-pass move bound (C07_clip on the translated d-loops) ---------------------------------------------------------------- *)
Lemma clip_move (c x alpha : R) : Rabs (add RNum c (mul RNum (clip RNum x) alpha) - c) <= 4 * Rabs alpha.
Proof. exact (move_bounded c x alpha). Qed.
Lemma clip_move_neg (c x alpha : R) : Rabs (add RNum c (mul RNum (neg RNum (clip RNum x)) alpha) - c) <= 4 * Rabs alpha.
Proof.
  cbn [add mul neg RNum]. rn. replace (c + - clip RNum x * alpha - c) with (- (Rclip x * alpha)) by (unfold Rclip; ring).
  rewrite Rabs_Ropp, Rabs_mult. apply Rmult_le_compat_r; [apply Rabs_pos | apply clip_bound].
Qed.
Lemma no_move (c alpha : R) : Rabs (c - c) <= 4 * Rabs alpha.
Proof. replace (c - c) with 0 by ring. rewrite Rabs_R0. pose proof (Rabs_pos alpha). lra. Qed.

Lemma map2_len_min (f : R -> R -> R) : forall x y : list R, length (map2 RNum f x y) = Nat.min (length x) (length y).
Proof. induction x as [|a x IH]; intros [|b y]; cbn; try reflexivity. f_equal. apply IH. Qed.
Lemma nth_map2R (f : R -> R -> R) (x y : list R) (c : nat) : (c < length x)%nat -> (c < length y)%nat ->
  nth c (map2 RNum f x y) 0 = f (nth c x 0) (nth c y 0).
Proof. exact (nth_map2 RNum f 0 x y c). Qed.

Section MoveBound.
Context (gc alpha : R) (mo : bool) (D : nat).

Ltac elementwise := rewrite !nth_map2R by (rewrite ?map2_len_min; lia).
Ltac row_cases r j Hj := let Hn := fresh "Hn" in destruct (Nat.eq_dec r j) as [->|Hn]; [rewrite nth_set_nth_nat_same by (rewrite ?set_nth_nat_length; lia)
                                                               |rewrite nth_set_nth_nat_other by lia].

(* fit: one pass of the attractive d-loop (lines 142-152; rows j and, with move_other, k are written) *)
Theorem C07_src_move_bound_attr (H0 : list (list R)) (j k : nat) :
  (j < length H0)%nat -> (k < length H0)%nat -> rect D H0 ->
  let H' := attr_dloop_s RNum gc alpha mo (Z.of_nat j) (Z.of_nat k) (Z.of_nat D) H0 in
  forall r c, (r < length H0)%nat -> (c < D)%nat -> Rabs (nth c (nth r H' []) 0 - nth c (nth r H0 []) 0) <= 4 * Rabs alpha.
Proof.
  intros Hj Hk HR H' r c Hr Hc. unfold H'. clear H'.
  rewrite (attr_dloop_s_eq RNum src_clip_eq gc alpha mo D H0 [] j k Hj Hk HR).
  assert (Lj := rect_nth D H0 j HR Hj). assert (Lk := rect_nth D H0 k HR Hk).
  unfold attract_with. cbv zeta.
  destruct (Nat.eq_dec j k) as [<-|Hne];
    destruct mo; cbn [eH eshared get_tail set_head set_tail]; change (@upd (list RNum)) with (@set_nth_nat (list RNum)); rn.
  - (* j = k, move_other: the row is written twice *)
    rewrite (nth_set_nth_nat_same [] H0 j _ Hj), set_nth_nat_twice.
    row_cases r j Hj; [|apply no_move].
    elementwise. set (x := clip RNum _). cbn [add mul neg RNum]. rn.
    replace (nth c (nth j H0 []) 0 + x * alpha + - x * alpha - nth c (nth j H0 []) 0) with 0 by ring.
    rewrite Rabs_R0. pose proof (Rabs_pos alpha). lra.
  - row_cases r j Hj; [|apply no_move]. elementwise. apply clip_move.
  - rewrite (nth_set_nth_nat_other [] H0 j k _) by lia.
    row_cases r k Hk.
    + elementwise. apply clip_move_neg.
    + row_cases r j Hj; [|apply no_move]. elementwise. apply clip_move.
  - row_cases r j Hj; [|apply no_move]. elementwise. apply clip_move.
Qed.

(* transform: the same pass on two arrays; with move_other = False the second array is not written at all *)
Theorem C07_src_move_bound_attr_distinct (H0 T0 : list (list R)) (j k : nat) :
  (j < length H0)%nat -> (k < length T0)%nat -> length (nth j H0 []) = D -> length (nth k T0 []) = D ->
  let '(H', T') := attr_dloop_d RNum gc alpha mo (Z.of_nat j) (Z.of_nat k) (Z.of_nat D) (H0, T0) in
  (forall r c, (r < length H0)%nat -> (c < D)%nat -> Rabs (nth c (nth r H' []) 0 - nth c (nth r H0 []) 0) <= 4 * Rabs alpha) /\
  (forall r c, (r < length T0)%nat -> (c < D)%nat -> Rabs (nth c (nth r T' []) 0 - nth c (nth r T0 []) 0) <= 4 * Rabs alpha) /\
  (mo = false -> T' = T0).
Proof.
  intros Hj Hk Lj Lk.
  pose proof (attr_dloop_d_eq RNum src_clip_eq gc alpha mo D H0 T0 j k Hj Hk Lj Lk) as E. rn. rewrite E. clear E.
  unfold attract_with. cbv zeta.
  destruct mo; cbn [eH eT eshared get_tail set_head set_tail]; change (@upd (list RNum)) with (@set_nth_nat (list RNum)); rn;
    (split; [|split]); try (intros r c Hr Hc); try discriminate; try reflexivity.
  - row_cases r j Hj; [|apply no_move]. elementwise. apply clip_move.
  - row_cases r k Hk; [|apply no_move]. elementwise. apply clip_move_neg.
  - row_cases r j Hj; [|apply no_move]. elementwise. apply clip_move.
  - apply no_move.
Qed.

Lemma rep_move (c o : R) :
  Rabs (add RNum c (mul RNum (if ltb RNum (zero RNum) gc then clip RNum (mul RNum gc (sub RNum c o)) else zero RNum) alpha) - c) <= 4 * Rabs alpha.
Proof.
  destruct (ltb RNum (zero RNum) gc); [apply clip_move|]. cbn [add mul zero RNum]. rn.
  replace (c + 0 * alpha - c) with 0 by ring. rewrite Rabs_R0. pose proof (Rabs_pos alpha). lra.
Qed.

(* one pass of the repulsive d-loop (lines 177-182; only row j is written; k = j allowed), fit and transform *)
Theorem C07_src_move_bound_rep (H0 : list (list R)) (j k : nat) :
  (j < length H0)%nat -> (k < length H0)%nat -> rect D H0 ->
  let H' := rep_dloop_s RNum gc alpha (Z.of_nat j) (Z.of_nat k) (Z.of_nat D) H0 in
  forall r c, (r < length H0)%nat -> (c < D)%nat -> Rabs (nth c (nth r H' []) 0 - nth c (nth r H0 []) 0) <= 4 * Rabs alpha.
Proof.
  intros Hj Hk HR H' r c Hr Hc. unfold H'. clear H'.
  rewrite (rep_dloop_s_eq RNum src_clip_eq eq_refl gc alpha D H0 j k Hj Hk HR).
  assert (Lj := rect_nth D H0 j HR Hj). assert (Lk := rect_nth D H0 k HR Hk).
  unfold rep_row. rn. row_cases r j Hj; [|apply no_move]. elementwise. apply rep_move.
Qed.

Theorem C07_src_move_bound_rep_distinct (H0 T0 : list (list R)) (j k : nat) :
  (j < length H0)%nat -> length (nth j H0 []) = D -> length (nth k T0 []) = D ->
  let H' := rep_dloop_d RNum gc alpha (Z.of_nat j) (Z.of_nat k) (Z.of_nat D) T0 H0 in
  forall r c, (r < length H0)%nat -> (c < D)%nat -> Rabs (nth c (nth r H' []) 0 - nth c (nth r H0 []) 0) <= 4 * Rabs alpha.
Proof.
  intros Hj Lj Lk H' r c Hr Hc. unfold H'. clear H'.
  rewrite (rep_dloop_d_eq RNum src_clip_eq eq_refl gc alpha D H0 T0 j k Hj Lj Lk).
  unfold rep_row. rn. row_cases r j Hj; [|apply no_move]. elementwise. apply rep_move.
Qed.
End MoveBound.

(* ---- (3') whole-epoch move bound: (number of d-loop passes executed in the epoch) * 4 * |alpha| -------------------------------------- *)
Ltac elementwise := rewrite !nth_map2R by (rewrite ?map2_len_min; lia).
Ltac row_cases r j := let Hn := fresh "Hn" in destruct (Nat.eq_dec r j) as [->|Hn]; [rewrite nth_set_nth_nat_same by (rewrite ?set_nth_nat_length; lia)
                                                                                  |rewrite nth_set_nth_nat_other by lia].

(* all coordinates of the nH x D matrices X and Y differ by at most B *)
Definition mclose (D nH : nat) (B : R) (X Y : list (list R)) : Prop :=
  forall r c, (r < nH)%nat -> (c < D)%nat -> Rabs (nth c (nth r Y []) 0 - nth c (nth r X []) 0) <= B.
Lemma mclose_refl D nH B X : 0 <= B -> mclose D nH B X X.
Proof. intros HB r c _ _. replace (nth c (nth r X []) 0 - nth c (nth r X []) 0) with 0 by ring. rewrite Rabs_R0. exact HB. Qed.
Lemma mclose_trans D nH B1 B2 X Y Z : mclose D nH B1 X Y -> mclose D nH B2 Y Z -> mclose D nH (B1 + B2) X Z.
Proof.
  intros H1 H2 r c Hr Hc. specialize (H1 r c Hr Hc). specialize (H2 r c Hr Hc).
  replace (nth c (nth r Z []) 0 - nth c (nth r X []) 0)
    with ((nth c (nth r Z []) 0 - nth c (nth r Y []) 0) + (nth c (nth r Y []) 0 - nth c (nth r X []) 0)) by ring.
  eapply Rle_trans; [apply Rabs_triang|lra].
Qed.

(* the number of d-loop passes edge i makes in epoch n: 1 attractive + int((n - nneg) / epns) repulsive ones if due, else none *)
Definition edge_moves (n : R) (c : R * R) (q : R) : nat := if Rleb (fst c) n then S (Z.to_nat (Rtrunc ((n - snd c) / q))) else O.
Definition epoch_moves (n : R) (next nneg epns : list R) (m : nat) : nat :=
  list_sum (map (fun i => edge_moves n (nth i next 0, nth i nneg 0) (nth i epns 0)) (seq 0 m)).

Section EpochBound.
Context (a b gamma alpha : R) (mo : bool) (nv : Z) (D : nat) (sh : bool) (nH nT : nat).
Local Notation B := (4 * Rabs alpha).
Lemma B_nonneg : 0 <= B.
Proof. pose proof (Rabs_pos alpha). lra. Qed.

Lemma attract_close (e : emb RNum) (j k : nat) : wfe D sh nH nT e -> (j < nH)%nat -> (k < (if sh then nH else nT))%nat ->
  mclose D nH B (eH RNum e) (eH RNum (attract RNum a b alpha mo e j k)).
Proof.
  intros W Hj Hk. pose proof W as (HR & HL & HRT & HLT & HS).
  destruct e as [H Tl s]. cbn [eH eT eshared] in *. subst s.
  rewrite attract_attract_with. set (gc := attr_coeff _ _ _ _).
  intros r c Hr Hc. destruct sh; cbv iota in Hk; rn.
  - pose proof (attr_dloop_s_eq RNum src_clip_eq gc alpha mo D H Tl j k ltac:(rn; lia) ltac:(rn; lia) HR) as E.
    pose proof (C07_src_move_bound_attr gc alpha mo D H j k ltac:(rn; lia) ltac:(rn; lia) HR) as P. cbv zeta in P.
    rn. rewrite E in P. apply P; lia.
  - assert (Lj : length (nth j H []) = D) by (apply (rect_nth D H j HR); lia).
    assert (Lk : length (nth k Tl []) = D) by (apply (rect_nth D Tl k HRT); lia).
    pose proof (attr_dloop_d_eq RNum src_clip_eq gc alpha mo D H Tl j k ltac:(rn; lia) ltac:(rn; lia) Lj Lk) as E.
    pose proof (C07_src_move_bound_attr_distinct gc alpha mo D H Tl j k ltac:(rn; lia) ltac:(rn; lia) Lj Lk) as P.
    rn. rewrite E in P. cbv zeta in P. destruct P as [P _]. apply P; lia.
Qed.

Lemma repel_close (e : emb RNum) (j k : nat) : wfe D sh nH nT e -> (j < nH)%nat -> (k < (if sh then nH else nT))%nat ->
  mclose D nH B (eH RNum e) (eH RNum (repel RNum a b gamma alpha e j k)).
Proof.
  intros W Hj Hk. pose proof W as (HR & HL & HRT & HLT & HS).
  assert (Lj : length (nth j (eH RNum e) []) = D) by (apply (rect_nth D _ j HR); lia).
  assert (Lk := tail_len D sh nH nT e k W Hk).
  unfold repel. cbv zeta. destruct (ltb RNum (zero RNum) _); [|apply mclose_refl, B_nonneg].
  cbn [eH set_head]. change (@upd (list RNum)) with (@set_nth_nat (list RNum)). intros r c Hr Hc. rn.
  row_cases r j; [|apply no_move]. elementwise. apply rep_move.
Qed.

Lemma neg_loop_close (j : nat) : forall (n : nat) (e : emb RNum) (st : rng3),
  wfe D sh nH nT e -> (j < nH)%nat -> (0 < nv <= Z.of_nat (if sh then nH else nT))%Z ->
  mclose D nH (INR n * B) (eH RNum e) (eH RNum (fst (neg_loop RNum n a b gamma alpha nv e j st))).
Proof.
  induction n as [|n IH]; intros e st W Hj Hnv.
  - cbn [neg_loop fst INR]. apply mclose_refl. lra.
  - cbn [neg_loop]. destruct (tau_rand_int st) as [st' r].
    assert (Hk : (0 <= r mod nv < nv)%Z) by (apply Z.mod_pos_bound; lia).
    assert (Hkn : (Z.to_nat (r mod nv) < (if sh then nH else nT))%nat) by lia.
    replace (INR (S n) * B) with (B + INR n * B) by (rewrite S_INR; ring).
    eapply mclose_trans; [apply (repel_close e j _ W Hj Hkn)|].
    apply IH; auto. apply repel_wfe; auto.
Qed.

Lemma edge_step_close (n : R) (s : sgd_state RNum) (i jn kn : nat) (x y : R) :
  wfe D sh nH nT (s_emb RNum s) -> (0 < nv <= Z.of_nat (if sh then nH else nT))%Z -> (jn < nH)%nat -> (kn < (if sh then nH else nT))%nat ->
  mclose D nH (INR (edge_moves n (clk s i) y) * B) (eH RNum (s_emb RNum s))
         (eH RNum (s_emb RNum (edge_step RNum a b gamma alpha mo nv n s i (mkEdge RNum jn kn x y)))).
Proof.
  intros W Hnv Hj Hk. unfold edge_step, edge_moves, clk. cbn [fst snd e_head e_tail e_eps e_epns]. cbn [leb RNum zero].
  destruct (Rleb (nth i (s_next RNum s) 0) n); [|apply mclose_refl; cbn [INR]; lra].
  cbv zeta.
  match goal with |- context [neg_loop RNum ?c a b gamma alpha nv ?e jn ?st] =>
    pose proof (neg_loop_close jn c e st (attract_wfe a b alpha mo D sh nH nT _ jn kn W Hj Hk) Hj Hnv) as Q;
    destruct (neg_loop RNum c a b gamma alpha nv e jn st) as [e2 st'] end.
  cbn [s_emb fst] in *. rewrite S_INR.
  match goal with |- mclose _ _ ((?u + 1) * _) _ _ => replace ((u + 1) * B) with (B + u * B) by ring end.
  eapply mclose_trans; [apply (attract_close _ jn kn W Hj Hk)|exact Q].
Qed.

Definition moves_list (n : R) (epns : list R) (s : sgd_state RNum) (l : list nat) : nat :=
  list_sum (map (fun i => edge_moves n (clk s i) (nth i epns 0)) l).

Lemma moves_list_cons (n : R) (epns : list R) (s : sgd_state RNum) (i : nat) (l : list nat) :
  moves_list n epns s (i :: l) = Nat.add (edge_moves n (clk s i) (nth i epns 0)) (moves_list n epns s l).
Proof. reflexivity. Qed.

Lemma moves_list_other (n : R) (epns : list R) (s : sgd_state RNum) (i0 : nat) (ed : edge RNum) (l : list nat) :
  (forall i, In i l -> i <> i0) ->
  moves_list n epns (edge_step RNum a b gamma alpha mo nv n s i0 ed) l = moves_list n epns s l.
Proof.
  intros Hl. unfold moves_list. f_equal. apply map_ext_in. intros i Hi.
  rewrite (edge_step_clk_other a b gamma mo nv alpha n s i0 ed i (Hl i Hi)). reflexivity.
Qed.

Lemma edges_from_close (head tail : list Z) (eps epns : list R) (n : R) :
  (0 < nv <= Z.of_nat (if sh then nH else nT))%Z ->
  (forall i, (i < length eps)%nat -> (0 <= nth i head 0 < Z.of_nat nH)%Z /\ (0 <= nth i tail 0 < Z.of_nat (if sh then nH else nT))%Z) ->
  forall (m i0 : nat) (s : sgd_state RNum), (i0 + m <= length eps)%nat ->
  wfe D sh nH nT (s_emb RNum s) -> length (s_rng RNum s) = nH ->
  mclose D nH (INR (moves_list n epns s (seq i0 m)) * B) (eH RNum (s_emb RNum s))
         (eH RNum (s_emb RNum (edges_from RNum a b gamma alpha mo nv n i0 (map (edge_at head tail eps epns) (seq i0 m)) s))).
Proof.
  intros Hnv Hidx. induction m as [|m IH]; intros i0 s Hm W Lr.
  - cbn [seq map edges_from moves_list list_sum INR]. apply mclose_refl. unfold moves_list. cbn. lra.
  - cbn [seq map edges_from]. destruct (Hidx i0 ltac:(rn; lia)) as [Hh Ht].
    unfold edge_at at 1.
    set (jn := Z.to_nat (nth i0 head 0%Z)). set (kn := Z.to_nat (nth i0 tail 0%Z)).
    assert (Hj : (jn < nH)%nat) by (unfold jn; lia). assert (Hk : (kn < (if sh then nH else nT))%nat) by (unfold kn; lia).
    destruct (edge_step_wf a b gamma alpha mo nv D sh nH nT n s i0 jn kn (nth i0 eps 0) (nth i0 epns 0) W Lr Hnv Hj Hk) as [W' Lr'].
    rewrite moves_list_cons, plus_INR, Rmult_plus_distr_r.
    eapply mclose_trans; [apply (edge_step_close n s i0 jn kn (nth i0 eps 0) (nth i0 epns 0) W Hnv Hj Hk)|].
    rewrite <- (moves_list_other n epns s i0 (mkEdge RNum jn kn (nth i0 eps 0) (nth i0 epns 0)) (seq (S i0) m))
      by (intros i Hi; apply in_seq in Hi; lia).
    apply IH; [lia|exact W'|exact Lr'].
Qed.
End EpochBound.

(* fit: in one epoch every coordinate of every row of the embedding the kernel returns differs from the input by at most
   (number of d-loop passes executed in the epoch) * 4 * |alpha|; the count is a function of the input clocks.
   (the per-row count: C07_src_move_bound below) *)
Theorem C07_src_move_bound_total (H : list (list R)) (head tail : list Z) (nv : Z) (eps : list R) (a b : R) (rngs : list rng3) (gamma : R)
        (D : nat) (mo : bool) (alpha : R) (epns nneg next : list R) (n : Z) (x1 x2 : list R) (x3 x4 x5 x6 : R) (x7 x8 : list R) (x9 : R) :
  wf_fit H head tail nv eps rngs D ->
  let '(H', _, _, _) :=
    src__optimize_layout_euclidean_single_epoch_shared RNum H head tail nv eps a b (map row_of rngs) gamma (Z.of_nat D) mo alpha
      epns nneg next n x1 x2 x3 x4 x5 x6 x7 x8 x9 in
  forall r c, (r < length H)%nat -> (c < D)%nat ->
    Rabs (nth c (nth r H' []) 0 - nth c (nth r H []) 0) <= INR (epoch_moves (IZR n) next nneg epns (length eps)) * (4 * Rabs alpha).
Proof.
  intros (HR & Lr & Hnv & Hidx).
  rewrite (src_sgd_shared_eq H head tail nv eps a b rngs gamma D mo alpha epns nneg next n x1 x2 x3 x4 x5 x6 x7 x8 x9 HR Lr Hnv Hidx).
  cbv zeta. unfold epoch, edges_of.
  assert (W : wfe D true (length H) 0 (s_emb RNum (mkSt RNum (mkEmb RNum H [] true) next nneg rngs))).
  { repeat split; cbn [s_emb eH eT eshared]; auto. constructor. }
  exact (edges_from_close a b gamma alpha mo nv D true (length H) 0 head tail eps epns (IZR n) Hnv Hidx (length eps) 0
           (mkSt RNum (mkEmb RNum H [] true) next nneg rngs) (le_n _) W Lr).
Qed.

(* transform: the same for the head embedding (the tail embedding: C07_src_frame / C07_src_move_bound_attr_distinct) *)
Theorem C07_src_move_bound_distinct_total (H Tl : list (list R)) (head tail : list Z) (nv : Z) (eps : list R) (a b : R) (rngs : list rng3)
        (gamma : R) (D : nat) (mo : bool) (alpha : R) (epns nneg next : list R) (n : Z) (x1 x2 : list R) (x3 x4 x5 x6 : R) (x7 x8 : list R) (x9 : R) :
  wf_transform H Tl head tail nv eps rngs D ->
  let '(H', _, _, _, _) :=
    src__optimize_layout_euclidean_single_epoch_distinct RNum H Tl head tail nv eps a b (map row_of rngs) gamma (Z.of_nat D) mo alpha
      epns nneg next n x1 x2 x3 x4 x5 x6 x7 x8 x9 in
  forall r c, (r < length H)%nat -> (c < D)%nat ->
    Rabs (nth c (nth r H' []) 0 - nth c (nth r H []) 0) <= INR (epoch_moves (IZR n) next nneg epns (length eps)) * (4 * Rabs alpha).
Proof.
  intros (HR & HRT & Lr & Hnv & Hidx).
  rewrite (src_sgd_distinct_eq H Tl head tail nv eps a b rngs gamma D mo alpha epns nneg next n x1 x2 x3 x4 x5 x6 x7 x8 x9 HR HRT Lr Hnv Hidx).
  cbv zeta. unfold epoch, edges_of.
  assert (W : wfe D false (length H) (length Tl) (s_emb RNum (mkSt RNum (mkEmb RNum H Tl false) next nneg rngs))).
  { repeat split; cbn [s_emb eH eT eshared]; auto. }
  exact (edges_from_close a b gamma alpha mo nv D false (length H) (length Tl) head tail eps epns (IZR n) Hnv Hidx (length eps) 0
           (mkSt RNum (mkEmb RNum H Tl false) next nneg rngs) (le_n _) W Lr).
Qed.

(* ---- (3'') per-row move bound: (number of d-loop passes that write row r) * 4 * |alpha| ------------------------------------------------ *)
(* the passes of edge i that write row r in epoch n: if the edge is due, 1 attractive + int((n - nneg) / epns) repulsive ones when r is its
   head (negative samples move only the head row), 1 (the mirrored attractive move) when r is its tail and the tail is moved *)
Definition edge_row_moves (tailmoves : bool) (n : R) (c : R * R) (q : R) (jn kn r : nat) : nat :=
  if Rleb (fst c) n then
    if Nat.eqb jn r then S (Z.to_nat (Rtrunc ((n - snd c) / q))) else if (tailmoves && Nat.eqb kn r)%bool then 1%nat else O
  else O.
Definition row_moves (tailmoves : bool) (n : R) (head tail : list Z) (next nneg epns : list R) (m r : nat) : nat :=
  list_sum (map (fun i => edge_row_moves tailmoves n (nth i next 0, nth i nneg 0) (nth i epns 0)
                                         (Z.to_nat (nth i head 0%Z)) (Z.to_nat (nth i tail 0%Z)) r) (seq 0 m)).

Definition rclose (D r : nat) (B : R) (X Y : list (list R)) : Prop :=
  forall c, (c < D)%nat -> Rabs (nth c (nth r Y []) 0 - nth c (nth r X []) 0) <= B.
Lemma rclose_same D r B X Y : nth r Y [] = nth r X [] -> 0 <= B -> rclose D r B X Y.
Proof. intros E HB c _. rewrite E. replace (nth c (nth r X []) 0 - nth c (nth r X []) 0) with 0 by ring. rewrite Rabs_R0. exact HB. Qed.
Lemma rclose_trans D r B1 B2 X Y Z : rclose D r B1 X Y -> rclose D r B2 Y Z -> rclose D r (B1 + B2) X Z.
Proof.
  intros H1 H2 c Hc. specialize (H1 c Hc). specialize (H2 c Hc).
  replace (nth c (nth r Z []) 0 - nth c (nth r X []) 0)
    with ((nth c (nth r Z []) 0 - nth c (nth r Y []) 0) + (nth c (nth r Y []) 0 - nth c (nth r X []) 0)) by ring.
  eapply Rle_trans; [apply Rabs_triang|lra].
Qed.

Section RowBound.
Context (a b gamma alpha : R) (mo : bool) (nv : Z) (D : nat) (sh : bool) (nH nT : nat).
Local Notation B := (4 * Rabs alpha).
Local Notation tm := (sh && mo)%bool.

Lemma attract_row (e : emb RNum) (j k r : nat) : eshared RNum e = sh -> r <> j -> (tm = true -> r <> k) ->
  nth r (eH RNum (attract RNum a b alpha mo e j k)) [] = nth r (eH RNum e) [].
Proof.
  intros HS Hj Hk. unfold attract. cbv zeta. destruct mo.
  - unfold set_tail. cbn [eshared set_head]. rewrite HS. destruct sh; cbn [eH set_head]; change (@upd (list RNum)) with (@set_nth_nat (list RNum)).
    + rewrite !nth_set_nth_nat_other; auto.
    + rewrite nth_set_nth_nat_other; auto.
  - cbn [eH set_head]. change (@upd (list RNum)) with (@set_nth_nat (list RNum)). rewrite nth_set_nth_nat_other; auto.
Qed.

Lemma repel_row (e : emb RNum) (j k r : nat) : r <> j -> nth r (eH RNum (repel RNum a b gamma alpha e j k)) [] = nth r (eH RNum e) [].
Proof.
  intros Hj. unfold repel. cbv zeta. destruct (ltb RNum (zero RNum) _); [|reflexivity].
  cbn [eH set_head]. change (@upd (list RNum)) with (@set_nth_nat (list RNum)). rewrite nth_set_nth_nat_other; auto.
Qed.

Lemma neg_loop_row (j r : nat) : r <> j -> forall (n : nat) (e : emb RNum) (st : rng3),
  nth r (eH RNum (fst (neg_loop RNum n a b gamma alpha nv e j st))) [] = nth r (eH RNum e) [].
Proof.
  intros Hj. induction n as [|n IH]; intros e st; [reflexivity|].
  cbn [neg_loop]. destruct (tau_rand_int st) as [st' q]. rewrite IH. apply repel_row. exact Hj.
Qed.

Lemma edge_step_rclose (n : R) (s : sgd_state RNum) (i jn kn r : nat) (x y : R) :
  wfe D sh nH nT (s_emb RNum s) -> (0 < nv <= Z.of_nat (if sh then nH else nT))%Z -> (jn < nH)%nat -> (kn < (if sh then nH else nT))%nat ->
  (r < nH)%nat ->
  rclose D r (INR (edge_row_moves tm n (clk s i) y jn kn r) * B) (eH RNum (s_emb RNum s))
         (eH RNum (s_emb RNum (edge_step RNum a b gamma alpha mo nv n s i (mkEdge RNum jn kn x y)))).
Proof.
  intros W Hnv Hj Hk Hr. pose proof W as (_ & _ & _ & _ & HS).
  destruct (Nat.eqb_spec jn r) as [Ejr|Hne].
  - (* r is the head: all passes of the edge *)
    replace (edge_row_moves tm n (clk s i) y jn kn r) with (edge_moves n (clk s i) y)
      by (unfold edge_row_moves, edge_moves; subst r; rewrite Nat.eqb_refl; reflexivity).
    intros c Hc. exact (edge_step_close a b gamma alpha mo nv D sh nH nT n s i jn kn x y W Hnv Hj Hk r c Hr Hc).
  - unfold edge_row_moves, edge_step, clk. cbn [fst snd e_head e_tail e_eps e_epns]. cbn [leb RNum zero].
    destruct (Nat.eqb_spec jn r) as [|_]; [contradiction|].
    destruct (Rleb (nth i (s_next RNum s) 0) n); [|apply rclose_same; [reflexivity|cbn [INR]; lra]].
    cbv zeta.
    match goal with |- context [neg_loop RNum ?c a b gamma alpha nv ?e jn ?st] =>
      pose proof (neg_loop_row jn r (not_eq_sym Hne) c e st) as Q;
      destruct (neg_loop RNum c a b gamma alpha nv e jn st) as [e2 st'] end.
    cbn [s_emb fst] in *. rn.
    destruct (tm && Nat.eqb kn r)%bool eqn:Et.
    + (* r is the tail and the tail is moved: the mirrored attractive move only *)
      intros c Hc. rewrite Q. cbn [INR]. rewrite Rmult_1_l.
      exact (attract_close a b alpha mo D sh nH nT _ jn kn W Hj Hk r c Hr Hc).
    + apply rclose_same; [|cbn [INR]; lra]. rewrite Q. apply attract_row; [exact HS|auto|].
      intros Htm. rewrite Htm in Et. cbn [andb] in Et. destruct (Nat.eqb_spec kn r); [discriminate|auto].
Qed.

Definition row_moves_list (n : R) (head tail : list Z) (epns : list R) (s : sgd_state RNum) (r : nat) (l : list nat) : nat :=
  list_sum (map (fun i => edge_row_moves tm n (clk s i) (nth i epns 0) (Z.to_nat (nth i head 0%Z)) (Z.to_nat (nth i tail 0%Z)) r) l).

Lemma row_moves_list_cons (n : R) head tail (epns : list R) (s : sgd_state RNum) (r i : nat) (l : list nat) :
  row_moves_list n head tail epns s r (i :: l) =
  Nat.add (edge_row_moves tm n (clk s i) (nth i epns 0) (Z.to_nat (nth i head 0%Z)) (Z.to_nat (nth i tail 0%Z)) r) (row_moves_list n head tail epns s r l).
Proof. reflexivity. Qed.

Lemma row_moves_list_other (n : R) head tail (epns : list R) (s : sgd_state RNum) (r i0 : nat) (ed : edge RNum) (l : list nat) :
  (forall i, In i l -> i <> i0) ->
  row_moves_list n head tail epns (edge_step RNum a b gamma alpha mo nv n s i0 ed) r l = row_moves_list n head tail epns s r l.
Proof.
  intros Hl. unfold row_moves_list. f_equal. apply map_ext_in. intros i Hi.
  rewrite (edge_step_clk_other a b gamma mo nv alpha n s i0 ed i (Hl i Hi)). reflexivity.
Qed.

Lemma edges_from_rclose (head tail : list Z) (eps epns : list R) (n : R) (r : nat) :
  (0 < nv <= Z.of_nat (if sh then nH else nT))%Z -> (r < nH)%nat ->
  (forall i, (i < length eps)%nat -> (0 <= nth i head 0 < Z.of_nat nH)%Z /\ (0 <= nth i tail 0 < Z.of_nat (if sh then nH else nT))%Z) ->
  forall (m i0 : nat) (s : sgd_state RNum), (i0 + m <= length eps)%nat ->
  wfe D sh nH nT (s_emb RNum s) -> length (s_rng RNum s) = nH ->
  rclose D r (INR (row_moves_list n head tail epns s r (seq i0 m)) * B) (eH RNum (s_emb RNum s))
         (eH RNum (s_emb RNum (edges_from RNum a b gamma alpha mo nv n i0 (map (edge_at head tail eps epns) (seq i0 m)) s))).
Proof.
  intros Hnv Hr Hidx. induction m as [|m IH]; intros i0 s Hm W Lr.
  - cbn [seq map edges_from]. apply rclose_same; [reflexivity|]. unfold row_moves_list. cbn. lra.
  - cbn [seq map edges_from]. destruct (Hidx i0 ltac:(lia)) as [Hh Ht].
    unfold edge_at at 1.
    set (jn := Z.to_nat (nth i0 head 0%Z)). set (kn := Z.to_nat (nth i0 tail 0%Z)).
    assert (Hj : (jn < nH)%nat) by (unfold jn; lia). assert (Hk : (kn < (if sh then nH else nT))%nat) by (unfold kn; lia).
    destruct (edge_step_wf a b gamma alpha mo nv D sh nH nT n s i0 jn kn (nth i0 eps 0) (nth i0 epns 0) W Lr Hnv Hj Hk) as [W' Lr'].
    rewrite row_moves_list_cons. fold jn kn. rewrite plus_INR, Rmult_plus_distr_r.
    eapply rclose_trans; [apply (edge_step_rclose n s i0 jn kn r (nth i0 eps 0) (nth i0 epns 0) W Hnv Hj Hk Hr)|].
    rewrite <- (row_moves_list_other n head tail epns s r i0 (mkEdge RNum jn kn (nth i0 eps 0) (nth i0 epns 0)) (seq (S i0) m))
      by (intros i Hi; apply in_seq in Hi; lia).
    apply IH; [lia|exact W'|exact Lr'].
Qed.
End RowBound.

(* fit: every coordinate of row r of the embedding the kernel returns differs from the input by at most
   (number of d-loop passes of the epoch that write row r) * 4 * |alpha|; the count is a function of the edge arrays and the input clocks
   (tails are moved iff move_other) *)
Theorem C07_src_move_bound (H : list (list R)) (head tail : list Z) (nv : Z) (eps : list R) (a b : R) (rngs : list rng3) (gamma : R)
        (D : nat) (mo : bool) (alpha : R) (epns nneg next : list R) (n : Z) (x1 x2 : list R) (x3 x4 x5 x6 : R) (x7 x8 : list R) (x9 : R) :
  wf_fit H head tail nv eps rngs D ->
  let '(H', _, _, _) :=
    src__optimize_layout_euclidean_single_epoch_shared RNum H head tail nv eps a b (map row_of rngs) gamma (Z.of_nat D) mo alpha
      epns nneg next n x1 x2 x3 x4 x5 x6 x7 x8 x9 in
  forall r c, (r < length H)%nat -> (c < D)%nat ->
    Rabs (nth c (nth r H' []) 0 - nth c (nth r H []) 0) <= INR (row_moves mo (IZR n) head tail next nneg epns (length eps) r) * (4 * Rabs alpha).
Proof.
  intros (HR & Lr & Hnv & Hidx).
  rewrite (src_sgd_shared_eq H head tail nv eps a b rngs gamma D mo alpha epns nneg next n x1 x2 x3 x4 x5 x6 x7 x8 x9 HR Lr Hnv Hidx).
  cbv zeta. unfold epoch, edges_of. intros r c Hr Hc.
  assert (W : wfe D true (length H) 0 (s_emb RNum (mkSt RNum (mkEmb RNum H [] true) next nneg rngs))).
  { repeat split; cbn [s_emb eH eT eshared]; auto. constructor. }
  exact (edges_from_rclose a b gamma alpha mo nv D true (length H) 0 head tail eps epns (IZR n) r Hnv Hr Hidx (length eps) 0
           (mkSt RNum (mkEmb RNum H [] true) next nneg rngs) (le_n _) W Lr c Hc).
Qed.

(* transform: the head embedding; only the passes of the edges whose head is r count (the tail is a row of the other array) *)
Theorem C07_src_move_bound_distinct (H Tl : list (list R)) (head tail : list Z) (nv : Z) (eps : list R) (a b : R) (rngs : list rng3)
        (gamma : R) (D : nat) (mo : bool) (alpha : R) (epns nneg next : list R) (n : Z) (x1 x2 : list R) (x3 x4 x5 x6 : R) (x7 x8 : list R) (x9 : R) :
  wf_transform H Tl head tail nv eps rngs D ->
  let '(H', _, _, _, _) :=
    src__optimize_layout_euclidean_single_epoch_distinct RNum H Tl head tail nv eps a b (map row_of rngs) gamma (Z.of_nat D) mo alpha
      epns nneg next n x1 x2 x3 x4 x5 x6 x7 x8 x9 in
  forall r c, (r < length H)%nat -> (c < D)%nat ->
    Rabs (nth c (nth r H' []) 0 - nth c (nth r H []) 0) <= INR (row_moves false (IZR n) head tail next nneg epns (length eps) r) * (4 * Rabs alpha).
Proof.
  intros (HR & HRT & Lr & Hnv & Hidx).
  rewrite (src_sgd_distinct_eq H Tl head tail nv eps a b rngs gamma D mo alpha epns nneg next n x1 x2 x3 x4 x5 x6 x7 x8 x9 HR HRT Lr Hnv Hidx).
  cbv zeta. unfold epoch, edges_of. intros r c Hr Hc.
  assert (W : wfe D false (length H) (length Tl) (s_emb RNum (mkSt RNum (mkEmb RNum H Tl false) next nneg rngs))).
  { repeat split; cbn [s_emb eH eT eshared]; auto. }
  exact (edges_from_rclose a b gamma alpha mo nv D false (length H) (length Tl) head tail eps epns (IZR n) r Hnv Hr Hidx (length eps) 0
           (mkSt RNum (mkEmb RNum H Tl false) next nneg rngs) (le_n _) W Lr c Hc).
Qed.

(* ---- no edge due: nothing is written ----------------------------------------------------------------------------------------------- *)
Lemma edges_from_idle (a b gamma alpha : R) (mo : bool) (nv : Z) (n : R) : forall es start s,
  (forall p, (p < length es)%nat -> Rleb (nth (start + p) (s_next RNum s) 0) n = false) ->
  edges_from RNum a b gamma alpha mo nv n start es s = s.
Proof.
  induction es as [|ed es IH]; intros start s Hnd; cbn [edges_from]; [reflexivity|].
  assert (E : edge_step RNum a b gamma alpha mo nv n s start ed = s).
  { unfold edge_step. cbn [leb RNum zero]. pose proof (Hnd 0%nat ltac:(cbn; lia)) as E0. rewrite Nat.add_0_r in E0. rn. rewrite E0. reflexivity. }
  rewrite E. apply IH. intros p Hp. replace (S start + p)%nat with (start + S p)%nat by lia. apply Hnd. cbn. lia.
Qed.

Theorem C07_src_idle (H : list (list R)) (head tail : list Z) (nv : Z) (eps : list R) (a b : R) (rngs : list rng3) (gamma : R) (D : nat)
        (mo : bool) (alpha : R) (epns nneg next : list R) (n : Z) (x1 x2 : list R) (x3 x4 x5 x6 : R) (x7 x8 : list R) (x9 : R) :
  wf_fit H head tail nv eps rngs D ->
  (forall i, (i < length eps)%nat -> IZR n < nth i next 0) ->
  src__optimize_layout_euclidean_single_epoch_shared RNum H head tail nv eps a b (map row_of rngs) gamma (Z.of_nat D) mo alpha
      epns nneg next n x1 x2 x3 x4 x5 x6 x7 x8 x9 = (H, map row_of rngs, nneg, next).
Proof.
  intros (HR & Lr & Hnv & Hidx) Hnd.
  rewrite (src_sgd_shared_eq H head tail nv eps a b rngs gamma D mo alpha epns nneg next n x1 x2 x3 x4 x5 x6 x7 x8 x9 HR Lr Hnv Hidx).
  cbv zeta. unfold epoch. rewrite edges_from_idle; [reflexivity|].
  intros p Hp. unfold edges_of in Hp. rewrite map_length, seq_length in Hp. cbn [s_next Nat.add]. apply Rleb_false. apply Hnd. exact Hp.
Qed.

(* ---- (4) non-vacuity --------------------------------------------------------------------------------------------------------------- *)
(* 3 vertices in the plane, edges 0 -> 1 (period 1) and 1 -> 2 (period 2), epoch n = 1 with clocks [1; 2]: the state satisfies every
   hypothesis of src_sgd_shared_eq and of C07_src_clocks; edge 0 is due (its clock goes to 2), edge 1 is not (its clock stays at 2) *)
Theorem C07_src_nonvacuous (a b gamma alpha : R) (mo : bool) (x1 x2 : list R) (x3 x4 x5 x6 : R) (x7 x8 : list R) (x9 : R) :
  let H := [[0; 0]; [1; 0]; [0; 1]] in
  let rngs := [(1, 2, 3); (4, 5, 6); (7, 8, 9)]%Z in
  wf_fit H [0; 1]%Z [1; 2]%Z 3%Z [1; 2] rngs 2 /\
  let '(_, _, _, next') :=
    src__optimize_layout_euclidean_single_epoch_shared RNum H [0; 1]%Z [1; 2]%Z 3%Z [1; 2] a b (map row_of rngs) gamma (Z.of_nat 2) mo alpha
      [1; 1] [1; 1] [1; 2] 1%Z x1 x2 x3 x4 x5 x6 x7 x8 x9 in
  nth 0 next' 0 = 2 /\ nth 1 next' 0 = 2.
Proof.
  intros H rngs.
  assert (W : wf_fit H [0; 1]%Z [1; 2]%Z 3%Z [1; 2] rngs 2).
  { unfold wf_fit, H, rngs. repeat split; try (cbn; lia).
    - repeat constructor.
    - destruct i as [|[|i]]; cbn in *; lia.
    - destruct i as [|[|i]]; cbn in *; lia.
    - destruct i as [|[|i]]; cbn in *; lia.
    - destruct i as [|[|i]]; cbn in *; lia. }
  split; [exact W|].
  pose proof (C07_src_clocks H [0; 1]%Z [1; 2]%Z 3%Z [1; 2] a b rngs gamma 2 mo alpha [1; 1] [1; 1] [1; 2] 1%Z x1 x2 x3 x4 x5 x6 x7 x8 x9
                W eq_refl eq_refl) as P.
  destruct (src__optimize_layout_euclidean_single_epoch_shared _ _ _ _ _ _ _ _ _ _ _ _ _ _ _ _ _ _ _ _ _ _ _ _ _ _) as [[[H' r'] ng'] nx'].
  pose proof (P 0%nat ltac:(cbn; lia)) as P0. pose proof (P 1%nat ltac:(cbn; lia)) as P1. cbv zeta in P0, P1. cbn [nth] in P0, P1.
  assert (E0 : Rleb 1 (IZR 1) = true) by (apply Rleb_true; lra).
  assert (E1 : Rleb 2 (IZR 1) = false) by (apply Rleb_false; lra).
  rewrite E0 in P0. rewrite E1 in P1. destruct P0 as [P0 _]. destruct P1 as [P1 _]. split; [rewrite P0; lra|exact P1].
Qed.

(* the same state: vertex 2 is an endpoint of no due edge (edge 0 = 0 -> 1 is due, edge 1 = 1 -> 2 is not): row_moves is 0 and the
   kernel returns its row unchanged, whatever the negative samples are *)
Theorem C07_src_nonvacuous_row (a b gamma alpha : R) (mo : bool) (x1 x2 : list R) (x3 x4 x5 x6 : R) (x7 x8 : list R) (x9 : R) :
  let H := [[0; 0]; [1; 0]; [0; 1]] in
  let rngs := [(1, 2, 3); (4, 5, 6); (7, 8, 9)]%Z in
  row_moves mo (IZR 1) [0; 1]%Z [1; 2]%Z [1; 2] [1; 1] [1; 1] 2 2 = 0%nat /\
  let '(H', _, _, _) :=
    src__optimize_layout_euclidean_single_epoch_shared RNum H [0; 1]%Z [1; 2]%Z 3%Z [1; 2] a b (map row_of rngs) gamma (Z.of_nat 2) mo alpha
      [1; 1] [1; 1] [1; 2] 1%Z x1 x2 x3 x4 x5 x6 x7 x8 x9 in
  forall c, (c < 2)%nat -> nth c (nth 2 H' []) 0 = nth c (nth 2 H []) 0.
Proof.
  intros H rngs.
  destruct (C07_src_nonvacuous a b gamma alpha mo x1 x2 x3 x4 x5 x6 x7 x8 x9) as [W _]. fold H rngs in W.
  assert (E0 : Rleb 1 (IZR 1) = true) by (apply Rleb_true; lra).
  assert (E1 : Rleb 2 (IZR 1) = false) by (apply Rleb_false; lra).
  assert (Em : row_moves mo (IZR 1) [0; 1]%Z [1; 2]%Z [1; 2] [1; 1] [1; 1] 2 2 = 0%nat).
  { unfold row_moves, edge_row_moves. cbn [length seq map nth fst snd]. rewrite E0, E1. cbn. destruct mo; reflexivity. }
  split; [exact Em|].
  pose proof (C07_src_move_bound H [0; 1]%Z [1; 2]%Z 3%Z [1; 2] a b rngs gamma 2 mo alpha [1; 1] [1; 1] [1; 2] 1%Z x1 x2 x3 x4 x5 x6 x7 x8 x9 W) as P.
  destruct (src__optimize_layout_euclidean_single_epoch_shared _ _ _ _ _ _ _ _ _ _ _ _ _ _ _ _ _ _ _ _ _ _ _ _ _ _) as [[[H' r'] ng'] nx'].
  intros c Hc. specialize (P 2%nat c ltac:(cbn; lia) Hc). cbn [length] in P. rewrite Em in P. cbn [INR] in P. rewrite Rmult_0_l in P.
  apply Rminus_diag_uniq. destruct (Req_dec (nth c (nth 2 H' []) 0 - nth c (nth 2 H []) 0) 0) as [E|E]; [exact E|].
  apply Rabs_pos_lt in E. lra.
Qed.

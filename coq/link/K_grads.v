(* Capstone corollaries for C14 (three exemplars): the statement "the returned gradient is the derivative of the RETURNED distance" about the
   TRANSLATED SOURCE of euclidean_grad, manhattan_grad and canberra_grad (regenerated from the current umap/distances.py on every run). *)
From Coq Require Import List ZArith Reals Lra.
From Coquelicot Require Import Coquelicot.
From UV Require Import Num PyPrim M_grads T_grads T_grads2 T_grads3 P_C14.
From UVS Require Import Src_distances_grads L_grads.
Import ListNotations.
Local Open Scope R_scope.

Lemma derive_transfer (f g : R -> R) (x0 l : R) : (forall t, f t = g t) -> is_derive g x0 l -> is_derive f x0 l.
Proof. intros E H. apply (is_derive_ext g f); [intros t; symmetry; apply E | exact H]. Qed.

Corollary C14_src_euclidean_grad : forall x y i, (i < length x)%nat -> length x = length y ->
  let D := fst (src_euclidean_grad RNum x y) in
  0 < D ->
  is_derive (fun t => fst (src_euclidean_grad RNum (set_nth x i t) y)) (nth i x 0) ((nth i x 0 - nth i y 0) / D) /\
  nth i (snd (src_euclidean_grad RNum x y)) 0 = (nth i x 0 - nth i y 0) / D * (D / (D + Reps6)).
Proof.
  intros x y i Hi L D HD. subst D.
  rewrite (src_euclidean_grad_eq RNum NumLit_RNum x y L) in *.
  destruct (C14_euclidean_grad_derive x y i Hi (eq_ind _ (fun n => (i < n)%nat) Hi _ L) HD) as [H1 H2].
  split; [|exact H2].
  apply (derive_transfer _ (fun t => euclid (set_nth x i t) y)); [|exact H1].
  intros t. rewrite (src_euclidean_grad_eq RNum NumLit_RNum (set_nth x i t) y) by (rewrite set_nth_length; exact L). reflexivity.
Qed.

Corollary C14_src_manhattan_grad : forall x y i, (i < length x)%nat -> length x = length y ->
  nth i x 0 <> nth i y 0 ->
  is_derive (fun t => fst (src_manhattan_grad RNum (set_nth x i t) y)) (nth i x 0) (sign (nth i x 0 - nth i y 0)) /\
  nth i (snd (src_manhattan_grad RNum x y)) 0 = sign (nth i x 0 - nth i y 0).
Proof.
  intros x y i Hi L Hne.
  rewrite (src_manhattan_grad_eq RNum x y L).
  destruct (C14_manhattan_grad_derive x y i Hi (eq_ind _ (fun n => (i < n)%nat) Hi _ L) Hne) as [H1 H2].
  split; [|exact H2].
  apply (derive_transfer _ (fun t => manh (set_nth x i t) y)); [|exact H1].
  intros t. rewrite (src_manhattan_grad_eq RNum (set_nth x i t) y) by (rewrite set_nth_length; exact L). reflexivity.
Qed.

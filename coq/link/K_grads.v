(* Capstone corollaries for C14: the statement "the returned gradient is the derivative of the RETURNED distance" about the
   TRANSLATED SOURCE (regenerated from the current umap/distances.py on every run) of 16 of the registered *_grad functions:
   euclidean, manhattan, chebyshev, minkowski, weighted_minkowski, standardised_euclidean, mahalanobis, cosine, correlation,
   canberra, bray_curtis, hellinger, hyperboloid, haversine, spherical / diagonal Gaussian energy.  Each is the P_C14 theorem of
   the function (coq/prop/P_C14.v, about the model) carried over with the link theorem src_<f>_grad_eq of L_grads.v.
   Not here: symmetric_kl_grad (linked, but P_C14 REFUTES it: C14_symmetric_kl_grad_refuted) and gaussian_energy_grad (not linked,
   refuted: C14_gaussian_energy_grad_refuted). *)
From Coq Require Import List ZArith Reals Lra.
From Coquelicot Require Import Coquelicot.
From UV Require Import Num PyPrim M_grads T_grads T_grads2 T_grads3 P_C14.
From UVS Require Import Src_distances_grads L_grads.
Import ListNotations.
Local Open Scope R_scope.

Lemma derive_transfer (f g : R -> R) (x0 l : R) : (forall t, f t = g t) -> is_derive g x0 l -> is_derive f x0 l.
Proof. intros E H. apply (is_derive_ext g f); [intros t; symmetry; apply E | exact H]. Qed.

Corollary C14_src_euclidean_grad : forall x y i, (i < length x)%nat -> length x = length y ->
  let D := fst (src_euclidean_grad RNum x y) in
  0 < D ->
  is_derive (fun t => fst (src_euclidean_grad RNum (set_nth x i t) y)) (nth i x 0) ((nth i x 0 - nth i y 0) / D) /\
  nth i (snd (src_euclidean_grad RNum x y)) 0 = (nth i x 0 - nth i y 0) / D * (D / (D + Reps6)).
Proof.
  intros x y i Hi L D HD. subst D.
  rewrite (src_euclidean_grad_eq RNum NumLit_RNum x y L) in *.
  destruct (C14_euclidean_grad_derive x y i Hi (eq_ind _ (fun n => (i < n)%nat) Hi _ L) HD) as [H1 H2].
  split; [|exact H2].
  apply (derive_transfer _ (fun t => euclid (set_nth x i t) y)); [|exact H1].
  intros t. rewrite (src_euclidean_grad_eq RNum NumLit_RNum (set_nth x i t) y) by (rewrite set_nth_length; exact L). reflexivity.
Qed.

Corollary C14_src_manhattan_grad : forall x y i, (i < length x)%nat -> length x = length y ->
  nth i x 0 <> nth i y 0 ->
  is_derive (fun t => fst (src_manhattan_grad RNum (set_nth x i t) y)) (nth i x 0) (sign (nth i x 0 - nth i y 0)) /\
  nth i (snd (src_manhattan_grad RNum x y)) 0 = sign (nth i x 0 - nth i y 0).
Proof.
  intros x y i Hi L Hne.
  rewrite (src_manhattan_grad_eq RNum x y L).
  destruct (C14_manhattan_grad_derive x y i Hi (eq_ind _ (fun n => (i < n)%nat) Hi _ L) Hne) as [H1 H2].
  split; [|exact H2].
  apply (derive_transfer _ (fun t => manh (set_nth x i t) y)); [|exact H1].
  intros t. rewrite (src_manhattan_grad_eq RNum (set_nth x i t) y) by (rewrite set_nth_length; exact L). reflexivity.
Qed.

(* ---- the remaining linked gradient functions.  Shape of every corollary below: under the hypotheses of the P_C14 theorem
   (its [(i < length y)] is replaced by the link theorem's [length x = length y] where it is not there already, plus the link
   theorem's other shape hypotheses), the translated source returns (the distance the P_C14 theorem speaks about, its partial
   derivatives times the P_C14 regulariser factor):
     fst (src_f_grad x y) = dist x y,  is_derive (fun t => fst (src_f_grad (x with x_i := t) y)) x_i g,  (snd (src_f_grad x y))_i = g * factor. ---- *)
Lemma lt_len_eq (x y : list R) i : (i < length x)%nat -> length x = length y -> (i < length y)%nat.
Proof. intros H L. rewrite <- L. exact H. Qed.

(* [E]: src = model at (x, y); [Et]: the same at (x with x_i := t, y); [H]: the P_C14 conclusion *)
Ltac cap_finish E Et H dist :=
  cbv zeta in H; destruct H as [H1 H2]; rewrite E;
  split; [reflexivity|]; split; [|exact H2];
  apply (derive_transfer _ dist); [|exact H1];
  let t := fresh "t" in intros t; rewrite Et; reflexivity.

Corollary C14_src_chebyshev_grad : forall x y m i, (m < length x)%nat -> (i < length x)%nat -> length x = length y ->
  nth m x 0 <> nth m y 0 ->
  (forall j, (j < length x)%nat -> j <> m -> Rabs (nth j x 0 - nth j y 0) < Rabs (nth m x 0 - nth m y 0)) ->
  let g := if Nat.eqb i m then sign (nth m x 0 - nth m y 0) else 0 in
  fst (src_chebyshev_grad RNum x y) = cheb x y /\
  is_derive (fun t => fst (src_chebyshev_grad RNum (set_nth x i t) y)) (nth i x 0) g /\
  nth i (snd (src_chebyshev_grad RNum x y)) 0 = g.
Proof.
  intros x y m i Hm Hi L Hne Hmax g.
  pose proof (C14_chebyshev_grad_derive x y m i Hm Hi L Hne Hmax) as H.
  assert (Et : forall t, src_chebyshev_grad RNum (set_nth x i t) y = chebyshev_grad RNum (set_nth x i t) y)
    by (intros t; apply src_chebyshev_grad_eq; rewrite set_nth_length; exact L).
  cap_finish (src_chebyshev_grad_eq RNum x y L) Et H (fun t => cheb (set_nth x i t) y).
Qed.

Corollary C14_src_minkowski_grad : forall x y p i, (i < length x)%nat -> length x = length y ->
  0 < p -> nth i x 0 <> nth i y 0 ->
  let result := Ssum (Fpw p) x y in
  let g := Rpower (Rabs (nth i x 0 - nth i y 0)) (p - 1) * sign (nth i x 0 - nth i y 0) * Rpower result (1 / p - 1) in
  let Rp := Rpower result (1 - 1 / p) in
  fst (src_minkowski_grad RNum x y p) = mink x y p /\
  is_derive (fun t => fst (src_minkowski_grad RNum (set_nth x i t) y p)) (nth i x 0) g /\
  nth i (snd (src_minkowski_grad RNum x y p)) 0 = g * (Rp / (Rp + Reps6)).
Proof.
  intros x y p i Hi L Hp Hne result g Rp.
  pose proof (C14_minkowski_grad_derive x y p i Hi (lt_len_eq x y i Hi L) Hp Hne) as H.
  assert (Et : forall t, src_minkowski_grad RNum (set_nth x i t) y p = minkowski_grad RNum (set_nth x i t) y p)
    by (intros t; apply (src_minkowski_grad_eq RNum NumLit_RNum); rewrite set_nth_length; exact L).
  cap_finish (src_minkowski_grad_eq RNum NumLit_RNum x y p L) Et H (fun t => mink (set_nth x i t) y p).
Qed.

Corollary C14_src_weighted_minkowski_grad : forall x y w p i, (i < length x)%nat -> length x = length y ->
  length y = length w -> List.Forall (fun v => 0 <= v) w -> 0 < nth i w 0 ->
  0 < p -> nth i x 0 <> nth i y 0 ->
  let result := Ssum (Fpw_w p) x (combine y w) in
  let g := nth i w 0 * Rpower (Rabs (nth i x 0 - nth i y 0)) (p - 1) * sign (nth i x 0 - nth i y 0) * Rpower result (1 / p - 1) in
  let Rp := Rpower result (1 - 1 / p) in
  fst (src_weighted_minkowski_grad RNum x y w p) = wmink x y w p /\
  is_derive (fun t => fst (src_weighted_minkowski_grad RNum (set_nth x i t) y w p)) (nth i x 0) g /\
  nth i (snd (src_weighted_minkowski_grad RNum x y w p)) 0 = g * (Rp / (Rp + Reps6)).
Proof.
  intros x y w p i Hi L Lw Hw Hwi Hp Hne result g Rp.
  pose proof (C14_weighted_minkowski_grad_derive x y w p i Hi (lt_len_eq x y i Hi L) Lw Hw Hwi Hp Hne) as H.
  assert (L2 : length x = length w) by (rewrite L; exact Lw).
  assert (Et : forall t, src_weighted_minkowski_grad RNum (set_nth x i t) y w p = weighted_minkowski_grad RNum (set_nth x i t) y w p)
    by (intros t; apply (src_weighted_minkowski_grad_eq RNum NumLit_RNum); rewrite set_nth_length; assumption).
  cap_finish (src_weighted_minkowski_grad_eq RNum NumLit_RNum x y w p L L2) Et H (fun t => wmink (set_nth x i t) y w p).
Qed.

Corollary C14_src_standardised_euclidean_grad : forall x y sg i, (i < length x)%nat -> length x = length y ->
  length y = length sg -> 0 < nth i sg 0 -> 0 < seuclid x y sg ->
  let d := seuclid x y sg in
  fst (src_standardised_euclidean_grad RNum x y sg) = d /\
  is_derive (fun t => fst (src_standardised_euclidean_grad RNum (set_nth x i t) y sg)) (nth i x 0) ((nth i x 0 - nth i y 0) / (nth i sg 0 * d)) /\
  nth i (snd (src_standardised_euclidean_grad RNum x y sg)) 0 =
    (nth i x 0 - nth i y 0) / (nth i sg 0 * d) * (d * nth i sg 0 / (d * nth i sg 0 + Reps6)).
Proof.
  intros x y sg i Hi L Ls Hsi Hd d.
  pose proof (C14_standardised_euclidean_grad_derive x y sg i Hi (lt_len_eq x y i Hi L) Ls Hsi Hd) as H.
  assert (L2 : length x = length sg) by (rewrite L; exact Ls).
  assert (Et : forall t, src_standardised_euclidean_grad RNum (set_nth x i t) y sg = standardised_euclidean_grad RNum (set_nth x i t) y sg)
    by (intros t; apply (src_standardised_euclidean_grad_eq RNum NumLit_RNum); rewrite set_nth_length; assumption).
  cap_finish (src_standardised_euclidean_grad_eq RNum NumLit_RNum x y sg L L2) Et H (fun t => seuclid (set_nth x i t) y sg).
Qed.

Corollary C14_src_mahalanobis_grad : forall x y V i, (i < length x)%nat -> length x = length y ->
  sym_square V (length x) -> 0 < mahal x y V ->
  let d := mahal x y V in
  let gi := Ssum Fxy (nth i V []) (vdiff x y) in     (* (V (x - y))_i *)
  fst (src_mahalanobis_grad RNum x y V) = d /\
  is_derive (fun t => fst (src_mahalanobis_grad RNum (set_nth x i t) y V)) (nth i x 0) (gi / d) /\
  nth i (snd (src_mahalanobis_grad RNum x y V)) 0 = gi / d * (d / (d + Reps6)).
Proof.
  intros x y V i Hi L HV Hd d gi.
  pose proof (C14_mahalanobis_grad_derive x y V i Hi L HV Hd) as H.
  destruct HV as [LV [HR _]].
  assert (FV : List.Forall (fun row : list R => length row = length x) V).
  { apply Forall_forall. intros row Hin. destruct (In_nth V row [] Hin) as [j [Hj Hrow]]. rewrite <- Hrow. apply HR. rewrite <- LV. exact Hj. }
  assert (Et : forall t, src_mahalanobis_grad RNum (set_nth x i t) y V = mahalanobis_grad RNum (set_nth x i t) y V).
  { intros t. apply (src_mahalanobis_grad_eq RNum NumLit_RNum); rewrite ?set_nth_length; assumption. }
  cap_finish (src_mahalanobis_grad_eq RNum NumLit_RNum V x y L LV FV) Et H (fun t => mahal (set_nth x i t) y V).
Qed.

Corollary C14_src_cosine_grad : forall x y i, (i < length x)%nat -> length x = length y ->
  0 < Ssum Fxx x y -> 0 < Ssum Fyy x y ->
  let r := Ssum Fxy x y in let nx := Ssum Fxx x y in let ny := Ssum Fyy x y in
  let g := (nth i x 0 * r - nth i y 0 * nx) / sqrt (nx * nx * nx * ny) in
  fst (src_cosine_grad RNum x y) = cosd x y /\
  is_derive (fun t => fst (src_cosine_grad RNum (set_nth x i t) y)) (nth i x 0) g /\
  nth i (snd (src_cosine_grad RNum x y)) 0 = g.
Proof.
  intros x y i Hi L Hx Hy r nx ny g.
  pose proof (C14_cosine_grad_derive x y i Hi (lt_len_eq x y i Hi L) Hx Hy) as H.
  assert (Et : forall t, src_cosine_grad RNum (set_nth x i t) y = cosine_grad RNum (set_nth x i t) y)
    by (intros t; apply src_cosine_grad_eq; rewrite set_nth_length; exact L).
  cap_finish (src_cosine_grad_eq x y L) Et H (fun t => cosd (set_nth x i t) y).
Qed.

Corollary C14_src_correlation_grad : forall x y i, (i < length x)%nat -> length x = length y ->
  0 < c_nx x y -> 0 < c_ny x y -> c_dp x y <> 0 ->
  let g := ((nth i x 0 - c_mx x y) / c_nx x y - (nth i y 0 - c_my x y) / c_dp x y) * (1 - corr x y) in
  fst (src_correlation_grad RNum x y) = corr x y /\
  is_derive (fun t => fst (src_correlation_grad RNum (set_nth x i t) y)) (nth i x 0) g /\
  nth i (snd (src_correlation_grad RNum x y)) 0 = g.
Proof.
  intros x y i Hi L Hx Hy Hd g.
  pose proof (C14_correlation_grad_derive x y i Hi L Hx Hy Hd) as H.
  assert (Et : forall t, src_correlation_grad RNum (set_nth x i t) y = correlation_grad RNum (set_nth x i t) y)
    by (intros t; apply src_correlation_grad_eq; rewrite set_nth_length; exact L).
  cap_finish (src_correlation_grad_eq RNum x y L) Et H (fun t => corr (set_nth x i t) y).
Qed.

Corollary C14_src_canberra_grad : forall x y i, (i < length x)%nat -> length x = length y ->
  nth i x 0 <> nth i y 0 -> nth i x 0 <> 0 ->
  fst (src_canberra_grad RNum x y) = canb x y /\
  is_derive (fun t => fst (src_canberra_grad RNum (set_nth x i t) y)) (nth i x 0) (canberra_true (nth i x 0) (nth i y 0)) /\
  nth i (snd (src_canberra_grad RNum x y)) 0 = canberra_true (nth i x 0) (nth i y 0).
Proof.
  intros x y i Hi L Hne Hx0.
  pose proof (C14_canberra_grad_derive x y i Hi (lt_len_eq x y i Hi L) Hne Hx0) as H.
  assert (Et : forall t, src_canberra_grad RNum (set_nth x i t) y = canberra_grad RNum (set_nth x i t) y)
    by (intros t; apply src_canberra_grad_eq; rewrite set_nth_length; exact L).
  cap_finish (src_canberra_grad_eq x y L) Et H (fun t => canb (set_nth x i t) y).
Qed.

Corollary C14_src_bray_curtis_grad : forall x y i, (i < length x)%nat -> length x = length y ->
  nth i x 0 <> nth i y 0 -> nth i x 0 + nth i y 0 <> 0 ->
  let den := Ssum Fabsp x y in
  let g := (sign (nth i x 0 - nth i y 0) - bc x y * sign (nth i x 0 + nth i y 0)) / den in
  fst (src_bray_curtis_grad RNum x y) = bc x y /\
  is_derive (fun t => fst (src_bray_curtis_grad RNum (set_nth x i t) y)) (nth i x 0) g /\
  nth i (snd (src_bray_curtis_grad RNum x y)) 0 = g.
Proof.
  intros x y i Hi L Hne Hs den g.
  pose proof (C14_bray_curtis_grad_derive x y i Hi (lt_len_eq x y i Hi L) Hne Hs) as H.
  assert (Et : forall t, src_bray_curtis_grad RNum (set_nth x i t) y = bray_curtis_grad RNum (set_nth x i t) y)
    by (intros t; apply src_bray_curtis_grad_eq; rewrite set_nth_length; exact L).
  cap_finish (src_bray_curtis_grad_eq RNum x y L) Et H (fun t => bc (set_nth x i t) y).
Qed.

Corollary C14_src_hellinger_grad : forall x y i, (i < length x)%nat -> length x = length y ->
  0 < nth i x 0 -> 0 < nth i y 0 -> 0 < Ssum Fx x y -> 0 < Ssum Fy x y ->
  0 < 1 - Ssum Frt x y / sqrt (Ssum Fx x y * Ssum Fy x y) ->
  let r := Ssum Frt x y in let sx := Ssum Fx x y in let sy := Ssum Fy x y in
  let dd := sqrt (sx * sy) in
  let g := (sy * r / (2 * (dd * dd * dd)) - nth i y 0 / (2 * sqrt (nth i x 0 * nth i y 0) * dd)) / (2 * hell x y) in
  fst (src_hellinger_grad RNum x y) = hell x y /\
  is_derive (fun t => fst (src_hellinger_grad RNum (set_nth x i t) y)) (nth i x 0) g /\
  nth i (snd (src_hellinger_grad RNum x y)) 0 = g.
Proof.
  intros x y i Hi L Hxi Hyi Hsx Hsy Hpos r sx sy dd g.
  pose proof (C14_hellinger_grad_derive x y i Hi (lt_len_eq x y i Hi L) Hxi Hyi Hsx Hsy Hpos) as H.
  assert (Et : forall t, src_hellinger_grad RNum (set_nth x i t) y = hellinger_grad RNum (set_nth x i t) y)
    by (intros t; apply src_hellinger_grad_eq; rewrite set_nth_length; exact L).
  cap_finish (src_hellinger_grad_eq x y L) Et H (fun t => hell (set_nth x i t) y).
Qed.

(* hyperboloid_grad calls np.arccosh: the source gets it in the [PyExt] record ([GPy], [pacosh := arccosh RNum], the model's own);
   the other record fields are not used by this function, so the corollary holds for every choice of them *)
Corollary C14_src_hyperboloid_grad : forall nsin ncos nasin npi x y i, (i < length x)%nat -> length x = length y ->
  1 < hypB0 x y ->
  let E := GPy RNum nsin ncos nasin npi in
  let s := sqrt (1 + Ssum Fxx x y) in let t := sqrt (1 + Ssum Fyy x y) in let B := hypB0 x y in
  let g := (nth i x 0 * t / s - nth i y 0) / (sqrt (B - 1) * sqrt (B + 1)) in
  fst (src_hyperboloid_grad RNum E x y) = hyp x y /\
  is_derive (fun u => fst (src_hyperboloid_grad RNum E (set_nth x i u) y)) (nth i x 0) g /\
  nth i (snd (src_hyperboloid_grad RNum E x y)) 0 = g.
Proof.
  intros nsin ncos nasin npi x y i Hi L HB E s t B g. subst E.
  pose proof (C14_hyperboloid_grad_derive x y i Hi L HB) as H.
  assert (Et : forall u, src_hyperboloid_grad RNum (GPy RNum nsin ncos nasin npi) (set_nth x i u) y = hyperboloid_grad RNum (set_nth x i u) y)
    by (intros u; apply (src_hyperboloid_grad_eq RNum NumLit_RNum); rewrite set_nth_length; exact L).
  cap_finish (src_hyperboloid_grad_eq RNum NumLit_RNum nsin ncos nasin npi x y L) Et H (fun u => hyp (set_nth x i u) y).
Qed.

(* ---- fixed dimension.  The source gets numpy's sin / cos / arcsin / pi in the [PyExt] record; the P_C14 theorems speak about
   the real sin, cos, asin, PI, so the record is [GPy RNum sin cos asin PI] where these are used. ---- *)

(* haversine_grad raises ValueError unless len(x) = 2: the translated source returns an option ([Some] = no exception) *)
Definition oget_fst (r : option (R * list R)) : R := match r with Some p => fst p | None => 0 end.

Corollary C14_src_haversine_grad : forall x0 x1 y0 y1, 0 < hav_a x0 x1 y0 y1 < 1 ->
  let E := GPy RNum sin cos asin PI in
  let a := hav_a x0 x1 y0 y1 in
  let denom := sqrt (Rabs (a - 1)) * sqrt (Rabs a) in
  let sin_lat := sin (1 / 2 * (x0 - y0)) in let cos_lat := cos (1 / 2 * (x0 - y0)) in
  let sin_long := sin (1 / 2 * (x1 - y1)) in let cos_long := cos (1 / 2 * (x1 - y1)) in
  let g0 := (sin_lat * cos_lat - sin (x0 + PI / 2) * cos (y0 + PI / 2) * (sin_long * sin_long)) / denom in
  let g1 := (cos (x0 + PI / 2) * cos (y0 + PI / 2) * sin_long * cos_long) / denom in
  src_haversine_grad RNum E [x0; x1] [y0; y1] =
    Some (hav [x0; x1] [y0; y1], [g0 * (denom / (denom + Reps6)); g1 * (denom / (denom + Reps6))]) /\
  is_derive (fun t => oget_fst (src_haversine_grad RNum E [t; x1] [y0; y1])) x0 g0 /\
  is_derive (fun t => oget_fst (src_haversine_grad RNum E [x0; t] [y0; y1])) x1 g1.
Proof.
  intros x0 x1 y0 y1 Ha E a denom sin_lat cos_lat sin_long cos_long g0 g1. subst E.
  pose proof (C14_haversine_grad_derive x0 x1 y0 y1 Ha) as H. cbv zeta in H. destruct H as [H0 [H1 H2]].
  assert (Et : forall u v, src_haversine_grad RNum (GPy RNum sin cos asin PI) [u; v] [y0; y1] = Some (haversine_grad RNum sin cos asin PI [u; v] [y0; y1]))
    by (intros u v; rewrite (src_haversine_grad_eq RNum NumLit_RNum sin cos asin PI [u; v] [y0; y1] eq_refl); reflexivity).
  split; [|split].
  - rewrite Et. f_equal. apply injective_projections; [reflexivity | exact H2].
  - apply (derive_transfer _ (fun t => hav [t; x1] [y0; y1])); [|exact H0]. intros t. rewrite Et. reflexivity.
  - apply (derive_transfer _ (fun t => hav [x0; t] [y0; y1])); [|exact H1]. intros t. rewrite Et. reflexivity.
Qed.

Corollary C14_src_spherical_gaussian_energy_grad : forall nsin ncos nasin x0 x1 x2 y0 y1 y2, x2 <> 0 ->
  let E := GPy RNum nsin ncos nasin PI in
  let sigma := Rabs x2 + Rabs y2 in
  let m := (x0 - y0) * (x0 - y0) + (x1 - y1) * (x1 - y1) in
  let g0 := (x0 - y0) / sigma in let g1 := (x1 - y1) / sigma in
  let g2 := sign x2 * (1 / sigma - m / (2 * (sigma * sigma))) in
  fst (src_spherical_gaussian_energy_grad RNum E [x0; x1; x2] [y0; y1; y2]) = sge [x0; x1; x2] [y0; y1; y2] /\
  is_derive (fun t => fst (src_spherical_gaussian_energy_grad RNum E [t; x1; x2] [y0; y1; y2])) x0 g0 /\
  is_derive (fun t => fst (src_spherical_gaussian_energy_grad RNum E [x0; t; x2] [y0; y1; y2])) x1 g1 /\
  is_derive (fun t => fst (src_spherical_gaussian_energy_grad RNum E [x0; x1; t] [y0; y1; y2])) x2 g2 /\
  snd (src_spherical_gaussian_energy_grad RNum E [x0; x1; x2] [y0; y1; y2]) = [g0; g1; g2].
Proof.
  intros nsin ncos nasin x0 x1 x2 y0 y1 y2 Hx2 E sigma m g0 g1 g2. subst E.
  pose proof (C14_spherical_gaussian_energy_grad_derive x0 x1 x2 y0 y1 y2 Hx2) as H. cbv zeta in H. destruct H as [H0 [H1 [H2 H3]]].
  assert (Et : forall u v w, src_spherical_gaussian_energy_grad RNum (GPy RNum nsin ncos nasin PI) [u; v; w] [y0; y1; y2]
                             = spherical_gaussian_energy_grad RNum PI [u; v; w] [y0; y1; y2])
    by (intros u v w; apply (src_spherical_gaussian_energy_grad_eq RNum NumLit_RNum nsin ncos nasin PI u v w y0 y1 y2 [] [])).
  rewrite Et. split; [reflexivity|]. split; [|split; [|split; [|exact H3]]].
  - apply (derive_transfer _ (fun t => sge [t; x1; x2] [y0; y1; y2])); [|exact H0]. intros t. rewrite Et. reflexivity.
  - apply (derive_transfer _ (fun t => sge [x0; t; x2] [y0; y1; y2])); [|exact H1]. intros t. rewrite Et. reflexivity.
  - apply (derive_transfer _ (fun t => sge [x0; x1; t] [y0; y1; y2])); [|exact H2]. intros t. rewrite Et. reflexivity.
Qed.

(* diagonal_gaussian_energy_grad returns np.empty(6) with the entries 0..3 assigned: the link theorem (and so this corollary) speaks
   about the first four entries of the returned array; entries 4, 5 are uninitialised memory in the source *)
Corollary C14_src_diagonal_gaussian_energy_grad : forall nsin ncos nasin x0 x1 x2 x3 y0 y1 y2 y3, x2 <> 0 -> x3 <> 0 ->
  let E := GPy RNum nsin ncos nasin PI in
  let s1 := Rabs x2 + Rabs y2 in let s2 := Rabs x3 + Rabs y3 in
  let mu1 := x0 - y0 in let mu2 := x1 - y1 in
  let g0 := mu1 / s1 in let g1 := mu2 / s2 in
  let g2 := sign x2 * (s1 - mu1 * mu1) / (2 * (s1 * s1)) in
  let g3 := sign x3 * (s2 - mu2 * mu2) / (2 * (s2 * s2)) in
  fst (src_diagonal_gaussian_energy_grad RNum E [x0; x1; x2; x3] [y0; y1; y2; y3]) = dge [x0; x1; x2; x3] [y0; y1; y2; y3] /\
  is_derive (fun t => fst (src_diagonal_gaussian_energy_grad RNum E [t; x1; x2; x3] [y0; y1; y2; y3])) x0 g0 /\
  is_derive (fun t => fst (src_diagonal_gaussian_energy_grad RNum E [x0; t; x2; x3] [y0; y1; y2; y3])) x1 g1 /\
  is_derive (fun t => fst (src_diagonal_gaussian_energy_grad RNum E [x0; x1; t; x3] [y0; y1; y2; y3])) x2 g2 /\
  is_derive (fun t => fst (src_diagonal_gaussian_energy_grad RNum E [x0; x1; x2; t] [y0; y1; y2; y3])) x3 g3 /\
  firstn 4 (snd (src_diagonal_gaussian_energy_grad RNum E [x0; x1; x2; x3] [y0; y1; y2; y3])) = [g0; g1; g2; g3].
Proof.
  intros nsin ncos nasin x0 x1 x2 x3 y0 y1 y2 y3 Hx2 Hx3 E s1 s2 mu1 mu2 g0 g1 g2 g3. subst E.
  pose proof (C14_diagonal_gaussian_energy_grad_derive x0 x1 x2 x3 y0 y1 y2 y3 Hx2 Hx3) as H. cbv zeta in H.
  destruct H as [H0 [H1 [H2 [H3 H4]]]].
  pose proof (fun u v w z => src_diagonal_gaussian_energy_grad_eq RNum NumLit_RNum nsin ncos nasin PI u v w z y0 y1 y2 y3 [] []) as Ep.
  cbv zeta in Ep.
  assert (Et : forall u v w z, fst (src_diagonal_gaussian_energy_grad RNum (GPy RNum nsin ncos nasin PI) [u; v; w; z] [y0; y1; y2; y3])
                               = dge [u; v; w; z] [y0; y1; y2; y3])
    by (intros u v w z; exact (f_equal fst (Ep u v w z))).
  split; [apply Et|]. split; [|split; [|split; [|split]]].
  - apply (derive_transfer _ (fun t => dge [t; x1; x2; x3] [y0; y1; y2; y3])); [|exact H0]. intros t. apply Et.
  - apply (derive_transfer _ (fun t => dge [x0; t; x2; x3] [y0; y1; y2; y3])); [|exact H1]. intros t. apply Et.
  - apply (derive_transfer _ (fun t => dge [x0; x1; t; x3] [y0; y1; y2; y3])); [|exact H2]. intros t. apply Et.
  - apply (derive_transfer _ (fun t => dge [x0; x1; x2; t] [y0; y1; y2; y3])); [|exact H3]. intros t. apply Et.
  - etransitivity; [exact (f_equal snd (Ep x0 x1 x2 x3)) | exact H4].
Qed.

(* Evaluation leg of the translation tie (C07, generic-output-metric kernel): the Gallina text generated from the CURRENT
   umap/layouts.py:_optimize_layout_generic_single_epoch (both variants: [_shared] = tail_embedding is head_embedding,
   [_distinct] = two arrays that do not overlap; output_metric_kwds = ()) is itself run in binary64, with the function parameter
   [output_metric] instantiated by [om_eucl] (a transcription of distances.euclidean_grad: left-to-right sum of squares, sqrt,
   (x - y) / (1e-6 + d)), on the states on which the Python interpreter ran the kernel's source with
   distances.euclidean_grad.py_func on float64 copies, and compared with what that call left in the arrays.  This validates the
   translator's treatment of the function argument, the tuple results, the row views and the aliasing against the running code.
   Used by harness/c07.py through harness/vp/link.py; the case record is model/V_sgd.v's [epoch_case]. *)
From Coq Require Import List ZArith Bool PrimFloat.
From UV Require Import Num FloatFns FNum PyPrim M_sgd V_sgd.
From UVS Require Import Src_layouts_generic.
Import ListNotations.
Open Scope float_scope.

Definition om_eucl (N : Num) (x y : list N) : N * list N :=
  let r := fold_left (fun s p => add N s (mul N (sub N (fst p) (snd p)) (sub N (fst p) (snd p)))) (combine x y) (zero N) in
  let d := nsqrt N r in
  (d, map (fun p => div N (sub N (fst p) (snd p)) (add N (nlit N 1 (-6)) d)) (combine x y)).

Definition grng_rows (l : list rng3) : list (list Z) := map (fun st => let '(a, b, c) := st in [a; b; c]) l.
Definition grows_eqb (a b : list (list Z)) : bool :=
  Nat.eqb (length a) (length b) &&
  forallb (fun p => Nat.eqb (length (fst p)) (length (snd p)) && forallb (fun q => (fst q =? snd q)%Z) (combine (fst p) (snd p))) (combine a b).

(* (H, T, rng rows, next negative, next) after the translated kernel; T is [] in the shared case.  The generated definitions return
   (epoch_of_next_sample, epoch_of_next_negative_sample) followed by the final contents of the arrays the source stores into. *)
Definition run_src_gepoch (c : epoch_case) :=
  let hd_ := map (fun e => Z.of_nat (ef_head e)) (c_edges c) in
  let tl_ := map (fun e => Z.of_nat (ef_tail e)) (c_edges c) in
  let eps := map ef_eps (c_edges c) in
  let epns := map ef_epns (c_edges c) in
  let dim := zlen (hd [] (c_H c)) in
  let n := f_to_Z (c_n c) in
  if c_shared c then
    let '(nx0, nn0, nx, H, nn, r) := src__optimize_layout_generic_single_epoch_shared FNum (om_eucl FNum) eps (c_next c) hd_ tl_ (c_H c)
        dim (c_alpha c) (c_move c) n (c_nneg c) epns (grng_rows (c_rng c)) (c_nv c) (c_a c) (c_b c) (c_gamma c) in
    (H, @nil (list float), r, nn, nx, maxdiff nx0 nx, maxdiff nn0 nn)
  else
    let '(nx0, nn0, nx, H, T, nn, r) := src__optimize_layout_generic_single_epoch_distinct FNum (om_eucl FNum) eps (c_next c) hd_ tl_ (c_H c) (c_T c)
        dim (c_alpha c) (c_move c) n (c_nneg c) epns (grng_rows (c_rng c)) (c_nv c) (c_a c) (c_b c) (c_gamma c) in
    (H, T, r, nn, nx, maxdiff nx0 nx, maxdiff nn0 nn).

(* the hypotheses of the link theorems (L_sgdg.v: src_sgdg_shared_eq / src_sgdg_distinct_eq) on this case *)
Definition ghyp_ok (c : epoch_case) : bool :=
  let D := length (hd [] (c_H c)) in
  let nH := length (c_H c) in
  let nT := if c_shared c then nH else length (c_T c) in
  forallb (fun r => Nat.eqb (length r) D) (c_H c) && (c_shared c || forallb (fun r => Nat.eqb (length r) D) (c_T c)) &&
  Nat.eqb (length (c_rng c)) nH && (0 <? c_nv c)%Z && (c_nv c <=? Z.of_nat nT)%Z &&
  forallb (fun e => Nat.ltb (ef_head e) nH && Nat.ltb (ef_tail e) nT) (c_edges c).

(* (code, max position deviation * 1e12): code -1 = the translated source reproduces the interpreter's epoch; 6 = the case is outside
   the link theorems' hypotheses; 7 = the returned pair is not the final clock arrays *)
Definition verdict_src_gepoch (ptol ctol : float) (c : epoch_case) : Z * Z :=
  let '(H, T, r, nn, nx, e1, e2) := run_src_gepoch c in
  let dH := maxdiff2 H (o_H c) in
  let dT := if c_shared c then 0 else maxdiff2 T (o_T c) in
  let dev := f_to_Z (fmax dH dT * 1e12) in
  let code :=
    if negb (ghyp_ok c) then 6%Z else
    if negb (grows_eqb r (grng_rows (o_rng c))) then 1%Z else
    if negb (maxdiff nx (o_next c) <=? ctol) then 2%Z else
    if negb (maxdiff nn (o_nneg c) <=? ctol) then 3%Z else
    if negb (dH <=? ptol) then 4%Z else
    if negb (dT <=? ptol) then 5%Z else
    if negb ((e1 <=? 0) && (e2 <=? 0)) then 7%Z else (-1)%Z in
  (code, dev).

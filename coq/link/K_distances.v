(* Capstone corollaries for C12: the property theorems of prop/P_C12.v restated about the TRANSLATED SOURCE (src_<metric>, regenerated from the
   current umap/distances.py on every run), obtained from the link equalities of L_distances.v.  These are the statements "the code text of
   <metric> is symmetric, non-negative, zero on identical arguments, within its bounds, satisfies the triangle inequality" for all vectors. *)
From Coq Require Import List ZArith Bool Reals Lra Lia.
From UV Require Import Num PyPrim PyPrimLemmas M_metrics T_link T_metrics_bin T_metrics_real2 T_metrics P_C12.
From UVS Require Import Src_distances L_distances.
Import ListNotations.
Local Open Scope R_scope.

Corollary C12_src_euclidean : forall x y : list R, length x = length y ->
  src_euclidean RNum x y = src_euclidean RNum y x /\ 0 <= src_euclidean RNum x y /\ src_euclidean RNum x x = 0.
Proof.
  intros. rewrite (src_euclidean_eqR x y ltac:(assumption)), (src_euclidean_eqR y x ltac:(symmetry; assumption)), (src_euclidean_eqR x x eq_refl).
  apply C12_euclidean.
Qed.

Corollary C12_src_manhattan : forall x y : list R, length x = length y ->
  src_manhattan RNum x y = src_manhattan RNum y x /\ 0 <= src_manhattan RNum x y /\ src_manhattan RNum x x = 0.
Proof.
  intros. rewrite (src_manhattan_eqR x y ltac:(assumption)), (src_manhattan_eqR y x ltac:(symmetry; assumption)), (src_manhattan_eqR x x eq_refl).
  apply C12_manhattan.
Qed.

Corollary C12_src_canberra : forall x y : list R, length x = length y ->
  src_canberra RNum x y = src_canberra RNum y x /\ 0 <= src_canberra RNum x y /\ src_canberra RNum x x = 0.
Proof.
  intros. rewrite (src_canberra_eq x y ltac:(assumption)), (src_canberra_eq y x ltac:(symmetry; assumption)), (src_canberra_eq x x eq_refl).
  apply C12_canberra.
Qed.

Corollary C12_src_cosine : forall x y : list R, length x = length y ->
  src_cosine RNum x y = src_cosine RNum y x /\ 0 <= src_cosine RNum x y <= 2 /\ src_cosine RNum x x = 0.
Proof.
  intros. rewrite (src_cosine_eq RNum x y ltac:(assumption)), (src_cosine_eq RNum y x ltac:(symmetry; assumption)), (src_cosine_eq RNum x x eq_refl).
  apply C12_cosine; assumption.
Qed.

Corollary C12_src_correlation : forall x y : list R, length x = length y ->
  src_correlation RNum x y = src_correlation RNum y x /\ 0 <= src_correlation RNum x y <= 2 /\ src_correlation RNum x x = 0.
Proof.
  intros. rewrite (src_correlation_eq RNum x y ltac:(assumption)), (src_correlation_eq RNum y x ltac:(symmetry; assumption)), (src_correlation_eq RNum x x eq_refl).
  apply C12_correlation; assumption.
Qed.

Corollary C12_src_hamming : forall x y : list R, length x = length y ->
  src_hamming RNum x y = src_hamming RNum y x /\ 0 <= src_hamming RNum x y <= 1 /\ src_hamming RNum x x = 0.
Proof.
  intros. rewrite (src_hamming_eq x y ltac:(assumption)), (src_hamming_eq y x ltac:(symmetry; assumption)), (src_hamming_eq x x eq_refl).
  apply C12_hamming; assumption.
Qed.

Corollary C12_src_hellinger : forall x y : list R, length x = length y -> nonnegl x -> nonnegl y ->
  src_hellinger RNum x y = src_hellinger RNum y x /\ 0 <= src_hellinger RNum x y <= 1 /\ src_hellinger RNum x x = 0.
Proof.
  intros. rewrite (src_hellinger_eq RNum x y ltac:(assumption)), (src_hellinger_eq RNum y x ltac:(symmetry; assumption)), (src_hellinger_eq RNum x x eq_refl).
  apply C12_hellinger; assumption.
Qed.

Corollary C12_src_euclidean_triangle : forall x y z : list R, length x = length y -> length y = length z ->
  src_euclidean RNum x z <= src_euclidean RNum x y + src_euclidean RNum y z.
Proof.
  intros x y z L1 L2. rewrite (src_euclidean_eqR x z (eq_trans L1 L2)), (src_euclidean_eqR x y L1), (src_euclidean_eqR y z L2). apply C12_euclidean_triangle; assumption.
Qed.

Corollary C12_src_manhattan_triangle : forall x y z : list R, length x = length y -> length y = length z ->
  src_manhattan RNum x z <= src_manhattan RNum x y + src_manhattan RNum y z.
Proof.
  intros x y z L1 L2. rewrite (src_manhattan_eqR x z (eq_trans L1 L2)), (src_manhattan_eqR x y L1), (src_manhattan_eqR y z L2). apply C12_manhattan_triangle; assumption.
Qed.

Corollary C12_src_chebyshev_triangle : forall x y z : list R, length x = length y -> length y = length z ->
  src_chebyshev RNum x z <= src_chebyshev RNum x y + src_chebyshev RNum y z.
Proof.
  intros x y z L1 L2. rewrite (src_chebyshev_eq RNum x z (eq_trans L1 L2)), (src_chebyshev_eq RNum x y L1), (src_chebyshev_eq RNum y z L2). apply C12_chebyshev_triangle; assumption.
Qed.

Corollary C12_src_hamming_triangle : forall x y z : list R, length x = length y -> length y = length z ->
  src_hamming RNum x z <= src_hamming RNum x y + src_hamming RNum y z.
Proof.
  intros x y z L1 L2. rewrite (src_hamming_eq x z (eq_trans L1 L2)), (src_hamming_eq x y L1), (src_hamming_eq y z L2). apply C12_hamming_triangle; assumption.
Qed.

Corollary C12_src_chebyshev : forall x y : list R, length x = length y ->
  src_chebyshev RNum x y = src_chebyshev RNum y x /\ 0 <= src_chebyshev RNum x y /\ src_chebyshev RNum x x = 0 /\
  Forall (fun t => t <= src_chebyshev RNum x y) (zipw (fun a b => Rabs (a - b)) x y).
Proof.
  intros x y L. rewrite (src_chebyshev_eq RNum x y L), (src_chebyshev_eq RNum y x (eq_sym L)), (src_chebyshev_eq RNum x x eq_refl). apply C12_chebyshev.
Qed.

Corollary C12_src_minkowski : forall (p : R) (x y : list R), length x = length y -> p <> 0 ->
  src_minkowski RNum x y p = src_minkowski RNum y x p /\ 0 <= src_minkowski RNum x y p /\ src_minkowski RNum x x p = 0.
Proof.
  intros p x y L Hp. rewrite (src_minkowski_eqR p x y L), (src_minkowski_eqR p y x (eq_sym L)), (src_minkowski_eqR p x x eq_refl). apply C12_minkowski; assumption.
Qed.

Corollary C12_src_mahalanobis : forall (VI : list (list R)) (x y : list R),
  length x = length y -> length VI = length x -> Forall (fun row => length row = length x) VI ->
  src_mahalanobis RNum x y VI = src_mahalanobis RNum y x VI /\ 0 <= src_mahalanobis RNum x y VI /\ src_mahalanobis RNum x x VI = 0.
Proof.
  intros VI x y L LV LR.
  assert (LV' : length VI = length y) by (rewrite <- L; exact LV).
  assert (LR' : Forall (fun row => length row = length y) VI) by (rewrite <- L; exact LR).
  rewrite (src_mahalanobis_eq RNum VI x y L LV LR), (src_mahalanobis_eq RNum VI x x eq_refl LV LR),
          (src_mahalanobis_eq RNum VI y x (eq_sym L) LV' LR').
  apply C12_mahalanobis.
Qed.

Corollary C12_src_braycurtis : forall x y : list R, length x = length y ->
  src_bray_curtis RNum x y = src_bray_curtis RNum y x /\ 0 <= src_bray_curtis RNum x y /\ src_bray_curtis RNum x x = 0 /\
  (nonnegl x -> nonnegl y -> src_bray_curtis RNum x y <= 1).
Proof.
  intros x y L. rewrite (src_bray_curtis_eq RNum x y L), (src_bray_curtis_eq RNum y x (eq_sym L)), (src_bray_curtis_eq RNum x x eq_refl). apply C12_braycurtis.
Qed.

Corollary C12_src_jaccard : forall x y : list R, length x = length y -> x <> [] ->
  src_jaccard RNum x y = src_jaccard RNum y x /\ 0 <= src_jaccard RNum x y <= 1 /\ src_jaccard RNum x x = 0.
Proof.
  intros x y L Hx. rewrite (src_jaccard_eq x y L), (src_jaccard_eq y x (eq_sym L)), (src_jaccard_eq x x eq_refl).
  destruct (C12_jaccard x y L Hx) as (H1 & H2 & H3 & _). repeat split; try apply H1; try apply H2; try apply H3.
Qed.

Corollary C12_src_matching : forall x y : list R, length x = length y -> x <> [] ->
  src_matching RNum x y = src_matching RNum y x /\ 0 <= src_matching RNum x y <= 1 /\ src_matching RNum x x = 0.
Proof.
  intros x y L Hx. rewrite (src_matching_eq x y L), (src_matching_eq y x (eq_sym L)), (src_matching_eq x x eq_refl).
  destruct (C12_matching x y L Hx) as (H1 & H2 & H3 & _). repeat split; try apply H1; try apply H2; try apply H3.
Qed.

Corollary C12_src_dice : forall x y : list R, length x = length y -> x <> [] ->
  src_dice RNum x y = src_dice RNum y x /\ 0 <= src_dice RNum x y <= 1 /\ src_dice RNum x x = 0.
Proof.
  intros x y L Hx. rewrite (src_dice_eq x y L), (src_dice_eq y x (eq_sym L)), (src_dice_eq x x eq_refl).
  destruct (C12_dice x y L Hx) as (H1 & H2 & H3 & _). repeat split; try apply H1; try apply H2; try apply H3.
Qed.

Corollary C12_src_kulsinski : forall x y : list R, length x = length y -> x <> [] ->
  src_kulsinski RNum x y = src_kulsinski RNum y x /\ 0 <= src_kulsinski RNum x y <= 1 /\ src_kulsinski RNum x x = 0.
Proof.
  intros x y L Hx. rewrite (src_kulsinski_eq x y L), (src_kulsinski_eq y x (eq_sym L)), (src_kulsinski_eq x x eq_refl).
  destruct (C12_kulsinski x y L Hx) as (H1 & H2 & H3 & _). repeat split; try apply H1; try apply H2; try apply H3.
Qed.

Corollary C12_src_rogerstanimoto : forall x y : list R, length x = length y -> x <> [] ->
  src_rogers_tanimoto RNum x y = src_rogers_tanimoto RNum y x /\ 0 <= src_rogers_tanimoto RNum x y <= 1 /\ src_rogers_tanimoto RNum x x = 0.
Proof.
  intros x y L Hx. rewrite (src_rogers_tanimoto_eq x y L), (src_rogers_tanimoto_eq y x (eq_sym L)), (src_rogers_tanimoto_eq x x eq_refl).
  destruct (C12_rogerstanimoto x y L Hx) as (H1 & H2 & H3 & _). repeat split; try apply H1; try apply H2; try apply H3.
Qed.

Corollary C12_src_russellrao : forall x y : list R, length x = length y -> x <> [] ->
  src_russellrao RNum x y = src_russellrao RNum y x /\ 0 <= src_russellrao RNum x y <= 1 /\ src_russellrao RNum x x = 0.
Proof.
  intros x y L Hx. rewrite (src_russellrao_eq x y L), (src_russellrao_eq y x (eq_sym L)), (src_russellrao_eq x x eq_refl).
  destruct (C12_russellrao x y L Hx) as (H1 & H2 & H3 & _). repeat split; try apply H1; try apply H2; try apply H3.
Qed.

Corollary C12_src_sokalmichener : forall x y : list R, length x = length y -> x <> [] ->
  src_sokal_michener RNum x y = src_sokal_michener RNum y x /\ 0 <= src_sokal_michener RNum x y <= 1 /\ src_sokal_michener RNum x x = 0.
Proof.
  intros x y L Hx. rewrite (src_sokal_michener_eq x y L), (src_sokal_michener_eq y x (eq_sym L)), (src_sokal_michener_eq x x eq_refl).
  destruct (C12_sokalmichener x y L Hx) as (H1 & H2 & H3 & _). repeat split; try apply H1; try apply H2; try apply H3.
Qed.

Corollary C12_src_sokalsneath : forall x y : list R, length x = length y -> x <> [] ->
  src_sokal_sneath RNum x y = src_sokal_sneath RNum y x /\ 0 <= src_sokal_sneath RNum x y <= 1 /\ src_sokal_sneath RNum x x = 0.
Proof.
  intros x y L Hx. rewrite (src_sokal_sneath_eq x y L), (src_sokal_sneath_eq y x (eq_sym L)), (src_sokal_sneath_eq x x eq_refl).
  destruct (C12_sokalsneath x y L Hx) as (H1 & H2 & H3 & _). repeat split; try apply H1; try apply H2; try apply H3.
Qed.

Corollary C12_src_yule : forall x y : list R, length x = length y -> x <> [] ->
  src_yule RNum x y = src_yule RNum y x /\ 0 <= src_yule RNum x y <= 2 /\ src_yule RNum x x = 0.
Proof.
  intros x y L Hx. rewrite (src_yule_eq x y L), (src_yule_eq y x (eq_sym L)), (src_yule_eq x x eq_refl).
  destruct (C12_yule x y L Hx) as (H1 & H2 & H3 & _). repeat split; try apply H1; try apply H2; try apply H3.
Qed.

(* symmetric_kl (for the smoothing constant z of the call; the registry passes the default src_default_symmetric_kl_z) and
   ll_dirichlet (symmetry only, as in P_C12: [C12_ll_dirichlet_partial]) about the translated source *)
Corollary C12_src_symmetric_kl : forall (z : R) (x y : list R), length x = length y -> 0 < z -> nonnegl x -> nonnegl y ->
  src_symmetric_kl RNum x y z = src_symmetric_kl RNum y x z /\ 0 <= src_symmetric_kl RNum x y z /\ src_symmetric_kl RNum x x z = 0.
Proof.
  intros. rewrite (src_symmetric_kl_eqR x y z ltac:(assumption)), (src_symmetric_kl_eqR y x z ltac:(symmetry; assumption)), (src_symmetric_kl_eqR x x z eq_refl).
  apply C12_symmetric_kl; assumption.
Qed.
Corollary C12_src_symmetric_kl_default_z : 0 < src_default_symmetric_kl_z RNum.
Proof. unfold src_default_symmetric_kl_z, nlit. cbn. lra. Qed.

Corollary C12_src_ll_dirichlet_partial : forall x y : list R, length x = length y ->
  src_ll_dirichlet RNum (RPy RExt) x y = src_ll_dirichlet RNum (RPy RExt) y x.
Proof.
  intros. rewrite (src_ll_dirichlet_eq RExt (fun a => eq_refl) x y ltac:(assumption)), (src_ll_dirichlet_eq RExt (fun a => eq_refl) y x ltac:(symmetry; assumption)).
  apply C12_ll_dirichlet_partial.
Qed.

(* triangle inequalities inside the binary family, about the translated source (T_metrics_tri.v) *)
Corollary C12_src_matching_triangle : forall x y z : list R, length x = length y -> length y = length z ->
  src_matching RNum x z <= src_matching RNum x y + src_matching RNum y z.
Proof.
  intros x y z L1 L2. rewrite (src_matching_eq x z (eq_trans L1 L2)), (src_matching_eq x y L1), (src_matching_eq y z L2).
  apply C12_matching_triangle; assumption.
Qed.

Corollary C12_src_rogers_tanimoto_triangle : forall x y z : list R, length x = length y -> length y = length z -> x <> [] ->
  src_rogers_tanimoto RNum x z <= src_rogers_tanimoto RNum x y + src_rogers_tanimoto RNum y z.
Proof.
  intros x y z L1 L2 Hx. rewrite (src_rogers_tanimoto_eq x z (eq_trans L1 L2)), (src_rogers_tanimoto_eq x y L1), (src_rogers_tanimoto_eq y z L2).
  apply C12_rogerstanimoto_triangle; assumption.
Qed.

Corollary C12_src_sokal_michener_triangle : forall x y z : list R, length x = length y -> length y = length z -> x <> [] ->
  src_sokal_michener RNum x z <= src_sokal_michener RNum x y + src_sokal_michener RNum y z.
Proof.
  intros x y z L1 L2 Hx. rewrite (src_sokal_michener_eq x z (eq_trans L1 L2)), (src_sokal_michener_eq x y L1), (src_sokal_michener_eq y z L2).
  apply C12_sokalmichener_triangle; assumption.
Qed.

(* the translated minkowski at p = 1 / p = 2 IS the translated manhattan / euclidean, and inherits their triangle inequalities *)
Corollary C12_src_minkowski_p1 : forall x y : list R, length x = length y ->
  src_minkowski RNum x y 1 = src_manhattan RNum x y.
Proof. intros x y L. rewrite (src_minkowski_eqR 1 x y L), (src_manhattan_eqR x y L). apply C12_minkowski_p1. Qed.

Corollary C12_src_minkowski_p2 : forall x y : list R, length x = length y ->
  src_minkowski RNum x y 2 = src_euclidean RNum x y.
Proof. intros x y L. rewrite (src_minkowski_eqR 2 x y L), (src_euclidean_eqR x y L). apply C12_minkowski_p2. Qed.

Corollary C12_src_minkowski_p12_triangle : forall x y z : list R, length x = length y -> length y = length z ->
  src_minkowski RNum x z 1 <= src_minkowski RNum x y 1 + src_minkowski RNum y z 1 /\
  src_minkowski RNum x z 2 <= src_minkowski RNum x y 2 + src_minkowski RNum y z 2.
Proof.
  intros x y z L1 L2. pose proof (eq_trans L1 L2) as L3.
  rewrite !C12_src_minkowski_p1, !C12_src_minkowski_p2 by assumption.
  split; [apply C12_src_manhattan_triangle | apply C12_src_euclidean_triangle]; assumption.
Qed.

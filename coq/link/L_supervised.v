(* Link theorem for fast_intersection (umap_.py, C16): the translated source applied to the COO arrays of a sparse
   matrix rescales every stored value exactly as the model's [attenuate] (model/M_supervised.v) prescribes, for every
   matrix, label array and pair of distances; positions, order and length of the value array are unchanged. *)
From Coq Require Import List ZArith Bool Lia.
From UV Require Import Num PyPrim PyPrimLemmas M_metrics T_link M_supervised.
From UVS Require Import Src_umap_sup.
Import ListNotations.

Section Generic.
Context (N : Num).

Definition lab_of (target : list Z) (i : nat) : Z := inth target (Z.of_nat i).
Definition entries (rs cs : list nat) (vs : list N) : smat N :=
  map (fun abc => (fst (fst abc), snd (fst abc), snd abc)) (combine (combine rs cs) vs).

Theorem src_fast_intersection_eq (rs cs : list nat) (vs : list N) (target : list Z) (unk far : N) :
  length rs = length vs -> length cs = length vs ->
  src_fast_intersection N (map Z.of_nat rs) (map Z.of_nat cs) vs target unk far
  = map (fun e => evl N (attenuate N far unk (lab_of target) e)) (entries rs cs vs).
Proof.
  intros L1 L2. unfold src_fast_intersection. cbv zeta.
  unfold zlen. rewrite map_length.
  rewrite (for_range_update N
     (fun k a => let i := nth k rs 0%nat in let j := nth k cs 0%nat in
                 if orb (Z.eqb (lab_of target i) (-1)) (Z.eqb (lab_of target j) (-1)) then mul N a (nexp N (neg N unk))
                 else if negb (Z.eqb (lab_of target i) (lab_of target j)) then mul N a (nexp N (neg N far)) else a)
     (length rs) vs); [|lia|].
  - unfold entries. rewrite map_map.
    etransitivity; [apply (mapi_from_combine2 0%nat 0%nat
             (fun (i j : nat) (a : N) =>
                if orb (Z.eqb (lab_of target i) (-1)) (Z.eqb (lab_of target j) (-1)) then mul N a (nexp N (neg N unk))
                else if negb (Z.eqb (lab_of target i) (lab_of target j)) then mul N a (nexp N (neg N far)) else a)
             vs rs cs 0 _ L1 L2); intros i c Hi; cbn [Nat.add]; cbv zeta; reflexivity|].
    apply map_ext. intros [[i j] a]. unfold attenuate, attenuate_f, evl, erow, ecol, unknown. cbn [fst snd].
    destruct (orb _ _); [reflexivity|]. destruct (negb _); reflexivity.
  - intros k vals. cbv zeta. rewrite !inth_of_nat.
    change 0%Z with (Z.of_nat 0). rewrite !map_nth. unfold lab_of.
    destruct (orb _ _); [reflexivity|]. destruct (negb _); [reflexivity|]. symmetry. apply vset_same.
Qed.
End Generic.

(* Link theorem for fast_intersection (umap_.py, C16): the translated source applied to the COO arrays of a sparse
   matrix rescales every stored value exactly as the model's [attenuate] (model/M_supervised.v) prescribes, for every
   matrix, label array and pair of distances; positions, order and length of the value array are unchanged. *)
From Coq Require Import List ZArith Bool Lia.
From UV Require Import Num PyPrim PyPrimLemmas M_metrics T_link M_supervised.
From UVS Require Import Src_umap_sup.
Import ListNotations.

Section Generic.
Context (N : Num).

Definition lab_of (target : list Z) (i : nat) : Z := inth target (Z.of_nat i).
Definition entries (rs cs : list nat) (vs : list N) : smat N :=
  map (fun abc => (fst (fst abc), snd (fst abc), snd abc)) (combine (combine rs cs) vs).

Theorem src_fast_intersection_eq (rs cs : list nat) (vs : list N) (target : list Z) (unk far : N) :
  length rs = length vs -> length cs = length vs ->
  src_fast_intersection N (map Z.of_nat rs) (map Z.of_nat cs) vs target unk far
  = map (fun e => evl N (attenuate N far unk (lab_of target) e)) (entries rs cs vs).
Proof.
  intros L1 L2. unfold src_fast_intersection. cbv zeta.
  unfold zlen. rewrite map_length.
  rewrite (for_range_update N
     (fun k a => let i := nth k rs 0%nat in let j := nth k cs 0%nat in
                 if orb (Z.eqb (lab_of target i) (-1)) (Z.eqb (lab_of target j) (-1)) then mul N a (nexp N (neg N unk))
                 else if negb (Z.eqb (lab_of target i) (lab_of target j)) then mul N a (nexp N (neg N far)) else a)
     (length rs) vs); [|lia|].
  - unfold entries. rewrite map_map.
    etransitivity; [apply (mapi_from_combine2 0%nat 0%nat
             (fun (i j : nat) (a : N) =>
                if orb (Z.eqb (lab_of target i) (-1)) (Z.eqb (lab_of target j) (-1)) then mul N a (nexp N (neg N unk))
                else if negb (Z.eqb (lab_of target i) (lab_of target j)) then mul N a (nexp N (neg N far)) else a)
             vs rs cs 0 _ L1 L2); intros i c Hi; cbn [Nat.add]; cbv zeta; reflexivity|].
    apply map_ext. intros [[i j] a]. unfold attenuate, attenuate_f, evl, erow, ecol, unknown. cbn [fst snd].
    destruct (orb _ _); [reflexivity|]. destruct (negb _); reflexivity.
  - intros k vals. cbv zeta. rewrite !inth_of_nat.
    change 0%Z with (Z.of_nat 0). rewrite !map_nth. unfold lab_of.
    destruct (orb _ _); [reflexivity|]. destruct (negb _); [reflexivity|]. symmetry. apply vset_same.
Qed.

(* fast_metric_intersection (umap_.py, C16), translated for metric_args = () with the function argument `metric` as an opaque pure
   function of two label rows: every stored value is multiplied by exp(-(scale * metric(space[i], space[j]))) where (i, j) is its
   position; positions, order and length of the value array are unchanged.  Over every Num, for every metric function. *)
Definition metric_attenuate (metric : list N -> list N -> N) (space : list (list N)) (scale : N) (i j : nat) (a : N) : N :=
  mul N a (nexp N (neg N (mul N scale (metric (nth i space []) (nth j space []))))).

Theorem src_fast_metric_intersection_eq (metric : list N -> list N -> N) (rs cs : list nat) (vs : list N) (space : list (list N)) (scale : N) :
  length rs = length vs -> length cs = length vs ->
  src_fast_metric_intersection N metric (map Z.of_nat rs) (map Z.of_nat cs) vs space scale
  = map (fun e => metric_attenuate metric space scale (fst (fst e)) (snd (fst e)) (snd e)) (combine (combine rs cs) vs).
Proof.
  intros L1 L2. unfold src_fast_metric_intersection. cbv zeta. unfold zlen. rewrite map_length.
  rewrite (for_range_update N (fun k a => metric_attenuate metric space scale (nth k rs 0%nat) (nth k cs 0%nat) a) (length rs) vs); [|lia|].
  - apply (mapi_from_combine2 0%nat 0%nat (fun (i j : nat) (a : N) => metric_attenuate metric space scale i j a) vs rs cs 0 _ L1 L2).
    intros i c Hi. reflexivity.
  - intros k vals. rewrite !inth_of_nat. change 0%Z with (Z.of_nat 0). rewrite !map_nth. unfold mrow. rewrite !znth_of_nat. reflexivity.
Qed.
End Generic.

(* make_epochs_per_sample (umap_.py, C07): one entry per weight, n_epochs / (n_epochs * (w / w_max)) where that is positive,
   -1 elsewhere: the model's [epochs_per_sample] applied to every weight with the array's own maximum. *)
From Coq Require Import Reals Lra.
From UV Require Import M_sgd.
Section Epochs.
Local Open Scope R_scope.
Ltac rn := change (T RNum) with R in *.

Lemma vselect_map (P : R -> bool) (G K : R -> R) (u : R) (l : list R) :
  vselect RNum (map P l) (map G l) (map K (repeat u (length l))) = map (fun w => if P w then G w else K u) l.
Proof. induction l as [|w l IH]; [reflexivity|]. cbn [map length repeat vselect]. f_equal. exact IH. Qed.

Theorem src_make_epochs_per_sample_eq (weights : list R) (n : Z) :
  src_make_epochs_per_sample RNum weights n
  = map (epochs_per_sample RNum (IZR n) (vmax_py RNum weights)) weights.
Proof.
  unfold src_make_epochs_per_sample. cbv zeta. unfold zlen. rewrite Nat2Z.id.
  unfold vmaps_l, vmaps_r. rewrite !map_map. rewrite vselect_map.
  apply map_ext. intros w. unfold epochs_per_sample, ngt. cbv zeta. cbn [ltb mul div of_Z zero one neg RNum]. rn.
  destruct (Rltb 0 (IZR n * (w / vmax_py RNum weights))); [reflexivity|lra].
Qed.
End Epochs.

(* Link theorems for the densMAP branch of the serial Euclidean SGD epoch kernel of umap/layouts.py (C17):
   _optimize_layout_euclidean_single_epoch translated for densmap_flag=True (`fixed`), tail_embedding IS head_embedding (`alias`):
     src__optimize_layout_euclidean_single_epoch_dens_shared = M_dens.epoch_dens true cx ..   (src_sgd_dens_shared_eq)
   and, with dens_lambda = 0, = the densmap_flag=False translation of the same source (src_sgd_dens_lambda0).

   Only the attractive d-loop differs from the densmap_flag=False kernel linked in L_sgd.v (grad_d gets the second clipped term
   2 * grad_cor_coeff * (current[d] - other[d])): the d-loop lemmas of L_sgd.v are re-proved here for an ARBITRARY per-coordinate
   gradient G (section AttractG, the same invariant); the negative-sample loop, the clocks, the well-formedness invariant and the
   outer induction are those of L_sgd.v (imported).  Over R: rdist / clip / literals as in L_sgd.v.
   SEQUENTIAL meaning of the prange loop over the edges (parallel=False), as in L_sgd.v.
   The `_dens_distinct` translation (two arrays) is generated but has no link theorem (per-run correspondence only). *)
From Coq Require Import List ZArith Bool Reals Lra Lia.
From UV Require Import Num PyPrim PyPrimLemmas T_link T_link_mat M_sgd M_dens.
From UVS Require Import Src_layouts L_layouts L_sgd.
Import ListNotations.

(* ---- the attractive d-loop for an arbitrary per-coordinate gradient G(current[d], other[d]) ----------------------------------- *)
Definition attr_dloop_g_s (N : Num) (G : N -> N -> N) (alpha : N) (mo : bool) (cur oth dim : Z) (H : list (list N)) : list (list N) :=
  for_range 0%Z dim (fun d H =>
    let grad_d := G (mnth N H cur d) (mnth N H oth d) in
    let H := mset N H cur d (add N (mnth N H cur d) (mul N grad_d alpha)) in
    let H := (if mo then let H := mset N H oth d (add N (mnth N H oth d) (mul N (neg N grad_d) alpha)) in H else H) in
    H) H.

Definition attract_g (N : Num) (G : N -> N -> N) (alpha : N) (move_other : bool) (e : emb N) (j k : nat) : emb N :=
  let cur := nth j (eH N e) [] in
  let oth := get_tail N e k in
  let g := map2 N G cur oth in
  let e1 := set_head N e j (map2 N (fun c gd => add N c (mul N gd alpha)) cur g) in
  if move_other then set_tail N e1 k (map2 N (fun o gd => add N o (mul N (neg N gd) alpha)) (get_tail N e1 k) g) else e1.

Section AttractG.
Context (N : Num) (G : N -> N -> N).
Context (alpha : N) (mo : bool) (D : nat).

Ltac nat_level := rewrite ?mnth_nat, ?mset_nat.

(* tail_embedding is head_embedding, j <> k *)
Lemma attr_dloop_g_s_ne (H0 T0 : list (list N)) (j k : nat) :
  j < length H0 -> k < length H0 -> j <> k -> length (nth j H0 []) = D -> length (nth k H0 []) = D ->
  attr_dloop_g_s N G alpha mo (Z.of_nat j) (Z.of_nat k) (Z.of_nat D) H0 = eH N (attract_g N G alpha mo (mkEmb N H0 T0 true) j k).
Proof.
  intros Hj Hk Hne Lj Lk.
  set (cur := nth j H0 []). set (oth := nth k H0 []).
  set (g := map2 N G cur oth).
  set (newj := map2 N (fun c gd => add N c (mul N gd alpha)) cur g).
  set (newk := if mo then map2 N (fun o gd => add N o (mul N (neg N gd) alpha)) oth g else oth).
  assert (Lg : length g = D) by (unfold g; rewrite map2_length; unfold cur, oth; lia).
  assert (Lnj : length newj = length cur) by (unfold newj; rewrite map2_length; unfold cur; lia).
  assert (Lnk : length newk = length oth).
  { unfold newk. destruct mo; [|reflexivity]. rewrite map2_length; unfold oth; lia. }
  assert (Inv : attr_dloop_g_s N G alpha mo (Z.of_nat j) (Z.of_nat k) (Z.of_nat D) H0 =
                set_nth_nat (set_nth_nat H0 j (mix D newj cur)) k (mix D newk oth)).
  { unfold attr_dloop_g_s.
    apply (for_range_ind (fun c Hc => Hc = set_nth_nat (set_nth_nat H0 j (mix c newj cur)) k (mix c newk oth))).
    - rewrite !mix_0. unfold cur, oth.
      rewrite (set_nth_nat_id []), (set_nth_nat_id []). reflexivity.
    - intros c Hc Hlt ->. cbv zeta. nat_level.
      set (Rj := mix c newj cur). set (Rk := mix c newk oth).
      assert (Ej : nth j (set_nth_nat (set_nth_nat H0 j Rj) k Rk) [] = Rj).
      { rewrite nth_set_nth_nat_other by lia. apply nth_set_nth_nat_same. lia. }
      assert (Ek : nth k (set_nth_nat (set_nth_nat H0 j Rj) k Rk) [] = Rk).
      { apply nth_set_nth_nat_same. rewrite set_nth_nat_length. lia. }
      rewrite !Ej, !Ek.
      assert (Ecj : nth c Rj (zero N) = nth c cur (zero N)) by apply mix_nth.
      assert (Eck : nth c Rk (zero N) = nth c oth (zero N)) by apply mix_nth.
      rewrite Ecj, Eck.
      assert (Egc : G (nth c cur (zero N)) (nth c oth (zero N)) = nth c g (zero N)).
      { unfold g. rewrite nth_map2; [reflexivity| |]; unfold cur, oth; lia. }
      rewrite Egc.
      assert (Enj : add N (nth c cur (zero N)) (mul N (nth c g (zero N)) alpha) = nth c newj (zero N)).
      { unfold newj. rewrite nth_map2; [reflexivity| |]; unfold cur; lia. }
      rewrite Enj.
      assert (S1 : set_nth_nat Rj c (nth c newj (zero N)) = mix (Datatypes.S c) newj cur).
      { apply mix_set; [exact Lnj|unfold cur; lia]. }
      rewrite S1.
      assert (H1 : set_nth_nat (set_nth_nat (set_nth_nat H0 j Rj) k Rk) j (mix (Datatypes.S c) newj cur) =
                   set_nth_nat (set_nth_nat H0 j (mix (Datatypes.S c) newj cur)) k Rk).
      { rewrite (set_nth_nat_comm _ k j) by lia. rewrite set_nth_nat_twice. reflexivity. }
      rewrite H1.
      unfold newk in *. destruct mo.
      + nat_level.
        assert (Ek' : nth k (set_nth_nat (set_nth_nat H0 j (mix (Datatypes.S c) newj cur)) k Rk) [] = Rk).
        { apply nth_set_nth_nat_same. rewrite set_nth_nat_length. lia. }
        rewrite !Ek', Eck.
        assert (Enk : add N (nth c oth (zero N)) (mul N (neg N (nth c g (zero N))) alpha) =
                      nth c (map2 N (fun o gd => add N o (mul N (neg N gd) alpha)) oth g) (zero N)).
        { rewrite nth_map2; [reflexivity| |]; unfold oth; lia. }
        rewrite Enk. unfold Rk. rewrite mix_set by (try exact Lnk; unfold oth; lia).
        rewrite set_nth_nat_twice. reflexivity.
      + unfold Rk. rewrite !mix_same. reflexivity. }
  rewrite Inv.
  replace D with (length cur) at 1 by (unfold cur; lia). rewrite (mix_full newj cur Lnj).
  replace D with (length oth) by (unfold oth; lia). rewrite (mix_full newk oth Lnk).
  unfold attract_g, newk. cbv zeta. destruct mo; cbn [eH eshared get_tail set_head set_tail];
    change (@upd (list N)) with (@set_nth_nat (list N)).
  - rewrite nth_set_nth_nat_other by lia. reflexivity.
  - rewrite (set_nth_nat_comm _ j k) by lia. unfold oth. rewrite (set_nth_nat_id []). reflexivity.
Qed.

(* tail_embedding is head_embedding, j = k: `other` is the row `current` just wrote *)
Lemma attr_dloop_g_s_eq_jj (H0 T0 : list (list N)) (j : nat) :
  j < length H0 -> length (nth j H0 []) = D ->
  attr_dloop_g_s N G alpha mo (Z.of_nat j) (Z.of_nat j) (Z.of_nat D) H0 = eH N (attract_g N G alpha mo (mkEmb N H0 T0 true) j j).
Proof.
  intros Hj Lj.
  set (cur := nth j H0 []).
  set (g := map2 N G cur cur).
  set (new1 := map2 N (fun c gd => add N c (mul N gd alpha)) cur g).
  set (new := if mo then map2 N (fun o gd => add N o (mul N (neg N gd) alpha)) new1 g else new1).
  assert (Lg : length g = D) by (unfold g; rewrite map2_length; unfold cur; lia).
  assert (Ln1 : length new1 = D) by (unfold new1; rewrite map2_length; unfold cur; lia).
  assert (Ln : length new = length cur).
  { unfold new. destruct mo; [rewrite map2_length|]; unfold cur; lia. }
  assert (Inv : attr_dloop_g_s N G alpha mo (Z.of_nat j) (Z.of_nat j) (Z.of_nat D) H0 = set_nth_nat H0 j (mix D new cur)).
  { unfold attr_dloop_g_s.
    apply (for_range_ind (fun c Hc => Hc = set_nth_nat H0 j (mix c new cur))).
    - rewrite mix_0. unfold cur. rewrite (set_nth_nat_id []). reflexivity.
    - intros c Hc Hlt ->. cbv zeta. nat_level.
      set (R := mix c new cur).
      assert (LR : length R = D) by (unfold R; rewrite mix_length; unfold cur; lia).
      assert (Ej : forall X, nth j (set_nth_nat H0 j X) [] = X) by (intros X; apply nth_set_nth_nat_same; lia).
      rewrite !Ej.
      assert (Ec : nth c R (zero N) = nth c cur (zero N)) by apply mix_nth.
      rewrite Ec.
      assert (Egc : G (nth c cur (zero N)) (nth c cur (zero N)) = nth c g (zero N)).
      { unfold g. rewrite nth_map2; [reflexivity| |]; unfold cur; lia. }
      rewrite Egc.
      assert (En1 : add N (nth c cur (zero N)) (mul N (nth c g (zero N)) alpha) = nth c new1 (zero N)).
      { unfold new1. rewrite nth_map2; [reflexivity| |]; unfold cur; lia. }
      rewrite En1, !set_nth_nat_twice.
      unfold new in *. destruct mo.
      + rewrite !Ej.
        rewrite nth_set_nth_nat_same by lia. rewrite set_nth_nat_twice.
        assert (En : add N (nth c new1 (zero N)) (mul N (neg N (nth c g (zero N))) alpha) =
                     nth c (map2 N (fun o gd => add N o (mul N (neg N gd) alpha)) new1 g) (zero N)).
        { rewrite nth_map2; [reflexivity| |]; lia. }
        rewrite En. unfold R. rewrite mix_set by (try exact Ln; unfold cur; lia). reflexivity.
      + unfold R. rewrite mix_set by (try exact Ln; unfold cur; lia). reflexivity. }
  rewrite Inv.
  replace D with (length cur) by (unfold cur; lia). rewrite (mix_full new cur Ln).
  unfold attract_g, new. cbv zeta. destruct mo; cbn [eH eshared get_tail set_head set_tail];
    change (@upd (list N)) with (@set_nth_nat (list N)).
  - rewrite nth_set_nth_nat_same by lia. rewrite set_nth_nat_twice. reflexivity.
  - reflexivity.
Qed.

(* (a), fit: the translated attractive d-loop is the model's attractive move, for every pair of vertices (also j = k) *)
Lemma attr_dloop_g_s_eq (H0 T0 : list (list N)) (j k : nat) :
  j < length H0 -> k < length H0 -> rect D H0 ->
  attr_dloop_g_s N G alpha mo (Z.of_nat j) (Z.of_nat k) (Z.of_nat D) H0 = eH N (attract_g N G alpha mo (mkEmb N H0 T0 true) j k).
Proof.
  intros Hj Hk HR.
  assert (Lj := rect_nth D H0 j HR Hj). assert (Lk := rect_nth D H0 k HR Hk).
  destruct (Nat.eq_dec j k) as [->|Hne]; [apply attr_dloop_g_s_eq_jj|apply attr_dloop_g_s_ne]; assumption.
Qed.
End AttractG.

(* ---- the loops of the generated text (densmap_flag=True, shared), named ------------------------------------------------------ *)
Section NamedD.
Context (N : Num).

(* lines 103-134 *)
Definition gcc_src (a b : N) (phi_sum re_sum : list N) (re_cov re_std re_mean lambda : N) (R mu : list N) (mu_tot : N) (nv : Z)
                   (i j k : Z) (d2 : N) : N :=
  let phi := div N (one N) (add N (one N) (mul N a (npow N d2 b))) in
  let dphi_term := div N (mul N (mul N a b) (npow N d2 (sub N b (one N)))) (add N (one N) (mul N a (npow N d2 b))) in
  let q_jk := div N phi (vnth N phi_sum k) in
  let q_kj := div N phi (vnth N phi_sum j) in
  let drk := mul N q_jk (add N (div N (sub N (one N) (mul N b (sub N (one N) phi))) (nexp N (vnth N re_sum k))) dphi_term) in
  let drj := mul N q_kj (add N (div N (sub N (one N) (mul N b (sub N (one N) phi))) (nexp N (vnth N re_sum j))) dphi_term) in
  let re_std_sq := mul N re_std re_std in
  let weight_k := sub N (vnth N R k) (div N (mul N re_cov (sub N (vnth N re_sum k) re_mean)) re_std_sq) in
  let weight_j := sub N (vnth N R j) (div N (mul N re_cov (sub N (vnth N re_sum j) re_mean)) re_std_sq) in
  div N (div N (mul N (mul N lambda mu_tot) (add N (mul N weight_k drk) (mul N weight_j drj))) (mul N (vnth N mu i) re_std)) (of_Z N nv).

(* lines 143-148: the per-coordinate gradient of the attractive step *)
Definition G_src (gc gcc : N) (c o : N) : N :=
  add N (src_clip N (mul N gc (sub N c o))) (src_clip N (mul N (mul N (of_Z N 2) gcc) (sub N c o))).

Definition edge_body_ds (head tail : list Z) (nv : Z) (eps : list N) (a b gamma : N) (dim : Z) (mo : bool) (alpha : N)
                        (epns : list N) (n : Z) (phi_sum re_sum : list N) (re_cov re_std re_mean lambda : N) (R mu : list N) (mu_tot : N)
                        (i : Z) (st : estate_s N) : estate_s N :=
  let '(H, next, rng, nneg) := st in
  if leb N (vnth N next i) (of_Z N n) then
    let j := inth head i in
    let k := inth tail i in
    let d2 := src_rdist N (mrow N H j) (mrow N H k) in
    let gcc := gcc_src a b phi_sum re_sum re_cov re_std re_mean lambda R mu mu_tot nv i j k d2 in
    let gc := attr_gc N a b d2 in
    let H := attr_dloop_g_s N (G_src gc gcc) alpha mo j k dim H in
    let next := vset N next i (add N (vnth N next i) (vnth N eps i)) in
    let nn := ntrunc N (div N (sub N (of_Z N n) (vnth N nneg i)) (vnth N epns i)) in
    let '(_, rng, _, _, _, H) := for_range 0%Z nn (neg_pbody_s N a b gamma alpha nv dim j j) (k, rng, k, d2, gc, H) in
    let nneg := vset N nneg i (add N (vnth N nneg i) (mul N (of_Z N nn) (vnth N epns i))) in
    (H, next, rng, nneg)
  else st.
End NamedD.

(* the generated definition IS these loops *)
Theorem src_sgd_dens_shared_unfold (N : Num) H head tail nv eps a b rng gamma dim mo alpha epns nneg next n
        (phi_sum re_sum : list N) (re_cov re_std re_mean lambda : N) (R mu : list N) (mu_tot : N) :
  src__optimize_layout_euclidean_single_epoch_dens_shared N H head tail nv eps a b rng gamma dim mo alpha epns nneg next n
      phi_sum re_sum re_cov re_std re_mean lambda R mu mu_tot =
  let '(H, next, rng, nneg) := for_range 0%Z (zlen eps)
      (edge_body_ds N head tail nv eps a b gamma dim mo alpha epns n phi_sum re_sum re_cov re_std re_mean lambda R mu mu_tot) (H, next, rng, nneg) in
  (H, rng, nneg, next).
Proof.
  unfold src__optimize_layout_euclidean_single_epoch_dens_shared, zlen.
  remember (for_range 0 (Z.of_nat (length eps))
              (edge_body_ds N head tail nv eps a b gamma dim mo alpha epns n phi_sum re_sum re_cov re_std re_mean lambda R mu mu_tot) (H, next, rng, nneg)) as Rr eqn:ER.
  rewrite (for_range_ext (length eps) _
             (edge_body_ds N head tail nv eps a b gamma dim mo alpha epns n phi_sum re_sum re_cov re_std re_mean lambda R mu mu_tot)); [rewrite <- ER; reflexivity|].
  intros i s _. unfold estate_s in s. destruct s as [[[H0 nx0] rg0] ng0]. unfold edge_body_ds.
  destruct (leb N (vnth N nx0 (Z.of_nat i)) (of_Z N n)); [|reflexivity].
  cbv zeta.
  set (d2 := src_rdist N (mrow N H0 (inth head (Z.of_nat i))) (mrow N H0 (inth tail (Z.of_nat i)))).
  fold (attr_gc N a b d2).
  change (for_range 0 dim _ H0) with
    (attr_dloop_g_s N (G_src N (attr_gc N a b d2)
                         (gcc_src N a b phi_sum re_sum re_cov re_std re_mean lambda R mu mu_tot nv (Z.of_nat i) (inth head (Z.of_nat i)) (inth tail (Z.of_nat i)) d2))
                    alpha mo (inth head (Z.of_nat i)) (inth tail (Z.of_nat i)) dim H0).
  erewrite (for_range_ext_all _ _ _ (neg_pbody_s N a b gamma alpha nv dim (inth head (Z.of_nat i)) (inth head (Z.of_nat i)))).
  - destruct (for_range 0 (ntrunc N _) _ _) as [[[[[? ?] ?] ?] ?] ?]. reflexivity.
  - intros p [[[[[k0 rg1] o0] dd0] gc0] H1]. reflexivity.
Qed.

(* ---- over the reals ---------------------------------------------------------------------------------------------------------- *)
Local Open Scope R_scope.

(* the model's per-coordinate gradient (M_dens.attract_dens) *)
Definition G_mod (gc gcc : R) (c o : R) : R :=
  add RNum (clip RNum (mul RNum gc (sub RNum c o))) (clip RNum (mul RNum (mul RNum (c2 RNum) gcc) (sub RNum c o))).

Lemma G_src_mod (gc gcc c o : R) : G_src RNum gc gcc c o = G_mod gc gcc c o.
Proof.
  unfold G_src, G_mod. rewrite !src_clip_eq.
  replace (of_Z RNum 2) with (c2 RNum) by (unfold c2; cbn; lra). reflexivity.
Qed.

Lemma attract_dens_g (cx : dens_ctx RNum) (a b alpha : R) (mo : bool) (e : emb RNum) (i j k : nat) :
  attract_dens RNum true cx a b alpha mo e i j k =
  attract_g RNum (G_mod (attr_coeff RNum a b (rdist RNum (nth j (eH RNum e) []) (get_tail RNum e k)))
                        (grad_cor_coeff RNum a b cx i j k (rdist RNum (nth j (eH RNum e) []) (get_tail RNum e k)))) alpha mo e j k.
Proof. reflexivity. Qed.

Section EdgeDens.
Context (a b gamma alpha : R) (mo : bool) (nv : Z) (D : nat).
Context (phi_sum re_sum : list R) (re_cov re_std re_mean lambda : R) (Rr mu : list R) (mu_tot : R).

Definition cx_of : dens_ctx RNum := mkDens RNum phi_sum re_sum Rr mu re_cov re_std re_mean lambda mu_tot (IZR nv).

Lemma gcc_src_eq (i j k : nat) (d2 : R) :
  gcc_src RNum a b phi_sum re_sum re_cov re_std re_mean lambda Rr mu mu_tot nv (Z.of_nat i) (Z.of_nat j) (Z.of_nat k) d2 =
  grad_cor_coeff RNum a b cx_of i j k d2.
Proof. unfold gcc_src, grad_cor_coeff, cx_of. cbv zeta. rewrite !vnth_of_nat. reflexivity. Qed.

Lemma attract_g_wfe (G : R -> R -> R) sh nH nT e j k : wfe D sh nH nT e -> (j < nH)%nat -> (k < (if sh then nH else nT))%nat ->
  wfe D sh nH nT (attract_g RNum G alpha mo e j k).
Proof.
  intros W Hj Hk. pose proof W as (HR & HL & HRT & HLT & HS).
  assert (Lj : length (nth j (eH RNum e) []) = D) by (apply (rect_nth D _ j HR); lia).
  assert (Lk := tail_len D sh nH nT e k W Hk).
  unfold attract_g. cbv zeta.
  set (g := map2 RNum _ (nth j (eH RNum e) []) (get_tail RNum e k)).
  assert (Lg : length g = D) by (unfold g; rewrite map2_length; lia).
  set (e1 := set_head RNum e j _).
  assert (W1 : wfe D sh nH nT e1).
  { unfold e1, set_head. repeat split; cbn [eH eT eshared]; auto; change (@upd (list RNum)) with (@set_nth_nat (list RNum)).
    - apply rect_set; [exact HR|]. rewrite map2_length; lia.
    - rewrite set_nth_nat_length. exact HL. }
  destruct mo; [|exact W1].
  assert (Lk1 := tail_len D sh nH nT e1 k W1 Hk).
  pose proof W1 as (HR1 & HL1 & HRT1 & HLT1 & HS1).
  unfold set_tail. rewrite HS1. destruct sh.
  - unfold set_head. repeat split; cbn [eH eT eshared]; auto; change (@upd (list RNum)) with (@set_nth_nat (list RNum)).
    + apply rect_set; [exact HR1|]. rewrite map2_length; lia.
    + rewrite set_nth_nat_length. exact HL1.
  - repeat split; cbn [eH eT eshared]; auto; change (@upd (list RNum)) with (@set_nth_nat (list RNum)).
    + apply rect_set; [exact HRT1|]. rewrite map2_length; lia.
    + rewrite set_nth_nat_length. exact HLT1.
Qed.

(* lines 93-186 for edge i with the density term, tail_embedding is head_embedding *)
Lemma edge_body_ds_eq (head tail : list Z) (eps epns : list R) (n : Z) (i : nat) (s : sgd_state RNum) (nH nT jn kn : nat) :
  wfe D true nH nT (s_emb RNum s) -> length (s_rng RNum s) = nH -> (0 < nv <= Z.of_nat nH)%Z ->
  inth head (Z.of_nat i) = Z.of_nat jn -> inth tail (Z.of_nat i) = Z.of_nat kn -> (jn < nH)%nat -> (kn < nH)%nat ->
  edge_body_ds RNum head tail nv eps a b gamma (Z.of_nat D) mo alpha epns n phi_sum re_sum re_cov re_std re_mean lambda Rr mu mu_tot
               (Z.of_nat i) (abs_s s) =
  abs_s (edge_step_dens RNum true cx_of a b gamma alpha mo nv (IZR n) s i (mkEdge RNum jn kn (nth i eps 0%R) (nth i epns 0%R))).
Proof.
  intros W Lr Hnv Hh Ht Hj Hk. destruct s as [e next nneg rngs]. destruct e as [H Tl sh].
  pose proof W as (HR & HL & HRT & HLT & HS). cbn [s_emb s_rng eH eT eshared] in *. subst sh.
  unfold edge_body_ds, edge_step_dens, abs_s. cbn [s_emb s_next s_nneg s_rng e_head e_tail e_eps e_epns eH].
  rewrite !vnth_of_nat. change (of_Z RNum n) with (IZR n). change (zero RNum) with 0%R.
  destruct (leb RNum (nth i next 0%R) (IZR n)); [|reflexivity].
  cbv zeta. rewrite Hh, Ht, !mrow_nat.
  assert (Lj : length (nth jn H []) = D) by (apply (rect_nth D _ jn HR); lia).
  assert (Lk : length (nth kn H []) = D) by (apply (rect_nth D _ kn HR); lia).
  change (T RNum) with R in *. rewrite src_rdist_eq by lia. rewrite attr_gc_eq, gcc_src_eq.
  assert (Hj' : (jn < length H)%nat) by lia. assert (Hk' : (kn < length H)%nat) by lia.
  set (d2 := rdist RNum (nth jn H []) (nth kn H [])).
  assert (EG : attr_dloop_g_s RNum (G_src RNum (attr_coeff RNum a b d2) (grad_cor_coeff RNum a b cx_of i jn kn d2)) alpha mo
                 (Z.of_nat jn) (Z.of_nat kn) (Z.of_nat D) H =
               attr_dloop_g_s RNum (G_mod (attr_coeff RNum a b d2) (grad_cor_coeff RNum a b cx_of i jn kn d2)) alpha mo
                 (Z.of_nat jn) (Z.of_nat kn) (Z.of_nat D) H).
  { unfold attr_dloop_g_s. apply for_range_ext_all. intros d Hd. cbv zeta. rewrite !G_src_mod. reflexivity. }
  rewrite EG.
  rewrite (attr_dloop_g_s_eq RNum _ alpha mo D H Tl jn kn Hj' Hk' HR).
  rewrite (attract_dens_g cx_of a b alpha mo (mkEmb RNum H Tl true) i jn kn). cbn [eH get_tail eshared]. fold d2.
  set (e1 := attract_g RNum _ alpha mo (mkEmb RNum H Tl true) jn kn).
  assert (W1 : wfe D true nH nT e1) by (apply attract_g_wfe; auto).
  pose proof W1 as (HR1 & HL1 & HRT1 & HLT1 & HS1).
  set (cnt := ntrunc RNum (div RNum (sub RNum (IZR n) (nth i nneg 0%R)) (nth i epns 0%R))).
  rewrite for_range_to_nat, (for_range_const _ _ _ (neg_pbody_s_const _ _ _ _ _ _ _ _)).
  pose proof (neg_iter_s a b gamma alpha nv D (eT RNum e1) jn (Z.to_nat cnt) (eH RNum e1) (map row_of rngs) (nth jn rngs (0, 0, 0)%Z)
                (Z.of_nat kn) (Z.of_nat kn) d2 (attr_coeff RNum a b d2))
    as P.
  rewrite <- (wfe_shape D true nH nT e1 W1) in P.
  change (T RNum) with R in *.
  specialize (P ltac:(lia) HR1 ltac:(lia) ltac:(rewrite map_length; lia) ltac:(apply nth_map_row; lia)).
  change (T RNum) with R in *.
  destruct (iter_l _ _ _) as [[[[[k1 rng1] o1] dd1] gc1] H1]. cbn [pproj] in P.
  destruct (neg_loop _ _ _ _ _ _ _ _ _ _) as [e2 st']. injection P as -> ->.
  cbn [s_emb s_next s_nneg s_rng eH]. rewrite !vset_of_nat, map_set_nth_nat. reflexivity.
Qed.
End EdgeDens.

Section LoopDens.
Context (a b gamma alpha : R) (mo : bool) (nv : Z) (D : nat).
Context (cx : dens_ctx RNum).

Lemma edge_step_dens_wf sh nH nT (n : R) (s : sgd_state RNum) (i jn kn : nat) (x y : R) :
  wfe D sh nH nT (s_emb RNum s) -> length (s_rng RNum s) = nH -> (0 < nv <= Z.of_nat (if sh then nH else nT))%Z ->
  (jn < nH)%nat -> (kn < (if sh then nH else nT))%nat ->
  wfe D sh nH nT (s_emb RNum (edge_step_dens RNum true cx a b gamma alpha mo nv n s i (mkEdge RNum jn kn x y))) /\
  length (s_rng RNum (edge_step_dens RNum true cx a b gamma alpha mo nv n s i (mkEdge RNum jn kn x y))) = nH.
Proof.
  intros W Lr Hnv Hj Hk. unfold edge_step_dens. destruct (leb RNum _ n); [|split; assumption].
  cbv zeta. cbn [e_head e_tail e_eps e_epns].
  match goal with |- context [neg_loop RNum ?c a b gamma alpha nv ?e jn ?st] =>
    pose proof (neg_loop_wfe a b gamma alpha nv D sh nH nT jn c e st) as Q; destruct (neg_loop RNum c a b gamma alpha nv e jn st) as [e2 st'] end.
  cbn [s_emb s_rng fst] in *. split.
  - apply Q; auto. rewrite attract_dens_g. apply attract_g_wfe; auto.
  - change (@upd rng3) with (@set_nth_nat rng3). rewrite set_nth_nat_length. exact Lr.
Qed.
End LoopDens.

Section LoopDens2.
Context (a b gamma alpha : R) (mo : bool) (nv : Z) (D : nat).
Context (phi_sum re_sum : list R) (re_cov re_std re_mean lambda : R) (Rr mu : list R) (mu_tot : R).
Notation cx := (cx_of nv phi_sum re_sum re_cov re_std re_mean lambda Rr mu mu_tot).

(* the loop over the edges *)
Lemma edges_loop_ds (head tail : list Z) (eps epns : list R) (n : Z) (nH nT : nat) :
  (0 < nv <= Z.of_nat nH)%Z ->
  (forall i, (i < length eps)%nat -> (0 <= nth i head 0 < Z.of_nat nH)%Z /\ (0 <= nth i tail 0 < Z.of_nat nH)%Z) ->
  forall (m i0 : nat) (s : sgd_state RNum), (i0 + m <= length eps)%nat ->
  wfe D true nH nT (s_emb RNum s) -> length (s_rng RNum s) = nH ->
  fold_left (fun st k => edge_body_ds RNum head tail nv eps a b gamma (Z.of_nat D) mo alpha epns n
                           phi_sum re_sum re_cov re_std re_mean lambda Rr mu mu_tot (Z.of_nat k) st) (seq i0 m) (abs_s s) =
  abs_s (edges_from_dens RNum true cx a b gamma alpha mo nv (IZR n) i0 (map (edge_at head tail eps epns) (seq i0 m)) s).
Proof.
  intros Hnv Hidx. induction m as [|m IH]; intros i0 s Hm W Lr; [reflexivity|].
  cbn [seq map fold_left edges_from_dens].
  destruct (Hidx i0 ltac:(lia)) as [Hh Ht].
  unfold edge_at at 1.
  rewrite (edge_body_ds_eq a b gamma alpha mo nv D phi_sum re_sum re_cov re_std re_mean lambda Rr mu mu_tot head tail eps epns n i0 s nH nT
             (Z.to_nat (nth i0 head 0%Z)) (Z.to_nat (nth i0 tail 0%Z)) W Lr Hnv)
    by (rewrite ?inth_of_nat, ?Z2Nat.id; lia).
  destruct (edge_step_dens_wf a b gamma alpha mo nv D cx true nH nT (IZR n) s i0 (Z.to_nat (nth i0 head 0%Z)) (Z.to_nat (nth i0 tail 0%Z))
              (nth i0 eps 0%R) (nth i0 epns 0%R) W Lr) as [W' Lr']; [exact Hnv|lia|lia|].
  apply IH; [lia|exact W'|exact Lr'].
Qed.
End LoopDens2.

(* THE LINK THEOREM, fit case with the density term (tail_embedding is head_embedding, densmap_flag=True): under the hypotheses of
   L_sgd.v's src_sgd_shared_eq the translated kernel computes exactly the model's [epoch_dens true cx] (model/M_dens.v), over the reals,
   where the context cx is built from the kernel's densMAP arguments:
     d_phi_sum = dens_phi_sum, d_re_sum = dens_re_sum, d_R = dens_R, d_mu = dens_mu, d_re_cov / d_re_std / d_re_mean / d_lambda / d_mu_tot
     = the scalars of the same name, d_nv = n_vertices (as a real).
   No hypothesis on the lengths of the densMAP arrays is needed (an out-of-range read is 0 on both sides; the model divides like the
   source does -- over R with total division, so inputs on which the float kernel would produce inf/NaN are tied only by the per-run
   correspondence). *)
Theorem src_sgd_dens_shared_eq (H : list (list R)) (head tail : list Z) (nv : Z) (eps : list R) (a b : R) (rngs : list rng3) (gamma : R) (D : nat)
        (mo : bool) (alpha : R) (epns nneg next : list R) (n : Z)
        (phi_sum re_sum : list R) (re_cov re_std re_mean lambda : R) (Rr mu : list R) (mu_tot : R) :
  rect D H -> length rngs = length H -> (0 < nv <= Z.of_nat (length H))%Z ->
  (forall i, (i < length eps)%nat -> (0 <= nth i head 0 < Z.of_nat (length H))%Z /\ (0 <= nth i tail 0 < Z.of_nat (length H))%Z) ->
  src__optimize_layout_euclidean_single_epoch_dens_shared RNum H head tail nv eps a b (map row_of rngs) gamma (Z.of_nat D) mo alpha epns nneg next n
      phi_sum re_sum re_cov re_std re_mean lambda Rr mu mu_tot =
  let cx := mkDens RNum phi_sum re_sum Rr mu re_cov re_std re_mean lambda mu_tot (IZR nv) in
  let s' := epoch_dens RNum true cx a b gamma alpha mo nv (IZR n) (edges_of head tail eps epns) (mkSt RNum (mkEmb RNum H [] true) next nneg rngs) in
  (eH RNum (s_emb RNum s'), map row_of (s_rng RNum s'), s_nneg RNum s', s_next RNum s').
Proof.
  intros HR Lr Hnv Hidx. rewrite src_sgd_dens_shared_unfold. unfold zlen. rewrite for_range_0.
  pose proof (edges_loop_ds a b gamma alpha mo nv D phi_sum re_sum re_cov re_std re_mean lambda Rr mu mu_tot head tail eps epns n (length H) 0 Hnv Hidx
                (length eps) 0%nat (mkSt RNum (mkEmb RNum H [] true) next nneg rngs) ltac:(lia)) as P.
  cbn [s_emb s_rng] in P. unfold abs_s at 1 in P. cbn [s_emb s_next s_nneg s_rng eH] in P.
  change (T RNum) with R in *. rewrite P; [|repeat split; cbn [eH eT eshared]; auto; constructor|exact Lr].
  unfold epoch_dens, edges_of, abs_s, cx_of. cbv zeta. reflexivity.
Qed.

(* ---- dens_lambda = 0: the density term vanishes (over R) ----------------------------------------------------------------------- *)
Lemma grad_cor_coeff_lambda0 (a b : R) (cx : dens_ctx RNum) (i j k : nat) (d2 : R) :
  d_lambda RNum cx = 0 -> grad_cor_coeff RNum a b cx i j k d2 = 0.
Proof.
  intros Hl. unfold grad_cor_coeff. cbv zeta. rewrite Hl. cbn [mul div RNum]. change (T RNum) with R in *.
  unfold Rdiv. rewrite !Rmult_0_l. reflexivity.
Qed.

Lemma clip_0 : clip RNum 0 = 0.
Proof.
  unfold clip, c4, c2. cbn [ltb neg add one RNum]. change (T RNum) with R in *.
  assert (E1 : Rltb (1 + 1 + (1 + 1)) 0 = false) by (apply Rltb_false; lra).
  assert (E2 : Rltb 0 (- (1 + 1 + (1 + 1))) = false) by (apply Rltb_false; lra).
  rewrite E1, E2. reflexivity.
Qed.

Lemma G_mod_0 (gc c o : R) : G_mod gc 0 c o = clip RNum (mul RNum gc (sub RNum c o)).
Proof.
  unfold G_mod. replace (mul RNum (mul RNum (c2 RNum) 0) (sub RNum c o)) with 0 by (cbn [mul sub RNum]; change (T RNum) with R; ring).
  rewrite clip_0. cbn [add RNum]. change (T RNum) with R. ring.
Qed.

Lemma map2_ext_R (f g : R -> R -> R) : (forall c o, f c o = g c o) -> forall x y, map2 RNum f x y = map2 RNum g x y.
Proof. intros E. induction x as [|a x IH]; intros [|b y]; cbn [map2]; try reflexivity. rewrite E, IH. reflexivity. Qed.

Lemma attract_dens_lambda0 (cx : dens_ctx RNum) (a b alpha : R) (mo : bool) (e : emb RNum) (i j k : nat) :
  d_lambda RNum cx = 0 -> attract_dens RNum true cx a b alpha mo e i j k = attract RNum a b alpha mo e j k.
Proof.
  intros Hl. rewrite attract_dens_g, grad_cor_coeff_lambda0 by exact Hl.
  unfold attract_g, attract. cbv zeta.
  rewrite (map2_ext_R (G_mod (attr_coeff RNum a b (rdist RNum (nth j (eH RNum e) []) (get_tail RNum e k))) 0) (fun c o => clip RNum (mul RNum (attr_coeff RNum a b (rdist RNum (nth j (eH RNum e) []) (get_tail RNum e k))) (sub RNum c o))))
    by (intros; apply G_mod_0).
  reflexivity.
Qed.

(* one epoch of the model with the density term switched ON but weight 0 = one epoch of plain UMAP (the per-epoch form of C17's
   "densMAP reduces to UMAP at zero weight": T_dens.dens_off_is_umap goes through the flag being false, this one through the term being 0) *)
Lemma epoch_dens_lambda0 (cx : dens_ctx RNum) (a b gamma alpha : R) (mo : bool) (nv : Z) (n : R) (es : list (edge RNum)) (s : sgd_state RNum) :
  d_lambda RNum cx = 0 -> epoch_dens RNum true cx a b gamma alpha mo nv n es s = epoch RNum a b gamma alpha mo nv n es s.
Proof.
  intros Hl. unfold epoch_dens, epoch. generalize 0%nat. revert s.
  induction es as [|ed es IH]; intros s i; cbn [edges_from_dens edges_from]; [reflexivity|].
  rewrite IH. f_equal. unfold edge_step_dens, edge_step. rewrite attract_dens_lambda0 by exact Hl. reflexivity.
Qed.

(* CAPSTONE: with dens_lambda = 0 the translated densmap_flag=True kernel returns the same embedding / RNG rows / clocks as the
   translated densmap_flag=False kernel (both are translations of the CURRENT source), whatever the other densMAP arguments are --
   over R (total division: the statement says nothing about float runs in which the density term evaluates to 0 * inf = NaN). *)
Theorem src_sgd_dens_lambda0 (H : list (list R)) (head tail : list Z) (nv : Z) (eps : list R) (a b : R) (rngs : list rng3) (gamma : R) (D : nat)
        (mo : bool) (alpha : R) (epns nneg next : list R) (n : Z)
        (phi_sum re_sum : list R) (re_cov re_std re_mean : R) (Rr mu : list R) (mu_tot : R)
        (x1 x2 : list R) (x3 x4 x5 x6 : R) (x7 x8 : list R) (x9 : R) :
  rect D H -> length rngs = length H -> (0 < nv <= Z.of_nat (length H))%Z ->
  (forall i, (i < length eps)%nat -> (0 <= nth i head 0 < Z.of_nat (length H))%Z /\ (0 <= nth i tail 0 < Z.of_nat (length H))%Z) ->
  src__optimize_layout_euclidean_single_epoch_dens_shared RNum H head tail nv eps a b (map row_of rngs) gamma (Z.of_nat D) mo alpha epns nneg next n
      phi_sum re_sum re_cov re_std re_mean 0 Rr mu mu_tot =
  src__optimize_layout_euclidean_single_epoch_shared RNum H head tail nv eps a b (map row_of rngs) gamma (Z.of_nat D) mo alpha epns nneg next n
      x1 x2 x3 x4 x5 x6 x7 x8 x9.
Proof.
  intros HR Lr Hnv Hidx.
  rewrite (src_sgd_dens_shared_eq H head tail nv eps a b rngs gamma D mo alpha epns nneg next n phi_sum re_sum re_cov re_std re_mean 0 Rr mu mu_tot HR Lr Hnv Hidx).
  rewrite (src_sgd_shared_eq H head tail nv eps a b rngs gamma D mo alpha epns nneg next n x1 x2 x3 x4 x5 x6 x7 x8 x9 HR Lr Hnv Hidx).
  cbv zeta. rewrite epoch_dens_lambda0 by reflexivity. reflexivity.
Qed.

(* Evaluation leg of the translation tie (C12): the Gallina text generated from the CURRENT umap/distances.py is itself
   run in binary64 on the inputs the implementation ran on.  [eval_src] mirrors model/V_metrics.v [eval_metric] with
   the hand-written model replaced by the translated source; metrics the translator does not cover fall back to the
   model ([None]: not translated).  Used by harness/c12.py through harness/vp/link.py. *)
From Coq Require Import List ZArith Bool PrimFloat.
From UV Require Import Num FloatFns FNum PyPrim M_metrics V_metrics.
From UVS Require Import Src_distances.
Import ListNotations.
Open Scope float_scope.

Definition FPy : PyExt FNum := mkPyExt FNum f_sin f_cos f_asin (nacosh FNum) f_pi.

Definition eval_src (m : mtag) (P : mparams) (x y : list float) : option float :=
  match m with
  | M_euclidean => Some (src_euclidean FNum x y)
  | M_manhattan => Some (src_manhattan FNum x y)
  | M_chebyshev => Some (src_chebyshev FNum x y)
  | M_minkowski => Some (src_minkowski FNum x y (p_p P))
  | M_seuclidean => Some (src_standardised_euclidean FNum x y (p_V P))
  | M_wminkowski => Some (src_weighted_minkowski FNum x y (p_w P) (p_p P))
  | M_mahalanobis => Some (src_mahalanobis FNum x y (p_VI P))
  | M_canberra => Some (src_canberra FNum x y)
  | M_braycurtis => Some (src_bray_curtis FNum x y)
  | M_cosine => Some (src_cosine FNum x y)
  | M_correlation => Some (src_correlation FNum x y)
  | M_hellinger => Some (src_hellinger FNum x y)
  | M_haversine => Some (match src_haversine FNum FPy x y with Some v => v | None => nan end)
  | M_poincare => Some (src_poincare FNum FPy x y)
  | M_symmetric_kl => Some (src_symmetric_kl FNum x y (p_z P))
  | M_ll_dirichlet => Some (src_ll_dirichlet FNum FPy x y)
  | M_hamming => Some (src_hamming FNum x y)
  | M_jaccard => Some (src_jaccard FNum x y)
  | M_matching => Some (src_matching FNum x y)
  | M_dice => Some (src_dice FNum x y)
  | M_kulsinski => Some (src_kulsinski FNum x y)
  | M_rogerstanimoto => Some (src_rogers_tanimoto FNum x y)
  | M_russellrao => Some (src_russellrao FNum x y)
  | M_sokalmichener => Some (src_sokal_michener FNum x y)
  | M_sokalsneath => Some (src_sokal_sneath FNum x y)
  | M_yule => Some (src_yule FNum x y)
  end.

(* verdict: position of the first entry whose TRANSLATED-SOURCE value disagrees with the implementation's, or -1 *)
Definition verdict_src_C12 (c : case_C12) : Z :=
  let '(P, x, y, outs) := c in
  let fix go (i : Z) (l : list (mtag * float)) : Z :=
    match l with
    | [] => (-1)%Z
    | (m, v) :: l' =>
        match eval_src m P x y with
        | Some s => if agree m s v then go (i + 1)%Z l' else i
        | None => go (i + 1)%Z l'
        end
    end in
  go 0%Z outs.

(* position of the first entry on which translated source and hand-written model differ (same tolerance), or -1:
   used to look for a concrete input when a link theorem no longer checks *)
Definition verdict_src_vs_model (c : case_C12) : Z :=
  let '(P, x, y, outs) := c in
  let fix go (i : Z) (l : list (mtag * float)) : Z :=
    match l with
    | [] => (-1)%Z
    | (m, v) :: l' =>
        match eval_src m P x y with
        | Some s => if agree m s (eval_metric m P x y) then go (i + 1)%Z l' else i
        | None => go (i + 1)%Z l'
        end
    end in
  go 0%Z outs.

Definition values_src_C12 (c : case_C12) : list float :=
  let '(P, x, y, outs) := c in map (fun e => match eval_src (fst e) P x y with Some s => s | None => nan end) outs.

(* Evaluation leg of the translation tie (C17): the Gallina text generated from the CURRENT
   umap/layouts.py:_optimize_layout_euclidean_densmap_epoch_init ([_shared]: tail_embedding is head_embedding) is itself run in
   binary64 on the inputs harness/c17.py hands to the implementation's kernel, and its (re_sum, phi_sum) are compared with
   what the jitted float32 kernel left in the arrays (same tolerance as the model's comparison [V_dens.verdict_dens_init]).
   The arrays handed to the translated source are pre-filled with 7: the result must not depend on them (`.fill(0)`). *)
From Coq Require Import List ZArith Bool PrimFloat.
From UV Require Import Num FloatFns FNum PyPrim M_sgd V_sgd.
From UVS Require Import Src_layouts_dens.
Import ListNotations.
Open Scope float_scope.

(* the hypotheses of L_dens.v's src_dens_init_eq on this case *)
Definition dens_hyp_ok (H : list (list float)) (es : list edge_f) : bool :=
  let D := length (hd [] H) in
  forallb (fun r => Nat.eqb (length r) D) H &&
  forallb (fun e => Nat.ltb (ef_head e) (length H) && Nat.ltb (ef_tail e) (length H)) es.

(* -1 = the translated source reproduces the implementation's statistics; 6 = outside the link theorem's hypotheses *)
Definition verdict_src_dens_init (tol : float) (c : float * float * list (list float) * list edge_f * nat * list float * list float) : Z :=
  let '(a, b, H, es, nvert, re_i, phi_i) := c in
  let hd_ := map (fun e => Z.of_nat (ef_head e)) es in
  let tl_ := map (fun e => Z.of_nat (ef_tail e)) es in
  let '(re_s, phi_s) := src__optimize_layout_euclidean_densmap_epoch_init_shared FNum H hd_ tl_ a b (repeat 7 nvert) (repeat 7 nvert) in
  if negb (dens_hyp_ok H es) then 6%Z else
  if negb (Nat.eqb (length re_s) (length re_i) && Nat.eqb (length phi_s) (length phi_i)) then 3%Z else
  if negb (maxdiff phi_s phi_i <=? tol) then 1%Z else
  if negb (maxdiff re_s re_i <=? tol) then 2%Z else (-1)%Z.

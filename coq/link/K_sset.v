(* Capstone corollaries for C18: statements of P_C18 / T_combine restated about the TRANSLATED SOURCE of general_sset_union and
   general_sset_intersection (Src_sparse_sset.v, regenerated from the current umap/sparse.py), over the reals.
   Chain: L_sset (translated kernel = CSR-level model M_csr, every Num) ; T_csr (CSR-level model = M_combine's entry-list
   vocabulary: fills, last match = first match on rows with distinct columns, pow(x, 1) = x) ; T_combine (facts about
   union_val / inter_val / the model kernels).

     C18_src_union_comm        the union kernel with the operands swapped writes the same values (any skeleton over well-formed
                               indptr arrays; no hypothesis on the stored values)
     C18_src_union_values      operands with values in (0,1]: every value the union kernel writes lies in (0,1] and is >= both
                               (filled) operand values
     C18_src_union_kernel      on CSR forms of A and B ([csr_repr]) and the skeleton of M_combine's [sset_union n A B], the kernel
                               writes exactly the model kernel's values
     C18_src_intersection_kernel / C18_src_complement_kernel
                               same for [sset_intersection n w A B] / [right_complement n w A B], result_val initialised by the
                               caller with the values of A + B / of A (what M_combine.inter_val's last line describes)
     C18_src_intersection_defaults, C18_src_mul_kernel
                               the default arguments in the current source are right_complement=False, mix_weight=0.5: a call relying
                               on them computes the kernel of the `*` operator
     C18_src_kernels_of_smat   closed form of the three: for ALL graphs A, B with values in (0,1], one stored entry per position and rows
                               below n, on the CSR arrays of A and B laid out row by row (T_csr.csr_repr_of_smat: every such graph has a
                               CSR form) the translated kernels write the values of M_combine's combine_kernel for +, *, -
     C18_src_kernel_nonneg     hence every value the three kernels leave in result_val is >= 0 (P_C18.C18_kernel_values) *)
From Coq Require Import List ZArith Bool Reals Lra Lia Permutation.
From UV Require Import Num PyPrim PyPrimLemmas M_supervised T_supervised M_combine T_combine M_csr T_csr.
From UVS Require Import Src_sparse_sset L_sset.
Import ListNotations.
Local Open Scope R_scope.

(* ---- commutativity of the union kernel ------------------------------------------------------------------------------------ *)
Corollary C18_src_union_comm (ip1 ix1 : list Z) (d1 : list R) (ip2 ix2 : list Z) (d2 : list R) (row col : list Z) (val val' : list R) :
  length row = length val -> length col = length val -> length val' = length val ->
  rows_ok RNum ip1 ix1 d1 row -> rows_ok RNum ip2 ix2 d2 row ->
  src_general_sset_union RNum ip1 ix1 d1 ip2 ix2 d2 row col val = src_general_sset_union RNum ip2 ix2 d2 ip1 ix1 d1 row col val'.
Proof.
  intros L1 L2 L3 R1 R2.
  rewrite (src_general_sset_union_eq RNum ip1 ix1 d1 ip2 ix2 d2 row col val L1 L2 R1 R2).
  rewrite (src_general_sset_union_eq RNum ip2 ix2 d2 ip1 ix1 d1 row col val' (eq_trans L1 (eq_sym L3)) (eq_trans L2 (eq_sym L3)) R2 R1).
  unfold csr_union. apply map_ext. intros ij. unfold union_entry. apply union_val_comm.
Qed.

(* ---- range of the written values ------------------------------------------------------------------------------------------ *)
Lemma union_val_ge lf rf a b : 0 < lf <= 1 -> 0 < rf <= 1 -> opt01 a -> opt01 b ->
  lookup_or_min RNum lf a <= Runion_val lf rf a b /\ lookup_or_min RNum rf b <= Runion_val lf rf a b.
Proof.
  intros Hl Hr Ha Hb. unfold Runion_val, union_val. cbv zeta.
  pose proof (lookup_range lf a Hl Ha). pose proof (lookup_range rf b Hr Hb).
  set (l := lookup_or_min RNum lf a) in *. set (r := lookup_or_min RNum rf b) in *.
  cbn. change (T RNum) with R in *. split; nra.
Qed.

Corollary C18_src_union_values (ip1 ix1 : list Z) (d1 : list R) (ip2 ix2 : list Z) (d2 : list R) (row col : list Z) (val : list R) :
  length row = length val -> length col = length val ->
  rows_ok RNum ip1 ix1 d1 row -> rows_ok RNum ip2 ix2 d2 row -> unit_vals d1 -> unit_vals d2 ->
  forall k, (k < length val)%nat ->
    let v := nth k (src_general_sset_union RNum ip1 ix1 d1 ip2 ix2 d2 row col val) 0 in
    let i := nth k row 0%Z in let j := nth k col 0%Z in
    0 < v <= 1 /\
    lookup_or_min RNum (csr_fill RNum d1) (csr_lookup RNum ip1 ix1 d1 i j) <= v /\
    lookup_or_min RNum (csr_fill RNum d2) (csr_lookup RNum ip2 ix2 d2 i j) <= v.
Proof.
  intros L1 L2 R1 R2 U1 U2 k Hk. cbv zeta.
  rewrite (src_general_sset_union_eq RNum ip1 ix1 d1 ip2 ix2 d2 row col val L1 L2 R1 R2). unfold csr_union.
  set (F := fun ij : Z * Z => union_entry RNum (csr_fill RNum d1) (csr_fill RNum d2) (csr_lookup RNum ip1 ix1 d1 (fst ij) (snd ij))
                               (csr_lookup RNum ip2 ix2 d2 (fst ij) (snd ij))).
  assert (Hlen : (k < length (List.combine row col))%nat) by (rewrite combine_length; lia).
  rewrite (nth_indep (map F (List.combine row col)) 0 (F (0%Z, 0%Z))) by (rewrite map_length; exact Hlen).
  rewrite map_nth. rewrite combine_nth by lia. unfold F. cbn [fst snd]. unfold union_entry.
  pose proof (csr_fill_range d1 U1) as F1. pose proof (csr_fill_range d2 U2) as F2.
  pose proof (csr_lookup_opt01 ip1 ix1 d1 (nth k row 0%Z) (nth k col 0%Z) U1) as O1.
  pose proof (csr_lookup_opt01 ip2 ix2 d2 (nth k row 0%Z) (nth k col 0%Z) U2) as O2.
  split; [exact (union_val_range _ _ _ _ F1 F2 O1 O2)|]. exact (union_val_ge _ _ _ _ F1 F2 O1 O2).
Qed.

(* ---- the translated kernels on CSR forms of A and B write the model kernel's values ------------------------------------------- *)
Definition zrows (K : Rsmat) : list Z := map (fun e => Z.of_nat (erow RNum e)) K.
Definition zcols (K : Rsmat) : list Z := map (fun e => Z.of_nat (ecol RNum e)) K.

Lemma combine_zrows_zcols (K : Rsmat) :
  List.combine (zrows K) (zcols K) = map (fun e => (Z.of_nat (erow RNum e), Z.of_nat (ecol RNum e))) K.
Proof. unfold zrows, zcols. induction K as [|e K IH]; [reflexivity|]. cbn [map List.combine]. f_equal. exact IH. Qed.

Lemma combine3_map {X A B C : Type} (f : X -> A) (g : X -> B) (h : X -> C) (K : list X) :
  List.combine (List.combine (map f K) (map g K)) (map h K) = map (fun e => (f e, g e, h e)) K.
Proof. induction K as [|e K IH]; [reflexivity|]. cbn [map List.combine]. f_equal. exact IH. Qed.

Lemma rows_ok_kernel n ip ix d X present val A B :
  csr_repr n ip ix d X -> rows_ok RNum ip ix d (zrows (Rkernel n present val A B)).
Proof.
  intros H. unfold rows_ok, zrows. rewrite Forall_map. apply Forall_forall. intros [[i j] v] Hin.
  apply in_kernel in Hin as (Hi & _). cbn [erow fst]. apply (csr_repr_ok n ip ix d X i H Hi).
Qed.

Section OnRepr.
Context (n : nat) (ip1 ix1 : list Z) (d1 : list R) (ip2 ix2 : list Z) (d2 : list R) (A B : Rsmat).
Hypothesis RA : csr_repr n ip1 ix1 d1 A.
Hypothesis RB : csr_repr n ip2 ix2 d2 B.

Corollary C18_src_union_kernel (val : list R) :
  let K := sset_union RNum n A B in
  length val = length K ->
  src_general_sset_union RNum ip1 ix1 d1 ip2 ix2 d2 (zrows K) (zcols K) val = map (evl RNum) K.
Proof.
  intros K L. subst K. unfold sset_union. fold Rkernel.
  set (V := union_val RNum (left_fill RNum A) (left_fill RNum B)) in *.
  set (K := Rkernel n (either RNum) V A B) in *.
  rewrite src_general_sset_union_eq;
    [|unfold zrows; rewrite map_length; symmetry; exact L|unfold zcols; rewrite map_length; symmetry; exact L|apply (rows_ok_kernel n _ _ _ A); exact RA
     |apply (rows_ok_kernel n _ _ _ B); exact RB].
  unfold csr_union. rewrite combine_zrows_zcols, map_map. apply map_ext_in. intros [[i j] v] Hin. cbn [fst snd erow ecol evl].
  apply in_kernel in Hin as (Hi & _ & _ & ->).
  rewrite (csr_repr_lookup n ip1 ix1 d1 A i j RA Hi), (csr_repr_lookup n ip2 ix2 d2 B i j RB Hi).
  rewrite (csr_fill_left d1 A (proj1 RA)), (csr_fill_left d2 B (proj1 RB)). reflexivity.
Qed.

Hypothesis EA : entries01 A.
Hypothesis EB : entries01 B.

Lemma inter_sides_nonneg (rc : bool) (rf : R) i j : 0 < rf ->
  0 <= lookup_or_min RNum (left_fill RNum A) (Rentry_at A i j) /\
  0 <= match Rentry_at B i j with Some v => if rc then 1 - v else v | None => rf end.
Proof.
  intros Hrf. split.
  - pose proof (lookup_range _ _ (left_fill_range A EA) (opt01_entry A i j EA)) as H. unfold Rleft_fill in H. rn. lra.
  - pose proof (opt01_entry B i j EB) as O. destruct (Rentry_at B i j) as [v|]; [|lra].
    specialize (O v eq_refl). destruct rc; lra.
Qed.

(* A * B: result_val holds the values of A + B (stored a + stored b) when the kernel is called *)
Corollary C18_src_intersection_kernel (w : R) :
  let K := sset_intersection RNum n w A B in
  let val0 := map (fun e => stored RNum (Rentry_at A (erow RNum e) (ecol RNum e)) + stored RNum (Rentry_at B (erow RNum e) (ecol RNum e))) K in
  src_general_sset_intersection RNum ip1 ix1 d1 ip2 ix2 d2 (zrows K) (zcols K) val0 false w = map (evl RNum) K.
Proof.
  intros K val0. subst K val0. unfold sset_intersection. fold Rkernel.
  set (V := inter_val RNum false w (left_fill RNum A) (right_fill RNum B)) in *.
  set (K := Rkernel n (either RNum) V A B) in *.
  rewrite src_general_sset_intersection_eq;
    [|unfold zrows; rewrite !map_length; reflexivity|unfold zcols; rewrite !map_length; reflexivity|apply (rows_ok_kernel n _ _ _ A); exact RA
     |apply (rows_ok_kernel n _ _ _ B); exact RB].
  unfold csr_intersection, zrows, zcols. rewrite combine3_map, map_map. apply map_ext_in. intros [[i j] v] Hin.
  cbn [fst snd erow ecol evl].
  apply in_kernel in Hin as (Hi & _ & _ & ->).
  rewrite (csr_repr_lookup n ip1 ix1 d1 A i j RA Hi), (csr_repr_lookup n ip2 ix2 d2 B i j RB Hi).
  rewrite (csr_fill_left d1 A (proj1 RA)), (csr_fill_right d2 B (proj1 RB)).
  destruct (inter_sides_nonneg false (right_fill RNum B) i j (proj1 (right_fill_range B EB))) as [Hl Hr].
  exact (inter_entry_val false w _ _ _ _ Hl Hr).
Qed.

(* A - B: result_val holds the values of A (stored a) when the kernel is called with right_complement=True *)
Corollary C18_src_complement_kernel (w : R) :
  let K := right_complement RNum n w A B in
  let val0 := map (fun e => stored RNum (Rentry_at A (erow RNum e) (ecol RNum e))) K in
  src_general_sset_intersection RNum ip1 ix1 d1 ip2 ix2 d2 (zrows K) (zcols K) val0 true w = map (evl RNum) K.
Proof.
  intros K val0. subst K val0. unfold right_complement. fold Rkernel.
  set (V := inter_val RNum true w (left_fill RNum A) (right_fill_compl RNum B)) in *.
  set (K := Rkernel n (left_only RNum) V A B) in *.
  rewrite src_general_sset_intersection_eq;
    [|unfold zrows; rewrite !map_length; reflexivity|unfold zcols; rewrite !map_length; reflexivity|apply (rows_ok_kernel n _ _ _ A); exact RA
     |apply (rows_ok_kernel n _ _ _ B); exact RB].
  unfold csr_intersection, zrows, zcols. rewrite combine3_map, map_map. apply map_ext_in. intros [[i j] v] Hin.
  cbn [fst snd erow ecol evl].
  apply in_kernel in Hin as (Hi & _ & _ & ->).
  rewrite (csr_repr_lookup n ip1 ix1 d1 A i j RA Hi), (csr_repr_lookup n ip2 ix2 d2 B i j RB Hi).
  rewrite (csr_fill_left d1 A (proj1 RA)), (csr_fill_right_compl d2 B (proj1 RB)).
  destruct (inter_sides_nonneg true (right_fill_compl RNum B) i j (proj1 (right_fill_compl_range B EB))) as [Hl Hr].
  exact (inter_entry_val true w _ _ _ _ Hl Hr).
Qed.

(* every value the three kernels leave in result_val is >= 0 (P_C18.C18_kernel_values, mix_weight = 0.5) *)
Corollary C18_src_kernel_nonneg :
  (forall val, length val = length (sset_union RNum n A B) ->
     Forall (fun v => 0 <= v) (src_general_sset_union RNum ip1 ix1 d1 ip2 ix2 d2 (zrows (sset_union RNum n A B)) (zcols (sset_union RNum n A B)) val)) /\
  (let K := sset_intersection RNum n (half RNum) A B in
   let val0 := map (fun e => stored RNum (Rentry_at A (erow RNum e) (ecol RNum e)) + stored RNum (Rentry_at B (erow RNum e) (ecol RNum e))) K in
   Forall (fun v => 0 <= v) (src_general_sset_intersection RNum ip1 ix1 d1 ip2 ix2 d2 (zrows K) (zcols K) val0 false (half RNum))) /\
  (let K := right_complement RNum n (half RNum) A B in
   let val0 := map (fun e => stored RNum (Rentry_at A (erow RNum e) (ecol RNum e))) K in
   Forall (fun v => 0 <= v) (src_general_sset_intersection RNum ip1 ix1 d1 ip2 ix2 d2 (zrows K) (zcols K) val0 true (half RNum))).
Proof.
  split; [|split].
  - intros val L. rewrite (C18_src_union_kernel val L). rewrite Forall_map. apply Forall_forall. intros [[i j] v] Hin.
    exact (nonneg_combine_kernel n Add A B EA EB i j v Hin).
  - cbv zeta. rewrite (C18_src_intersection_kernel (half RNum)). rewrite Forall_map. apply Forall_forall. intros [[i j] v] Hin.
    exact (nonneg_combine_kernel n Mul A B EA EB i j v Hin).
  - cbv zeta. rewrite (C18_src_complement_kernel (half RNum)). rewrite Forall_map. apply Forall_forall. intros [[i j] v] Hin.
    exact (nonneg_combine_kernel n Sub A B EA EB i j v Hin).
Qed.

(* the default arguments of the current source are the `*` operator's: right_complement=False, mix_weight=0.5; a call that relies on
   them computes M_combine's kernel of A * B *)
Corollary C18_src_intersection_defaults :
  src_general_sset_intersection_default_right_complement = false /\ src_general_sset_intersection_default_mix_weight RNum = half RNum.
Proof. split; [reflexivity|]. unfold src_general_sset_intersection_default_mix_weight. apply nlit_half. Qed.

Corollary C18_src_mul_kernel :
  let K := combine_kernel RNum n Mul A B in
  let val0 := map (fun e => stored RNum (Rentry_at A (erow RNum e) (ecol RNum e)) + stored RNum (Rentry_at B (erow RNum e) (ecol RNum e))) K in
  src_general_sset_intersection RNum ip1 ix1 d1 ip2 ix2 d2 (zrows K) (zcols K) val0
    src_general_sset_intersection_default_right_complement (src_general_sset_intersection_default_mix_weight RNum) = map (evl RNum) K.
Proof.
  destruct C18_src_intersection_defaults as [-> ->]. exact (C18_src_intersection_kernel (half RNum)).
Qed.

End OnRepr.

(* ---- closed form: every canonical entry list has a CSR form (T_csr.csr_repr_of_smat), so for all graphs A, B with stored values
        in (0,1], at most one stored entry per position and rows below n, the translated kernels applied to the CSR arrays of A and B
        (rows in order, as SciPy's tocsr() lays them out) and the skeleton of the model kernel write the model kernel's values ---------- *)
Definition cip (n : nat) (A : Rsmat) : list Z := rows_indptr (csr_rows n A).
Definition cix (n : nat) (A : Rsmat) : list Z := rows_indices (csr_rows n A).
Definition cdt (n : nat) (A : Rsmat) : list R := rows_data (csr_rows n A).

Corollary C18_src_kernels_of_smat (n : nat) (A B : Rsmat) :
  rows_below n A -> canonical_keys A -> entries01 A -> rows_below n B -> canonical_keys B -> entries01 B ->
  (forall val, length val = length (combine_kernel RNum n Add A B) ->
     src_general_sset_union RNum (cip n A) (cix n A) (cdt n A) (cip n B) (cix n B) (cdt n B)
       (zrows (combine_kernel RNum n Add A B)) (zcols (combine_kernel RNum n Add A B)) val = map (evl RNum) (combine_kernel RNum n Add A B)) /\
  (let K := combine_kernel RNum n Mul A B in
   let val0 := map (fun e => stored RNum (Rentry_at A (erow RNum e) (ecol RNum e)) + stored RNum (Rentry_at B (erow RNum e) (ecol RNum e))) K in
   src_general_sset_intersection RNum (cip n A) (cix n A) (cdt n A) (cip n B) (cix n B) (cdt n B) (zrows K) (zcols K) val0 false (half RNum)
   = map (evl RNum) K) /\
  (let K := combine_kernel RNum n Sub A B in
   let val0 := map (fun e => stored RNum (Rentry_at A (erow RNum e) (ecol RNum e))) K in
   src_general_sset_intersection RNum (cip n A) (cix n A) (cdt n A) (cip n B) (cix n B) (cdt n B) (zrows K) (zcols K) val0 true (half RNum)
   = map (evl RNum) K).
Proof.
  intros BA CA EA BB CB EB.
  pose proof (csr_repr_of_smat n A BA CA) as RA. pose proof (csr_repr_of_smat n B BB CB) as RB.
  split; [|split].
  - intros val L. exact (C18_src_union_kernel n _ _ _ _ _ _ A B RA RB val L).
  - exact (C18_src_intersection_kernel n _ _ _ _ _ _ A B RA RB EA EB (half RNum)).
  - exact (C18_src_complement_kernel n _ _ _ _ _ _ A B RA RB EA EB (half RNum)).
Qed.

(* non-vacuity: T_combine's example graphs in CSR form *)
Example csr_repr_ex_A : csr_repr 3 [0; 1; 2; 2]%Z [1; 0]%Z [1; 1] ex_A.
Proof.
  split; [apply Permutation_refl|]. intros i Hi.
  destruct i as [|[|[|i]]]; [| | |lia];
    (split; [unfold csr_ok; repeat split; try reflexivity; vm_compute; congruence|]); (split; [|reflexivity]); cbn; repeat constructor;
    cbn; intuition lia.
Qed.

Example csr_repr_ex_B : csr_repr 3 [0; 0; 1; 2]%Z [2; 1]%Z [/ 2; / 2] ex_B.
Proof.
  split; [apply Permutation_refl|]. intros i Hi.
  destruct i as [|[|[|i]]]; [| | |lia];
    (split; [unfold csr_ok; repeat split; try reflexivity; vm_compute; congruence|]); (split; [|reflexivity]); cbn; repeat constructor;
    cbn; intuition lia.
Qed.

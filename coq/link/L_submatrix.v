(* Link theorem for submatrix (umap/utils.py, C20): the Gallina text generated from the CURRENT source ([src_submatrix], module
   UVS.Src_utils_submatrix) equals [submatrix_model] of model/M_submatrix.v over every [Num] (no arithmetic is performed at
   all: the kernel only moves entries), for every table [dmat] (rectangular or not: iteration i reads row i only) and every
   rectangular index table with as many rows as [dmat] and n_neighbors columns.

   `numba.prange`: the source's two loops are parallel loops; the translator reads them as sequential `range` loops.  That is
   the meaning of the parallel loops here because iteration (i, j) writes the cell submat[i, j] only, which no other
   iteration reads or writes, and reads only the arguments [dmat], [indices_col], which no iteration writes: any
   interleaving gives the same array.

   Capstones: (a) every output entry is the entry of the same row of [dmat] at the listed column (a selection of row i);
   (b) when every row of [indices_col] is 0, 1, .., k-1 the result is [take_cols k dmat] -- the way the C20 model
   (model/M_knnparam.v) prunes a supplied table to its first k columns. *)
From Coq Require Import List ZArith Bool Lia.
From UV Require Import Num PyPrim PyPrimLemmas T_link T_link_arr T_link_mat T_link_fill M_knnparam M_submatrix.
From UVS Require Import Src_utils_submatrix.
Import ListNotations.

Section Generic.
Context (N : Num).

(* the inner loop on a zero row *)
Lemma gather_loop (row : list N) (cols : list Z) :
  for_range 0 (zlen cols) (fun j r => vset N r j (vnth N row (inth cols j))) (repeat (zero N) (length cols)) = gather_row N row cols.
Proof.
  unfold zlen.
  rewrite (PyPrimLemmas.for_range_ext (length cols) _ (fun j r => vset N r j ((fun k => vnth N row (nth k cols 0%Z)) (Z.to_nat j)))).
  - pose proof (for_range_fill N (fun k => vnth N row (nth k cols 0%Z)) (length cols)) as F.
    unfold vzeros in F. rewrite Nat2Z.id in F. rewrite F. unfold gather_row. apply map_seq_nth1.
  - intros k s _. cbv beta. rewrite Nat2Z.id, inth_of_nat. reflexivity.
Qed.

Theorem src_submatrix_eq (dmat : list (list N)) (indices_col : list (list Z)) (K : nat) :
  rect K indices_col -> length indices_col = length dmat ->
  src_submatrix N dmat indices_col (Z.of_nat K) = submatrix_model N dmat indices_col.
Proof.
  intros HK L. unfold src_submatrix. cbv zeta. unfold zlen at 1 2.
  rewrite (for_range_mfill N _
             (fun i r => for_range 0 (Z.of_nat K) (fun j r => vset N r j (vnth N (nth i dmat []) (inth (nth i indices_col []) j))) r)).
  - unfold submatrix_model. rewrite <- (map_seq_nth2 [] [] (fun a b => gather_row N a b) dmat indices_col) by (symmetry; exact L).
    apply map_ext_in. intros i Hi. apply in_seq in Hi.
    assert (LK : length (nth i indices_col []) = K) by (apply (rect_nth K indices_col i HK); lia).
    rewrite <- LK. apply gather_loop.
  - intros i P r S Hi.
    apply (for_range_row P S 0 (Z.of_nat K) _
             (fun j r => vset N r j (vnth N (nth i dmat []) (inth (nth i indices_col []) j)))).
    intros d r'. rewrite mnth_of_nat, imnth_row. apply mset_app_mid. exact Hi.
Qed.

Lemma submatrix_model_row (dmat : list (list N)) (indices_col : list (list Z)) (i : nat) :
  length indices_col = length dmat -> i < length dmat ->
  nth i (submatrix_model N dmat indices_col) [] = gather_row N (nth i dmat []) (nth i indices_col []).
Proof.
  intros L Hi. unfold submatrix_model.
  rewrite (nth_map_in _ _ i ([], [])) by (rewrite combine_length; lia).
  rewrite combine_nth by (symmetry; exact L). reflexivity.
Qed.

(* (a) shape and entries: row i, column j of the result is dmat[i][indices_col[i][j]] *)
Corollary src_submatrix_entry (dmat : list (list N)) (indices_col : list (list Z)) (K i j : nat) :
  rect K indices_col -> length indices_col = length dmat -> i < length dmat -> j < K ->
  nth j (nth i (src_submatrix N dmat indices_col (Z.of_nat K)) []) (zero N)
  = vnth N (nth i dmat []) (nth j (nth i indices_col []) 0%Z).
Proof.
  intros HK L Hi Hj. rewrite (src_submatrix_eq dmat indices_col K HK L).
  rewrite (submatrix_model_row dmat indices_col i L Hi). unfold gather_row.
  assert (LK : length (nth i indices_col []) = K) by (apply (rect_nth K indices_col i HK); lia).
  apply nth_map_in. lia.
Qed.

(* every output row is a selection of entries of the same input row (in-range, non-negative columns) *)
Corollary src_submatrix_row_incl (dmat : list (list N)) (indices_col : list (list Z)) (K i : nat) :
  rect K indices_col -> length indices_col = length dmat -> i < length dmat ->
  Forall (fun c => (0 <= c < zlen (nth i dmat []))%Z) (nth i indices_col []) ->
  incl (nth i (src_submatrix N dmat indices_col (Z.of_nat K)) []) (nth i dmat []).
Proof.
  intros HK L Hi Hc. rewrite (src_submatrix_eq dmat indices_col K HK L).
  rewrite (submatrix_model_row dmat indices_col i L Hi).
  intros x Hx. unfold gather_row in Hx. apply in_map_iff in Hx. destruct Hx as [c [<- Hin]].
  rewrite Forall_forall in Hc. specialize (Hc c Hin). unfold zlen in Hc.
  rewrite <- (Z2Nat.id c) by lia. rewrite vnth_of_nat. apply nth_In. lia.
Qed.

(* (b) identity columns: the first k columns of every row *)
Lemma gather_iota (row : list N) (k : nat) : k <= length row -> gather_row N row (map Z.of_nat (seq 0 k)) = firstn k row.
Proof.
  intros H. unfold gather_row. rewrite map_map.
  rewrite (map_ext _ (fun j => nth j row (zero N))) by (intros j; apply vnth_of_nat).
  revert row H. induction k as [|k IH]; intros row H; [reflexivity|].
  destruct row as [|a row]; [cbn in H; lia|]. cbn [seq map nth firstn]. f_equal.
  rewrite <- seq_shift, map_map. cbn [nth]. apply IH. cbn in H; lia.
Qed.

Corollary src_submatrix_take_cols (dmat : list (list N)) (k : nat) :
  Forall (fun r => k <= length r) dmat ->
  src_submatrix N dmat (repeat (map Z.of_nat (seq 0 k)) (length dmat)) (Z.of_nat k) = take_cols (Z.of_nat k) dmat.
Proof.
  intros H. rewrite (src_submatrix_eq dmat _ k).
  - unfold submatrix_model, take_cols. rewrite Nat2Z.id.
    induction H as [|r dmat Hr _ IH]; [reflexivity|]. cbn [length repeat combine map fst snd]. f_equal; [|exact IH].
    apply gather_iota. exact Hr.
  - unfold rect. apply Forall_forall. intros r Hr. apply repeat_spec in Hr. subst r. rewrite map_length, seq_length. reflexivity.
  - apply repeat_length.
Qed.
End Generic.

(* Link theorems for the serial generic-output-metric SGD epoch kernel of umap/layouts.py (C07):
   _optimize_layout_generic_single_epoch, translated twice by py2coq from the one source function:
     src__optimize_layout_generic_single_epoch_shared    tail_embedding IS head_embedding (fit)
     src__optimize_layout_generic_single_epoch_distinct  two arrays that do not overlap (transform)
   both FOR CALLS WITH output_metric_kwds == () (`empty_star`), with `output_metric` a function parameter [om] of the generated
   definitions (`fnargs`): a pure function of two rows returning (distance, FRESH gradient array).  The theorems quantify over every
   [om : ometric]; the only hypothesis on it is that the gradient of two D-vectors has D entries ([om_len]).
   Row views (`current`, `other`), the mutating callee tau_rand_int: as in L_sgd.v (PyPrim.v header).  Model: model/M_sgdg.v.

   Structure (as L_sgd.v): the loops of the generated text are named ([gattr_dloop_s/_d], [grep_dloop], [gneg_pbody_s/_d],
   [gedge_body_s/_d]); [src_sgdg_shared_unfold] / [src_sgdg_distinct_unfold] state that the generated definitions ARE these loops;
   the theorems are about the named loops and are then transported to the generated definitions. *)
From Coq Require Import List ZArith Bool Reals Lra Lia.
From UV Require Import Num PyPrim PyPrimLemmas T_link T_link_mat M_sgd M_sgdg T_link_sgd T_sgdg.
From UVS Require Import Src_layouts_generic.
Import ListNotations.

Theorem src_tau_rand_int_generic_eq (N : Num) (s0 s1 s2 : Z) :
  src_tau_rand_int N [s0; s1; s2] =
  let '((t0, t1, t2), r) := tau_rand_int (s0, s1, s2) in (r, [t0; t1; t2]).
Proof. reflexivity. Qed.

Theorem src_clip_generic_eq (v : R) : src_clip RNum v = clip RNum v.
Proof.
  unfold src_clip, clip, c4, c2, ngt, nlit. cbn. change (T RNum) with R in *.
  replace (1 + 1 + (1 + 1))%R with 4%R by lra. reflexivity.
Qed.

(* ---- the loops of the generated text, named -------------------------------------------------------------------------------- *)
Section Named.
Context (N : Num).

(* lines 486-492, tail_embedding is head_embedding *)
Definition gattr_dloop_s (gc alpha : N) (mo : bool) (g rg : list N) (cur oth dim : Z) (H : list (list N)) : list (list N) :=
  for_range 0%Z dim (fun d H =>
    let grad_d := src_clip N (mul N gc (vnth N g d)) in
    let H := mset N H cur d (add N (mnth N H cur d) (mul N grad_d alpha)) in
    let '(grad_d, H) := (if mo then
                           let grad_d := src_clip N (mul N gc (vnth N rg d)) in
                           let H := mset N H oth d (add N (mnth N H oth d) (mul N grad_d alpha)) in
                           (grad_d, H)
                         else (grad_d, H)) in
    H) H.
(* lines 486-492, two arrays *)
Definition gattr_dloop_d (gc alpha : N) (mo : bool) (g rg : list N) (cur oth dim : Z) (HT : list (list N) * list (list N)) :=
  for_range 0%Z dim (fun d '(H, T) =>
    let grad_d := src_clip N (mul N gc (vnth N g d)) in
    let H := mset N H cur d (add N (mnth N H cur d) (mul N grad_d alpha)) in
    let '(grad_d, T) := (if mo then
                           let grad_d := src_clip N (mul N gc (vnth N rg d)) in
                           let T := mset N T oth d (add N (mnth N T oth d) (mul N grad_d alpha)) in
                           (grad_d, T)
                         else (grad_d, T)) in
    (H, T)) HT.
(* lines 518-520: the tail array is not read *)
Definition grep_dloop (gc alpha : N) (g : list N) (cur dim : Z) (H : list (list N)) : list (list N) :=
  for_range 0%Z dim (fun d H =>
    let grad_d := src_clip N (mul N gc (vnth N g d)) in
    let H := mset N H cur d (add N (mnth N H cur d) (mul N grad_d alpha)) in
    H) H.

(* lines 480-483 / 507-508 and 484 / 516 *)
Definition src_w_pos (a b d : N) : N := npow N (add N (one N) (mul N a (npow N d (mul N (of_Z N 2) b)))) (of_Z N (Z.opp 1)).
Definition src_gattr_gc (a b d : N) : N :=
  div N (mul N (mul N (of_Z N 2) b) (sub N (if ngt N d (zero N) then src_w_pos a b d else one N) (one N))) (add N d (nlit N 1 (-6))).
Definition src_grep_gc (a b gamma d w : N) : N :=
  div N (mul N (mul N (mul N gamma (of_Z N 2)) b) w) (add N d (nlit N 1 (-6))).

Definition gpstate : Type := (Z * list (list Z) * Z * N * list N * N * N * list (list N))%type.
(* lines 498-520: one negative sample *)
Definition gneg_pbody_s (om : list N -> list N -> N * list N) (a b gamma alpha : N) (nv dim j cur : Z) (p : Z) (st : gpstate) : gpstate :=
  let '(k, rng, other, dd, g, w_l, gc, H) := st in
  let '(r, m) := src_tau_rand_int N (imrow rng j) in
  let rng := zset rng j m in
  let k := Z.modulo r nv in
  let other := k in
  let '(dd, g) := om (mrow N H cur) (mrow N H other) in
  if ngt N dd (zero N) then
    let w_l := src_w_pos a b dd in
    let gc := src_grep_gc a b gamma dd w_l in
    let H := grep_dloop gc alpha g cur dim H in
    (k, rng, other, dd, g, w_l, gc, H)
  else if Z.eqb j k then (k, rng, other, dd, g, w_l, gc, H)
  else
    let w_l := one N in
    let gc := src_grep_gc a b gamma dd w_l in
    let H := grep_dloop gc alpha g cur dim H in
    (k, rng, other, dd, g, w_l, gc, H).
Definition gneg_pbody_d (om : list N -> list N -> N * list N) (a b gamma alpha : N) (nv dim j cur : Z) (T : list (list N)) (p : Z) (st : gpstate) : gpstate :=
  let '(k, rng, other, dd, g, w_l, gc, H) := st in
  let '(r, m) := src_tau_rand_int N (imrow rng j) in
  let rng := zset rng j m in
  let k := Z.modulo r nv in
  let other := k in
  let '(dd, g) := om (mrow N H cur) (mrow N T other) in
  if ngt N dd (zero N) then
    let w_l := src_w_pos a b dd in
    let gc := src_grep_gc a b gamma dd w_l in
    let H := grep_dloop gc alpha g cur dim H in
    (k, rng, other, dd, g, w_l, gc, H)
  else if Z.eqb j k then (k, rng, other, dd, g, w_l, gc, H)
  else
    let w_l := one N in
    let gc := src_grep_gc a b gamma dd w_l in
    let H := grep_dloop gc alpha g cur dim H in
    (k, rng, other, dd, g, w_l, gc, H).

Definition gestate_s : Type := (list (list N) * list N * list (list Z) * list N)%type.     (* H, next, rng, nneg *)
(* lines 466-524 for edge i *)
Definition gedge_body_s (om : list N -> list N -> N * list N) (eps : list N) (head tail : list Z) (dim : Z) (alpha : N) (mo : bool) (n : Z)
                        (epns : list N) (nv : Z) (a b gamma : N) (i : Z) (st : gestate_s) : gestate_s :=
  let '(H, next, rng, nneg) := st in
  if leb N (vnth N next i) (of_Z N n) then
    let j := inth head i in
    let k := inth tail i in
    let '(dd, g) := om (mrow N H j) (mrow N H k) in
    let '(_, rg) := om (mrow N H k) (mrow N H j) in
    let w_l := (if ngt N dd (zero N) then src_w_pos a b dd else one N) in
    let gc := src_gattr_gc a b dd in
    let H := gattr_dloop_s gc alpha mo g rg j k dim H in
    let next := vset N next i (add N (vnth N next i) (vnth N eps i)) in
    let nn := ntrunc N (div N (sub N (of_Z N n) (vnth N nneg i)) (vnth N epns i)) in
    let '(_, rng, _, _, _, _, _, H) := for_range 0%Z nn (gneg_pbody_s om a b gamma alpha nv dim j j) (k, rng, k, dd, g, w_l, gc, H) in
    let nneg := vset N nneg i (add N (vnth N nneg i) (mul N (of_Z N nn) (vnth N epns i))) in
    (H, next, rng, nneg)
  else st.

Definition gestate_d : Type := (list (list N) * list (list N) * list N * list (list Z) * list N)%type.
Definition gedge_body_d (om : list N -> list N -> N * list N) (eps : list N) (head tail : list Z) (dim : Z) (alpha : N) (mo : bool) (n : Z)
                        (epns : list N) (nv : Z) (a b gamma : N) (i : Z) (st : gestate_d) : gestate_d :=
  let '(H, T, next, rng, nneg) := st in
  if leb N (vnth N next i) (of_Z N n) then
    let j := inth head i in
    let k := inth tail i in
    let '(dd, g) := om (mrow N H j) (mrow N T k) in
    let '(_, rg) := om (mrow N T k) (mrow N H j) in
    let w_l := (if ngt N dd (zero N) then src_w_pos a b dd else one N) in
    let gc := src_gattr_gc a b dd in
    let '(H, T) := gattr_dloop_d gc alpha mo g rg j k dim (H, T) in
    let next := vset N next i (add N (vnth N next i) (vnth N eps i)) in
    let nn := ntrunc N (div N (sub N (of_Z N n) (vnth N nneg i)) (vnth N epns i)) in
    let '(_, rng, _, _, _, _, _, H) := for_range 0%Z nn (gneg_pbody_d om a b gamma alpha nv dim j j T) (k, rng, k, dd, g, w_l, gc, H) in
    let nneg := vset N nneg i (add N (vnth N nneg i) (mul N (of_Z N nn) (vnth N epns i))) in
    (H, T, next, rng, nneg)
  else st.
End Named.

(* the generated definitions ARE these loops *)
Theorem src_sgdg_shared_unfold (N : Num) om eps next head tail H dim alpha mo n nneg epns rng nv a b gamma :
  src__optimize_layout_generic_single_epoch_shared N om eps next head tail H dim alpha mo n nneg epns rng nv a b gamma =
  let '(H, next, rng, nneg) := for_range 0%Z (zlen eps) (gedge_body_s N om eps head tail dim alpha mo n epns nv a b gamma) (H, next, rng, nneg) in
  (next, nneg, next, H, nneg, rng).
Proof.
  unfold src__optimize_layout_generic_single_epoch_shared, zlen.
  remember (for_range 0 (Z.of_nat (length eps)) (gedge_body_s N om eps head tail dim alpha mo n epns nv a b gamma) (H, next, rng, nneg)) as R eqn:ER.
  rewrite (for_range_ext (length eps) _ (gedge_body_s N om eps head tail dim alpha mo n epns nv a b gamma)); [rewrite <- ER; reflexivity|].
  intros i s _. unfold gestate_s in s. destruct s as [[[H0 nx0] rg0] ng0]. unfold gedge_body_s.
  destruct (leb N (vnth N nx0 (Z.of_nat i)) (of_Z N n)); [|reflexivity].
  cbv zeta.
  destruct (om (mrow N H0 (inth head (Z.of_nat i))) (mrow N H0 (inth tail (Z.of_nat i)))) as [dd g].
  destruct (om (mrow N H0 (inth tail (Z.of_nat i))) (mrow N H0 (inth head (Z.of_nat i)))) as [dd' rg].
  fold (src_w_pos N a b dd).
  change (div N (mul N (mul N (of_Z N 2) b) (sub N (if ngt N dd (zero N) then src_w_pos N a b dd else one N) (one N))) (add N dd (nlit N 1 (-6))))
    with (src_gattr_gc N a b dd).
  fold (gattr_dloop_s N).
  erewrite (for_range_ext_all _ _ _ (gneg_pbody_s N om a b gamma alpha nv dim (inth head (Z.of_nat i)) (inth head (Z.of_nat i)))).
  - destruct (for_range 0 (ntrunc N _) _ _) as [[[[[[[? ?] ?] ?] ?] ?] ?] ?]. reflexivity.
  - intros p [[[[[[[k0 rg1] o0] dd0] g0] w0] gc0] H1]. reflexivity.
Qed.

Theorem src_sgdg_distinct_unfold (N : Num) om eps next head tail H T dim alpha mo n nneg epns rng nv a b gamma :
  src__optimize_layout_generic_single_epoch_distinct N om eps next head tail H T dim alpha mo n nneg epns rng nv a b gamma =
  let '(H, T, next, rng, nneg) := for_range 0%Z (zlen eps) (gedge_body_d N om eps head tail dim alpha mo n epns nv a b gamma) (H, T, next, rng, nneg) in
  (next, nneg, next, H, T, nneg, rng).
Proof.
  unfold src__optimize_layout_generic_single_epoch_distinct, zlen.
  remember (for_range 0 (Z.of_nat (length eps)) (gedge_body_d N om eps head tail dim alpha mo n epns nv a b gamma) (H, T, next, rng, nneg)) as R eqn:ER.
  rewrite (for_range_ext (length eps) _ (gedge_body_d N om eps head tail dim alpha mo n epns nv a b gamma)); [rewrite <- ER; reflexivity|].
  intros i s _. unfold gestate_d in s. destruct s as [[[[H0 T0] nx0] rg0] ng0]. unfold gedge_body_d.
  destruct (leb N (vnth N nx0 (Z.of_nat i)) (of_Z N n)); [|reflexivity].
  cbv zeta.
  destruct (om (mrow N H0 (inth head (Z.of_nat i))) (mrow N T0 (inth tail (Z.of_nat i)))) as [dd g].
  destruct (om (mrow N T0 (inth tail (Z.of_nat i))) (mrow N H0 (inth head (Z.of_nat i)))) as [dd' rg].
  fold (src_w_pos N a b dd).
  change (div N (mul N (mul N (of_Z N 2) b) (sub N (if ngt N dd (zero N) then src_w_pos N a b dd else one N) (one N))) (add N dd (nlit N 1 (-6))))
    with (src_gattr_gc N a b dd).
  change (for_range 0 dim _ (H0, T0)) with
    (gattr_dloop_d N (src_gattr_gc N a b dd) alpha mo g rg (inth head (Z.of_nat i)) (inth tail (Z.of_nat i)) dim (H0, T0)).
  destruct (gattr_dloop_d _ _ _ _ _ _ _ _ _ _) as [H1 T1].
  erewrite (for_range_ext_all _ _ _ (gneg_pbody_d N om a b gamma alpha nv dim (inth head (Z.of_nat i)) (inth head (Z.of_nat i)) T1)).
  - destruct (for_range 0 (ntrunc N _) _ _) as [[[[[[[? ?] ?] ?] ?] ?] ?] ?]. reflexivity.
  - intros p [[[[[[[k0 rg1] o0] dd0] g0] w0] gc0] H2]. reflexivity.
Qed.

(* ---- (a) the attractive d-loop = the model's [gattract] ------------------------------------------------------------------------ *)
(* [gattract] of model/M_sgdg.v with the coefficient and the two gradients as parameters *)
Definition gattract_with (N : Num) (gc alpha : N) (mo : bool) (g rg : list N) (e : emb N) (j k : nat) : emb N :=
  let cur := nth j (eH N e) [] in
  let e1 := set_head N e j (map2 N (fun c gd => add N c (mul N (clip N (mul N gc gd)) alpha)) cur g) in
  if mo then set_tail N e1 k (map2 N (fun o gd => add N o (mul N (clip N (mul N gc gd)) alpha)) (get_tail N e1 k) rg) else e1.
Lemma gattract_gattract_with (N : Num) (om : ometric N) a b alpha mo e j k :
  gattract N om a b alpha mo e j k =
  gattract_with N (gattr_coeff N a b (fst (om (nth j (eH N e) []) (get_tail N e k)))) alpha mo
                (snd (om (nth j (eH N e) []) (get_tail N e k))) (snd (om (get_tail N e k) (nth j (eH N e) []))) e j k.
Proof. unfold gattract, gattract_with. destruct (om _ _) as [d g]. destruct (om _ _) as [d' rg]. reflexivity. Qed.

(* one coordinate of a gradient step *)
Definition gupd (N : Num) (gc alpha : N) : N -> N -> N := fun c gd => add N c (mul N (clip N (mul N gc gd)) alpha).

Section GAttract.
Context (N : Num) (Hclip : forall v : N, src_clip N v = clip N v).
Context (gc alpha : N) (mo : bool) (D : nat) (g rg : list N) (Lg : length g = D) (Lrg : length rg = D).

Ltac nat_level := rewrite ?mnth_nat, ?mset_nat, ?vnth_of_nat.
Local Notation upd1 := (gupd N gc alpha).

(* tail_embedding is head_embedding, j <> k *)
Lemma gattr_dloop_s_ne (H0 T0 : list (list N)) (j k : nat) :
  j < length H0 -> k < length H0 -> j <> k -> length (nth j H0 []) = D -> length (nth k H0 []) = D ->
  gattr_dloop_s N gc alpha mo g rg (Z.of_nat j) (Z.of_nat k) (Z.of_nat D) H0 = eH N (gattract_with N gc alpha mo g rg (mkEmb N H0 T0 true) j k).
Proof.
  intros Hj Hk Hne Lj Lk.
  set (cur := nth j H0 []). set (oth := nth k H0 []).
  set (newj := map2 N upd1 cur g).
  set (newk := if mo then map2 N upd1 oth rg else oth).
  assert (Lnj : length newj = length cur) by (unfold newj; rewrite map2_length; unfold cur; lia).
  assert (Lnk : length newk = length oth).
  { unfold newk. destruct mo; [|reflexivity]. rewrite map2_length; unfold oth; lia. }
  assert (Inv : gattr_dloop_s N gc alpha mo g rg (Z.of_nat j) (Z.of_nat k) (Z.of_nat D) H0 =
                set_nth_nat (set_nth_nat H0 j (mix D newj cur)) k (mix D newk oth)).
  { unfold gattr_dloop_s.
    apply (for_range_ind (fun c Hc => Hc = set_nth_nat (set_nth_nat H0 j (mix c newj cur)) k (mix c newk oth))).
    - rewrite !mix_0. unfold cur, oth.
      rewrite (set_nth_nat_id []), (set_nth_nat_id []). reflexivity.
    - intros c Hc Hlt ->. cbv zeta. nat_level.
      set (Rj := mix c newj cur). set (Rk := mix c newk oth).
      assert (Ej : nth j (set_nth_nat (set_nth_nat H0 j Rj) k Rk) [] = Rj).
      { rewrite nth_set_nth_nat_other by lia. apply nth_set_nth_nat_same. lia. }
      rewrite !Ej.
      assert (Ecj : nth c Rj (zero N) = nth c cur (zero N)) by apply mix_nth.
      assert (Eck : nth c Rk (zero N) = nth c oth (zero N)) by apply mix_nth.
      rewrite Ecj, !Hclip.
      assert (Enj : add N (nth c cur (zero N)) (mul N (clip N (mul N gc (nth c g (zero N)))) alpha) = nth c newj (zero N)).
      { unfold newj. rewrite nth_map2; [reflexivity| |]; unfold cur; lia. }
      rewrite Enj.
      assert (S1 : set_nth_nat Rj c (nth c newj (zero N)) = mix (Datatypes.S c) newj cur).
      { apply mix_set; [exact Lnj|unfold cur; lia]. }
      rewrite S1.
      assert (H1 : set_nth_nat (set_nth_nat (set_nth_nat H0 j Rj) k Rk) j (mix (Datatypes.S c) newj cur) =
                   set_nth_nat (set_nth_nat H0 j (mix (Datatypes.S c) newj cur)) k Rk).
      { rewrite (set_nth_nat_comm _ k j) by lia. rewrite set_nth_nat_twice. reflexivity. }
      rewrite H1.
      unfold newk in *. destruct mo.
      + assert (Ek' : nth k (set_nth_nat (set_nth_nat H0 j (mix (Datatypes.S c) newj cur)) k Rk) [] = Rk).
        { apply nth_set_nth_nat_same. rewrite set_nth_nat_length. lia. }
        rewrite !Ek', Eck.
        assert (Enk : add N (nth c oth (zero N)) (mul N (clip N (mul N gc (nth c rg (zero N)))) alpha) =
                      nth c (map2 N upd1 oth rg) (zero N)).
        { rewrite nth_map2; [reflexivity| |]; unfold oth; lia. }
        rewrite Enk. unfold Rk. rewrite mix_set by (try exact Lnk; unfold oth; lia).
        rewrite set_nth_nat_twice. reflexivity.
      + unfold Rk. rewrite !mix_same. reflexivity. }
  rewrite Inv.
  replace D with (length cur) at 1 by (unfold cur; lia). rewrite (mix_full newj cur Lnj).
  replace D with (length oth) by (unfold oth; lia). rewrite (mix_full newk oth Lnk).
  unfold gattract_with, newk. cbv zeta. destruct mo; cbn [eH eshared get_tail set_head set_tail];
    change (@upd (list N)) with (@set_nth_nat (list N)).
  - rewrite nth_set_nth_nat_other by lia. reflexivity.
  - rewrite (set_nth_nat_comm _ j k) by lia. unfold oth. rewrite (set_nth_nat_id []). reflexivity.
Qed.

(* tail_embedding is head_embedding, j = k: `other` is the row `current` just wrote *)
Lemma gattr_dloop_s_eq_jj (H0 T0 : list (list N)) (j : nat) :
  j < length H0 -> length (nth j H0 []) = D ->
  gattr_dloop_s N gc alpha mo g rg (Z.of_nat j) (Z.of_nat j) (Z.of_nat D) H0 = eH N (gattract_with N gc alpha mo g rg (mkEmb N H0 T0 true) j j).
Proof.
  intros Hj Lj.
  set (cur := nth j H0 []).
  set (new1 := map2 N upd1 cur g).
  set (new := if mo then map2 N upd1 new1 rg else new1).
  assert (Ln1 : length new1 = D) by (unfold new1; rewrite map2_length; unfold cur; lia).
  assert (Ln : length new = length cur).
  { unfold new. destruct mo; [rewrite map2_length|]; unfold cur; lia. }
  assert (Inv : gattr_dloop_s N gc alpha mo g rg (Z.of_nat j) (Z.of_nat j) (Z.of_nat D) H0 = set_nth_nat H0 j (mix D new cur)).
  { unfold gattr_dloop_s.
    apply (for_range_ind (fun c Hc => Hc = set_nth_nat H0 j (mix c new cur))).
    - rewrite mix_0. unfold cur. rewrite (set_nth_nat_id []). reflexivity.
    - intros c Hc Hlt ->. cbv zeta. nat_level.
      set (R := mix c new cur).
      assert (LR : length R = D) by (unfold R; rewrite mix_length; unfold cur; lia).
      assert (Ej : forall X, nth j (set_nth_nat H0 j X) [] = X) by (intros X; apply nth_set_nth_nat_same; lia).
      rewrite !Ej.
      assert (Ec : nth c R (zero N) = nth c cur (zero N)) by apply mix_nth.
      rewrite Ec, !Hclip.
      assert (En1 : add N (nth c cur (zero N)) (mul N (clip N (mul N gc (nth c g (zero N)))) alpha) = nth c new1 (zero N)).
      { unfold new1. rewrite nth_map2; [reflexivity| |]; unfold cur; lia. }
      rewrite En1, !set_nth_nat_twice.
      unfold new in *. destruct mo.
      + rewrite !Ej.
        rewrite nth_set_nth_nat_same by lia. rewrite set_nth_nat_twice.
        assert (En : add N (nth c new1 (zero N)) (mul N (clip N (mul N gc (nth c rg (zero N)))) alpha) =
                     nth c (map2 N upd1 new1 rg) (zero N)).
        { rewrite nth_map2; [reflexivity| |]; lia. }
        rewrite En. unfold R. rewrite mix_set by (try exact Ln; unfold cur; lia). reflexivity.
      + unfold R. rewrite mix_set by (try exact Ln; unfold cur; lia). reflexivity. }
  rewrite Inv.
  replace D with (length cur) by (unfold cur; lia). rewrite (mix_full new cur Ln).
  unfold gattract_with, new. cbv zeta. destruct mo; cbn [eH eshared get_tail set_head set_tail];
    change (@upd (list N)) with (@set_nth_nat (list N)).
  - rewrite nth_set_nth_nat_same by lia. rewrite set_nth_nat_twice. reflexivity.
  - reflexivity.
Qed.

(* (a), fit: the translated attractive d-loop is the model's attractive move, for every pair of vertices (also j = k) *)
Theorem gattr_dloop_s_eq (H0 T0 : list (list N)) (j k : nat) :
  j < length H0 -> k < length H0 -> rect D H0 ->
  gattr_dloop_s N gc alpha mo g rg (Z.of_nat j) (Z.of_nat k) (Z.of_nat D) H0 = eH N (gattract_with N gc alpha mo g rg (mkEmb N H0 T0 true) j k).
Proof.
  intros Hj Hk HR.
  assert (Lj := rect_nth D H0 j HR Hj). assert (Lk := rect_nth D H0 k HR Hk).
  destruct (Nat.eq_dec j k) as [->|Hne]; [apply gattr_dloop_s_eq_jj|apply gattr_dloop_s_ne]; assumption.
Qed.

(* (a), transform: two arrays *)
Theorem gattr_dloop_d_eq (H0 T0 : list (list N)) (j k : nat) :
  j < length H0 -> k < length T0 -> length (nth j H0 []) = D -> length (nth k T0 []) = D ->
  gattr_dloop_d N gc alpha mo g rg (Z.of_nat j) (Z.of_nat k) (Z.of_nat D) (H0, T0) =
  let e := gattract_with N gc alpha mo g rg (mkEmb N H0 T0 false) j k in (eH N e, eT N e).
Proof.
  intros Hj Hk Lj Lk.
  set (cur := nth j H0 []). set (oth := nth k T0 []).
  set (newj := map2 N upd1 cur g).
  set (newk := if mo then map2 N upd1 oth rg else oth).
  assert (Lnj : length newj = length cur) by (unfold newj; rewrite map2_length; unfold cur; lia).
  assert (Lnk : length newk = length oth).
  { unfold newk. destruct mo; [|reflexivity]. rewrite map2_length; unfold oth; lia. }
  assert (Inv : gattr_dloop_d N gc alpha mo g rg (Z.of_nat j) (Z.of_nat k) (Z.of_nat D) (H0, T0) =
                (set_nth_nat H0 j (mix D newj cur), set_nth_nat T0 k (mix D newk oth))).
  { unfold gattr_dloop_d.
    apply (for_range_ind (fun c (HT : list (list N) * list (list N)) => HT = (set_nth_nat H0 j (mix c newj cur), set_nth_nat T0 k (mix c newk oth)))).
    - rewrite !mix_0. unfold cur, oth. rewrite !(set_nth_nat_id []). reflexivity.
    - intros c HT Hlt ->. cbv zeta. nat_level.
      set (Rj := mix c newj cur). set (Rk := mix c newk oth).
      assert (Ej : forall X, nth j (set_nth_nat H0 j X) [] = X) by (intros X; apply nth_set_nth_nat_same; lia).
      assert (Ek : forall X, nth k (set_nth_nat T0 k X) [] = X) by (intros X; apply nth_set_nth_nat_same; lia).
      rewrite !Ej, ?Ek.
      assert (Ecj : nth c Rj (zero N) = nth c cur (zero N)) by apply mix_nth.
      assert (Eck : nth c Rk (zero N) = nth c oth (zero N)) by apply mix_nth.
      rewrite Ecj, ?Eck, !Hclip.
      assert (Enj : add N (nth c cur (zero N)) (mul N (clip N (mul N gc (nth c g (zero N)))) alpha) = nth c newj (zero N)).
      { unfold newj. rewrite nth_map2; [reflexivity| |]; unfold cur; lia. }
      rewrite Enj, !set_nth_nat_twice.
      unfold Rj. rewrite mix_set by (try exact Lnj; unfold cur; lia).
      unfold newk in *. destruct mo.
      + rewrite ?Ek, ?Eck, ?set_nth_nat_twice.
        assert (Enk : add N (nth c oth (zero N)) (mul N (clip N (mul N gc (nth c rg (zero N)))) alpha) =
                      nth c (map2 N upd1 oth rg) (zero N)).
        { rewrite nth_map2; [reflexivity| |]; unfold oth; lia. }
        rewrite Enk. unfold Rk. rewrite mix_set by (try exact Lnk; unfold oth; lia). reflexivity.
      + unfold Rk. rewrite !mix_same. reflexivity. }
  rewrite Inv.
  replace D with (length cur) at 1 by (unfold cur; lia). rewrite (mix_full newj cur Lnj).
  replace D with (length oth) by (unfold oth; lia). rewrite (mix_full newk oth Lnk).
  unfold gattract_with, newk. cbv zeta. destruct mo; cbn [eH eT eshared get_tail set_head set_tail];
    change (@upd (list N)) with (@set_nth_nat (list N)).
  - reflexivity.
  - unfold oth. rewrite (set_nth_nat_id []). reflexivity.
Qed.

End GAttract.

Section GRepel.
Context (N : Num) (Hclip : forall v : N, src_clip N v = clip N v).
Context (gc alpha : N) (D : nat) (g : list N) (Lg : length g = D).
Local Notation upd1 := (gupd N gc alpha).
(* (b) the repulsive d-loop: row j gets its gradient step; no other row (and not the tail array) is read *)
Theorem grep_dloop_eq (H0 : list (list N)) (j : nat) :
  j < length H0 -> length (nth j H0 []) = D ->
  grep_dloop N gc alpha g (Z.of_nat j) (Z.of_nat D) H0 = set_nth_nat H0 j (map2 N upd1 (nth j H0 []) g).
Proof.
  intros Hj Lj.
  set (cur := nth j H0 []) in *.
  set (new := map2 N upd1 cur g).
  assert (Ln : length new = length cur) by (unfold new; rewrite map2_length; lia).
  assert (Inv : grep_dloop N gc alpha g (Z.of_nat j) (Z.of_nat D) H0 = set_nth_nat H0 j (mix D new cur)).
  { unfold grep_dloop.
    apply (for_range_ind (fun c Hc => Hc = set_nth_nat H0 j (mix c new cur))).
    - rewrite mix_0. unfold cur. rewrite (set_nth_nat_id []). reflexivity.
    - intros c Hc Hlt ->. cbv zeta. rewrite ?mnth_nat, ?mset_nat, ?vnth_of_nat.
      set (R := mix c new cur).
      assert (Ej : nth j (set_nth_nat H0 j R) [] = R) by (apply nth_set_nth_nat_same; lia).
      assert (Ec : nth c R (zero N) = nth c cur (zero N)) by apply mix_nth.
      rewrite !Ej, !Ec, Hclip, set_nth_nat_twice.
      assert (En : add N (nth c cur (zero N)) (mul N (clip N (mul N gc (nth c g (zero N)))) alpha) = nth c new (zero N)).
      { unfold new. rewrite nth_map2 by lia. reflexivity. }
      rewrite En. unfold R. rewrite mix_set by lia. reflexivity. }
  rewrite Inv. replace D with (length cur) by lia. rewrite (mix_full new cur Ln). reflexivity.
Qed.
End GRepel.

(* ---- (b) one negative sample = [grepel]; the p-loop = [gneg_loop]  (over the reals: the source writes 2, -1, 1e-6 as literals, the
        model as 1+1, -(1), 1/10^6) ------------------------------------------------------------------------------------------------ *)
Definition gpproj {N : Num} (st : gpstate N) : list (list Z) * list (list N) := let '(_, rng, _, _, _, _, _, H) := st in (rng, H).

Lemma grepel_shape (N : Num) (om : ometric N) a b gamma alpha (e : emb N) j k :
  grepel N om a b gamma alpha e j k = mkEmb N (eH N (grepel N om a b gamma alpha e j k)) (eT N e) (eshared N e).
Proof. unfold grepel. destruct (om _ _) as [d g]. destruct (_ || _); [reflexivity|]. destruct e; reflexivity. Qed.

Lemma Zeqb_of_nat (j k : nat) : Z.eqb (Z.of_nat j) (Z.of_nat k) = Nat.eqb j k.
Proof. destruct (Nat.eqb_spec j k) as [->|Hne]; [apply Z.eqb_refl|]. apply Z.eqb_neq. lia. Qed.

Section GNegR.
Context (om : ometric RNum) (a b gamma alpha : R) (nv : Z) (D : nat).
(* the only hypothesis on the output metric: the gradient of two D-vectors has D entries *)
Context (om_len : forall x y : list R, length x = D -> length y = D -> length (snd (om x y)) = D).

Lemma src_grep_gc_pos (d : R) : Rltb 0%R d = true ->
  src_grep_gc RNum a b gamma d (src_w_pos RNum a b d) = grep_coeff RNum a b gamma d.
Proof.
  intros E. unfold src_grep_gc, grep_coeff, w_low, src_w_pos. change (ltb RNum (zero RNum) d) with (Rltb 0%R d). rewrite E.
  replace (of_Z RNum 2) with (c2 RNum) by (unfold c2; cbn; lra).
  replace (of_Z RNum (Z.opp 1)) with (neg RNum (one RNum)) by (cbn; lra).
  replace (nlit RNum 1 (-6)) with (c1e6 RNum) by (unfold nlit, c1e6; cbn; lra).
  reflexivity.
Qed.
Lemma src_grep_gc_nonpos (d : R) : Rltb 0%R d = false ->
  src_grep_gc RNum a b gamma d (one RNum) = grep_coeff RNum a b gamma d.
Proof.
  intros E. unfold src_grep_gc, grep_coeff, w_low. change (ltb RNum (zero RNum) d) with (Rltb 0%R d). rewrite E.
  replace (of_Z RNum 2) with (c2 RNum) by (unfold c2; cbn; lra).
  replace (nlit RNum 1 (-6)) with (c1e6 RNum) by (unfold nlit, c1e6; cbn; lra).
  reflexivity.
Qed.
Lemma src_gattr_gc_eq (d : R) : src_gattr_gc RNum a b d = gattr_coeff RNum a b d.
Proof.
  unfold src_gattr_gc, gattr_coeff, w_low, src_w_pos, ngt.
  replace (of_Z RNum 2) with (c2 RNum) by (unfold c2; cbn; lra).
  replace (of_Z RNum (Z.opp 1)) with (neg RNum (one RNum)) by (cbn; lra).
  replace (nlit RNum 1 (-6)) with (c1e6 RNum) by (unfold nlit, c1e6; cbn; lra).
  reflexivity.
Qed.

(* one iteration of the p-loop, tail_embedding is head_embedding *)
Theorem gneg_pbody_s_eq (H T0 : list (list R)) (j : nat) (rng : list (list Z)) (st : rng3) (k0 o0 p : Z) (dd0 : R) (g0 : list R) (w0 gc0 : R) :
  j < length H -> rect D H -> (0 < nv <= Z.of_nat (length H))%Z -> nth j rng [] = row_of st ->
  gpproj (gneg_pbody_s RNum om a b gamma alpha nv (Z.of_nat D) (Z.of_nat j) (Z.of_nat j) p (k0, rng, o0, dd0, g0, w0, gc0, H)) =
  let '(st', r) := tau_rand_int st in
  (set_nth_nat rng j (row_of st'), eH RNum (grepel RNum om a b gamma alpha (mkEmb RNum H T0 true) j (Z.to_nat (r mod nv)))).
Proof.
  intros Hj HR Hnv Hrow. destruct st as [[s0 s1] s2]. cbn [row_of] in Hrow.
  unfold gneg_pbody_s. unfold imrow. rewrite znth_of_nat, Hrow, src_tau_rand_int_generic_eq.
  destruct (tau_rand_int (s0, s1, s2)) as [[[t0 t1] t2] r]. cbv zeta. rewrite zset_of_nat.
  assert (Hk : (0 <= r mod nv < nv)%Z) by (apply Z.mod_pos_bound; lia).
  set (kn := Z.to_nat (r mod nv)). assert (Ek : (r mod nv)%Z = Z.of_nat kn) by (unfold kn; rewrite Z2Nat.id; lia).
  assert (Hkn : (kn < length H)%nat) by lia.
  rewrite Ek, !mrow_nat.
  assert (Lj := rect_nth D H j HR Hj). assert (Lk := rect_nth D H kn HR Hkn).
  unfold grepel. cbn [eH eshared get_tail].
  pose proof (om_len (nth j H []) (nth kn H []) Lj Lk) as Lg.
  change (T RNum) with R in *.
  destruct (om (nth j H []) (nth kn H [])) as [dd g]. cbn [snd] in Lg.
  unfold ngt. change (ltb RNum (zero RNum) dd) with (Rltb 0%R dd).
  destruct (Rltb 0%R dd) eqn:E.
  - cbn [orb gpproj]. rewrite (src_grep_gc_pos dd E).
    rewrite (grep_dloop_eq RNum src_clip_generic_eq _ alpha D g Lg H j Hj Lj). cbn [eH set_head]. reflexivity.
  - cbn [orb]. rewrite Zeqb_of_nat. destruct (Nat.eqb j kn); cbn [negb]; [reflexivity|].
    cbn [gpproj]. rewrite (src_grep_gc_nonpos dd E).
    rewrite (grep_dloop_eq RNum src_clip_generic_eq _ alpha D g Lg H j Hj Lj). cbn [eH set_head]. reflexivity.
Qed.

(* one iteration of the p-loop, two arrays *)
Theorem gneg_pbody_d_eq (H T0 : list (list R)) (j : nat) (rng : list (list Z)) (st : rng3) (k0 o0 p : Z) (dd0 : R) (g0 : list R) (w0 gc0 : R) :
  j < length H -> rect D H -> rect D T0 -> (0 < nv <= Z.of_nat (length T0))%Z -> nth j rng [] = row_of st ->
  gpproj (gneg_pbody_d RNum om a b gamma alpha nv (Z.of_nat D) (Z.of_nat j) (Z.of_nat j) T0 p (k0, rng, o0, dd0, g0, w0, gc0, H)) =
  let '(st', r) := tau_rand_int st in
  (set_nth_nat rng j (row_of st'), eH RNum (grepel RNum om a b gamma alpha (mkEmb RNum H T0 false) j (Z.to_nat (r mod nv)))).
Proof.
  intros Hj HR HRT Hnv Hrow. destruct st as [[s0 s1] s2]. cbn [row_of] in Hrow.
  unfold gneg_pbody_d. unfold imrow. rewrite znth_of_nat, Hrow, src_tau_rand_int_generic_eq.
  destruct (tau_rand_int (s0, s1, s2)) as [[[t0 t1] t2] r]. cbv zeta. rewrite zset_of_nat.
  assert (Hk : (0 <= r mod nv < nv)%Z) by (apply Z.mod_pos_bound; lia).
  set (kn := Z.to_nat (r mod nv)). assert (Ek : (r mod nv)%Z = Z.of_nat kn) by (unfold kn; rewrite Z2Nat.id; lia).
  assert (Hkn : (kn < length T0)%nat) by lia.
  rewrite Ek, !mrow_nat.
  assert (Lj := rect_nth D H j HR Hj). assert (Lk := rect_nth D T0 kn HRT Hkn).
  unfold grepel. cbn [eH eT eshared get_tail].
  pose proof (om_len (nth j H []) (nth kn T0 []) Lj Lk) as Lg.
  change (T RNum) with R in *.
  destruct (om (nth j H []) (nth kn T0 [])) as [dd g]. cbn [snd] in Lg.
  unfold ngt. change (ltb RNum (zero RNum) dd) with (Rltb 0%R dd).
  destruct (Rltb 0%R dd) eqn:E.
  - cbn [orb gpproj]. rewrite (src_grep_gc_pos dd E).
    rewrite (grep_dloop_eq RNum src_clip_generic_eq _ alpha D g Lg H j Hj Lj). cbn [eH set_head]. reflexivity.
  - cbn [orb]. rewrite Zeqb_of_nat. destruct (Nat.eqb j kn); cbn [negb]; [reflexivity|].
    cbn [gpproj]. rewrite (src_grep_gc_nonpos dd E).
    rewrite (grep_dloop_eq RNum src_clip_generic_eq _ alpha D g Lg H j Hj Lj). cbn [eH set_head]. reflexivity.
Qed.

Lemma grepel_wf (e : emb RNum) (j k : nat) :
  rect D (eH RNum e) -> length (nth j (eH RNum e) []) = D -> length (get_tail RNum e k) = D ->
  rect D (eH RNum (grepel RNum om a b gamma alpha e j k)) /\ length (eH RNum (grepel RNum om a b gamma alpha e j k)) = length (eH RNum e).
Proof.
  intros HR Lj Lk. unfold grepel. pose proof (om_len _ _ Lj Lk) as Lg. destruct (om _ _) as [d g]. cbn [snd] in Lg.
  destruct (_ || _); [|split; [exact HR|reflexivity]].
  cbn [eH set_head]. change (@upd (list RNum)) with (@set_nth_nat (list RNum)). split.
  - apply rect_set; [exact HR|]. rewrite map2_length; lia.
  - apply set_nth_nat_length.
Qed.

(* the p-loop = [gneg_loop], tail_embedding is head_embedding *)
Theorem gneg_iter_s (T0 : list (list R)) (j : nat) : forall (n : nat) (H : list (list R)) (rng : list (list Z)) (st : rng3) (k0 o0 : Z) (dd0 : R) (g0 : list R) (w0 gc0 : R),
  j < length H -> rect D H -> (0 < nv <= Z.of_nat (length H))%Z -> j < length rng -> nth j rng [] = row_of st ->
  gpproj (iter_l n (gneg_pbody_s RNum om a b gamma alpha nv (Z.of_nat D) (Z.of_nat j) (Z.of_nat j) 0%Z) (k0, rng, o0, dd0, g0, w0, gc0, H)) =
  let '(e', st') := gneg_loop RNum om n a b gamma alpha nv (mkEmb RNum H T0 true) j st in (set_nth_nat rng j (row_of st'), eH RNum e').
Proof.
  induction n as [|n IH]; intros H rng st k0 o0 dd0 g0 w0 gc0 Hj HR Hnv Hjr Hrow.
  - cbn [iter_l gneg_loop gpproj eH]. rewrite <- Hrow, (set_nth_nat_id []). reflexivity.
  - cbn [iter_l gneg_loop].
    pose proof (gneg_pbody_s_eq H T0 j rng st k0 o0 0%Z dd0 g0 w0 gc0 Hj HR Hnv Hrow) as P.
    destruct (gneg_pbody_s _ _ _ _ _ _ _ _ _ _ _ _) as [[[[[[[k1 rng1] o1] dd1] g1] w1] gc1] H1]. cbn [gpproj] in P.
    destruct (tau_rand_int st) as [st' r]. injection P as -> ->.
    set (kn := Z.to_nat (r mod nv)).
    assert (Hk : (0 <= r mod nv < nv)%Z) by (apply Z.mod_pos_bound; lia).
    assert (Hkn : (kn < length H)%nat) by (unfold kn; lia).
    destruct (grepel_wf (mkEmb RNum H T0 true) j kn) as [HR' HL'];
      [exact HR|apply (rect_nth D H j HR Hj)|apply (rect_nth D H kn HR Hkn)|]. cbn [eH] in HL'.
    change (T RNum) with R in *. rewrite (IH _ _ st'); [|lia|exact HR'|lia|rewrite set_nth_nat_length; lia|apply nth_set_nth_nat_same; lia].
    assert (Es : grepel RNum om a b gamma alpha (mkEmb RNum H T0 true) j kn =
                 mkEmb RNum (eH RNum (grepel RNum om a b gamma alpha (mkEmb RNum H T0 true) j kn)) T0 true)
      by (apply (grepel_shape RNum om a b gamma alpha (mkEmb RNum H T0 true) j kn)).
    change (T RNum) with R in *. rewrite <- Es.
    destruct (gneg_loop _ _ _ _ _ _ _ _ _ _ _) as [e'' st'']. rewrite set_nth_nat_twice. reflexivity.
Qed.

Theorem gneg_iter_d (T0 : list (list R)) (j : nat) : forall (n : nat) (H : list (list R)) (rng : list (list Z)) (st : rng3) (k0 o0 : Z) (dd0 : R) (g0 : list R) (w0 gc0 : R),
  j < length H -> rect D H -> rect D T0 -> (0 < nv <= Z.of_nat (length T0))%Z -> j < length rng -> nth j rng [] = row_of st ->
  gpproj (iter_l n (gneg_pbody_d RNum om a b gamma alpha nv (Z.of_nat D) (Z.of_nat j) (Z.of_nat j) T0 0%Z) (k0, rng, o0, dd0, g0, w0, gc0, H)) =
  let '(e', st') := gneg_loop RNum om n a b gamma alpha nv (mkEmb RNum H T0 false) j st in (set_nth_nat rng j (row_of st'), eH RNum e').
Proof.
  induction n as [|n IH]; intros H rng st k0 o0 dd0 g0 w0 gc0 Hj HR HRT Hnv Hjr Hrow.
  - cbn [iter_l gneg_loop gpproj eH]. rewrite <- Hrow, (set_nth_nat_id []). reflexivity.
  - cbn [iter_l gneg_loop].
    pose proof (gneg_pbody_d_eq H T0 j rng st k0 o0 0%Z dd0 g0 w0 gc0 Hj HR HRT Hnv Hrow) as P.
    destruct (gneg_pbody_d _ _ _ _ _ _ _ _ _ _ _ _ _) as [[[[[[[k1 rng1] o1] dd1] g1] w1] gc1] H1]. cbn [gpproj] in P.
    destruct (tau_rand_int st) as [st' r]. injection P as -> ->.
    set (kn := Z.to_nat (r mod nv)).
    assert (Hk : (0 <= r mod nv < nv)%Z) by (apply Z.mod_pos_bound; lia).
    assert (Hkn : (kn < length T0)%nat) by (unfold kn; lia).
    destruct (grepel_wf (mkEmb RNum H T0 false) j kn) as [HR' HL'];
      [exact HR|apply (rect_nth D H j HR Hj)|apply (rect_nth D T0 kn HRT Hkn)|]. cbn [eH] in HL'.
    change (T RNum) with R in *. rewrite (IH _ _ st'); [|lia|exact HR'|exact HRT|lia|rewrite set_nth_nat_length; lia|apply nth_set_nth_nat_same; lia].
    assert (Es : grepel RNum om a b gamma alpha (mkEmb RNum H T0 false) j kn =
                 mkEmb RNum (eH RNum (grepel RNum om a b gamma alpha (mkEmb RNum H T0 false) j kn)) T0 false)
      by (apply (grepel_shape RNum om a b gamma alpha (mkEmb RNum H T0 false) j kn)).
    change (T RNum) with R in *. rewrite <- Es.
    destruct (gneg_loop _ _ _ _ _ _ _ _ _ _ _) as [e'' st'']. rewrite set_nth_nat_twice. reflexivity.
Qed.
End GNegR.

(* ---- (c) one edge = [gedge_step]; the loop over the edges = [gedges_from] / [gepoch] -------------------------------------------- *)
Lemma gattract_with_wfe (gc alpha : R) (mo : bool) (D : nat) (g rg : list R) sh nH nT (e : emb RNum) j k :
  length g = D -> length rg = D -> wfe RNum D sh nH nT e -> j < nH -> k < (if sh then nH else nT) ->
  wfe RNum D sh nH nT (gattract_with RNum gc alpha mo g rg e j k).
Proof.
  intros Lg Lrg W Hj Hk. pose proof W as (HR & HL & HRT & HLT & HS).
  assert (Lj : length (nth j (eH RNum e) []) = D) by (apply (rect_nth D _ j HR); lia).
  unfold gattract_with. cbv zeta.
  set (e1 := set_head RNum e j _).
  assert (W1 : wfe RNum D sh nH nT e1).
  { unfold e1. apply set_head_wfe; [exact W|]. rewrite map2_length; change (T RNum) with R in *; lia. }
  destruct mo; [|exact W1].
  apply set_tail_wfe; [exact W1|].
  pose proof (tail_len RNum D sh nH nT e1 k W1 Hk) as Lk1. rewrite map2_length; change (T RNum) with R in *; lia.
Qed.

Section GEdgeR.
Context (om : ometric RNum) (a b gamma alpha : R) (mo : bool) (nv : Z) (D : nat).
Context (om_len : forall x y : list R, length x = D -> length y = D -> length (snd (om x y)) = D).

Lemma grepel_wfe sh nH nT e j k : wfe RNum D sh nH nT e -> j < nH -> k < (if sh then nH else nT) ->
  wfe RNum D sh nH nT (grepel RNum om a b gamma alpha e j k).
Proof.
  intros W Hj Hk. pose proof W as (HR & HL & HRT & HLT & HS).
  destruct (grepel_wf om a b gamma alpha D om_len e j k HR) as [HR' HL'];
    [apply (rect_nth D _ j HR); lia|apply (tail_len RNum D sh nH nT e k W Hk)|].
  rewrite (grepel_shape RNum om a b gamma alpha e j k). repeat split; cbn [eH eT eshared]; auto. lia.
Qed.

Lemma gneg_loop_wfe sh nH nT j : forall n e st, wfe RNum D sh nH nT e -> j < nH -> (0 < nv <= Z.of_nat (if sh then nH else nT))%Z ->
  wfe RNum D sh nH nT (fst (gneg_loop RNum om n a b gamma alpha nv e j st)).
Proof.
  induction n as [|n IH]; intros e st W Hj Hnv; [exact W|].
  cbn [gneg_loop]. destruct (tau_rand_int st) as [st' r].
  assert (Hk : (0 <= r mod nv < nv)%Z) by (apply Z.mod_pos_bound; lia).
  apply IH; auto. apply grepel_wfe; auto. lia.
Qed.

Lemma gattract_wfe sh nH nT e j k : wfe RNum D sh nH nT e -> j < nH -> k < (if sh then nH else nT) ->
  wfe RNum D sh nH nT (gattract RNum om a b alpha mo e j k).
Proof.
  intros W Hj Hk. pose proof W as (HR & HL & HRT & HLT & HS).
  assert (Lj : length (nth j (eH RNum e) []) = D) by (apply (rect_nth D _ j HR); lia).
  assert (Lk := tail_len RNum D sh nH nT e k W Hk).
  rewrite gattract_gattract_with. apply gattract_with_wfe; auto.
Qed.

Definition gabs_s (s : sgd_state RNum) : gestate_s RNum :=
  (eH RNum (s_emb RNum s), s_next RNum s, map row_of (s_rng RNum s), s_nneg RNum s).

Lemma gneg_pbody_s_const a' b' g' al' nv' dim' j' c' (p q : Z) (st : gpstate RNum) :
  gneg_pbody_s RNum om a' b' g' al' nv' dim' j' c' p st = gneg_pbody_s RNum om a' b' g' al' nv' dim' j' c' q st.
Proof. reflexivity. Qed.

(* (c) lines 466-524 for edge i, tail_embedding is head_embedding *)
Theorem gedge_body_s_eq (head tail : list Z) (eps epns : list R) (n : Z) (i : nat) (s : sgd_state RNum) (nH nT jn kn : nat) :
  wfe RNum D true nH nT (s_emb RNum s) -> length (s_rng RNum s) = nH -> (0 < nv <= Z.of_nat nH)%Z ->
  inth head (Z.of_nat i) = Z.of_nat jn -> inth tail (Z.of_nat i) = Z.of_nat kn -> jn < nH -> kn < nH ->
  gedge_body_s RNum om eps head tail (Z.of_nat D) alpha mo n epns nv a b gamma (Z.of_nat i) (gabs_s s) =
  gabs_s (gedge_step RNum om a b gamma alpha mo nv (IZR n) s i (mkEdge RNum jn kn (nth i eps 0%R) (nth i epns 0%R))).
Proof.
  intros W Lr Hnv Hh Ht Hj Hk. destruct s as [e next nneg rngs]. destruct e as [H Tl sh].
  pose proof W as (HR & HL & HRT & HLT & HS). cbn [s_emb s_rng eH eT eshared] in *. subst sh.
  unfold gedge_body_s, gedge_step, gabs_s. cbn [s_emb s_next s_nneg s_rng e_head e_tail e_eps e_epns eH].
  rewrite !vnth_of_nat. change (of_Z RNum n) with (IZR n). change (zero RNum) with 0%R.
  destruct (leb RNum (nth i next 0%R) (IZR n)); [|reflexivity].
  cbv zeta. rewrite Hh, Ht, !mrow_nat.
  assert (Lj : length (nth jn H []) = D) by (apply (rect_nth D _ jn HR); lia).
  assert (Lk : length (nth kn H []) = D) by (apply (rect_nth D _ kn HR); lia).
  rewrite gattract_gattract_with. cbn [eH eshared get_tail].
  pose proof (om_len _ _ Lj Lk) as Lg. pose proof (om_len _ _ Lk Lj) as Lrg.
  change (T RNum) with R in *.
  destruct (om (nth jn H []) (nth kn H [])) as [dd g]. destruct (om (nth kn H []) (nth jn H [])) as [dd' rg]. cbn [fst snd] in *.
  rewrite src_gattr_gc_eq.
  assert (Hj' : jn < length H) by lia. assert (Hk' : kn < length H) by lia.
  rewrite (gattr_dloop_s_eq RNum src_clip_generic_eq _ alpha mo D g rg Lg Lrg H Tl jn kn Hj' Hk' HR).
  set (e1 := gattract_with RNum (gattr_coeff RNum a b dd) alpha mo g rg (mkEmb RNum H Tl true) jn kn).
  assert (W1 : wfe RNum D true nH nT e1) by (apply gattract_with_wfe; auto).
  pose proof W1 as (HR1 & HL1 & HRT1 & HLT1 & HS1).
  set (cnt := ntrunc RNum (div RNum (sub RNum (IZR n) (nth i nneg 0%R)) (nth i epns 0%R))).
  rewrite for_range_to_nat, (for_range_const _ _ _ (gneg_pbody_s_const _ _ _ _ _ _ _ _)).
  match goal with |- context [iter_l _ _ (?k0, ?rg0, ?o0, ?dd0, ?g0, ?w0, ?gc0, _)] =>
    pose proof (gneg_iter_s om a b gamma alpha nv D om_len (eT RNum e1) jn (Z.to_nat cnt) (eH RNum e1) (map row_of rngs) (nth jn rngs (0, 0, 0)%Z)
                  k0 o0 dd0 g0 w0 gc0) as P end.
  rewrite <- (wfe_shape RNum D true nH nT e1 W1) in P.
  change (T RNum) with R in *.
  specialize (P ltac:(lia) HR1 ltac:(lia) ltac:(rewrite map_length; lia) ltac:(apply nth_map_row; lia)).
  change (T RNum) with R in *.
  destruct (iter_l _ _ _) as [[[[[[[k1 rng1] o1] dd1] g1] w1] gc1] H1]. cbn [gpproj] in P.
  destruct (gneg_loop _ _ _ _ _ _ _ _ _ _ _) as [e2 st']. injection P as -> ->.
  cbn [s_emb s_next s_nneg s_rng eH]. rewrite !vset_of_nat, map_set_nth_nat. reflexivity.
Qed.

Lemma gedge_step_wf sh nH nT (n : R) (s : sgd_state RNum) (i jn kn : nat) (x y : R) :
  wfe RNum D sh nH nT (s_emb RNum s) -> length (s_rng RNum s) = nH -> (0 < nv <= Z.of_nat (if sh then nH else nT))%Z ->
  jn < nH -> kn < (if sh then nH else nT) ->
  wfe RNum D sh nH nT (s_emb RNum (gedge_step RNum om a b gamma alpha mo nv n s i (mkEdge RNum jn kn x y))) /\
  length (s_rng RNum (gedge_step RNum om a b gamma alpha mo nv n s i (mkEdge RNum jn kn x y))) = nH.
Proof.
  intros W Lr Hnv Hj Hk. unfold gedge_step. destruct (leb RNum _ n); [|split; assumption].
  cbv zeta. cbn [e_head e_tail e_eps e_epns].
  match goal with |- context [gneg_loop RNum om ?c a b gamma alpha nv ?e jn ?st] =>
    pose proof (gneg_loop_wfe sh nH nT jn c e st) as Q; destruct (gneg_loop RNum om c a b gamma alpha nv e jn st) as [e2 st'] end.
  cbn [s_emb s_rng fst] in *. split.
  - apply Q; auto. apply gattract_wfe; auto.
  - change (@upd rng3) with (@set_nth_nat rng3). rewrite set_nth_nat_length. exact Lr.
Qed.

(* the loop over the edges, tail_embedding is head_embedding *)
Lemma gedges_loop_s (head tail : list Z) (eps epns : list R) (n : Z) (nH nT : nat) :
  (0 < nv <= Z.of_nat nH)%Z ->
  (forall i, i < length eps -> (0 <= nth i head 0 < Z.of_nat nH)%Z /\ (0 <= nth i tail 0 < Z.of_nat nH)%Z) ->
  forall (m i0 : nat) (s : sgd_state RNum), i0 + m <= length eps ->
  wfe RNum D true nH nT (s_emb RNum s) -> length (s_rng RNum s) = nH ->
  fold_left (fun st k => gedge_body_s RNum om eps head tail (Z.of_nat D) alpha mo n epns nv a b gamma (Z.of_nat k) st) (seq i0 m) (gabs_s s) =
  gabs_s (gedges_from RNum om a b gamma alpha mo nv (IZR n) i0 (map (edge_at head tail eps epns) (seq i0 m)) s).
Proof.
  intros Hnv Hidx. induction m as [|m IH]; intros i0 s Hm W Lr; [reflexivity|].
  cbn [seq map fold_left gedges_from].
  destruct (Hidx i0 ltac:(lia)) as [Hh Ht].
  unfold edge_at at 1.
  rewrite (gedge_body_s_eq head tail eps epns n i0 s nH nT (Z.to_nat (nth i0 head 0%Z)) (Z.to_nat (nth i0 tail 0%Z)) W Lr Hnv)
    by (rewrite ?inth_of_nat, ?Z2Nat.id; lia).
  destruct (gedge_step_wf true nH nT (IZR n) s i0 (Z.to_nat (nth i0 head 0%Z)) (Z.to_nat (nth i0 tail 0%Z)) (nth i0 eps 0%R) (nth i0 epns 0%R) W Lr)
    as [W' Lr']; [exact Hnv|lia|lia|].
  apply IH; [lia|exact W'|exact Lr'].
Qed.

(* ---- two arrays that do not overlap (transform) *)
Definition gabs_d (s : sgd_state RNum) : gestate_d RNum :=
  (eH RNum (s_emb RNum s), eT RNum (s_emb RNum s), s_next RNum s, map row_of (s_rng RNum s), s_nneg RNum s).

Lemma gneg_pbody_d_const a' b' g' al' nv' dim' j' c' Tl (p q : Z) (st : gpstate RNum) :
  gneg_pbody_d RNum om a' b' g' al' nv' dim' j' c' Tl p st = gneg_pbody_d RNum om a' b' g' al' nv' dim' j' c' Tl q st.
Proof. reflexivity. Qed.

Lemma gneg_loop_eT (j : nat) : forall n (e : emb RNum) st, eT RNum (fst (gneg_loop RNum om n a b gamma alpha nv e j st)) = eT RNum e.
Proof. intros n e st. apply gneg_loop_T. Qed.

Theorem gedge_body_d_eq (head tail : list Z) (eps epns : list R) (n : Z) (i : nat) (s : sgd_state RNum) (nH nT jn kn : nat) :
  wfe RNum D false nH nT (s_emb RNum s) -> length (s_rng RNum s) = nH -> (0 < nv <= Z.of_nat nT)%Z ->
  inth head (Z.of_nat i) = Z.of_nat jn -> inth tail (Z.of_nat i) = Z.of_nat kn -> jn < nH -> kn < nT ->
  gedge_body_d RNum om eps head tail (Z.of_nat D) alpha mo n epns nv a b gamma (Z.of_nat i) (gabs_d s) =
  gabs_d (gedge_step RNum om a b gamma alpha mo nv (IZR n) s i (mkEdge RNum jn kn (nth i eps 0%R) (nth i epns 0%R))).
Proof.
  intros W Lr Hnv Hh Ht Hj Hk. destruct s as [e next nneg rngs]. destruct e as [H Tl sh].
  pose proof W as (HR & HL & HRT & HLT & HS). cbn [s_emb s_rng eH eT eshared] in *. subst sh.
  unfold gedge_body_d, gedge_step, gabs_d. cbn [s_emb s_next s_nneg s_rng e_head e_tail e_eps e_epns eH eT].
  rewrite !vnth_of_nat. change (of_Z RNum n) with (IZR n). change (zero RNum) with 0%R.
  destruct (leb RNum (nth i next 0%R) (IZR n)); [|reflexivity].
  cbv zeta. rewrite Hh, Ht, !mrow_nat.
  assert (Lj : length (nth jn H []) = D) by (apply (rect_nth D _ jn HR); lia).
  assert (Lk : length (nth kn Tl []) = D) by (apply (rect_nth D _ kn HRT); lia).
  rewrite gattract_gattract_with. cbn [eH eT eshared get_tail].
  pose proof (om_len _ _ Lj Lk) as Lg. pose proof (om_len _ _ Lk Lj) as Lrg.
  change (T RNum) with R in *.
  destruct (om (nth jn H []) (nth kn Tl [])) as [dd g]. destruct (om (nth kn Tl []) (nth jn H [])) as [dd' rg]. cbn [fst snd] in *.
  rewrite src_gattr_gc_eq.
  assert (Hj' : jn < length H) by lia. assert (Hk' : kn < length Tl) by lia.
  rewrite (gattr_dloop_d_eq RNum src_clip_generic_eq _ alpha mo D g rg Lg Lrg H Tl jn kn Hj' Hk' Lj Lk).
  set (e1 := gattract_with RNum (gattr_coeff RNum a b dd) alpha mo g rg (mkEmb RNum H Tl false) jn kn). cbv zeta.
  assert (W1 : wfe RNum D false nH nT e1) by (apply gattract_with_wfe; auto).
  pose proof W1 as (HR1 & HL1 & HRT1 & HLT1 & HS1).
  set (cnt := ntrunc RNum (div RNum (sub RNum (IZR n) (nth i nneg 0%R)) (nth i epns 0%R))).
  rewrite for_range_to_nat, (for_range_const _ _ _ (gneg_pbody_d_const _ _ _ _ _ _ _ _ _)).
  match goal with |- context [iter_l _ _ (?k0, ?rg0, ?o0, ?dd0, ?g0, ?w0, ?gc0, _)] =>
    pose proof (gneg_iter_d om a b gamma alpha nv D om_len (eT RNum e1) jn (Z.to_nat cnt) (eH RNum e1) (map row_of rngs) (nth jn rngs (0, 0, 0)%Z)
                  k0 o0 dd0 g0 w0 gc0) as P end.
  rewrite <- (wfe_shape RNum D false nH nT e1 W1) in P.
  change (T RNum) with R in *.
  specialize (P ltac:(lia) HR1 HRT1 ltac:(lia) ltac:(rewrite map_length; lia) ltac:(apply nth_map_row; lia)).
  pose proof (gneg_loop_eT jn (Z.to_nat cnt) e1 (nth jn rngs (0, 0, 0)%Z)) as PT.
  change (T RNum) with R in *.
  destruct (iter_l _ _ _) as [[[[[[[k1 rng1] o1] dd1] g1] w1] gc1] H1]. cbn [gpproj] in P.
  destruct (gneg_loop _ _ _ _ _ _ _ _ _ _ _) as [e2 st']. injection P as -> ->. cbn [fst] in PT.
  cbn [s_emb s_next s_nneg s_rng eH eT]. rewrite PT, !vset_of_nat, map_set_nth_nat. reflexivity.
Qed.

Lemma gedges_loop_d (head tail : list Z) (eps epns : list R) (n : Z) (nH nT : nat) :
  (0 < nv <= Z.of_nat nT)%Z ->
  (forall i, i < length eps -> (0 <= nth i head 0 < Z.of_nat nH)%Z /\ (0 <= nth i tail 0 < Z.of_nat nT)%Z) ->
  forall (m i0 : nat) (s : sgd_state RNum), i0 + m <= length eps ->
  wfe RNum D false nH nT (s_emb RNum s) -> length (s_rng RNum s) = nH ->
  fold_left (fun st k => gedge_body_d RNum om eps head tail (Z.of_nat D) alpha mo n epns nv a b gamma (Z.of_nat k) st) (seq i0 m) (gabs_d s) =
  gabs_d (gedges_from RNum om a b gamma alpha mo nv (IZR n) i0 (map (edge_at head tail eps epns) (seq i0 m)) s).
Proof.
  intros Hnv Hidx. induction m as [|m IH]; intros i0 s Hm W Lr; [reflexivity|].
  cbn [seq map fold_left gedges_from].
  destruct (Hidx i0 ltac:(lia)) as [Hh Ht].
  unfold edge_at at 1.
  rewrite (gedge_body_d_eq head tail eps epns n i0 s nH nT (Z.to_nat (nth i0 head 0%Z)) (Z.to_nat (nth i0 tail 0%Z)) W Lr Hnv)
    by (rewrite ?inth_of_nat, ?Z2Nat.id; lia).
  destruct (gedge_step_wf false nH nT (IZR n) s i0 (Z.to_nat (nth i0 head 0%Z)) (Z.to_nat (nth i0 tail 0%Z))
              (nth i0 eps 0%R) (nth i0 epns 0%R) W Lr) as [W' Lr']; [exact Hnv|lia|lia|].
  apply IH; [lia|exact W'|exact Lr'].
Qed.
End GEdgeR.

(* THE LINK THEOREM, fit case (tail_embedding is head_embedding, output_metric_kwds = ()): for EVERY output metric [om] whose gradient
   has the row length, and every well-shaped input -- D-column embedding H, one RNG row [s0; s1; s2] per vertex, vertex indices of the
   edge arrays within range, 0 < n_vertices <= number of rows -- the translated kernel computes exactly the model's [gepoch]
   (model/M_sgdg.v) on the state (H, clocks, RNG triples), over the reals.  The generated definition returns the source's
   `return epoch_of_next_sample, epoch_of_next_negative_sample` followed by the final contents of the arrays it stores into. *)
Theorem src_sgdg_shared_eq (om : ometric RNum) (H : list (list R)) (head tail : list Z) (nv : Z) (eps : list R) (a b : R) (rngs : list rng3)
        (gamma : R) (D : nat) (mo : bool) (alpha : R) (epns nneg next : list R) (n : Z) :
  (forall x y : list R, length x = D -> length y = D -> length (snd (om x y)) = D) ->
  rect D H -> length rngs = length H -> (0 < nv <= Z.of_nat (length H))%Z ->
  (forall i, i < length eps -> (0 <= nth i head 0 < Z.of_nat (length H))%Z /\ (0 <= nth i tail 0 < Z.of_nat (length H))%Z) ->
  src__optimize_layout_generic_single_epoch_shared RNum om eps next head tail H (Z.of_nat D) alpha mo n nneg epns (map row_of rngs) nv a b gamma =
  let s' := gepoch RNum om a b gamma alpha mo nv (IZR n) (edges_of head tail eps epns) (mkSt RNum (mkEmb RNum H [] true) next nneg rngs) in
  (s_next RNum s', s_nneg RNum s', s_next RNum s', eH RNum (s_emb RNum s'), s_nneg RNum s', map row_of (s_rng RNum s')).
Proof.
  intros Hom HR Lr Hnv Hidx. rewrite src_sgdg_shared_unfold. unfold zlen. rewrite for_range_0.
  pose proof (gedges_loop_s om a b gamma alpha mo nv D Hom head tail eps epns n (length H) 0 Hnv Hidx (length eps) 0
                (mkSt RNum (mkEmb RNum H [] true) next nneg rngs) ltac:(lia)) as P.
  cbn [s_emb s_rng] in P. unfold gabs_s at 1 in P. cbn [s_emb s_next s_nneg s_rng eH] in P.
  change (T RNum) with R in *. rewrite P; [|repeat split; cbn [eH eT eshared]; auto; constructor|exact Lr].
  unfold gepoch, edges_of, gabs_s. cbv zeta. reflexivity.
Qed.

(* THE LINK THEOREM, transform case (head_embedding and tail_embedding are two arrays that do not overlap; move_other either way) *)
Theorem src_sgdg_distinct_eq (om : ometric RNum) (H Tl : list (list R)) (head tail : list Z) (nv : Z) (eps : list R) (a b : R) (rngs : list rng3)
        (gamma : R) (D : nat) (mo : bool) (alpha : R) (epns nneg next : list R) (n : Z) :
  (forall x y : list R, length x = D -> length y = D -> length (snd (om x y)) = D) ->
  rect D H -> rect D Tl -> length rngs = length H -> (0 < nv <= Z.of_nat (length Tl))%Z ->
  (forall i, i < length eps -> (0 <= nth i head 0 < Z.of_nat (length H))%Z /\ (0 <= nth i tail 0 < Z.of_nat (length Tl))%Z) ->
  src__optimize_layout_generic_single_epoch_distinct RNum om eps next head tail H Tl (Z.of_nat D) alpha mo n nneg epns (map row_of rngs) nv a b gamma =
  let s' := gepoch RNum om a b gamma alpha mo nv (IZR n) (edges_of head tail eps epns) (mkSt RNum (mkEmb RNum H Tl false) next nneg rngs) in
  (s_next RNum s', s_nneg RNum s', s_next RNum s', eH RNum (s_emb RNum s'), eT RNum (s_emb RNum s'), s_nneg RNum s', map row_of (s_rng RNum s')).
Proof.
  intros Hom HR HRT Lr Hnv Hidx. rewrite src_sgdg_distinct_unfold. unfold zlen. rewrite for_range_0.
  pose proof (gedges_loop_d om a b gamma alpha mo nv D Hom head tail eps epns n (length H) (length Tl) Hnv Hidx (length eps) 0
                (mkSt RNum (mkEmb RNum H Tl false) next nneg rngs) ltac:(lia)) as P.
  cbn [s_emb s_rng] in P. unfold gabs_d at 1 in P. cbn [s_emb s_next s_nneg s_rng eH eT] in P.
  change (T RNum) with R in *. rewrite P; [|repeat split; cbn [eH eT eshared]; auto|exact Lr].
  unfold gepoch, edges_of, gabs_d. cbv zeta. reflexivity.
Qed.

(* Capstone: in the transform case with move_other = False the translated kernel returns the reference embedding unchanged, whatever
   the output metric (from the lemma behind C07_generic_frame, thm/T_sgdg.v generic_tail_frame) *)
Theorem C07_src_generic_frame (om : ometric RNum) (H Tl : list (list R)) (head tail : list Z) (nv : Z) (eps : list R) (a b : R) (rngs : list rng3)
        (gamma : R) (D : nat) (alpha : R) (epns nneg next : list R) (n : Z) :
  (forall x y : list R, length x = D -> length y = D -> length (snd (om x y)) = D) ->
  rect D H -> rect D Tl -> length rngs = length H -> (0 < nv <= Z.of_nat (length Tl))%Z ->
  (forall i, i < length eps -> (0 <= nth i head 0 < Z.of_nat (length H))%Z /\ (0 <= nth i tail 0 < Z.of_nat (length Tl))%Z) ->
  let '(_, _, _, _, T', _, _) :=
    src__optimize_layout_generic_single_epoch_distinct RNum om eps next head tail H Tl (Z.of_nat D) alpha false n nneg epns (map row_of rngs) nv a b gamma in
  T' = Tl.
Proof.
  intros Hom HR HRT Lr Hnv Hidx.
  rewrite (src_sgdg_distinct_eq om H Tl head tail nv eps a b rngs gamma D false alpha epns nneg next n Hom HR HRT Lr Hnv Hidx).
  cbv zeta. unfold gepoch. rewrite generic_tail_frame. reflexivity.
Qed.

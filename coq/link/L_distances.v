(* Link theorems for umap/distances.py (dense metrics, C12): the Gallina text that harness/vp/py2coq.py generates
   from the CURRENT source on every run ([src_f], module UVS.Src_distances) is equal, for all inputs, to the
   hand-written model [d_f] of model/M_metrics.v about which the property theorems of prop/P_C12.v are stated.
   Section Generic: equalities that hold over every [Num] (hence also over binary64: for these functions the term
   evaluated by the correspondence check IS the translated source).  Section Reals: equalities over R only (the
   source accumulates 0/1 floats where the model counts in Z). *)
From Coq Require Import List ZArith Bool Reals Lra Lia.
From UV Require Import Num PyPrim PyPrimLemmas M_metrics T_link T_metrics_bin.
From UV Require FNum.
From UVS Require Import Src_distances.
Import ListNotations.

Section Generic.
Context (N : Num).

Theorem src_euclidean_eq (x y : list N) : length x = length y -> src_euclidean N x y = d_euclidean N x y.
Proof. intros L. unfold src_euclidean, d_euclidean, vsum. cbv zeta. loop2 L. rewrite fold_left_zipw. reflexivity. Qed.

Theorem src_manhattan_eq (x y : list N) : length x = length y -> src_manhattan N x y = d_manhattan N x y.
Proof. intros L. unfold src_manhattan, d_manhattan, vsum. cbv zeta. loop2 L. rewrite fold_left_zipw. reflexivity. Qed.

Theorem src_chebyshev_eq (x y : list N) : length x = length y -> src_chebyshev N x y = d_chebyshev N x y.
Proof. intros L. unfold src_chebyshev, d_chebyshev, vmaxl. cbv zeta. loop2 L. rewrite fold_left_zipw. reflexivity. Qed.

Theorem src_minkowski_eq (p : N) (x y : list N) : length x = length y -> src_minkowski N x y p = d_minkowski N p x y.
Proof. intros L. unfold src_minkowski, d_minkowski, vsum. cbv zeta. loop2 L. rewrite fold_left_zipw. reflexivity. Qed.

Theorem src_standardised_euclidean_eq (V x y : list N) :
  length x = length y -> length x = length V -> src_standardised_euclidean N x y V = d_seuclidean N V x y.
Proof.
  intros L1 L2. unfold src_standardised_euclidean, d_seuclidean, vsum. cbv zeta. loop3 L1 L2.
  rewrite fold_left_zipw, zipw_combine. rewrite combine_map_l'. rewrite fold_left_map. reflexivity.
Qed.

Theorem src_weighted_minkowski_eq (w : list N) (p : N) (x y : list N) :
  length x = length y -> length x = length w -> src_weighted_minkowski N x y w p = d_wminkowski N w p x y.
Proof.
  intros L1 L2. unfold src_weighted_minkowski, d_wminkowski, vsum. cbv zeta. loop3 L1 L2.
  rewrite fold_left_zipw, zipw_combine. rewrite combine_map_r'. rewrite fold_left_map.
  cbn [fst snd]. unfold pdiff.
  rewrite (fold_left_combine_swap3 (fun s c a b => add N s (mul N c (npow N (nabs N (sub N a b)) p)))). reflexivity.
Qed.

Theorem src_bray_curtis_eq (x y : list N) : length x = length y -> src_bray_curtis N x y = d_braycurtis N x y.
Proof.
  intros L. unfold src_bray_curtis, d_braycurtis, vsum. cbv zeta. loop2 L. cbv beta.
  rewrite fold_left_pair'. rewrite !fold_left_zipw. reflexivity.
Qed.

Theorem src_cosine_eq (x y : list N) : length x = length y -> src_cosine N x y = d_cosine N x y.
Proof.
  intros L. unfold src_cosine, d_cosine, vdot, vsq, vsum. cbv zeta. loop2 L. cbv beta.
  rewrite fold_left_triple'. rewrite fold_left_zipw, !fold_left_map.
  rewrite (fold_left_combine_fst (fun s a => add N s (ipow N a 2))) by exact L.
  rewrite (fold_left_combine_snd (fun s a => add N s (ipow N a 2))) by exact L.
  reflexivity.
Qed.

Lemma vmap2_diag (f : N -> N -> N) (u : list N) : vmap2 N f u u = map (fun a => f a a) u.
Proof. unfold vmap2. induction u as [|a u IH]; [reflexivity|]. cbn. f_equal. exact IH. Qed.
Lemma vmap2_zipw (f : N -> N -> N) (u v : list N) : vmap2 N f u v = zipw f u v.
Proof. unfold vmap2. symmetry. apply zipw_combine. Qed.

Theorem src_hellinger_eq (x y : list N) : length x = length y -> src_hellinger N x y = d_hellinger N x y.
Proof.
  intros L. unfold src_hellinger, d_hellinger, vsum. cbv zeta. loop2 L. cbv beta.
  rewrite fold_left_triple'. rewrite fold_left_zipw.
  rewrite (fold_left_combine_fst (add N)) by exact L.
  rewrite (fold_left_combine_snd (add N)) by exact L.
  reflexivity.
Qed.

Theorem src_correlation_eq (x y : list N) : length x = length y -> src_correlation N x y = d_correlation N x y.
Proof.
  intros L. unfold src_correlation, d_correlation, centre, vmean, vdot, vsq, vsum, nZ. cbv zeta.
  loop2 L. cbv beta. rewrite fold_left_pair'.
  rewrite (fold_left_combine_fst (add N)) by exact L.
  rewrite (fold_left_combine_snd (add N)) by exact L.
  loop2 L. cbv beta. rewrite fold_left_triple'.
  rewrite fold_left_zipw, !fold_left_map, combine_map_l', combine_map_r', !fold_left_map. cbn [fst snd].
  rewrite (fold_left_combine_fst (fun s a => add N s (ipow N (sub N a _) 2))) by exact L.
  rewrite (fold_left_combine_snd (fun s a => add N s (ipow N (sub N a _) 2))) by exact L.
  unfold zlen. rewrite <- L. reflexivity.
Qed.

Lemma zipw_length {A B C : Type} (f : A -> B -> C) (x : list A) (y : list B) : length x = length y -> length (zipw f x y) = length x.
Proof. revert y; induction x as [|a x IH]; intros [|b y] L; try discriminate; [reflexivity|]. cbn. f_equal. apply IH. cbn in L; lia. Qed.

Lemma fold_left_combine_swap2 {S A B : Type} (g : S -> A -> B -> S) (x : list A) (y : list B) (s : S) :
  fold_left (fun s ab => g s (fst ab) (snd ab)) (combine x y) s = fold_left (fun s ba => g s (snd ba) (fst ba)) (combine y x) s.
Proof. revert y s; induction x as [|a x IH]; intros [|b y] s; try reflexivity. cbn [combine fold_left fst snd]. apply IH. Qed.

Theorem src_mahalanobis_eq (VI : list (list N)) (x y : list N) :
  length x = length y -> length VI = length x -> Forall (fun row => length row = length x) VI ->
  src_mahalanobis N x y VI = d_mahalanobis N VI x y.
Proof.
  intros L LV LR. unfold src_mahalanobis, d_mahalanobis, quadform, vdot, vsum. cbv zeta.
  erewrite (for_range_fill2 N (sub N) x y); [|exact L|intros k d; reflexivity].
  rewrite <- zipw_combine. set (d := zipw (sub N) x y).
  assert (Ld : length d = length x) by (apply zipw_length; exact L).
  replace (zlen x) with (zlen d) by (unfold zlen; rewrite Ld; reflexivity).
  unfold mnth.
  erewrite (for_range_glist2 (zero N) (@nil N) _ d VI);
    [|rewrite Ld, LV; reflexivity
     |intros k s; change (vnth N d (Z.of_nat k)) with (znth (zero N) d (Z.of_nat k)); generalize (znth (zero N) d (Z.of_nat k)); generalize (znth (@nil N) VI (Z.of_nat k)); intros; reflexivity].
  cbv beta. rewrite fold_left_zipw. rewrite (fold_left_combine_swap2 (fun s (di : N) (row : list N) => add N s (mul N
     (for_range 0 (zlen d) (fun j tmp => add N tmp (mul N (vnth N row j) (vnth N d j))) (zero N)) di)) d VI).
  f_equal. apply fold_left_ext_in. intros s [row di] Hin. cbn [fst snd]. f_equal. f_equal.
  assert (Lrow : length row = length d).
  { rewrite Ld. rewrite Forall_forall in LR. apply LR. apply in_combine_l in Hin. exact Hin. }
  erewrite (for_range_list2 N _ d row); [|symmetry; exact Lrow|intros k t; reads].
  rewrite fold_left_zipw.
  rewrite (fold_left_combine_swap2 (fun s (a b : N) => add N s (mul N b a)) d row). reflexivity.
Qed.
End Generic.

(* ---- over the reals --------------------------------------------------------------------------------------- *)
Section Reals.
Local Open Scope R_scope.
Ltac rn := change (T RNum) with R in *.

Theorem src_canberra_eq (x y : list R) : length x = length y -> src_canberra RNum x y = d_canberra RNum x y.
Proof.
  intros L. unfold src_canberra, d_canberra, vsum. cbv zeta. loop2 L. rewrite fold_left_zipw.
  apply fold_left_ext. intros s [a b]. cbn [fst snd]. unfold canberra_term, ngt. cbv zeta. cbn.
  destruct (Rltb 0 (Rabs a + Rabs b)); rn; lra.
Qed.


(* Robust variants over R of the single-accumulator links: the loop bodies are compared up to the ring laws, so a
   semantics-preserving re-association of the source's arithmetic (which breaks the syntactic, every-[Num] theorems above)
   leaves them intact.  A check needs one of the two. *)
Ltac rbody := cbn [fst snd]; unfold sqdiff, sqr, absdiff, pdiff; cbn [add sub mul div neg nabs npow ipow zero one RNum]; rn;
              first [reflexivity | ring | (unfold Rdiv; ring) | (f_equal; ring) | (f_equal; f_equal; ring)
                    | (f_equal; apply Rabs_minus_sym) | (f_equal; f_equal; apply Rabs_minus_sym)].
Ltac rfold := first [reflexivity | f_equal; apply fold_left_ext; intros ? [? ?]; rbody].

Theorem src_euclidean_eqR (x y : list R) : length x = length y -> src_euclidean RNum x y = d_euclidean RNum x y.
Proof. intros L. unfold src_euclidean, d_euclidean, vsum. cbv zeta. loop2 L. rewrite fold_left_zipw. rfold. Qed.

Theorem src_manhattan_eqR (x y : list R) : length x = length y -> src_manhattan RNum x y = d_manhattan RNum x y.
Proof. intros L. unfold src_manhattan, d_manhattan, vsum. cbv zeta. loop2 L. rewrite fold_left_zipw. first [reflexivity | apply fold_left_ext; intros ? [? ?]; rbody]. Qed.

Theorem src_minkowski_eqR (p : R) (x y : list R) : length x = length y -> src_minkowski RNum x y p = d_minkowski RNum p x y.
Proof. intros L. unfold src_minkowski, d_minkowski, vsum. cbv zeta. loop2 L. rewrite fold_left_zipw. rfold. Qed.

Theorem src_standardised_euclidean_eqR (V x y : list R) :
  length x = length y -> length x = length V -> src_standardised_euclidean RNum x y V = d_seuclidean RNum V x y.
Proof.
  intros L1 L2. unfold src_standardised_euclidean, d_seuclidean, vsum. cbv zeta. loop3 L1 L2.
  rewrite fold_left_zipw, zipw_combine. rewrite combine_map_l'. rewrite fold_left_map.
  first [reflexivity | f_equal; apply fold_left_ext; intros ? [[? ?] ?]; cbn [fst snd]; rbody].
Qed.

(* ---- counting loops: the source adds 0/1 floats, the model counts in Z ---- *)
Lemma Reqb_IZR (a b : Z) : Reqb (IZR a) (IZR b) = Z.eqb a b.
Proof.
  destruct (Z.eqb_spec a b) as [->|Hne]; [apply Reqb_true; reflexivity|].
  apply Reqb_false. intros H. apply Hne. apply eq_IZR. exact H.
Qed.

Lemma hamming_fold (x y : list R) (r : R) :
  fold_left (fun (s : R) (ab : R * R) => if nne RNum (fst ab) (snd ab) then s + 1 else s) (combine x y) r
  = r + IZR (count_neq RNum x y).
Proof.
  revert y r; induction x as [|a x IH]; intros [|b y] r; cbn [combine fold_left count_neq]; try (cbn; lra).
  rewrite IH. cbn [fst snd]. unfold nne. cbn [eqb RNum]. rewrite plus_IZR.
  destruct (Reqb a b); cbn [negb]; cbn; lra.
Qed.

Theorem src_hamming_eq (x y : list R) : length x = length y -> src_hamming RNum x y = d_hamming RNum x y.
Proof.
  intros L. unfold src_hamming, d_hamming, nZ. cbv zeta. loop2 L. cbv beta.
  rewrite (hamming_fold x y). cbn. rn. rewrite Rplus_0_l. reflexivity.
Qed.

Notation tr a := (nne RNum a (zero RNum)) (only parsing).

(* all five 0/1 accumulations the binary metrics use, in terms of the four counts *)
Lemma counts_folds (x y : list R) : length x = length y ->
  forall r : R,
  let '(ntt, ntf, nft, nff) := counts RNum x y in
  fold_left (fun (s : R) (ab : R * R) => s + b2n RNum (andb (tr (fst ab)) (tr (snd ab)))) (combine x y) r = r + IZR ntt /\
  fold_left (fun (s : R) (ab : R * R) => s + b2n RNum (xorb (tr (fst ab)) (tr (snd ab)))) (combine x y) r = r + IZR (ntf + nft) /\
  fold_left (fun (s : R) (ab : R * R) => s + b2n RNum (orb (tr (fst ab)) (tr (snd ab)))) (combine x y) r = r + IZR (ntt + ntf + nft) /\
  fold_left (fun (s : R) (ab : R * R) => s + b2n RNum (andb (tr (fst ab)) (negb (tr (snd ab))))) (combine x y) r = r + IZR ntf /\
  fold_left (fun (s : R) (ab : R * R) => s + b2n RNum (andb (negb (tr (fst ab))) (tr (snd ab)))) (combine x y) r = r + IZR nft.
Proof.
  revert y; induction x as [|a x IH]; intros [|b y] L r; try discriminate.
  - cbn. repeat split; lra.
  - cbn [combine fold_left counts fst snd]. assert (L' : length x = length y) by (cbn in L; lia).
    unfold truthy. change (negb (eqb RNum a (zero RNum))) with (tr a). change (negb (eqb RNum b (zero RNum))) with (tr b).
    specialize (IH y L'). destruct (counts RNum x y) as [[[ntt ntf] nft] nff].
    destruct (tr a), (tr b); cbv beta iota zeta; cbn [andb orb xorb negb b2n];
      (repeat match goal with |- _ /\ _ => split end);
      match goal with |- fold_left ?f _ ?r0 = _ =>
        first [ rewrite (proj1 (IH r0)) | rewrite (proj1 (proj2 (IH r0)))
              | rewrite (proj1 (proj2 (proj2 (IH r0)))) | rewrite (proj1 (proj2 (proj2 (proj2 (IH r0)))))
              | rewrite (proj2 (proj2 (proj2 (proj2 (IH r0))))) ] end;
      rewrite ?plus_IZR; cbn; lra.
Qed.

(* after the loop: the float accumulators are 0 + IZR(count); comparisons with 0 become integer tests *)
Lemma Reqb_0_IZR (a : Z) : Reqb (0 + IZR a) 0 = Z.eqb a 0.
Proof. rewrite Rplus_0_l. apply (Reqb_IZR a 0). Qed.

Ltac bin_start L :=
  cbv zeta; first [loop2 L]; cbv beta;
  try rewrite fold_left_triple'; try rewrite fold_left_pair';
  let H := fresh "H" in
  pose proof (counts_folds _ _ L 0) as H;
  let T := fresh "T" in
  pose proof (counts_total _ _ L) as T;
  destruct (counts RNum _ _) as [[[ntt ntf] nft] nff];
  destruct H as (Htt & Hne & Hor & Htf & Hft);
  cbn [zero one add sub mul div eqb of_Z RNum] in *; rn;
  rewrite ?Htt, ?Hne, ?Hor, ?Htf, ?Hft, ?Reqb_0_IZR; unfold c_total in *.

Ltac izr := repeat (rewrite plus_IZR || rewrite minus_IZR || rewrite mult_IZR); rn.
Lemma nlit_2 : nlit RNum 2 0 = 2. Proof. unfold nlit. cbn. lra. Qed.
Lemma nlit_half : nlit RNum 5 (-1) = / 2. Proof. unfold nlit. cbn. lra. Qed.

Theorem src_jaccard_eq (x y : list R) : length x = length y -> src_jaccard RNum x y = d_jaccard RNum x y.
Proof.
  intros L. unfold src_jaccard, d_jaccard, b_jaccard, nZ. bin_start L.
  destruct (Z.eqb_spec (ntt + ntf + nft) 0); [reflexivity|]. izr. f_equal; lra.
Qed.

Theorem src_matching_eq (x y : list R) : length x = length y -> src_matching RNum x y = d_matching RNum x y.
Proof.
  intros L. unfold src_matching, d_matching, b_matching, nZ. bin_start L.
  unfold zlen. rewrite T. f_equal. lra.
Qed.

Theorem src_dice_eq (x y : list R) : length x = length y -> src_dice RNum x y = d_dice RNum x y.
Proof.
  intros L. unfold src_dice, d_dice, b_dice, nZ, n2. bin_start L. rewrite nlit_2.
  destruct (Z.eqb_spec (ntf + nft) 0); [reflexivity|]. izr. f_equal; lra.
Qed.

Theorem src_kulsinski_eq (x y : list R) : length x = length y -> src_kulsinski RNum x y = d_kulsinski RNum x y.
Proof.
  intros L. unfold src_kulsinski, d_kulsinski, b_kulsinski, nZ. bin_start L. unfold zlen. rewrite <- T.
  destruct (Z.eqb_spec (ntf + nft) 0); [reflexivity|]. izr. f_equal; lra.
Qed.

Theorem src_rogers_tanimoto_eq (x y : list R) : length x = length y -> src_rogers_tanimoto RNum x y = d_rogerstanimoto RNum x y.
Proof.
  intros L. unfold src_rogers_tanimoto, d_rogerstanimoto, b_rogerstanimoto, nZ, n2. bin_start L. rewrite nlit_2.
  unfold zlen. rewrite <- T. izr. f_equal; lra.
Qed.

Theorem src_sokal_michener_eq (x y : list R) : length x = length y -> src_sokal_michener RNum x y = d_sokalmichener RNum x y.
Proof.
  intros L. unfold src_sokal_michener, d_sokalmichener, b_sokalmichener, nZ, n2. bin_start L. rewrite nlit_2.
  unfold zlen. rewrite <- T. izr. f_equal; lra.
Qed.

Theorem src_sokal_sneath_eq (x y : list R) : length x = length y -> src_sokal_sneath RNum x y = d_sokalsneath RNum x y.
Proof.
  intros L. unfold src_sokal_sneath, d_sokalsneath, b_sokalsneath, nZ, nhalf, n2. bin_start L. rewrite nlit_half.
  destruct (Z.eqb_spec (ntf + nft) 0); [reflexivity|]. izr. f_equal; lra.
Qed.

Lemma counts_vcount (x y : list R) : length x = length y ->
  let '(ntt, ntf, nft, nff) := counts RNum x y in
  vcount RNum (fun a => nne RNum a (zero RNum)) x = (ntt + ntf)%Z /\
  vcount RNum (fun a => nne RNum a (zero RNum)) y = (ntt + nft)%Z.
Proof.
  unfold vcount. revert y; induction x as [|a x IH]; intros [|b y] L; try discriminate; [cbn; split; reflexivity|].
  assert (L' : length x = length y) by (cbn in L; lia). specialize (IH y L').
  cbn [counts filter]. unfold truthy.
  change (negb (eqb RNum a (zero RNum))) with (tr a). change (negb (eqb RNum b (zero RNum))) with (tr b).
  destruct (counts RNum x y) as [[[ntt ntf] nft] nff]. destruct IH as [IH1 IH2].
  destruct (tr a), (tr b); cbv beta iota zeta; cbn [length]; split; lia.
Qed.

Theorem src_russellrao_eq (x y : list R) : length x = length y -> src_russellrao RNum x y = d_russellrao RNum x y.
Proof.
  intros L. unfold src_russellrao, d_russellrao, b_russellrao, nZ. pose proof (counts_vcount x y L) as V.
  bin_start L. destruct V as [V1 V2]. cbn [zero RNum] in V1, V2. rewrite V1, V2.
  rewrite Rplus_0_l, !Reqb_IZR. unfold zlen. rewrite <- T.
  destruct ((ntt =? ntt + ntf)%Z && (ntt =? ntt + nft)%Z); [reflexivity|]. izr. f_equal; lra.
Qed.

Theorem src_yule_eq (x y : list R) : length x = length y -> src_yule RNum x y = d_yule RNum x y.
Proof.
  intros L. unfold src_yule, d_yule, b_yule, nZ, n2. bin_start L. rewrite nlit_2.
  unfold zlen. rewrite <- T.
  replace (0 + IZR ntf) with (IZR ntf) by lra. replace (0 + IZR nft) with (IZR nft) by lra.
  destruct ((ntf =? 0)%Z || (nft =? 0)%Z); [reflexivity|]. izr. f_equal. ring.
Qed.

(* transcendental functions: the model's [Ext] record supplies sin/cos/asin/pi, arccosh is the model's [nacosh] *)
Definition RPy (E : Ext RNum) : PyExt RNum :=
  mkPyExt RNum (xsin RNum E) (xcos RNum E) (xasin RNum E) (nacosh RNum) (xpi RNum E).

Theorem src_haversine_eq (E : Ext RNum) (x y : list R) :
  length x = length y -> src_haversine RNum (RPy E) x y = d_haversine RNum E x y.
Proof.
  intros L. unfold src_haversine, d_haversine.
  destruct x as [|x0 [|x1 [|x2 x]]]; destruct y as [|y0 [|y1 [|y2 y]]]; try discriminate; try reflexivity.
  - cbn [length zlen negb Z.eqb Z.of_nat Pos.of_succ_nat Pos.succ]. cbv zeta.
    rewrite nlit_2, nlit_half. unfold vnth. rewrite !(znth_of_nat _ _ 0), !(znth_of_nat _ _ 1). cbn [nth].
    unfold nmin, clamp1, sqr, nhalf, n2. cbn [RPy psin pcos pasin ipow]. cbn [add sub mul div one RNum]. rn.
    replace (1 / (1 + 1)) with (/ 2) by lra. replace (1 + 1) with 2 by lra. reflexivity.
  - match goal with |- context[(?a =? 2)%Z] => destruct (Z.eqb_spec a 2) as [H|H] end;
      [unfold zlen in H; cbn [length] in H; lia|reflexivity].
Qed.

Theorem src_poincare_eq (E : Ext RNum) (u v : list R) :
  length u = length v -> src_poincare RNum (RPy E) u v = d_poincare RNum u v.
Proof.
  intros L. unfold src_poincare, d_poincare, vsq, vsum, vsum_py, vmap1, n2, sqr. cbv zeta.
  rewrite !vmap2_diag, vmap2_zipw. cbn [pacosh RPy]. cbn [ipow]. cbn [of_Z one add RNum]. rn.
  replace (IZR 2) with (1 + 1) by lra. reflexivity.
Qed.
End Reals.

(* ---- symmetric_kl, ll_dirichlet (and its scalar helpers approx_log_Gamma, log_beta, log_single_beta) ---------------------------
   symmetric_kl: source and model perform the same operations in the same order, except that the source divides by the int
   literal 2 (of_Z 2) where the model writes 1 + 1: stated over every [Num] in which these coincide (the reals and binary64,
   see [src_symmetric_kl_eqF]).
   ll_dirichlet: over R only (the source keeps three accumulators under nested `if`s, the model sums `if c then v else 0`;
   literals 0.5, 0.125, 0.9, -2.0 are written differently).  `int(a)` is [ntrunc] in the generated text and the [xtrunc] field
   of the model's [Ext] record: the theorems carry the hypothesis that they agree (by definition for [RExt], [FExt]). *)
Section GenericKL.
Context (N : Num) (H2 : of_Z N 2 = add N (one N) (one N)).
Theorem src_symmetric_kl_eq (x y : list N) (z : N) : length x = length y ->
  src_symmetric_kl N x y z = d_symmetric_kl N z x y.
Proof.
  intros L. unfold src_symmetric_kl, d_symmetric_kl, smooth_normalise, vsum, n2. cbv zeta.
  loop2 L. cbv beta. rewrite fold_left_pair'.
  rewrite (fold_left_combine_fst (fun p a => add N p (add N a z)) x y _ L).
  rewrite (fold_left_combine_snd (fun p a => add N p (add N a z)) x y _ L).
  rewrite !fold_left_map.
  set (sx := fold_left _ x (zero N)). set (sy := fold_left _ y (zero N)).
  loop2 L. cbv beta. rewrite fold_left_pair'. rewrite H2.
  rewrite !fold_left_zipw, !map_map. rewrite !combine_map_l', !combine_map_r', !fold_left_map. reflexivity.
Qed.
End GenericKL.
Theorem src_symmetric_kl_eqR (x y : list R) (z : R) : length x = length y -> src_symmetric_kl RNum x y z = d_symmetric_kl RNum z x y.
Proof. apply (src_symmetric_kl_eq RNum). cbn. lra. Qed.
Theorem src_symmetric_kl_eqF (x y : list (T FNum.FNum)) (z : T FNum.FNum) :
  length x = length y -> src_symmetric_kl FNum.FNum x y z = d_symmetric_kl FNum.FNum z x y.
Proof. apply (src_symmetric_kl_eq FNum.FNum). vm_compute. reflexivity. Qed.

Section RealsLLD.
Local Open Scope R_scope.
Ltac rn := change (T RNum) with R in *.
Ltac rops := cbn [add sub mul div neg eqb ltb of_Z zero one nln nsqrt ntrunc RNum RPy ppi] in *; rn.
Lemma nlit_0125 : nlit RNum 125 (-3) = 1 / 8. Proof. unfold nlit. cbn. lra. Qed.
Lemma nlit_09 : nlit RNum 9 (-1) = 9 / 10. Proof. unfold nlit. cbn. lra. Qed.
Lemma nlit_12 : nlit RNum 12 0 = 12. Proof. unfold nlit. cbn. lra. Qed.

Theorem src_approx_log_Gamma_eq (E : Ext RNum) (x : R) :
  src_approx_log_Gamma RNum (RPy E) x = approx_log_gamma RNum E x.
Proof.
  unfold src_approx_log_Gamma, approx_log_gamma, nhalf, n2, c12, nZ. rewrite nlit_2, nlit_half, nlit_12. rops.
  destruct (Reqb x 1); [reflexivity|].
  replace (1 / (1 + 1)) with (/ 2) by lra. replace (1 + 1) with 2 by lra. reflexivity.
Qed.

Theorem src_log_single_beta_eq (E : Ext RNum) (x : R) :
  src_log_single_beta RNum (RPy E) x = log_single_beta RNum E x.
Proof.
  unfold src_log_single_beta, log_single_beta, nhalf, n2, c0125, nZ. rewrite nlit_2, nlit_half, nlit_0125. rops.
  replace (1 / (1 + 1)) with (/ 2) by lra. replace (1 + 1) with 2 by lra.
  replace (- (2) * x) with (- (2 * x)) by lra. reflexivity.
Qed.

Theorem src_log_beta_eq (E : Ext RNum) (Htr : forall a, xtrunc RNum E a = ntrunc RNum a) (x y : R) :
  src_log_beta RNum (RPy E) x y = log_beta RNum E x y.
Proof.
  unfold src_log_beta, log_beta, c5, nZ, PyPrim.nmin, PyPrim.nmax. cbv zeta.
  rewrite !src_approx_log_Gamma_eq, Htr.
  destruct (ltb RNum _ (of_Z RNum 5)); [|reflexivity].
  unfold for_range.
  replace (Z.to_nat (ntrunc RNum (if ltb RNum y x then y else x) - 1)) with (Z.to_nat (ntrunc RNum (if ltb RNum y x then y else x)) - 1)%nat by lia.
  rewrite <- seq_shift, fold_left_map. apply fold_left_ext. intros s k.
  replace (1 + Z.of_nat k)%Z with (Z.of_nat (Datatypes.S k)) by lia. reflexivity.
Qed.

Theorem src_ll_dirichlet_eq (E : Ext RNum) (Htr : forall a, xtrunc RNum E a = ntrunc RNum a) (x y : list R) :
  length x = length y -> src_ll_dirichlet RNum (RPy E) x y = d_ll_dirichlet RNum E x y.
Proof.
  intros L. unfold src_ll_dirichlet, d_ll_dirichlet, lld_core, clamp0, PyPrim.nmax, vsum_py, vsum. cbv zeta.
  loop2 L. cbv beta.
  rewrite (fold_left_ext _ (fun (s : R * R * R) (ab : R * R) => let '(p, q, r) := s in
     (p + (if Rltb (c09 RNum) (fst ab * snd ab) then log_beta RNum E (fst ab) (snd ab) else 0),
      q + (if Rltb (c09 RNum) (fst ab * snd ab) || Rltb (c09 RNum) (fst ab) then log_single_beta RNum E (fst ab) else 0),
      r + (if Rltb (c09 RNum) (fst ab * snd ab) || Rltb (c09 RNum) (snd ab) then log_single_beta RNum E (snd ab) else 0)))).
  2:{ intros [[p q] r] [a b]. cbn [fst snd]. unfold ngt. rewrite nlit_09.
      rewrite !src_log_single_beta_eq, (src_log_beta_eq E Htr).
      replace (c09 RNum) with (9 / 10) by (unfold c09, nZ; reflexivity). rops.
      destruct (Rltb (9 / 10) (a * b)); cbn [orb]; [reflexivity|].
      destruct (Rltb (9 / 10) a); destruct (Rltb (9 / 10) b); repeat f_equal; lra. }
  rewrite (fold_left_triple' (fun p ab => p + _) (fun q ab => q + _) (fun r ab => r + _)).
  rewrite !fold_left_zipw. rewrite !src_log_single_beta_eq, !(src_log_beta_eq E Htr). reflexivity.
Qed.
End RealsLLD.

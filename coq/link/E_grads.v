(* Evaluation leg of the translation tie (C14): the Gallina text generated from the CURRENT umap/distances.py gradient
   functions is itself run in binary64 on the inputs the implementation ran on.  [run_src] mirrors model/V_grads.v
   [run_model] with the hand-written model replaced by the translated source ([None]: not translated).
   Used by harness/c14.py through harness/vp/link.py. *)
From Coq Require Import List ZArith Bool PrimFloat.
From UV Require Import Num FloatFns FNum PyPrim M_grads V_grads.
From UVS Require Import Src_distances_grads.
Import ListNotations.
Open Scope float_scope.

Definition FPyG : PyExt FNum := mkPyExt FNum f_sin f_cos f_asin (arccosh FNum) f_pi.

Definition run_src (c : gcase) : option (float * list float) :=
  let x := g_x c in let y := g_y c in
  match g_fn c with
  | 0%nat => Some (src_euclidean_grad FNum x y)
  | 1%nat => Some (src_standardised_euclidean_grad FNum x y (g_v c))
  | 2%nat => Some (src_manhattan_grad FNum x y)
  | 3%nat => Some (src_chebyshev_grad FNum x y)
  | 4%nat => Some (src_minkowski_grad FNum x y (g_p c))
  | 5%nat => Some (src_hyperboloid_grad FNum FPyG x y)
  | 6%nat => Some (src_weighted_minkowski_grad FNum x y (g_v c) (g_p c))
  | 7%nat => Some (src_mahalanobis_grad FNum x y (g_m c))
  | 8%nat => Some (src_canberra_grad FNum x y)
  | 9%nat => Some (src_bray_curtis_grad FNum x y)
  | 10%nat => src_haversine_grad FNum FPyG x y
  | 11%nat => Some (src_cosine_grad FNum x y)
  | 12%nat => Some (src_hellinger_grad FNum x y)
  | 13%nat => Some (let '(d, g, _, _) := src_symmetric_kl_grad FNum x y (g_p c) in (d, g))   (* + the overwritten x, y *)
  | 14%nat => Some (src_correlation_grad FNum x y)
  | 15%nat => Some (src_spherical_gaussian_energy_grad FNum FPyG x y)
  | 16%nat => Some (src_diagonal_gaussian_energy_grad FNum FPyG x y)
  | _ => None
  end.

(* compare (d, g) with (d', g'), the gradient restricted to the entries the implementation's record carries (the first
   len(x) ones: diagonal_gaussian_energy_grad allocates 6 and writes 4) *)
Definition compare_C14 (rtol atol : float) (d : float) (g : list float) (d' : float) (g' : list float) : Z :=
  if negb (f_close rtol atol d d') then 1%Z else first_bad rtol atol 0%Z (firstn (length g') g) g'.

(* -2 not translated; -1 agree; 1 distance differs; 2 gradient length differs; 10+i gradient component i differs *)
Definition verdict_src_C14 (rtol atol : float) (c : gcase) : Z :=
  match run_src c with
  | Some (d, g) => compare_C14 rtol atol d g (g_d c) (g_g c)
  | None => (-2)%Z
  end.

(* translated source against the hand-written model on the same input (same tolerance): used to look for a concrete input
   when a link theorem no longer checks *)
Definition verdict_src_vs_model (rtol atol : float) (c : gcase) : Z :=
  match run_src c with
  | Some (d, g) => let '(dm, gm) := run_model c in compare_C14 rtol atol d g dm (firstn (length (g_g c)) gm)
  | None => (-2)%Z
  end.

Definition values_src_C14 (c : gcase) : float * list float :=
  match run_src c with Some r => r | None => (nan, []) end.

(* Link theorem for init_transform (umap_.py, C10): the Gallina text generated from the CURRENT source ([src_init_transform],
   module UVS.Src_umap_transform) equals [init_transform_model] of model/M_transform.v over every [Num] (source and model
   perform the same multiplications and additions in the same order, so the equality also holds in binary64; float32 storage
   of `result` is not rounded by the translator, see py2coq.py), for every rectangular index table and weight table of the
   same shape and EVERY embedding (no range hypothesis on the indices: both sides read 0 outside the embedding, where numba
   would read outside the array; no rectangularity of the embedding: only shape[1] = the length of row 0 is used).

   The source runs `for i: for j: for d: result[i, d] += w[i, j] * E[idx[i, j], d]`; the model computes every coordinate (i, d)
   as its own fold over j.  The proof turns the nest into "row i is rewritten" ([for_range_row], [for_range_mfill]), the
   d loop into an index-wise update of the row ([for_range_update]) and swaps the j and d loops ([fold_mapi_swap]).

   Capstone over R ([init_transform_convex]): when the weights of row i are non-negative and sum to 1, every coordinate of
   result row i lies in every interval [lo, hi] that contains that coordinate of all the neighbours' embedding rows -- in
   particular between their minimum and maximum (a convex combination): the statement the transform contract of C10 uses for
   the initial placement. *)
From Coq Require Import List ZArith Bool Lia Reals Lra.
From UV Require Import Num PyPrim PyPrimLemmas T_link T_link_arr T_link_mat T_link_fill M_transform.
From UVS Require Import Src_umap_transform.
Import ListNotations.

Section Generic.
Context (N : Num).

Lemma mapi_from_length {A : Type} (H : nat -> A -> A) : forall (l : list A) (off : nat), length (mapi_from off H l) = length l.
Proof. induction l as [|a l IH]; intros off; [reflexivity|]. cbn [mapi_from length]. f_equal. apply IH. Qed.

Lemma mapi_from_comp {A : Type} (F G : nat -> A -> A) : forall (l : list A) (off : nat),
  mapi_from off F (mapi_from off G l) = mapi_from off (fun d a => F d (G d a)) l.
Proof. induction l as [|a l IH]; intros off; [reflexivity|]. cbn [mapi_from]. f_equal. apply IH. Qed.

Lemma mapi_from_ext {A : Type} (F G : nat -> A -> A) : (forall d a, F d a = G d a) ->
  forall (l : list A) (off : nat), mapi_from off F l = mapi_from off G l.
Proof. intros H. induction l as [|a l IH]; intros off; [reflexivity|]. cbn [mapi_from]. rewrite H. f_equal. apply IH. Qed.

(* swapping `for j: for d: r[d] = h j d r[d]` into "every d folds over j" *)
Lemma fold_mapi_swap {J : Type} (h : J -> nat -> N -> N) : forall (js : list J) (r : list N),
  fold_left (fun r j => mapi_from 0 (h j) r) js r = mapi_from 0 (fun d a => fold_left (fun a j => h j d a) js a) r.
Proof.
  induction js as [|j js IH]; intros r; cbn [fold_left].
  - symmetry. generalize 0. induction r as [|a r IHr]; intros off; [reflexivity|]. cbn [mapi_from fold_left]. f_equal. apply IHr.
  - rewrite IH. apply mapi_from_comp.
Qed.

(* the d loop on a row of the right length *)
Definition drow (E : list (list N)) (D : nat) (w : N) (c : Z) (r : list N) : list N :=
  for_range 0 (Z.of_nat D) (fun d r => vset N r d (add N (vnth N r d) (mul N w (mnth N E c d)))) r.

Lemma drow_eq (E : list (list N)) (w : N) (c : Z) (r : list N) :
  drow E (length r) w c r = mapi_from 0 (fun d a => add N a (mul N w (mnth N E c (Z.of_nat d)))) r.
Proof. unfold drow. apply for_range_update; [reflexivity|]. intros k vals. reflexivity. Qed.

Lemma jfold (E : list (list N)) (D : nat) : forall (cw : list (Z * N)) (r : list N), length r = D ->
  fold_left (fun r p => drow E D (snd p) (fst p) r) cw r
  = fold_left (fun r p => mapi_from 0 (fun d a => add N a (mul N (snd p) (mnth N E (fst p) (Z.of_nat d)))) r) cw r.
Proof.
  induction cw as [|p cw IH]; intros r L; [reflexivity|]. cbn [fold_left].
  rewrite <- L at 1. rewrite drow_eq. apply IH. rewrite mapi_from_length. exact L.
Qed.

(* row i of the result, from the zero row *)
Lemma row_loop (E : list (list N)) (D : nat) (idx : list Z) (w : list N) :
  length idx = length w -> D = length (mrow N E 0) ->
  for_range 0 (zlen idx) (fun j r => drow E D (vnth N w j) (inth idx j) r) (repeat (zero N) D) = transform_row N idx w E.
Proof.
  intros L HD.
  rewrite (for_range_glist2 0%Z (zero N) (fun r c x => drow E D x c r) idx w _ L) by (intros k s; reflexivity).
  rewrite (jfold E D) by apply repeat_length.
  rewrite (fold_mapi_swap (fun (p : Z * N) d a => add N a (mul N (snd p) (mnth N E (fst p) (Z.of_nat d))))).
  rewrite mapi_from_repeat. unfold transform_row. rewrite <- HD. reflexivity.
Qed.

Theorem src_init_transform_eq (indices : list (list Z)) (weights E : list (list N)) (K : nat) :
  rect K indices -> rect K weights -> length weights = length indices ->
  src_init_transform N indices weights E = init_transform_model N indices weights E.
Proof.
  intros HI HW L. unfold src_init_transform. cbv zeta.
  destruct indices as [|i0 indices'] eqn:EI.
  { destruct weights; [reflexivity|discriminate]. }
  rewrite <- EI in *. assert (Hne : indices <> []) by (rewrite EI; discriminate).
  rewrite (imrow0_len K indices HI Hne).
  set (D := length (mrow N E 0)). change (zlen (mrow N E 0)) with (Z.of_nat D). unfold zlen.
  rewrite (for_range_mfill N _
     (fun i r => for_range 0 (Z.of_nat K) (fun j r => drow E D (vnth N (nth i weights []) j) (inth (nth i indices []) j) r) r)).
  - unfold init_transform_model.
    rewrite <- (map_seq_nth2 [] [] (fun a b => transform_row N a b E) indices weights) by (symmetry; exact L).
    apply map_ext_in. intros i Hi. apply in_seq in Hi.
    assert (LI : length (nth i indices []) = K) by (apply (rect_nth K indices i HI); lia).
    assert (LW : length (nth i weights []) = K) by (apply (rect_nth K weights i HW); lia).
    rewrite <- LI. apply row_loop; [lia|reflexivity].
  - intros i P r S Hi.
    apply (for_range_row P S 0 (Z.of_nat K) _ (fun j r => drow E D (vnth N (nth i weights []) j) (inth (nth i indices []) j) r)).
    intros j r'. unfold drow.
    apply (for_range_row P S 0 (Z.of_nat D) _
             (fun d r => vset N r d (add N (vnth N r d) (mul N (vnth N (nth i weights []) j) (mnth N E (inth (nth i indices []) j) d))))).
    intros d r''. rewrite (mnth_app_mid N P S r'' i d Hi), mnth_of_nat, imnth_row. apply mset_app_mid. exact Hi.
Qed.
End Generic.

(* ---- capstone over R: a convex combination stays between the neighbours' coordinates ---------------------------- *)
Ltac rn := change (T RNum) with R in *.

Lemma convex_fold (v : Z -> R) (lo hi : R) : forall (l : list (Z * R)) (a s : R),
  (forall cw, In cw l -> 0 <= snd cw /\ lo <= v (fst cw) <= hi)%R ->
  (a - lo * s + lo * fold_left (fun s cw => s + snd cw) l s <= fold_left (fun a cw => a + snd cw * v (fst cw)) l a
   /\ fold_left (fun a cw => a + snd cw * v (fst cw)) l a <= a - hi * s + hi * fold_left (fun s cw => s + snd cw) l s)%R.
Proof.
  induction l as [|[c w] l IH]; intros a s H; cbn [fold_left fst snd].
  - split; lra.
  - assert (Hc : (0 <= w /\ lo <= v c <= hi)%R) by (apply (H (c, w)); left; reflexivity).
    specialize (IH (a + w * v c)%R (s + w)%R (fun cw Hin => H cw (or_intror Hin))).
    destruct IH as [I1 I2].
    assert (P1 : (0 <= w * (v c - lo))%R) by (apply Rmult_le_pos; lra).
    assert (P2 : (0 <= w * (hi - v c))%R) by (apply Rmult_le_pos; lra).
    split; lra.
Qed.

Theorem init_transform_convex (indices : list (list Z)) (weights E : list (list R)) (K i d : nat) (lo hi : R) :
  rect K indices -> rect K weights -> length weights = length indices ->
  i < length indices -> d < length (mrow RNum E 0) ->
  Forall (fun w => 0 <= w)%R (nth i weights []) -> fold_left Rplus (nth i weights []) 0%R = 1%R ->
  (forall c, In c (nth i indices []) -> lo <= mnth RNum E c (Z.of_nat d) <= hi)%R ->
  (lo <= nth d (nth i (src_init_transform RNum indices weights E) []) 0 <= hi)%R.
Proof.
  intros HI HW L Hi Hd Hw Hs Hc.
  rewrite (src_init_transform_eq RNum indices weights E K HI HW L). unfold init_transform_model.
  rewrite (nth_map_in _ _ i ([], [])) by (rewrite combine_length; rn; lia).
  rewrite combine_nth by (symmetry; exact L). cbn [fst snd]. unfold transform_row.
  rewrite (nth_map_in _ _ d 0%nat) by (rewrite seq_length; exact Hd).
  rewrite seq_nth by exact Hd. cbn [Nat.add]. unfold transform_coord. cbn [add mul zero RNum]. rn.
  assert (LI : length (nth i indices []) = K) by (apply (rect_nth K indices i HI); lia).
  assert (LW : length (nth i weights []) = K) by (apply (rect_nth K weights i HW); lia).
  pose proof (convex_fold (fun c => mnth RNum E c (Z.of_nat d)) lo hi (combine (nth i indices []) (nth i weights [])) 0%R 0%R) as C.
  cbv beta in C.
  rewrite (fold_left_combine_snd (fun s w => (s + w)%R)) in C by lia.
  change (fun s w : R => (s + w)%R) with Rplus in C. rn. rewrite Hs in C.
  assert (Hall : forall cw : Z * R, In cw (combine (nth i indices []) (nth i weights [])) ->
                 (0 <= snd cw /\ lo <= mnth RNum E (fst cw) (Z.of_nat d) <= hi)%R).
  { intros [c w] Hin. cbn [fst snd]. split.
    - rewrite Forall_forall in Hw. apply Hw. apply (in_combine_r _ _ _ _ Hin).
    - apply Hc. apply (in_combine_l _ _ _ _ Hin). }
  specialize (C Hall). destruct C as [C1 C2]. split; lra.
Qed.

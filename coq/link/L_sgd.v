(* Link theorems for the serial Euclidean SGD epoch kernel of umap/layouts.py (C07):
   _optimize_layout_euclidean_single_epoch, translated twice by py2coq from the one source function (densmap_flag=False):
     src__optimize_layout_euclidean_single_epoch_shared    tail_embedding IS head_embedding (fit)
     src__optimize_layout_euclidean_single_epoch_distinct  two arrays that do not overlap (transform)
   The row views `current = head_embedding[j]`, `other = tail_embedding[k]` are row INDICES into the array in the loop
   state (PyPrim.v header), `tau_rand_int(rng_state_per_sample[j])` writes the new state row back.

   Structure: the loops of the generated text are named ([attr_dloop_s], [rep_dloop_s], [neg_pbody_s], [edge_body_s], and the
   [_d] twins); [src_sgd_shared_unfold] / [src_sgd_distinct_unfold] state, by reflexivity, that the generated definitions ARE
   these loops (so a change of the source's text breaks them); the theorems below are about the named loops and are then
   transported to the generated definitions. *)
From Coq Require Import List ZArith Bool Reals Lra Lia.
From UV Require Import Num PyPrim PyPrimLemmas T_link T_link_mat M_sgd.
From UVS Require Import Src_layouts.
Import ListNotations.

Theorem src_tau_rand_int_layouts_eq (N : Num) (s0 s1 s2 : Z) :
  src_tau_rand_int N [s0; s1; s2] =
  let '((t0, t1, t2), r) := tau_rand_int (s0, s1, s2) in (r, [t0; t1; t2]).
Proof. reflexivity. Qed.

Lemma for_range_ext_all {S : Type} (lo hi : Z) (f g : Z -> S -> S) (s : S) :
  (forall k s, f k s = g k s) -> for_range lo hi f s = for_range lo hi g s.
Proof. intros E. unfold for_range. apply fold_left_ext. intros. apply E. Qed.

(* ---- the loops of the generated text, named -------------------------------------------------------------------------------- *)
Section Named.
Context (N : Num).

(* lines 142-152, tail_embedding is head_embedding *)
Definition attr_dloop_s (gc alpha : N) (mo : bool) (cur oth dim : Z) (H : list (list N)) : list (list N) :=
  for_range 0%Z dim (fun d H =>
    let grad_d := src_clip N (mul N gc (sub N (mnth N H cur d) (mnth N H oth d))) in
    let H := mset N H cur d (add N (mnth N H cur d) (mul N grad_d alpha)) in
    let H := (if mo then let H := mset N H oth d (add N (mnth N H oth d) (mul N (neg N grad_d) alpha)) in H else H) in
    H) H.
(* lines 142-152, two arrays *)
Definition attr_dloop_d (gc alpha : N) (mo : bool) (cur oth dim : Z) (HT : list (list N) * list (list N)) :=
  for_range 0%Z dim (fun d '(H, T) =>
    let grad_d := src_clip N (mul N gc (sub N (mnth N H cur d) (mnth N T oth d))) in
    let H := mset N H cur d (add N (mnth N H cur d) (mul N grad_d alpha)) in
    let T := (if mo then let T := mset N T oth d (add N (mnth N T oth d) (mul N (neg N grad_d) alpha)) in T else T) in
    (H, T)) HT.
(* lines 177-182 *)
Definition rep_dloop_s (gc alpha : N) (cur oth dim : Z) (H : list (list N)) : list (list N) :=
  for_range 0%Z dim (fun d H =>
    let grad_d := (if ngt N gc (zero N) then
                     let grad_d := src_clip N (mul N gc (sub N (mnth N H cur d) (mnth N H oth d))) in grad_d
                   else let grad_d := 0%Z in of_Z N grad_d) in
    let H := mset N H cur d (add N (mnth N H cur d) (mul N grad_d alpha)) in
    H) H.
Definition rep_dloop_d (gc alpha : N) (cur oth dim : Z) (T H : list (list N)) : list (list N) :=
  for_range 0%Z dim (fun d H =>
    let grad_d := (if ngt N gc (zero N) then
                     let grad_d := src_clip N (mul N gc (sub N (mnth N H cur d) (mnth N T oth d))) in grad_d
                   else let grad_d := 0%Z in of_Z N grad_d) in
    let H := mset N H cur d (add N (mnth N H cur d) (mul N grad_d alpha)) in
    H) H.

Definition pstate : Type := (Z * list (list Z) * Z * N * N * list (list N))%type.
(* lines 161-182: one negative sample *)
Definition neg_pbody_s (a b gamma alpha : N) (nv dim j cur : Z) (p : Z) (st : pstate) : pstate :=
  let '(k, rng, other, d2, gc, H) := st in
  let '(r, m) := src_tau_rand_int N (imrow rng j) in
  let rng := zset rng j m in
  let k := Z.modulo r nv in
  let other := k in
  let d2 := src_rdist N (mrow N H cur) (mrow N H other) in
  if ngt N d2 (zero N) then
    let gc := mul N (mul N (nlit N 2 0) gamma) b in
    let gc := div N gc (mul N (add N (nlit N 1 (-3)) d2) (add N (mul N a (npow N d2 b)) (one N))) in
    let H := rep_dloop_s gc alpha cur other dim H in
    (k, rng, other, d2, gc, H)
  else if Z.eqb j k then (k, rng, other, d2, gc, H)
  else
    let gc := zero N in
    let H := rep_dloop_s gc alpha cur other dim H in
    (k, rng, other, d2, gc, H).
Definition neg_pbody_d (a b gamma alpha : N) (nv dim j cur : Z) (T : list (list N)) (p : Z) (st : pstate) : pstate :=
  let '(k, rng, other, d2, gc, H) := st in
  let '(r, m) := src_tau_rand_int N (imrow rng j) in
  let rng := zset rng j m in
  let k := Z.modulo r nv in
  let other := k in
  let d2 := src_rdist N (mrow N H cur) (mrow N T other) in
  if ngt N d2 (zero N) then
    let gc := mul N (mul N (nlit N 2 0) gamma) b in
    let gc := div N gc (mul N (add N (nlit N 1 (-3)) d2) (add N (mul N a (npow N d2 b)) (one N))) in
    let H := rep_dloop_d gc alpha cur other dim T H in
    (k, rng, other, d2, gc, H)
  else if Z.eqb j k then (k, rng, other, d2, gc, H)
  else
    let gc := zero N in
    let H := rep_dloop_d gc alpha cur other dim T H in
    (k, rng, other, d2, gc, H).

(* lines 136-140 *)
Definition attr_gc (a b d2 : N) : N :=
  if ngt N d2 (zero N) then
    div N (mul N (mul N (mul N (neg N (nlit N 2 0)) a) b) (npow N d2 (sub N b (one N)))) (add N (mul N a (npow N d2 b)) (one N))
  else zero N.

Definition estate_s : Type := (list (list N) * list N * list (list Z) * list N)%type.     (* H, next, rng, nneg *)
(* lines 93-186 for edge i *)
Definition edge_body_s (head tail : list Z) (nv : Z) (eps : list N) (a b gamma : N) (dim : Z) (mo : bool) (alpha : N)
                       (epns : list N) (n : Z) (i : Z) (st : estate_s) : estate_s :=
  let '(H, next, rng, nneg) := st in
  if leb N (vnth N next i) (of_Z N n) then
    let j := inth head i in
    let k := inth tail i in
    let d2 := src_rdist N (mrow N H j) (mrow N H k) in
    let gc := attr_gc a b d2 in
    let H := attr_dloop_s gc alpha mo j k dim H in
    let next := vset N next i (add N (vnth N next i) (vnth N eps i)) in
    let nn := ntrunc N (div N (sub N (of_Z N n) (vnth N nneg i)) (vnth N epns i)) in
    let '(_, rng, _, _, _, H) := for_range 0%Z nn (neg_pbody_s a b gamma alpha nv dim j j) (k, rng, k, d2, gc, H) in
    let nneg := vset N nneg i (add N (vnth N nneg i) (mul N (of_Z N nn) (vnth N epns i))) in
    (H, next, rng, nneg)
  else st.

Definition estate_d : Type := (list (list N) * list (list N) * list N * list (list Z) * list N)%type.
Definition edge_body_d (head tail : list Z) (nv : Z) (eps : list N) (a b gamma : N) (dim : Z) (mo : bool) (alpha : N)
                       (epns : list N) (n : Z) (i : Z) (st : estate_d) : estate_d :=
  let '(H, T, next, rng, nneg) := st in
  if leb N (vnth N next i) (of_Z N n) then
    let j := inth head i in
    let k := inth tail i in
    let d2 := src_rdist N (mrow N H j) (mrow N T k) in
    let gc := attr_gc a b d2 in
    let '(H, T) := attr_dloop_d gc alpha mo j k dim (H, T) in
    let next := vset N next i (add N (vnth N next i) (vnth N eps i)) in
    let nn := ntrunc N (div N (sub N (of_Z N n) (vnth N nneg i)) (vnth N epns i)) in
    let '(_, rng, _, _, _, H) := for_range 0%Z nn (neg_pbody_d a b gamma alpha nv dim j j T) (k, rng, k, d2, gc, H) in
    let nneg := vset N nneg i (add N (vnth N nneg i) (mul N (of_Z N nn) (vnth N epns i))) in
    (H, T, next, rng, nneg)
  else st.
End Named.

(* the generated definitions ARE these loops (the densMAP arguments are not read: densmap_flag=False) *)
Theorem src_sgd_shared_unfold (N : Num) H head tail nv eps a b rng gamma dim mo alpha epns nneg next n
        (x1 x2 : list N) (x3 x4 x5 x6 : N) (x7 x8 : list N) (x9 : N) :
  src__optimize_layout_euclidean_single_epoch_shared N H head tail nv eps a b rng gamma dim mo alpha epns nneg next n x1 x2 x3 x4 x5 x6 x7 x8 x9 =
  let '(H, next, rng, nneg) := for_range 0%Z (zlen eps) (edge_body_s N head tail nv eps a b gamma dim mo alpha epns n) (H, next, rng, nneg) in
  (H, rng, nneg, next).
Proof.
  unfold src__optimize_layout_euclidean_single_epoch_shared, zlen.
  remember (for_range 0 (Z.of_nat (length eps)) (edge_body_s N head tail nv eps a b gamma dim mo alpha epns n) (H, next, rng, nneg)) as R eqn:ER.
  rewrite (for_range_ext (length eps) _ (edge_body_s N head tail nv eps a b gamma dim mo alpha epns n)); [rewrite <- ER; reflexivity|].
  intros i s _. unfold estate_s in s. destruct s as [[[H0 nx0] rg0] ng0]. unfold edge_body_s.
  destruct (leb N (vnth N nx0 (Z.of_nat i)) (of_Z N n)); [|reflexivity].
  cbv zeta. fold (attr_gc N a b (src_rdist N (mrow N H0 (inth head (Z.of_nat i))) (mrow N H0 (inth tail (Z.of_nat i))))).
  fold (attr_dloop_s N).
  erewrite (for_range_ext_all _ _ _ (neg_pbody_s N a b gamma alpha nv dim (inth head (Z.of_nat i)) (inth head (Z.of_nat i)))).
  - destruct (for_range 0 (ntrunc N _) _ _) as [[[[[? ?] ?] ?] ?] ?]. reflexivity.
  - intros p [[[[[k0 rg1] o0] dd0] gc0] H1]. reflexivity.
Qed.

Theorem src_sgd_distinct_unfold (N : Num) H T head tail nv eps a b rng gamma dim mo alpha epns nneg next n
        (x1 x2 : list N) (x3 x4 x5 x6 : N) (x7 x8 : list N) (x9 : N) :
  src__optimize_layout_euclidean_single_epoch_distinct N H T head tail nv eps a b rng gamma dim mo alpha epns nneg next n x1 x2 x3 x4 x5 x6 x7 x8 x9 =
  let '(H, T, next, rng, nneg) := for_range 0%Z (zlen eps) (edge_body_d N head tail nv eps a b gamma dim mo alpha epns n) (H, T, next, rng, nneg) in
  (H, T, rng, nneg, next).
Proof.
  unfold src__optimize_layout_euclidean_single_epoch_distinct, zlen.
  remember (for_range 0 (Z.of_nat (length eps)) (edge_body_d N head tail nv eps a b gamma dim mo alpha epns n) (H, T, next, rng, nneg)) as R eqn:ER.
  rewrite (for_range_ext (length eps) _ (edge_body_d N head tail nv eps a b gamma dim mo alpha epns n)); [rewrite <- ER; reflexivity|].
  intros i s _. unfold estate_d in s. destruct s as [[[[H0 T0] nx0] rg0] ng0]. unfold edge_body_d.
  destruct (leb N (vnth N nx0 (Z.of_nat i)) (of_Z N n)); [|reflexivity].
  cbv zeta. fold (attr_gc N a b (src_rdist N (mrow N H0 (inth head (Z.of_nat i))) (mrow N T0 (inth tail (Z.of_nat i))))).
  change (for_range 0 dim _ (H0, T0)) with
    (attr_dloop_d N (attr_gc N a b (src_rdist N (mrow N H0 (inth head (Z.of_nat i))) (mrow N T0 (inth tail (Z.of_nat i))))) alpha mo
                  (inth head (Z.of_nat i)) (inth tail (Z.of_nat i)) dim (H0, T0)).
  destruct (attr_dloop_d _ _ _ _ _ _ _ _) as [H1 T1].
  erewrite (for_range_ext_all _ _ _ (neg_pbody_d N a b gamma alpha nv dim (inth head (Z.of_nat i)) (inth head (Z.of_nat i)) T1)).
  - destruct (for_range 0 (ntrunc N _) _ _) as [[[[[? ?] ?] ?] ?] ?]. reflexivity.
  - intros p [[[[[k0 rg1] o0] dd0] gc0] H2]. reflexivity.
Qed.

(* ---- list / matrix facts ----------------------------------------------------------------------------------------------------- *)
Lemma upd_set {A : Type} (l : list A) (i : nat) (v : A) : upd l i v = set_nth_nat l i v.
Proof. revert i; induction l as [|x l IH]; intros [|i]; cbn; try reflexivity. Qed.

Lemma set_nth_nat_comm {A : Type} (l : list A) (i j : nat) (v w : A) :
  i <> j -> set_nth_nat (set_nth_nat l i v) j w = set_nth_nat (set_nth_nat l j w) i v.
Proof. revert i j; induction l as [|x l IH]; intros [|i] [|j] Hn; cbn; try reflexivity; try lia. f_equal. apply IH. lia. Qed.

(* the first c entries of [new], the others of [old] *)
Fixpoint mix {A : Type} (c : nat) (new old : list A) : list A :=
  match c, new, old with
  | Datatypes.S c', n :: new', o :: old' => n :: mix c' new' old'
  | _, _, _ => old
  end.
Lemma mix_0 {A : Type} (new old : list A) : mix 0 new old = old.
Proof. destruct new, old; reflexivity. Qed.
Lemma mix_nth {A : Type} (d : A) : forall c (new old : list A), nth c (mix c new old) d = nth c old d.
Proof. induction c as [|c IH]; intros [|n new] [|o old]; cbn; try reflexivity. apply IH. Qed.
Lemma mix_length {A : Type} : forall c (new old : list A), length (mix c new old) = length old.
Proof. induction c as [|c IH]; intros [|n new] [|o old]; cbn; try reflexivity. f_equal. apply IH. Qed.
Lemma mix_set {A : Type} (d : A) : forall c (new old : list A), length new = length old -> c < length old ->
  set_nth_nat (mix c new old) c (nth c new d) = mix (Datatypes.S c) new old.
Proof.
  induction c as [|c IH]; intros [|n new] [|o old] L Hc; cbn in *; try lia.
  - reflexivity.
  - f_equal. apply IH; lia.
Qed.
Lemma mix_full {A : Type} : forall (new old : list A), length new = length old -> mix (length old) new old = new.
Proof. induction new as [|n new IH]; intros [|o old] L; cbn in *; try lia; try reflexivity. f_equal. apply IH. lia. Qed.
Lemma mix_same {A : Type} : forall c (l : list A), mix c l l = l.
Proof. induction c as [|c IH]; intros [|x l]; cbn; try reflexivity. f_equal. apply IH. Qed.

Section MatNat.
Context (N : Num).
Lemma mnth_nat (H : list (list N)) (j c : nat) : mnth N H (Z.of_nat j) (Z.of_nat c) = nth c (nth j H []) (zero N).
Proof. unfold mnth, vnth. rewrite !znth_of_nat. reflexivity. Qed.
Lemma mset_nat (H : list (list N)) (j c : nat) (v : N) :
  mset N H (Z.of_nat j) (Z.of_nat c) v = set_nth_nat H j (set_nth_nat (nth j H []) c v).
Proof. unfold mset, vset. rewrite !zset_of_nat, znth_of_nat. reflexivity. Qed.
Lemma mrow_nat (H : list (list N)) (j : nat) : mrow N H (Z.of_nat j) = nth j H [].
Proof. unfold mrow. apply znth_of_nat. Qed.
Lemma nth_map2 (f : N -> N -> N) (d : N) : forall (x y : list N) (c : nat), c < length x -> c < length y ->
  nth c (map2 N f x y) d = f (nth c x d) (nth c y d).
Proof. induction x as [|a x IH]; intros [|b y] [|c] Hx Hy; cbn in *; try lia; try reflexivity. apply IH; lia. Qed.
Lemma map2_length (f : N -> N -> N) : forall (x y : list N), length x = length y -> length (map2 N f x y) = length x.
Proof. induction x as [|a x IH]; intros [|b y] L; cbn in *; try lia. f_equal. apply IH. lia. Qed.
End MatNat.

(* ---- (a) the attractive d-loop = the model's [attract] ------------------------------------------------------------------------ *)
(* [attract] of model/M_sgd.v with the coefficient as a parameter: [attract a b .. = attract_with (attr_coeff a b (rdist cur oth)) ..] *)
Definition attract_with (N : Num) (gc alpha : N) (move_other : bool) (e : emb N) (j k : nat) : emb N :=
  let cur := nth j (eH N e) [] in
  let oth := get_tail N e k in
  let g := map2 N (fun c o => clip N (mul N gc (sub N c o))) cur oth in
  let e1 := set_head N e j (map2 N (fun c gd => add N c (mul N gd alpha)) cur g) in
  if move_other then set_tail N e1 k (map2 N (fun o gd => add N o (mul N (neg N gd) alpha)) (get_tail N e1 k) g) else e1.
Lemma attract_attract_with (N : Num) a b alpha mo e j k :
  attract N a b alpha mo e j k = attract_with N (attr_coeff N a b (rdist N (nth j (eH N e) []) (get_tail N e k))) alpha mo e j k.
Proof. reflexivity. Qed.

Section Attract.
Context (N : Num) (Hclip : forall v : N, src_clip N v = clip N v).
Context (gc alpha : N) (mo : bool) (D : nat).

Ltac nat_level := rewrite ?mnth_nat, ?mset_nat.

(* tail_embedding is head_embedding, j <> k *)
Lemma attr_dloop_s_ne (H0 T0 : list (list N)) (j k : nat) :
  j < length H0 -> k < length H0 -> j <> k -> length (nth j H0 []) = D -> length (nth k H0 []) = D ->
  attr_dloop_s N gc alpha mo (Z.of_nat j) (Z.of_nat k) (Z.of_nat D) H0 = eH N (attract_with N gc alpha mo (mkEmb N H0 T0 true) j k).
Proof.
  intros Hj Hk Hne Lj Lk.
  set (cur := nth j H0 []). set (oth := nth k H0 []).
  set (g := map2 N (fun c o => clip N (mul N gc (sub N c o))) cur oth).
  set (newj := map2 N (fun c gd => add N c (mul N gd alpha)) cur g).
  set (newk := if mo then map2 N (fun o gd => add N o (mul N (neg N gd) alpha)) oth g else oth).
  assert (Lg : length g = D) by (unfold g; rewrite map2_length; unfold cur, oth; lia).
  assert (Lnj : length newj = length cur) by (unfold newj; rewrite map2_length; unfold cur; lia).
  assert (Lnk : length newk = length oth).
  { unfold newk. destruct mo; [|reflexivity]. rewrite map2_length; unfold oth; lia. }
  assert (Inv : attr_dloop_s N gc alpha mo (Z.of_nat j) (Z.of_nat k) (Z.of_nat D) H0 =
                set_nth_nat (set_nth_nat H0 j (mix D newj cur)) k (mix D newk oth)).
  { unfold attr_dloop_s.
    apply (for_range_ind (fun c Hc => Hc = set_nth_nat (set_nth_nat H0 j (mix c newj cur)) k (mix c newk oth))).
    - rewrite !mix_0. unfold cur, oth.
      rewrite (set_nth_nat_id []), (set_nth_nat_id []). reflexivity.
    - intros c Hc Hlt ->. cbv zeta. nat_level.
      set (Rj := mix c newj cur). set (Rk := mix c newk oth).
      assert (Ej : nth j (set_nth_nat (set_nth_nat H0 j Rj) k Rk) [] = Rj).
      { rewrite nth_set_nth_nat_other by lia. apply nth_set_nth_nat_same. lia. }
      assert (Ek : nth k (set_nth_nat (set_nth_nat H0 j Rj) k Rk) [] = Rk).
      { apply nth_set_nth_nat_same. rewrite set_nth_nat_length. lia. }
      rewrite !Ej, !Ek.
      assert (Ecj : nth c Rj (zero N) = nth c cur (zero N)) by apply mix_nth.
      assert (Eck : nth c Rk (zero N) = nth c oth (zero N)) by apply mix_nth.
      rewrite Ecj, Eck, Hclip.
      assert (Egc : clip N (mul N gc (sub N (nth c cur (zero N)) (nth c oth (zero N)))) = nth c g (zero N)).
      { unfold g. rewrite nth_map2; [reflexivity| |]; unfold cur, oth; lia. }
      rewrite Egc.
      assert (Enj : add N (nth c cur (zero N)) (mul N (nth c g (zero N)) alpha) = nth c newj (zero N)).
      { unfold newj. rewrite nth_map2; [reflexivity| |]; unfold cur; lia. }
      rewrite Enj.
      assert (S1 : set_nth_nat Rj c (nth c newj (zero N)) = mix (Datatypes.S c) newj cur).
      { apply mix_set; [exact Lnj|unfold cur; lia]. }
      rewrite S1.
      assert (H1 : set_nth_nat (set_nth_nat (set_nth_nat H0 j Rj) k Rk) j (mix (Datatypes.S c) newj cur) =
                   set_nth_nat (set_nth_nat H0 j (mix (Datatypes.S c) newj cur)) k Rk).
      { rewrite (set_nth_nat_comm _ k j) by lia. rewrite set_nth_nat_twice. reflexivity. }
      rewrite H1.
      unfold newk in *. destruct mo.
      + nat_level.
        assert (Ek' : nth k (set_nth_nat (set_nth_nat H0 j (mix (Datatypes.S c) newj cur)) k Rk) [] = Rk).
        { apply nth_set_nth_nat_same. rewrite set_nth_nat_length. lia. }
        rewrite !Ek', Eck.
        assert (Enk : add N (nth c oth (zero N)) (mul N (neg N (nth c g (zero N))) alpha) =
                      nth c (map2 N (fun o gd => add N o (mul N (neg N gd) alpha)) oth g) (zero N)).
        { rewrite nth_map2; [reflexivity| |]; unfold oth; lia. }
        rewrite Enk. unfold Rk. rewrite mix_set by (try exact Lnk; unfold oth; lia).
        rewrite set_nth_nat_twice. reflexivity.
      + unfold Rk. rewrite !mix_same. reflexivity. }
  rewrite Inv.
  replace D with (length cur) at 1 by (unfold cur; lia). rewrite (mix_full newj cur Lnj).
  replace D with (length oth) by (unfold oth; lia). rewrite (mix_full newk oth Lnk).
  unfold attract_with, newk. cbv zeta. destruct mo; cbn [eH eshared get_tail set_head set_tail];
    change (@upd (list N)) with (@set_nth_nat (list N)).
  - rewrite nth_set_nth_nat_other by lia. reflexivity.
  - rewrite (set_nth_nat_comm _ j k) by lia. unfold oth. rewrite (set_nth_nat_id []). reflexivity.
Qed.

(* tail_embedding is head_embedding, j = k: `other` is the row `current` just wrote *)
Lemma attr_dloop_s_eq_jj (H0 T0 : list (list N)) (j : nat) :
  j < length H0 -> length (nth j H0 []) = D ->
  attr_dloop_s N gc alpha mo (Z.of_nat j) (Z.of_nat j) (Z.of_nat D) H0 = eH N (attract_with N gc alpha mo (mkEmb N H0 T0 true) j j).
Proof.
  intros Hj Lj.
  set (cur := nth j H0 []).
  set (g := map2 N (fun c o => clip N (mul N gc (sub N c o))) cur cur).
  set (new1 := map2 N (fun c gd => add N c (mul N gd alpha)) cur g).
  set (new := if mo then map2 N (fun o gd => add N o (mul N (neg N gd) alpha)) new1 g else new1).
  assert (Lg : length g = D) by (unfold g; rewrite map2_length; unfold cur; lia).
  assert (Ln1 : length new1 = D) by (unfold new1; rewrite map2_length; unfold cur; lia).
  assert (Ln : length new = length cur).
  { unfold new. destruct mo; [rewrite map2_length|]; unfold cur; lia. }
  assert (Inv : attr_dloop_s N gc alpha mo (Z.of_nat j) (Z.of_nat j) (Z.of_nat D) H0 = set_nth_nat H0 j (mix D new cur)).
  { unfold attr_dloop_s.
    apply (for_range_ind (fun c Hc => Hc = set_nth_nat H0 j (mix c new cur))).
    - rewrite mix_0. unfold cur. rewrite (set_nth_nat_id []). reflexivity.
    - intros c Hc Hlt ->. cbv zeta. nat_level.
      set (R := mix c new cur).
      assert (LR : length R = D) by (unfold R; rewrite mix_length; unfold cur; lia).
      assert (Ej : forall X, nth j (set_nth_nat H0 j X) [] = X) by (intros X; apply nth_set_nth_nat_same; lia).
      rewrite !Ej.
      assert (Ec : nth c R (zero N) = nth c cur (zero N)) by apply mix_nth.
      rewrite Ec, Hclip.
      assert (Egc : clip N (mul N gc (sub N (nth c cur (zero N)) (nth c cur (zero N)))) = nth c g (zero N)).
      { unfold g. rewrite nth_map2; [reflexivity| |]; unfold cur; lia. }
      rewrite Egc.
      assert (En1 : add N (nth c cur (zero N)) (mul N (nth c g (zero N)) alpha) = nth c new1 (zero N)).
      { unfold new1. rewrite nth_map2; [reflexivity| |]; unfold cur; lia. }
      rewrite En1, !set_nth_nat_twice.
      unfold new in *. destruct mo.
      + rewrite !Ej.
        rewrite nth_set_nth_nat_same by lia. rewrite set_nth_nat_twice.
        assert (En : add N (nth c new1 (zero N)) (mul N (neg N (nth c g (zero N))) alpha) =
                     nth c (map2 N (fun o gd => add N o (mul N (neg N gd) alpha)) new1 g) (zero N)).
        { rewrite nth_map2; [reflexivity| |]; lia. }
        rewrite En. unfold R. rewrite mix_set by (try exact Ln; unfold cur; lia). reflexivity.
      + unfold R. rewrite mix_set by (try exact Ln; unfold cur; lia). reflexivity. }
  rewrite Inv.
  replace D with (length cur) by (unfold cur; lia). rewrite (mix_full new cur Ln).
  unfold attract_with, new. cbv zeta. destruct mo; cbn [eH eshared get_tail set_head set_tail];
    change (@upd (list N)) with (@set_nth_nat (list N)).
  - rewrite nth_set_nth_nat_same by lia. rewrite set_nth_nat_twice. reflexivity.
  - reflexivity.
Qed.

(* (a), fit: the translated attractive d-loop is the model's attractive move, for every pair of vertices (also j = k) *)
Theorem attr_dloop_s_eq (H0 T0 : list (list N)) (j k : nat) :
  j < length H0 -> k < length H0 -> rect D H0 ->
  attr_dloop_s N gc alpha mo (Z.of_nat j) (Z.of_nat k) (Z.of_nat D) H0 = eH N (attract_with N gc alpha mo (mkEmb N H0 T0 true) j k).
Proof.
  intros Hj Hk HR.
  assert (Lj := rect_nth D H0 j HR Hj). assert (Lk := rect_nth D H0 k HR Hk).
  destruct (Nat.eq_dec j k) as [->|Hne]; [apply attr_dloop_s_eq_jj|apply attr_dloop_s_ne]; assumption.
Qed.

(* (a), transform: two arrays *)
Theorem attr_dloop_d_eq (H0 T0 : list (list N)) (j k : nat) :
  j < length H0 -> k < length T0 -> length (nth j H0 []) = D -> length (nth k T0 []) = D ->
  attr_dloop_d N gc alpha mo (Z.of_nat j) (Z.of_nat k) (Z.of_nat D) (H0, T0) =
  let e := attract_with N gc alpha mo (mkEmb N H0 T0 false) j k in (eH N e, eT N e).
Proof.
  intros Hj Hk Lj Lk.
  set (cur := nth j H0 []). set (oth := nth k T0 []).
  set (g := map2 N (fun c o => clip N (mul N gc (sub N c o))) cur oth).
  set (newj := map2 N (fun c gd => add N c (mul N gd alpha)) cur g).
  set (newk := if mo then map2 N (fun o gd => add N o (mul N (neg N gd) alpha)) oth g else oth).
  assert (Lg : length g = D) by (unfold g; rewrite map2_length; unfold cur, oth; lia).
  assert (Lnj : length newj = length cur) by (unfold newj; rewrite map2_length; unfold cur; lia).
  assert (Lnk : length newk = length oth).
  { unfold newk. destruct mo; [|reflexivity]. rewrite map2_length; unfold oth; lia. }
  assert (Inv : attr_dloop_d N gc alpha mo (Z.of_nat j) (Z.of_nat k) (Z.of_nat D) (H0, T0) =
                (set_nth_nat H0 j (mix D newj cur), set_nth_nat T0 k (mix D newk oth))).
  { unfold attr_dloop_d.
    apply (for_range_ind (fun c (HT : list (list N) * list (list N)) => HT = (set_nth_nat H0 j (mix c newj cur), set_nth_nat T0 k (mix c newk oth)))).
    - rewrite !mix_0. unfold cur, oth. rewrite !(set_nth_nat_id []). reflexivity.
    - intros c HT Hlt ->. cbv zeta. nat_level.
      set (Rj := mix c newj cur). set (Rk := mix c newk oth).
      assert (Ej : forall X, nth j (set_nth_nat H0 j X) [] = X) by (intros X; apply nth_set_nth_nat_same; lia).
      assert (Ek : forall X, nth k (set_nth_nat T0 k X) [] = X) by (intros X; apply nth_set_nth_nat_same; lia).
      rewrite !Ej, !Ek.
      assert (Ecj : nth c Rj (zero N) = nth c cur (zero N)) by apply mix_nth.
      assert (Eck : nth c Rk (zero N) = nth c oth (zero N)) by apply mix_nth.
      rewrite Ecj, Eck, Hclip.
      assert (Egc : clip N (mul N gc (sub N (nth c cur (zero N)) (nth c oth (zero N)))) = nth c g (zero N)).
      { unfold g. rewrite nth_map2; [reflexivity| |]; unfold cur, oth; lia. }
      rewrite Egc.
      assert (Enj : add N (nth c cur (zero N)) (mul N (nth c g (zero N)) alpha) = nth c newj (zero N)).
      { unfold newj. rewrite nth_map2; [reflexivity| |]; unfold cur; lia. }
      rewrite Enj, !set_nth_nat_twice.
      unfold Rj. rewrite mix_set by (try exact Lnj; unfold cur; lia).
      unfold newk in *. destruct mo.
      + rewrite ?Ek, ?Eck, ?set_nth_nat_twice.
        assert (Enk : add N (nth c oth (zero N)) (mul N (neg N (nth c g (zero N))) alpha) =
                      nth c (map2 N (fun o gd => add N o (mul N (neg N gd) alpha)) oth g) (zero N)).
        { rewrite nth_map2; [reflexivity| |]; unfold oth; lia. }
        rewrite Enk. unfold Rk. rewrite mix_set by (try exact Lnk; unfold oth; lia). reflexivity.
      + unfold Rk. rewrite !mix_same. reflexivity. }
  rewrite Inv.
  replace D with (length cur) at 1 by (unfold cur; lia). rewrite (mix_full newj cur Lnj).
  replace D with (length oth) by (unfold oth; lia). rewrite (mix_full newk oth Lnk).
  unfold attract_with, newk. cbv zeta. destruct mo; cbn [eH eT eshared get_tail set_head set_tail];
    change (@upd (list N)) with (@set_nth_nat (list N)).
  - reflexivity.
  - unfold oth. rewrite (set_nth_nat_id []). reflexivity.
Qed.
End Attract.

(* ---- (b) the repulsive d-loop ----------------------------------------------------------------------------------------------- *)
Section Repel.
Context (N : Num) (Hclip : forall v : N, src_clip N v = clip N v) (Hz : of_Z N 0 = zero N).
Context (gc alpha : N) (D : nat).

Definition rep_row (cur oth : list N) : list N :=
  map2 N (fun c o => add N c (mul N (if ltb N (zero N) gc then clip N (mul N gc (sub N c o)) else zero N) alpha)) cur oth.

(* reads row k of the array being written (k = j allowed: then `other` is the row being written, read at the index about to be written) *)
Lemma rep_dloop_s_eq (H0 : list (list N)) (j k : nat) :
  j < length H0 -> k < length H0 -> rect D H0 ->
  rep_dloop_s N gc alpha (Z.of_nat j) (Z.of_nat k) (Z.of_nat D) H0 = set_nth_nat H0 j (rep_row (nth j H0 []) (nth k H0 [])).
Proof.
  intros Hj Hk HR.
  assert (Lj := rect_nth D H0 j HR Hj). assert (Lk := rect_nth D H0 k HR Hk).
  set (cur := nth j H0 []) in *. set (oth := nth k H0 []) in *.
  set (new := rep_row cur oth).
  assert (Ln : length new = length cur) by (unfold new, rep_row; rewrite map2_length; lia).
  assert (Inv : rep_dloop_s N gc alpha (Z.of_nat j) (Z.of_nat k) (Z.of_nat D) H0 = set_nth_nat H0 j (mix D new cur)).
  { unfold rep_dloop_s.
    apply (for_range_ind (fun c Hc => Hc = set_nth_nat H0 j (mix c new cur))).
    - rewrite mix_0. unfold cur. rewrite (set_nth_nat_id []). reflexivity.
    - intros c Hc Hlt ->. cbv zeta. rewrite ?mnth_nat, ?mset_nat.
      set (R := mix c new cur).
      assert (Ej : nth j (set_nth_nat H0 j R) [] = R) by (apply nth_set_nth_nat_same; lia).
      assert (Ec : nth c R (zero N) = nth c cur (zero N)) by apply mix_nth.
      assert (Ek : nth c (nth k (set_nth_nat H0 j R) []) (zero N) = nth c oth (zero N)).
      { destruct (Nat.eq_dec k j) as [->|Hne].
        - rewrite Ej, Ec. reflexivity.
        - rewrite nth_set_nth_nat_other by lia. reflexivity. }
      rewrite !Ek, !Ej, !Ec, Hclip, Hz, set_nth_nat_twice.
      assert (En : add N (nth c cur (zero N))
                     (mul N (if ngt N gc (zero N) then clip N (mul N gc (sub N (nth c cur (zero N)) (nth c oth (zero N)))) else zero N) alpha) =
                   nth c new (zero N)).
      { unfold new, rep_row. rewrite nth_map2 by lia. reflexivity. }
      rewrite En. unfold R. rewrite mix_set by lia. reflexivity. }
  rewrite Inv. replace D with (length cur) by lia. rewrite (mix_full new cur Ln). reflexivity.
Qed.

Lemma rep_dloop_d_eq (H0 T0 : list (list N)) (j k : nat) :
  j < length H0 -> length (nth j H0 []) = D -> length (nth k T0 []) = D ->
  rep_dloop_d N gc alpha (Z.of_nat j) (Z.of_nat k) (Z.of_nat D) T0 H0 = set_nth_nat H0 j (rep_row (nth j H0 []) (nth k T0 [])).
Proof.
  intros Hj Lj Lk.
  set (cur := nth j H0 []) in *. set (oth := nth k T0 []) in *.
  set (new := rep_row cur oth).
  assert (Ln : length new = length cur) by (unfold new, rep_row; rewrite map2_length; lia).
  assert (Inv : rep_dloop_d N gc alpha (Z.of_nat j) (Z.of_nat k) (Z.of_nat D) T0 H0 = set_nth_nat H0 j (mix D new cur)).
  { unfold rep_dloop_d.
    apply (for_range_ind (fun c Hc => Hc = set_nth_nat H0 j (mix c new cur))).
    - rewrite mix_0. unfold cur. rewrite (set_nth_nat_id []). reflexivity.
    - intros c Hc Hlt ->. cbv zeta. rewrite ?mnth_nat, ?mset_nat.
      set (R := mix c new cur).
      assert (Ej : nth j (set_nth_nat H0 j R) [] = R) by (apply nth_set_nth_nat_same; lia).
      assert (Ec : nth c R (zero N) = nth c cur (zero N)) by apply mix_nth.
      fold oth. rewrite !Ej, !Ec, Hclip, Hz, set_nth_nat_twice.
      assert (En : add N (nth c cur (zero N))
                     (mul N (if ngt N gc (zero N) then clip N (mul N gc (sub N (nth c cur (zero N)) (nth c oth (zero N)))) else zero N) alpha) =
                   nth c new (zero N)).
      { unfold new, rep_row. rewrite nth_map2 by lia. reflexivity. }
      rewrite En. unfold R. rewrite mix_set by lia. reflexivity. }
  rewrite Inv. replace D with (length cur) by lia. rewrite (mix_full new cur Ln). reflexivity.
Qed.
End Repel.

(* ---- (b) one negative sample = [repel]; the p-loop = [neg_loop]  (over the reals: the source's zero-coefficient branch adds
        0 * alpha to every coordinate, the model leaves the row alone) ------------------------------------------------------- *)
From UVS Require Import L_layouts.

Definition row_of (st : rng3) : list Z := let '(a, b, c) := st in [a; b; c].
Definition pproj {N : Num} (st : pstate N) : list (list Z) * list (list N) := let '(_, rng, _, _, _, H) := st in (rng, H).

Lemma rect_set {A : Type} (D : nat) (m : list (list A)) (i : nat) (r : list A) :
  rect D m -> length r = D -> rect D (set_nth_nat m i r).
Proof.
  unfold rect. intros HR L. revert i; induction HR as [|x m Hx HR IH]; intros [|i]; cbn; try constructor; auto.
Qed.
Lemma map2_fst (N : Num) (f : N -> N -> N) : forall (x y : list N), (forall c o, f c o = c) -> length x = length y -> map2 N f x y = x.
Proof. induction x as [|a x IH]; intros [|b y] E L; cbn in *; try lia; try reflexivity. rewrite E, IH by (auto; lia). reflexivity. Qed.
Lemma for_range_const {S : Type} (n : nat) (f : Z -> S -> S) (s : S) :
  (forall p q s, f p s = f q s) -> for_range 0 (Z.of_nat n) f s = iter_l n (f 0%Z) s.
Proof. intros E. rewrite <- for_range_iter. apply for_range_ext. intros. apply E. Qed.
Lemma for_range_to_nat {S : Type} (hi : Z) (f : Z -> S -> S) (s : S) : for_range 0 hi f s = for_range 0 (Z.of_nat (Z.to_nat hi)) f s.
Proof. unfold for_range. rewrite !Z.sub_0_r, Nat2Z.id. reflexivity. Qed.

Lemma repel_shape (N : Num) a b gamma alpha (e : emb N) j k :
  repel N a b gamma alpha e j k = mkEmb N (eH N (repel N a b gamma alpha e j k)) (eT N e) (eshared N e).
Proof. unfold repel. cbv zeta. destruct (ltb N (zero N) _); [reflexivity|]. destruct e; reflexivity. Qed.

Section NegR.
Context (a b gamma alpha : R) (nv : Z) (D : nat).

Lemma rep_coeff_src (d2 : R) :
  div RNum (mul RNum (mul RNum (nlit RNum 2 0) gamma) b)
      (mul RNum (add RNum (nlit RNum 1 (-3)) d2) (add RNum (mul RNum a (npow RNum d2 b)) (one RNum))) = rep_coeff RNum a b gamma d2.
Proof.
  unfold rep_coeff.
  replace (nlit RNum 2 0) with (c2 RNum) by (unfold nlit, c2; cbn; lra).
  replace (nlit RNum 1 (-3)) with (c001 RNum) by (unfold nlit, c001; cbn; lra).
  reflexivity.
Qed.

Lemma rep_row_zero (cur oth : list R) : length cur = length oth -> rep_row RNum (zero RNum) alpha cur oth = cur.
Proof.
  intros L. unfold rep_row. apply map2_fst; [|exact L]. intros c o. cbn.
  destruct (Rltb 0 0)%R eqn:E; [apply Rltb_true in E; lra|]. change (T RNum) with R in *. lra.
Qed.

(* one iteration of the p-loop, tail_embedding is head_embedding *)
Lemma neg_pbody_s_eq (H T0 : list (list R)) (j : nat) (rng : list (list Z)) (st : rng3) (k0 o0 p : Z) (dd0 gc0 : R) :
  j < length H -> rect D H -> (0 < nv <= Z.of_nat (length H))%Z -> nth j rng [] = row_of st ->
  pproj (neg_pbody_s RNum a b gamma alpha nv (Z.of_nat D) (Z.of_nat j) (Z.of_nat j) p (k0, rng, o0, dd0, gc0, H)) =
  let '(st', r) := tau_rand_int st in
  (set_nth_nat rng j (row_of st'), eH RNum (repel RNum a b gamma alpha (mkEmb RNum H T0 true) j (Z.to_nat (r mod nv)))).
Proof.
  intros Hj HR Hnv Hrow. destruct st as [[s0 s1] s2]. cbn [row_of] in Hrow.
  unfold neg_pbody_s. unfold imrow. rewrite znth_of_nat, Hrow, src_tau_rand_int_layouts_eq.
  destruct (tau_rand_int (s0, s1, s2)) as [[[t0 t1] t2] r]. cbv zeta. rewrite zset_of_nat.
  assert (Hk : (0 <= r mod nv < nv)%Z) by (apply Z.mod_pos_bound; lia).
  set (kn := Z.to_nat (r mod nv)). assert (Ek : (r mod nv)%Z = Z.of_nat kn) by (unfold kn; rewrite Z2Nat.id; lia).
  assert (Hkn : (kn < length H)%nat) by lia.
  rewrite Ek, !mrow_nat.
  assert (Lj := rect_nth D H j HR Hj). assert (Lk := rect_nth D H kn HR Hkn).
  change (T RNum) with R in *. rewrite src_rdist_eq by lia.
  unfold repel. cbv zeta. cbn [eH eshared get_tail].
  unfold ngt. change (ltb RNum (zero RNum)) with (Rltb 0%R). change (T RNum) with R in *.
  destruct (Rltb 0%R (rdist RNum (nth j H []) (nth kn H []))) eqn:E.
  - cbn [pproj]. rewrite rep_coeff_src.
    rewrite (rep_dloop_s_eq RNum src_clip_eq eq_refl _ alpha D H j kn Hj Hkn HR).
    cbn [eH set_head]. reflexivity.
  - destruct (Z.eqb (Z.of_nat j) (Z.of_nat kn)); [reflexivity|].
    cbn [pproj]. rewrite (rep_dloop_s_eq RNum src_clip_eq eq_refl _ alpha D H j kn Hj Hkn HR).
    change (T RNum) with R in *. rewrite rep_row_zero by lia. rewrite (set_nth_nat_id []). reflexivity.
Qed.

(* one iteration of the p-loop, two arrays *)
Lemma neg_pbody_d_eq (H T0 : list (list R)) (j : nat) (rng : list (list Z)) (st : rng3) (k0 o0 p : Z) (dd0 gc0 : R) :
  j < length H -> rect D H -> rect D T0 -> (0 < nv <= Z.of_nat (length T0))%Z -> nth j rng [] = row_of st ->
  pproj (neg_pbody_d RNum a b gamma alpha nv (Z.of_nat D) (Z.of_nat j) (Z.of_nat j) T0 p (k0, rng, o0, dd0, gc0, H)) =
  let '(st', r) := tau_rand_int st in
  (set_nth_nat rng j (row_of st'), eH RNum (repel RNum a b gamma alpha (mkEmb RNum H T0 false) j (Z.to_nat (r mod nv)))).
Proof.
  intros Hj HR HRT Hnv Hrow. destruct st as [[s0 s1] s2]. cbn [row_of] in Hrow.
  unfold neg_pbody_d. unfold imrow. rewrite znth_of_nat, Hrow, src_tau_rand_int_layouts_eq.
  destruct (tau_rand_int (s0, s1, s2)) as [[[t0 t1] t2] r]. cbv zeta. rewrite zset_of_nat.
  assert (Hk : (0 <= r mod nv < nv)%Z) by (apply Z.mod_pos_bound; lia).
  set (kn := Z.to_nat (r mod nv)). assert (Ek : (r mod nv)%Z = Z.of_nat kn) by (unfold kn; rewrite Z2Nat.id; lia).
  assert (Hkn : (kn < length T0)%nat) by lia.
  rewrite Ek, !mrow_nat.
  assert (Lj := rect_nth D H j HR Hj). assert (Lk := rect_nth D T0 kn HRT Hkn).
  change (T RNum) with R in *. rewrite src_rdist_eq by lia.
  unfold repel. cbv zeta. cbn [eH eT eshared get_tail].
  unfold ngt. change (ltb RNum (zero RNum)) with (Rltb 0%R). change (T RNum) with R in *.
  destruct (Rltb 0%R (rdist RNum (nth j H []) (nth kn T0 []))) eqn:E.
  - cbn [pproj]. rewrite rep_coeff_src.
    rewrite (rep_dloop_d_eq RNum src_clip_eq eq_refl _ alpha D H T0 j kn Hj Lj Lk).
    cbn [eH set_head]. reflexivity.
  - destruct (Z.eqb (Z.of_nat j) (Z.of_nat kn)); [reflexivity|].
    cbn [pproj]. rewrite (rep_dloop_d_eq RNum src_clip_eq eq_refl _ alpha D H T0 j kn Hj Lj Lk).
    change (T RNum) with R in *. rewrite rep_row_zero by lia. rewrite (set_nth_nat_id []). reflexivity.
Qed.

Lemma repel_wf (e : emb RNum) (j k : nat) :
  rect D (eH RNum e) -> length (nth j (eH RNum e) []) = D -> length (get_tail RNum e k) = D ->
  rect D (eH RNum (repel RNum a b gamma alpha e j k)) /\ length (eH RNum (repel RNum a b gamma alpha e j k)) = length (eH RNum e).
Proof.
  intros HR Lj Lk. unfold repel. cbv zeta. destruct (ltb RNum (zero RNum) _); [|split; [exact HR|reflexivity]].
  cbn [eH set_head]. change (@upd (list RNum)) with (@set_nth_nat (list RNum)). split.
  - apply rect_set; [exact HR|]. rewrite map2_length; lia.
  - apply set_nth_nat_length.
Qed.

(* the p-loop = [neg_loop], tail_embedding is head_embedding *)
Lemma neg_iter_s (T0 : list (list R)) (j : nat) : forall (n : nat) (H : list (list R)) (rng : list (list Z)) (st : rng3) (k0 o0 : Z) (dd0 gc0 : R),
  j < length H -> rect D H -> (0 < nv <= Z.of_nat (length H))%Z -> j < length rng -> nth j rng [] = row_of st ->
  pproj (iter_l n (neg_pbody_s RNum a b gamma alpha nv (Z.of_nat D) (Z.of_nat j) (Z.of_nat j) 0%Z) (k0, rng, o0, dd0, gc0, H)) =
  let '(e', st') := neg_loop RNum n a b gamma alpha nv (mkEmb RNum H T0 true) j st in (set_nth_nat rng j (row_of st'), eH RNum e').
Proof.
  induction n as [|n IH]; intros H rng st k0 o0 dd0 gc0 Hj HR Hnv Hjr Hrow.
  - cbn [iter_l neg_loop pproj eH]. rewrite <- Hrow, (set_nth_nat_id []). reflexivity.
  - cbn [iter_l neg_loop].
    pose proof (neg_pbody_s_eq H T0 j rng st k0 o0 0%Z dd0 gc0 Hj HR Hnv Hrow) as P.
    destruct (neg_pbody_s _ _ _ _ _ _ _ _ _ _ _) as [[[[[k1 rng1] o1] dd1] gc1] H1]. cbn [pproj] in P.
    destruct (tau_rand_int st) as [st' r]. injection P as -> ->.
    set (kn := Z.to_nat (r mod nv)).
    assert (Hk : (0 <= r mod nv < nv)%Z) by (apply Z.mod_pos_bound; lia).
    assert (Hkn : (kn < length H)%nat) by (unfold kn; lia).
    destruct (repel_wf (mkEmb RNum H T0 true) j kn) as [HR' HL'];
      [exact HR|apply (rect_nth D H j HR Hj)|apply (rect_nth D H kn HR Hkn)|]. cbn [eH] in HL'.
    change (T RNum) with R in *. rewrite (IH _ _ st'); [|lia|exact HR'|lia|rewrite set_nth_nat_length; lia|apply nth_set_nth_nat_same; lia].
    assert (Es : repel RNum a b gamma alpha (mkEmb RNum H T0 true) j kn =
                 mkEmb RNum (eH RNum (repel RNum a b gamma alpha (mkEmb RNum H T0 true) j kn)) T0 true)
      by (apply (repel_shape RNum a b gamma alpha (mkEmb RNum H T0 true) j kn)).
    change (T RNum) with R in *. rewrite <- Es.
    destruct (neg_loop _ _ _ _ _ _ _ _ _ _) as [e'' st'']. rewrite set_nth_nat_twice. reflexivity.
Qed.

Lemma neg_iter_d (T0 : list (list R)) (j : nat) : forall (n : nat) (H : list (list R)) (rng : list (list Z)) (st : rng3) (k0 o0 : Z) (dd0 gc0 : R),
  j < length H -> rect D H -> rect D T0 -> (0 < nv <= Z.of_nat (length T0))%Z -> j < length rng -> nth j rng [] = row_of st ->
  pproj (iter_l n (neg_pbody_d RNum a b gamma alpha nv (Z.of_nat D) (Z.of_nat j) (Z.of_nat j) T0 0%Z) (k0, rng, o0, dd0, gc0, H)) =
  let '(e', st') := neg_loop RNum n a b gamma alpha nv (mkEmb RNum H T0 false) j st in (set_nth_nat rng j (row_of st'), eH RNum e').
Proof.
  induction n as [|n IH]; intros H rng st k0 o0 dd0 gc0 Hj HR HRT Hnv Hjr Hrow.
  - cbn [iter_l neg_loop pproj eH]. rewrite <- Hrow, (set_nth_nat_id []). reflexivity.
  - cbn [iter_l neg_loop].
    pose proof (neg_pbody_d_eq H T0 j rng st k0 o0 0%Z dd0 gc0 Hj HR HRT Hnv Hrow) as P.
    destruct (neg_pbody_d _ _ _ _ _ _ _ _ _ _ _ _) as [[[[[k1 rng1] o1] dd1] gc1] H1]. cbn [pproj] in P.
    destruct (tau_rand_int st) as [st' r]. injection P as -> ->.
    set (kn := Z.to_nat (r mod nv)).
    assert (Hk : (0 <= r mod nv < nv)%Z) by (apply Z.mod_pos_bound; lia).
    assert (Hkn : (kn < length T0)%nat) by (unfold kn; lia).
    destruct (repel_wf (mkEmb RNum H T0 false) j kn) as [HR' HL'];
      [exact HR|apply (rect_nth D H j HR Hj)|apply (rect_nth D T0 kn HRT Hkn)|]. cbn [eH] in HL'.
    change (T RNum) with R in *. rewrite (IH _ _ st'); [|lia|exact HR'|exact HRT|lia|rewrite set_nth_nat_length; lia|apply nth_set_nth_nat_same; lia].
    assert (Es : repel RNum a b gamma alpha (mkEmb RNum H T0 false) j kn =
                 mkEmb RNum (eH RNum (repel RNum a b gamma alpha (mkEmb RNum H T0 false) j kn)) T0 false)
      by (apply (repel_shape RNum a b gamma alpha (mkEmb RNum H T0 false) j kn)).
    change (T RNum) with R in *. rewrite <- Es.
    destruct (neg_loop _ _ _ _ _ _ _ _ _ _) as [e'' st'']. rewrite set_nth_nat_twice. reflexivity.
Qed.
End NegR.

(* ---- (c) one edge = [edge_step]; (d) the loop over the edges = [edges_from] / [epoch] -------------------------------------------- *)
Lemma map_set_nth_nat {A B : Type} (f : A -> B) : forall (l : list A) (i : nat) (v : A), map f (set_nth_nat l i v) = set_nth_nat (map f l) i (f v).
Proof. induction l as [|x l IH]; intros [|i] v; cbn; try reflexivity. f_equal. apply IH. Qed.
Lemma nth_map_row (rngs : list rng3) (j : nat) : j < length rngs -> nth j (map row_of rngs) [] = row_of (nth j rngs (0, 0, 0)%Z).
Proof. intros Hj. rewrite (nth_indep _ [] (row_of (0, 0, 0)%Z)) by (rewrite map_length; exact Hj). apply map_nth. Qed.

Section EdgeR.
Context (a b gamma alpha : R) (mo : bool) (nv : Z) (D : nat).

Lemma attr_gc_eq (d2 : R) : attr_gc RNum a b d2 = attr_coeff RNum a b d2.
Proof.
  unfold attr_gc, attr_coeff, ngt.
  replace (nlit RNum 2 0) with (c2 RNum) by (unfold nlit, c2; cbn; lra). reflexivity.
Qed.

(* well-formed embeddings: D columns, nH head rows, nT tail rows (the tail array is not looked at when the flag says shared) *)
Definition wfe (sh : bool) (nH nT : nat) (e : emb RNum) : Prop :=
  rect D (eH RNum e) /\ length (eH RNum e) = nH /\ rect D (eT RNum e) /\ length (eT RNum e) = nT /\ eshared RNum e = sh.

Lemma wfe_shape sh nH nT e : wfe sh nH nT e -> e = mkEmb RNum (eH RNum e) (eT RNum e) sh.
Proof. intros (_ & _ & _ & _ & <-). destruct e; reflexivity. Qed.

Lemma tail_len sh nH nT e k : wfe sh nH nT e -> k < (if sh then nH else nT) -> length (get_tail RNum e k) = D.
Proof.
  intros (HR & HL & HRT & HLT & HS) Hk. unfold get_tail. rewrite HS. destruct sh.
  - apply (rect_nth D _ k HR). lia.
  - apply (rect_nth D _ k HRT). lia.
Qed.

Lemma repel_wfe sh nH nT e j k : wfe sh nH nT e -> j < nH -> k < (if sh then nH else nT) ->
  wfe sh nH nT (repel RNum a b gamma alpha e j k).
Proof.
  intros W Hj Hk. pose proof W as (HR & HL & HRT & HLT & HS).
  destruct (repel_wf a b gamma alpha D e j k HR) as [HR' HL'];
    [apply (rect_nth D _ j HR); lia|apply (tail_len sh nH nT e k W Hk)|].
  rewrite (repel_shape RNum a b gamma alpha e j k). repeat split; cbn [eH eT eshared]; auto. lia.
Qed.

Lemma neg_loop_wfe sh nH nT j : forall n e st, wfe sh nH nT e -> j < nH -> (0 < nv <= Z.of_nat (if sh then nH else nT))%Z ->
  wfe sh nH nT (fst (neg_loop RNum n a b gamma alpha nv e j st)).
Proof.
  induction n as [|n IH]; intros e st W Hj Hnv; [exact W|].
  cbn [neg_loop]. destruct (tau_rand_int st) as [st' r].
  assert (Hk : (0 <= r mod nv < nv)%Z) by (apply Z.mod_pos_bound; lia).
  apply IH; auto. apply repel_wfe; auto. lia.
Qed.

Lemma attract_wfe sh nH nT e j k : wfe sh nH nT e -> j < nH -> k < (if sh then nH else nT) ->
  wfe sh nH nT (attract RNum a b alpha mo e j k).
Proof.
  intros W Hj Hk. pose proof W as (HR & HL & HRT & HLT & HS).
  assert (Lj : length (nth j (eH RNum e) []) = D) by (apply (rect_nth D _ j HR); lia).
  assert (Lk := tail_len sh nH nT e k W Hk).
  unfold attract. cbv zeta.
  set (g := map2 RNum _ (nth j (eH RNum e) []) (get_tail RNum e k)).
  assert (Lg : length g = D) by (unfold g; rewrite map2_length; lia).
  set (e1 := set_head RNum e j _).
  assert (W1 : wfe sh nH nT e1).
  { unfold e1, set_head. repeat split; cbn [eH eT eshared]; auto; change (@upd (list RNum)) with (@set_nth_nat (list RNum)).
    - apply rect_set; [exact HR|]. rewrite map2_length; lia.
    - rewrite set_nth_nat_length. exact HL. }
  destruct mo; [|exact W1].
  assert (Lk1 := tail_len sh nH nT e1 k W1 Hk).
  pose proof W1 as (HR1 & HL1 & HRT1 & HLT1 & HS1).
  unfold set_tail. rewrite HS1. destruct sh.
  - unfold set_head. repeat split; cbn [eH eT eshared]; auto; change (@upd (list RNum)) with (@set_nth_nat (list RNum)).
    + apply rect_set; [exact HR1|]. rewrite map2_length; lia.
    + rewrite set_nth_nat_length. exact HL1.
  - repeat split; cbn [eH eT eshared]; auto; change (@upd (list RNum)) with (@set_nth_nat (list RNum)).
    + apply rect_set; [exact HRT1|]. rewrite map2_length; lia.
    + rewrite set_nth_nat_length. exact HLT1.
Qed.

Definition abs_s (s : sgd_state RNum) : estate_s RNum :=
  (eH RNum (s_emb RNum s), s_next RNum s, map row_of (s_rng RNum s), s_nneg RNum s).

Lemma neg_pbody_s_const a' b' g' al' nv' dim' j' c' (p q : Z) (st : pstate RNum) :
  neg_pbody_s RNum a' b' g' al' nv' dim' j' c' p st = neg_pbody_s RNum a' b' g' al' nv' dim' j' c' q st.
Proof. reflexivity. Qed.

(* (c) lines 93-186 for edge i, tail_embedding is head_embedding *)
Lemma edge_body_s_eq (head tail : list Z) (eps epns : list R) (n : Z) (i : nat) (s : sgd_state RNum) (nH nT jn kn : nat) :
  wfe true nH nT (s_emb RNum s) -> length (s_rng RNum s) = nH -> (0 < nv <= Z.of_nat nH)%Z ->
  inth head (Z.of_nat i) = Z.of_nat jn -> inth tail (Z.of_nat i) = Z.of_nat kn -> jn < nH -> kn < nH ->
  edge_body_s RNum head tail nv eps a b gamma (Z.of_nat D) mo alpha epns n (Z.of_nat i) (abs_s s) =
  abs_s (edge_step RNum a b gamma alpha mo nv (IZR n) s i (mkEdge RNum jn kn (nth i eps 0%R) (nth i epns 0%R))).
Proof.
  intros W Lr Hnv Hh Ht Hj Hk. destruct s as [e next nneg rngs]. destruct e as [H Tl sh].
  pose proof W as (HR & HL & HRT & HLT & HS). cbn [s_emb s_rng eH eT eshared] in *. subst sh.
  unfold edge_body_s, edge_step, abs_s. cbn [s_emb s_next s_nneg s_rng e_head e_tail e_eps e_epns eH].
  rewrite !vnth_of_nat. change (of_Z RNum n) with (IZR n). change (zero RNum) with 0%R.
  destruct (leb RNum (nth i next 0%R) (IZR n)); [|reflexivity].
  cbv zeta. rewrite Hh, Ht, !mrow_nat.
  assert (Lj : length (nth jn H []) = D) by (apply (rect_nth D _ jn HR); lia).
  assert (Lk : length (nth kn H []) = D) by (apply (rect_nth D _ kn HR); lia).
  change (T RNum) with R in *. rewrite src_rdist_eq by lia. rewrite attr_gc_eq.
  assert (Hj' : jn < length H) by lia. assert (Hk' : kn < length H) by lia.
  rewrite (attr_dloop_s_eq RNum src_clip_eq _ alpha mo D H Tl jn kn Hj' Hk' HR).
  set (e1 := attract RNum a b alpha mo (mkEmb RNum H Tl true) jn kn).
  change (attract_with RNum _ alpha mo (mkEmb RNum H Tl true) jn kn) with e1.
  assert (W1 : wfe true nH nT e1) by (apply attract_wfe; auto).
  pose proof W1 as (HR1 & HL1 & HRT1 & HLT1 & HS1).
  set (cnt := ntrunc RNum (div RNum (sub RNum (IZR n) (nth i nneg 0%R)) (nth i epns 0%R))).
  rewrite for_range_to_nat, (for_range_const _ _ _ (neg_pbody_s_const _ _ _ _ _ _ _ _)).
  pose proof (neg_iter_s a b gamma alpha nv D (eT RNum e1) jn (Z.to_nat cnt) (eH RNum e1) (map row_of rngs) (nth jn rngs (0, 0, 0)%Z)
                (Z.of_nat kn) (Z.of_nat kn) (rdist RNum (nth jn H []) (nth kn H [])) (attr_coeff RNum a b (rdist RNum (nth jn H []) (nth kn H []))))
    as P.
  rewrite <- (wfe_shape true nH nT e1 W1) in P.
  change (T RNum) with R in *.
  specialize (P ltac:(lia) HR1 ltac:(lia) ltac:(rewrite map_length; lia) ltac:(apply nth_map_row; lia)).
  change (T RNum) with R in *.
  destruct (iter_l _ _ _) as [[[[[k1 rng1] o1] dd1] gc1] H1]. cbn [pproj] in P.
  destruct (neg_loop _ _ _ _ _ _ _ _ _ _) as [e2 st']. injection P as -> ->.
  cbn [s_emb s_next s_nneg s_rng eH]. rewrite !vset_of_nat, map_set_nth_nat. reflexivity.
Qed.

Lemma edge_step_wf sh nH nT (n : R) (s : sgd_state RNum) (i jn kn : nat) (x y : R) :
  wfe sh nH nT (s_emb RNum s) -> length (s_rng RNum s) = nH -> (0 < nv <= Z.of_nat (if sh then nH else nT))%Z ->
  jn < nH -> kn < (if sh then nH else nT) ->
  wfe sh nH nT (s_emb RNum (edge_step RNum a b gamma alpha mo nv n s i (mkEdge RNum jn kn x y))) /\
  length (s_rng RNum (edge_step RNum a b gamma alpha mo nv n s i (mkEdge RNum jn kn x y))) = nH.
Proof.
  intros W Lr Hnv Hj Hk. unfold edge_step. destruct (leb RNum _ n); [|split; assumption].
  cbv zeta. cbn [e_head e_tail e_eps e_epns].
  match goal with |- context [neg_loop RNum ?c a b gamma alpha nv ?e jn ?st] =>
    pose proof (neg_loop_wfe sh nH nT jn c e st) as Q; destruct (neg_loop RNum c a b gamma alpha nv e jn st) as [e2 st'] end.
  cbn [s_emb s_rng fst] in *. split.
  - apply Q; auto. apply attract_wfe; auto.
  - change (@upd rng3) with (@set_nth_nat rng3). rewrite set_nth_nat_length. exact Lr.
Qed.

Definition edge_at (head tail : list Z) (eps epns : list R) (i : nat) : edge RNum :=
  mkEdge RNum (Z.to_nat (nth i head 0%Z)) (Z.to_nat (nth i tail 0%Z)) (nth i eps 0%R) (nth i epns 0%R).
(* the edge list the model runs over: edge i = (head[i], tail[i], epochs_per_sample[i], epochs_per_negative_sample[i]) *)
Definition edges_of (head tail : list Z) (eps epns : list R) : list (edge RNum) :=
  map (edge_at head tail eps epns) (seq 0 (length eps)).

(* (d) the loop over the edges, tail_embedding is head_embedding *)
Lemma edges_loop_s (head tail : list Z) (eps epns : list R) (n : Z) (nH nT : nat) :
  (0 < nv <= Z.of_nat nH)%Z ->
  (forall i, i < length eps -> (0 <= nth i head 0 < Z.of_nat nH)%Z /\ (0 <= nth i tail 0 < Z.of_nat nH)%Z) ->
  forall (m i0 : nat) (s : sgd_state RNum), i0 + m <= length eps ->
  wfe true nH nT (s_emb RNum s) -> length (s_rng RNum s) = nH ->
  fold_left (fun st k => edge_body_s RNum head tail nv eps a b gamma (Z.of_nat D) mo alpha epns n (Z.of_nat k) st) (seq i0 m) (abs_s s) =
  abs_s (edges_from RNum a b gamma alpha mo nv (IZR n) i0 (map (edge_at head tail eps epns) (seq i0 m)) s).
Proof.
  intros Hnv Hidx. induction m as [|m IH]; intros i0 s Hm W Lr; [reflexivity|].
  cbn [seq map fold_left edges_from].
  destruct (Hidx i0 ltac:(lia)) as [Hh Ht].
  unfold edge_at at 1.
  rewrite (edge_body_s_eq head tail eps epns n i0 s nH nT (Z.to_nat (nth i0 head 0%Z)) (Z.to_nat (nth i0 tail 0%Z)) W Lr Hnv)
    by (rewrite ?inth_of_nat, ?Z2Nat.id; lia).
  destruct (edge_step_wf true nH nT (IZR n) s i0 (Z.to_nat (nth i0 head 0%Z)) (Z.to_nat (nth i0 tail 0%Z)) (nth i0 eps 0%R) (nth i0 epns 0%R) W Lr)
    as [W' Lr']; [exact Hnv|lia|lia|].
  apply IH; [lia|exact W'|exact Lr'].
Qed.
End EdgeR.

(* THE LINK THEOREM, fit case (tail_embedding is head_embedding, densmap_flag=False): for every well-shaped input -- D-column
   embedding H, one RNG row [s0; s1; s2] per vertex, vertex indices of the edge arrays within range, 0 < n_vertices <= number of
   rows -- the translated kernel computes exactly the model's [epoch] (model/M_sgd.v) on the state (H, clocks, RNG triples), over the
   reals.  [n] is the int epoch number the caller passes (of_Z n = IZR n in the model). *)
Theorem src_sgd_shared_eq (H : list (list R)) (head tail : list Z) (nv : Z) (eps : list R) (a b : R) (rngs : list rng3) (gamma : R) (D : nat)
        (mo : bool) (alpha : R) (epns nneg next : list R) (n : Z) (x1 x2 : list R) (x3 x4 x5 x6 : R) (x7 x8 : list R) (x9 : R) :
  rect D H -> length rngs = length H -> (0 < nv <= Z.of_nat (length H))%Z ->
  (forall i, i < length eps -> (0 <= nth i head 0 < Z.of_nat (length H))%Z /\ (0 <= nth i tail 0 < Z.of_nat (length H))%Z) ->
  src__optimize_layout_euclidean_single_epoch_shared RNum H head tail nv eps a b (map row_of rngs) gamma (Z.of_nat D) mo alpha epns nneg next n
      x1 x2 x3 x4 x5 x6 x7 x8 x9 =
  let s' := epoch RNum a b gamma alpha mo nv (IZR n) (edges_of head tail eps epns) (mkSt RNum (mkEmb RNum H [] true) next nneg rngs) in
  (eH RNum (s_emb RNum s'), map row_of (s_rng RNum s'), s_nneg RNum s', s_next RNum s').
Proof.
  intros HR Lr Hnv Hidx. rewrite src_sgd_shared_unfold. unfold zlen. rewrite for_range_0.
  pose proof (edges_loop_s a b gamma alpha mo nv D head tail eps epns n (length H) 0 Hnv Hidx (length eps) 0
                (mkSt RNum (mkEmb RNum H [] true) next nneg rngs) ltac:(lia)) as P.
  cbn [s_emb s_rng] in P. unfold abs_s at 1 in P. cbn [s_emb s_next s_nneg s_rng eH] in P.
  change (T RNum) with R in *. rewrite P; [|repeat split; cbn [eH eT eshared]; auto; constructor|exact Lr].
  unfold epoch, edges_of, abs_s. cbv zeta. reflexivity.
Qed.


(* ---- the same for two arrays that do not overlap (transform) ------------------------------------------------------------------- *)
Section EdgeD.
Context (a b gamma alpha : R) (mo : bool) (nv : Z) (D : nat).

Definition abs_d (s : sgd_state RNum) : estate_d RNum :=
  (eH RNum (s_emb RNum s), eT RNum (s_emb RNum s), s_next RNum s, map row_of (s_rng RNum s), s_nneg RNum s).

Lemma neg_pbody_d_const a' b' g' al' nv' dim' j' c' Tl (p q : Z) (st : pstate RNum) :
  neg_pbody_d RNum a' b' g' al' nv' dim' j' c' Tl p st = neg_pbody_d RNum a' b' g' al' nv' dim' j' c' Tl q st.
Proof. reflexivity. Qed.

Lemma neg_loop_eT (j : nat) : forall n (e : emb RNum) st, eT RNum (fst (neg_loop RNum n a b gamma alpha nv e j st)) = eT RNum e.
Proof.
  induction n as [|n IH]; intros e st; [reflexivity|]. cbn [neg_loop]. destruct (tau_rand_int st) as [st' r].
  rewrite IH, repel_shape. reflexivity.
Qed.

Lemma edge_body_d_eq (head tail : list Z) (eps epns : list R) (n : Z) (i : nat) (s : sgd_state RNum) (nH nT jn kn : nat) :
  wfe D false nH nT (s_emb RNum s) -> length (s_rng RNum s) = nH -> (0 < nv <= Z.of_nat nT)%Z ->
  inth head (Z.of_nat i) = Z.of_nat jn -> inth tail (Z.of_nat i) = Z.of_nat kn -> jn < nH -> kn < nT ->
  edge_body_d RNum head tail nv eps a b gamma (Z.of_nat D) mo alpha epns n (Z.of_nat i) (abs_d s) =
  abs_d (edge_step RNum a b gamma alpha mo nv (IZR n) s i (mkEdge RNum jn kn (nth i eps 0%R) (nth i epns 0%R))).
Proof.
  intros W Lr Hnv Hh Ht Hj Hk. destruct s as [e next nneg rngs]. destruct e as [H Tl sh].
  pose proof W as (HR & HL & HRT & HLT & HS). cbn [s_emb s_rng eH eT eshared] in *. subst sh.
  unfold edge_body_d, edge_step, abs_d. cbn [s_emb s_next s_nneg s_rng e_head e_tail e_eps e_epns eH eT].
  rewrite !vnth_of_nat. change (of_Z RNum n) with (IZR n). change (zero RNum) with 0%R.
  destruct (leb RNum (nth i next 0%R) (IZR n)); [|reflexivity].
  cbv zeta. rewrite Hh, Ht, !mrow_nat.
  assert (Lj : length (nth jn H []) = D) by (apply (rect_nth D _ jn HR); lia).
  assert (Lk : length (nth kn Tl []) = D) by (apply (rect_nth D _ kn HRT); lia).
  change (T RNum) with R in *. rewrite src_rdist_eq by lia. rewrite attr_gc_eq.
  assert (Hj' : jn < length H) by lia. assert (Hk' : kn < length Tl) by lia.
  rewrite (attr_dloop_d_eq RNum src_clip_eq _ alpha mo D H Tl jn kn Hj' Hk' Lj Lk).
  set (e1 := attract RNum a b alpha mo (mkEmb RNum H Tl false) jn kn).
  change (attract_with RNum _ alpha mo (mkEmb RNum H Tl false) jn kn) with e1. cbv zeta.
  assert (W1 : wfe D false nH nT e1) by (apply attract_wfe; auto).
  pose proof W1 as (HR1 & HL1 & HRT1 & HLT1 & HS1).
  set (cnt := ntrunc RNum (div RNum (sub RNum (IZR n) (nth i nneg 0%R)) (nth i epns 0%R))).
  rewrite for_range_to_nat, (for_range_const _ _ _ (neg_pbody_d_const _ _ _ _ _ _ _ _ _)).
  pose proof (neg_iter_d a b gamma alpha nv D (eT RNum e1) jn (Z.to_nat cnt) (eH RNum e1) (map row_of rngs) (nth jn rngs (0, 0, 0)%Z)
                (Z.of_nat kn) (Z.of_nat kn) (rdist RNum (nth jn H []) (nth kn Tl [])) (attr_coeff RNum a b (rdist RNum (nth jn H []) (nth kn Tl []))))
    as P.
  rewrite <- (wfe_shape D false nH nT e1 W1) in P.
  change (T RNum) with R in *.
  specialize (P ltac:(lia) HR1 HRT1 ltac:(lia) ltac:(rewrite map_length; lia) ltac:(apply nth_map_row; lia)).
  pose proof (neg_loop_eT jn (Z.to_nat cnt) e1 (nth jn rngs (0, 0, 0)%Z)) as PT.
  change (T RNum) with R in *.
  destruct (iter_l _ _ _) as [[[[[k1 rng1] o1] dd1] gc1] H1]. cbn [pproj] in P.
  destruct (neg_loop _ _ _ _ _ _ _ _ _ _) as [e2 st']. injection P as -> ->. cbn [fst] in PT.
  cbn [s_emb s_next s_nneg s_rng eH eT]. rewrite PT, !vset_of_nat, map_set_nth_nat. reflexivity.
Qed.

Lemma edges_loop_d (head tail : list Z) (eps epns : list R) (n : Z) (nH nT : nat) :
  (0 < nv <= Z.of_nat nT)%Z ->
  (forall i, i < length eps -> (0 <= nth i head 0 < Z.of_nat nH)%Z /\ (0 <= nth i tail 0 < Z.of_nat nT)%Z) ->
  forall (m i0 : nat) (s : sgd_state RNum), i0 + m <= length eps ->
  wfe D false nH nT (s_emb RNum s) -> length (s_rng RNum s) = nH ->
  fold_left (fun st k => edge_body_d RNum head tail nv eps a b gamma (Z.of_nat D) mo alpha epns n (Z.of_nat k) st) (seq i0 m) (abs_d s) =
  abs_d (edges_from RNum a b gamma alpha mo nv (IZR n) i0 (map (edge_at head tail eps epns) (seq i0 m)) s).
Proof.
  intros Hnv Hidx. induction m as [|m IH]; intros i0 s Hm W Lr; [reflexivity|].
  cbn [seq map fold_left edges_from].
  destruct (Hidx i0 ltac:(lia)) as [Hh Ht].
  unfold edge_at at 1.
  rewrite (edge_body_d_eq head tail eps epns n i0 s nH nT (Z.to_nat (nth i0 head 0%Z)) (Z.to_nat (nth i0 tail 0%Z)) W Lr Hnv)
    by (rewrite ?inth_of_nat, ?Z2Nat.id; lia).
  destruct (edge_step_wf a b gamma alpha mo nv D false nH nT (IZR n) s i0 (Z.to_nat (nth i0 head 0%Z)) (Z.to_nat (nth i0 tail 0%Z))
              (nth i0 eps 0%R) (nth i0 epns 0%R) W Lr) as [W' Lr']; [exact Hnv|lia|lia|].
  apply IH; [lia|exact W'|exact Lr'].
Qed.
End EdgeD.

(* THE LINK THEOREM, transform case (head_embedding and tail_embedding are two arrays that do not overlap; move_other either way):
   H has one RNG row per row, the tail indices and the negative samples (r mod n_vertices) address rows of T. *)
Theorem src_sgd_distinct_eq (H Tl : list (list R)) (head tail : list Z) (nv : Z) (eps : list R) (a b : R) (rngs : list rng3) (gamma : R) (D : nat)
        (mo : bool) (alpha : R) (epns nneg next : list R) (n : Z) (x1 x2 : list R) (x3 x4 x5 x6 : R) (x7 x8 : list R) (x9 : R) :
  rect D H -> rect D Tl -> length rngs = length H -> (0 < nv <= Z.of_nat (length Tl))%Z ->
  (forall i, i < length eps -> (0 <= nth i head 0 < Z.of_nat (length H))%Z /\ (0 <= nth i tail 0 < Z.of_nat (length Tl))%Z) ->
  src__optimize_layout_euclidean_single_epoch_distinct RNum H Tl head tail nv eps a b (map row_of rngs) gamma (Z.of_nat D) mo alpha epns nneg next n
      x1 x2 x3 x4 x5 x6 x7 x8 x9 =
  let s' := epoch RNum a b gamma alpha mo nv (IZR n) (edges_of head tail eps epns) (mkSt RNum (mkEmb RNum H Tl false) next nneg rngs) in
  (eH RNum (s_emb RNum s'), eT RNum (s_emb RNum s'), map row_of (s_rng RNum s'), s_nneg RNum s', s_next RNum s').
Proof.
  intros HR HRT Lr Hnv Hidx. rewrite src_sgd_distinct_unfold. unfold zlen. rewrite for_range_0.
  pose proof (edges_loop_d a b gamma alpha mo nv D head tail eps epns n (length H) (length Tl) Hnv Hidx (length eps) 0
                (mkSt RNum (mkEmb RNum H Tl false) next nneg rngs) ltac:(lia)) as P.
  cbn [s_emb s_rng] in P. unfold abs_d at 1 in P. cbn [s_emb s_next s_nneg s_rng eH eT] in P.
  change (T RNum) with R in *. rewrite P; [|repeat split; cbn [eH eT eshared]; auto|exact Lr].
  unfold epoch, edges_of, abs_d. cbv zeta. reflexivity.
Qed.

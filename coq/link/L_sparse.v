(* Link theorems for umap/sparse.py (C13): the Gallina text that harness/vp/py2coq.py generates from the CURRENT
   source on every run ([src_f], module UVS.Src_sparse) computes, for all inputs, the hand-written model of
   model/M_sparse.v about which the property theorems of prop/P_C13.v are stated.

   Shape of the statements.  A CSR row is the model's [svec] = list (nat * N); the source sees it as the int array
   [zi a] = map Z.of_nat (inds a) and the float array [vals a].  The merge kernels are `while` loops: the generated
   functions return (value, ok) and every theorem states ok = true under the budget
   `ind1.shape[0] + ind2.shape[0]` (MODULES["sparse"] in harness/vp/link.py) -- each iteration advances a cursor.
   No sortedness / no-stored-zero hypothesis is needed: the loops and the model's structural merges do the same thing
   on every pair of rows.

   arr_union / arr_intersect (np.sort, np.concatenate, boolean masks) are NOT translated: they are function
   parameters [U], [I] of the generated definitions.  sparse_sum / sparse_mul only use their result as the buffer the
   merge is written into (the first nnz entries are overwritten, the rest is cut off by `[:nnz]`), so the theorems hold
   for EVERY function whose result is long enough (hypotheses [length ... <= length (U ..)]); the binary metrics only
   use the result's length (hypotheses [zlen (U ..) = n_union ..]).  The real helpers are compared with the model's
   merges by the per-run correspondence (verdict_index).
   Not modelled (translator convention, see py2coq.py): python's arr_union returns `ar2` ITSELF when ar1 is empty, so
   sparse_sum then compacts the caller's index array in place when data2 holds stored zeros; the returned value is
   the same.

   sparse_cosine / sparse_correlation call umap.utils.norm, which sparse.py imports: [src_norm] is translated into this
   module from the CURRENT umap/utils.py (MODULES["sparse"]["imports"]; the translator checks the `from umap.utils import
   norm` line) and linked to the model's [norm2].  sparse_correlation is the current text (after the two repairs) = the
   model's [sparse_correlation] (not [_orig]); besides the buffer-length hypothesis it reads arr_intersect's result through
   `set(..)` / `not in` ([zmem], PyPrim.v): hypothesis "k is in the returned array iff k is in the model's merge".

   Generic over [Num] (the source and the model perform the same operations in the same order), except the four
   binary metrics that compare an int with a float literal (Section Reals). *)
From Coq Require Import List ZArith Bool Arith Lia Reals Lra.
From UV Require Import Num PyPrim PyPrimLemmas M_metrics T_link M_sparse.
From UVS Require Import Src_sparse.
Import ListNotations.

Section Generic.
Context (N : Num).
Notation svec := (M_sparse.svec N).

Definition zi (c : svec) : list Z := map Z.of_nat (inds N c).

(* ---- the model's merges, equation form -------------------------------------------------------------------- *)
Lemma sum_nil_l (b : svec) : sparse_sum N [] b = drop0 N b.
Proof. destruct b; reflexivity. Qed.
Lemma sum_nil_r (a : svec) : sparse_sum N a [] = drop0 N a.
Proof. destruct a as [|[i u] a]; reflexivity. Qed.
Lemma sum_cons i u (a : svec) j v (b : svec) :
  sparse_sum N ((i, u) :: a) ((j, v) :: b) =
    if Nat.eqb i j then keep N i (add N u v) (sparse_sum N a b)
    else if Nat.ltb i j then keep N i u (sparse_sum N a ((j, v) :: b))
    else keep N j v (sparse_sum N ((i, u) :: a) b).
Proof. reflexivity. Qed.
Lemma mul_nil_l (b : svec) : sparse_mul N [] b = [].
Proof. destruct b; reflexivity. Qed.
Lemma mul_nil_r (a : svec) : sparse_mul N a [] = [].
Proof. destruct a as [|[i u] a]; reflexivity. Qed.
Lemma mul_cons i u (a : svec) j v (b : svec) :
  sparse_mul N ((i, u) :: a) ((j, v) :: b) =
    if Nat.eqb i j then keep N i (mul N u v) (sparse_mul N a b)
    else if Nat.ltb i j then sparse_mul N a ((j, v) :: b)
    else sparse_mul N ((i, u) :: a) b.
Proof. reflexivity. Qed.
Lemma drop0_cons i u (c : svec) : drop0 N ((i, u) :: c) = keep N i u (drop0 N c).
Proof. reflexivity. Qed.

Lemma keep_length_le i v (r : svec) : length (keep N i v r) <= S (length r).
Proof. unfold keep. destruct (nz N v); cbn; lia. Qed.

(* the merged row is never longer than the merge of the index arrays (the buffer arr_union / arr_intersect returns
   on canonical rows) *)
Lemma drop0_length_le (c : svec) : length (drop0 N c) <= length c.
Proof. unfold drop0. induction c as [|e c IH]; cbn; [lia|]. destruct (nz N (snd e)); cbn; lia. Qed.

Lemma union_nil_l (b : list nat) : arr_union [] b = b.
Proof. destruct b; reflexivity. Qed.
Lemma union_nil_r (a : list nat) : arr_union a [] = a.
Proof. destruct a; reflexivity. Qed.
Lemma inter_nil_l (b : list nat) : arr_intersect [] b = [].
Proof. destruct b; reflexivity. Qed.
Lemma inter_nil_r (a : list nat) : arr_intersect a [] = [].
Proof. destruct a; reflexivity. Qed.

Lemma sparse_sum_room : forall a b : svec, length (sparse_sum N a b) <= length (arr_union (inds N a) (inds N b)).
Proof.
  induction a as [|[i u] a IHa]; intros b.
  - rewrite sum_nil_l. cbn [inds map]. rewrite union_nil_l. unfold inds. rewrite map_length. apply drop0_length_le.
  - induction b as [|[j v] b IHb].
    + rewrite sum_nil_r. unfold inds at 2. cbn [map]. rewrite union_nil_r. unfold inds. rewrite map_length. apply drop0_length_le.
    + rewrite sum_cons. unfold inds in *. cbn [map fst arr_union] in *.
      destruct (Nat.eqb i j); [|destruct (Nat.ltb i j)]; cbn [length].
      * pose proof (keep_length_le i (add N u v) (sparse_sum N a b)). specialize (IHa b). lia.
      * pose proof (keep_length_le i u (sparse_sum N a ((j, v) :: b))). specialize (IHa ((j, v) :: b)). cbn [map fst] in IHa. lia.
      * pose proof (keep_length_le j v (sparse_sum N ((i, u) :: a) b)). cbn [map fst] in IHb. lia.
Qed.

Lemma sparse_mul_room : forall a b : svec, length (sparse_mul N a b) <= length (arr_intersect (inds N a) (inds N b)).
Proof.
  induction a as [|[i u] a IHa]; intros b.
  - rewrite mul_nil_l. cbn. lia.
  - induction b as [|[j v] b IHb].
    + rewrite mul_nil_r. cbn. lia.
    + rewrite mul_cons. unfold inds in *. cbn [map fst arr_intersect] in *.
      destruct (Nat.eqb i j); [|destruct (Nat.ltb i j)]; cbn [length].
      * pose proof (keep_length_le i (mul N u v) (sparse_mul N a b)). specialize (IHa b). lia.
      * specialize (IHa ((j, v) :: b)). cbn [map fst] in IHa. lia.
      * cbn [map fst] in IHb. lia.
Qed.

Lemma inds_map_vals f (c : svec) : inds N (map_vals N f c) = inds N c.
Proof. unfold inds, map_vals. rewrite map_map. reflexivity. Qed.
Lemma vals_map_vals f (c : svec) : vals N (map_vals N f c) = map f (vals N c).
Proof. unfold vals, map_vals. rewrite !map_map. reflexivity. Qed.
Lemma zi_map_vals f (c : svec) : zi (map_vals N f c) = zi c.
Proof. unfold zi. rewrite inds_map_vals. reflexivity. Qed.

(* ---- the two views of a row -------------------------------------------------------------------------------- *)
Lemma zi_length (c : svec) : length (zi c) = length c.
Proof. unfold zi, inds. rewrite !map_length. reflexivity. Qed.
Lemma vals_length (c : svec) : length (vals N c) = length c.
Proof. unfold vals. apply map_length. Qed.
Lemma zi_app (c d : svec) : zi (c ++ d) = zi c ++ zi d.
Proof. unfold zi, inds. rewrite !map_app. reflexivity. Qed.
Lemma vals_app (c d : svec) : vals N (c ++ d) = vals N c ++ vals N d.
Proof. unfold vals. apply map_app. Qed.
Lemma zlen_zi (c : svec) : zlen (zi c) = Z.of_nat (length c).
Proof. unfold zlen. rewrite zi_length. reflexivity. Qed.

Lemma inth_zi_mid (p c : svec) i u : inth (zi (p ++ (i, u) :: c)) (Z.of_nat (length p)) = Z.of_nat i.
Proof. unfold inth. rewrite zi_app. rewrite <- (zi_length p). cbn [zi inds map fst]. apply znth_app_mid. Qed.
Lemma vnth_vals_mid (p c : svec) i u : vnth N (vals N (p ++ (i, u) :: c)) (Z.of_nat (length p)) = u.
Proof. unfold vnth. rewrite vals_app. rewrite <- (vals_length p). cbn [vals map snd]. apply znth_app_mid. Qed.

(* ---- `if val != 0: result_ind[nnz] = j; result_data[nnz] = val; nnz += 1` --------------------------------- *)
Definition emit (ri : list Z) (rd : list N) (nnz j : Z) (val : N) : list Z * list N * Z :=
  if nne N val (zero N) then (iset ri nnz j, vset N rd nnz val, (nnz + 1)%Z) else (ri, rd, nnz).

(* the result buffers: the written prefix [w] followed by not yet written entries *)
Definition St (w : svec) (ti : list Z) (td : list N) : list Z * list N * Z :=
  (zi w ++ ti, vals N w ++ td, Z.of_nat (length w)).

Lemma emit_St (w : svec) ti td i val (rest : svec) :
  length (keep N i val rest) <= length ti -> length (keep N i val rest) <= length td ->
  exists w' ti' td',
    emit (zi w ++ ti) (vals N w ++ td) (Z.of_nat (length w)) (Z.of_nat i) val = St w' ti' td'
    /\ w ++ keep N i val rest = w' ++ rest
    /\ length rest <= length ti' /\ length rest <= length td'
    /\ length w' + length ti' = length w + length ti /\ length w' + length td' = length w + length td.
Proof.
  unfold emit, keep, nne, nz. destruct (eqb N val (zero N)); cbn [negb]; intros Hi Hd.
  - exists w, ti, td. repeat split; try assumption; reflexivity.
  - destruct ti as [|t ti]; [cbn in Hi; lia|]. destruct td as [|d td]; [cbn in Hd; lia|].
    exists (w ++ [(i, val)]), ti, td. cbn [length] in *. repeat split; try lia.
    + unfold St, iset, vset. rewrite <- (zi_length w) at 1. rewrite zset_app_mid.
      rewrite <- (vals_length w) at 1. rewrite zset_app_mid.
      rewrite zi_app, vals_app, <- !app_assoc, app_length. cbn [zi inds vals map fst snd app length].
      rewrite Z_of_nat_succ. repeat f_equal. lia.
    + rewrite <- app_assoc. reflexivity.
    + rewrite app_length. cbn. lia.
    + rewrite app_length. cbn. lia.
Qed.

(* ---- the tail loops 83-97: `while i < ind.shape[0]: val = data[i]; emit ind[i] val; i += 1` --------------- *)
Definition tail_c (ia : list Z) (s : list Z * list N * Z * Z) : bool :=
  let '(ri, rd, nnz, i) := s in (i <? zlen ia)%Z.
Definition tail_f (ia : list Z) (da : list N) (s : list Z * list N * Z * Z) : list Z * list N * Z * Z :=
  let '(ri, rd, nnz, i) := s in
  let '(ri, rd, nnz) := emit ri rd nnz (inth ia i) (vnth N da i) in (ri, rd, nnz, (i + 1)%Z).

Definition St4 (w : svec) ti td (i : nat) : list Z * list N * Z * Z :=
  (zi w ++ ti, vals N w ++ td, Z.of_nat (length w), Z.of_nat i).

Lemma tail_loop (C : svec) : forall (c p w : svec) ti td n,
  C = p ++ c -> length (drop0 N c) <= length ti -> length (drop0 N c) <= length td -> length c <= n ->
  exists ti' td',
    while_fuel n (tail_c (zi C)) (tail_f (zi C) (vals N C)) (St4 w ti td (length p))
      = (St4 (w ++ drop0 N c) ti' td' (length C), true)
    /\ length (w ++ drop0 N c) + length ti' = length w + length ti
    /\ length (w ++ drop0 N c) + length td' = length w + length td.
Proof.
  induction c as [|[i u] c IH]; intros p w ti td n HC Hi Hd Hn.
  - exists ti, td. rewrite app_nil_r in HC. subst p. cbn [drop0 filter]. rewrite app_nil_r. split; [|split; reflexivity].
    apply while_fuel_false. unfold tail_c, St4. rewrite zlen_zi. apply Z.ltb_irrefl.
  - destruct n as [|n]; [cbn in Hn; lia|]. rewrite drop0_cons in *.
    rewrite while_fuel_step.
    2:{ unfold tail_c, St4. rewrite zlen_zi. apply Z.ltb_lt. subst C. rewrite app_length. cbn. lia. }
    destruct (emit_St w ti td i u (drop0 N c) Hi Hd) as (w' & ti' & td' & He & Hw & Hi' & Hd' & Li & Ld).
    assert (Hstep : tail_f (zi C) (vals N C) (St4 w ti td (length p)) = St4 w' ti' td' (length (p ++ [(i, u)]))).
    { unfold tail_f, St4. rewrite HC, inth_zi_mid, vnth_vals_mid, He. unfold St.
      rewrite Z_of_nat_succ, app_length. cbn [length]. repeat f_equal. lia. }
    rewrite Hstep.
    destruct (IH (p ++ [(i, u)]) w' ti' td' n) as (ti'' & td'' & Hr & Li' & Ld'); try assumption.
    + rewrite <- app_assoc. exact HC.
    + cbn in Hn. lia.
    + exists ti'', td''. rewrite Hw. split; [exact Hr|]. lia.
Qed.

(* ---- sparse_sum: the merge loop 55-80 ---------------------------------------------------------------------- *)
Definition merge_c (ia ib : list Z) (s : list Z * list N * Z * Z * Z) : bool :=
  let '(ri, rd, nnz, i1, i2) := s in andb (i1 <? zlen ia)%Z (i2 <? zlen ib)%Z.
Definition sum_f (ia : list Z) (da : list N) (ib : list Z) (db : list N) (s : list Z * list N * Z * Z * Z)
  : list Z * list N * Z * Z * Z :=
  let '(ri, rd, nnz, i1, i2) := s in
  let j1 := inth ia i1 in let j2 := inth ib i2 in
  if (j1 =? j2)%Z then
    let '(ri, rd, nnz) := emit ri rd nnz j1 (add N (vnth N da i1) (vnth N db i2)) in (ri, rd, nnz, (i1 + 1)%Z, (i2 + 1)%Z)
  else if (j1 <? j2)%Z then
    let '(ri, rd, nnz) := emit ri rd nnz j1 (vnth N da i1) in (ri, rd, nnz, (i1 + 1)%Z, i2)
  else
    let '(ri, rd, nnz) := emit ri rd nnz j2 (vnth N db i2) in (ri, rd, nnz, i1, (i2 + 1)%Z).

Definition St5 (w : svec) ti td (i1 i2 : nat) : list Z * list N * Z * Z * Z :=
  (zi w ++ ti, vals N w ++ td, Z.of_nat (length w), Z.of_nat i1, Z.of_nat i2).

Lemma St5_of_St w ti td i1 i2 x :
  x = St w ti td -> (let '(ri, rd, nnz) := x in (ri, rd, nnz, Z.of_nat i1, Z.of_nat i2)) = St5 w ti td i1 i2.
Proof. intros ->. reflexivity. Qed.

Lemma merge_c_true (A B p q a b : svec) w ti td x y :
  A = p ++ x :: a -> B = q ++ y :: b -> merge_c (zi A) (zi B) (St5 w ti td (length p) (length q)) = true.
Proof.
  intros -> ->. unfold merge_c, St5. rewrite !zlen_zi, !app_length. cbn [length].
  apply andb_true_intro. split; apply Z.ltb_lt; lia.
Qed.
Lemma merge_c_false_l (A B p : svec) w ti td i2 :
  A = p -> merge_c (zi A) (zi B) (St5 w ti td (length p) i2) = false.
Proof. intros ->. unfold merge_c, St5. rewrite zlen_zi, Z.ltb_irrefl. reflexivity. Qed.
Lemma merge_c_false_r (A B q : svec) w ti td i1 :
  B = q -> merge_c (zi A) (zi B) (St5 w ti td i1 (length q)) = false.
Proof. intros ->. unfold merge_c, St5. rewrite (zlen_zi q), Z.ltb_irrefl. apply andb_false_r. Qed.

Lemma sum_main (A B : svec) : forall (a p b q w : svec) ti td n,
  A = p ++ a -> B = q ++ b ->
  length (sparse_sum N a b) <= length ti -> length (sparse_sum N a b) <= length td -> length a + length b <= n ->
  exists (a' p' b' q' w' : svec) ti' td',
    while_fuel n (merge_c (zi A) (zi B)) (sum_f (zi A) (vals N A) (zi B) (vals N B)) (St5 w ti td (length p) (length q))
      = (St5 w' ti' td' (length p') (length q'), true)
    /\ A = p' ++ a' /\ B = q' ++ b'
    /\ w ++ sparse_sum N a b = (w' ++ drop0 N a') ++ drop0 N b'
    /\ length (drop0 N a') + length (drop0 N b') <= length ti'
    /\ length (drop0 N a') + length (drop0 N b') <= length td'.
Proof.
  induction a as [|[i u] a IHa]; intros p b.
  - intros q w ti td n HA HB Hi Hd Hn. rewrite sum_nil_l in *. rewrite app_nil_r in HA.
    exists [], p, b, q, w, ti, td. change (drop0 N []) with (@nil (nat * N)). cbn [length]. rewrite !app_nil_r. cbn [plus].
    repeat split; try assumption.
    apply while_fuel_false. apply merge_c_false_l. exact HA.
  - induction b as [|[j v] b IHb]; intros q w ti td n HA HB Hi Hd Hn.
    + rewrite sum_nil_r in *. rewrite app_nil_r in HB.
      exists ((i, u) :: a), p, [], q, w, ti, td. change (drop0 N []) with (@nil (nat * N)). cbn [length]. rewrite !app_nil_r, !Nat.add_0_r.
      repeat split; try assumption.
      apply while_fuel_false. apply merge_c_false_r. exact HB.
    + destruct n as [|n]; [cbn in Hn; lia|]. cbn [length] in Hn.
      rewrite while_fuel_step by (eapply merge_c_true; eassumption).
      assert (Hf : sum_f (zi A) (vals N A) (zi B) (vals N B) (St5 w ti td (length p) (length q)) =
                   if Nat.eqb i j then
                     let '(ri, rd, nnz) := emit (zi w ++ ti) (vals N w ++ td) (Z.of_nat (length w)) (Z.of_nat i) (add N u v) in
                     (ri, rd, nnz, Z.of_nat (length (p ++ [(i, u)])), Z.of_nat (length (q ++ [(j, v)])))
                   else if Nat.ltb i j then
                     let '(ri, rd, nnz) := emit (zi w ++ ti) (vals N w ++ td) (Z.of_nat (length w)) (Z.of_nat i) u in
                     (ri, rd, nnz, Z.of_nat (length (p ++ [(i, u)])), Z.of_nat (length q))
                   else
                     let '(ri, rd, nnz) := emit (zi w ++ ti) (vals N w ++ td) (Z.of_nat (length w)) (Z.of_nat j) v in
                     (ri, rd, nnz, Z.of_nat (length p), Z.of_nat (length (q ++ [(j, v)])))).
      { unfold sum_f, St5. cbv zeta. rewrite HA, HB, !inth_zi_mid, !vnth_vals_mid, Z_eqb_of_nat, Z_ltb_of_nat, !Z_of_nat_succ.
        rewrite !app_length. cbn [length]. rewrite !Nat.add_1_r. reflexivity. }
      rewrite Hf. clear Hf. rewrite sum_cons in *.
      destruct (Nat.eqb i j); [|destruct (Nat.ltb i j)].
      * destruct (emit_St w ti td i (add N u v) (sparse_sum N a b) Hi Hd) as (w' & ti' & td' & He & Hw & Hi' & Hd' & _ & _).
        rewrite (St5_of_St _ _ _ _ _ _ He).
        destruct (IHa (p ++ [(i, u)]) b (q ++ [(j, v)]) w' ti' td' n) as (a' & p' & b' & q' & w'' & ti'' & td'' & Hr & R); try assumption;
          try (rewrite <- app_assoc; assumption); try lia.
        exists a', p', b', q', w'', ti'', td''. rewrite Hw. split; [exact Hr | exact R].
      * destruct (emit_St w ti td i u (sparse_sum N a ((j, v) :: b)) Hi Hd) as (w' & ti' & td' & He & Hw & Hi' & Hd' & _ & _).
        rewrite (St5_of_St _ _ _ _ _ _ He).
        destruct (IHa (p ++ [(i, u)]) ((j, v) :: b) q w' ti' td' n) as (a' & p' & b' & q' & w'' & ti'' & td'' & Hr & R); try assumption;
          try (rewrite <- app_assoc; assumption); try (cbn [length]; lia).
        exists a', p', b', q', w'', ti'', td''. rewrite Hw. split; [exact Hr | exact R].
      * destruct (emit_St w ti td j v (sparse_sum N ((i, u) :: a) b) Hi Hd) as (w' & ti' & td' & He & Hw & Hi' & Hd' & _ & _).
        rewrite (St5_of_St _ _ _ _ _ _ He).
        destruct (IHb (q ++ [(j, v)]) w' ti' td' n) as (a' & p' & b' & q' & w'' & ti'' & td'' & Hr & R); try assumption;
          try (rewrite <- app_assoc; assumption); try (cbn [length]; lia).
        exists a', p', b', q', w'', ti'', td''. rewrite Hw. split; [exact Hr | exact R].
Qed.

(* destructuring helpers for the generated closures *)
Ltac split_ifs := repeat match goal with |- context[if ?b then _ else _] => destruct b end.

Lemma fuel_ok (a b : svec) : length a + length b <= Z.to_nat (zlen (zi a) + zlen (zi b)).
Proof. rewrite !zlen_zi. lia. Qed.

Lemma zslice_zi (w : svec) t : zslice_to (zi w ++ t) (Z.of_nat (length w)) = zi w.
Proof. rewrite <- (zi_length w). apply zslice_to_app. Qed.
Lemma zslice_vals (w : svec) t : zslice_to (vals N w ++ t) (Z.of_nat (length w)) = vals N w.
Proof. rewrite <- (vals_length w). apply zslice_to_app. Qed.

Theorem src_sparse_sum_eq (U : list Z -> list Z -> list Z) (a b : svec) :
  length (sparse_sum N a b) <= length (U (zi a) (zi b)) ->
  src_sparse_sum N U (zi a) (vals N a) (zi b) (vals N b)
  = ((zi (sparse_sum N a b), vals N (sparse_sum N a b)), true).
Proof.
  intros Hroom. unfold src_sparse_sum. cbv zeta.
  (* loop 1 *)
  rewrite (while_fuel_ext _ (merge_c (zi a) (zi b)) _ (sum_f (zi a) (vals N a) (zi b) (vals N b)));
    [| intros [[[[ri rd] nnz] i1] i2]; reflexivity
     | intros [[[[ri rd] nnz] i1] i2]; unfold sum_f, emit; cbv zeta; split_ifs; reflexivity ].
  destruct (sum_main a b a [] b [] [] (U (zi a) (zi b)) (vzeros N (zlen (U (zi a) (zi b)))) _ eq_refl eq_refl Hroom
              ltac:(unfold vzeros, zlen; rewrite Nat2Z.id, repeat_length; exact Hroom) (fuel_ok a b))
    as (a' & p' & b' & q' & w' & ti' & td' & Hr & HA & HB & Hw & Hi & Hd).
  change (St5 [] (U (zi a) (zi b)) (vzeros N (zlen (U (zi a) (zi b)))) (length (@nil (nat * N))) (length (@nil (nat * N))))
    with (U (zi a) (zi b), vzeros N (zlen (U (zi a) (zi b))), 0%Z, 0%Z, 0%Z) in Hr.
  rewrite Hr. clear Hr. unfold St5. cbv beta iota.
  (* loop 2 *)
  rewrite (while_fuel_ext _ (tail_c (zi a)) _ (tail_f (zi a) (vals N a)));
    [| intros [[[ri rd] nnz] i1]; reflexivity
     | intros [[[ri rd] nnz] i1]; unfold tail_f, emit; cbv zeta; split_ifs; reflexivity ].
  destruct (tail_loop a a' p' w' ti' td' (Z.to_nat (zlen (zi a) + zlen (zi b))) HA) as (ti2 & td2 & Hr & Li & Ld);
    [lia | lia | pose proof (fuel_ok a b); subst a; rewrite app_length in *; lia |].
  change (zi w' ++ ti', vals N w' ++ td', Z.of_nat (length w'), Z.of_nat (length p')) with (St4 w' ti' td' (length p')).
  rewrite Hr. clear Hr. unfold St4. cbv beta iota.
  (* loop 3 *)
  rewrite (while_fuel_ext _ (tail_c (zi b)) _ (tail_f (zi b) (vals N b)));
    [| intros [[[ri rd] nnz] i2]; reflexivity
     | intros [[[ri rd] nnz] i2]; unfold tail_f, emit; cbv zeta; split_ifs; reflexivity ].
  destruct (tail_loop b b' q' (w' ++ drop0 N a') ti2 td2 (Z.to_nat (zlen (zi a) + zlen (zi b))) HB) as (ti3 & td3 & Hr & _ & _);
    [rewrite app_length in *; lia | rewrite app_length in *; lia | pose proof (fuel_ok a b); subst b; rewrite app_length in *; lia |].
  change (zi (w' ++ drop0 N a') ++ ti2, vals N (w' ++ drop0 N a') ++ td2, Z.of_nat (length (w' ++ drop0 N a')), Z.of_nat (length q'))
    with (St4 (w' ++ drop0 N a') ti2 td2 (length q')).
  rewrite Hr. clear Hr. unfold St4. cbv beta iota.
  rewrite zslice_zi, zslice_vals. cbn [app] in Hw. rewrite <- Hw. reflexivity.
Qed.

(* sparse_diff (107-108): sparse_sum on the negated second row *)
Lemma diff_room (a b : svec) : length (sparse_diff N a b) <= length (arr_union (inds N a) (inds N b)).
Proof. unfold sparse_diff. rewrite <- (inds_map_vals (neg N) b). apply sparse_sum_room. Qed.

Theorem src_sparse_diff_eq (U : list Z -> list Z -> list Z) (a b : svec) :
  length (sparse_diff N a b) <= length (U (zi a) (zi b)) ->
  src_sparse_diff N U (zi a) (vals N a) (zi b) (vals N b)
  = ((zi (sparse_diff N a b), vals N (sparse_diff N a b)), true).
Proof.
  intros H. unfold src_sparse_diff, sparse_diff, vmap1 in *.
  rewrite <- (vals_map_vals (neg N) b). rewrite <- (zi_map_vals (neg N) b) in *.
  rewrite src_sparse_sum_eq by exact H. reflexivity.
Qed.

(* ---- sparse_mul (112-142) ---------------------------------------------------------------------------------- *)
Definition mul_f (ia : list Z) (da : list N) (ib : list Z) (db : list N) (s : list Z * list N * Z * Z * Z)
  : list Z * list N * Z * Z * Z :=
  let '(ri, rd, nnz, i1, i2) := s in
  let j1 := inth ia i1 in let j2 := inth ib i2 in
  if (j1 =? j2)%Z then
    let '(ri, rd, nnz) := emit ri rd nnz j1 (mul N (vnth N da i1) (vnth N db i2)) in (ri, rd, nnz, (i1 + 1)%Z, (i2 + 1)%Z)
  else if (j1 <? j2)%Z then (ri, rd, nnz, (i1 + 1)%Z, i2)
  else (ri, rd, nnz, i1, (i2 + 1)%Z).

Lemma mul_main (A B : svec) : forall (a p b q w : svec) ti td n,
  A = p ++ a -> B = q ++ b ->
  length (sparse_mul N a b) <= length ti -> length (sparse_mul N a b) <= length td -> length a + length b <= n ->
  exists ti' td' i1 i2,
    while_fuel n (merge_c (zi A) (zi B)) (mul_f (zi A) (vals N A) (zi B) (vals N B)) (St5 w ti td (length p) (length q))
      = (St5 (w ++ sparse_mul N a b) ti' td' i1 i2, true).
Proof.
  induction a as [|[i u] a IHa]; intros p b.
  - intros q w ti td n HA HB Hi Hd Hn. rewrite mul_nil_l, app_nil_r in *.
    exists ti, td, (length p), (length q). apply while_fuel_false. apply merge_c_false_l. exact HA.
  - induction b as [|[j v] b IHb]; intros q w ti td n HA HB Hi Hd Hn.
    + rewrite mul_nil_r in *. rewrite app_nil_r in *.
      exists ti, td, (length p), (length q). apply while_fuel_false. apply merge_c_false_r. exact HB.
    + destruct n as [|n]; [cbn in Hn; lia|]. cbn [length] in Hn.
      rewrite while_fuel_step by (eapply merge_c_true; eassumption).
      assert (Hf : mul_f (zi A) (vals N A) (zi B) (vals N B) (St5 w ti td (length p) (length q)) =
                   if Nat.eqb i j then
                     let '(ri, rd, nnz) := emit (zi w ++ ti) (vals N w ++ td) (Z.of_nat (length w)) (Z.of_nat i) (mul N u v) in
                     (ri, rd, nnz, Z.of_nat (length (p ++ [(i, u)])), Z.of_nat (length (q ++ [(j, v)])))
                   else if Nat.ltb i j then St5 w ti td (length (p ++ [(i, u)])) (length q)
                   else St5 w ti td (length p) (length (q ++ [(j, v)]))).
      { unfold mul_f, St5. cbv zeta. rewrite HA, HB, !inth_zi_mid, !vnth_vals_mid, Z_eqb_of_nat, Z_ltb_of_nat, !Z_of_nat_succ.
        rewrite !app_length. cbn [length]. rewrite !Nat.add_1_r. reflexivity. }
      rewrite Hf. clear Hf. rewrite mul_cons in *.
      destruct (Nat.eqb i j); [|destruct (Nat.ltb i j)].
      * destruct (emit_St w ti td i (mul N u v) (sparse_mul N a b) Hi Hd) as (w' & ti' & td' & He & Hw & Hi' & Hd' & _ & _).
        rewrite (St5_of_St _ _ _ _ _ _ He).
        destruct (IHa (p ++ [(i, u)]) b (q ++ [(j, v)]) w' ti' td' n) as (ti'' & td'' & i1 & i2 & Hr); try assumption;
          try (rewrite <- app_assoc; assumption); try lia.
        exists ti'', td'', i1, i2. rewrite Hw. exact Hr.
      * apply IHa; try assumption; try (rewrite <- app_assoc; assumption); cbn [length]; lia.
      * apply IHb; try assumption; try (rewrite <- app_assoc; assumption); cbn [length]; lia.
Qed.

Theorem src_sparse_mul_eq (I : list Z -> list Z -> list Z) (a b : svec) :
  length (sparse_mul N a b) <= length (I (zi a) (zi b)) ->
  src_sparse_mul N I (zi a) (vals N a) (zi b) (vals N b)
  = ((zi (sparse_mul N a b), vals N (sparse_mul N a b)), true).
Proof.
  intros Hroom. unfold src_sparse_mul. cbv zeta.
  rewrite (while_fuel_ext _ (merge_c (zi a) (zi b)) _ (mul_f (zi a) (vals N a) (zi b) (vals N b)));
    [| intros [[[[ri rd] nnz] i1] i2]; reflexivity
     | intros [[[[ri rd] nnz] i1] i2]; unfold mul_f, emit; cbv zeta; split_ifs; reflexivity ].
  destruct (mul_main a b a [] b [] [] (I (zi a) (zi b)) (vzeros N (zlen (I (zi a) (zi b)))) _ eq_refl eq_refl Hroom
              ltac:(unfold vzeros, zlen; rewrite Nat2Z.id, repeat_length; exact Hroom) (fuel_ok a b))
    as (ti' & td' & i1 & i2 & Hr).
  change (St5 [] (I (zi a) (zi b)) (vzeros N (zlen (I (zi a) (zi b)))) (length (@nil (nat * N))) (length (@nil (nat * N))))
    with (I (zi a) (zi b), vzeros N (zlen (I (zi a) (zi b))), 0%Z, 0%Z, 0%Z) in Hr.
  rewrite Hr. clear Hr. unfold St5. cbv beta iota. cbn [app].
  rewrite zslice_zi, zslice_vals. reflexivity.
Qed.

(* ---- the metrics built on the merges (234-308, 419-436) ---------------------------------------------------- *)
Section Metrics.
Context (U I : list Z -> list Z -> list Z) (a b : svec).
(* the buffer arr_union returns is at least as long as the merge of the two index arrays *)
Hypothesis HU : length (arr_union (inds N a) (inds N b)) <= length (U (zi a) (zi b)).

Lemma HUdiff : length (sparse_diff N a b) <= length (U (zi a) (zi b)).
Proof. pose proof (diff_room a b). lia. Qed.

Theorem src_sparse_euclidean_eq :
  src_sparse_euclidean N U (zi a) (vals N a) (zi b) (vals N b) = (sparse_euclidean N a b, true).
Proof. unfold src_sparse_euclidean. rewrite src_sparse_diff_eq by exact HUdiff. cbv beta iota zeta. loop1. reflexivity. Qed.

Theorem src_sparse_manhattan_eq :
  src_sparse_manhattan N U (zi a) (vals N a) (zi b) (vals N b) = (sparse_manhattan N a b, true).
Proof. unfold src_sparse_manhattan. rewrite src_sparse_diff_eq by exact HUdiff. cbv beta iota zeta. loop1. reflexivity. Qed.

Theorem src_sparse_chebyshev_eq :
  src_sparse_chebyshev N U (zi a) (vals N a) (zi b) (vals N b) = (sparse_chebyshev N a b, true).
Proof. unfold src_sparse_chebyshev. rewrite src_sparse_diff_eq by exact HUdiff. cbv beta iota zeta. loop1. reflexivity. Qed.

Theorem src_sparse_minkowski_eq (p : N) :
  src_sparse_minkowski N U (zi a) (vals N a) (zi b) (vals N b) p = (sparse_minkowski N p a b, true).
Proof. unfold src_sparse_minkowski. rewrite src_sparse_diff_eq by exact HUdiff. cbv beta iota zeta. loop1. reflexivity. Qed.

Theorem src_sparse_hamming_eq (n : nat) :
  src_sparse_hamming N U (zi a) (vals N a) (zi b) (vals N b) (Z.of_nat n) = (sparse_hamming N a b n, true).
Proof.
  unfold src_sparse_hamming. rewrite src_sparse_diff_eq by exact HUdiff. cbv beta iota zeta. cbn [fst].
  rewrite zlen_zi. reflexivity.
Qed.

Theorem src_sparse_bray_curtis_eq :
  src_sparse_bray_curtis N U (zi a) (vals N a) (zi b) (vals N b) = (sparse_bray_curtis N a b, true).
Proof.
  unfold src_sparse_bray_curtis, sparse_bray_curtis.
  rewrite src_sparse_sum_eq by (pose proof (sparse_sum_room a b); lia).
  rewrite src_sparse_diff_eq by exact HUdiff. cbv beta iota zeta.
  unfold vmap1. rewrite <- !vals_map_vals.
  destruct (sparse_sum N a b) as [|e s]; [reflexivity|].
  change (zlen (vals N (map_vals N (nabs N) (e :: s))) =? 0)%Z with false. cbv iota.
  change (map_vals N (nabs N) (e :: s)) with ((fst e, nabs N (snd e)) :: map_vals N (nabs N) s).
  cbv iota.
  match goal with |- (if ?c then _ else _) = (if ?c' then _ else _, true) => change c' with c; destruct c; reflexivity end.
Qed.

Theorem src_sparse_canberra_eq :
  (let D := sparse_diff N a b in let S := sparse_sum N (map_vals N (nabs N) a) (map_vals N (nabs N) b) in
   length (arr_intersect (inds N D) (inds N S)) <= length (I (zi D) (zi S))) ->
  src_sparse_canberra N U I (zi a) (vals N a) (zi b) (vals N b) = (sparse_canberra N a b, true).
Proof.
  cbv zeta. intros HI. unfold src_sparse_canberra, sparse_canberra. cbv zeta. unfold vmap1.
  rewrite <- !vals_map_vals.
  rewrite <- (zi_map_vals (nabs N) a) at 1. rewrite <- (zi_map_vals (nabs N) b) at 1.
  rewrite src_sparse_sum_eq.
  2:{ pose proof (sparse_sum_room (map_vals N (nabs N) a) (map_vals N (nabs N) b)) as R.
      rewrite !inds_map_vals in R. rewrite !zi_map_vals. lia. }
  rewrite src_sparse_diff_eq by exact HUdiff. cbv beta iota.
  unfold vmaps_l. rewrite <- !vals_map_vals.
  set (D := sparse_diff N a b) in *. set (S := sparse_sum N (map_vals N (nabs N) a) (map_vals N (nabs N) b)) in *.
  rewrite <- (zi_map_vals (nabs N) D). rewrite <- (zi_map_vals (fun v => div N (one N) v) S).
  rewrite src_sparse_mul_eq.
  2:{ pose proof (sparse_mul_room (map_vals N (nabs N) D) (map_vals N (fun v => div N (one N) v) S)) as R.
      rewrite !inds_map_vals in R. rewrite !zi_map_vals. lia. }
  cbv beta iota. reflexivity.
Qed.

End Metrics.

Theorem src_sparse_hellinger_eq (I : list Z -> list Z -> list Z) (a b : svec) :
  length (arr_intersect (inds N a) (inds N b)) <= length (I (zi a) (zi b)) ->
  src_sparse_hellinger N I (zi a) (vals N a) (zi b) (vals N b) = (sparse_hellinger N a b, true).
Proof.
  intros HI. unfold src_sparse_hellinger, sparse_hellinger.
  rewrite src_sparse_mul_eq by (pose proof (sparse_mul_room a b); lia). cbv beta iota zeta. loop1.
  unfold ngt, vsum_py, accum, idf.
  repeat match goal with |- (if ?c then _ else _) = (if ?c' then _ else _, true) => change c' with c; destruct c; [reflexivity|] end.
  reflexivity.
Qed.

(* umap.utils.norm (imported by sparse.py; translated into this module from the current umap/utils.py) *)
Theorem src_norm_eq (v : list N) : src_norm N v = norm2 N v.
Proof. unfold src_norm, norm2, accum, sq. cbv zeta. loop1. reflexivity. Qed.

Theorem src_sparse_cosine_eq (I : list Z -> list Z -> list Z) (a b : svec) :
  length (arr_intersect (inds N a) (inds N b)) <= length (I (zi a) (zi b)) ->
  src_sparse_cosine N I (zi a) (vals N a) (zi b) (vals N b) = (sparse_cosine N a b, true).
Proof.
  intros HI. unfold src_sparse_cosine, sparse_cosine.
  rewrite src_sparse_mul_eq by (pose proof (sparse_mul_room a b); lia). cbv beta iota zeta. loop1.
  rewrite !src_norm_eq. unfold accum, idf.
  repeat match goal with |- (if ?c then _ else _) = (if ?c' then _ else _, true) => change c' with c; destruct c; [reflexivity|] end.
  reflexivity.
Qed.

(* ---- sparse_correlation (440-497, the text after the two repairs) ----------------------------------------------
   arr_intersect is used twice: as the buffer sparse_mul writes into (length hypothesis, as above) and, through
   `set(arr_intersect(ind1, ind2))`, as the set of common indices: its CONTENT matters only through the membership test
   (hypothesis HC: k is in the returned array iff k is in the model's merge of the two index arrays).  arr_union: only the
   length of its result is read.  Same operations in the same order: every [Num]. *)
Definition corr_body (a b : svec) (n : nat) : N :=
  let mu_x := div N (accum N (idf N) (vals N a)) (ofn N n) in
  let mu_y := div N (accum N (idf N) (vals N b)) (ofn N n) in
  let sh1 := map_vals N (fun v => sub N v mu_x) a in
  let sh2 := map_vals N (fun v => sub N v mu_y) b in
  let nr1 := norm2 N (vals N sh1) in
  let nr2 := norm2 N (vals N sh2) in
  let norm1 := nsqrt N (add N (mul N nr1 nr1) (mul N (of_Z N (Z.of_nat n - Z.of_nat (length a))) (mul N mu_x mu_x))) in
  let norm2' := nsqrt N (add N (mul N nr2 nr2) (mul N (of_Z N (Z.of_nat n - Z.of_nat (length b))) (mul N mu_y mu_y))) in
  let prod := sparse_mul N sh1 sh2 in
  let common := arr_intersect (inds N a) (inds N b) in
  let d1 := accum N (idf N) (vals N prod) in
  let d2 := sub_uncommon N common mu_y sh1 d1 in
  let d3 := sub_uncommon N common mu_x sh2 d2 in
  let dot := add N d3 (mul N (mul N mu_x mu_y) (of_Z N (Z.of_nat n - n_union N a b))) in
  if andb (eqb N norm1 (zero N)) (eqb N norm2' (zero N)) then zero N
  else if eqb N dot (zero N) then one N
  else sub N (one N) (div N dot (mul N norm1 norm2')).

Lemma sparse_correlation_unfold_N (a b : svec) (n : nat) :
  sparse_correlation N a b n = match a, b with [], [] => zero N | _, _ => corr_body a b n end.
Proof. destruct a as [|e a]; destruct b as [|e' b]; reflexivity. Qed.

Lemma combine_zi_vals (c : svec) : combine (zi c) (vals N c) = map (fun e => (Z.of_nat (fst e), snd e)) c.
Proof. unfold zi, inds, vals. induction c as [|e c IH]; [reflexivity|]. cbn [map combine]. rewrite IH. reflexivity. Qed.

(* the loops 481-487: `for i in range(ind.shape[0]): if ind[i] not in common_indices: dot_product -= shifted[i] * m` *)
Lemma sub_uncommon_loop (CI : list Z) (common : list nat) (m : N) (sh : svec) (ia : list Z) (f : Z -> N -> N) (r0 : N) :
  ia = zi sh ->
  (forall k : nat, zmem (Z.of_nat k) CI = memb k common) ->
  (forall k r, f (Z.of_nat k) r =
               if negb (zmem (inth ia (Z.of_nat k)) CI) then sub N r (mul N (vnth N (vals N sh) (Z.of_nat k)) m) else r) ->
  for_range 0 (zlen ia) f r0 = sub_uncommon N common m sh r0.
Proof.
  intros -> HC Hf.
  rewrite (for_range_glist2 0%Z (zero N) (fun r j v => if negb (zmem j CI) then sub N r (mul N v m) else r) (zi sh) (vals N sh) f).
  - rewrite combine_zi_vals, fold_left_map. unfold sub_uncommon. apply fold_left_ext. intros r e. cbn [fst snd].
    rewrite HC. destruct (memb (fst e) common); reflexivity.
  - rewrite zi_length, vals_length. reflexivity.
  - intros k r. rewrite Hf. reflexivity.
Qed.

Lemma src_sparse_mul_eq' (I : list Z -> list Z -> list Z) (a b : svec) (ia ib : list Z) :
  ia = zi a -> ib = zi b -> length (sparse_mul N a b) <= length (I ia ib) ->
  src_sparse_mul N I ia (vals N a) ib (vals N b) = ((zi (sparse_mul N a b), vals N (sparse_mul N a b)), true).
Proof. intros -> ->. apply src_sparse_mul_eq. Qed.

Ltac let1 y := lazymatch goal with |- (let x := ?v in @?B x) = ?r => pose (y := v); change (B y = r); cbv beta end.
Ltac is_model y H := clearbody y; rewrite H in *; clear y H.

Theorem src_sparse_correlation_eq (U I : list Z -> list Z -> list Z) (a b : svec) (n : nat) :
  zlen (U (zi a) (zi b)) = n_union N a b ->
  length (arr_intersect (inds N a) (inds N b)) <= length (I (zi a) (zi b)) ->
  (forall k : nat, zmem (Z.of_nat k) (I (zi a) (zi b)) = memb k (arr_intersect (inds N a) (inds N b))) ->
  src_sparse_correlation N U I (zi a) (vals N a) (zi b) (vals N b) (Z.of_nat n) = (sparse_correlation N a b n, true).
Proof.
  intros HU HI HC. rewrite sparse_correlation_unfold_N. cbv beta delta [src_sparse_correlation].
  let1 mu0. let1 mu0'. let1 dp0.
  match goal with |- (if _ then _ else ?X) = _ => assert (E : X = (corr_body a b n, true)) end.
  { let1 sx. assert (Hsx : sx = accum N (idf N) (vals N a)) by (subst sx mu0; unfold accum, idf; loop1; reflexivity).
    is_model sx Hsx.
    let1 sy. assert (Hsy : sy = accum N (idf N) (vals N b)) by (subst sy mu0'; unfold accum, idf; loop1; reflexivity).
    is_model sy Hsy.
    let1 mu_x. let1 mu_y. let1 z1. let1 z2.
    let1 s1. assert (Hs1 : s1 = vals N (map_vals N (fun v => sub N v mu_x) a)).
    { subst s1 z1. rewrite vals_map_vals. apply for_range_fill1. intros k d. reflexivity. }
    is_model s1 Hs1.
    let1 s2. assert (Hs2 : s2 = vals N (map_vals N (fun v => sub N v mu_y) b)).
    { subst s2 z2. rewrite vals_map_vals. apply for_range_fill1. intros k d. reflexivity. }
    is_model s2 Hs2.
    set (sh1 := map_vals N (fun v => sub N v mu_x) a). set (sh2 := map_vals N (fun v => sub N v mu_y) b).
    let1 norm1. let1 norm2'.
    rewrite (src_sparse_mul_eq' I sh1 sh2 (zi a) (zi b)); try (symmetry; apply zi_map_vals).
    2:{ pose proof (sparse_mul_room sh1 sh2) as R. unfold sh1, sh2 in R. rewrite !inds_map_vals in R. fold sh1 sh2 in R. lia. }
    cbv beta iota.
    let1 CI.
    let1 dd1. assert (Hdd1 : dd1 = accum N (idf N) (vals N (sparse_mul N sh1 sh2))) by (subst dd1 dp0; unfold accum, idf; loop1; reflexivity).
    is_model dd1 Hdd1.
    let1 dd2. assert (Hdd2 : dd2 = sub_uncommon N (arr_intersect (inds N a) (inds N b)) mu_y sh1 (accum N (idf N) (vals N (sparse_mul N sh1 sh2)))).
    { subst dd2. apply (sub_uncommon_loop CI); [symmetry; apply zi_map_vals | exact HC | intros k r; reflexivity]. }
    is_model dd2 Hdd2.
    let1 dd3. assert (Hdd3 : dd3 = sub_uncommon N (arr_intersect (inds N a) (inds N b)) mu_x sh2
                                  (sub_uncommon N (arr_intersect (inds N a) (inds N b)) mu_y sh1 (accum N (idf N) (vals N (sparse_mul N sh1 sh2))))).
    { subst dd3. apply (sub_uncommon_loop CI); [symmetry; apply zi_map_vals | exact HC | intros k r; reflexivity]. }
    is_model dd3 Hdd3.
    let1 all_indices. let1 dot.
    assert (Hn1 : norm1 = nsqrt N (add N (mul N (norm2 N (vals N sh1)) (norm2 N (vals N sh1)))
                                         (mul N (of_Z N (Z.of_nat n - Z.of_nat (length a))) (mul N mu_x mu_x))))
      by (subst norm1; rewrite src_norm_eq, zlen_zi; reflexivity).
    assert (Hn2 : norm2' = nsqrt N (add N (mul N (norm2 N (vals N sh2)) (norm2 N (vals N sh2)))
                                          (mul N (of_Z N (Z.of_nat n - Z.of_nat (length b))) (mul N mu_y mu_y))))
      by (subst norm2'; rewrite src_norm_eq, zlen_zi; reflexivity).
    assert (Hdot : dot = add N (sub_uncommon N (arr_intersect (inds N a) (inds N b)) mu_x sh2
                                  (sub_uncommon N (arr_intersect (inds N a) (inds N b)) mu_y sh1 (accum N (idf N) (vals N (sparse_mul N sh1 sh2)))))
                               (mul N (mul N mu_x mu_y) (of_Z N (Z.of_nat n - n_union N a b))))
      by (subst dot all_indices; rewrite HU; reflexivity).
    clearbody norm1 norm2' dot. subst norm1 norm2' dot.
    unfold corr_body. cbv zeta. fold mu_x mu_y. fold sh1 sh2.
    repeat match goal with |- (if ?c then _ else _) = (if ?c' then _ else _, true) => change c' with c; destruct c; [reflexivity|] end.
    reflexivity. }
  rewrite E. destruct a as [|e a]; destruct b as [|e' b]; reflexivity.
Qed.

(* ---- binary metrics (312-397): only the LENGTHS of arr_union / arr_intersect are used ------------------------ *)
Section Binary.
Context (U I : list Z -> list Z -> list Z) (a b : svec).
Hypothesis HU : zlen (U (zi a) (zi b)) = n_union N a b.
Hypothesis HI : zlen (I (zi a) (zi b)) = n_inter N a b.

Theorem src_sparse_jaccard_eq : src_sparse_jaccard N U I (zi a) (vals N a) (zi b) (vals N b) = sparse_jaccard N a b.
Proof. unfold src_sparse_jaccard, sparse_jaccard. cbv zeta. rewrite HU, HI. reflexivity. Qed.

Theorem src_sparse_matching_eq (n : nat) :
  src_sparse_matching N U I (zi a) (vals N a) (zi b) (vals N b) (Z.of_nat n) = sparse_matching N a b n.
Proof. unfold src_sparse_matching, sparse_matching, n_neq. cbv zeta. rewrite HU, HI. reflexivity. Qed.

Theorem src_sparse_kulsinski_eq (n : nat) :
  src_sparse_kulsinski N U I (zi a) (vals N a) (zi b) (vals N b) (Z.of_nat n) = sparse_kulsinski N a b n.
Proof. unfold src_sparse_kulsinski, sparse_kulsinski, n_neq. cbv zeta. rewrite HU, HI. reflexivity. Qed.

Theorem src_sparse_rogers_tanimoto_eq (n : nat) :
  src_sparse_rogers_tanimoto N U I (zi a) (vals N a) (zi b) (vals N b) (Z.of_nat n) = sparse_rogers_tanimoto N a b n.
Proof. unfold src_sparse_rogers_tanimoto, sparse_rogers_tanimoto, n_neq. cbv zeta. rewrite HU, HI. reflexivity. Qed.

Theorem src_sparse_sokal_michener_eq (n : nat) :
  src_sparse_sokal_michener N U I (zi a) (vals N a) (zi b) (vals N b) (Z.of_nat n) = sparse_sokal_michener N a b n.
Proof. unfold src_sparse_sokal_michener, sparse_sokal_michener, n_neq. cbv zeta. rewrite HU, HI. reflexivity. Qed.

(* sparse_russellrao (367-376): `ind1.shape[0] == ind2.shape[0] and np.all(ind1 == ind2)` is equality of the two index arrays
   ([zall_eq] under the length test, PyPrimLemmas.zall_eq_len_iff) = the model's [list_eqb]; `np.sum(data != 0)` = [countb nz] *)
Lemma list_eqb_iff (x y : list nat) : list_eqb x y = true <-> x = y.
Proof.
  revert y. induction x as [|i x IH]; intros [|j y]; cbn [list_eqb]; try (split; [discriminate|discriminate]); [split; reflexivity|].
  rewrite andb_true_iff, Nat.eqb_eq, IH. split; [intros [-> ->]; reflexivity|intros H; injection H; auto].
Qed.
Lemma zi_all_eq : (zlen (zi a) =? zlen (zi b))%Z && zall_eq (zi a) (zi b) = list_eqb (inds N a) (inds N b).
Proof.
  assert (Inj : forall x y : list nat, map Z.of_nat x = map Z.of_nat y -> x = y).
  { induction x as [|i x IH]; intros [|j y] H; try discriminate; [reflexivity|]. cbn [map] in H. injection H as H1 H2.
    apply Nat2Z.inj in H1. subst. f_equal. apply IH. exact H2. }
  destruct (list_eqb (inds N a) (inds N b)) eqn:E.
  - apply list_eqb_iff in E. apply zall_eq_len_iff. unfold zi. rewrite E. reflexivity.
  - destruct (_ && _) eqn:E'; [|reflexivity]. apply zall_eq_len_iff in E'. apply Inj in E'. apply list_eqb_iff in E'. congruence.
Qed.
Theorem src_sparse_russellrao_eq (n : nat) :
  src_sparse_russellrao N I (zi a) (vals N a) (zi b) (vals N b) (Z.of_nat n) = sparse_russellrao N a b n.
Proof.
  unfold src_sparse_russellrao, sparse_russellrao, ofn. cbv zeta. rewrite zi_all_eq, HI. reflexivity.
Qed.
End Binary.

End Generic.

(* ---- over the reals: the source compares the int count with the float literal 0.0 / uses 0.5 ----------------- *)
Section Reals.
Local Open Scope R_scope.
Context (U I : list Z -> list Z -> list Z) (a b : M_sparse.svec RNum).
Hypothesis HU : zlen (U (zi RNum a) (zi RNum b)) = n_union RNum a b.
Hypothesis HI : zlen (I (zi RNum a) (zi RNum b)) = n_inter RNum a b.

Lemma Reqb_IZR0 (x : Z) : Reqb (IZR x) 0 = Z.eqb x 0.
Proof.
  destruct (Z.eqb_spec x 0) as [->|Hne]; [apply Reqb_true; reflexivity|].
  apply Reqb_false. intros H. apply Hne. apply eq_IZR. exact H.
Qed.
Lemma nlit_two : nlit RNum 2 0 = two RNum. Proof. unfold nlit, two. cbn. lra. Qed.
Lemma nlit_half' : nlit RNum 5 (-1) = half RNum. Proof. unfold nlit, half, two. cbn. lra. Qed.

Theorem src_sparse_dice_eq :
  src_sparse_dice RNum U I (zi RNum a) (vals RNum a) (zi RNum b) (vals RNum b) = sparse_dice RNum a b.
Proof.
  unfold src_sparse_dice, sparse_dice, n_neq. cbv zeta. rewrite HU, HI, nlit_two.
  change (eqb RNum (of_Z RNum ?x) (zero RNum)) with (Reqb (IZR x) 0). rewrite Reqb_IZR0. reflexivity.
Qed.

Theorem src_sparse_sokal_sneath_eq :
  src_sparse_sokal_sneath RNum U I (zi RNum a) (vals RNum a) (zi RNum b) (vals RNum b) = sparse_sokal_sneath RNum a b.
Proof.
  unfold src_sparse_sokal_sneath, sparse_sokal_sneath, n_neq. cbv zeta. rewrite HU, HI, nlit_half'.
  change (eqb RNum (of_Z RNum ?x) (zero RNum)) with (Reqb (IZR x) 0). rewrite Reqb_IZR0. reflexivity.
Qed.
End Reals.

(* ---- the hypotheses are satisfiable for every pair of rows: a buffer of ind1.shape[0] + ind2.shape[0] entries is
   always long enough (e.g. the concatenation), and the model's own merges have exactly the lengths n_union / n_inter *)
Lemma union_length_le (x y : list nat) : length (arr_union x y) <= length x + length y.
Proof.
  revert y. induction x as [|i x IHx]; intros y; [destruct y; cbn; lia|].
  induction y as [|j y IHy]; [cbn; lia|]. cbn [arr_union length] in *.
  destruct (Nat.eqb i j); [|destruct (Nat.ltb i j)]; cbn [length].
  - specialize (IHx y). lia.
  - specialize (IHx (j :: y)). cbn [length] in IHx. lia.
  - lia.
Qed.

Theorem src_sparse_sum_concat (N : Num) (a b : M_sparse.svec N) :
  src_sparse_sum N (@app Z) (zi N a) (vals N a) (zi N b) (vals N b)
  = ((zi N (sparse_sum N a b), vals N (sparse_sum N a b)), true).
Proof.
  apply src_sparse_sum_eq. rewrite app_length, !zi_length.
  pose proof (sparse_sum_room N a b). pose proof (union_length_le (inds N a) (inds N b)).
  unfold inds in *. rewrite !map_length in *. lia.
Qed.

Theorem src_sparse_jaccard_model (N : Num) (a b : M_sparse.svec N) :
  src_sparse_jaccard N (fun x y => map Z.of_nat (arr_union (map Z.to_nat x) (map Z.to_nat y)))
                       (fun x y => map Z.of_nat (arr_intersect (map Z.to_nat x) (map Z.to_nat y)))
                       (zi N a) (vals N a) (zi N b) (vals N b) = sparse_jaccard N a b.
Proof.
  assert (E : forall l : list nat, map Z.to_nat (map Z.of_nat l) = l).
  { induction l as [|k l IH]; cbn; [reflexivity|]. rewrite Nat2Z.id, IH. reflexivity. }
  apply src_sparse_jaccard_eq; unfold zi, zlen, n_union, n_inter; rewrite !E, map_length; reflexivity.
Qed.

(* Capstone corollaries for C01: statements of prop/P_C01.v restated about the TRANSLATED SOURCE of smooth_knn_dist and
   compute_membership_strengths (regenerated from the current umap/umap_.py on every run), through the link theorems of L_knn.v. *)
From Coq Require Import List ZArith Bool Reals Lra Lia.
From UV Require Import Num PyPrim PyPrimLemmas M_smooth T_smooth T_smooth_conv P_C01.
From UVS Require Import Src_umap_knn L_knn.
Import ListNotations.
Local Open Scope R_scope.

Notation tol := (src_const_SMOOTH_K_TOLERANCE RNum).
Notation kscale := (src_const_MIN_K_DIST_SCALE RNum).

(* the bandwidth the source text computes for every row of every finite table: at least 2^-n_iter (positive), explicitly
   bounded (finite), never below the floor kscale * (mean finite distance of the row, or of the table when rho = 0) *)
Corollary C01_src_bandwidth (pinf : R) (distances : list (list R)) (k bandwidth : R) (n_iter index kk : nat) (interp : R) :
  Forall (fun r => length r = kk) distances ->
  Forall (Forall (fun d => d < pinf)) distances ->
  2 ^ n_iter < pinf ->
  0 <= interp < 1 ->
  forall i, (i < length distances)%nat ->
  let res := src_smooth_knn_dist RNum pinf distances k (Z.of_nat n_iter) (IZR (Z.of_nat index) + interp) bandwidth in
  let sigma := nth i (fst res) 0 in
  let rho := nth i (snd res) 0 in
  let fl := kscale * (if Rltb 0 rho then mean RNum (nth i distances []) else mean RNum (concat distances)) in
  / 2 ^ n_iter <= sigma /\ sigma <= Rmax (2 ^ n_iter) fl /\ fl <= sigma.
Proof.
  intros H1 H2 H3 H4 i Hi.
  pose proof (src_smooth_knn_dist_row pinf distances k bandwidth n_iter index kk interp H1 H2 H3 H4) as Rw.
  destruct (src_smooth_knn_dist RNum pinf distances k (Z.of_nat n_iter) (IZR (Z.of_nat index) + interp) bandwidth) as [result rho].
  destruct Rw as (_ & _ & Rw). specialize (Rw i Hi).
  pose proof (C01_bandwidth tol kscale n_iter (nlog2 RNum k * bandwidth) (mean RNum (concat distances)) (nth i distances []) 0 index interp) as B.
  destruct (smooth_row RNum tol kscale n_iter (nlog2 RNum k * bandwidth) (mean RNum (concat distances)) (nth i distances []) 0 index interp)
    as [[sigma rho_i] brk].
  destruct Rw as [Es Er]. cbv zeta. cbn [fst snd]. rewrite Es, Er.
  destruct B as (B1 & B2 & B3 & _). repeat split; assumption.
Qed.

(* the strengths the source text stores: for every table position whose neighbour index is a real, different sample and whose
   bandwidth is positive, the stored value is in (0,1], equals 1 exactly when the distance is within rho, and is
   non-increasing in the distance (compared with any other such position of the same row) *)
Corollary C01_src_strengths (idxs : list (list Z)) (dists : list (list R)) (sigmas rhos : list R) (n k : nat) :
  length idxs = n -> Forall (fun r => length r = k) idxs ->
  let vals := snd (fst (src_compute_membership_strengths RNum idxs dists sigmas rhos)) in
  forall i j, (i < n)%nat -> (j < k)%nat ->
    let idx := nth j (nth i idxs []) 0%Z in
    let d := nth j (nth i dists []) 0 in
    idx <> (-1)%Z -> idx <> Z.of_nat i -> 0 < nth i sigmas 0 ->
    0 < nth (i * k + j) vals 0 <= 1 /\
    (nth (i * k + j) vals 0 = 1 <-> d <= nth i rhos 0) /\
    (forall j', (j' < k)%nat -> nth j' (nth i idxs []) 0%Z <> (-1)%Z -> nth j' (nth i idxs []) 0%Z <> Z.of_nat i ->
                d <= nth j' (nth i dists []) 0 -> nth (i * k + j') vals 0 <= nth (i * k + j) vals 0).
Proof.
  intros Ln Hrect.
  pose proof (src_compute_membership_strengths_nth RNum idxs dists sigmas rhos n k Ln Hrect) as Hn.
  destruct (src_compute_membership_strengths RNum idxs dists sigmas rhos) as [[[rows cols] vals] u].
  destruct Hn as (_ & _ & _ & Hn). cbv zeta. cbn [fst snd].
  intros i j Hi Hj Hm1 Hself Hs.
  assert (V : forall j', (j' < k)%nat -> nth j' (nth i idxs []) 0%Z <> (-1)%Z -> nth j' (nth i idxs []) 0%Z <> Z.of_nat i ->
              nth (i * k + j') vals 0 = mem RNum (nth j' (nth i dists []) 0) (nth i rhos 0) (nth i sigmas 0)).
  { intros j' Hj' A B. specialize (Hn i j' Hi Hj'). cbv zeta in Hn.
    destruct (Z.eqb_spec (nth j' (nth i idxs []) 0%Z) (-1)) as [E|_]; [contradiction|].
    destruct (Z.eqb_spec (nth j' (nth i idxs []) 0%Z) (Z.of_nat i)) as [E|_]; [contradiction|].
    injection Hn as _ _ Hv. exact Hv. }
  rewrite (V j Hj Hm1 Hself).
  destruct (C01_strengths (nth j (nth i dists []) 0) (nth j (nth i dists []) 0) (nth i rhos 0) (nth i sigmas 0) Hs) as (S1 & S2 & _).
  split; [exact S1|]. split; [exact S2|].
  intros j' Hj' A B Hd. rewrite (V j' Hj' A B).
  destruct (C01_strengths (nth j (nth i dists []) 0) (nth j' (nth i dists []) 0) (nth i rhos 0) (nth i sigmas 0) Hs) as (_ & _ & S3).
  apply S3. exact Hd.
Qed.

(* Link theorems for umap/layouts.py (C07): clip, rdist = the model's (model/M_sgd.v) on all inputs. *)
From Coq Require Import List ZArith Bool Reals Lra Lia.
From UV Require Import Num PyPrim PyPrimLemmas M_metrics T_link M_sgd.
From UVS Require Import Src_layouts.
Import ListNotations.
Local Open Scope R_scope.
Ltac rn := change (T RNum) with R in *.

Theorem src_clip_eq (v : R) : src_clip RNum v = clip RNum v.
Proof.
  unfold src_clip, clip, c4, c2, ngt, nlit. cbn. rn.
  replace (1 + 1 + (1 + 1)) with 4 by lra. reflexivity.
Qed.

Lemma rdist_fold (x y : list R) (r : R) :
  fold_left (fun (s : R) (ab : R * R) => s + (fst ab - snd ab) * (fst ab - snd ab)) (combine x y) r = r + rdist RNum x y.
Proof.
  revert y r; induction x as [|a x IH]; intros [|b y] r; cbn [combine fold_left rdist]; try (cbn; lra).
  rewrite IH. cbn. lra.
Qed.

Theorem src_rdist_eq (x y : list R) : length x = length y -> src_rdist RNum x y = rdist RNum x y.
Proof.
  intros L. unfold src_rdist. cbv zeta. loop2 L. cbv beta.
  (* compare the loop body up to the ring laws (tolerates a re-association of the source's arithmetic) *)
  transitivity (fold_left (fun (s : R) (ab : R * R) => s + (fst ab - snd ab) * (fst ab - snd ab)) (combine x y) 0).
  { apply fold_left_ext. intros s [a b]. cbn [fst snd add sub mul RNum]. rn. ring. }
  rewrite (rdist_fold x y). lra.
Qed.

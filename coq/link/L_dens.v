(* Link theorems for the densMAP statistics kernel of umap/layouts.py (C17):
   `_optimize_layout_euclidean_densmap_epoch_init` (layouts.py:189-219) = the model's [dens_init] (model/M_dens.v), for all
   well-formed inputs, over the reals.

   The source function is translated twice (harness/vp/link.py, module "layouts_dens"): `_shared` for calls in which
   tail_embedding IS head_embedding (fit) and `_distinct` for two arrays that do not overlap (the kernel only READS the
   embeddings, so the two differ only in where the tail row is read).

   Why over R and not over every Num: the source's `rdist` adds the squares from the left starting at 0, the model's [rdist]
   from the right, and the source's `1e-8` is [nlit 1 (-8)] where the model writes 1 / of_Z 100000000.  Everything else (the two
   `+=` on re_sum[j], re_sum[k] -- the second one re-reads the array, which matters when j = k --, the order of the edges,
   the final `log(epsilon + re_sum[i] / phi_sum[i])`) is performed in the same order by both.

   SEQUENTIAL MEANING ONLY.  The accumulation loop is a `numba.prange` whose iterations are NOT independent: edges that share
   a vertex all add into the same cell of re_sum / phi_sum.  The generated definition (and therefore these theorems) describe
   the loop executed in index order, which is what the kernel compiled with parallel=False does (optimize_layout_euclidean
   compiles it with `parallel=parallel`, and umap passes parallel=True only when random_state is None).  The parallel=True
   compilation is NOT described: there the `+=` on the same cell from different iterations is a data race (numba does not
   turn array-element updates into reductions), and even without lost updates the summation order would differ.

   `re_sum.fill(0)`: every entry replaced by 0 ([vmap1 (fun _ => 0)], header of py2coq.py), so the result does not depend on
   the previous contents of re_sum / phi_sum, only on their lengths (= n_vertices, hypotheses of the theorems). *)
From Coq Require Import List ZArith Bool Reals Lra Lia.
From UV Require Import Num PyPrim PyPrimLemmas T_link T_link_arr T_link_mat M_sgd M_dens.
From UVS Require Import Src_layouts_dens.
Import ListNotations.

(* ---- named loops (generic Num) ---------------------------------------------------------------------------------------- *)
Section Named.
Context (N : Num).

(* lines 201-215 for edge i; T is the array the tail row is read from (head_embedding itself in the shared translation) *)
Definition init_body (H T : list (list N)) (head tail : list Z) (a b : N) (i : Z) (st : list N * list N) : list N * list N :=
  let '(re_sum, phi_sum) := st in
  let j := inth head i in
  let k := inth tail i in
  let dist_squared := src_rdist N (mrow N H j) (mrow N T k) in
  let phi := div N (one N) (add N (one N) (mul N a (npow N dist_squared b))) in
  let re_sum := vset N re_sum j (add N (vnth N re_sum j) (mul N phi dist_squared)) in
  let re_sum := vset N re_sum k (add N (vnth N re_sum k) (mul N phi dist_squared)) in
  let phi_sum := vset N phi_sum j (add N (vnth N phi_sum j) phi) in
  let phi_sum := vset N phi_sum k (add N (vnth N phi_sum k) phi) in
  (re_sum, phi_sum).

(* lines 217-219 *)
Definition log_body (phi_sum : list N) (i : Z) (re_sum : list N) : list N :=
  vset N re_sum i (nln N (add N (nlit N 1 (-8)) (div N (vnth N re_sum i) (vnth N phi_sum i)))).

Definition init_of (H T : list (list N)) (head tail : list Z) (a b : N) (re_sum phi_sum : list N) : list N * list N :=
  let '(re, phi) := for_range 0 (zlen head) (init_body H T head tail a b)
                      (vmap1 N (fun _ => zero N) re_sum, vmap1 N (fun _ => zero N) phi_sum) in
  (for_range 0 (zlen re) (log_body phi) re, phi).

Lemma mrow_nat' (H : list (list N)) (j : nat) : mrow N H (Z.of_nat j) = nth j H [].
Proof. apply znth_of_nat. Qed.

(* the final loop: entry i of re becomes g re[i] phi[i] *)
Lemma log_loop (g : N -> N -> N) : forall (re phi p q : list N), length p = length q -> length re = length phi ->
  fold_left (fun r k => set_nth_nat r k (g (nth k r (zero N)) (nth k (q ++ phi) (zero N)))) (seq (length p) (length re)) (p ++ re)
  = p ++ map2 N g re phi.
Proof.
  induction re as [|x re IH]; intros [|f phi] p q Lp L; try discriminate; [reflexivity|].
  cbn [length seq fold_left map2].
  rewrite app_nth2 by lia. rewrite Nat.sub_diag. cbn [nth].
  rewrite (app_nth2 q) by lia. replace (length p - length q) with 0 by lia. cbn [nth].
  rewrite set_nth_nat_app by discriminate. cbn [tl].
  change (p ++ g x f :: re) with (p ++ [g x f] ++ re). rewrite app_assoc.
  replace (Datatypes.S (length p)) with (length (p ++ [g x f])) by (rewrite app_length; cbn; lia).
  replace (q ++ f :: phi) with ((q ++ [f]) ++ phi) by (rewrite <- app_assoc; reflexivity).
  rewrite IH; [rewrite <- app_assoc; reflexivity|rewrite !app_length; cbn; lia|cbn in L; lia].
Qed.

Lemma log_loop_eq (re phi : list N) : length re = length phi ->
  for_range 0 (zlen re) (log_body phi) re =
  map2 N (fun r p => nln N (add N (nlit N 1 (-8)) (div N r p))) re phi.
Proof.
  intros L. unfold zlen. rewrite for_range_0.
  pose proof (log_loop (fun r p => nln N (add N (nlit N 1 (-8)) (div N r p))) re phi [] [] eq_refl L) as P.
  cbn [app length] in P. rewrite <- P. apply fold_left_ext. intros r k. unfold log_body.
  rewrite vset_of_nat, !vnth_of_nat. reflexivity.
Qed.
End Named.

Theorem src_dens_init_shared_unfold (N : Num) H head tail a b re_sum phi_sum :
  src__optimize_layout_euclidean_densmap_epoch_init_shared N H head tail a b re_sum phi_sum =
  init_of N H H head tail a b re_sum phi_sum.
Proof. reflexivity. Qed.

Theorem src_dens_init_distinct_unfold (N : Num) H Tl head tail a b re_sum phi_sum :
  src__optimize_layout_euclidean_densmap_epoch_init_distinct N H Tl head tail a b re_sum phi_sum =
  init_of N H Tl head tail a b re_sum phi_sum.
Proof. reflexivity. Qed.

(* ---- over the reals -------------------------------------------------------------------------------------------------- *)
Local Open Scope R_scope.
Ltac rn := change (T RNum) with R in *.

Lemma rdist_fold (x y : list R) (r : R) :
  fold_left (fun (s : R) (ab : R * R) => s + (fst ab - snd ab) * (fst ab - snd ab)) (combine x y) r = r + rdist RNum x y.
Proof.
  revert y r; induction x as [|a x IH]; intros [|b y] r; cbn [combine fold_left rdist]; try (cbn; lra).
  rewrite IH. cbn. lra.
Qed.

(* rdist as translated into THIS module's generated file (the same source function as Src_layouts.src_rdist) *)
Theorem src_rdist_dens_eq (x y : list R) : length x = length y -> src_rdist RNum x y = rdist RNum x y.
Proof.
  intros L. unfold src_rdist. cbv zeta. loop2 L. cbv beta.
  transitivity (fold_left (fun (s : R) (ab : R * R) => s + (fst ab - snd ab) * (fst ab - snd ab)) (combine x y) 0).
  { apply fold_left_ext. intros s [a b]. cbn [fst snd add sub mul RNum]. rn. ring. }
  rewrite (rdist_fold x y). lra.
Qed.

(* edge i of the model = (head[i], tail[i], eps[i], epns[i]); the statistics only look at the two vertices *)
Definition edge_at (head tail : list Z) (eps epns : list R) (i : nat) : edge RNum :=
  mkEdge RNum (Z.to_nat (nth i head 0%Z)) (Z.to_nat (nth i tail 0%Z)) (nth i eps 0%R) (nth i epns 0%R).
Definition dens_edges (head tail : list Z) (eps epns : list R) : list (edge RNum) :=
  map (edge_at head tail eps epns) (seq 0 (length head)).

Lemma eps8_lit : nlit RNum 1 (-8) = eps8 RNum.
Proof. unfold nlit, eps8. cbn. rn. lra. Qed.

Lemma dens_acc_length (a b : R) (e : emb RNum) : forall es re phi,
  length (fst (dens_acc RNum a b e es re phi)) = length re /\ length (snd (dens_acc RNum a b e es re phi)) = length phi.
Proof.
  induction es as [|ed es IH]; intros re phi; [split; reflexivity|]. cbn [dens_acc]. cbv zeta.
  destruct (IH (acc2 RNum re (e_head RNum ed) (e_tail RNum ed)
                  (1 / (1 + a * npow RNum (rdist RNum (nth (e_head RNum ed) (eH RNum e) []) (get_tail RNum e (e_tail RNum ed))) b) *
                   rdist RNum (nth (e_head RNum ed) (eH RNum e) []) (get_tail RNum e (e_tail RNum ed))))
               (acc2 RNum phi (e_head RNum ed) (e_tail RNum ed)
                  (1 / (1 + a * npow RNum (rdist RNum (nth (e_head RNum ed) (eH RNum e) []) (get_tail RNum e (e_tail RNum ed))) b))))
    as [A B].
  unfold acc2 in A, B. change (@upd (T RNum)) with (@set_nth_nat (T RNum)) in A, B. rewrite !set_nth_nat_length in A, B.
  split; [exact A|exact B].
Qed.

Section InitR.
Context (a b : R) (D : nat) (H Tl : list (list R)) (e : emb RNum) (head tail : list Z) (eps epns : list R).
Hypothesis (EH : eH RNum e = H) (ET : forall k, (k < length Tl)%nat -> get_tail RNum e k = nth k Tl []).
Hypothesis (HR : rect D H) (HRT : rect D Tl).
Hypothesis (Hidx : forall i, (i < length head)%nat -> (0 <= nth i head 0 < Z.of_nat (length H))%Z /\ (0 <= nth i tail 0 < Z.of_nat (length Tl))%Z).

(* one edge *)
Lemma init_body_eq (i : nat) (re phi : list R) : (i < length head)%nat ->
  init_body RNum H Tl head tail a b (Z.of_nat i) (re, phi) =
  dens_acc RNum a b e [edge_at head tail eps epns i] re phi.
Proof.
  intros Hi. destruct (Hidx i Hi) as [Hh Ht].
  unfold init_body. cbv zeta. rewrite !inth_of_nat.
  set (jn := Z.to_nat (nth i head 0%Z)). set (kn := Z.to_nat (nth i tail 0%Z)).
  replace (nth i head 0%Z) with (Z.of_nat jn) by (unfold jn; lia).
  replace (nth i tail 0%Z) with (Z.of_nat kn) by (unfold kn; lia).
  rewrite !mrow_nat', !vset_of_nat, !vnth_of_nat.
  assert (Lj : length (nth jn H []) = D) by (apply (rect_nth D _ jn HR); unfold jn; lia).
  assert (Lk : length (nth kn Tl []) = D) by (apply (rect_nth D _ kn HRT); unfold kn; lia).
  rn. rewrite src_rdist_dens_eq by lia.
  cbn [dens_acc]. cbv zeta. unfold edge_at. cbn [e_head e_tail]. fold jn kn.
  rewrite EH, ET by (unfold kn; lia). unfold acc2. cbv zeta.
  change (@upd (T RNum)) with (@set_nth_nat (T RNum)). reflexivity.
Qed.

Lemma dens_acc_app : forall es1 es2 re phi,
  dens_acc RNum a b e (es1 ++ es2) re phi =
  dens_acc RNum a b e es2 (fst (dens_acc RNum a b e es1 re phi)) (snd (dens_acc RNum a b e es1 re phi)).
Proof. induction es1 as [|ed es1 IH]; intros es2 re phi; [reflexivity|]. cbn [app dens_acc]. cbv zeta. apply IH. Qed.

(* the loop over the edges *)
Lemma init_loop : forall (m i0 : nat) (re phi : list R), (i0 + m <= length head)%nat ->
  fold_left (fun st k => init_body RNum H Tl head tail a b (Z.of_nat k) st) (seq i0 m) (re, phi) =
  dens_acc RNum a b e (map (edge_at head tail eps epns) (seq i0 m)) re phi.
Proof.
  induction m as [|m IH]; intros i0 re phi Hm; [reflexivity|].
  cbn [seq map fold_left]. rewrite init_body_eq by lia.
  change (edge_at head tail eps epns i0 :: map (edge_at head tail eps epns) (seq (S i0) m))
    with ([edge_at head tail eps epns i0] ++ map (edge_at head tail eps epns) (seq (S i0) m)).
  rewrite dens_acc_app. rewrite <- IH by lia. rewrite <- surjective_pairing. reflexivity.
Qed.

Lemma init_of_eq (re0 phi0 : list R) (nvert : nat) : length re0 = nvert -> length phi0 = nvert ->
  init_of RNum H Tl head tail a b re0 phi0 = dens_init RNum a b e (dens_edges head tail eps epns) nvert.
Proof.
  intros L1 L2. unfold init_of, dens_init, dens_edges, vmap1. cbv zeta.
  rewrite <- !repeat_map_const. rn. rewrite L1, L2. unfold zlen at 1. rewrite for_range_0.
  rewrite (init_loop (length head) 0 _ _ (le_n _)).
  destruct (dens_acc_length a b e (map (edge_at head tail eps epns) (seq 0 (length head))) (repeat 0 nvert) (repeat 0 nvert)) as [A B].
  change (zero RNum) with 0. rn.
  destruct (dens_acc RNum a b e _ (repeat 0 nvert) (repeat 0 nvert)) as [re phi]. cbn [fst snd] in A, B.
  pose proof (log_loop_eq RNum re phi) as Q. rn. rewrite Q by (rewrite A, B; reflexivity). rewrite eps8_lit. reflexivity.
Qed.
End InitR.

(* THE LINK THEOREM, fit case (tail_embedding is head_embedding): for a D-column embedding H, head / tail vertex indices within
   range and statistics arrays of length nvert (their previous contents are irrelevant), the translated kernel returns exactly
   the model's (log-radii, phi sums) for the edge list (head[i], tail[i], ..) -- whatever per-edge clocks eps / epns the edges carry. *)
Theorem src_dens_init_eq (H : list (list R)) (head tail : list Z) (a b : R) (re0 phi0 : list R) (D nvert : nat) (eps epns : list R) :
  rect D H -> length re0 = nvert -> length phi0 = nvert ->
  (forall i, (i < length head)%nat -> (0 <= nth i head 0 < Z.of_nat (length H))%Z /\ (0 <= nth i tail 0 < Z.of_nat (length H))%Z) ->
  src__optimize_layout_euclidean_densmap_epoch_init_shared RNum H head tail a b re0 phi0 =
  dens_init RNum a b (mkEmb RNum H [] true) (dens_edges head tail eps epns) nvert.
Proof.
  intros HR L1 L2 Hidx. rewrite src_dens_init_shared_unfold.
  apply (init_of_eq a b D H H (mkEmb RNum H [] true) head tail eps epns eq_refl); auto.
Qed.

(* the same for two arrays that do not overlap (the kernel does not store into either) *)
Theorem src_dens_init_distinct_eq (H Tl : list (list R)) (head tail : list Z) (a b : R) (re0 phi0 : list R) (D nvert : nat) (eps epns : list R) :
  rect D H -> rect D Tl -> length re0 = nvert -> length phi0 = nvert ->
  (forall i, (i < length head)%nat -> (0 <= nth i head 0 < Z.of_nat (length H))%Z /\ (0 <= nth i tail 0 < Z.of_nat (length Tl))%Z) ->
  src__optimize_layout_euclidean_densmap_epoch_init_distinct RNum H Tl head tail a b re0 phi0 =
  dens_init RNum a b (mkEmb RNum H Tl false) (dens_edges head tail eps epns) nvert.
Proof.
  intros HR HRT L1 L2 Hidx. rewrite src_dens_init_distinct_unfold.
  apply (init_of_eq a b D H Tl (mkEmb RNum H Tl false) head tail eps epns eq_refl); auto.
Qed.

(* Link theorems for sparse_ll_dirichlet of umap/sparse.py (C13) and the module's own copies of the scalar helpers
   approx_log_Gamma / log_beta / log_single_beta (translated from the CURRENT sparse.py into UVS.Src_sparse, not taken from
   distances.py): the generated text computes, for all rows, the model [sparse_ll_dirichlet] of model/M_sparse_lld.v, with
   ok = true under the budget `ind1.shape[0] + ind2.shape[0]` of the `while` merge.

   Over R only: the helpers write 0.5, 0.125, -2.0 * x where the models of model/M_metrics.v write 1/(1+1), 1/8, -(2*x) (same
   reason as for the dense ll_dirichlet in L_distances.v).  `int(a)` is [ntrunc] in the generated text and the [xtrunc] field of
   the model's [Ext] record: hypothesis [Htr] (they are the same function for [RExt], see [src_sparse_ll_dirichlet_RExt], and for
   the binary64 records).  No sortedness / no-stored-zero hypothesis: the loop and [lld_merge] do the same on every pair of rows.
   `for d1 in data1:` is [for_each] (PyPrim.v).  The C13 statement itself (sparse_ll_dirichlet on canonical rows = the dense
   ll_dirichlet on the densified vectors, on the class where it is true) is thm/T_sparse_lld.v / P_C13.C13_ll_dirichlet; capstone
   between the two translated sources: K_sparse.C13_src_ll_dirichlet. *)
From Coq Require Import List ZArith Bool Arith Lia Reals Lra.
From UV Require Import Num PyPrim PyPrimLemmas M_metrics T_link M_sparse M_sparse_lld T_metrics_real.
From UVS Require Import Src_sparse L_distances L_sparse.
Import ListNotations.
Local Open Scope R_scope.

Ltac rn := change (T RNum) with R in *.
Ltac rops := cbn [add sub mul div neg eqb ltb of_Z zero one nln nsqrt ntrunc RNum RPy ppi] in *; rn.
Ltac split_ifs := repeat match goal with |- context[if ?b then _ else _] => destruct b end.
Notation svec := (M_sparse.svec RNum).

Section SparseLLD.
Context (E : Ext RNum) (Htr : forall a, xtrunc RNum E a = ntrunc RNum a).

Theorem src_approx_log_Gamma_eq (x : R) : src_approx_log_Gamma RNum (RPy E) x = approx_log_gamma RNum E x.
Proof.
  unfold src_approx_log_Gamma, approx_log_gamma, nhalf, n2, c12, nZ. rewrite nlit_2, nlit_half, nlit_12. rops.
  destruct (Reqb x 1); [reflexivity|].
  replace (1 / (1 + 1)) with (/ 2) by lra. replace (1 + 1) with 2 by lra. reflexivity.
Qed.

Theorem src_log_single_beta_eq (x : R) : src_log_single_beta RNum (RPy E) x = log_single_beta RNum E x.
Proof.
  unfold src_log_single_beta, log_single_beta, nhalf, n2, c0125, nZ. rewrite nlit_2, nlit_half, nlit_0125. rops.
  replace (1 / (1 + 1)) with (/ 2) by lra. replace (1 + 1) with 2 by lra.
  replace (- (2) * x) with (- (2 * x)) by lra. reflexivity.
Qed.

Theorem src_log_beta_eq (x y : R) : src_log_beta RNum (RPy E) x y = log_beta RNum E x y.
Proof.
  unfold src_log_beta, log_beta, c5, nZ, PyPrim.nmin, PyPrim.nmax. cbv zeta.
  rewrite !src_approx_log_Gamma_eq, Htr.
  destruct (ltb RNum _ (of_Z RNum 5)); [|reflexivity].
  unfold for_range.
  replace (Z.to_nat (ntrunc RNum (if ltb RNum y x then y else x) - 1)) with (Z.to_nat (ntrunc RNum (if ltb RNum y x then y else x)) - 1)%nat by lia.
  rewrite <- seq_shift, fold_left_map. apply fold_left_ext. intros s k.
  replace (1 + Z.of_nat k)%Z with (Z.of_nat (Datatypes.S k)) by lia. reflexivity.
Qed.

(* ---- the merge loop 550-562 --------------------------------------------------------------------------------------- *)
Definition lld_c (ia ib : list Z) (s : R * Z * Z) : bool :=
  let '(log_b, i1, i2) := s in andb (i1 <? zlen ia)%Z (i2 <? zlen ib)%Z.
Definition lld_f (ia : list Z) (da : list R) (ib : list Z) (db : list R) (s : R * Z * Z) : R * Z * Z :=
  let '(log_b, i1, i2) := s in
  let j1 := inth ia i1 in let j2 := inth ib i2 in
  if (j1 =? j2)%Z then
    ((if nne RNum (mul RNum (vnth RNum da i1) (vnth RNum db i2)) (zero RNum)
      then add RNum log_b (log_beta RNum E (vnth RNum da i1) (vnth RNum db i2)) else log_b),
     (i1 + 1)%Z, (i2 + 1)%Z)
  else if (j1 <? j2)%Z then (log_b, (i1 + 1)%Z, i2)
  else (log_b, i1, (i2 + 1)%Z).

Lemma lld_nil_l (b : svec) acc : lld_merge RNum E [] b acc = acc.
Proof. destruct b; reflexivity. Qed.
Lemma lld_nil_r (a : svec) acc : lld_merge RNum E a [] acc = acc.
Proof. destruct a as [|[i u] a]; reflexivity. Qed.

Lemma lld_main (A B : svec) : forall (a p b q : svec) (acc : R) n,
  A = p ++ a -> B = q ++ b -> (length a + length b <= n)%nat ->
  exists i1 i2,
    while_fuel n (lld_c (zi RNum A) (zi RNum B)) (lld_f (zi RNum A) (vals RNum A) (zi RNum B) (vals RNum B))
      (acc, Z.of_nat (length p), Z.of_nat (length q)) = ((lld_merge RNum E a b acc, i1, i2), true).
Proof.
  induction a as [|[i u] a IHa]; intros p b.
  - intros q acc n HA HB Hn. rewrite app_nil_r in HA. exists (Z.of_nat (length p)), (Z.of_nat (length q)).
    rewrite lld_nil_l.
    apply while_fuel_false. unfold lld_c. rewrite HA, zlen_zi, Z.ltb_irrefl. reflexivity.
  - induction b as [|[j v] b IHb]; intros q acc n HA HB Hn.
    + rewrite app_nil_r in HB. exists (Z.of_nat (length p)), (Z.of_nat (length q)). rewrite lld_nil_r.
      apply while_fuel_false. unfold lld_c. rewrite HB, (zlen_zi _ q), Z.ltb_irrefl. apply andb_false_r.
    + destruct n as [|n]; [cbn in Hn; lia|]. cbn [length] in Hn.
      rewrite while_fuel_step.
      2:{ unfold lld_c. rewrite HA, HB, !zlen_zi, !app_length. cbn [length]. apply andb_true_intro. split; apply Z.ltb_lt; lia. }
      assert (Hf : lld_f (zi RNum A) (vals RNum A) (zi RNum B) (vals RNum B) (acc, Z.of_nat (length p), Z.of_nat (length q)) =
                   if Nat.eqb i j then
                     ((if nz RNum (u * v) then acc + log_beta RNum E u v else acc),
                      Z.of_nat (length (p ++ [(i, u)])), Z.of_nat (length (q ++ [(j, v)])))
                   else if Nat.ltb i j then (acc, Z.of_nat (length (p ++ [(i, u)])), Z.of_nat (length q))
                   else (acc, Z.of_nat (length p), Z.of_nat (length (q ++ [(j, v)])))).
      { unfold lld_f. cbv zeta. rewrite HA, HB, !inth_zi_mid, !vnth_vals_mid, Z_eqb_of_nat, Z_ltb_of_nat, !Z_of_nat_succ.
        rewrite !app_length. cbn [length]. rewrite !Nat.add_1_r. reflexivity. }
      rewrite Hf. clear Hf.
      change (lld_merge RNum E ((i, u) :: a) ((j, v) :: b) acc) with
        (if Nat.eqb i j then lld_merge RNum E a b (if nz RNum (u * v) then acc + log_beta RNum E u v else acc)
         else if Nat.ltb i j then lld_merge RNum E a ((j, v) :: b) acc
         else lld_merge RNum E ((i, u) :: a) b acc).
      destruct (Nat.eqb i j); [|destruct (Nat.ltb i j)].
      * apply IHa; try (rewrite <- app_assoc; assumption); lia.
      * apply IHa; try assumption; try (rewrite <- app_assoc; assumption); cbn [length]; lia.
      * apply IHb; try assumption; try (rewrite <- app_assoc; assumption); cbn [length]; lia.
Qed.

Theorem src_sparse_ll_dirichlet_eq (a b : svec) :
  src_sparse_ll_dirichlet RNum (RPy E) (zi RNum a) (vals RNum a) (zi RNum b) (vals RNum b)
  = (sparse_ll_dirichlet RNum E a b, true).
Proof.
  unfold src_sparse_ll_dirichlet, sparse_ll_dirichlet, lld_far, clamp0, PyPrim.nmax, vsum_py, vsum. cbv zeta.
  destruct (_ && _); [reflexivity|]. destruct (_ || _); [reflexivity|].
  rewrite (while_fuel_ext _ (lld_c (zi RNum a) (zi RNum b)) _ (lld_f (zi RNum a) (vals RNum a) (zi RNum b) (vals RNum b)));
    [| intros [[lb i1] i2]; reflexivity
     | intros [[lb i1] i2]; unfold lld_f; cbv zeta; rewrite src_log_beta_eq; split_ifs; reflexivity ].
  destruct (lld_main a b a [] b [] (zero RNum) _ eq_refl eq_refl (fuel_ok RNum a b)) as (i1 & i2 & Hr).
  change (Z.of_nat (length (@nil (nat * RNum)))) with 0%Z in Hr. rn. rewrite Hr. clear Hr. cbv beta iota.
  rewrite !(for_each_acc RNum (src_log_single_beta RNum (RPy E))).
  rewrite !(map_ext _ _ src_log_single_beta_eq), !src_log_single_beta_eq, !src_log_beta_eq. reflexivity.
Qed.
End SparseLLD.

Theorem src_sparse_ll_dirichlet_RExt (a b : svec) :
  src_sparse_ll_dirichlet RNum (RPy RExt) (zi RNum a) (vals RNum a) (zi RNum b) (vals RNum b)
  = (sparse_ll_dirichlet RNum RExt a b, true).
Proof. apply src_sparse_ll_dirichlet_eq. intros x. reflexivity. Qed.

(* Link theorem for init_update (umap_.py, C11): the Gallina text generated from the CURRENT source ([src_init_update],
   module UVS.Src_umap_update) equals the model [init_update] of model/M_update.v, over every [Num] (source and model perform
   the same additions and the same division in the same order, so the equality also holds in binary64), for every rectangular
   table, every rectangular index array with as many rows as the table, and every 0 <= n_original_samples <= number of rows.

   The source updates the table IN PLACE and reads rows of the array it is writing (`current_init[indices[i, j], d]`); the
   model rebuilds every row from the INPUT table.  The theorem is the proof that these agree: the outer loop has the
   invariant "array = rows 0..i-1 as they will be returned ++ rows i.. as they came in" ([outer_inv]); a read
   `current_init[k, d]` happens only for 0 <= k < n_original_samples <= i, i.e. inside the first n_original_samples rows of
   the prefix, which no iteration writes and which therefore still are the rows of the input table ([jloop]). *)
From Coq Require Import List ZArith Bool Lia.
From UV Require Import Num PyPrim PyPrimLemmas T_link T_link_arr T_link_mat M_update.
From UVS Require Import Src_umap_update.
Import ListNotations.

Section Generic.
Context (N : Num).

(* ---- the loops of the translated text, named ---- *)
Definition dloop_add (A : list (list N)) (i k : Z) : list (list N) :=
  for_range 0%Z (zlen (mrow N A 0)) (fun d A => mset N A i d (add N (mnth N A i d) (mnth N A k d))) A.
Definition dloop_div (A : list (list N)) (i n : Z) : list (list N) :=
  for_range 0%Z (zlen (mrow N A 0)) (fun d A => mset N A i d (div N (mnth N A i d) (of_Z N n))) A.
Definition jstep (no i : Z) (st : Z * list (list N)) (z : Z) : Z * list (list N) :=
  if is_old no z then (fst st + 1, dloop_add (snd st) i z)%Z else st.
Definition ibody (no : Z) (indices : list (list Z)) (i : Z) (A : list (list N)) : list (list N) :=
  let '(n, A') := for_range 0%Z (zlen (imrow indices 0)) (fun j st => jstep no i st (imnth indices i j)) (0%Z, A) in
  if (0 <? n)%Z then dloop_div A' i n else A'.

Lemma src_init_update_loops (tbl : list (list N)) (no : Z) (indices : list (list Z)) :
  src_init_update N tbl no indices = for_range no (zlen indices) (ibody no indices) tbl.
Proof.
  unfold src_init_update. apply for_range_ext. intros i A. unfold ibody. cbv zeta.
  rewrite (for_range_ext 0 (zlen (imrow indices 0)) _ (fun j st => jstep no i st (imnth indices i j))).
  - destruct (for_range _ _ _ _) as [n A']. destruct (0 <? n)%Z; reflexivity.
  - intros j [n A']. unfold jstep, is_old, dloop_add. cbn [fst snd]. destruct (andb _ _); reflexivity.
Qed.

(* ---- rows ---- *)
Lemma vadd_zip (a b : list N) : vadd N a b = map (fun ab => add N (fst ab) (snd ab)) (combine a b).
Proof. revert b; induction a as [|x a IH]; intros [|y b]; try reflexivity. cbn [vadd combine map fst snd]. f_equal. apply IH. Qed.

Lemma vadd_length (a b : list N) : length b = length a -> length (vadd N a b) = length a.
Proof. revert b; induction a as [|x a IH]; intros [|y b] L; try discriminate; [reflexivity|]. cbn [vadd length]. f_equal. apply IH. cbn in L; lia. Qed.

(* `for d: A[i, d] += A[k, d]` with k a row of the prefix *)
Lemma dloop_add_step (D : nat) (P S : list (list N)) (r : list N) (i k : nat) :
  length P = i -> k < i -> rect D (P ++ r :: S) ->
  dloop_add (P ++ r :: S) (Z.of_nat i) (Z.of_nat k) = P ++ vadd N r (nth k P []) :: S.
Proof.
  intros Hi Hk HR. unfold dloop_add.
  rewrite (mrow0_len N D) by (try exact HR; destruct P; discriminate).
  pose proof (rect_mid_len D P S r HR) as Lr.
  assert (Lo : length (nth k P []) = length r).
  { rewrite Lr. apply rect_app in HR. destruct HR as [HP _]. apply (rect_nth D P k HP). lia. }
  rewrite <- Lr. rewrite vadd_zip.
  apply (for_range_row2 N P S r (nth k P []) i (add N)); [exact Hi|exact Lo|].
  intros d r'. rewrite (mnth_app_mid N P S r' i d Hi), (mnth_app_l N P (r' :: S) k d) by lia.
  apply mset_app_mid. exact Hi.
Qed.

(* `for d: A[i, d] /= n` *)
Lemma dloop_div_step (D : nat) (P S : list (list N)) (r : list N) (i : nat) (n : Z) :
  length P = i -> rect D (P ++ r :: S) ->
  dloop_div (P ++ r :: S) (Z.of_nat i) n = P ++ map (fun x => div N x (of_Z N n)) r :: S.
Proof.
  intros Hi HR. unfold dloop_div.
  rewrite (mrow0_len N D) by (try exact HR; destruct P; discriminate).
  rewrite <- (rect_mid_len D P S r HR).
  apply (for_range_row1 N P S r i (fun x => div N x (of_Z N n))); [exact Hi|].
  intros d r'. rewrite (mnth_app_mid N P S r' i d Hi). apply mset_app_mid. exact Hi.
Qed.

(* ---- one row of the result ---- *)
Section Row.
Variables (tbl : list (list N)) (no D : nat).
Hypothesis Hno : no <= length tbl.
Hypothesis Htbl : rect D tbl.

Lemma old_row_len (z : Z) : is_old (Z.of_nat no) z = true -> length (rowZ N tbl z) = D.
Proof.
  unfold is_old, rowZ. intros H. apply andb_prop in H. destruct H as [H1 H2].
  apply Z.leb_le in H1. apply Z.ltb_lt in H2. apply (rect_nth D tbl _ Htbl). lia.
Qed.

Lemma acc_old_length (idx : list Z) : forall (cur : list N) (n : nat),
  length cur = D -> length (fst (acc_old N tbl (Z.of_nat no) idx cur n)) = D.
Proof.
  induction idx as [|z idx IH]; intros cur n L; [exact L|].
  cbn [acc_old]. destruct (is_old (Z.of_nat no) z) eqn:E; [|apply IH; exact L].
  apply IH. rewrite vadd_length; [exact L|]. rewrite (old_row_len z E). symmetry. exact L.
Qed.

Lemma init_row_length (idx : list Z) (cur : list N) : length cur = D -> length (init_row N tbl (Z.of_nat no) idx cur) = D.
Proof.
  intros L. unfold init_row. pose proof (acc_old_length idx cur 0 L) as A.
  destruct (acc_old N tbl (Z.of_nat no) idx cur 0) as [s n]. cbn [fst] in A.
  destruct (Nat.eqb n 0); [exact A|]. rewrite map_length. exact A.
Qed.

(* the array while row i is being rebuilt: P = the rows before it, whose first [no] rows are the input's *)
Variables (P S : list (list N)) (i : nat).
Hypothesis HPi : length P = i.
Hypothesis Hle : no <= i.
Hypothesis Hold : forall k, k < no -> nth k P [] = nth k tbl [].

(* the loop over the columns of the index row: every read hits an old row, which is still the input's *)
Lemma jloop (idx : list Z) : forall (r : list N) (n : nat),
  rect D (P ++ r :: S) ->
  fold_left (jstep (Z.of_nat no) (Z.of_nat i)) idx (Z.of_nat n, P ++ r :: S)
  = (Z.of_nat (snd (acc_old N tbl (Z.of_nat no) idx r n)), P ++ fst (acc_old N tbl (Z.of_nat no) idx r n) :: S).
Proof.
  induction idx as [|z idx IH]; intros r n HR; [reflexivity|].
  cbn [fold_left acc_old]. unfold jstep at 2. destruct (is_old (Z.of_nat no) z) eqn:E; [|apply IH; exact HR].
  cbn [fst snd].
  assert (Hz : (0 <= z < Z.of_nat no)%Z).
  { unfold is_old in E. apply andb_prop in E. destruct E as [H1 H2]. apply Z.leb_le in H1. apply Z.ltb_lt in H2. lia. }
  rewrite <- (Z2Nat.id z) at 1 by lia.
  rewrite (dloop_add_step D P S r i (Z.to_nat z) HPi) by (try exact HR; lia).
  rewrite Hold by lia. change (nth (Z.to_nat z) tbl []) with (rowZ N tbl z).
  replace (Z.of_nat n + 1)%Z with (Z.of_nat (Datatypes.S n)) by lia.
  apply IH. apply (rect_mid D P S r _ HR).
  rewrite vadd_length; [exact (rect_mid_len D P S r HR)|].
  rewrite (old_row_len z E). symmetry. exact (rect_mid_len D P S r HR).
Qed.

Lemma ibody_step (K : nat) (indices : list (list Z)) (r : list N) :
  rect K indices -> i < length indices -> rect D (P ++ r :: S) ->
  ibody (Z.of_nat no) indices (Z.of_nat i) (P ++ r :: S) = P ++ init_row N tbl (Z.of_nat no) (nth i indices []) r :: S.
Proof.
  intros HK Hi HR. unfold ibody.
  rewrite (imrow0_len K indices HK) by (destruct indices; [cbn in Hi; lia|discriminate]).
  rewrite <- (rect_nth K indices i HK Hi). change (Z.of_nat (length (nth i indices []))) with (zlen (nth i indices [])).
  rewrite (for_range_glist1 0%Z (jstep (Z.of_nat no) (Z.of_nat i)) (nth i indices []))
    by (intros k s _; rewrite imnth_of_nat; reflexivity).
  change 0%Z with (Z.of_nat 0) at 1. rewrite (jloop (nth i indices []) r 0 HR).
  unfold init_row.
  pose proof (acc_old_length (nth i indices []) r 0 (rect_mid_len D P S r HR)) as L.
  destruct (acc_old N tbl (Z.of_nat no) (nth i indices []) r 0) as [s n]. cbn [fst snd] in *.
  destruct n as [|n].
  - reflexivity.
  - replace (0 <? Z.of_nat (Datatypes.S n))%Z with true by (symmetry; apply Z.ltb_lt; lia). cbn [Nat.eqb].
    apply (dloop_div_step D P S s i _ HPi). apply (rect_mid D P S r s HR L).
Qed.
End Row.

(* ---- the outer loop: processed rows ++ untouched rows ---- *)
Lemma outer_inv (tbl : list (list N)) (no D K : nat) (indices : list (list Z)) (O : list (list N)) (IO : list (list Z)) :
  no <= length tbl -> rect D tbl -> rect K indices ->
  length O = no -> length IO = no -> (forall k, k < no -> nth k O [] = nth k tbl []) ->
  forall (R Pd : list (list N)) (IR IPd : list (list Z)),
  indices = IO ++ IPd ++ IR -> length IPd = length Pd -> length IR = length R -> rect D (O ++ Pd ++ R) ->
  fold_left (fun A k => ibody (Z.of_nat no) indices (Z.of_nat k) A) (seq (no + length Pd) (length R)) (O ++ Pd ++ R)
  = O ++ Pd ++ map (fun p => init_row N tbl (Z.of_nat no) (snd p) (fst p)) (combine R IR).
Proof.
  intros Hno Htbl HK LO LIO Hold.
  induction R as [|r R IH]; intros Pd IR IPd Hind LP LR HR; [reflexivity|].
  destruct IR as [|ir IR]; [discriminate|].
  cbn [length seq fold_left combine map fst snd].
  assert (Hlen : length (O ++ Pd) = no + length Pd) by (rewrite app_length; lia).
  assert (Hnth : nth (no + length Pd) indices [] = ir).
  { rewrite Hind, app_assoc. replace (no + length Pd) with (length (IO ++ IPd)) by (rewrite app_length; lia). apply nth_middle. }
  assert (Hi : no + length Pd < length indices).
  { rewrite Hind, !app_length. cbn [length]. lia. }
  rewrite (app_assoc O Pd (r :: R)) in *.
  rewrite (ibody_step tbl no D Hno Htbl (O ++ Pd) R (no + length Pd) Hlen (Nat.le_add_r _ _)) with (K := K);
    [|intros k Hk; rewrite app_nth1 by lia; apply Hold; exact Hk|exact HK|exact Hi|exact HR].
  rewrite Hnth.
  set (r' := init_row N tbl (Z.of_nat no) ir r).
  assert (Lr' : length r' = D) by (apply (init_row_length tbl no D Hno Htbl); exact (rect_mid_len D _ _ r HR)).
  pose proof (IH (Pd ++ [r']) IR (IPd ++ [ir])) as A.
  rewrite !app_length in A. cbn [length] in A.
  replace (no + (length Pd + 1)) with (Datatypes.S (no + length Pd)) in A by lia.
  rewrite <- !app_assoc in A. cbn [app] in A. rewrite <- !app_assoc. apply A.
  - rewrite Hind. reflexivity.
  - lia.
  - cbn [length] in LR. lia.
  - rewrite (app_assoc O Pd). apply (rect_mid D (O ++ Pd) R r r' HR Lr').
Qed.

Theorem src_init_update_eq (tbl : list (list N)) (n_orig D K : nat) (indices : list (list Z)) :
  rect D tbl -> rect K indices -> length indices = length tbl -> n_orig <= length tbl ->
  src_init_update N tbl (Z.of_nat n_orig) indices = init_update N tbl n_orig indices.
Proof.
  intros Htbl HK Lind Hno. rewrite src_init_update_loops. unfold zlen. rewrite Lind.
  rewrite (for_range_nat n_orig (length tbl)) by exact Hno.
  unfold init_update.
  pose proof (outer_inv tbl n_orig D K indices (firstn n_orig tbl) (firstn n_orig indices) Hno Htbl HK) as A.
  specialize (A (firstn_length_le tbl Hno)). assert (Hno' : n_orig <= length indices) by lia.
  specialize (A (firstn_length_le indices Hno')).
  specialize (A (fun k Hk => nth_firstn_lt [] k n_orig tbl Hk)).
  specialize (A (skipn n_orig tbl) [] (skipn n_orig indices) []).
  cbn [app length] in A. rewrite Nat.add_0_r, !firstn_skipn in A.
  rewrite <- (skipn_length n_orig tbl). apply A; try reflexivity.
  - rewrite !skipn_length. lia.
  - exact Htbl.
Qed.
End Generic.

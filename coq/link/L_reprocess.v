(* Link theorems for reprocess_row and reset_local_metrics (umap_.py, C18): the Gallina text generated from the CURRENT source
   (module UVS.Src_umap_reprocess) against the model of model/M_combine.v ([psum], [bisect_exp], [log2k], [row_mid]), over
   the reals ([RNum]: the model writes 2 as 1 + 1 and log2 k as ln k / ln 2, the source as literals and np.log2).

   reprocess_row ([src_reprocess_row_eq], [src_reprocess_row_eqZ]): for every row of probabilities, every int k and n_iters
   (they are ordinary parameters of the generated definition; their defaults 15, 32 are the generated definitions
   [src_default_reprocess_row_k], [src_default_reprocess_row_n_iters]),
       src_reprocess_row RNum pinf row k n_iters = map (fun p => p ^ e) row,   e = bisect_exp n_iters (psum row) (log2 k) 0 None 1,
   for every [pinf] > 2^n_iters.  `hi = NPY_INFINITY` / `hi == NPY_INFINITY` are the extra argument [pinf] (see py2coq.py):
   the source's float [hi] and the model's [option] are related by [enc]; lo, mid and a finite hi stay <= 2^m after m
   iterations (mid doubles at most once per iteration, starting from 1), so `hi == pinf` holds exactly while the model's hi is
   [None].  The probabilities themselves are never compared with [pinf]: no finiteness hypothesis on the row is needed.  What
   remains tied by the per-run correspondence only: binary64 rounding (pow, the sum order is the same), rows containing
   +inf / NaN.

   reset_local_metrics ([src_reset_local_metrics_eq]): for every list of rows, [data] = their concatenation and [indptr] =
   the table of their offsets ([row_offsets_ok]: indptr has one entry more than there are rows and indptr[k] = total
   length of the first k rows -- i.e. a well-formed CSR indptr: starts at 0, non-decreasing, last = len(data); conversely
   [csr_wf_rows] shows that every such indptr is the offset table of the segments it cuts data into), the loop of slice stores
   `data[indptr[i]:indptr[i+1]] = reprocess_row(data[indptr[i]:indptr[i+1]])` returns the concatenation of the per-row
   results.  The loop lemma ([csr_for_range]) is generic in the element type and the (length-preserving) row function. *)
From Coq Require Import List ZArith Bool Lia Reals Lra.
From UV Require Import Num PyPrim PyPrimLemmas T_link T_link_fill M_supervised M_combine.
From UVS Require Import Src_umap_reprocess.
Import ListNotations.

Section Reprocess.
Local Open Scope R_scope.
Ltac rn := change (T RNum) with R in *.
Notation tol := (src_const_SMOOTH_K_TOLERANCE RNum).

Lemma nlit_2_0R : nlit RNum 2 0 = 2.
Proof. unfold nlit. cbn. lra. Qed.
Lemma twoR : M_combine.two RNum = 2.
Proof. unfold M_combine.two. cbn. lra. Qed.

(* (a) the `for n in range(n_iters)` loop with `break` is the model's [bisect_exp]; the source's [hi] (a float, +inf at the
   start) is related to the model's option by [enc] *)
Section Bisect.
Variables pinf target : R.
Variable f : R -> R.
Definition enc (hi : option R) : R := match hi with None => pinf | Some h => h end.

(* one iteration of the source's loop body on the state (live, hi, mid, lo) *)
Variable F : bool * R * R * R -> bool * R * R * R.
Hypothesis F_dead : forall hi mid lo, F (false, hi, mid, lo) = (false, hi, mid, lo).
Hypothesis F_live : forall hi mid lo, F (true, hi, mid, lo) =
  if Rltb (Rabs (f mid - target)) tol then (false, hi, mid, lo)
  else if Rltb (f mid) target then (true, mid, (lo + mid) / 2, lo)
  else (true, hi, (if Reqb hi pinf then mid * 2 else (mid + hi) / 2), mid).

Lemma iter_dead n : forall hi mid lo, iter_l n F (false, hi, mid, lo) = (false, hi, mid, lo).
Proof. induction n as [|n IH]; intros; cbn [iter_l]; [reflexivity|]. rewrite F_dead. apply IH. Qed.

Lemma pow2_le m : 2 ^ m <= 2 ^ S m.
Proof. cbn [pow]. assert (0 < 2 ^ m) by (apply pow_lt; lra). lra. Qed.

(* invariant: lo, mid, hi (when finite) are at most 2^m after m iterations; so [hi] never reaches [pinf] > 2^n_iters
   unless it still is the initial +inf *)
Lemma bisect_loop : forall n m lo hi mid,
  lo <= 2 ^ m -> mid <= 2 ^ m -> (forall h, hi = Some h -> h <= 2 ^ m) -> 2 ^ (m + n) < pinf ->
  snd (fst (iter_l n F (true, enc hi, mid, lo))) = bisect_exp RNum tol n f target lo hi mid.
Proof.
  induction n as [|n IH]; intros m lo hi mid Hlo Hmid Hhi Hp; [reflexivity|].
  cbn [iter_l bisect_exp]. rewrite F_live. rewrite twoR. cbn [ltb nabs sub add mul div one RNum]. rn.
  pose proof (pow2_le m) as P2. assert (P3 : 2 ^ S m = 2 * 2 ^ m) by reflexivity.
  assert (Hp' : 2 ^ (S m + n) < pinf) by (replace (S m + n)%nat with (m + S n)%nat by lia; exact Hp).
  destruct (Rltb (Rabs (f mid - target)) tol).
  - rewrite iter_dead. reflexivity.
  - destruct (Rltb (f mid) target).
    + change mid with (enc (Some mid)) at 1. apply (IH (S m)); [lra|lra| |exact Hp'].
      intros h [= <-]. lra.
    + destruct hi as [h|]; cbn [enc].
      * specialize (Hhi h eq_refl).
        assert (Hne : Reqb h pinf = false).
        { apply Reqb_false. assert (2 ^ m <= 2 ^ (m + S n)) by (apply Rle_pow; [lra|lia]). lra. }
        rewrite Hne. change h with (enc (Some h)) at 1. apply (IH (S m)); [lra|lra| |exact Hp'].
        intros h' [= <-]. lra.
      * assert (He : Reqb pinf pinf = true) by (apply Reqb_true; reflexivity). rewrite He.
        change pinf with (enc None) at 1. apply (IH (S m)); [lra|lra| |exact Hp'].
        intros h' Hh'; discriminate.
Qed.
End Bisect.

Ltac let1 y := lazymatch goal with |- (let x := ?v in @?B x) = ?r => pose (y := v); change (B y = r); cbv beta end.

(* the exponent the bisection ends with *)
Definition row_exp (n : nat) (k : Z) (row : list R) : R :=
  bisect_exp RNum tol n (psum RNum row) (nlog2 RNum (of_Z RNum k)) 0 None 1.

Theorem src_reprocess_row_eq (pinf : R) (row : list R) (k : Z) (n : nat) :
  2 ^ n < pinf ->
  src_reprocess_row RNum pinf row k (Z.of_nat n) = map (fun p => npow RNum p (row_exp n k row)) row.
Proof.
  intros Hpinf. cbv beta delta [src_reprocess_row].
  let1 target. let1 lo. let1 hi. let1 mid.
  match goal with |- context[for_range 0%Z (Z.of_nat n) ?f ?s] => set (L := for_range 0%Z (Z.of_nat n) f s) end.
  assert (HL : snd (fst L) = row_exp n k row).
  { subst L. rewrite for_range_iter.
    match goal with |- context[iter_l n ?F _] => set (Fb := F) end.
    assert (Hdead : forall hi mid lo : R, Fb (false, hi, mid, lo) = (false, hi, mid, lo)) by reflexivity.
    assert (Hlive : forall hi mid lo : R, Fb (true, hi, mid, lo) =
              if Rltb (Rabs (psum RNum row mid - target)) tol then (false, hi, mid, lo)
              else if Rltb (psum RNum row mid) target then (true, mid, (lo + mid) / 2, lo)
              else (true, hi, (if Reqb hi pinf then mid * 2 else (mid + hi) / 2), mid)).
    { intros hi1 mid1 lo1. subst Fb. cbv beta iota zeta.
      erewrite (for_range_list RNum _ row); [|intros ? ?; reads].
      change (fold_left (fun (s : RNum) (x : RNum) => add RNum s (npow RNum x mid1)) row (zero RNum)) with (psum RNum row mid1).
      rewrite nlit_2_0R. cbn [ltb eqb nabs sub add mul div of_Z RNum]. rn.
      destruct (Rltb (Rabs (psum RNum row mid1 - target)) tol); [reflexivity|].
      destruct (Rltb (psum RNum row mid1) target); [reflexivity|].
      destruct (Reqb hi1 pinf); reflexivity. }
    exact (bisect_loop pinf target (psum RNum row) Fb Hdead Hlive n 0%nat 0 None 1
             ltac:(cbn; lra) ltac:(cbn; lra) ltac:(intros h Hh; discriminate) Hpinf). }
  destruct L as [[[lv h'] m'] l']. cbn [fst snd] in HL. subst m'. reflexivity.
Qed.

(* any int n_iters (a negative one runs no iteration, as range() does) *)
Theorem src_reprocess_row_eqZ (pinf : R) (row : list R) (k n_iters : Z) :
  2 ^ Z.to_nat n_iters < pinf ->
  src_reprocess_row RNum pinf row k n_iters = map (fun p => npow RNum p (row_exp (Z.to_nat n_iters) k row)) row.
Proof.
  intros H. rewrite <- (src_reprocess_row_eq pinf row k (Z.to_nat n_iters) H).
  unfold src_reprocess_row, for_range. rewrite !Z.sub_0_r, Nat2Z.id. reflexivity.
Qed.

(* the target: np.log2(k) of the source is the model's [log2k]; with the model's names: the exponent of row i of a sparse
   matrix is [row_mid], the new values are the [reprocess] values *)
Lemma row_exp_model (n : nat) (k : Z) (row : list R) :
  row_exp n k row = bisect_exp RNum tol n (psum RNum row) (log2k RNum k) 0 None 1.
Proof. unfold row_exp, nlog2, log2k. rewrite twoR. reflexivity. Qed.

Corollary src_reprocess_row_row_mid (pinf : R) (s : smat RNum) (i : nat) (k : Z) (n : nat) :
  2 ^ n < pinf ->
  src_reprocess_row RNum pinf (row_vals RNum s i) k (Z.of_nat n)
  = map (fun p => npow RNum p (row_mid RNum tol k n s i)) (row_vals RNum s i).
Proof. intros H. rewrite (src_reprocess_row_eq pinf _ k n H), row_exp_model. reflexivity. Qed.

Lemma src_reprocess_row_length (pinf : R) (row : list R) (k n_iters : Z) :
  length (src_reprocess_row RNum pinf row k n_iters) = length row.
Proof.
  unfold src_reprocess_row. cbv zeta.
  match goal with |- context[@for_range ?S ?a ?b ?f ?s] => destruct (@for_range S a b f s) as [[[lv h] m] l] end.
  unfold vmaps_r. apply map_length.
Qed.
End Reprocess.

(* (b) reset_local_metrics: the loop over the CSR rows.  Generic in the element type and in the row function [g] (any
   length-preserving function): [indptr] is the table of row offsets of a list of rows, [data] their concatenation. *)
Section Csr.
Context {A : Type}.
Variable g : list A -> list A.
Hypothesis g_length : forall r, length (g r) = length r.

Definition row_offsets_ok (indptr : list Z) (rows : list (list A)) : Prop :=
  length indptr = Datatypes.S (length rows) /\
  forall k, k <= length rows -> inth indptr (Z.of_nat k) = Z.of_nat (length (concat (firstn k rows))).

Definition csr_step (indptr : list Z) (i : Z) (data : list A) : list A :=
  zset_slice data (inth indptr i) (inth indptr (i + 1)) (g (zslice data (inth indptr i) (inth indptr (i + 1)))).

Lemma csr_loop (indptr : list Z) (all : list (list A)) : row_offsets_ok indptr all ->
  forall (rows Pr : list (list A)) (P : list A), all = Pr ++ rows -> length P = length (concat Pr) ->
  fold_left (fun data k => csr_step indptr (Z.of_nat k) data) (seq (length Pr) (length rows)) (P ++ concat rows)
  = P ++ concat (map g rows).
Proof.
  intros [_ Hip]. induction rows as [|r rows IH]; intros Pr P Hall LP; [reflexivity|].
  cbn [length seq fold_left concat map]. unfold csr_step at 2.
  assert (Hlen : length all = length Pr + Datatypes.S (length rows)) by (rewrite Hall, app_length; reflexivity).
  rewrite Z_of_nat_succ. rewrite !Hip by lia.
  assert (E1 : firstn (length Pr) all = Pr) by (rewrite Hall, firstn_app, firstn_all, Nat.sub_diag; cbn [firstn]; apply app_nil_r).
  assert (E2 : firstn (Datatypes.S (length Pr)) all = Pr ++ [r]).
  { rewrite Hall. change (Pr ++ r :: rows) with (Pr ++ [r] ++ rows). rewrite app_assoc.
    replace (Datatypes.S (length Pr)) with (length (Pr ++ [r])) by (rewrite app_length; cbn; lia).
    rewrite firstn_app, firstn_all, Nat.sub_diag. cbn [firstn]. apply app_nil_r. }
  rewrite E1, E2. rewrite concat_app. cbn [concat]. rewrite app_nil_r, app_length, <- LP.
  rewrite zslice_app3. rewrite zset_slice_app3 by apply g_length.
  assert (L1 : length (Pr ++ [r]) = Datatypes.S (length Pr)) by (rewrite app_length; cbn; lia).
  pose proof (IH (Pr ++ [r]) (P ++ g r)) as I. rewrite L1 in I.
  rewrite <- !app_assoc in I. apply I.
  - rewrite Hall. reflexivity.
  - rewrite concat_app. cbn [concat]. rewrite app_nil_r, !app_length, g_length. lia.
Qed.

Lemma csr_for_range (indptr : list Z) (rows : list (list A)) : row_offsets_ok indptr rows ->
  for_range 0 (zlen indptr - 1) (csr_step indptr) (concat rows) = concat (map g rows).
Proof.
  intros H. pose proof H as [L _]. unfold zlen. rewrite L.
  replace (Z.of_nat (Datatypes.S (length rows)) - 1)%Z with (Z.of_nat (length rows)) by lia.
  rewrite for_range_0. exact (csr_loop indptr rows H rows [] [] eq_refl eq_refl).
Qed.
End Csr.

(* every well-formed CSR index pointer (starts at 0, non-decreasing, last entry = len(data)) is the offset table of the
   segments it cuts [data] into, and these segments concatenate to [data] *)
Lemma firstn_succ_nth {B : Type} (d : B) : forall (l : list B) (k : nat), k < length l -> firstn (Datatypes.S k) l = firstn k l ++ [nth k l d].
Proof.
  induction l as [|a l IH]; intros k H; [cbn in H; lia|]. destruct k as [|k]; [reflexivity|].
  cbn [firstn nth app]. f_equal. apply IH. cbn in H; lia.
Qed.

Section CsrWf.
Context {A : Type}.

Definition csr_rows (indptr : list Z) (data : list A) : list (list A) :=
  map (fun k => zslice data (inth indptr (Z.of_nat k)) (inth indptr (Z.of_nat (Datatypes.S k)))) (seq 0 (length indptr - 1)).

Definition indptr_wf (indptr : list Z) (len : nat) : Prop :=
  indptr <> [] /\ inth indptr 0 = 0%Z /\
  (forall k, Datatypes.S k < length indptr -> (inth indptr (Z.of_nat k) <= inth indptr (Z.of_nat (Datatypes.S k)))%Z) /\
  inth indptr (Z.of_nat (length indptr - 1)) = Z.of_nat len.

Lemma csr_wf_rows (indptr : list Z) (data : list A) : indptr_wf indptr (length data) ->
  row_offsets_ok indptr (csr_rows indptr data) /\ concat (csr_rows indptr data) = data.
Proof.
  intros (Hne & H0 & Hmono & Hlast).
  set (n := length indptr - 1) in *. set (rows := csr_rows indptr data).
  assert (Ln : length indptr = Datatypes.S n) by (destruct indptr; [contradiction|cbn in *; lia]).
  assert (Lr : length rows = n) by (unfold rows, csr_rows; rewrite map_length, seq_length; reflexivity).
  assert (Hle : forall k j, j <= k -> k <= n -> (inth indptr (Z.of_nat j) <= inth indptr (Z.of_nat k))%Z).
  { induction k as [|k IH]; intros j Hj Hk.
    - replace j with 0%nat by lia. lia.
    - destruct (Nat.eq_dec j (Datatypes.S k)) as [->|Hn]; [lia|].
      specialize (IH j ltac:(lia) ltac:(lia)). specialize (Hmono k ltac:(lia)). lia. }
  assert (Hb : forall k, k <= n -> (0 <= inth indptr (Z.of_nat k) <= Z.of_nat (length data))%Z).
  { intros k Hk. pose proof (Hle k 0%nat ltac:(lia) Hk) as B1. pose proof (Hle n k Hk ltac:(lia)) as B2.
    change (Z.of_nat 0) with 0%Z in B1. rewrite H0 in B1. rewrite Hlast in B2. lia. }
  assert (Hpre : forall k, k <= n -> concat (firstn k rows) = firstn (Z.to_nat (inth indptr (Z.of_nat k))) data).
  { induction k as [|k IH]; intros Hk.
    - change (Z.of_nat 0) with 0%Z. rewrite H0. reflexivity.
    - rewrite (firstn_succ_nth [] rows k) by lia. rewrite concat_app. cbn [concat]. rewrite app_nil_r, IH by lia.
      unfold rows at 1, csr_rows. fold n.
      rewrite (nth_map_in _ _ k 0%nat) by (rewrite seq_length; lia).
      rewrite seq_nth by lia. cbn [Nat.add].
      pose proof (Hb k ltac:(lia)) as Bk. pose proof (Hb (Datatypes.S k) Hk) as BS. pose proof (Hmono k ltac:(lia)) as Mk.
      set (a := inth indptr (Z.of_nat k)) in *. set (b := inth indptr (Z.of_nat (Datatypes.S k))) in *.
      rewrite <- (Z2Nat.id a) at 2 by lia. rewrite <- (Z2Nat.id b) at 1 by lia. rewrite zslice_of_nat.
      replace (firstn (Z.to_nat a) data) with (firstn (Z.to_nat a) (firstn (Z.to_nat b) data))
        by (rewrite firstn_firstn; f_equal; lia).
      apply firstn_skipn. }
  split; [split|].
  - rewrite Lr. exact Ln.
  - rewrite Lr. intros k Hk. rewrite (Hpre k Hk), firstn_length. pose proof (Hb k Hk). lia.
  - rewrite <- (firstn_all rows), Lr, (Hpre n (le_n n)). fold n in Hlast. rewrite Hlast, Nat2Z.id. apply firstn_all.
Qed.
End CsrWf.

Section Reset.
Local Open Scope R_scope.
Notation tol := (src_const_SMOOTH_K_TOLERANCE RNum).
Notation dk := src_default_reprocess_row_k.
Notation dn := src_default_reprocess_row_n_iters.

Theorem src_reset_local_metrics_eq (pinf : R) (indptr : list Z) (rows : list (list R)) :
  row_offsets_ok indptr rows -> 2 ^ Z.to_nat dn < pinf ->
  src_reset_local_metrics RNum pinf indptr (concat rows)
  = concat (map (fun row => map (fun p => npow RNum p (row_exp (Z.to_nat dn) dk row)) row) rows).
Proof.
  intros H Hp. unfold src_reset_local_metrics.
  transitivity (concat (map (fun r : list R => src_reprocess_row RNum pinf r dk dn) rows)).
  - exact (csr_for_range (fun r : list R => src_reprocess_row RNum pinf r dk dn)
             (fun r => src_reprocess_row_length pinf r dk dn) indptr rows H).
  - f_equal. apply map_ext. intros row. apply src_reprocess_row_eqZ. exact Hp.
Qed.

(* the same for a well-formed (indptr, data) pair: the CSR rows are the segments data[indptr[i]:indptr[i+1]] *)
Corollary src_reset_local_metrics_wf (pinf : R) (indptr : list Z) (data : list R) :
  indptr_wf indptr (length data) -> 2 ^ Z.to_nat dn < pinf ->
  src_reset_local_metrics RNum pinf indptr data
  = concat (map (fun row => map (fun p => npow RNum p (row_exp (Z.to_nat dn) dk row)) row) (csr_rows indptr data)).
Proof.
  intros H Hp. destruct (csr_wf_rows indptr data H) as [Hok Hc].
  rewrite <- Hc at 1. apply src_reset_local_metrics_eq; assumption.
Qed.
End Reset.

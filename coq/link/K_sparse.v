(* Capstone corollaries for C13: the property statement itself between the two TRANSLATED SOURCES -- the sparse metric of the current
   umap/sparse.py applied to two canonical CSR rows equals the dense metric of the current umap/distances.py applied to the densified
   vectors, for all rows of every length (over R).  Chain: L_sparse (translated sparse source = model merge/metric, iteration budget not
   exhausted) ; P_C13 (model sparse metric = model dense metric on densified vectors) ; C13_dense_is_C12 ; L_distances (model dense
   metric = translated dense source). *)
From Coq Require Import List ZArith Bool Arith Lia Reals Lra.
From UV Require Import Num PyPrim PyPrimLemmas M_metrics T_link M_sparse T_sparse T_sparse_metrics T_sparse_corr T_sparse_link P_C13.
From UVS Require Import Src_sparse L_sparse Src_distances L_distances.
Import ListNotations.
Local Open Scope R_scope.

Section K.
Context (U : list Z -> list Z -> list Z) (a b : rvec) (n : nat).
Hypothesis Ca : canonical a.  Hypothesis Cb : canonical b.
Hypothesis Ba : below n a.    Hypothesis Bb : below n b.
(* the buffer arr_union returns is at least as long as the merge of the two index arrays *)
Hypothesis HU : (length (arr_union (inds RNum a) (inds RNum b)) <= length (U (zi RNum a) (zi RNum b)))%nat.

Let da := densify RNum n a.
Let db := densify RNum n b.
Lemma Lab : length da = length db.
Proof. unfold da, db. change (densify RNum) with Rdensify. rewrite !densify_length. reflexivity. Qed.

Corollary C13_src_euclidean :
  src_sparse_euclidean RNum U (zi RNum a) (vals RNum a) (zi RNum b) (vals RNum b) = (src_euclidean RNum da db, true).
Proof.
  rewrite (src_sparse_euclidean_eq RNum U a b HU). rewrite (C13_euclidean a b n Ca Cb Ba Bb).
  destruct (C13_dense_is_C12 da db Lab) as (E & _). fold da db. rewrite E. rewrite (src_euclidean_eqR da db Lab). reflexivity.
Qed.

Corollary C13_src_manhattan :
  src_sparse_manhattan RNum U (zi RNum a) (vals RNum a) (zi RNum b) (vals RNum b) = (src_manhattan RNum da db, true).
Proof.
  rewrite (src_sparse_manhattan_eq RNum U a b HU). rewrite (C13_manhattan a b n Ca Cb Ba Bb).
  destruct (C13_dense_is_C12 da db Lab) as (_ & E & _). fold da db. rewrite E. rewrite (src_manhattan_eqR da db Lab). reflexivity.
Qed.

Corollary C13_src_chebyshev :
  src_sparse_chebyshev RNum U (zi RNum a) (vals RNum a) (zi RNum b) (vals RNum b) = (src_chebyshev RNum da db, true).
Proof.
  rewrite (src_sparse_chebyshev_eq RNum U a b HU). rewrite (C13_chebyshev a b n Ca Cb Ba Bb).
  destruct (C13_dense_is_C12 da db Lab) as (_ & _ & E & _). fold da db. rewrite E. rewrite (src_chebyshev_eq RNum da db Lab). reflexivity.
Qed.

Corollary C13_src_hamming : (0 < n)%nat ->
  src_sparse_hamming RNum U (zi RNum a) (vals RNum a) (zi RNum b) (vals RNum b) (Z.of_nat n) = (src_hamming RNum da db, true).
Proof.
  intros Hn. rewrite (src_sparse_hamming_eq RNum U a b HU n). rewrite (C13_hamming a b n Hn Ca Cb Ba Bb).
  destruct (C13_dense_is_C12 da db Lab) as (_ & _ & _ & _ & _ & _ & E & _). fold da db. rewrite E. rewrite (src_hamming_eq da db Lab). reflexivity.
Qed.

(* binary family: only the LENGTHS of arr_union / arr_intersect are read *)
Corollary C13_src_jaccard (I : list Z -> list Z -> list Z) :
  zlen (U (zi RNum a) (zi RNum b)) = n_union RNum a b -> zlen (I (zi RNum a) (zi RNum b)) = n_inter RNum a b ->
  src_sparse_jaccard RNum U I (zi RNum a) (vals RNum a) (zi RNum b) (vals RNum b) = src_jaccard RNum da db.
Proof.
  intros HU' HI'. rewrite (src_sparse_jaccard_eq RNum U I a b HU' HI'). rewrite (C13_jaccard a b n Ca Cb Ba Bb).
  destruct (C13_dense_is_C12 da db Lab) as (_ & _ & _ & _ & _ & _ & _ & E & _). fold da db. rewrite E. rewrite (src_jaccard_eq da db Lab). reflexivity.
Qed.
End K.

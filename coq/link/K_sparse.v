(* Capstone corollaries for C13: the property statement itself between the two TRANSLATED SOURCES -- the sparse metric of the current
   umap/sparse.py applied to two canonical CSR rows equals the dense metric of the current umap/distances.py applied to the densified
   vectors, for all rows of every length (over R).  Chain: L_sparse (translated sparse source = model merge/metric, iteration budget not
   exhausted) ; P_C13 (model sparse metric = model dense metric on densified vectors) ; C13_dense_is_C12 ; L_distances (model dense
   metric = translated dense source).  Linked this way: all 19 sparse registry metrics (session 4 added the binary family, minkowski,
   bray_curtis, russellrao, hellinger, canberra); first: euclidean, manhattan, chebyshev, hamming, jaccard, cosine, correlation (the
   current, repaired text of sparse_correlation), ll_dirichlet (L_sparse_lld ; P_C13.C13_ll_dirichlet ; L_distances.src_ll_dirichlet_eq;
   under the hypotheses of C13_ll_dirichlet: no empty row, stored values > 0.9, coordinate-wise products 0 or > 0.9). *)
From Coq Require Import List ZArith Bool Arith Lia Reals Lra.
From UV Require Import Num PyPrim PyPrimLemmas M_metrics T_link M_sparse M_sparse_lld T_metrics_real T_sparse T_sparse_metrics T_sparse_corr T_sparse_link T_sparse_lld P_C13.
From UVS Require Import Src_sparse L_sparse L_sparse_lld Src_distances L_distances.
Import ListNotations.
Local Open Scope R_scope.

Section K.
Context (U : list Z -> list Z -> list Z) (a b : rvec) (n : nat).
Hypothesis Ca : canonical a.  Hypothesis Cb : canonical b.
Hypothesis Ba : below n a.    Hypothesis Bb : below n b.
(* the buffer arr_union returns is at least as long as the merge of the two index arrays *)
Hypothesis HU : (length (arr_union (inds RNum a) (inds RNum b)) <= length (U (zi RNum a) (zi RNum b)))%nat.

Let da := densify RNum n a.
Let db := densify RNum n b.
Lemma Lab : length da = length db.
Proof. unfold da, db. change (densify RNum) with Rdensify. rewrite !densify_length. reflexivity. Qed.

Corollary C13_src_euclidean :
  src_sparse_euclidean RNum U (zi RNum a) (vals RNum a) (zi RNum b) (vals RNum b) = (src_euclidean RNum da db, true).
Proof.
  rewrite (src_sparse_euclidean_eq RNum U a b HU). rewrite (C13_euclidean a b n Ca Cb Ba Bb).
  destruct (C13_dense_is_C12 da db Lab) as (E & _). fold da db. rewrite E. rewrite (src_euclidean_eqR da db Lab). reflexivity.
Qed.

Corollary C13_src_manhattan :
  src_sparse_manhattan RNum U (zi RNum a) (vals RNum a) (zi RNum b) (vals RNum b) = (src_manhattan RNum da db, true).
Proof.
  rewrite (src_sparse_manhattan_eq RNum U a b HU). rewrite (C13_manhattan a b n Ca Cb Ba Bb).
  destruct (C13_dense_is_C12 da db Lab) as (_ & E & _). fold da db. rewrite E. rewrite (src_manhattan_eqR da db Lab). reflexivity.
Qed.

Corollary C13_src_chebyshev :
  src_sparse_chebyshev RNum U (zi RNum a) (vals RNum a) (zi RNum b) (vals RNum b) = (src_chebyshev RNum da db, true).
Proof.
  rewrite (src_sparse_chebyshev_eq RNum U a b HU). rewrite (C13_chebyshev a b n Ca Cb Ba Bb).
  destruct (C13_dense_is_C12 da db Lab) as (_ & _ & E & _). fold da db. rewrite E. rewrite (src_chebyshev_eq RNum da db Lab). reflexivity.
Qed.

Corollary C13_src_hamming : (0 < n)%nat ->
  src_sparse_hamming RNum U (zi RNum a) (vals RNum a) (zi RNum b) (vals RNum b) (Z.of_nat n) = (src_hamming RNum da db, true).
Proof.
  intros Hn. rewrite (src_sparse_hamming_eq RNum U a b HU n). rewrite (C13_hamming a b n Hn Ca Cb Ba Bb).
  destruct (C13_dense_is_C12 da db Lab) as (_ & _ & _ & _ & _ & _ & E & _). fold da db. rewrite E. rewrite (src_hamming_eq da db Lab). reflexivity.
Qed.

(* binary family: only the LENGTHS of arr_union / arr_intersect are read *)
Corollary C13_src_jaccard (I : list Z -> list Z -> list Z) :
  zlen (U (zi RNum a) (zi RNum b)) = n_union RNum a b -> zlen (I (zi RNum a) (zi RNum b)) = n_inter RNum a b ->
  src_sparse_jaccard RNum U I (zi RNum a) (vals RNum a) (zi RNum b) (vals RNum b) = src_jaccard RNum da db.
Proof.
  intros HU' HI'. rewrite (src_sparse_jaccard_eq RNum U I a b HU' HI'). rewrite (C13_jaccard a b n Ca Cb Ba Bb).
  destruct (C13_dense_is_C12 da db Lab) as (_ & _ & _ & _ & _ & _ & _ & E & _). fold da db. rewrite E. rewrite (src_jaccard_eq da db Lab). reflexivity.
Qed.
(* the rest of the binary family (session 4): same chain, for the metrics that take the row length n and the two that do not *)
Ltac dense_side L := fold da db; rewrite L by exact Lab; pose proof (C13_dense_is_C12 da db Lab) as D; decompose [and] D; assumption.
Corollary C13_src_matching (I : list Z -> list Z -> list Z) : (0 < n)%nat ->
  zlen (U (zi RNum a) (zi RNum b)) = n_union RNum a b -> zlen (I (zi RNum a) (zi RNum b)) = n_inter RNum a b ->
  src_sparse_matching RNum U I (zi RNum a) (vals RNum a) (zi RNum b) (vals RNum b) (Z.of_nat n) = src_matching RNum da db.
Proof.
  intros Hn HU' HI'. rewrite (src_sparse_matching_eq RNum U I a b HU' HI' n). rewrite (C13_matching a b n Hn Ca Cb Ba Bb).
  dense_side src_matching_eq.
Qed.
Corollary C13_src_kulsinski (I : list Z -> list Z -> list Z) : (0 < n)%nat ->
  zlen (U (zi RNum a) (zi RNum b)) = n_union RNum a b -> zlen (I (zi RNum a) (zi RNum b)) = n_inter RNum a b ->
  src_sparse_kulsinski RNum U I (zi RNum a) (vals RNum a) (zi RNum b) (vals RNum b) (Z.of_nat n) = src_kulsinski RNum da db.
Proof.
  intros Hn HU' HI'. rewrite (src_sparse_kulsinski_eq RNum U I a b HU' HI' n). rewrite (C13_kulsinski a b n Hn Ca Cb Ba Bb).
  dense_side src_kulsinski_eq.
Qed.
Corollary C13_src_rogers_tanimoto (I : list Z -> list Z -> list Z) : (0 < n)%nat ->
  zlen (U (zi RNum a) (zi RNum b)) = n_union RNum a b -> zlen (I (zi RNum a) (zi RNum b)) = n_inter RNum a b ->
  src_sparse_rogers_tanimoto RNum U I (zi RNum a) (vals RNum a) (zi RNum b) (vals RNum b) (Z.of_nat n) = src_rogers_tanimoto RNum da db.
Proof.
  intros Hn HU' HI'. rewrite (src_sparse_rogers_tanimoto_eq RNum U I a b HU' HI' n). rewrite (C13_rogerstanimoto a b n Hn Ca Cb Ba Bb).
  dense_side src_rogers_tanimoto_eq.
Qed.
Corollary C13_src_sokal_michener (I : list Z -> list Z -> list Z) : (0 < n)%nat ->
  zlen (U (zi RNum a) (zi RNum b)) = n_union RNum a b -> zlen (I (zi RNum a) (zi RNum b)) = n_inter RNum a b ->
  src_sparse_sokal_michener RNum U I (zi RNum a) (vals RNum a) (zi RNum b) (vals RNum b) (Z.of_nat n) = src_sokal_michener RNum da db.
Proof.
  intros Hn HU' HI'. rewrite (src_sparse_sokal_michener_eq RNum U I a b HU' HI' n). rewrite (C13_sokalmichener a b n Hn Ca Cb Ba Bb).
  dense_side src_sokal_michener_eq.
Qed.
Corollary C13_src_dice (I : list Z -> list Z -> list Z) :
  zlen (U (zi RNum a) (zi RNum b)) = n_union RNum a b -> zlen (I (zi RNum a) (zi RNum b)) = n_inter RNum a b ->
  src_sparse_dice RNum U I (zi RNum a) (vals RNum a) (zi RNum b) (vals RNum b) = src_dice RNum da db.
Proof.
  intros HU' HI'. rewrite (src_sparse_dice_eq U I a b HU' HI'). rewrite (C13_dice a b n Ca Cb Ba Bb).
  dense_side src_dice_eq.
Qed.
Corollary C13_src_sokal_sneath (I : list Z -> list Z -> list Z) :
  zlen (U (zi RNum a) (zi RNum b)) = n_union RNum a b -> zlen (I (zi RNum a) (zi RNum b)) = n_inter RNum a b ->
  src_sparse_sokal_sneath RNum U I (zi RNum a) (vals RNum a) (zi RNum b) (vals RNum b) = src_sokal_sneath RNum da db.
Proof.
  intros HU' HI'. rewrite (src_sparse_sokal_sneath_eq U I a b HU' HI'). rewrite (C13_sokalsneath a b n Ca Cb Ba Bb).
  dense_side src_sokal_sneath_eq.
Qed.
Corollary C13_src_minkowski (p : R) : p <> 0 ->
  src_sparse_minkowski RNum U (zi RNum a) (vals RNum a) (zi RNum b) (vals RNum b) p = (src_minkowski RNum da db p, true).
Proof.
  intros Hp. rewrite (src_sparse_minkowski_eq RNum U a b HU p). rewrite (C13_minkowski a b n p Hp Ca Cb Ba Bb).
  f_equal. fold da db. rewrite (src_minkowski_eqR p da db Lab).
  destruct (C13_dense_is_C12 da db Lab) as (_ & _ & _ & E & _). apply E.
Qed.

Corollary C13_src_bray_curtis :
  src_sparse_bray_curtis RNum U (zi RNum a) (vals RNum a) (zi RNum b) (vals RNum b) = (src_bray_curtis RNum da db, true).
Proof.
  rewrite (src_sparse_bray_curtis_eq RNum U a b HU). rewrite (C13_braycurtis a b n Ca Cb Ba Bb).
  f_equal. dense_side (src_bray_curtis_eq RNum).
Qed.

Corollary C13_src_russellrao (I : list Z -> list Z -> list Z) : (0 < n)%nat ->
  zlen (I (zi RNum a) (zi RNum b)) = n_inter RNum a b ->
  src_sparse_russellrao RNum I (zi RNum a) (vals RNum a) (zi RNum b) (vals RNum b) (Z.of_nat n) = src_russellrao RNum da db.
Proof.
  intros Hn HI'. rewrite (src_sparse_russellrao_eq RNum I a b HI' n). rewrite (C13_russellrao a b n Hn Ca Cb Ba Bb).
  dense_side src_russellrao_eq.
Qed.

Corollary C13_src_hellinger (I : list Z -> list Z -> list Z) : nonneg a -> nonneg b ->
  (length (arr_intersect (inds RNum a) (inds RNum b)) <= length (I (zi RNum a) (zi RNum b)))%nat ->
  src_sparse_hellinger RNum I (zi RNum a) (vals RNum a) (zi RNum b) (vals RNum b) = (src_hellinger RNum da db, true).
Proof.
  intros Na Nb HI'. rewrite (src_sparse_hellinger_eq RNum I a b HI').
  destruct (C13_hellinger a b n Ca Cb Ba Bb Na Nb) as (E & _). rewrite E.
  f_equal. dense_side (src_hellinger_eq RNum).
Qed.

Corollary C13_src_canberra (I : list Z -> list Z -> list Z) :
  (let D := sparse_diff RNum a b in let S := sparse_sum RNum (map_vals RNum (nabs RNum) a) (map_vals RNum (nabs RNum) b) in
   (length (arr_intersect (inds RNum D) (inds RNum S)) <= length (I (zi RNum D) (zi RNum S)))%nat) ->
  src_sparse_canberra RNum U I (zi RNum a) (vals RNum a) (zi RNum b) (vals RNum b) = (src_canberra RNum da db, true).
Proof.
  intros HI'. rewrite (src_sparse_canberra_eq RNum U I a b HU HI'). rewrite (C13_canberra a b n Ca Cb Ba Bb).
  f_equal. dense_side src_canberra_eq.
Qed.

(* cosine: the product row is written into the buffer arr_intersect returns (only its length matters) *)
Corollary C13_src_cosine (I : list Z -> list Z -> list Z) :
  (length (arr_intersect (inds RNum a) (inds RNum b)) <= length (I (zi RNum a) (zi RNum b)))%nat ->
  src_sparse_cosine RNum I (zi RNum a) (vals RNum a) (zi RNum b) (vals RNum b) = (src_cosine RNum da db, true).
Proof.
  intros HI. rewrite (src_sparse_cosine_eq RNum I a b HI). rewrite (C13_cosine a b n Ca Cb Ba Bb).
  destruct (C13_dense_is_C12 da db Lab) as (_ & _ & _ & _ & _ & _ & _ & _ & _ & _ & _ & _ & _ & _ & _ & E & _). fold da db. rewrite E.
  rewrite (src_cosine_eq RNum da db Lab). reflexivity.
Qed.

(* correlation (the current text of sparse_correlation, i.e. after the two repairs): arr_union is read through its length, arr_intersect
   as the sparse_mul buffer (length) and as the set of common indices (membership) *)
Corollary C13_src_correlation (I : list Z -> list Z -> list Z) : (0 < n)%nat ->
  zlen (U (zi RNum a) (zi RNum b)) = n_union RNum a b ->
  (length (arr_intersect (inds RNum a) (inds RNum b)) <= length (I (zi RNum a) (zi RNum b)))%nat ->
  (forall k : nat, zmem (Z.of_nat k) (I (zi RNum a) (zi RNum b)) = memb k (arr_intersect (inds RNum a) (inds RNum b))) ->
  src_sparse_correlation RNum U I (zi RNum a) (vals RNum a) (zi RNum b) (vals RNum b) (Z.of_nat n) = (src_correlation RNum da db, true).
Proof.
  intros Hn HU' HI HC. rewrite (src_sparse_correlation_eq RNum U I a b n HU' HI HC). rewrite (C13_correlation a b n Hn Ca Cb Ba Bb).
  destruct (C13_dense_is_C12 da db Lab) as (_ & _ & _ & _ & _ & _ & _ & _ & _ & _ & _ & _ & _ & _ & _ & _ & E & _). fold da db. rewrite E.
  rewrite (src_correlation_eq RNum da db Lab). reflexivity.
Qed.

(* ll_dirichlet: translated sparse_ll_dirichlet of the current sparse.py = translated ll_dirichlet of the current distances.py on the
   densified rows (pi / int() read as the real PI / truncation: RExt), on the input class of P_C13.C13_ll_dirichlet *)
Corollary C13_src_ll_dirichlet : a <> [] -> b <> [] -> lld_big a -> lld_big b -> lld_prod a b ->
  src_sparse_ll_dirichlet RNum (RPy RExt) (zi RNum a) (vals RNum a) (zi RNum b) (vals RNum b) = (src_ll_dirichlet RNum (RPy RExt) da db, true).
Proof.
  intros Na Nb Ha Hb Hp. rewrite (src_sparse_ll_dirichlet_RExt a b). rewrite (C13_ll_dirichlet RExt a b n Ca Cb Ba Bb Na Nb Ha Hb Hp).
  fold da db. rewrite (src_ll_dirichlet_eq RExt (fun x => eq_refl) da db Lab). reflexivity.
Qed.
End K.

(* count data (every stored value >= 1, no empty row) is in that class *)
Theorem C13_src_ll_dirichlet_counts (a b : rvec) (n : nat) :
  canonical a -> canonical b -> below n a -> below n b -> a <> [] -> b <> [] ->
  Forall (fun e => 1 <= snd e) a -> Forall (fun e => 1 <= snd e) b ->
  src_sparse_ll_dirichlet RNum (RPy RExt) (zi RNum a) (vals RNum a) (zi RNum b) (vals RNum b)
  = (src_ll_dirichlet RNum (RPy RExt) (densify RNum n a) (densify RNum n b), true).
Proof.
  intros Ca Cb Ba Bb Na Nb Ha Hb. apply (C13_src_ll_dirichlet a b n Ca Cb Ba Bb Na Nb); auto using counts_big, counts_prod.
Qed.

(* the hypotheses on the two helpers are satisfiable for every pair of rows: the model's own merges *)
Theorem C13_src_correlation_model (a b : rvec) (n : nat) :
  canonical a -> canonical b -> below n a -> below n b -> (0 < n)%nat ->
  src_sparse_correlation RNum (fun x y => map Z.of_nat (arr_union (map Z.to_nat x) (map Z.to_nat y)))
                              (fun x y => map Z.of_nat (arr_intersect (map Z.to_nat x) (map Z.to_nat y)))
                              (zi RNum a) (vals RNum a) (zi RNum b) (vals RNum b) (Z.of_nat n)
  = (src_correlation RNum (densify RNum n a) (densify RNum n b), true).
Proof.
  intros Ca Cb Ba Bb Hn.
  assert (E : forall l : list nat, map Z.to_nat (map Z.of_nat l) = l).
  { induction l as [|k l IH]; cbn; [reflexivity|]. rewrite Nat2Z.id, IH. reflexivity. }
  apply C13_src_correlation; try assumption; unfold zi; rewrite !E.
  - unfold zlen, n_union. rewrite map_length. reflexivity.
  - rewrite map_length. apply le_n.
  - intros k. apply zmem_of_nat.
Qed.

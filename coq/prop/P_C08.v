(* C08 — property statements only.  Model: the buffer machine of model/M_alias.v (fit = graph stage ; layout stage). *)
From Coq Require Import List Bool.
From UV Require Import M_alias T_alias.
Import ListNotations.

(* structural: fit is the graph stage, which takes no layout-stage attribute, followed by the layout stage *)
Theorem C08_graph_stage_structural : forall f fx m g l,
  fit_prog f fx m g l = graph_stage f fx m g ++ layout_stage f fx m g l.
Proof. exact graph_stage_ignores_layout_params. Qed.
Print Assumptions C08_graph_stage_structural.

(* the layout stage leaves graph_'s data / indices / indptr buffers exactly as the graph stage produced them (same locations, same
   versions, same flags), for every environment fact, graph-stage valuation and layout-stage valuation: finite space, checked by
   vm_compute and lifted; its size is C08_bound *)
Theorem C08_graph_kept : forall f g l, exists s1 s2 v,
  run (graph_stage f cur 0 g) init_state = Some s1 /\ run (fit_prog f cur 0 g l) init_state = Some s2 /\
  graph_view s1 0 = Some v /\ graph_view s2 0 = Some v.
Proof. exact layout_preserves_graph. Qed.
Print Assumptions C08_graph_kept.

Theorem C08_bound :
  length all_facts = 2 /\ length all_gcfg = 2304 /\ length all_lcfg = 24 /\ length all_tcfg = 32 /\ length all_ucfg = 16.
Proof. exact attribute_space_size. Qed.
Print Assumptions C08_bound.

(* two fits differing only in layout-stage attributes end with identical graph buffers *)
Theorem C08_graph_independent : forall f g l1 l2, exists s2 s2' v,
  run (fit_prog f cur 0 g l1) init_state = Some s2 /\ run (fit_prog f cur 0 g l2) init_state = Some s2' /\
  graph_view s2 0 = Some v /\ graph_view s2' 0 = Some v.
Proof. exact graph_independent_of_layout. Qed.
Print Assumptions C08_graph_independent.

(* unbounded form: from ANY state (any history, any graph stage) the layout stage writes no buffer that already exists and rebinds
   no attribute other than embedding_ *)
Theorem C08_layout_frame : forall f m g l s s',
  run (layout_stage f cur m g l) s = Some s' ->
  heap_frame s s' /\ (forall m' a, a <> Embedding -> lookup (env s') (Attr m' a) = lookup (env s) (Attr m' a)).
Proof. exact layout_stage_frame. Qed.
Print Assumptions C08_layout_frame.

(* no explicitly stored zeros: after fit (every valuation), after update, after * + - *)
Theorem C08_no_stored_zeros :
  (forall f g l, exists s, run (fit_prog f cur 0 g l) init_state = Some s /\ graph_zeros s 0 = Some false) /\
  (forall f u, c08_update_ok cur f u = true) /\
  (forall f k w, c08_combine_ok cur f k w = true).
Proof. exact no_stored_zeros. Qed.
Print Assumptions C08_no_stored_zeros.

(* what feb32e9 repaired: with graph.tocoo() (no explicit copy) the statement holds iff SciPy's tocoo copies ... *)
Theorem C08_old_code_ok_if_tocoo_copies : forall g l, c08_ok old_tocoo (mkFacts false) g l = true.
Proof. exact layout_preserves_graph_old_if_tocoo_copies. Qed.
Print Assumptions C08_old_code_ok_if_tocoo_copies.

(* ... and fails under the SciPy behaviour probed at run time (shared buffer), canonical CSR, one prunable edge *)
Theorem C08_graph_kept_refuted_for_old_code : exists s1 s2,
  run (graph_stage (mkFacts true) old_tocoo 0 g_plain) init_state = Some s1 /\
  run (fit_prog (mkFacts true) old_tocoo 0 g_plain l_plain) init_state = Some s2 /\
  graph_canon s1 0 = Some true /\
  lookup (env s2) (Attr 0 GData) = lookup (env s1) (Attr 0 GData) /\
  ver_of s1 (Attr 0 GData) = Some 1 /\ ver_of s2 (Attr 0 GData) = Some 2 /\
  graph_zeros s1 0 = Some false /\ graph_zeros s2 0 = Some true.
Proof. exact layout_preserves_graph_refuted. Qed.
Print Assumptions C08_graph_kept_refuted_for_old_code.
